#!/bin/sh
# Builds the framework from files on disk only (offline): translator, harness,
# regenerated models, the whole Coq development (full .vo build).
set -e
cd "$(dirname "$0")"
export GOFLAGS=-mod=mod GOPROXY=off GOSUMDB=off GOTOOLCHAIN=local
python3 - <<'PY'
import sys, os
sys.path.insert(0, "lib")
import vcheck
ok, msg = vcheck.build_tools()
if not ok:
    print(msg); sys.exit(1)
ok, log = vcheck.regenerate()
print(log.strip())
if not ok:
    sys.exit(1)
ok, log = vcheck.coq_make()
if not ok:
    print(log[-4000:]); sys.exit(1)
bad = vcheck.audit()
if bad:
    print("forbidden constructs:", bad); sys.exit(1)
print("setup ok")
PY
