(** IEEE-754 binary64 as Go's float64, on top of Flocq (executable). *)
From Coq Require Import ZArith Bool.
From Flocq Require Import Core.Zaux IEEE754.BinarySingleNaN IEEE754.Binary IEEE754.Bits.
From PV Require Import Model.GoInt.
Open Scope Z_scope.

Definition f64 := binary64.
Definition of_bits (z : Z) : f64 := b64_of_bits z.
Definition to_bits (f : f64) : Z := bits_of_b64 f.

Definition fadd (x y : f64) : f64 := b64_plus mode_NE x y.
Definition fsub (x y : f64) : f64 := b64_minus mode_NE x y.
Definition fmul (x y : f64) : f64 := b64_mult mode_NE x y.
Definition fdiv (x y : f64) : f64 := b64_div mode_NE x y.
Definition fneg (x : f64) : f64 := b64_opp x.
Definition fabs (x : f64) : f64 := b64_abs x.

Definition fcmp (x y : f64) : option comparison := b64_compare x y.
Definition flt (x y : f64) : bool := match fcmp x y with Some Lt => true | _ => false end.
Definition fgt (x y : f64) : bool := match fcmp x y with Some Gt => true | _ => false end.
Definition fle (x y : f64) : bool := match fcmp x y with Some Lt | Some Eq => true | _ => false end.
Definition fge (x y : f64) : bool := match fcmp x y with Some Gt | Some Eq => true | _ => false end.
Definition feq (x y : f64) : bool := match fcmp x y with Some Eq => true | _ => false end.
Definition fne (x y : f64) : bool := negb (feq x y).

Definition fis_inf (x : f64) : bool := match x with B754_infinity _ _ _ => true | _ => false end.
Definition fis_nan (x : f64) : bool := is_nan 53 1024 x.
Definition fis_finite (x : f64) : bool := is_finite 53 1024 x.

(** float64(int64): round to nearest even *)
Definition of_int (z : Z) : f64 :=
  binary_normalize 53 1024 (refl_equal _) (refl_equal _) mode_NE z 0 false.

(** math.Floor / Ceil / Trunc / Round (Round = half away from zero) *)
Definition ffloor (x : f64) : f64 := Bnearbyint 53 1024 (refl_equal _) unop_nan_pl64 mode_DN x.
Definition fceil  (x : f64) : f64 := Bnearbyint 53 1024 (refl_equal _) unop_nan_pl64 mode_UP x.
Definition ftrunc (x : f64) : f64 := Bnearbyint 53 1024 (refl_equal _) unop_nan_pl64 mode_ZR x.
Definition fround (x : f64) : f64 := Bnearbyint 53 1024 (refl_equal _) unop_nan_pl64 mode_NA x.

(** exact integer value of a finite float, truncated toward zero *)
Definition ztrunc (x : f64) : Z := Binary.Btrunc 53 1024 x.

(** Go's int64(f): exact truncation when the value is representable, otherwise
    implementation-defined: the distinguished outcome ConvUB *)
Definition to_int {E} (x : f64) : res Z E :=
  if fis_finite x then let z := ztrunc x in if int64b z then Ok z else ConvUB else ConvUB.

Definition fzero : f64 := B754_zero 53 1024 false.
