From Coq Require Import ZArith Bool List String.
From PV Require Import Model.Solutions.
Import ListNotations.
Open Scope Z_scope.

Definition res_eqb (a b : res) : bool :=
  match a, b with
  | RBool x, RBool y => Bool.eqb x y
  | RScan None, RScan None => true
  | RScan (Some x), RScan (Some y) => Nat.eqb x y
  | RErr None, RErr None => true
  | RErr (Some x), RErr (Some y) => String.eqb x y
  | RClosed x, RClosed y => Bool.eqb x y
  | RBlocked, RBlocked => true
  | _, _ => false
  end.
Fixpoint all_eq (a b : list res) : bool :=
  match a, b with
  | [], [] => true
  | x :: a', y :: b' => res_eqb x y && all_eq a' b'
  | _, _ => false
  end.
Definition solcase := (Z * producer * list call * list res)%type.
Definition check_solutions (cs : list solcase) : list (Z * Z * Z) :=
  filter (fun r => negb (Z.eqb (snd (fst r)) 0))
    (map (fun c => match c with (id, p, script, obs) =>
                     (id, if all_eq (snd (run p init script)) obs then 0 else 1, 0) end) cs).
