(** Comparison of the model's evaluation with outcomes observed on the
    implementation (used by the harness-written case files). *)
From Coq Require Import ZArith Bool List String.
From PV Require Import Model.GoInt Model.F64 Model.Num Gen.Arith_gen Model.Eval.
Import ListNotations.
Open Scope Z_scope.

Definition oval_eq_dec (a b : oval) : {a = b} + {a <> b}.
Proof. repeat decide equality. Defined.
Definition ocmp_eq_dec (a b : ocmp) : {a = b} + {a <> b}.
Proof. repeat decide equality. Defined.

(** a case whose model value is [VUnmodelled] involves a transcendental
    function and is not compared *)
Definition is_agree (m o : oval) : bool :=
  match m with VUnmodelled => true | _ => if oval_eq_dec m o then true else false end.

Definition is_mismatches (cs : list (Z * expr * oval)) : list Z :=
  map (fun c => fst (fst c)) (filter (fun c => negb (is_agree (obs_eval (snd (fst c))) (snd c))) cs).

Definition cmp_agree (op : cmpop) (e1 e2 : expr) (o : ocmp) : bool :=
  match compare_goal op e1 e2 with
  | Unmodelled => true
  | _ => if ocmp_eq_dec (obs_compare op e1 e2) o then true else false
  end.

Definition cmp_mismatches (cs : list (Z * cmpop * expr * expr * ocmp)) : list Z :=
  map (fun c => match c with (id, _, _, _, _) => id end)
      (filter (fun c => match c with (_, op, e1, e2, o) => negb (cmp_agree op e1 e2 o) end) cs).
