(** C06 case files for quoted atoms: the text writeq produced for an atom (as code
    points) against the model's quote, and the model's reader on that text. *)
From Coq Require Import ZArith Bool List.
From PV Require Import Model.Quote.
Import ListNotations.
Open Scope Z_scope.

(** isSingleQuotedCharacter on the code points the generator uses: graphic, alphanumeric,
    solo, space, double quote, back quote; the letters of the generator's pool; the two
    blocks of mathematical operators the lexer counts as graphic *)
Definition accept_gen (c : Z) : bool :=
  existsb (Z.eqb c) [35; 36; 38; 42; 43; 45; 46; 47; 58; 60; 61; 62; 63; 64; 94; 126]   (* #$&*+-./:<=>?@^~ *)
  || ((48 <=? c) && (c <=? 57)) || ((65 <=? c) && (c <=? 90)) || ((97 <=? c) && (c <=? 122)) || (c =? 95)
  || existsb (Z.eqb c) [33; 40; 41; 44; 59; 91; 93; 123; 125; 124; 37]                 (* !(),;[]{}|% *)
  || (c =? 32) || (c =? 34) || (c =? 96)
  || existsb (Z.eqb c) [233; 201; 241; 26085; 26412; 945; 937]
  || ((8704 <=? c) && (c <=? 8959)) || ((10752 <=? c) && (c <=? 11007)).

Fixpoint zl_eqb (a b : list Z) : bool :=
  match a, b with
  | [], [] => true
  | x :: a', y :: b' => Z.eqb x y && zl_eqb a' b'
  | _, _ => false
  end.

Definition qcase := (Z * list Z * list Z)%type.   (* id, the atom's characters, the text written *)
Definition check_quote (cs : list qcase) : list (Z * Z * Z) :=
  flat_map (fun c => match c with (id, s, text) =>
     if zl_eqb (quote accept_gen s) text
        && match read_quoted accept_gen text with Some s' => zl_eqb s s' | None => false end
     then [] else [(id, 1, 0)] end) cs.
