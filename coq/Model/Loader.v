(** Loading a program text: mirror of VM.Compile / compile / directive /
    text.flush / forEachUserDefined (engine/text.go) over the sequence of read
    terms.  Clauses are abstracted to (predicate, identity); the staging (buffer
    of consecutive clauses, per-text definitions, flags) and the commit are as in
    the code: nothing touches the database before the whole text has been staged. *)
From Coq Require Import ZArith Bool List String.
Import ListNotations.
Open Scope string_scope.
Open Scope list_scope.
Open Scope Z_scope.

Definition pi := (string * Z)%type.
Definition pi_eqb (a b : pi) : bool := String.eqb (fst a) (fst b) && Z.eqb (snd a) (snd b).

Record udef := mkU { u_dyn : bool; u_multi : bool; u_disc : bool; u_cls : list Z }.
Definition empty_u : udef := mkU false false false [].

Inductive item :=
| IClause (p : pi) (id : Z)
| IDynamic (p : pi) | IMultifile (p : pi) | IDiscontiguous (p : pi)
| IDirective (ok : bool) (tok : Z) (* a goal without database effects: writes tok, or fails *)
| IInit (ok : bool) (tok : Z)      (* initialization(G): G writes tok, or fails *)
| IBadDecl                        (* dynamic(foo), dynamic(X) ... : an error *)
| INonCallable                    (* a clause that is a number: type_error(callable, _) *)
| ISyntaxError.                   (* the reader fails here; nothing after it is read *)

Inductive lerr := EDiscontiguous (p : pi) | EDirective | EDecl | ECallable | ESyntax | EInit | EPerm.
Definition fail := (lerr * list Z)%type.   (* the error and what the directives wrote before it *)

Record text := mkT { buf : list (pi * Z); defs : list (pi * udef); goals : list (bool * Z); out : list Z }.

Fixpoint get (ds : list (pi * udef)) (p : pi) : option udef :=
  match ds with
  | [] => None
  | (q, u) :: r => if pi_eqb q p then Some u else get r p
  end.
Fixpoint put (ds : list (pi * udef)) (p : pi) (u : udef) : list (pi * udef) :=
  match ds with
  | [] => [(p, u)]
  | (q, v) :: r => if pi_eqb q p then (q, u) :: r else (q, v) :: put r p u
  end.

(** text.flush *)
Definition flush (t : text) : text + fail :=
  match buf t with
  | [] => inl t
  | (p, _) :: _ =>
      let u := match get (defs t) p with Some u => u | None => empty_u end in
      if negb (match u_cls u with [] => true | _ => false end) && negb (u_disc u)
      then inr (EDiscontiguous p, out t)
      else inl (mkT [] (put (defs t) p (mkU (u_dyn u) (u_multi u) (u_disc u) (u_cls u ++ map snd (buf t)))) (goals t) (out t))
  end.

Definition set_flag (t : text) (p : pi) (f : udef -> udef) : text :=
  let u := match get (defs t) p with Some u => u | None => empty_u end in
  mkT (buf t) (put (defs t) p (f u)) (goals t) (out t).

(** one read term *)
Definition stage (t : text) (i : item) : text + fail :=
  match i with
  | IClause p id =>
      match (match buf t with
             | (q, _) :: _ => if pi_eqb q p then inl t else flush t
             | [] => inl t
             end) with
      | inr e => inr e
      | inl t' => inl (mkT (buf t' ++ [(p, id)]) (defs t') (goals t') (out t'))
      end
  | ISyntaxError => inr (ESyntax, out t)
  | INonCallable =>  (* piArg fails before anything is flushed *)
      inr (ECallable, out t)
  | _ =>
      match flush t with
      | inr e => inr e
      | inl t' =>
          match i with
          | IDynamic p => inl (set_flag t' p (fun u => mkU true (u_multi u) (u_disc u) (u_cls u)))
          | IMultifile p => inl (set_flag t' p (fun u => mkU (u_dyn u) true (u_disc u) (u_cls u)))
          | IDiscontiguous p => inl (set_flag t' p (fun u => mkU (u_dyn u) (u_multi u) true (u_cls u)))
          | IDirective true tok => inl (mkT (buf t') (defs t') (goals t') (out t' ++ [tok]))
          | IDirective false _ => inr (EDirective, out t')
          | IInit ok tok => inl (mkT (buf t') (defs t') (goals t' ++ [(ok, tok)]) (out t'))
          | IBadDecl => inr (EDecl, out t')
          | _ => inl t'
          end
      end
  end.

Fixpoint stage_all (t : text) (is : list item) : text + fail :=
  match is with
  | [] => flush t
  | i :: r => match stage t i with inr e => inr e | inl t' => stage_all t' r end
  end.

(** the commit loop of VM.Compile *)
Definition commit (db : list (pi * udef)) (ds : list (pi * udef)) : list (pi * udef) :=
  fold_left (fun db pu =>
               let '(p, u) := pu in
               match get db p with
               | Some old => if u_multi old && u_multi u
                             then put db p (mkU (u_dyn old) (u_multi old) (u_disc old) (u_cls old ++ u_cls u))
                             else put db p u
               | None => put db p u
               end) ds db.

(** the initialization goals, after the commit *)
Fixpoint run_goals (gs : list (bool * Z)) (o : list Z) : list Z * option lerr :=
  match gs with
  | [] => (o, None)
  | (true, tok) :: r => run_goals r (o ++ [tok])
  | (false, _) :: _ => (o, Some EInit)
  end.

Definition empty_t : text := mkT [] [] [] [].

(** Exec / consult of a text on top of database db: the new database, the error
    if any, and what the directives and initialization goals wrote *)
Definition load (db : list (pi * udef)) (is : list item) : list (pi * udef) * option lerr * list Z :=
  match stage_all empty_t is with
  | inr (e, o) => (db, Some e, o)
  | inl t => let '(o, e) := run_goals (goals t) (out t) in (commit db (defs t), e, o)
  end.

Definition listing (db : list (pi * udef)) (p : pi) : option (list Z) :=
  match get db p with Some u => Some (u_cls u) | None => None end.

(** assertz(p(id)) from a query: creates a dynamic predicate, appends to a dynamic
    one, and is refused for a static one *)
Definition assertz (db : list (pi * udef)) (p : pi) (id : Z) : list (pi * udef) * option lerr :=
  match get db p with
  | None => (put db p (mkU true false false [id]), None)
  | Some u => if u_dyn u then (put db p (mkU true (u_multi u) (u_disc u) (u_cls u ++ [id])), None)
              else (db, Some EPerm)
  end.

Inductive op := OLoad (is : list item) | OAssert (p : pi) (id : Z).

Definition err_code (e : option lerr) : Z :=
  match e with
  | None => 0 | Some (EDiscontiguous _) => 1 | Some EDirective => 2 | Some EDecl => 3
  | Some ECallable => 3 | Some ESyntax => 5 | Some EInit => 6 | Some EPerm => 7
  end.

(** one observation per operation: error code, output, listing of every watched predicate *)
Definition obs := (Z * list Z * list (option (list Z)))%type.

Fixpoint run_ops (watch : list pi) (db : list (pi * udef)) (ops : list op) : list obs :=
  match ops with
  | [] => []
  | OLoad is :: r =>
      let '(db', e, o) := load db is in
      (err_code e, o, map (listing db') watch) :: run_ops watch db' r
  | OAssert p id :: r =>
      let '(db', e) := assertz db p id in
      (err_code e, [], map (listing db') watch) :: run_ops watch db' r
  end.
