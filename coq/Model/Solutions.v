(** The Solutions iterator (solutions.go Next/Scan/Err/Close and the query
    goroutine of interpreter.go QueryContext) as a handshake state machine.
    The consumer makes one call at a time from one goroutine; between the
    consumer's send on [more] and its receive on [next] the producer runs until
    it hands an answer over or closes [next] ("run to block").  The one-slot
    buffer of [more] is explicit, so a send that would block for ever is an
    outcome of the model ([RBlocked]), not an assumption. *)
From Coq Require Import ZArith Bool List String Lia.
Import ListNotations.

(** what the query has to offer: k answers and then the end of the search, with
    or without an error; or answers for ever *)
Inductive producer := Finite (k : nat) (err : option string) | Infinite.

Inductive pstate := PWaiting | PDone.   (* blocked on <-more / exited (next closed) *)

Record st := mkS {
  delivered : nat;          (* answers handed over so far (goals run for them) *)
  ps : pstate;
  more_full : bool;         (* the slot of [more] holds a token nobody took *)
  closed : bool;            (* Solutions.closed *)
  done : bool;              (* Solutions.done: next was seen closed *)
  cur : option nat;         (* which answer Scan reports *)
  perr : option string      (* Solutions.err *)
}.

Definition init : st := mkS 0 PWaiting false false false None None.

Inductive call := CNext | CScan | CErr | CClose.
Inductive res := RBool (b : bool) | RScan (a : option nat) | RErr (e : option string) | RClosed (already : bool) | RBlocked.

Definition has_more (p : producer) (n : nat) : bool :=
  match p with Finite k _ => Nat.ltb n k | Infinite => true end.
Definition final_err (p : producer) : option string :=
  match p with Finite _ e => e | Infinite => None end.

Definition step (p : producer) (s : st) (c : call) : st * res :=
  match c with
  | CNext =>
      if closed s || done s then (s, RBool false)
      else if more_full s then (s, RBlocked)                 (* the send on more blocks for ever *)
      else match ps s with
           | PWaiting =>
               if has_more p (delivered s)
               then (mkS (S (delivered s)) PWaiting false (closed s) (done s) (Some (S (delivered s))) (perr s), RBool true)
               else (* the search ends: err is recorded, next is closed, the consumer notes it *)
                    (mkS (delivered s) PDone false (closed s) true None (final_err p), RBool false)   (* the receive on the closed channel stores a nil env *)
           | PDone =>
               (* nobody receives: the token stays in the slot; next is closed *)
               (mkS (delivered s) PDone true (closed s) true None (perr s), RBool false)
           end
  | CScan => (s, RScan (cur s))
  | CErr => (s, RErr (perr s))
  | CClose =>
      if closed s then (s, RClosed true)
      else (* close(more): a waiting producer reads false and returns without running a goal *)
           (mkS (delivered s) PDone (more_full s) true (done s) (cur s) (perr s), RClosed false)
  end.

Fixpoint run (p : producer) (s : st) (cs : list call) : st * list res :=
  match cs with
  | [] => (s, [])
  | c :: cs' => let '(s1, r) := step p s c in let '(s2, rs) := run p s1 cs' in (s2, r :: rs)
  end.
