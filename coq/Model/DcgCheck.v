(** C17 case files: the grammar rules are translated by the mirror of dcg.go, the
    phrase/3 query by dcgBody, and the translated program is run on M and on S. *)
From Coq Require Import ZArith Bool List String.
From PV Require Import Model.Term Model.Unify Model.Machine Model.Sld Model.Boot Model.Dcg Model.MachineCheck.
Import ListNotations.
Open Scope string_scope.
Open Scope list_scope.
Open Scope Z_scope.

Definition FRESH : Z := 700.

Definition translate_rule (t : term) : option term :=
  match t with
  | Cmp "-->" _ => expand_dcg t FRESH
  | _ => Some t
  end.

Fixpoint translate_all (ts : list term) : option (list term) :=
  match ts with
  | [] => Some []
  | t :: r => match translate_rule t, translate_all r with
              | Some c, Some cs => Some (c :: cs)
              | _, _ => None
              end
  end.

(** id, rules and clauses, grammar body, list, remainder, query variables, answer limit, observed answers and ending *)
Definition dcase := (Z * list term * term * term * term * list Z * nat * list (list term) * oend)%type.

Definition check_dcg (cs : list dcase) : list (Z * Z * Z) :=
  flat_map (fun c => match c with
    | (id, rules, body, l, r, qvars, limit, oans, oe) =>
        match translate_all rules, dcg_body 5000 body l r FRESH with
        | Some prog, Some (q, _) => check_both false [(id, prog, q, qvars, limit, oans, oe)]
        | _, _ => [(id, 2, 2)]
        end
    end) cs.

(** expand_term/2: id, rule, the clause observed *)
Definition ecase := (Z * term * term)%type.
Definition check_expand (cs : list ecase) : list (Z * Z * Z) :=
  flat_map (fun c => match c with
    | (id, rule, seen) =>
        match expand_dcg rule FRESH with
        | Some t => if term_eqb (fst (canon_t t [])) (fst (canon_t seen [])) then [] else [(id, 1, 0)]
        | None => [(id, 1, 0)]
        end
    end) cs.
