(** Comparison of the stream model with operation sequences observed on the implementation. *)
From Coq Require Import ZArith Bool List.
From PV Require Import Model.Stream.
Import ListNotations.
Open Scope Z_scope.

Fixpoint zl_eqb (a b : list Z) : bool :=
  match a, b with
  | [], [] => true
  | x :: a', y :: b' => Z.eqb x y && zl_eqb a' b'
  | _, _ => false
  end.

(** model result vs observed result; the implementation may report "not" or "at" when nothing remains *)
Definition res_agree (m o : res) : bool :=
  match m, o with
  | RCode a, RCode b => a =? b
  | RTok a, RTok b => zl_eqb a b
  | RPos a, RPos b => a =? b
  | REos 1, REos b => (b =? 0) || (b =? 1)
  | REos a, REos b => a =? b
  | RErr a, RErr b => a =? b
  | _, _ => false
  end.

(** A query is a conjunction of operations; an error ends it.  Observed: the results of
    a query that ran to its end, or the error that ended it. *)
Inductive qobs := QOk (rs : list res) | QErr (e : Z).

(** run one query on the model: the results up to and including the first error / stop *)
Fixpoint run_query (s : st) (ops : list op) : st * list res :=
  match ops with
  | [] => (s, [])
  | o :: r =>
      let '(s1, x) := step s o in
      match x with
      | RErr _ | RStop => (s1, [x])
      | _ => let '(s2, xs) := run_query s1 r in (s2, x :: xs)
      end
  end.

Fixpoint all_agree (ms os : list res) : bool :=
  match ms, os with
  | [], [] => true
  | m :: ms', o :: os' => res_agree m o && all_agree ms' os'
  | _, _ => false
  end.

(** 0 agree, 1 disagree; a stop ends the comparison of the case *)
Fixpoint check_queries (s : st) (qs : list (list op * qobs)) : Z :=
  match qs with
  | [] => 0
  | (ops, o) :: r =>
      let '(s1, ms) := run_query s ops in
      match last ms (RPos 0) with
      | RStop => 0
      | RErr e => match o with QErr e' => if e =? e' then check_queries s1 r else 1 | _ => 1 end
      | _ => match o with QOk os => if all_agree ms os then check_queries s1 r else 1 | _ => 1 end
      end
  end.

(** id, binary?, eof_action, source bytes, queries with what was observed *)
Definition scase := (Z * bool * eofact * list Z * list (list op * qobs))%type.

Definition check_stream (cs : list scase) : list (Z * Z * Z) :=
  flat_map (fun c => match c with (id, b, a, bytes, qs) =>
     let r := check_queries (mkS bytes 0 false a b) qs in
     if r =? 0 then [] else [(id, 1, 1)] end) cs.
