(** The operator table: mirror of Op / validateOp / operators.define / remove /
    definedInClass / CurrentOp (engine/builtin.go, engine/parser.go).  Op works in
    two phases exactly as the code: collect the names, validate every name against
    the table as it is, only then mutate. *)
From Coq Require Import ZArith Bool List String.
Import ListNotations.
Open Scope string_scope.
Open Scope list_scope.
Open Scope Z_scope.

Inductive spec := FX | FY | XF | YF | XFX | XFY | YFX.
Inductive class := Prefix | Postfix | Infix.
Definition class_of (s : spec) : class :=
  match s with FX | FY => Prefix | XF | YF => Postfix | XFX | XFY | YFX => Infix end.
Definition class_eqb (a b : class) : bool :=
  match a, b with Prefix, Prefix | Postfix, Postfix | Infix, Infix => true | _, _ => false end.
Definition spec_of_atom (a : string) : option spec :=
  match a with
  | "fx" => Some FX | "fy" => Some FY | "xf" => Some XF | "yf" => Some YF
  | "xfx" => Some XFX | "xfy" => Some XFY | "yfx" => Some YFX | _ => None
  end.
Definition spec_name (s : spec) : string :=
  match s with FX => "fx" | FY => "fy" | XF => "xf" | YF => "yf" | XFX => "xfx" | XFY => "xfy" | YFX => "yfx" end.

Record opdef := mkOp { o_name : string; o_pri : Z; o_spec : spec }.
Definition table := list opdef.

Definition in_slot (n : string) (c : class) (o : opdef) : bool :=
  String.eqb (o_name o) n && class_eqb (class_of (o_spec o)) c.
Definition defined_in_class (t : table) (n : string) (c : class) : bool := existsb (in_slot n c) t.
Definition remove (t : table) (n : string) (c : class) : table := filter (fun o => negb (in_slot n c o)) t.
(** Op's update of one name: remove the slot's entry if any, then define (no-op for priority 0) *)
Definition update (t : table) (p : Z) (s : spec) (n : string) : table :=
  let t' := remove t n (class_of s) in
  if p =? 0 then t' else mkOp n p s :: t'.

(** arguments of op/3 after Resolve *)
Inductive parg := PVar | PInt (z : Z) | POther.
Inductive sarg := SVar | SAtom (a : string) | SOther.
Inductive item := IAtom (a : string) | IVar | INonAtom.
Inductive narg := NAtom (a : string) | NList (items : list item) (tail : item) | NVar | NOther.
(* NList items tail: tail = IAtom "[]" for a proper list *)

Inductive operr :=
| EInst | ETypeInteger | EDomPriority | ETypeAtom | EDomSpecifier | ETypeList
| EPermModify (n : string) | EPermCreate (n : string).

(** validateOp *)
Definition validate (t : table) (p : Z) (s : spec) (n : string) : option operr :=
  let special :=
    if String.eqb n "," then
      (if defined_in_class t n Infix then Some (EPermModify n) else None)
    else if String.eqb n "|" then
      (if negb (class_eqb (class_of s) Infix) || ((0 <? p) && (p <? 1001))
       then Some (if defined_in_class t n Infix then EPermModify n else EPermCreate n) else None)
    else if String.eqb n "{}" || String.eqb n "[]" then Some (EPermCreate n)
    else None in
  match special with
  | Some e => Some e
  | None =>
      match class_of s with
      | Infix => if defined_in_class t n Postfix then Some (EPermCreate n) else None
      | Postfix => if defined_in_class t n Infix then Some (EPermCreate n) else None
      | Prefix => None
      end
  end.

Fixpoint uniq_add (l : list string) (a : string) : list string :=
  match l with
  | [] => [a]
  | x :: l' => if String.eqb x a then l else x :: uniq_add l' a
  end.

(** the names argument: Ok names, or the error of the first offending element
    (elements are inspected in order; then the list's own shape) *)
Fixpoint collect (items : list item) (acc : list string) : list string + operr :=
  match items with
  | [] => inl acc
  | IAtom a :: r => collect r (uniq_add acc a)
  | IVar :: _ => inr ETypeAtom      (* typeError(atom, Var): Go reports a type error on the resolved element *)
  | INonAtom :: _ => inr ETypeAtom
  end.

Definition names_of (n : narg) : list string + operr :=
  match n with
  | NAtom a => inl [a]
  | NList items tail =>
      match collect items [] with
      | inr e => inr e
      | inl acc =>
          match tail with
          | IAtom "[]" => inl acc
          | IVar => inr EInst
          | _ => inr ETypeList
          end
      end
  | NVar => inr EInst
  | NOther => inr ETypeList
  end.

Fixpoint first_error (t : table) (p : Z) (s : spec) (ns : list string) : option operr :=
  match ns with
  | [] => None
  | n :: r => match validate t p s n with Some e => Some e | None => first_error t p s r end
  end.

Definition op_call (t : table) (pa : parg) (sa : sarg) (na : narg) : table * option operr :=
  match pa with
  | PVar => (t, Some EInst)
  | POther => (t, Some ETypeInteger)
  | PInt p =>
      if (p <? 0) || (1200 <? p) then (t, Some EDomPriority)
      else match sa with
           | SVar => (t, Some EInst)
           | SOther => (t, Some ETypeAtom)
           | SAtom a =>
               match spec_of_atom a with
               | None => (t, Some EDomSpecifier)
               | Some s =>
                   match names_of na with
                   | inr e => (t, Some e)
                   | inl ns =>
                       match first_error t p s ns with
                       | Some e => (t, Some e)
                       | None => (fold_left (fun t' n => update t' p s n) ns t, None)
                       end
                   end
               end
           end
  end.

(** current_op/3: the entries, as triples *)
Definition entries (t : table) : list (Z * string * string) :=
  map (fun o => (o_pri o, spec_name (o_spec o), o_name o)) t.
