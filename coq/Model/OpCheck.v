(** Comparison of the operator-table model with op/3 / current_op/3 histories
    observed on the implementation. *)
From Coq Require Import ZArith Bool List String.
From PV Require Import Model.Term Model.OpTable Gen.Bootstrap_gen.
Import ListNotations.
Open Scope string_scope.
Open Scope list_scope.
Open Scope Z_scope.

Definition call := (parg * sarg * narg)%type.

(** the op/3 directives of bootstrap.pl as calls *)
Fixpoint items_of (fuel : nat) (t : term) : list item * item :=
  match fuel with
  | O => ([], INonAtom)
  | S f =>
      match t with
      | Cmp "." [h; tl] =>
          let '(l, tail) := items_of f tl in
          ((match h with Atom a => IAtom a | Var _ => IVar | _ => INonAtom end) :: l, tail)
      | Atom a => ([], IAtom a)
      | Var _ => ([], IVar)
      | _ => ([], INonAtom)
      end
  end.

Definition call_of_term (t : term) : option call :=
  match t with
  | Cmp "op" [p; s; n] =>
      Some (match p with Int z => PInt z | Var _ => PVar | _ => POther end,
            match s with Atom a => SAtom a | Var _ => SVar | _ => SOther end,
            match n with
            | Atom a => NAtom a
            | Var _ => NVar
            | Cmp "." _ => let '(l, tail) := items_of 1000 n in NList l tail
            | _ => NOther
            end)
  | _ => None
  end.

Definition bootstrap_table : table :=
  Eval vm_compute in
    fold_left (fun t d => match call_of_term d with Some (pa, sa, na) => fst (op_call t pa sa na) | None => t end)
              bootstrap_directives [].

Definition operr_eqb (a b : operr) : bool :=
  match a, b with
  | EInst, EInst | ETypeInteger, ETypeInteger | EDomPriority, EDomPriority | ETypeAtom, ETypeAtom
  | EDomSpecifier, EDomSpecifier | ETypeList, ETypeList => true
  | EPermModify x, EPermModify y | EPermCreate x, EPermCreate y => String.eqb x y
  | _, _ => false
  end.

Definition entry_eqb (a b : Z * string * string) : bool :=
  match a, b with (p, s, n), (p', s', n') => Z.eqb p p' && String.eqb s s' && String.eqb n n' end.
Definition subset (a b : list (Z * string * string)) : bool :=
  forallb (fun x => existsb (entry_eqb x) b) a.
Definition same_set (a b : list (Z * string * string)) : bool :=
  subset a b && subset b a && Nat.eqb (List.length a) (List.length b).

(** a history: calls with the observed outcome of each, and the observed table
    (all answers of current_op/3) after each call *)
Definition hstep := (call * option operr * list (Z * string * string))%type.
Definition hcase := (Z * list hstep)%type.

Fixpoint history_agrees (t : table) (h : list hstep) : bool :=
  match h with
  | [] => true
  | ((pa, sa, na), oerr, otable) :: h' =>
      let '(t', merr) := op_call t pa sa na in
      (match merr, oerr with
       | None, None => true
       | Some a, Some b => operr_eqb a b
       | _, _ => false
       end) && same_set (entries t') otable && history_agrees t' h'
  end.

Definition check_ops (cs : list hcase) : list (Z * Z * Z) :=
  filter (fun r => negb (Z.eqb (snd (fst r)) 0))
    (map (fun c => (fst c, if history_agrees bootstrap_table (snd c) then 0 else 1, 0)) cs).
