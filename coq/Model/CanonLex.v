(** The characters of canonical text (C06): a lexer for the fragment of
    Model/Canon.v -- names made of a lower-case letter followed by letters, digits
    and underscores; decimal integers with an optional minus sign directly in front;
    the punctuation ( ) , -- by maximal munch, as engine/lexer.go does for these
    classes.  Executable; [read_text] is lexer + parser. *)
From Coq Require Import ZArith Bool List String Ascii DecimalString.
From PV Require Import Model.Term Model.Canon.
Import ListNotations.
Open Scope string_scope.

Definition code (a : ascii) : nat := nat_of_ascii a.
Definition is_digit (a : ascii) : bool := Nat.leb 48 (code a) && Nat.leb (code a) 57.
Definition is_lower (a : ascii) : bool := Nat.leb 97 (code a) && Nat.leb (code a) 122.
Definition is_upper (a : ascii) : bool := Nat.leb 65 (code a) && Nat.leb (code a) 90.
Definition is_alnum (a : ascii) : bool := is_digit a || is_lower a || is_upper a || Nat.eqb (code a) 95.

Fixpoint span (p : ascii -> bool) (s : string) : string * string :=
  match s with
  | String c r => if p c then let '(w, r') := span p r in (String c w, r') else (EmptyString, s)
  | EmptyString => (EmptyString, EmptyString)
  end.

Definition int_tok (w : string) : option tok :=
  match NilZero.int_of_string w with
  | Some d => Some (TInt (Z.of_int d))
  | None => None
  end.

(** one token per unit of fuel *)
Fixpoint lex (fuel : nat) (s : string) : option (list tok) :=
  match s with
  | EmptyString => Some []
  | String c r =>
      match fuel with
      | O => None
      | S f =>
          let k := fun (t : option tok) (rest : string) =>
                     match t with
                     | Some t => option_map (cons t) (lex f rest)
                     | None => None
                     end in
          if Ascii.eqb c "(" then k (Some TOpen) r
          else if Ascii.eqb c ")" then k (Some TClose) r
          else if Ascii.eqb c "," then k (Some TComma) r
          else if is_lower c then let '(w, r') := span is_alnum s in k (Some (TAtom w)) r'
          else if is_digit c then let '(w, r') := span is_digit s in k (int_tok w) r'
          else if Ascii.eqb c "-" then
            match r with
            | String c2 _ => if is_digit c2 then let '(w, r') := span is_digit r in k (int_tok (String "-" w)) r' else None
            | EmptyString => None
            end
          else None
      end
  end.

Definition read_text (s : string) : option term :=
  match lex (S (String.length s)) s with
  | Some toks => match parse (S (List.length toks)) toks with
                 | Some (t, []) => Some t
                 | _ => None
                 end
  | None => None
  end.

(** names the lexer reads as one unquoted atom *)
Fixpoint all_chars (p : ascii -> bool) (s : string) : bool :=
  match s with EmptyString => true | String c r => p c && all_chars p r end.
Definition plain_name (a : string) : bool :=
  match a with
  | String c r => is_lower c && all_chars is_alnum r
  | EmptyString => false
  end.
Fixpoint plain_term (t : term) : bool :=
  match t with
  | Atom a => plain_name a
  | Int _ => true
  | Cmp f args => plain_name f && negb (match args with [] => true | _ => false end) && forallb plain_term args
  | _ => false
  end.

(** correspondence: the printer's text is the implementation's, and the
    implementation's text reads back, character by character, as the term *)
Definition check_canon_text (cs : list ccase) : list (Z * Z * Z) :=
  check_canon cs ++
  flat_map (fun c => match c with (id, t, text) =>
     if plain_term t && match read_text text with Some t' => term_eqb t t' | None => false end
     then [] else [(id, 1%Z, 0%Z)] end) cs.
