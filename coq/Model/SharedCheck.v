(** C14 case files: sequences of NewAtom calls on fresh names, sequentially, compared
    with the model of the atom table (numbers relative to the first new atom). *)
From Coq Require Import List String Bool Arith ZArith.
From PV Require Import Model.Shared Gen.Shared_gen.
Import ListNotations.

Fixpoint nl_eqb (a b : list nat) : bool :=
  match a, b with
  | [], [] => true
  | x :: a', y :: b' => Nat.eqb x y && nl_eqb a' b'
  | _, _ => false
  end.

(** run the calls one after the other on the generated critical-section structure *)
Fixpoint seq_calls (t : tbl) (ns : list string) : list nat :=
  match ns with
  | [] => []
  | n :: r =>
      let '(t', ths) := run_sched 0 intern_regions t [TRun n 0 None] (repeat 0 (S (List.length intern_regions))) in
      match ths with
      | [TDone _ i] => i :: seq_calls t' r
      | _ => 999999 :: seq_calls t' r
      end
  end.

Definition acase := (Z * list string * list nat)%type.
Definition check_atoms (cs : list acase) : list (Z * Z * Z) :=
  flat_map (fun c => match c with (id, ns, seen) =>
     if nl_eqb (seq_calls (mkT [] []) ns) seen then [] else [(id, 1%Z, 0%Z)] end) cs.
