(** Grouping of bagof/setof solutions by witness (collectionOf in
    engine/builtin.go): generic in the "same witness" test. *)
From Coq Require Import List Bool.
Import ListNotations.

Section Groups.
  Context {W T : Type}.
  Variable same : W -> W -> bool.   (* same ww w : is ww's witness a variant of the group head w *)

  (** take the first pair, collect every later pair with the same witness (in
      order), continue with the others (in order) *)
  Fixpoint group_with (fuel : nat) (pairs : list (W * T)) : list (list W * list T) :=
    match fuel with
    | O => []
    | S f =>
        match pairs with
        | [] => []
        | (w, t) :: rest =>
            let sm := filter (fun p => same (fst p) w) rest in
            let others := filter (fun p => negb (same (fst p) w)) rest in
            (w :: map fst sm, t :: map snd sm) :: group_with f others
        end
    end.
End Groups.
