(** DCG translation: mirror of engine/dcg.go (expandDCG, dcgBody, dcgCBody,
    dcgNonTerminal, dcgTerminals and the dcgConstr table) on abstract terms.
    Fresh variables come from a counter.  None = the translation raises an error. *)
From Coq Require Import ZArith Bool List String.
From PV Require Import Model.Term.
Import ListNotations.
Open Scope string_scope.
Open Scope list_scope.
Open Scope Z_scope.

Definition eq_t (a b : term) : term := Cmp "=" [a; b].
Definition conj_t (a b : term) : term := Cmp "," [a; b].

(** dcgNonTerminal: add the two list arguments; a number or a variable is not callable *)
Definition dcg_nonterminal (nt s0 s : term) : option term :=
  match nt with
  | Atom a => Some (Cmp a [s0; s])
  | Cmp f args => Some (Cmp f (args ++ [s0; s]))
  | _ => None
  end.

(** dcgTerminals: S0 = [t1, ..., tn | S]; a partial or improper list is an error *)
Fixpoint list_elems (fuel : nat) (t : term) : option (list term) :=
  match fuel with
  | O => None
  | S f =>
      match t with
      | Atom "[]" => Some []
      | Cmp "." [h; tl] => option_map (cons h) (list_elems f tl)
      | _ => None
      end
  end.
Definition dcg_terminals (ts s0 s : term) : option term :=
  match list_elems (S (tsize ts)) ts with
  | Some es => Some (eq_t s0 (plist_t es s))
  | None => None
  end.

(** dcgBody / dcgCBody with the construct table; n is the next fresh variable *)
Fixpoint dcg_body (fuel : nat) (b s0 s : term) (n : Z) : option (term * Z) :=
  match fuel with
  | O => None
  | S f =>
      match b with
      | Var v => Some (Cmp "phrase" [Var v; s0; s], n)
      | Atom "[]" => Some (eq_t s0 s, n)
      | Cmp "." [_; _] => option_map (fun g => (g, n)) (dcg_terminals b s0 s)
      | Cmp "," [x; y] =>
          let v := Var n in
          match dcg_body f x s0 v (n + 1) with
          | Some (g1, n1) =>
              match dcg_body f y v s n1 with
              | Some (g2, n2) => Some (conj_t g1 g2, n2)
              | None => None
              end
          | None => None
          end
      | Cmp ";" [x; y] =>
          (* an if-then-else keeps its shape; both branches get the same S0 and S *)
          match dcg_body f x s0 s n with
          | Some (g1, n1) =>
              match dcg_body f y s0 s n1 with
              | Some (g2, n2) => Some (Cmp ";" [g1; g2], n2)
              | None => None
              end
          | None => None
          end
      | Cmp "|" [x; y] =>
          match dcg_body f x s0 s n with
          | Some (g1, n1) =>
              match dcg_body f y s0 s n1 with
              | Some (g2, n2) => Some (Cmp ";" [g1; g2], n2)
              | None => None
              end
          | None => None
          end
      | Cmp "{}" [g] => Some (conj_t g (eq_t s0 s), n)
      | Cmp "call" [g] => Some (Cmp "call" [g; s0; s], n)
      | Cmp "phrase" [g] => Some (Cmp "phrase" [g; s0; s], n)
      | Atom "!" => Some (conj_t (Atom "!") (eq_t s0 s), n)
      | Cmp "\+" [x] =>
          let v := Var n in
          match dcg_body f x s0 v (n + 1) with
          | Some (g, n1) => Some (conj_t (Cmp "\+" [g]) (eq_t s0 s), n1)
          | None => None
          end
      | Cmp "->" [c; t] =>
          let v := Var n in
          match dcg_body f c s0 v (n + 1) with
          | Some (g1, n1) =>
              match dcg_body f t v s n1 with
              | Some (g2, n2) => Some (Cmp "->" [g1; g2], n2)
              | None => None
              end
          | None => None
          end
      | _ => option_map (fun g => (g, n)) (dcg_nonterminal b s0 s)
      end
  end.

(** expandDCG: None also when the term is not a grammar rule *)
Definition expand_dcg (rule : term) (n : Z) : option term :=
  match rule with
  | Cmp "-->" [h; b] =>
      let s0 := Var n in let s1 := Var (n + 1) in let s := Var (n + 2) in
      match h with
      | Cmp "," [nt; pb] =>
          match dcg_nonterminal nt s0 s, dcg_body (S (tsize b)) b s0 s1 (n + 3), dcg_terminals pb s s1 with
          | Some head, Some (g1, _), Some g2 => Some (Cmp ":-" [head; conj_t g1 g2])
          | _, _, _ => None
          end
      | _ =>
          match dcg_nonterminal h s0 s, dcg_body (S (tsize b)) b s0 s (n + 3) with
          | Some head, Some (g, _) => Some (Cmp ":-" [head; g])
          | _, _ => None
          end
      end
  | _ => None
  end.
