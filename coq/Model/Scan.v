(** Answer values as Scan sees them, and the Go conversions it applies. *)
From Coq Require Import ZArith Bool.
Open Scope Z_scope.

Inductive sterm := SInt (z : Z) | SFlt (bits : Z) | SOther.

(** Go's intN(x): the low N bits read as a signed integer *)
Definition wrap_bits (n : Z) (z : Z) : Z := ((z + 2 ^ (n - 1)) mod 2 ^ n) - 2 ^ (n - 1).

(** placeholders for conversions the property makes no exactness claim about *)
Definition narrow32 (bits : Z) : Z := bits.
Definition of_int_bits (z : Z) : Z := z.
