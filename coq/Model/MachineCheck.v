(** Comparison of the machine model's runs with runs observed on the
    implementation: answers as sequences, up to renaming of unbound variables
    (canonical numbering by first occurrence within an answer); error balls up
    to renaming, and for error(Formal, Context) the Formal only. *)
From Coq Require Import ZArith Bool List String.
From PV Require Import Model.Term Model.Unify Model.Clause Model.Machine Model.Boot Model.Sld Gen.Bootstrap_gen.
Import ListNotations.
Open Scope string_scope.
Open Scope list_scope.
Open Scope Z_scope.

Fixpoint canon_t (t : term) (m : list Z) : term * list Z :=
  match t with
  | Var v =>
      match index_of v m with
      | Some i => (Var (Z.of_nat i), m)
      | None => (Var (Z.of_nat (List.length m)), m ++ [v])
      end
  | Cmp f args =>
      let '(args', m') := fold_left (fun acc a => let '(l, m0) := acc in
                                                  let '(a', m1) := canon_t a m0 in (l ++ [a'], m1)) args ([], m) in
      (Cmp f args', m')
  | _ => (t, m)
  end.

(** the Context of error(Formal, Context) is implementation defined and never
    compared, wherever the error term occurs *)
Fixpoint strip_ctx (t : term) : term :=
  match t with
  | Cmp "error" [f; _] => Cmp "error" [strip_ctx f; Atom "$ctx"]
  | Cmp g args => Cmp g (map strip_ctx args)
  | _ => t
  end.

Definition canon_answer (a : list term) : list term :=
  fst (fold_left (fun acc t => let '(l, m0) := acc in let '(t', m1) := canon_t (strip_ctx t) m0 in (l ++ [t'], m1)) a ([], [])).

Definition norm_ball (t : term) : term := fst (canon_t (strip_ctx t) []).

(** what the harness observed *)
Inductive oend := OEndNo | OEndMore | OEndErr (ball : term) | OEndGo (msg : string) | OEndCancel.

Fixpoint list_eqb {A} (eqb : A -> A -> bool) (a b : list A) : bool :=
  match a, b with
  | [], [] => true
  | x :: a', y :: b' => eqb x y && list_eqb eqb a' b'
  | _, _ => false
  end.

Definition end_agree (m : ending) (o : oend) : bool :=
  match m, o with
  | EndNo, OEndNo => true
  | EndMore, OEndMore => true
  | EndErr (EBall b), OEndErr ob => term_eqb (norm_ball b) (norm_ball ob)
  | EndErr (EPanic _), OEndGo _ => true      (* both are panic residues; the wording is not compared *)
  | EndErr ECancelled, OEndCancel => true
  | _, _ => false
  end.

(** 0 = agree, 1 = mismatch, 2 = the model ran out of fuel (case dropped) *)
Definition run_agree (fuel : nat) (db : list proc) (q : term) (qvars : list Z) (limit : nat)
                     (oans : list (list term)) (oe : oend) : Z :=
  let '(ans, e) := run fuel db q qvars limit in
  match e with
  | EndFuel => 2
  | _ => if list_eqb (list_eqb term_eqb) (map canon_answer ans) (map canon_answer oans) && end_agree e oe then 0 else 1
  end.

Definition pcase := (Z * list term * term * list Z * nat * list (list term) * oend)%type.

Definition MFUEL : nat := Z.to_nat 60000.

Definition check_cases (dynamic : bool) (cs : list pcase) : list (Z * Z) :=
  filter (fun r => negb (Z.eqb (snd r) 0))
    (map (fun c => match c with
                   | (id, prog, q, qvars, limit, oans, oe) =>
                       (id, run_agree MFUEL (if dynamic then dynamic_db prog else program_db prog) q qvars limit oans oe)
                   end) cs).
Definition prog_mismatches (cs : list pcase) : list Z := map fst (filter (fun r => Z.eqb (snd r) 1) (check_cases false cs)).
Definition prog_dropped (cs : list pcase) : list Z := map fst (filter (fun r => Z.eqb (snd r) 2) (check_cases false cs)).

(** ---- the same cases against the reference semantics S ------------------------------------ *)

Definition s_bootstrap_db : list sproc := Eval vm_compute in fst (s_consult false false [] 1000 bootstrap_clauses).
Definition s_program_db_gen (split dynamic : bool) (ts : list term) : list sproc := fst (s_consult split dynamic s_bootstrap_db 5000 (rename_apart ts)).
Definition s_program_db := s_program_db_gen false.

Definition send_agree (m : sending) (o : oend) : bool :=
  match m, o with
  | SEndNo, OEndNo => true
  | SEndMore, OEndMore => true
  | SEndErr (EBall b), OEndErr ob => term_eqb (norm_ball b) (norm_ball ob)
  | _, _ => false
  end.

Definition spec_agree_gen (split : bool) (fuel : nat) (db : list sproc) (q : term) (qvars : list Z) (limit : nat)
                      (oans : list (list term)) (oe : oend) : Z :=
  let '(ans, e) := s_run_gen split fuel db QBASE q qvars limit in
  match e with
  | SEndFuel => 2
  | _ => if list_eqb (list_eqb term_eqb) (map canon_answer ans) (map canon_answer oans) && send_agree e oe then 0 else 1
  end.
Definition spec_agree := spec_agree_gen false.

(** per case: (id, model verdict, spec verdict) for every case where either is not 0 *)
Definition check_both (dynamic : bool) (cs : list pcase) : list (Z * Z * Z) :=
  filter (fun r => negb (Z.eqb (snd (fst r)) 0 && Z.eqb (snd r) 0))
    (map (fun c => match c with
                   | (id, prog, q, qvars, limit, oans, oe) =>
                       (id, run_agree MFUEL (if dynamic then dynamic_db prog else program_db prog) q qvars limit oans oe,
                            (* 0: agrees with the reference semantics; 3: disagrees with it but agrees with the
                               reference semantics under this implementation's storage convention for top-level
                               disjunctive bodies (recorded deviation F3a); 1: disagrees with both *)
                            match spec_agree MFUEL (s_program_db dynamic prog) q qvars limit oans oe with
                            | 1 => match spec_agree_gen true MFUEL (s_program_db_gen true dynamic prog) q qvars limit oans oe with
                                   | 0 => 3
                                   | _ => 1
                                   end
                            | r => r
                            end)
                   end) cs).

(** ---- cancellation (C13): the context is found cancelled at the n-th poll ------------------ *)

Definition ccase := (Z * list term * term * list Z * nat * nat * list (list term) * oend)%type.

Definition run_polls (fuel : nat) (db : list proc) (q : term) (qvars : list Z) (limit : nat) (polls : nat) : list (list term) * ending :=
  let '(r, st) := run_query fuel db QBASE q (map Var qvars) limit (Some polls) in
  (rev (s_answers st),
   match r with
   | FTrue => EndMore | FFalse => EndNo | FError EFuel => EndFuel | FError e => EndErr e | FOutOfFuel => EndFuel
   end).

Definition check_cancel (cs : list ccase) : list (Z * Z * Z) :=
  filter (fun r => negb (Z.eqb (snd (fst r)) 0))
    (map (fun c => match c with
                   | (id, prog, q, qvars, limit, polls, oans, oe) =>
                       let '(ans, e) := run_polls MFUEL (program_db prog) q qvars limit polls in
                       (id, match e with
                            | EndFuel => 2
                            | _ =>
                                (* once the consumer has its last answer it closes the iteration and never looks at
                                   the outcome of the poll that follows: both endings are the same observation *)
                                let e_ok := end_agree e oe || match e, oe with EndErr ECancelled, OEndMore => true | _, _ => false end in
                                if list_eqb (list_eqb term_eqb) (map canon_answer ans) (map canon_answer oans) && e_ok then 0 else 1
                            end, 0)
                   end) cs).
