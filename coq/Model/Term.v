(** Abstract Prolog terms.  The five Go representations of a compound
    (compound struct, list, partial, charList, codeList) are identified: the model
    sees a term only through Functor/Arity/Arg, like (almost all of) the engine. *)
From Coq Require Import ZArith Bool List String.
Import ListNotations.
Open Scope Z_scope.
Open Scope string_scope.

Inductive term :=
| Var (v : Z)
| Atom (a : string)
| Int (z : Z)
| Flt (bits : Z)
| Cmp (f : string) (args : list term).

(** induction principle with the nested list handled *)
Section term_ind'.
  Variable P : term -> Prop.
  Hypothesis HVar : forall v, P (Var v).
  Hypothesis HAtom : forall a, P (Atom a).
  Hypothesis HInt : forall z, P (Int z).
  Hypothesis HFlt : forall b, P (Flt b).
  Hypothesis HCmp : forall f args, Forall P args -> P (Cmp f args).
  Fixpoint term_ind' (t : term) : P t :=
    match t with
    | Var v => HVar v | Atom a => HAtom a | Int z => HInt z | Flt b => HFlt b
    | Cmp f args =>
        HCmp f args ((fix go (l : list term) : Forall P l :=
                        match l with [] => Forall_nil _ | x :: xs => Forall_cons _ (term_ind' x) (go xs) end) args)
    end.
End term_ind'.

Fixpoint term_eqb (a b : term) : bool :=
  match a, b with
  | Var x, Var y => Z.eqb x y
  | Atom x, Atom y => String.eqb x y
  | Int x, Int y => Z.eqb x y
  | Flt x, Flt y => Z.eqb x y
  | Cmp f xs, Cmp g ys =>
      String.eqb f g &&
      (fix go (l1 l2 : list term) : bool :=
         match l1, l2 with
         | [], [] => true
         | x :: l1', y :: l2' => term_eqb x y && go l1' l2'
         | _, _ => false
         end) xs ys
  | _, _ => false
  end.

(** lists *)
Definition nil_t : term := Atom "[]".
Definition cons_t (h t : term) : term := Cmp "." [h; t].
Fixpoint list_t (l : list term) : term :=
  match l with [] => nil_t | x :: xs => cons_t x (list_t xs) end.
Fixpoint plist_t (l : list term) (tail : term) : term :=
  match l with [] => tail | x :: xs => cons_t x (plist_t xs tail) end.

Definition true_t := Atom "true".
Definition pi_t (name : string) (arity : Z) : term := Cmp "/" [Atom name; Int arity].

(** size, used as fuel bound *)
Fixpoint tsize (t : term) : nat :=
  match t with
  | Cmp _ args => S (fold_right (fun a n => (tsize a + n)%nat) O args)
  | _ => 1%nat
  end.

(** variables in order of first occurrence (no resolution) *)
Fixpoint tvars_acc (t : term) (acc : list Z) : list Z :=
  match t with
  | Var v => if existsb (Z.eqb v) acc then acc else acc ++ [v]
  | Cmp _ args => fold_left (fun a x => tvars_acc x a) args acc
  | _ => acc
  end.
Definition tvars (t : term) : list Z := tvars_acc t [].
