(** The abstract machine M: a first-order (defunctionalised) mirror of
    engine/vm.go (Arrive, exec), engine/promise.go (Force, child, popUntil,
    recover), engine/clause.go (clauses.call) and of the control / database /
    all-solutions built-ins of engine/builtin.go.  One constructor per Go
    closure site; promise identity (cutParent) is an id drawn from a counter.
    Everything is executable; the only partiality is fuel. *)
From Coq Require Import ZArith Bool List String.
From PV Require Import Model.Term Model.Unify Model.Clause Model.Order Model.Groups.
From PV Require Import Model.GoInt Model.F64 Model.Num Gen.Arith_gen Model.Eval.
Import ListNotations.
Open Scope string_scope.
Open Scope list_scope.
Open Scope Z_scope.

(** ---- errors ---------------------------------------------------------------- *)

Inductive merr :=
| EBall (t : term)            (* a Prolog exception term *)
| EPanic (what : string)      (* residue of a recovered Go panic: "panic: ..." *)
| ECancelled                  (* ctx.Err() *)
| EFuel.                      (* the run left the model's domain (out of fuel, or a binding subject to
                                 occurs check was made): not a behaviour of the code; never caught *)

Definition ctx_t : term := Atom "$ctx".
Definition error_t (formal : term) : merr := EBall (Cmp "error" [formal; ctx_t]).
Definition inst_err : merr := error_t (Atom "instantiation_error").
Definition type_err (ty : string) (culprit : term) : merr := error_t (Cmp "type_error" [Atom ty; culprit]).
Definition dom_err (d : string) (culprit : term) : merr := error_t (Cmp "domain_error" [Atom d; culprit]).
Definition exist_proc_err (n : string) (a : nat) : merr :=
  error_t (Cmp "existence_error" [Atom "procedure"; pi_t n (Z.of_nat a)]).
Definition perm_err (op ty : string) (culprit : term) : merr :=
  error_t (Cmp "permission_error" [Atom op; Atom ty; culprit]).
Definition eval_err (e : string) : merr := error_t (Cmp "evaluation_error" [Atom e]).

(** ---- continuations, thunks, promises ----------------------------------------- *)

Inductive frame :=                       (* astack entries of exec *)
| FGet (rest : list term)                (* opGet: the remaining arguments *)
| FPut (parent : list term) (f : string). (* opPut: the frame being filled *)

Inductive cont :=
| KExec (pc : list instr) (vbase : list Z) (k : cont) (cutp : Z)   (* vm.go: continuation of opCall *)
| KSuccess                                                           (* engine.Success *)
| KTop                                                               (* the answer hand-off of QueryContext *)
| KCollect (tmpl : term) (cid : Z)                                   (* FindAll's inner continuation *)
| KBag (witness : term) (setof : bool) (inst : term) (s : Z) (k : cont)  (* collectionOf's continuation *)
| KRetractDel (cid uid : Z) (k : cont)                               (* Retract's delete-then-continue *)
| KCallNth (cnt : Z) (nth : term) (pid : Z) (k : cont)
| KCatchExit (pid : Z) (k : cont).                                  (* Catch: the goal has exited *)

Inductive thunk :=
| ThClause (c : clause) (args : list term) (k : cont) (e : env) (pid : Z)   (* clauses.call ks[i] *)
| ThExec (pc : list instr) (vbase : list Z) (k : cont) (args : list term) (astack : list frame) (e : env) (cutp : Z)
| ThApply (k : cont) (e : env)                                              (* Repeat *)
| ThNegate (g : term) (k : cont) (e : env)
| ThCall (g : term) (k : cont) (e : env)                                    (* Catch's child *)
| ThFindall (tmpl g inst : term) (k : cont) (e : env)
| ThUnify (x y : term) (k : cont) (e : env)                                 (* Clause / Between alternatives *)
| ThBetween (low : Z) (upper value : term) (k : cont) (e : env)
| ThGroup (witness : term) (ws ts : list term) (setof : bool) (inst : term) (k : cont) (e : env)
| ThPromiseUnify (x y : term) (k : cont) (e : env).

Inductive handler := HCatch (catcher recovery : term) (k : cont) (e : env).

Record promise := mkP {
  p_id : Z;
  p_delayed : list thunk;
  p_ok : bool;
  p_err : option merr;
  p_cutp : option Z;       (* cutParent *)
  p_cutdone : option Z;    (* cutDone: the parent this promise has already cut to *)
  p_repeat : bool;
  p_recover : option handler;
  p_exited : option Z      (* exited: id of the catching promise whose goal has exited *)
}.

Definition PBool (b : bool) : promise := mkP 0 [] b None None None false None None.
Definition PErr (e : merr) : promise := mkP 0 [] false (Some e) None None false None None.

(** ---- machine state -------------------------------------------------------------- *)

Record proc := mkProc {
  pr_name : string; pr_arity : nat; pr_uid : Z;
  pr_dynamic : bool; pr_public : bool;
  pr_clauses : list clause
}.

Record state := mkSt {
  s_nextv : Z;                       (* NewVariable counter *)
  s_nextid : Z;                      (* promise / object identities *)
  s_db : list proc;
  s_answers : list (list term);      (* answers handed to the consumer, most recent first *)
  s_limit : nat;                     (* consumer asks for at most this many answers *)
  s_qvars : list term;               (* the query's variables *)
  s_collect : list (Z * list term);  (* FindAll accumulators, by id *)
  s_deleted : list (Z * nat);        (* Retract's per-call [deleted] counters, by id *)
  s_polls : option nat               (* ctx.Done(): None = never cancelled; Some n = closed from the n-th poll on *)
}.

Definition fresh_id (st : state) : Z * state :=
  (s_nextid st, mkSt (s_nextv st) (s_nextid st + 1) (s_db st) (s_answers st) (s_limit st) (s_qvars st) (s_collect st) (s_deleted st) (s_polls st)).
Definition fresh_vars (n : nat) (st : state) : list Z * state :=
  (map (fun i => s_nextv st + Z.of_nat i) (seq 0 n),
   mkSt (s_nextv st + Z.of_nat n) (s_nextid st) (s_db st) (s_answers st) (s_limit st) (s_qvars st) (s_collect st) (s_deleted st) (s_polls st)).
Definition set_db (st : state) (db : list proc) : state :=
  mkSt (s_nextv st) (s_nextid st) db (s_answers st) (s_limit st) (s_qvars st) (s_collect st) (s_deleted st) (s_polls st).
Definition set_answers (st : state) (a : list (list term)) : state :=
  mkSt (s_nextv st) (s_nextid st) (s_db st) a (s_limit st) (s_qvars st) (s_collect st) (s_deleted st) (s_polls st).
Definition set_collect (st : state) (c : list (Z * list term)) : state :=
  mkSt (s_nextv st) (s_nextid st) (s_db st) (s_answers st) (s_limit st) (s_qvars st) c (s_deleted st) (s_polls st).
Definition set_deleted (st : state) (d : list (Z * nat)) : state :=
  mkSt (s_nextv st) (s_nextid st) (s_db st) (s_answers st) (s_limit st) (s_qvars st) (s_collect st) d (s_polls st).
Definition set_polls (st : state) (p : option nat) : state :=
  mkSt (s_nextv st) (s_nextid st) (s_db st) (s_answers st) (s_limit st) (s_qvars st) (s_collect st) (s_deleted st) p.

Definition find_proc (db : list proc) (n : string) (a : nat) : option proc :=
  find (fun p => String.eqb (pr_name p) n && Nat.eqb (pr_arity p) a) db.

Fixpoint update_proc (db : list proc) (p : proc) : list proc :=
  match db with
  | [] => [p]
  | q :: db' => if String.eqb (pr_name q) (pr_name p) && Nat.eqb (pr_arity q) (pr_arity p)
                then p :: db' else q :: update_proc db' p
  end.
Definition remove_proc (db : list proc) (n : string) (a : nat) : list proc :=
  filter (fun p => negb (String.eqb (pr_name p) n && Nat.eqb (pr_arity p) a)) db.

(** ---- renamedCopy: copy with fresh variables ----------------------------------------- *)

Fixpoint rename_with (m : list (Z * Z)) (t : term) : term :=
  match t with
  | Var v => match find (fun p => Z.eqb (fst p) v) m with Some p => Var (snd p) | None => Var v end
  | Cmp f args => Cmp f (map (rename_with m) args)
  | _ => t
  end.

Definition renamed_copy (e : env) (t : term) (st : state) : term * state :=
  let w := walk e t in
  let vs := tvars w in
  let '(fresh, st') := fresh_vars (List.length vs) st in
  (rename_with (combine vs fresh) w, st').

(** ---- promise stack operations (promise.go) -------------------------------------------- *)

(** popUntil: pop until the popped promise is [c], or a promise that has
    already cut to [c] and stands in its place (inclusive); if there is none,
    everything is popped *)
Definition stands_for (c : Z) (p : promise) : bool :=
  Z.eqb (p_id p) c || match p_cutdone p with Some d => Z.eqb d c | None => false end.
Fixpoint pop_until (c : Z) (stack : list promise) : list promise :=
  match stack with
  | [] => []
  | p :: rest => if stands_for c p then rest else pop_until c rest
  end.

Definition tuple_t (args : list term) : term :=
  match args with [] => Atom "" | _ => Cmp "" args end.

Definition rulify (e : env) (t : term) : term :=
  match resolve e t with
  | Cmp ":-" [h; b] => Cmp ":-" [h; b]
  | r => Cmp ":-" [r; true_t]
  end.

(** iteratedGoalTerm / existential variables / free variables set (variable.go) *)
Fixpoint strip_carets (fuel : nat) (e : env) (t : term) : term :=
  match fuel with
  | O => t
  | S f => match resolve e t with
           | Cmp "^" [_; g] => strip_carets f e g
           | _ => t
           end
  end.

(** variables of [v ^ ... ^ g] prefixes and of the template: not free *)
Fixpoint exist_vars (fuel : nat) (e : env) (t : term) (acc : list Z) : list Z :=
  match fuel with
  | O => acc
  | S f => match resolve e t with
           | Cmp "^" [v; g] => exist_vars f e g (fvs_f UFUEL e v acc)
           | Cmp ":" [_; g] => exist_vars f e g acc
           | _ => acc
           end
  end.

Definition free_vars_set (e : env) (goal tmpl : term) : list Z :=
  let bound := exist_vars UFUEL e goal (fvs_f UFUEL e tmpl []) in
  filter (fun v => negb (existsb (Z.eqb v) bound)) (free_vars e goal).

(** variant as implemented (engine/builtin.go variant): a one-to-one mapping of
    the variables of the first term to those of the second *)
Fixpoint variant_f (fuel : nat) (e : env) (m : list (Z * Z)) (work : list (term * term)) : bool :=
  match fuel with
  | O => false
  | S f =>
      match work with
      | [] => true
      | (a, b) :: rest =>
          match resolve e a, resolve e b with
          | Var x, Var y =>
              match find (fun p => Z.eqb (fst p) x) m with
              | Some p => if Z.eqb (snd p) y then variant_f f e m rest else false
              | None => if existsb (fun p => Z.eqb (snd p) y) m then false   (* y is already the image of another variable *)
                        else variant_f f e ((x, y) :: m) rest
              end
          | Var _, _ => false
          | Cmp fa xs, Cmp fb ys =>
              if String.eqb fa fb && Nat.eqb (List.length xs) (List.length ys)
              then variant_f f e m (rev (combine xs ys) ++ rest)   (* Go pushes the args and pops from the end *)
              else false
          | Cmp _ _, _ => false
          | x, y => if term_eqb x y then variant_f f e m rest else false
          end
      end
  end.
Definition variant (e : env) (a b : term) : bool := variant_f UFUEL e [] [(a, b)].

(** list iteration helpers (ListIterator with AllowPartial) : Some = proper/partial list elements *)
Fixpoint list_elems (fuel : nat) (e : env) (t : term) : option (list term * term) :=
  match fuel with
  | O => None
  | S f => match resolve e t with
           | Cmp "." [h; tl] => match list_elems f e tl with
                                | Some (l, tail) => Some (h :: l, tail)
                                | None => None
                                end
           | r => Some ([], r)
           end
  end.

(** check of the Instances argument of findall/bagof/setof: a list or partial list *)
Definition check_partial_list (e : env) (t : term) : option merr :=
  match list_elems UFUEL e t with
  | Some (_, Var _) => None
  | Some (_, Atom "[]") => None
  | _ => Some (type_err "list" (walk e t))
  end.

(** ---- arithmetic glue ---------------------------------------------------------------- *)

Fixpoint to_expr (fuel : nat) (e : env) (t : term) : expr :=
  match fuel with
  | O => EOther
  | S f => match resolve e t with
           | Var _ => EVar
           | Atom a => EAtom a
           | Int z => ENum (NInt z)
           | Flt b => ENum (NFlt (of_bits b))
           | Cmp g args => ECmp g (map (to_expr f e) args)
           end
  end.

Definition num_term (n : num) : term :=
  match n with NInt z => Int z | NFlt f => Flt (to_bits f) end.

Definition exc_name (x : exc) : string :=
  match x with FloatOverflow => "float_overflow" | IntOverflow => "int_overflow" | Underflow => "underflow"
             | ZeroDivisor => "zero_divisor" | Undefined => "undefined" end.
Definition vtype_name (v : vtype) : string :=
  match v with VTInteger => "integer" | VTFloat => "float" | VTEvaluable => "evaluable" end.

Definition everr_merr (x : everr) : merr :=
  match x with
  | XInstantiation => inst_err
  | XTypeEvaluable n a => type_err "evaluable" (pi_t n a)
  | XTypeEvaluableTerm => type_err "evaluable" (pi_t "?" 0)
  | XKernel (EExc x) => eval_err (exc_name x)
  | XKernel (EType v c) => type_err (vtype_name v) (num_term c)
  end.

Definition eval_term (e : env) (t : term) : num + merr :=
  match eval (to_expr UFUEL e t) with
  | Ok n => inl n
  | Err x => inr (everr_merr x)
  | Panic => inr (EPanic "arithmetic")
  | ConvUB => inr (EPanic "conversion")
  | OutOfFuel => inr (EFuel)
  | Unmodelled => inr (EPanic "unmodelled")
  end.

(** ---- the machine ------------------------------------------------------------------------ *)

Inductive fres := FTrue | FFalse | FError (e : merr) | FOutOfFuel.

Definition delay (ths : list thunk) (st : state) : promise * state :=
  let '(id, st') := fresh_id st in (mkP id ths false None None None false None None, st').

(** clauses.call *)
Definition clauses_call (cs : list clause) (args : list term) (k : cont) (e : env) (st : state) : promise * state :=
  let '(id, st') := fresh_id st in
  (mkP id (map (fun c => ThClause c args k e id) cs) false None None None false None None, st').

Definition callable_pi (e : env) (t : term) : (string * list term) + merr :=
  match resolve e t with
  | Var _ => inr inst_err
  | Atom a => inl (a, [])
  | Cmp f args => inl (f, args)
  | r => inr (type_err "callable" (walk e r))
  end.

Definition type_check (name : string) (t : term) : option bool :=
  match name, t with
  | "var", Var _ => Some true | "var", _ => Some false
  | "atom", Atom _ => Some true | "atom", _ => Some false
  | "integer", Int _ => Some true | "integer", _ => Some false
  | "float", Flt _ => Some true | "float", _ => Some false
  | "compound", Cmp _ _ => Some true | "compound", _ => Some false
  | _, _ => None
  end.

Definition cmp_of (name : string) : option cmpop :=
  match name with
  | "=:=" => Some CEq | "=\=" => Some CNe | "<" => Some CLt | ">" => Some CGt | "=<" => Some CLe | ">=" => Some CGe
  | _ => None
  end.

Definition get_collect (st : state) (cid : Z) : list term :=
  match find (fun p => Z.eqb (fst p) cid) (s_collect st) with Some p => snd p | None => [] end.
Definition put_collect (st : state) (cid : Z) (l : list term) : state :=
  set_collect st ((cid, l) :: filter (fun p => negb (Z.eqb (fst p) cid)) (s_collect st)).
Definition get_deleted (st : state) (rid : Z) : nat :=
  match find (fun p => Z.eqb (fst p) rid) (s_deleted st) with Some p => snd p | None => O end.
Definition put_deleted (st : state) (rid : Z) (n : nat) : state :=
  set_deleted st ((rid, n) :: filter (fun p => negb (Z.eqb (fst p) rid)) (s_deleted st)).

(** Retract's deletion [append(u.clauses[:j], u.clauses[j+1:]...)]; j out of range panics *)
Definition delete_at (j : Z) (cs : list clause) : option (list clause) :=
  if (j <? 0) || (Z.of_nat (List.length cs) <=? j) then None
  else Some (firstn (Z.to_nat j) cs ++ skipn (S (Z.to_nat j)) cs).

Definition is_builtin (n : string) (a : nat) : bool :=
  match n, a with
  | "call", S a' => Nat.leb a' 7
  | "\+", 1%nat | "catch", 3%nat | "throw", 1%nat | "findall", 3%nat | "bagof", 3%nat | "setof", 3%nat
  | "=", 2%nat | "unify_with_occurs_check", 2%nat | "compare", 3%nat | "is", 2%nat
  | "between", 3%nat | "asserta", 1%nat | "assertz", 1%nat | "retract", 1%nat | "abolish", 1%nat | "clause", 2%nat
  | "copy_term", 2%nat | "repeat", 0%nat | "functor", 3%nat | "arg", 3%nat | "=..", 2%nat | "call_nth", 2%nat => true
  | _, 1%nat => match type_check n (Var 0) with Some _ => true | None => false end
  | _, 2%nat => match cmp_of n with Some _ => true | None => false end
  | _, _ => false
  end.

(** the dispatch of [builtin]: the name is decoded once, into an enumeration *)
Inductive bi :=
| BCall | BNot | BRepeat | BThrow | BCatch | BFindall | BBagof | BSetof | BUnify | BUnifyOC | BCompare | BIs
| BBetween | BCopyTerm | BAssertz | BAsserta | BRetract | BClause | BAbolish | BFunctor | BArg | BOther.

Definition bi_of (name : string) : bi :=
  match name with
  | "call" => BCall | "\+" => BNot | "repeat" => BRepeat | "throw" => BThrow | "catch" => BCatch
  | "findall" => BFindall | "bagof" => BBagof | "setof" => BSetof | "=" => BUnify
  | "unify_with_occurs_check" => BUnifyOC | "compare" => BCompare | "is" => BIs | "between" => BBetween
  | "copy_term" => BCopyTerm | "assertz" => BAssertz | "asserta" => BAsserta | "retract" => BRetract
  | "clause" => BClause | "abolish" => BAbolish | "functor" => BFunctor | "arg" => BArg
  | _ => BOther
  end.

(** a promise that only says "the model ran out of fuel here" *)
Definition is_fuel_err (p : promise) : bool :=
  match p_err p with Some EFuel => true | _ => false end.

Section Machine.

(** answers wanted from a nested Force (\+, findall): none recorded at top level *)

Fixpoint force (fuel : nat) (stack : list promise) (st : state) {struct fuel} : fres * state :=
  match fuel with
  | O => (FOutOfFuel, st)
  | S f =>
      match stack with
      | [] => (FFalse, st)
      | p :: rest =>
          (* the model, not the code: a child that ran out of fuel ends the run before anything else is observed *)
          if is_fuel_err p then (FOutOfFuel, st) else
          (* select on ctx.Done() *)
          match s_polls st with
          | Some O => (FError ECancelled, st)
          | polls =>
              let st := match polls with Some (S n) => set_polls st (Some n) | _ => st end in
              match p_delayed p with
              | [] =>
                  match p_err p with
                  | Some err => recover f err [] rest st
                  | None => if p_ok p then (FTrue, st) else force f rest st
                  end
              | th :: ths =>
                  let rest' := match p_cutp p with Some c => pop_until c rest | None => rest end in
                  let p' := mkP (p_id p) (if p_repeat p then th :: ths else ths) (p_ok p) (p_err p) None
                                (match p_cutp p with Some c => Some c | None => p_cutdone p end) (p_repeat p) (p_recover p) (p_exited p) in
                  let '(q, st') := run_thunk f th st in
                  force f (q :: p' :: rest') st'
              end
          end
      end
  end

(** promiseStack.recover *)
with recover (fuel : nat) (err : merr) (exited : list Z) (stack : list promise) (st : state) {struct fuel} : fres * state :=
  match fuel with
  | O => (FOutOfFuel, st)
  | S f =>
      match err, stack with
      | EFuel, _ => (FOutOfFuel, st)
      | _, [] => (FError err, st)
      | _, p :: rest =>
          match p_exited p with
          | Some x => recover f err (x :: exited) rest st
          | None =>
          match (if existsb (Z.eqb (p_id p)) exited then None else p_recover p) with
          | None => recover f err exited rest st
          | Some (HCatch catcher recovery k e) =>
              let ball := match err with
                          | EBall t => t
                          | EPanic w => Cmp "error" [Atom "system_error"; Atom w]
                          | ECancelled => Cmp "error" [Atom "system_error"; Atom "context canceled"]
                          | EFuel => Atom "$fuel"
                          end in
              match unify e catcher ball with
              | UOk e' => let '(q, st') := call_goal f recovery k e' st in force f (q :: rest) st'
              | _ => recover f err exited rest st
              end
          end
          end
      end
  end

with run_thunk (fuel : nat) (th : thunk) (st : state) {struct fuel} : promise * state :=
  match fuel with
  | O => (PErr (EFuel), st)
  | S f =>
      match th with
      | ThClause c args k e pid =>
          let '(vs, st') := fresh_vars (List.length (c_vars c)) st in
          exec f (c_code c) vs k args [] e pid st'
      | ThExec pc vs k args astack e cutp => exec f pc vs k args astack e cutp st
      | ThApply k e => apply_cont f k e st
      | ThCall g k e => call_goal f g k e st
      | ThNegate g k e =>
          let '(q, st1) := call_goal f g KSuccess e st in
          match force f [q] st1 with
          | (FError err, st2) => (PErr err, st2)
          | (FTrue, st2) => (PBool false, st2)
          | (FFalse, st2) => apply_cont f k e st2
          | (FOutOfFuel, st2) => (PErr (EFuel), st2)
          end
      | ThFindall tmpl g inst k e =>
          let '(cid, st0) := fresh_id st in
          let st0 := put_collect st0 cid [] in
          let '(q, st1) := call_goal f g (KCollect tmpl cid) e st0 in
          match force f [q] st1 with
          | (FError err, st2) => (PErr err, st2)
          | (FOutOfFuel, st2) => (PErr (EFuel), st2)
          | (_, st2) =>
              let answers := rev (get_collect st2 cid) in
              match unify e inst (list_t answers) with
              | UOk e' => apply_cont f k e' st2
              | _ => (PBool false, st2)
              end
          end
      | ThUnify x y k e =>
          match unify e x y with
          | UOk e' => apply_cont f k e' st
          | _ => (PBool false, st)
          end
      | ThPromiseUnify x y k e =>
          match unify e x y with
          | UOk e' => apply_cont f k e' st
          | _ => (PBool false, st)
          end
      | ThBetween low upper value k e => between f low upper value k e st
      | ThGroup witness ws ts setof inst k e =>
          let e' := fold_left (fun acc w => match unify acc witness w with UOk e2 => e2 | _ => acc end) ws e in
          let agg := if setof then list_t (sort_uniq e' ts) else list_t ts in
          match unify e' agg inst with
          | UOk e2 => apply_cont f k e2 st
          | _ => (PBool false, st)
          end
      end
  end

with between (fuel : nat) (low : Z) (upper value : term) (k : cont) (e : env) (st : state) {struct fuel} : promise * state :=
  match fuel with
  | O => (PErr (EFuel), st)
  | S f =>
      match resolve e upper with
      | Var _ => (PErr inst_err, st)
      | Int high =>
          if high <? low then (PBool false, st)
          else match resolve e value with
               | Int v => if (v <? low) || (high <? v) then (PBool false, st) else apply_cont f k e st
               | Var v =>
                   delay (ThUnify (Var v) (Int low) k e ::
                          (if low <? high then [ThBetween (add64 low 1) upper (Var v) k e] else [])) st
               | r => (PErr (type_err "integer" (walk e r)), st)
               end
      | r => (PErr (type_err "integer" (walk e r)), st)
      end
  end

with apply_cont (fuel : nat) (k : cont) (e : env) (st : state) {struct fuel} : promise * state :=
  match fuel with
  | O => (PErr (EFuel), st)
  | S f =>
      if poisoned e then (PErr EFuel, st) else
      match k with
      | KExec pc vs k' cutp => exec f pc vs k' [] [] e cutp st
      | KSuccess => (PBool true, st)
      | KTop =>
          let ans := map (walk e) (s_qvars st) in
          let st' := set_answers st (ans :: s_answers st) in
          (PBool (Nat.leb (s_limit st') (List.length (s_answers st'))), st')
      | KCollect tmpl cid =>
          let '(c, st') := renamed_copy e tmpl st in
          (PBool false, put_collect st' cid (c :: get_collect st' cid))
      | KBag witness setof inst s k' =>
          (* group the W+T pairs by variance of W *)
          match list_elems UFUEL e (Var s) with
          | Some (pairs, _) =>
              let wt := map (fun x => match resolve e x with Cmp "+" [w; t] => (w, t) | r => (r, r) end) pairs in
              let groups := group_with (fun ww w => variant e ww w) (S (List.length wt)) wt in
              delay (map (fun g => ThGroup witness (fst g) (snd g) setof inst k' e) groups) st
          | None => (PErr (EPanic "bag"), st)
          end
      | KRetractDel cid uid k' =>
          (* the clause itself is looked up (by identity) in the procedure object the call started with *)
          match find (fun p => Z.eqb (pr_uid p) uid) (s_db st) with
          | Some p =>
              if existsb (fun c => Z.eqb (c_cid c) cid) (pr_clauses p)
              then
                let p' := mkProc (pr_name p) (pr_arity p) (pr_uid p) (pr_dynamic p) (pr_public p)
                                 (filter (fun c => negb (Z.eqb (c_cid c) cid)) (pr_clauses p)) in
                apply_cont f k' e (set_db st (update_proc (s_db st) p'))
              else (PBool false, st)           (* already removed by someone else *)
          | None => (PBool false, st)          (* the procedure object is no longer in the database *)
          end
      | KCallNth cnt nth pid k' => (PErr (EPanic "call_nth unmodelled"), st)
      | KCatchExit pid k' =>
          let '(id, st') := fresh_id st in
          (mkP id [ThApply k' e] false None None None false None (Some pid), st')
      end
  end

(** vm.exec *)
with exec (fuel : nat) (pc : list instr) (vs : list Z) (k : cont) (args : list term) (astack : list frame)
          (e : env) (cutp : Z) (st : state) {struct fuel} : promise * state :=
  match fuel with
  | O => (PErr (EFuel), st)
  | S f =>
      if poisoned e then (PErr EFuel, st) else
      match pc with
      | [] => (PErr (EPanic "index out of range"), st)
      | op :: pc' =>
          let vr := fun i => Var (nth i vs 0) in
          match op with
          | IEnter => exec f pc' vs k args astack e cutp st
          | IGetConst c =>
              match args with
              | a :: args' => match unify e a c with
                              | UOk e' => exec f pc' vs k args' astack e' cutp st
                              | _ => (PBool false, st)
                              end
              | [] => (PErr (EPanic "index out of range"), st)
              end
          | IGetVar i =>
              match args with
              | a :: args' => match unify e a (vr i) with
                              | UOk e' => exec f pc' vs k args' astack e' cutp st
                              | _ => (PBool false, st)
                              end
              | [] => (PErr (EPanic "index out of range"), st)
              end
          | IGetFunctor g n =>
              match args with
              | a :: args' =>
                  let '(fv, st') := fresh_vars n st in
                  let sub := map Var fv in
                  match unify e a (match sub with [] => Atom g | _ => Cmp g sub end) with
                  | UOk e' => exec f pc' vs k sub (FGet args' :: astack) e' cutp st'
                  | _ => (PBool false, st')
                  end
              | [] => (PErr (EPanic "index out of range"), st)
              end
          | IPutConst c => exec f pc' vs k (args ++ [c]) astack e cutp st
          | IPutVar i => exec f pc' vs k (args ++ [vr i]) astack e cutp st
          | IPutFunctor g n => exec f pc' vs k [] (FPut args g :: astack) e cutp st
          | IPop =>
              match astack with
              | FGet rest :: astack' => exec f pc' vs k rest astack' e cutp st
              | FPut parent g :: astack' => exec f pc' vs k (parent ++ [Cmp g args]) astack' e cutp st
              | [] => (PErr (EPanic "index out of range"), st)
              end
          | ICall g n => arrive f g args (KExec pc' vs k cutp) e st
          | IExit => apply_cont f k e st
          | ICut =>
              let '(id, st') := fresh_id st in
              (mkP id [ThExec pc' vs k args astack e cutp] false None (Some cutp) None false None None, st')
          end
      end
  end

(** builtin.Call *)
with call_goal (fuel : nat) (g : term) (k : cont) (e : env) (st : state) {struct fuel} : promise * state :=
  match fuel with
  | O => (PErr (EFuel), st)
  | S f =>
      match resolve e g with
      | Var _ => (PErr inst_err, st)
      | g' =>
          let fvs := free_vars e g' in
          let args := map Var fvs in
          let t_top := Cmp ":-" [tuple_t args; g'] in
          match compile (walk e t_top) (walk e t_top) with
          | inl cs => clauses_call cs args k e st
          | inr culprit => (PErr (type_err "callable" (walk e culprit)), st)
          end
      end
  end

(** vm.Arrive *)
with arrive (fuel : nat) (name : string) (args : list term) (k : cont) (e : env) (st : state) {struct fuel} : promise * state :=
  match fuel with
  | O => (PErr (EFuel), st)
  | S f =>
      let arity := List.length args in
      if is_builtin name arity then builtin f name args k e st
      else match find_proc (s_db st) name arity with
           | Some p => clauses_call (pr_clauses p) args k e st
           | None => (PErr (exist_proc_err name arity), st)
           end
  end

with builtin (fuel : nat) (name : string) (args : list term) (k : cont) (e : env) (st : state) {struct fuel} : promise * state :=
  match fuel with
  | O => (PErr (EFuel), st)
  | S f =>
      match bi_of name, args with
      | BCall, g :: extra =>
          match extra with
          | [] => call_goal f g k e st
          | _ => match callable_pi e g with
                 | inr err => (PErr err, st)
                 | inl (fn, a0) => call_goal f (Cmp fn (a0 ++ extra)) k e st
                 end
          end
      | BNot, [g] => delay [ThNegate g k e] st
      | BRepeat, [] =>
          let '(id, st') := fresh_id st in
          (mkP id [ThApply k e] false None None None true None None, st')
      | BThrow, [b] =>
          match resolve e b with
          | Var _ => (PErr inst_err, st)
          | b' => let '(c, st') := renamed_copy e b' st in (PErr (EBall c), st')
          end
      | BCatch, [g; catcher; recovery] =>
          let '(id, st') := fresh_id st in
          (mkP id [ThCall g (KCatchExit id k) e] false None None None false (Some (HCatch catcher recovery k e)) None, st')
      | BFindall, [tmpl; g; inst] =>
          match check_partial_list e inst with
          | Some err => (PErr err, st)
          | None => delay [ThFindall tmpl g inst k e] st
          end
      | BBagof, [tmpl; g; inst] => collection f false tmpl g inst k e st
      | BSetof, [tmpl; g; inst] => collection f true tmpl g inst k e st
      | BUnify, [x; y] =>
          match unify e x y with UOk e' => apply_cont f k e' st | _ => (PBool false, st) end
      | BUnifyOC, [x; y] =>
          match unify_oc e x y with UOk e' => apply_cont f k e' st | _ => (PBool false, st) end
      | BCompare, [o; x; y] =>
          let go := fun (_ : unit) =>
            let r := match compare_t e x y with Lt => "<" | Eq => "=" | Gt => ">" end in
            match unify e (Atom r) o with UOk e' => apply_cont f k e' st | _ => (PBool false, st) end in
          match resolve e o with
          | Var _ => go tt
          | Atom a => if String.eqb a "<" || String.eqb a "=" || String.eqb a ">" then go tt
                      else (PErr (dom_err "order" (walk e o)), st)
          | _ => (PErr (type_err "atom" (walk e o)), st)
          end
      | BIs, [r; x] =>
          match eval_term e x with
          | inl n => match unify e r (num_term n) with UOk e' => apply_cont f k e' st | _ => (PBool false, st) end
          | inr err => (PErr err, st)
          end
      | BBetween, [lo; hi; v] =>
          match resolve e lo with
          | Int low =>
              match resolve e hi with
              | Var _ => (PErr inst_err, st)
              | Int _ => between f low hi v k e st
              | r => (PErr (type_err "integer" (walk e r)), st)
              end
          | Var _ => (PErr inst_err, st)
          | r => (PErr (type_err "integer" (walk e r)), st)
          end
      | BCopyTerm, [x; y] =>
          let '(c, st') := renamed_copy e x st in
          match unify e c y with UOk e' => apply_cont f k e' st' | _ => (PBool false, st') end
      | BAssertz, [t] => assert_clause f false t k e st
      | BAsserta, [t] => assert_clause f true t k e st
      | BRetract, [t] =>
          match rulify e t with
          | Cmp ":-" [h; b] as t' =>
              match callable_pi e h with
              | inr err => (PErr err, st)
              | inl (fn, a0) =>
                  match find_proc (s_db st) fn (List.length a0) with
                  | None => (PBool false, st)
                  | Some p =>
                      if negb (pr_dynamic p) then (PErr (perm_err "modify" "static_procedure" (pi_t fn (Z.of_nat (List.length a0)))), st)
                      else
                        let ths := map (fun c => ThUnify t' (rulify e (c_raw c)) (KRetractDel (c_cid c) (pr_uid p) k) e)
                                       (pr_clauses p) in
                        delay ths st
                  end
              end
          | _ => (PErr (EPanic "rulify"), st)
          end
      | BClause, [h; b] =>
          match callable_pi e h with
          | inr err => (PErr err, st)
          | inl (fn, a0) =>
              match resolve e b with
              | Int _ | Flt _ => (PErr (type_err "callable" (walk e b)), st)
              | _ =>
                  match find_proc (s_db st) fn (List.length a0) with
                  | None => (PBool false, st)
                  | Some p =>
                      if negb (pr_public p) then (PErr (perm_err "access" "private_procedure" (pi_t fn (Z.of_nat (List.length a0)))), st)
                      else
                        let '(ths, st') :=
                          fold_left (fun acc c => let '(l, s0) := acc in
                                                  let '(cp, s1) := renamed_copy e (c_raw c) s0 in
                                                  (l ++ [ThUnify (Cmp ":-" [h; b]) (rulify e cp) k e], s1))
                                    (pr_clauses p) ([], st) in
                        delay ths st'
                  end
              end
          end
      | BAbolish, [pi] =>
          match resolve e pi with
          | Var _ => (PErr inst_err, st)
          | Cmp "/" [n; a] =>
              match resolve e n with
              | Var _ => (PErr inst_err, st)
              | Atom nm =>
                  match resolve e a with
                  | Var _ => (PErr inst_err, st)
                  | Int ar =>
                      if ar <? 0 then (PErr (dom_err "not_less_than_zero" (Int ar)), st)
                      else match find_proc (s_db st) nm (Z.to_nat ar) with
                           | Some p => if pr_dynamic p then apply_cont f k e (set_db st (remove_proc (s_db st) nm (Z.to_nat ar)))
                                       else (PErr (perm_err "modify" "static_procedure" (pi_t nm ar)), st)
                           | None => apply_cont f k e st   (* no such procedure: nothing to abolish *)
                           end
                  | r => (PErr (type_err "integer" (walk e r)), st)
                  end
              | r => (PErr (type_err "atom" (walk e r)), st)
              end
          | r => (PErr (type_err "predicate_indicator" (walk e r)), st)
          end
      | BFunctor, [t; n; a] =>
          match resolve e t with
          | Var v =>
              match resolve e a with
              | Var _ => (PErr inst_err, st)
              | Int ar =>
                  if ar <? 0 then (PErr (dom_err "not_less_than_zero" (Int ar)), st)
                  else match resolve e n with
                       | Var _ => (PErr inst_err, st)
                       | Cmp _ _ as c => (PErr (type_err "atomic" (walk e c)), st)
                       | nm =>
                           if ar =? 0 then match unify e (Var v) nm with UOk e' => apply_cont f k e' st | _ => (PBool false, st) end
                           else match nm with
                                | Atom fn =>
                                    let '(fv, st') := fresh_vars (Z.to_nat ar) st in
                                    match unify e (Var v) (Cmp fn (map Var fv)) with
                                    | UOk e' => apply_cont f k e' st' | _ => (PBool false, st') end
                                | _ => (PErr (type_err "atom" (walk e nm)), st)
                                end
                       end
              | r => (PErr (type_err "integer" (walk e r)), st)
              end
          | Cmp fn xs =>
              match unify e (Cmp "" [n; a]) (Cmp "" [Atom fn; Int (Z.of_nat (List.length xs))]) with
              | UOk e' => apply_cont f k e' st | _ => (PBool false, st) end
          | atomic =>
              match unify e (Cmp "" [n; a]) (Cmp "" [atomic; Int 0]) with
              | UOk e' => apply_cont f k e' st | _ => (PBool false, st) end
          end
      | BArg, [n; t; a] =>
          match resolve e t with
          | Var _ => (PErr inst_err, st)
          | Cmp _ xs =>
              match resolve e n with
              | Var _ => (PErr inst_err, st)
              | Int i =>
                  if (i =? 0) || (Z.of_nat (List.length xs) <? i) then (PBool false, st)
                  else if i <? 0 then (PErr (dom_err "not_less_than_zero" (Int i)), st)
                  else match unify e a (nth (Z.to_nat (i - 1)) xs (Atom "")) with
                       | UOk e' => apply_cont f k e' st | _ => (PBool false, st) end
              | r => (PErr (type_err "integer" (walk e r)), st)
              end
          | _ => (PErr (type_err "compound" (walk e t)), st)
          end
      | BOther, [x] =>
          match type_check name (resolve e x) with
          | Some true => apply_cont f k e st
          | Some false => (PBool false, st)
          | None => (PErr (EPanic "no such builtin"), st)
          end
      | BOther, [x; y] =>
          match cmp_of name with
          | Some op =>
              match eval_term e x with
              | inr err => (PErr err, st)
              | inl a =>
                  match eval_term e y with
                  | inr err => (PErr err, st)
                  | inl b => if compare_num op a b then apply_cont f k e st else (PBool false, st)
                  end
              end
          | None => (PErr (EPanic "no such builtin"), st)
          end
      | _, _ => (PErr (EPanic "no such builtin"), st)
      end
  end

(** collectionOf (bagof / setof) *)
with collection (fuel : nat) (setof : bool) (tmpl g inst : term) (k : cont) (e : env) (st : state) {struct fuel} : promise * state :=
  match fuel with
  | O => (PErr (EFuel), st)
  | S f =>
      let fv := free_vars_set e g tmpl in
      (* Go sorts the witness variables by variable number *)
      let fv := map (fun t => match t with Var v => v | _ => 0 end) (sort_uniq empty_env (map Var fv)) in
      let witness := tuple_t (map Var fv) in
      let g' := strip_carets UFUEL e g in
      let '(sv, st0) := fresh_vars 1 st in
      let s := nth 0 sv 0 in
      match check_partial_list e inst with
      | Some err => (PErr err, st0)
      | None => delay [ThFindall (Cmp "+" [witness; tmpl]) g' (Var s) (KBag witness setof inst s k) e] st0
      end
  end

(** assertMerge *)
with assert_clause (fuel : nat) (front : bool) (t : term) (k : cont) (e : env) (st : state) {struct fuel} : promise * state :=
  match fuel with
  | O => (PErr (EFuel), st)
  | S f =>
      match callable_pi e t with
      | inr err => (PErr err, st)
      | inl (fn0, a0) =>
          let head_pi_r :=
            if String.eqb fn0 ":-" && Nat.eqb (List.length a0) 2
            then match callable_pi e (nth 0 a0 (Atom "")) with
                 | inr err => inr err
                 | inl (fn, a1) => inl (fn, List.length a1)
                 end
            else inl (fn0, List.length a0) in
          match head_pi_r with
          | inr err => (PErr err, st)
          | inl (fn, ar) =>
              (* the procedure is created (dynamic) before the clause is compiled *)
              let '(p, st1) :=
                match find_proc (s_db st) fn ar with
                | Some p => (p, st)
                | None => let '(uid, s1) := fresh_id st in
                          let p := mkProc fn ar uid true true [] in
                          (p, set_db s1 (s_db s1 ++ [p]))
                end in
              (* the stored term gets its own variables (renamedCopy in assertMerge) *)
              let '(rawc, st1) := renamed_copy e t st1 in
              match compile (walk e t) rawc with
              | inr culprit => (PErr (type_err "callable" (walk e culprit)), st1)
              | inl cs =>
                  if is_builtin fn ar || negb (pr_dynamic p)
                  then (PErr (perm_err "modify" "static_procedure" (pi_t fn (Z.of_nat ar))), st1)
                  else
                    let '(cs', st2) :=
                      fold_left (fun acc c => let '(l, s0) := acc in
                                              let '(id, s1) := fresh_id s0 in
                                              (l ++ [mkClause (c_name c) (c_arity c) (c_raw c) (c_vars c) (c_code c) id], s1))
                                cs ([], st1) in
                    let merged := if front then cs' ++ pr_clauses p else pr_clauses p ++ cs' in
                    let p' := mkProc (pr_name p) (pr_arity p) (pr_uid p) (pr_dynamic p) (pr_public p) merged in
                    apply_cont f k e (set_db st2 (update_proc (s_db st2) p'))
              end
          end
      end
  end.

End Machine.

(** ---- running a query ------------------------------------------------------------------------ *)

Definition init_state (db : list proc) (nextv : Z) (qvars : list term) (limit : nat) (polls : option nat) : state :=
  mkSt nextv 100000 db [] limit qvars [] [] polls.

(** QueryContext + consumer that takes up to [limit] answers *)
Definition run_query (fuel : nat) (db : list proc) (nextv : Z) (q : term) (qvars : list term) (limit : nat)
                     (polls : option nat) : fres * state :=
  let st := init_state db nextv qvars limit polls in
  let '(p, st1) := call_goal fuel q KTop empty_env st in
  force fuel [p] st1.
