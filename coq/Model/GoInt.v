(** Go's int64 arithmetic with explicit two's-complement wrap-around, and the
    outcome type shared by every translated kernel.  Executable definitions only. *)
From Coq Require Import ZArith Bool List.
Open Scope Z_scope.

Definition minI : Z := -9223372036854775808.
Definition maxI : Z := 9223372036854775807.
Definition two64 : Z := 18446744073709551616.
Definition two63 : Z := 9223372036854775808.

Definition int64 (z : Z) : Prop := minI <= z <= maxI.
Definition int64b (z : Z) : bool := (minI <=? z) && (z <=? maxI).

(** value of the low 64 bits read as a signed integer *)
Definition wrap (z : Z) : Z := ((z + two63) mod two64) - two63.

(** exceptional values of the ISO evaluation errors (engine/exception.go) *)
Inductive exc := FloatOverflow | IntOverflow | Underflow | ZeroDivisor | Undefined.

(** valid types used by typeError in number.go *)
Inductive vtype := VTInteger | VTFloat | VTEvaluable.

(** How a Go function can end. [Panic] : a Go run-time panic (negative shift
    count, integer division by zero); [ConvUB] : a float->int conversion whose
    operand is outside the int64 range (implementation-defined in Go);
    [OutOfFuel] : a loop that did not finish within the model's fuel;
    [Unmodelled] : a function outside the model (transcendentals). *)
Inductive res (A E : Type) :=
| Ok (a : A) | Err (e : E) | Panic | ConvUB | OutOfFuel | Unmodelled.
Arguments Ok {A E} a.
Arguments Err {A E} e.
Arguments Panic {A E}.
Arguments ConvUB {A E}.
Arguments OutOfFuel {A E}.
Arguments Unmodelled {A E}.

Definition bind {A B E} (r : res A E) (f : A -> res B E) : res B E :=
  match r with
  | Ok a => f a | Err e => Err e | Panic => Panic | ConvUB => ConvUB | OutOfFuel => OutOfFuel
  | Unmodelled => Unmodelled
  end.
Definition rmap {A B E} (f : A -> B) (r : res A E) : res B E := bind r (fun a => Ok (f a)).
(** Go: [v, _ := f(...)] where f returns the zero value beside an error *)
Definition val_or {A E} (d : A) (r : res A E) : A := match r with Ok a => a | _ => d end.

Definition add64 (x y : Z) : Z := wrap (x + y).
Definition sub64 (x y : Z) : Z := wrap (x - y).
Definition mul64 (x y : Z) : Z := wrap (x * y).
Definition neg64 (x : Z) : Z := wrap (- x).
(** Go's / and % truncate toward zero; division by zero panics; minI / -1 wraps to minI *)
Definition quot64 {E} (x y : Z) : res Z E := if y =? 0 then Panic else Ok (wrap (Z.quot x y)).
Definition rem64 {E} (x y : Z) : res Z E := if y =? 0 then Panic else Ok (Z.rem x y).
(** shifts: a negative count panics; counts >= 64 give 0 (<<) or the sign (>>) *)
Definition shl64 {E} (x s : Z) : res Z E :=
  if s <? 0 then Panic else if 64 <=? s then Ok 0 else Ok (wrap (x * 2 ^ s)).
Definition shr64 {E} (x s : Z) : res Z E :=
  if s <? 0 then Panic else if 64 <=? s then Ok (if x <? 0 then -1 else 0) else Ok (x / 2 ^ s).
Definition and64 (x y : Z) : Z := Z.land x y.
Definition or64 (x y : Z) : Z := Z.lor x y.
Definition xor64 (x y : Z) : Z := Z.lxor x y.
Definition not64 (x : Z) : Z := Z.lnot x.
