(** Numbers and evaluation errors shared by the generated arithmetic kernels
    (Gen/Arith_gen.v) and the hand-written evaluator (Model/Eval.v). *)
From Coq Require Import ZArith Bool List String.
From PV Require Import Model.GoInt Model.F64.
Open Scope Z_scope.

(** engine.Number: Integer or Float *)
Inductive num := NInt (z : Z) | NFlt (f : f64).

(** what a kernel can return as its error: an exceptional value
    (-> evaluation_error(E)) or typeError(validType, culprit) *)
Inductive err := EExc (e : exc) | EType (t : vtype) (culprit : num).

Definition resE (A : Type) := res A err.

(** observable projection of a number: floats by their bit pattern *)
Inductive onum := OInt (z : Z) | OFlt (bits : Z).
Definition obs_num (n : num) : onum :=
  match n with NInt z => OInt z | NFlt f => OFlt (to_bits f) end.
Inductive oerr := OExc (e : exc) | OType (t : vtype) (culprit : onum).
Definition obs_err (e : err) : oerr :=
  match e with EExc e => OExc e | EType t c => OType t (obs_num c) end.

(** fuel handed to translated [for] loops; intPow needs at most 64 rounds *)
Definition LOOPFUEL : nat := 70.

(** the transcendental functions are outside the model (the property makes no
    exactness claim for them): a stub that is never compared with the code *)
Definition unmodelled1 (_ : num) : resE num := Unmodelled.
Definition unmodelled2 (_ _ : num) : resE num := Unmodelled.
