(** Clause compilation: mirror of engine/clause.go (compile, compileClause,
    compileHead/Body/Pred/HeadArg/BodyArg, varOffset) and of the alt/seq
    iterators of engine/iterator.go, over abstract terms.  Executable. *)
From Coq Require Import ZArith Bool List String.
From PV Require Import Model.Term Model.Unify.
Import ListNotations.
Open Scope Z_scope.
Open Scope string_scope.
Open Scope list_scope.

Inductive instr :=
| IEnter | ICall (f : string) (n : nat) | IExit
| IGetConst (c : term) | IPutConst (c : term)
| IGetVar (i : nat) | IPutVar (i : nat)
| IGetFunctor (f : string) (n : nat) | IPutFunctor (f : string) (n : nat)
| IPop | ICut.

Record clause := mkClause {
  c_name : string; c_arity : nat;
  c_raw : term;            (* what clause/2 and retract/1 see *)
  c_vars : list Z;         (* the clause's variables in first-occurrence order *)
  c_code : list instr;
  c_cid : Z                (* allocation identity (the model's stand-in for the Go object) *)
}.

(** varOffset *)
Fixpoint index_of (v : Z) (vs : list Z) : option nat :=
  match vs with
  | [] => None
  | w :: vs' => if Z.eqb v w then Some O else option_map S (index_of v vs')
  end.
Definition var_offset (vs : list Z) (v : Z) : list Z * nat :=
  match index_of v vs with
  | Some i => (vs, i)
  | None => (vs ++ [v], List.length vs)
  end.

(** The Go compiler resolves each sub-term under the asserting env as it goes;
    for finite terms that is compiling the fully resolved term, which is what
    the model does: [t] below is already walked. *)
Fixpoint compile_head_arg (t : term) (vs : list Z) : list Z * list instr :=
  match t with
  | Var v => let '(vs', i) := var_offset vs v in (vs', [IGetVar i])
  | Cmp f args =>
      let '(vs', code) :=
        fold_left (fun acc a => let '(vs0, c0) := acc in
                                let '(vs1, c1) := compile_head_arg a vs0 in (vs1, c0 ++ c1))
                  args (vs, []) in
      (vs', IGetFunctor f (List.length args) :: code ++ [IPop])
  | c => (vs, [IGetConst c])
  end.

Fixpoint compile_body_arg (t : term) (vs : list Z) : list Z * list instr :=
  match t with
  | Var v => let '(vs', i) := var_offset vs v in (vs', [IPutVar i])
  | Cmp f args =>
      let '(vs', code) :=
        fold_left (fun acc a => let '(vs0, c0) := acc in
                                let '(vs1, c1) := compile_body_arg a vs0 in (vs1, c0 ++ c1))
                  args (vs, []) in
      (vs', IPutFunctor f (List.length args) :: code ++ [IPop])
  | c => (vs, [IPutConst c])
  end.

(** compilePred; None = errNotCallable.  A conjunction in goal position is compiled in line. *)
Definition compile_pred1 (g : term) (vs : list Z) : option (list Z * list instr) :=
  match g with
  | Var v =>  (* a variable goal becomes call(V) *)
      let '(vs', c) := compile_body_arg (Var v) vs in Some (vs', c ++ [ICall "call" 1])
  | Atom a => if String.eqb a "!" then Some (vs, [ICut]) else Some (vs, [ICall a 0])
  | Cmp f args =>
      let '(vs', code) :=
        fold_left (fun acc a => let '(vs0, c0) := acc in
                                let '(vs1, c1) := compile_body_arg a vs0 in (vs1, c0 ++ c1))
                  args (vs, []) in
      Some (vs', code ++ [ICall f (List.length args)])
  | _ => None
  end.

Fixpoint compile_pred_f (fuel : nat) (g : term) (vs : list Z) : option (list Z * list instr) :=
  match fuel with
  | O => compile_pred1 g vs
  | S f =>
      match g with
      | Cmp "," [x; y] =>
          match compile_pred_f f x vs with
          | None => None
          | Some (vs1, c1) =>
              match compile_pred_f f y vs1 with
              | None => None
              | Some (vs2, c2) => Some (vs2, c1 ++ c2)
              end
          end
      | _ => compile_pred1 g vs
      end
  end.
Definition compile_pred (g : term) (vs : list Z) : option (list Z * list instr) := compile_pred_f (tsize g) g vs.

(** seqIterator: a right-nested conjunction is flattened, nothing else *)
Fixpoint seq_goals (fuel : nat) (b : term) : list term :=
  match fuel with
  | O => [b]
  | S f => match b with
           | Cmp "," [x; y] => x :: seq_goals f y
           | _ => [b]
           end
  end.

Definition compile_body (b : term) (vs : list Z) : option (list Z * list instr) :=
  fold_left (fun acc g => match acc with
                          | None => None
                          | Some (vs0, c0) => match compile_pred g vs0 with
                                              | None => None
                                              | Some (vs1, c1) => Some (vs1, c0 ++ c1)
                                              end
                          end)
            (seq_goals (tsize b) b) (Some (vs, [IEnter])).

Definition head_pi (h : term) : string * nat :=
  match h with
  | Atom a => (a, O)
  | Cmp f args => (f, List.length args)
  | _ => (""%string, O)     (* Go leaves the zero procedureIndicator *)
  end.

(** compileHead: for a non-callable head Go compiles nothing (pi stays zero) *)
Definition compile_head (h : term) : list Z * list instr :=
  match h with
  | Cmp f args =>
      fold_left (fun acc a => let '(vs0, c0) := acc in
                              let '(vs1, c1) := compile_head_arg a vs0 in (vs1, c0 ++ c1))
                args ([], [])
  | _ => ([], [])
  end.

(** compileClause head body; body = None for a fact *)
Definition compile_clause (h : term) (b : option term) : option (string * nat * list Z * list instr) :=
  let '(vs, hc) := compile_head h in
  let '(n, a) := head_pi h in
  match b with
  | None => Some (n, a, vs, hc ++ [IExit])
  | Some body => match compile_body body vs with
                 | None => None
                 | Some (vs', bc) => Some (n, a, vs', hc ++ bc ++ [IExit])
                 end
  end.

(** altIterator: top-level disjuncts, an if-then-else kept whole *)
Fixpoint alt_goals (fuel : nat) (b : term) : list term :=
  match fuel with
  | O => [b]
  | S f => match b with
           | Cmp ";" [x; y] =>
               match x with
               | Cmp "->" [_; _] => [b]
               | _ => x :: alt_goals f y
               end
           | _ => [b]
           end
  end.

(** compile t (already walked under the asserting env); [t_top] is the term to
    store as [raw] (what clause/2 and retract/1 see).
    Result: clauses without identities (cid filled by the caller), or the
    culprit of type_error(callable, _). *)
Definition compile (t t_top : term) : (list clause) + term :=
  match t with
  | Cmp ":-" [h; b] =>
      let alts := alt_goals (tsize b) b in
      (fix go (l : list term) : (list clause) + term :=
         match l with
         | [] => inl []
         | a :: l' =>
             match compile_clause h (Some a) with
             | None => inr b
             | Some (n, ar, vs, code) =>
                 match go l' with
                 | inl cs => inl (mkClause n ar t_top vs code 0 :: cs)
                 | inr e => inr e
                 end
             end
         end) alts
  | _ =>
      match compile_clause t None with
      | Some (n, ar, vs, code) => inl [mkClause n ar t_top vs code 0]
      | None => inr t
      end
  end.
