(** Standard order of terms: mirror of the Compare methods (engine/term.go,
    variable.go, float.go, integer.go, atom.go, compound.go CompareCompound).
    Var < Float < Integer < Atom < Compound; compounds by arity, name, args. *)
From Coq Require Import ZArith Bool List String Ascii.
From PV Require Import Model.Term Model.Unify.
Import ListNotations.
Open Scope Z_scope.

(** strings.Compare: byte-wise lexicographic *)
Fixpoint str_cmp (a b : string) : comparison :=
  match a, b with
  | EmptyString, EmptyString => Eq
  | EmptyString, _ => Lt
  | _, EmptyString => Gt
  | String x a', String y b' =>
      match Nat.compare (nat_of_ascii x) (nat_of_ascii y) with
      | Eq => str_cmp a' b'
      | c => c
      end
  end.

(** numeric order of finite doubles from their bit patterns (+0 = -0) *)
Definition flt_key (bits : Z) : Z :=
  if Z.ltb bits 9223372036854775808 then bits else - (bits - 9223372036854775808).
Definition flt_cmp (a b : Z) : comparison := Z.compare (flt_key a) (flt_key b).

Definition rank (t : term) : Z :=
  match t with Var _ => 0 | Flt _ => 1 | Int _ => 2 | Atom _ => 3 | Cmp _ _ => 4 end.

Fixpoint compare_f (fuel : nat) (e : env) (a b : term) : comparison :=
  match fuel with
  | O => Eq
  | S f =>
      let a := resolve e a in
      let b := resolve e b in
      match a, b with
      | Var x, Var y => Z.compare x y
      | Flt x, Flt y => flt_cmp x y
      | Int x, Int y => Z.compare x y
      | Atom x, Atom y => str_cmp x y
      | Cmp fa xs, Cmp fb ys =>
          match Nat.compare (List.length xs) (List.length ys) with
          | Eq =>
              match str_cmp fa fb with
              | Eq => (fix go (l1 l2 : list term) : comparison :=
                         match l1, l2 with
                         | x :: l1', y :: l2' =>
                             match compare_f f e x y with Eq => go l1' l2' | c => c end
                         | _, _ => Eq
                         end) xs ys
              | c => c
              end
          | c => c
          end
      | _, _ => Z.compare (rank a) (rank b)
      end
  end.
(** the same order on fully resolved terms, by structural recursion: what the
    theorems are about; [compare_f] resolves lazily like the Go code, the
    machine compares the resolved terms *)
Fixpoint cmp_term (a b : term) : comparison :=
  match a, b with
  | Var x, Var y => Z.compare x y
  | Flt x, Flt y => flt_cmp x y
  | Int x, Int y => Z.compare x y
  | Atom x, Atom y => str_cmp x y
  | Cmp fa xs, Cmp fb ys =>
      match Nat.compare (List.length xs) (List.length ys) with
      | Eq =>
          match str_cmp fa fb with
          | Eq => (fix go (l1 l2 : list term) : comparison :=
                     match l1, l2 with
                     | x :: l1', y :: l2' => match cmp_term x y with Eq => go l1' l2' | c => c end
                     | _, _ => Eq
                     end) xs ys
          | c => c
          end
      | c => c
      end
  | _, _ => Z.compare (rank a) (rank b)
  end.

Definition compare_t (e : env) (a b : term) : comparison := cmp_term (walk e a) (walk e b).

(** insertion sort by the standard order, dropping equal elements:
    the specification of env.set (sort.Slice + dedupe) *)
Fixpoint insert_uniq (e : env) (x : term) (l : list term) : list term :=
  match l with
  | [] => [x]
  | y :: l' =>
      match compare_t e x y with
      | Lt => x :: l
      | Eq => l
      | Gt => y :: insert_uniq e x l'
      end
  end.
Definition sort_uniq (e : env) (l : list term) : list term :=
  fold_left (fun acc x => insert_uniq e x acc) l [].
