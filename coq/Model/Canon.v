(** The canonical (ignore_ops) writer and the reader on the fragment of plain
    atoms, integers and compounds in functional notation (C06): tokens, printer,
    recursive-descent parser.  The printer's text is compared with
    write_canonical/1 of the implementation. *)
From Coq Require Import ZArith Bool List String DecimalString.
From PV Require Import Model.Term.
Import ListNotations.
Open Scope string_scope.
Open Scope list_scope.

Inductive tok := TAtom (a : string) | TInt (z : Z) | TOpen | TClose | TComma.

(** the writer: functional notation, arguments separated by commas *)
Section PrArgs.
  Variable f : term -> list tok.
  Fixpoint pr_args (l : list term) : list tok :=
    match l with
    | [] => [TClose]
    | [x] => f x ++ [TClose]
    | x :: r => f x ++ TComma :: pr_args r
    end.
End PrArgs.
Fixpoint pr (t : term) : list tok :=
  match t with
  | Atom a => [TAtom a]
  | Int z => [TInt z]
  | Cmp f args => TAtom f :: TOpen :: pr_args pr args
  | _ => []
  end.

Definition show_tok (t : tok) : string :=
  match t with
  | TAtom a => a
  | TInt z => NilZero.string_of_int (Z.to_int z)
  | TOpen => "(" | TClose => ")" | TComma => ","
  end.
Definition show (l : list tok) : string := String.concat "" (map show_tok l).

(** the reader: term ::= int | atom | atom '(' term { ',' term } ')' *)
Fixpoint parse_args (p : list tok -> option (term * list tok)) (a : string) (n : nat) (l : list tok) (acc : list term)
  : option (term * list tok) :=
  match n with
  | O => None
  | S n' =>
      match p l with
      | Some (x, TComma :: r') => parse_args p a n' r' (acc ++ [x])
      | Some (x, TClose :: r') => Some (Cmp a (acc ++ [x]), r')
      | _ => None
      end
  end.
Fixpoint parse (fuel : nat) (l : list tok) : option (term * list tok) :=
  match fuel with
  | O => None
  | S f =>
      match l with
      | TInt z :: r => Some (Int z, r)
      | TAtom a :: TOpen :: r => parse_args (parse f) a (List.length r) r []
      | TAtom a :: r => Some (Atom a, r)
      | _ => None
      end
  end.

(** the fragment: no variables, no floats, no empty argument lists *)
Fixpoint canon_ok (t : term) : bool :=
  match t with
  | Atom _ | Int _ => true
  | Cmp _ args => negb (match args with [] => true | _ => false end) && forallb canon_ok args
  | _ => false
  end.

Definition ccase := (Z * term * string)%type.
Definition check_canon (cs : list ccase) : list (Z * Z * Z) :=
  flat_map (fun c => match c with (id, t, text) =>
     if canon_ok t && String.eqb (show (pr t)) text
        && match parse (S (tsize t)) (pr t) with Some (t', []) => term_eqb t t' | _ => false end
     then [] else [(id, 1%Z, 0%Z)] end) cs.
