(** S: the reference semantics.  Standard Prolog execution (ISO 7.7, 7.8) as a
    continuation semantics over SOURCE clauses: goals left to right, clauses in
    database order, depth-first; cut is transparent to ,/2 ;/2 ->/2 and local to
    call/N, \+, findall/bagof/setof, catch/3, and the condition of ->; catch/3
    is active only while its goal is executing; the database follows the
    logical update view with clause identities.  Small enough to be read in one
    sitting; independent of the bytecode, the promise trampoline and
    bootstrap.pl's control predicates. Executable (fuel). *)
From Coq Require Import ZArith Bool List String.
From PV Require Import Model.Term Model.Unify Model.Order Model.Groups Model.Clause.
From PV Require Import Model.GoInt Model.F64 Model.Num Gen.Arith_gen Model.Eval Model.Machine.
Import ListNotations.
Open Scope string_scope.
Open Scope list_scope.
Open Scope Z_scope.

(** source database: per predicate the clauses with their identities *)
(** a stored clause: identity, the clause that is executed, the clause that
    clause/2 and retract/1 show.  In the ISO reading both are the given clause
    (body converted to a goal).  [split] selects the storage convention of this
    implementation instead: a top-level disjunctive body is stored as one
    clause per disjunct, each showing the whole unconverted term -- a recorded
    deviation (KNOWN_FINDINGS F3a), modelled so that it can be told apart from
    any other disagreement. *)
Record sclause := mkSC { sc_id : Z; sc_exec : term; sc_shown : term }.
Record sproc := mkSProc { sp_name : string; sp_arity : nat; sp_dynamic : bool; sp_clauses : list sclause }.

Record sstate := mkSS {
  ss_nextv : Z;
  ss_nextid : Z;
  ss_db : list sproc;
  ss_answers : list (list term);
  ss_limit : nat;
  ss_qvars : list term;
  ss_collect : list (Z * list term);
  ss_split : bool
}.

Definition ss_fresh_id (st : sstate) : Z * sstate :=
  (ss_nextid st, mkSS (ss_nextv st) (ss_nextid st + 1) (ss_db st) (ss_answers st) (ss_limit st) (ss_qvars st) (ss_collect st) (ss_split st)).
Definition ss_fresh_vars (n : nat) (st : sstate) : list Z * sstate :=
  (map (fun i => ss_nextv st + Z.of_nat i) (seq 0 n),
   mkSS (ss_nextv st + Z.of_nat n) (ss_nextid st) (ss_db st) (ss_answers st) (ss_limit st) (ss_qvars st) (ss_collect st) (ss_split st)).
Definition ss_set_db (st : sstate) (db : list sproc) : sstate :=
  mkSS (ss_nextv st) (ss_nextid st) db (ss_answers st) (ss_limit st) (ss_qvars st) (ss_collect st) (ss_split st).
Definition ss_set_answers (st : sstate) (a : list (list term)) : sstate :=
  mkSS (ss_nextv st) (ss_nextid st) (ss_db st) a (ss_limit st) (ss_qvars st) (ss_collect st) (ss_split st).
Definition ss_set_collect (st : sstate) (c : list (Z * list term)) : sstate :=
  mkSS (ss_nextv st) (ss_nextid st) (ss_db st) (ss_answers st) (ss_limit st) (ss_qvars st) c (ss_split st).

Definition ss_find (db : list sproc) (n : string) (a : nat) : option sproc :=
  find (fun p => String.eqb (sp_name p) n && Nat.eqb (sp_arity p) a) db.
Fixpoint ss_update (db : list sproc) (p : sproc) : list sproc :=
  match db with
  | [] => [p]
  | q :: db' => if String.eqb (sp_name q) (sp_name p) && Nat.eqb (sp_arity q) (sp_arity p)
                then p :: db' else q :: ss_update db' p
  end.

Definition ss_copy (e : env) (t : term) (st : sstate) : term * sstate :=
  let w := walk e t in
  let vs := tvars w in
  let '(fresh, st') := ss_fresh_vars (List.length vs) st in
  (rename_with (combine vs fresh) w, st').

(** outcomes of running a goal with its continuation *)
Inductive outcome :=
| OFail                       (* no (more) solutions: backtrack *)
| OStop                       (* the consumer has all the answers it asked for *)
| OCut (barrier : Z)          (* a cut was executed: fail, and prune up to its barrier *)
| OFound (e : env)            (* first solution of a once-like sub-derivation *)
| ORaise (ball : merr)        (* an error looking for a catch/3 that is still executing *)
| OPass (cid : Z) (ball : merr)   (* an error raised after catch [cid]'s goal exited: not for it nor for anything inside it *)
| OFuel.

Definition R := sstate -> outcome * sstate.
Definition K := env -> R.

Definition orelse (r1 r2 : R) : R :=
  fun st => match r1 st with (OFail, st') => r2 st' | x => x end.

(** true variance: equal up to a bijective renaming *)
Definition variant_sym (e : env) (a b : term) : bool := variant e a b && variant e b a.

Definition callable_goal (e : env) (g : term) : (string * list term) + merr := callable_pi e g.

(** a control construct whose sub-goals are all callable; ISO turns the body of
    call/1 into a goal before executing it and raises type_error(callable, G)
    for a non-callable part *)
Fixpoint body_ok (fuel : nat) (e : env) (g : term) : bool :=
  match fuel with
  | O => true
  | S f =>
      match resolve e g with
      | Var _ => true
      | Int _ | Flt _ => false
      | Cmp "," [a; b] | Cmp ";" [a; b] | Cmp "->" [a; b] => body_ok f e a && body_ok f e b
      | _ => true
      end
  end.

(** ISO 7.6.2: a term is converted to a goal when call/1 (or a clause) takes it:
    the control constructs , ; -> are traversed, a variable in goal position
    becomes call(V); nothing is re-interpreted later *)
Fixpoint convert (fuel : nat) (e : env) (g : term) : term :=
  match fuel with
  | O => g
  | S f =>
      match resolve e g with
      | Var v => Cmp "call" [Var v]
      | Cmp "," [a; b] => Cmp "," [convert f e a; convert f e b]
      | Cmp ";" [a; b] => Cmp ";" [convert f e a; convert f e b]
      | Cmp "->" [a; b] => Cmp "->" [convert f e a; convert f e b]
      | r => r
      end
  end.

(** the stored entries for a clause H :- Body given with identities id, id+1, ... *)
Definition entries (split : bool) (id : Z) (h body : term) : list sclause :=
  if split
  then map (fun ia => mkSC (id + Z.of_nat (fst ia)) (Cmp ":-" [h; convert UFUEL empty_env (snd ia)]) (Cmp ":-" [h; body]))
           (let alts := alt_goals (tsize body) body in combine (seq 0 (List.length alts)) alts)
  else let c := Cmp ":-" [h; convert UFUEL empty_env body] in [mkSC id c c].

Section Solve.

(** deterministic built-ins shared with M: type tests, =, compare, is, comparisons,
    copy_term, functor, arg : result = new env, failure, or error *)
Inductive dres := DOk (e : env) (st : sstate) | DFail | DErr (x : merr) | DNone.

Definition det_builtin (name : string) (args : list term) (e : env) (st : sstate) : dres :=
  match name, args with
  | "=", [x; y] => match unify e x y with UOk e' => DOk e' st | _ => DFail end
  | "\=", [x; y] => match unify e x y with UOk _ => DFail | _ => DOk e st end
  | "unify_with_occurs_check", [x; y] => match unify_oc e x y with UOk e' => DOk e' st | _ => DFail end
  | "==", [x; y] => match compare_t e x y with Eq => DOk e st | _ => DFail end
  | "\==", [x; y] => match compare_t e x y with Eq => DFail | _ => DOk e st end
  | "@<", [x; y] => match compare_t e x y with Lt => DOk e st | _ => DFail end
  | "@>", [x; y] => match compare_t e x y with Gt => DOk e st | _ => DFail end
  | "@=<", [x; y] => match compare_t e x y with Gt => DFail | _ => DOk e st end
  | "@>=", [x; y] => match compare_t e x y with Lt => DFail | _ => DOk e st end
  | "compare", [o; x; y] =>
      let r := match compare_t e x y with Lt => "<" | Eq => "=" | Gt => ">" end in
      match resolve e o with
      | Var _ => match unify e (Atom r) o with UOk e' => DOk e' st | _ => DFail end
      | Atom a => if String.eqb a "<" || String.eqb a "=" || String.eqb a ">"
                  then (if String.eqb a r then DOk e st else DFail)
                  else DErr (dom_err "order" (walk e o))
      | _ => DErr (type_err "atom" (walk e o))
      end
  | "is", [r; x] =>
      match eval_term e x with
      | inl n => match unify e r (num_term n) with UOk e' => DOk e' st | _ => DFail end
      | inr err => DErr err
      end
  | "copy_term", [x; y] =>
      let '(c, st') := ss_copy e x st in
      match unify e c y with UOk e' => DOk e' st' | _ => DFail end
  | "arg", [n; t; a] =>
      match resolve e t with
      | Var _ => DErr inst_err
      | Cmp _ xs =>
          match resolve e n with
          | Var _ => DErr inst_err
          | Int i =>
              if (i =? 0) || (Z.of_nat (List.length xs) <? i) then DFail
              else if i <? 0 then DErr (dom_err "not_less_than_zero" (Int i))
              else match unify e a (nth (Z.to_nat (i - 1)) xs (Atom "")) with UOk e' => DOk e' st | _ => DFail end
          | r => DErr (type_err "integer" (walk e r))
          end
      | _ => DErr (type_err "compound" (walk e t))
      end
  | "functor", [t; n; a] =>
      match resolve e t with
      | Var v =>
          match resolve e a with
          | Var _ => DErr inst_err
          | Int ar =>
              if ar <? 0 then DErr (dom_err "not_less_than_zero" (Int ar))
              else match resolve e n with
                   | Var _ => DErr inst_err
                   | Cmp _ _ as c => DErr (type_err "atomic" (walk e c))
                   | nm =>
                       if ar =? 0 then match unify e (Var v) nm with UOk e' => DOk e' st | _ => DFail end
                       else match nm with
                            | Atom fn =>
                                let '(fv, st') := ss_fresh_vars (Z.to_nat ar) st in
                                match unify e (Var v) (Cmp fn (map Var fv)) with UOk e' => DOk e' st' | _ => DFail end
                            | _ => DErr (type_err "atom" (walk e nm))
                            end
                   end
          | r => DErr (type_err "integer" (walk e r))
          end
      | Cmp fn xs =>
          match unify e (Cmp "" [n; a]) (Cmp "" [Atom fn; Int (Z.of_nat (List.length xs))]) with UOk e' => DOk e' st | _ => DFail end
      | atomic =>
          match unify e (Cmp "" [n; a]) (Cmp "" [atomic; Int 0]) with UOk e' => DOk e' st | _ => DFail end
      end
  | "true", [] => DOk e st
  | "fail", [] => DFail
  | "false", [] => DFail
  | "nonvar", [x] => match resolve e x with Var _ => DFail | _ => DOk e st end
  | "atomic", [x] => match resolve e x with Var _ | Cmp _ _ => DFail | _ => DOk e st end
  | "number", [x] => match resolve e x with Int _ | Flt _ => DOk e st | _ => DFail end
  | "callable", [x] => match resolve e x with Atom _ | Cmp _ _ => DOk e st | _ => DFail end
  | _, [x] =>
      match type_check name (resolve e x) with
      | Some true => DOk e st
      | Some false => DFail
      | None => DNone
      end
  | _, [x; y] =>
      match cmp_of name with
      | Some op =>
          match eval_term e x with
          | inr err => DErr err
          | inl a => match eval_term e y with
                     | inr err => DErr err
                     | inl b => if compare_num op a b then DOk e st else DFail
                     end
          end
      | None => DNone
      end
  | _, _ => DNone
  end.

Fixpoint solve (fuel : nat) (g : term) (e : env) (b : Z) (k : K) (st : sstate) {struct fuel} : outcome * sstate :=
  match fuel with
  | O => (OFuel, st)
  | S f =>
      if poisoned e then (OFuel, st) else
      match resolve e g with
      | Var _ => (ORaise inst_err, st)
      | Int z => (ORaise (type_err "callable" (Int z)), st)
      | Flt z => (ORaise (type_err "callable" (Flt z)), st)
      | Atom "!" => match k e st with (OFail, st') => (OCut b, st') | r => r end
      | Cmp "," [x; y] => solve f x e b (fun e' => solve f y e' b k) st
      | Cmp ";" [Cmp "->" [c; t]; el] =>
          match first_solution f c e st with
          | (OFound e', st') => solve f t e' b k st'
          | (OFail, st') => solve f el e b k st'
          | r => r
          end
      | Cmp ";" [x; y] => orelse (solve f x e b k) (solve f y e b k) st
      | Cmp "->" [c; t] =>
          match first_solution f c e st with
          | (OFound e', st') => solve f t e' b k st'
          | r => r
          end
      | Cmp "\+" [x] =>
          match first_solution f x e st with
          | (OFound _, st') => (OFail, st')
          | (OFail, st') => k e st'
          | r => r
          end
      | Cmp "once" [x] =>
          match first_solution f x e st with
          | (OFound e', st') => k e' st'
          | r => r
          end
      | Cmp "call" (x :: extra) =>
          match extra with
          | [] => opaque f x e k st
          | _ => match callable_goal e x with
                 | inr err => (ORaise err, st)
                 | inl (fn, a0) => opaque f (Cmp fn (a0 ++ extra)) e k st
                 end
          end
      | Cmp "findall" [tmpl; goal; inst] =>
          match check_partial_list e inst with
          | Some err => (ORaise err, st)
          | None =>
              match all_solutions f tmpl goal e st with
              | (inl sols, st') => match unify e inst (list_t sols) with UOk e' => k e' st' | _ => (OFail, st') end
              | (inr r, st') => (r, st')
              end
          end
      | Cmp "bagof" [tmpl; goal; inst] => bag f false tmpl goal inst e k st
      | Cmp "setof" [tmpl; goal; inst] => bag f true tmpl goal inst e k st
      | Cmp "catch" [goal; catcher; recovery] =>
          let '(cid, st0) := ss_fresh_id st in
          (* errors raised by the continuation (after [goal] exited) are passed over this catch *)
          let k' := fun e' st1 => match k e' st1 with
                                  | (ORaise ball, st2) => (OPass cid ball, st2)
                                  | r => r
                                  end in
          match opaque f goal e k' st0 with
          | (ORaise ball, st1) =>
              let t := match ball with
                       | EBall t => t
                       | EPanic w => Cmp "error" [Atom "system_error"; Atom w]
                       | ECancelled => Cmp "error" [Atom "system_error"; Atom "context canceled"]
                       | EFuel => Atom "$fuel"
                       end in
              match unify e catcher t with
              | UOk e' => opaque f recovery e' k st1
              | _ => (ORaise ball, st1)
              end
          | (OPass c ball, st1) => if Z.eqb c cid then (ORaise ball, st1) else (OPass c ball, st1)
          | r => r
          end
      | Cmp "throw" [ball] =>
          match resolve e ball with
          | Var _ => (ORaise inst_err, st)
          | b' => let '(c, st') := ss_copy e b' st in (ORaise (EBall c), st')
          end
      | Cmp "between" [lo; hi; v] =>
          match resolve e lo, resolve e hi with
          | Var _, _ => (ORaise inst_err, st)
          | Int low, Int high =>
              match resolve e v with
              | Int x => if (low <=? x) && (x <=? high) then k e st else (OFail, st)
              | Var x =>
                  (fix enum (n : nat) (i : Z) : R :=
                     match n with
                     | O => fun st => (OFail, st)
                     | S n' => orelse (fun st => match unify e (Var x) (Int i) with UOk e' => k e' st | _ => (OFail, st) end)
                                      (enum n' (i + 1))
                     end) (Z.to_nat (high - low + 1)) low st
              | r => (ORaise (type_err "integer" (walk e r)), st)
              end
          | Int _, Var _ => (ORaise inst_err, st)
          | Int _, r => (ORaise (type_err "integer" (walk e r)), st)
          | r, _ => (ORaise (type_err "integer" (walk e r)), st)
          end
      | Cmp "assertz" [t] => add_clause f false t e k st
      | Cmp "asserta" [t] => add_clause f true t e k st
      | Cmp "retract" [t] =>
          match rulify e t with
          | Cmp ":-" [h; _] as t' =>
              match callable_goal e h with
              | inr err => (ORaise err, st)
              | inl (fn, a0) =>
                  match ss_find (ss_db st) fn (List.length a0) with
                  | None => (OFail, st)
                  | Some p =>
                      if negb (sp_dynamic p) then (ORaise (perm_err "modify" "static_procedure" (pi_t fn (Z.of_nat (List.length a0)))), st)
                      else
                        (* the call-time snapshot; a clause is removed by identity, at most once *)
                        (fix go (cs : list sclause) : R :=
                           match cs with
                           | [] => fun st => (OFail, st)
                           | c :: cs' =>
                               orelse (fun st =>
                                         let '(c', st1) := ss_copy empty_env (sc_shown c) st in
                                         match unify e t' (rulify empty_env c') with
                                         | UOk e' =>
                                             match ss_find (ss_db st1) fn (List.length a0) with
                                             | Some p' =>
                                                 if existsb (fun x => Z.eqb (sc_id x) (sc_id c)) (sp_clauses p')
                                                 then k e' (ss_set_db st1 (ss_update (ss_db st1)
                                                             (mkSProc fn (List.length a0) true (filter (fun x => negb (Z.eqb (sc_id x) (sc_id c))) (sp_clauses p')))))
                                                 else (OFail, st1)   (* already removed by someone else: not removed twice *)
                                             | None => (OFail, st1)
                                             end
                                         | _ => (OFail, st1)
                                         end)
                                      (go cs')
                           end) (sp_clauses p) st
                  end
              end
          | _ => (OFuel, st)
          end
      | Cmp "clause" [h; body] =>
          match callable_goal e h with
          | inr err => (ORaise err, st)
          | inl (fn, a0) =>
              match resolve e body with
              | Int _ | Flt _ => (ORaise (type_err "callable" (walk e body)), st)
              | _ =>
                  match ss_find (ss_db st) fn (List.length a0) with
                  | None => (OFail, st)
                  | Some p =>
                      if negb (sp_dynamic p) then (ORaise (perm_err "access" "private_procedure" (pi_t fn (Z.of_nat (List.length a0)))), st)
                      else (fix go (cs : list sclause) : R :=
                              match cs with
                              | [] => fun st => (OFail, st)
                              | c :: cs' =>
                                  orelse (fun st => let '(c', st1) := ss_copy empty_env (sc_shown c) st in
                                                    match unify e (Cmp ":-" [h; body]) (rulify empty_env c') with
                                                    | UOk e' => k e' st1
                                                    | _ => (OFail, st1)
                                                    end)
                                         (go cs')
                              end) (sp_clauses p) st
                  end
              end
          end
      | Cmp "abolish" [pi] =>
          match resolve e pi with
          | Cmp "/" [n; a] =>
              match resolve e n, resolve e a with
              | Atom nm, Int ar =>
                  if ar <? 0 then (ORaise (dom_err "not_less_than_zero" (Int ar)), st)
                  else match ss_find (ss_db st) nm (Z.to_nat ar) with
                       | Some p => if sp_dynamic p
                                   then k e (ss_set_db st (filter (fun q => negb (String.eqb (sp_name q) nm && Nat.eqb (sp_arity q) (Z.to_nat ar))) (ss_db st)))
                                   else (ORaise (perm_err "modify" "static_procedure" (pi_t nm ar)), st)
                       | None => k e st   (* ISO 8.9.4: true; there is nothing to remove *)
                       end
              | Var _, _ => (ORaise inst_err, st)
              | Atom _, Var _ => (ORaise inst_err, st)
              | Atom _, r => (ORaise (type_err "integer" (walk e r)), st)
              | r, _ => (ORaise (type_err "atom" (walk e r)), st)
              end
          | Var _ => (ORaise inst_err, st)
          | r => (ORaise (type_err "predicate_indicator" (walk e r)), st)
          end
      | g' =>
          match callable_goal e g' with
          | inr err => (ORaise err, st)
          | inl (fn, args) =>
              match det_builtin fn args e st with
              | DOk e' st' => k e' st'
              | DFail => (OFail, st)
              | DErr x => (ORaise x, st)
              | DNone =>
                  match ss_find (ss_db st) fn (List.length args) with
                  | None => (ORaise (exist_proc_err fn (List.length args)), st)
                  | Some p =>
                      let '(bid, st0) := ss_fresh_id st in
                      (fix try (cs : list sclause) : R :=
                         match cs with
                         | [] => fun st => (OFail, st)
                         | c :: cs' =>
                             fun st =>
                               let '(c', st1) := ss_copy empty_env (sc_exec c) st in
                               match rulify empty_env c' with
                               | Cmp ":-" [h; body] =>
                                   match unify e (match args with [] => Atom fn | _ => Cmp fn args end) h with
                                   | UOk e' =>
                                       match solve f body e' bid k st1 with
                                       | (OFail, st2) => try cs' st2
                                       | (OCut c0, st2) => if Z.eqb c0 bid then (OFail, st2) else (OCut c0, st2)
                                       | r => r
                                       end
                                   | _ => try cs' st1
                                   end
                               | _ => (OFuel, st1)
                               end
                         end) (sp_clauses p) st0
                  end
              end
          end
      end
  end

(** call/1: the goal is executed with its own cut barrier *)
with opaque (fuel : nat) (g : term) (e : env) (k : K) (st : sstate) {struct fuel} : outcome * sstate :=
  match fuel with
  | O => (OFuel, st)
  | S f =>
      match resolve e g with
      | Var _ => (ORaise inst_err, st)
      | g' =>
          if negb (body_ok UFUEL e g') then (ORaise (type_err "callable" (walk e g')), st)
          else
            let '(bid, st0) := ss_fresh_id st in
            match solve f (convert UFUEL e g') e bid k st0 with
            | (OCut c, st1) => if Z.eqb c bid then (OFail, st1) else (OCut c, st1)
            | r => r
            end
      end
  end

(** the first solution of a goal (its own barrier), found without running any continuation *)
with first_solution (fuel : nat) (g : term) (e : env) (st : sstate) {struct fuel} : outcome * sstate :=
  match fuel with
  | O => (OFuel, st)
  | S f => opaque f g e (fun e' st' => (OFound e', st')) st
  end

(** all solutions of a goal as copies of the template, in order *)
with all_solutions (fuel : nat) (tmpl g : term) (e : env) (st : sstate) {struct fuel} : (list term + outcome) * sstate :=
  match fuel with
  | O => (inr OFuel, st)
  | S f =>
      let '(cid, st0) := ss_fresh_id st in
      let st0 := ss_set_collect st0 ((cid, []) :: ss_collect st0) in
      let kc := fun e' st1 =>
                  let '(c, st2) := ss_copy e' tmpl st1 in
                  let cur := match find (fun p => Z.eqb (fst p) cid) (ss_collect st2) with Some p => snd p | None => [] end in
                  (OFail, ss_set_collect st2 ((cid, c :: cur) :: filter (fun p => negb (Z.eqb (fst p) cid)) (ss_collect st2))) in
      match opaque f g e kc st0 with
      | (OFail, st1) =>
          let cur := match find (fun p => Z.eqb (fst p) cid) (ss_collect st1) with Some p => snd p | None => [] end in
          (inl (rev cur), ss_set_collect st1 (filter (fun p => negb (Z.eqb (fst p) cid)) (ss_collect st1)))
      | (r, st1) => (inr r, st1)
      end
  end

with bag (fuel : nat) (setof : bool) (tmpl g inst : term) (e : env) (k : K) (st : sstate) {struct fuel} : outcome * sstate :=
  match fuel with
  | O => (OFuel, st)
  | S f =>
      match check_partial_list e inst with
      | Some err => (ORaise err, st)
      | None =>
          let fv := free_vars_set e g tmpl in
          let witness := tuple_t (map Var fv) in
          let g' := strip_carets UFUEL e g in
          match all_solutions f (Cmp "+" [witness; tmpl]) g' e st with
          | (inr r, st') => (r, st')
          | (inl sols, st') =>
              let pairs := map (fun s => match s with Cmp "+" [w; t] => (w, t) | x => (x, x) end) sols in
              let groups := group_with (fun ww w => variant_sym e ww w) (S (List.length pairs)) pairs in
              (fix go (gs : list (list term * list term)) : R :=
                 match gs with
                 | [] => fun st => (OFail, st)
                 | (ws, ts) :: gs' =>
                     orelse (fun st =>
                               (* the free variables are unified with every witness of the group (ISO 8.10.2.4) *)
                               match fold_left (fun acc w => match acc with
                                                             | Some e0 => match unify e0 witness w with UOk e1 => Some e1 | _ => None end
                                                             | None => None
                                                             end) ws (Some e) with
                               | Some e1 =>
                                   let l := if setof then sort_uniq e1 ts else ts in
                                   match unify e1 (list_t l) inst with
                                   | UOk e2 => k e2 st
                                   | _ => (OFail, st)
                                   end
                               | None => (OFail, st)
                               end)
                            (go gs')
                 end) groups st'
          end
      end
  end

with add_clause (fuel : nat) (front : bool) (t : term) (e : env) (k : K) (st : sstate) {struct fuel} : outcome * sstate :=
  match fuel with
  | O => (OFuel, st)
  | S f =>
      let c := walk e t in
      match rulify empty_env c with
      | Cmp ":-" [h; body] =>
          match h with
          | Var _ => (ORaise inst_err, st)
          | Int _ | Flt _ => (ORaise (type_err "callable" (walk e h)), st)
          | _ =>
              if negb (body_ok UFUEL empty_env body) then (ORaise (type_err "callable" (walk e body)), st)
              else
                let '(fn, ar) := match h with Atom a => (a, O) | Cmp g xs => (g, List.length xs) | _ => ("", O) end in
                if is_builtin fn ar then (ORaise (perm_err "modify" "static_procedure" (pi_t fn (Z.of_nat ar))), st)
                else
                  let p := match ss_find (ss_db st) fn ar with Some p => p | None => mkSProc fn ar true [] end in
                  if negb (sp_dynamic p) then (ORaise (perm_err "modify" "static_procedure" (pi_t fn (Z.of_nat ar))), st)
                  else
                    let new := entries (ss_split st) (ss_nextid st) h body in
                    let st1 := mkSS (ss_nextv st) (ss_nextid st + Z.of_nat (List.length new)) (ss_db st) (ss_answers st) (ss_limit st) (ss_qvars st) (ss_collect st) (ss_split st) in
                    let cs := if front then new ++ sp_clauses p else sp_clauses p ++ new in
                    let db' := match ss_find (ss_db st1) fn ar with
                               | Some _ => ss_update (ss_db st1) (mkSProc fn ar true cs)
                               | None => ss_db st1 ++ [mkSProc fn ar true cs]
                               end in
                    k e (ss_set_db st1 db')
          end
      | _ => (OFuel, st)
      end
  end.

End Solve.

(** ---- running a query --------------------------------------------------------------- *)

Definition top_k : K := fun e st =>
  let ans := map (walk e) (ss_qvars st) in
  let st' := ss_set_answers st (ans :: ss_answers st) in
  (if Nat.leb (ss_limit st') (List.length (ss_answers st')) then OStop else OFail, st').

Definition s_add_term (split dynamic : bool) (acc : list sproc * Z) (t : term) : list sproc * Z :=
  let '(db, id) := acc in
  match rulify empty_env t with
  | Cmp ":-" [h; body] =>
      let '(fn, ar) := match h with Atom a => (a, O) | Cmp g xs => (g, List.length xs) | _ => ("", O) end in
      let new := entries split id h body in
      match ss_find db fn ar with
      | Some p => (ss_update db (mkSProc fn ar (sp_dynamic p) (sp_clauses p ++ new)), id + Z.of_nat (List.length new))
      | None => (db ++ [mkSProc fn ar dynamic new], id + Z.of_nat (List.length new))
      end
  | _ => acc
  end.
Definition s_consult (split dynamic : bool) (db : list sproc) (id : Z) (ts : list term) : list sproc * Z :=
  fold_left (s_add_term split dynamic) ts (db, id).

Inductive sending := SEndNo | SEndMore | SEndErr (e : merr) | SEndFuel | SEndStray.

Definition s_run_gen (split : bool) (fuel : nat) (db : list sproc) (nextv : Z) (q : term) (qvars : list Z) (limit : nat) : list (list term) * sending :=
  let st := mkSS nextv 100000 db [] limit (map Var qvars) [] split in
  let '(r, st') := opaque fuel q empty_env top_k st in
  (rev (ss_answers st'),
   match r with
   | OFail => SEndNo | OStop => SEndMore | ORaise e => SEndErr e | OPass _ e => SEndErr e
   | OFuel => SEndFuel | _ => SEndStray
   end).

Definition s_run := s_run_gen false.
