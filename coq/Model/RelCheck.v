(** Comparison of the relation model with the answer sets observed on the implementation. *)
From Coq Require Import ZArith Bool List String.
From PV Require Import Model.Term Model.Unify Model.TermCheck Model.Rel.
Import ListNotations.
Open Scope string_scope.
Open Scope list_scope.
Open Scope Z_scope.

Definition tuple_eqb (a b : list term) : bool := list_eqb term_eqb a b.

Fixpoint remove_first (x : list term) (l : list (list term)) : option (list (list term)) :=
  match l with
  | [] => None
  | y :: r => if tuple_eqb x y then Some r else option_map (cons y) (remove_first x r)
  end.
Fixpoint multiset_eqb (a b : list (list term)) : bool :=
  match a with
  | [] => match b with [] => true | _ => false end
  | x :: a' => match remove_first x b with Some b' => multiset_eqb a' b' | None => false end
  end.

(** id, predicate, arguments, completion flag (0 all answers seen, 1 cut off at the
    bound, 2 ended with an error), answers observed as instances of the arguments *)
Definition rcase := (Z * string * list term * Z * list (list term))%type.

(** the model is the relation itself: a disagreement is a disagreement with the specification *)
Definition check_rel (cs : list rcase) : list (Z * Z * Z) :=
  flat_map (fun c => match c with (id, name, args, flag, seen) =>
     if must_error name args then (if flag =? 2 then [] else [(id, 1, 1)]) else
     match answers name args with
     | None => [(id, 2, 2)]
     | Some ans =>
         if (flag =? 0) && multiset_eqb (map canon_list ans) (map canon_list seen) then [] else [(id, 1, 1)]
     end end) cs.
