(** Comparison of the loader model with load/assertz histories observed on the
    implementation. *)
From Coq Require Import ZArith Bool List String.
From PV Require Import Model.Loader.
Import ListNotations.
Open Scope string_scope.
Open Scope list_scope.
Open Scope Z_scope.

Fixpoint zlist_eqb (a b : list Z) : bool :=
  match a, b with
  | [], [] => true
  | x :: a', y :: b' => Z.eqb x y && zlist_eqb a' b'
  | _, _ => false
  end.
Definition olist_eqb (a b : option (list Z)) : bool :=
  match a, b with
  | None, None => true
  | Some x, Some y => zlist_eqb x y
  | _, _ => false
  end.
Fixpoint ls_eqb (a b : list (option (list Z))) : bool :=
  match a, b with
  | [], [] => true
  | x :: a', y :: b' => olist_eqb x y && ls_eqb a' b'
  | _, _ => false
  end.
Definition obs_eqb (a b : obs) : bool :=
  match a, b with (e, o, l), (e', o', l') => Z.eqb e e' && zlist_eqb o o' && ls_eqb l l' end.
Fixpoint obss_eqb (a b : list obs) : bool :=
  match a, b with
  | [], [] => true
  | x :: a', y :: b' => obs_eqb x y && obss_eqb a' b'
  | _, _ => false
  end.

(** id, watched predicates, operations, observations of the implementation *)
Definition hcase := (Z * list pi * list op * list obs)%type.

Definition check_hist (cs : list hcase) : list (Z * Z * Z) :=
  flat_map (fun c => match c with (id, watch, ops, seen) =>
                       if obss_eqb (run_ops watch [] ops) seen then [] else [(id, 1, 0)] end) cs.
