(** Comparison of the model's unification and standard order with outcomes
    observed on the implementation (C02, C08 case files). *)
From Coq Require Import ZArith Bool List String.
From PV Require Import Model.Term Model.Unify Model.Order.
Import ListNotations.
Open Scope string_scope.
Open Scope list_scope.
Open Scope Z_scope.

Fixpoint index_of_z (v : Z) (vs : list Z) : option nat :=
  match vs with
  | [] => None
  | w :: vs' => if Z.eqb v w then Some O else option_map S (index_of_z v vs')
  end.

Fixpoint canon_t (t : term) (m : list Z) : term * list Z :=
  match t with
  | Var v =>
      match index_of_z v m with
      | Some i => (Var (Z.of_nat i), m)
      | None => (Var (Z.of_nat (List.length m)), m ++ [v])
      end
  | Cmp f args =>
      let '(args', m') := fold_left (fun acc a => let '(l, m0) := acc in
                                                  let '(a', m1) := canon_t a m0 in (l ++ [a'], m1)) args ([], m) in
      (Cmp f args', m')
  | _ => (t, m)
  end.
Definition canon_list (a : list term) : list term :=
  fst (fold_left (fun acc t => let '(l, m0) := acc in let '(t', m1) := canon_t t m0 in (l ++ [t'], m1)) a ([], [])).

Fixpoint list_eqb {A} (eqb : A -> A -> bool) (a b : list A) : bool :=
  match a, b with
  | [], [] => true
  | x :: a', y :: b' => eqb x y && list_eqb eqb a' b'
  | _, _ => false
  end.

Inductive umode := MEq | MOc | MHead.
Inductive uobs := UYes (images : list term) | UNo | UErr.
Definition ucase := (Z * umode * term * term * uobs)%type.

(** 0 agree, 1 disagree, 2 the pair is subject to occurs check (dropped) *)
Definition unify_agree (m : umode) (t1 t2 : term) (o : uobs) : Z :=
  let r := match m with MOc => unify_oc empty_env t1 t2 | _ => unify empty_env t1 t2 end in
  match r with
  | UOk e =>
      if poisoned e then 2
      else match o with
           | UYes imgs => if list_eqb term_eqb (canon_list (map (walk e) [Var 0; Var 1; Var 2])) (canon_list imgs) then 0 else 1
           | _ => 1
           end
  | UFail => match o with UNo => 0 | _ => 1 end
  | UStuck => 2
  end.

Definition check_unify (cs : list ucase) : list (Z * Z * Z) :=
  filter (fun r => negb (Z.eqb (snd (fst r)) 0))
    (map (fun c => match c with (id, m, t1, t2, o) => (id, unify_agree m t1 t2 o, 0) end) cs).

(** standard order (C08) *)
Definition ocase := (Z * term * term * Z)%type.      (* observed: -1 / 0 / 1 *)
Definition cmp_z (c : comparison) : Z := match c with Lt => -1 | Eq => 0 | Gt => 1 end.
Definition check_order (cs : list ocase) : list (Z * Z * Z) :=
  filter (fun r => negb (Z.eqb (snd (fst r)) 0))
    (map (fun c => match c with (id, t1, t2, o) =>
                     (id, if Z.eqb (cmp_z (compare_t empty_env t1 t2)) o then 0 else 1, 0) end) cs).

Definition scase := (Z * list term * list term)%type.  (* sort/2: input, observed output *)
Definition check_sort (cs : list scase) : list (Z * Z * Z) :=
  filter (fun r => negb (Z.eqb (snd (fst r)) 0))
    (map (fun c => match c with (id, l, o) =>
                     (id, if list_eqb term_eqb (canon_list (sort_uniq empty_env l)) (canon_list o) then 0 else 1, 0) end) cs).
