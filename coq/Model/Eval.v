(** Hand-written mirror of engine/number.go: eval, is/2 and the six numeric
    comparison predicates, over the regenerated kernels and functor tables of
    Gen/Arith_gen.v.  Executable. *)
From Coq Require Import ZArith Bool List String.
From PV Require Import Model.GoInt Model.F64 Model.Num Gen.Arith_gen.
Import ListNotations.
Open Scope Z_scope.
Open Scope string_scope.

Definition unary_tbl := unaryFunctors.
Definition binary_tbl := binaryFunctors.

(** expression terms after Resolve *)
Inductive expr :=
| ENum (n : num)
| EVar                                   (* an unbound variable *)
| EAtom (a : string)
| ECmp (f : string) (args : list expr)   (* a compound of any arity *)
| EOther.                                (* a non-number, non-atom, non-compound term (stream) *)

Inductive everr :=
| XInstantiation
| XTypeEvaluable (name : string) (arity : Z)
| XTypeEvaluableTerm                     (* type_error(evaluable, T/0) for a non-atom T *)
| XKernel (e : err).                     (* evaluation_error(E) / type_error(integer|float, culprit) *)

Definition lookup {A} (k : string) (l : list (string * A)) : option A :=
  match find (fun p => String.eqb (fst p) k) l with Some p => Some (snd p) | None => None end.

Definition pi_bits : Z := 4614256656552045848.

Definition lift (r : resE num) : res num everr :=
  match r with
  | Ok n => Ok n | Err e => Err (XKernel e)
  | Panic => Panic | ConvUB => ConvUB | OutOfFuel => OutOfFuel | Unmodelled => Unmodelled
  end.

Fixpoint eval (e : expr) : res num everr :=
  match e with
  | EVar => Err XInstantiation
  | EAtom a => if String.eqb a "pi" then Ok (NFlt (of_bits pi_bits)) else Err (XTypeEvaluable a 0)
  | ENum n => Ok n
  | ECmp f args =>
      match args with
      | [x] =>
          match lookup f unary_tbl with
          | None => Err (XTypeEvaluable f 1)
          | Some fn => bind (eval x) (fun vx => lift (fn vx))
          end
      | [x; y] =>
          match lookup f binary_tbl with
          | None => Err (XTypeEvaluable f 2)
          | Some fn => bind (eval x) (fun vx => bind (eval y) (fun vy => lift (fn vx vy)))
          end
      | _ => Err (XTypeEvaluable f (Z.of_nat (List.length args)))
      end
  | EOther => Err XTypeEvaluableTerm
  end.

Inductive cmpop := CEq | CNe | CLt | CGt | CLe | CGe.

Definition compare_num (op : cmpop) (a b : num) : bool :=
  match op, a, b with
  | CEq, NInt x, NInt y => eqI x y | CEq, NInt x, NFlt y => eqIF x y
  | CEq, NFlt x, NInt y => eqFI x y | CEq, NFlt x, NFlt y => eqF x y
  | CNe, NInt x, NInt y => neqI x y | CNe, NInt x, NFlt y => neqIF x y
  | CNe, NFlt x, NInt y => neqFI x y | CNe, NFlt x, NFlt y => neqF x y
  | CLt, NInt x, NInt y => lssI x y | CLt, NInt x, NFlt y => lssIF x y
  | CLt, NFlt x, NInt y => lssFI x y | CLt, NFlt x, NFlt y => lssF x y
  | CGt, NInt x, NInt y => gtrI x y | CGt, NInt x, NFlt y => gtrIF x y
  | CGt, NFlt x, NInt y => gtrFI x y | CGt, NFlt x, NFlt y => gtrF x y
  | CLe, NInt x, NInt y => leqI x y | CLe, NInt x, NFlt y => leqIF x y
  | CLe, NFlt x, NInt y => leqFI x y | CLe, NFlt x, NFlt y => leqF x y
  | CGe, NInt x, NInt y => geqI x y | CGe, NInt x, NFlt y => geqIF x y
  | CGe, NFlt x, NInt y => geqFI x y | CGe, NFlt x, NFlt y => geqF x y
  end.

(** the arithmetic comparison predicates: evaluate left, then right *)
Definition compare_goal (op : cmpop) (e1 e2 : expr) : res bool everr :=
  bind (eval e1) (fun a => bind (eval e2) (fun b => Ok (compare_num op a b))).

(** observable result of [X is E] *)
Inductive everr_obs := OXInst | OXEvaluable (name : string) (arity : Z) | OXEvaluableTerm | OXKernel (e : oerr).
Inductive oval := VNum (n : onum) | VErr (e : everr_obs) | VPanic | VConvUB | VOutOfFuel | VUnmodelled
                | VUnknown (what : string).   (* an observation the model can never produce *)

Definition obs_everr (e : everr) : everr_obs :=
  match e with
  | XInstantiation => OXInst | XTypeEvaluable n a => OXEvaluable n a
  | XTypeEvaluableTerm => OXEvaluableTerm | XKernel k => OXKernel (obs_err k)
  end.

Definition obs_eval (e : expr) : oval :=
  match eval e with
  | Ok n => VNum (obs_num n) | Err x => VErr (obs_everr x)
  | Panic => VPanic | ConvUB => VConvUB | OutOfFuel => VOutOfFuel | Unmodelled => VUnmodelled
  end.

Inductive ocmp := CBool (b : bool) | CErr (e : everr_obs) | CAbort.
Definition obs_compare (op : cmpop) (e1 e2 : expr) : ocmp :=
  match compare_goal op e1 e2 with
  | Ok b => CBool b | Err x => CErr (obs_everr x) | _ => CAbort
  end.
