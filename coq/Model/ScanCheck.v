From Coq Require Import ZArith Bool List String.
From PV Require Import Model.Scan Gen.Scan_gen.
Import ListNotations.
Open Scope string_scope.
Open Scope Z_scope.

Definition scan_by_name (d : string) (t : sterm) : option (option Z) :=
  match d with
  | "int" => Some (scan_int t) | "int8" => Some (scan_int8 t) | "int16" => Some (scan_int16 t)
  | "int32" => Some (scan_int32 t) | "int64" => Some (scan_int64 t) | "float64" => Some (scan_float64 t)
  | _ => None
  end.
Definition oz_eqb (a b : option Z) : bool :=
  match a, b with Some x, Some y => Z.eqb x y | None, None => true | _, _ => false end.
Definition sccase := (Z * string * sterm * option Z)%type.
Definition check_scan (cs : list sccase) : list (Z * Z * Z) :=
  filter (fun r => negb (Z.eqb (snd (fst r)) 0))
    (map (fun c => match c with (id, d, t, o) =>
                     (id, match scan_by_name d t with Some m => if oz_eqb m o then 0 else 1 | None => 1 end, 0) end) cs).
