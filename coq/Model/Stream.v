(** An input stream as one forward cursor (C19): the source bytes, the number of
    bytes consumed, whether end_of_file has been delivered, the eof_action.
    Operations mirror GetChar/PeekChar/GetByte/PeekByte/ReadTerm and the position
    and end_of_stream properties (engine/builtin.go, engine/stream.go).  The
    buffered reader is abstracted to the cursor; "at" and "not" are not
    distinguished when nothing remains (the implementation may not know yet). *)
From Coq Require Import ZArith Bool List.
Import ListNotations.
Open Scope Z_scope.

Inductive eofact := AError | ACode | AReset.
Record st := mkS { src : list Z; pos : nat; past : bool; act : eofact; binary : bool }.

Inductive op := GetChar | PeekChar | GetByte | PeekByte | ReadTerm | QPos | QEos.

Inductive res :=
| RCode (z : Z)              (* a character code or byte; -1 = end_of_file *)
| RTok (t : list Z)          (* the characters of the atom or integer read; [] = end_of_file *)
| RPos (n : Z)
| REos (e : Z)               (* 0 not, 1 nothing remains (not or at), 2 past *)
| RErr (e : Z)               (* 1 past end of stream, 2 not a character, 3 wrong stream type *)
| RStop.                     (* outside the model's reader: the comparison stops here *)

Definition remaining (s : st) : list Z := skipn (pos s) (src s).

(** utf8.DecodeRune: the code point and its width; (-2, 1) for an invalid or truncated sequence *)
Definition cont (b : Z) : bool := (128 <=? b) && (b <=? 191).
Definition decode (l : list Z) : Z * nat :=
  match l with
  | [] => (-2, 1%nat)
  | b0 :: r =>
      if b0 <? 128 then (b0, 1%nat)
      else if (194 <=? b0) && (b0 <=? 223) then
        match r with b1 :: _ => if cont b1 then ((b0 - 192) * 64 + (b1 - 128), 2%nat) else (-2, 1%nat) | _ => (-2, 1%nat) end
      else if (224 <=? b0) && (b0 <=? 239) then
        match r with
        | b1 :: b2 :: _ =>
            let lo := if b0 =? 224 then 160 else 128 in
            let hi := if b0 =? 237 then 159 else 191 in
            if (lo <=? b1) && (b1 <=? hi) && cont b2 then (((b0 - 224) * 64 + (b1 - 128)) * 64 + (b2 - 128), 3%nat) else (-2, 1%nat)
        | _ => (-2, 1%nat)
        end
      else if (240 <=? b0) && (b0 <=? 244) then
        match r with
        | b1 :: b2 :: b3 :: _ =>
            let lo := if b0 =? 240 then 144 else 128 in
            let hi := if b0 =? 244 then 143 else 191 in
            if (lo <=? b1) && (b1 <=? hi) && cont b2 && cont b3
            then ((((b0 - 240) * 64 + (b1 - 128)) * 64 + (b2 - 128)) * 64 + (b3 - 128), 4%nat) else (-2, 1%nat)
        | _ => (-2, 1%nat)
        end
      else (-2, 1%nat)
  end.

(** what initRead does with a stream that is past its end: an error, or carry on *)
Definition enter (s : st) : option st :=
  if past s then
    match act s with
    | AError => None
    | ACode => Some s
    | AReset => Some (mkS (src s) (pos s) false (act s) (binary s))
    end
  else Some s.

Definition advance (s : st) (n : nat) : st := mkS (src s) (pos s + n) false (act s) (binary s).
Definition at_eof (s : st) : st := mkS (src s) (pos s) true (act s) (binary s).

(** ** the reader, as far as the model goes: layout and comments, then an atom of
    letters/digits/underscores starting with a small letter or an unsigned decimal
    integer, then the end token.  Works on code points; None = outside the model. *)
Definition is_layout (c : Z) : bool := (c =? 32) || (c =? 10) || (c =? 9) || (c =? 13).
Definition is_small (c : Z) : bool :=
  ((97 <=? c) && (c <=? 122)) || (c =? 233) || (c =? 26085) || (c =? 26412) || (c =? 131083).
Definition is_digit (c : Z) : bool := (48 <=? c) && (c <=? 57).
Definition is_alnum (c : Z) : bool := is_small c || is_digit c || ((65 <=? c) && (c <=? 90)) || (c =? 95).

(** decode everything that remains: (code point, width) list; None if undecodable *)
Fixpoint decode_all (fuel : nat) (l : list Z) : option (list (Z * nat)) :=
  match fuel with
  | O => None
  | S f =>
      match l with
      | [] => Some []
      | _ => let '(c, n) := decode l in
             if c =? -2 then None
             else option_map (cons (c, n)) (decode_all f (skipn n l))
      end
  end.

(** skip layout, %-comments and /* */ comments; returns the rest and the width skipped *)
Fixpoint skip_ws (fuel : nat) (l : list (Z * nat)) (w : nat) : option (list (Z * nat) * nat) :=
  match fuel with
  | O => None
  | S f =>
      match l with
      | (c, n) :: r =>
          if is_layout c then skip_ws f r (w + n)%nat
          else if c =? 37 then
            (fix line (k : list (Z * nat)) (w : nat) {struct k} :=
               match k with
               | [] => Some ([], w)
               | (d, m) :: k' => if d =? 10 then skip_ws f k' (w + m)%nat else line k' (w + m)%nat
               end) r (w + n)%nat
          else if c =? 47 then
            match r with
            | (42, n2) :: r2 =>
                (fix blk (k : list (Z * nat)) (w : nat) {struct k} :=
                   match k with
                   | (42, m1) :: (47, m2) :: k'' => skip_ws f k'' (w + m1 + m2)%nat
                   | (_, m) :: k' => blk k' (w + m)%nat
                   | [] => None   (* unterminated comment *)
                   end) r2 (w + n + n2)%nat
            | _ => Some (l, w)
            end
          else Some (l, w)
      | [] => Some ([], w)
      end
  end.

Fixpoint take_while (p : Z -> bool) (l : list (Z * nat)) : list Z * nat * list (Z * nat) :=
  match l with
  | (c, n) :: r => if p c then let '(t, w, rest) := take_while p r in (c :: t, (n + w)%nat, rest) else ([], 0%nat, l)
  | [] => ([], 0%nat, [])
  end.

Inductive rt := RtEof (w : nat) | RtTok (t : list Z) (w : nat) | RtStop.

Definition read_token (bytes : list Z) : rt :=
  match decode_all (S (List.length bytes)) bytes with
  | None => RtStop
  | Some cs =>
      match skip_ws (S (List.length cs)) cs 0 with
      | None => RtStop
      | Some ([], w) => RtEof w
      | Some (((c, n) :: r) as l, w) =>
          let '(t, tw, rest) :=
            if is_small c then take_while is_alnum l
            else if is_digit c then take_while is_digit l
            else ([], 0%nat, l) in
          match t with
          | [] => RtStop
          | _ =>
              (* an integer directly followed by a letter or quote is another token: stop *)
              match rest with
              | (d, _) :: _ => if is_digit c && (is_alnum d || (d =? 39)) then RtStop else
                  match skip_ws (S (List.length rest)) rest 0 with
                  | Some ((46, dn) :: after, w2) =>
                      match after with
                      | [] => RtTok t (w + tw + w2 + dn)%nat
                      | (e, _) :: _ => if is_layout e || (e =? 37) then RtTok t (w + tw + w2 + dn)%nat else RtStop
                      end
                  | _ => RtStop
                  end
              | [] => RtStop
              end
          end
      end
  end.

(** ** one operation *)
Definition step (s : st) (o : op) : st * res :=
  match o with
  | QPos => (s, RPos (Z.of_nat (pos s)))
  | QEos => (s, REos (if past s then 2 else if Nat.ltb (pos s) (List.length (src s)) then 0 else 1))
  | GetChar | PeekChar | ReadTerm =>
      match enter s with
      | None => (s, RErr 1)
      | Some s1 =>
          if binary s then (s1, RErr 3) else
          match o with
          | GetChar =>
              match remaining s1 with
              | [] => (at_eof s1, RCode (-1))
              | l => let '(c, n) := decode l in
                     if c =? -2 then (advance s1 n, RErr 2) else (advance s1 n, RCode c)
              end
          | PeekChar =>
              match remaining s1 with
              | [] => (s, RCode (-1))
              | l => let '(c, n) := decode l in if c =? -2 then (s, RErr 2) else (s, RCode c)
              end
          | _ =>
              match read_token (remaining s1) with
              | RtEof _ => (at_eof (mkS (src s1) (Nat.max (pos s1) (List.length (src s1))) false (act s1) (binary s1)), RTok [])
              | RtTok t w => (advance s1 w, RTok t)
              | RtStop => (s, RStop)
              end
          end
      end
  | GetByte | PeekByte =>
      match enter s with
      | None => (s, RErr 1)
      | Some s1 =>
          if negb (binary s) then (s1, RErr 3) else
          match remaining s1 with
          | [] => (match o with GetByte => at_eof s1 | _ => s end, RCode (-1))
          | b :: _ => (match o with GetByte => advance s1 1 | _ => s end, RCode b)
          end
      end
  end.

(** a peek under eof_action(reset) on a stream that is past: the reset is undone
    (the state stays past); that is what [s] instead of [s1] says above. *)

Fixpoint run (s : st) (ops : list op) : st * list res :=
  match ops with
  | [] => (s, [])
  | o :: r => let '(s1, x) := step s o in let '(s2, xs) := run s1 r in (s2, x :: xs)
  end.
