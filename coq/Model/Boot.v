(** The database the interpreter starts with: the clauses of bootstrap.pl
    (regenerated in Gen/Bootstrap_gen.v) compiled by the model's compiler. *)
From Coq Require Import ZArith Bool List String.
From PV Require Import Model.Term Model.Unify Model.Clause Model.Order.
From PV Require Import Model.GoInt Model.F64 Model.Num Gen.Arith_gen Model.Eval Model.Machine Gen.Bootstrap_gen.
Import ListNotations.
Open Scope string_scope.
Open Scope list_scope.
Open Scope Z_scope.

(** add the clauses of one term at the end of its procedure (creating it);
    identities are drawn from [id] *)
Definition add_clause_term (dynamic : bool) (acc : list proc * Z) (t : term) : list proc * Z :=
  let '(db, id) := acc in
  match compile t t with
  | inr _ => acc
  | inl cs =>
      fold_left (fun a c =>
                   let '(db0, id0) := a in
                   let c' := mkClause (c_name c) (c_arity c) (c_raw c) (c_vars c) (c_code c) id0 in
                   match find_proc db0 (c_name c) (c_arity c) with
                   | Some p => (update_proc db0 (mkProc (pr_name p) (pr_arity p) (pr_uid p) (pr_dynamic p) (pr_public p) (pr_clauses p ++ [c'])), id0 + 1)
                   | None => (db0 ++ [mkProc (c_name c) (c_arity c) (id0 + 1) dynamic dynamic [c']], id0 + 2)
                   end) cs (db, id)
  end.

(** the reader gives every clause its own variables: clause number i of a text
    (whose variables are numbered from 0) is shifted to a block of its own *)
Fixpoint shift_vars (k : Z) (t : term) : term :=
  match t with
  | Var v => Var (v + k)
  | Cmp f args => Cmp f (map (shift_vars k) args)
  | _ => t
  end.
Definition CLAUSE_BASE : Z := 2000000.
Definition rename_apart (ts : list term) : list term :=
  map (fun it => shift_vars (CLAUSE_BASE + 1000 * Z.of_nat (fst it)) (snd it)) (combine (seq 0 (List.length ts)) ts).

Definition consult_terms (dynamic : bool) (db : list proc) (id : Z) (ts : list term) : list proc * Z :=
  fold_left (add_clause_term dynamic) (rename_apart ts) (db, id).

Definition bootstrap_db : list proc := Eval vm_compute in fst (consult_terms false [] 1000 bootstrap_clauses).

(** a program given as clause terms (its variables numbered from 0 per clause),
    loaded statically on top of the bootstrap; query variables start at [qbase] *)
Definition program_db (ts : list term) : list proc := fst (consult_terms false bootstrap_db 5000 ts).
Definition dynamic_db (ts : list term) : list proc := fst (consult_terms true bootstrap_db 5000 ts).

Definition QBASE : Z := 1000000.

(** observable result of a query: answers in order, each the resolved values of
    the query variables; then how the run ended *)
Inductive ending := EndNo | EndMore | EndErr (e : merr) | EndFuel.

Definition run (fuel : nat) (db : list proc) (q : term) (qvars : list Z) (limit : nat) : list (list term) * ending :=
  let '(r, st) := run_query fuel db QBASE q (map Var qvars) limit None in
  (rev (s_answers st),
   match r with
   | FTrue => EndMore | FFalse => EndNo
   | FError EFuel => EndFuel
   | FError e => EndErr e | FOutOfFuel => EndFuel
   end).
