(** The context-free core of the DCG translation, with its two semantics:
    derivations of the grammar, and the least model of the translated clauses
    (variables range over lists).  [tr] is the translation scheme of
    engine/dcg.go restricted to terminals, non-terminals, sequence and alternation. *)
From Coq Require Import List ZArith.
Import ListNotations.

Inductive gbody :=
| GTerm (ts : list Z)             (* [t1, ..., tn] *)
| GNt (a : nat)                   (* a non-terminal *)
| GSeq (x y : gbody)              (* x, y *)
| GAlt (x y : gbody).             (* x ; y   and   x | y *)

Definition grammar := list (nat * gbody).      (* rules  a --> body *)

(** body b derives the list xs leaving the remainder r *)
Inductive derives (G : grammar) : gbody -> list Z -> list Z -> Prop :=
| DTerm ts r : derives G (GTerm ts) (ts ++ r) r
| DNt a b xs r : In (a, b) G -> derives G b xs r -> derives G (GNt a) xs r
| DSeq x y xs m r : derives G x xs m -> derives G y m r -> derives G (GSeq x y) xs r
| DAltL x y xs r : derives G x xs r -> derives G (GAlt x y) xs r
| DAltR x y xs r : derives G y xs r -> derives G (GAlt x y) xs r.

(** translated goals over variables V0, V1, ... *)
Inductive goal :=
| GEq (x : nat) (ts : list Z) (y : nat)       (* Vx = [t1, ..., tn | Vy] *)
| GCall (a : nat) (x y : nat)                 (* a(Vx, Vy) *)
| GConj (g h : goal)
| GDisj (g h : goal).

(** dcgBody: n is the next fresh variable *)
Fixpoint tr (b : gbody) (s0 s n : nat) : goal * nat :=
  match b with
  | GTerm ts => (GEq s0 ts s, n)
  | GNt a => (GCall a s0 s, n)
  | GSeq x y => let '(g1, n1) := tr x s0 n (S n) in let '(g2, n2) := tr y n s n1 in (GConj g1 g2, n2)
  | GAlt x y => let '(g1, n1) := tr x s0 s n in let '(g2, n2) := tr y s0 s n1 in (GDisj g1 g2, n2)
  end.

(** expandDCG: a(V0, V2) :- body, fresh variables from V3 on *)
Definition tr_rule (r : nat * gbody) : nat * goal := (fst r, fst (tr (snd r) 0 2 3)).

(** the least model of a translated program *)
Inductive holds (P : list (nat * goal)) : (nat -> list Z) -> goal -> Prop :=
| HEq rho x ts y : rho x = ts ++ rho y -> holds P rho (GEq x ts y)
| HCall rho rho' a x y g : In (a, g) P -> rho' 0 = rho x -> rho' 2 = rho y -> holds P rho' g -> holds P rho (GCall a x y)
| HConj rho g h : holds P rho g -> holds P rho h -> holds P rho (GConj g h)
| HDisjL rho g h : holds P rho g -> holds P rho (GDisj g h)
| HDisjR rho g h : holds P rho h -> holds P rho (GDisj g h).

(** embedding into the term-level translation of Model/Dcg.v, for the agreement check *)
