(** The relations of the enumerating built-ins (C16), as executable enumerations
    over abstract terms.  Text is a list of characters (UTF-8 decoded), never bytes.
    [cands name args] lists the tuples of the relation that the instantiated
    arguments of a call determine; the answers of the call are the candidates that
    unify with the argument pattern. *)
From Coq Require Import ZArith Bool List String Ascii NArith.
From PV Require Import Model.Term Model.Unify.
Import ListNotations.
Open Scope string_scope.
Open Scope list_scope.
Open Scope Z_scope.

(** ** characters *)
Definition byte_of (a : ascii) : Z := Z.of_N (N_of_ascii a).
Definition is_cont (a : ascii) : bool := (128 <=? byte_of a) && (byte_of a <? 192).

Fixpoint uchars_aux (s : string) (cur : string) : list string :=
  match s with
  | EmptyString => match cur with EmptyString => [] | _ => [cur] end
  | String a r =>
      if is_cont a then uchars_aux r (cur ++ String a EmptyString)
      else match cur with EmptyString => [] | _ => [cur] end ++ uchars_aux r (String a EmptyString)
  end.
Definition uchars (s : string) : list string := uchars_aux s EmptyString.
Definition cat (l : list string) : string := String.concat "" l.

Fixpoint bytes (s : string) : list Z :=
  match s with EmptyString => [] | String a r => byte_of a :: bytes r end.
Definition ucode (c : string) : Z :=
  match bytes c with
  | [a] => a
  | [a; b] => (a - 192) * 64 + (b - 128)
  | [a; b; c] => ((a - 224) * 64 + (b - 128)) * 64 + (c - 128)
  | [a; b; c; d] => (((a - 240) * 64 + (b - 128)) * 64 + (c - 128)) * 64 + (d - 128)
  | _ => -1
  end.
Definition chr (z : Z) : string := String (ascii_of_N (Z.to_N z)) EmptyString.
Definition of_code (z : Z) : string :=
  if z <? 128 then chr z
  else if z <? 2048 then chr (192 + z / 64) ++ chr (128 + z mod 64)
  else if z <? 65536 then chr (224 + z / 4096) ++ chr (128 + (z / 64) mod 64) ++ chr (128 + z mod 64)
  else chr (240 + z / 262144) ++ chr (128 + (z / 4096) mod 64) ++ chr (128 + (z / 64) mod 64) ++ chr (128 + z mod 64).

(** ** enumerations *)
Definition splits {A} (l : list A) : list (list A * list A) :=
  map (fun n => (firstn n l, skipn n l)) (seq 0 (S (List.length l))).

(** all (before, length, after, sub) of a text *)
Definition subs {A} (l : list A) : list (nat * nat * nat * list A) :=
  flat_map (fun b => map (fun n => (b, n, (List.length l - b - n)%nat, firstn n (skipn b l)))
                         (seq 0 (S (List.length l - b))))
           (seq 0 (S (List.length l))).

Definition indexed {A} (l : list A) : list (nat * A) := combine (seq 0 (List.length l)) l.

Fixpoint selects {A} (l : list A) : list (A * list A) :=
  match l with
  | [] => []
  | x :: r => (x, r) :: map (fun p => (fst p, x :: snd p)) (selects r)
  end.

(** lo .. hi, as many as the width says (no machine arithmetic anywhere) *)
Definition zrange (lo hi : Z) : list Z :=
  map (fun i => lo + Z.of_nat i) (seq 0 (Z.to_nat (hi - lo + 1))).

(** ** terms *)
Fixpoint tlist_f (fuel : nat) (t : term) : option (list term) :=
  match fuel with
  | O => None
  | S f =>
      match t with
      | Atom "[]" => Some []
      | Cmp "." [h; tl] => option_map (cons h) (tlist_f f tl)
      | _ => None
      end
  end.
Definition tlist (t : term) : option (list term) := tlist_f 2000 t.

(** prefix and tail of a partial list *)
Fixpoint tpartial_f (fuel : nat) (t : term) : list term * term :=
  match fuel with
  | O => ([], t)
  | S f =>
      match t with
      | Cmp "." [h; tl] => let '(l, e) := tpartial_f f tl in (h :: l, e)
      | _ => ([], t)
      end
  end.
Definition tpartial (t : term) := tpartial_f 2000 t.

Definition fresh (n : nat) : list term := map (fun i => Var (1000 + Z.of_nat i)) (seq 0 n).
Definition atomic (t : term) : bool := match t with Var _ | Cmp _ _ => false | _ => true end.
Definition single_chars (l : list term) : option (list string) :=
  fold_right (fun t acc => match t, acc with
                           | Atom c, Some r => if Nat.eqb (List.length (uchars c)) 1 then Some (c :: r) else None
                           | _, _ => None end) (Some []) l.
Definition codes (l : list term) : option (list string) :=
  fold_right (fun t acc => match t, acc with
                           | Int z, Some r => if (0 <? z) && (z <? 1114112) then Some (of_code z :: r) else None
                           | _, _ => None end) (Some []) l.
Definition zn (n : nat) : term := Int (Z.of_nat n).

Definition cands (name : string) (args : list term) : option (list (list term)) :=
  if String.eqb name "atom_length" then
    match args with [Atom a; _] => Some [[Atom a; zn (List.length (uchars a))]] | _ => None end
  else if String.eqb name "atom_concat" then
    match args with
    | [_; _; Atom c] => Some (map (fun pq => [Atom (cat (fst pq)); Atom (cat (snd pq)); Atom c]) (splits (uchars c)))
    | [Atom a; Atom b; z] => Some [[Atom a; Atom b; Atom (a ++ b)]]
    | _ => None
    end
  else if String.eqb name "sub_atom" then
    match args with
    | [Atom a; _; _; _; _] =>
        Some (map (fun q => match q with (b, n, r, s) => [Atom a; zn b; zn n; zn r; Atom (cat s)] end) (subs (uchars a)))
    | _ => None
    end
  else if String.eqb name "atom_chars" then
    match args with
    | [Atom a; _] => Some [[Atom a; list_t (map Atom (uchars a))]]
    | [Var _; l] => match tlist l with
                    | Some ts => match single_chars ts with Some cs => Some [[Atom (cat cs); l]] | None => None end
                    | None => None end
    | _ => None
    end
  else if String.eqb name "atom_codes" then
    match args with
    | [Atom a; _] => Some [[Atom a; list_t (map (fun c => Int (ucode c)) (uchars a))]]
    | [Var _; l] => match tlist l with
                    | Some ts => match codes ts with Some cs => Some [[Atom (cat cs); l]] | None => None end
                    | None => None end
    | _ => None
    end
  else if String.eqb name "char_code" then
    match args with
    | [Atom c; _] => if Nat.eqb (List.length (uchars c)) 1 then Some [[Atom c; Int (ucode c)]] else None
    | [Var _; Int z] => if (0 <? z) && (z <? 1114112) then Some [[Atom (of_code z); Int z]] else None
    | _ => None
    end
  else if String.eqb name "functor" then
    match args with
    | [Var _; Atom f; Int a] =>
        if a =? 0 then Some [[Atom f; Atom f; Int 0]]
        else if (0 <? a) && (a <? 50) then Some [[Cmp f (fresh (Z.to_nat a)); Atom f; Int a]] else None
    | [Var _; n; Int 0] => if atomic n then Some [[n; n; Int 0]] else None
    | [Cmp f xs; _; _] => Some [[Cmp f xs; Atom f; zn (List.length xs)]]
    | [Var _; _; _] => None
    | [t; _; _] => Some [[t; t; Int 0]]
    | _ => None
    end
  else if String.eqb name "arg" then
    match args with
    | [Int n; Cmp f xs; _] => if 0 <=? n then Some (map (fun ie => [zn (S (fst ie)); Cmp f xs; snd ie]) (indexed xs)) else None
    | _ => None
    end
  else if String.eqb name "=.." then
    match args with
    | [Cmp f xs; _] => Some [[Cmp f xs; list_t (Atom f :: xs)]]
    | [Var _; l] => match tlist l with
                    | Some [x] => if atomic x then Some [[x; l]] else None
                    | Some (Atom f :: x :: xs) => Some [[Cmp f (x :: xs); l]]
                    | _ => None
                    end
    | [t; _] => Some [[t; list_t [t]]]
    | _ => None
    end
  else if String.eqb name "append" then
    match args with
    | [x; y; z] =>
        match tlist z with
        | Some zs => Some (map (fun pq => [list_t (fst pq); list_t (snd pq); z]) (splits zs))
        | None => match tlist x with Some xs => Some [[x; y; plist_t xs y]] | None => None end
        end
    | _ => None
    end
  else if String.eqb name "length" then
    match args with
    | [l; n] =>
        match tlist l with
        | Some xs => Some [[l; zn (List.length xs)]]
        | None =>
            match tpartial l, n with
            | (pre, Var _), Int k =>
                if k <? 0 then None
                else if k <? Z.of_nat (List.length pre) then Some []
                else if k <? 200 then Some [[list_t (pre ++ fresh (Z.to_nat k - List.length pre)); Int k]] else None
            | _, _ => None
            end
        end
    | _ => None
    end
  else if String.eqb name "between" then
    match args with
    | [Int lo; Int hi; _] => if hi - lo <? 500 then Some (map (fun x => [Int lo; Int hi; Int x]) (zrange lo hi)) else None
    | _ => None
    end
  else if String.eqb name "nth0" then
    match args with
    | [_; l; _] => match tlist l with Some xs => Some (map (fun ie => [zn (fst ie); l; snd ie]) (indexed xs)) | None => None end
    | _ => None
    end
  else if String.eqb name "nth1" then
    match args with
    | [_; l; _] => match tlist l with Some xs => Some (map (fun ie => [zn (S (fst ie)); l; snd ie]) (indexed xs)) | None => None end
    | _ => None
    end
  else if String.eqb name "member" then
    match args with
    | [_; l] => match tlist l with Some xs => Some (map (fun e => [e; l]) xs) | None => None end
    | _ => None
    end
  else if String.eqb name "select" then
    match args with
    | [_; l; _] => match tlist l with Some xs => Some (map (fun er => [fst er; l; list_t (snd er)]) (selects xs)) | None => None end
    | _ => None
    end
  else if String.eqb name "succ" then
    match args with
    | [Int x; _] => if 0 <=? x then Some [[Int x; Int (x + 1)]] else None
    | [Var _; Int y] => if 0 <? y then Some [[Int (y - 1); Int y]] else None
    | _ => None
    end
  else None.

(** the answers of a call: the candidates that unify with the arguments, as
    instances of the arguments.  None: the call is outside the modelled modes, or a
    unification is subject to occurs check (cyclic answer) *)
Definition answers (name : string) (args : list term) : option (list (list term)) :=
  match cands name args with
  | None => None
  | Some cs =>
      fold_right (fun c acc =>
                    match acc with
                    | None => None
                    | Some l =>
                        match unify empty_env (Cmp "$" args) (Cmp "$" c) with
                        | UOk e => if poisoned e then None else Some (map (walk e) args :: l)
                        | UFail => Some l
                        | UStuck => None
                        end
                    end) (Some []) cs
  end.

(** calls for which ISO demands a representation_error(character_code): a
    character code outside 0..16#10FFFF (whatever its low 32 bits are) given
    where the character or the atom is to be computed *)
Definition bad_code (z : Z) : bool := (z <? 0) || (1114111 <? z).
Fixpoint has_bad_code (fuel : nat) (l : term) : bool :=
  match fuel with
  | O => false
  | S f => match l with
           | Cmp "." [Int z; tl] => bad_code z || has_bad_code f tl
           | Cmp "." [_; tl] => has_bad_code f tl
           | _ => false
           end
  end.
Definition must_error (name : string) (args : list term) : bool :=
  if String.eqb name "char_code" then
    match args with [Var _; Int z] => bad_code z | _ => false end
  else if String.eqb name "atom_codes" then
    match args with [Var _; l] => has_bad_code 1000 l | _ => false end
  else false.
