(** Quoted atoms (C06): the writer's quote() of engine/atom.go and the reader's
    quoted token (engine/lexer.go quotedToken/escapeSequence) with the
    unescaping of engine/parser.go, over lists of code points.  [accept] is
    isSingleQuotedCharacter, which both sides call: the theorems hold for any. *)
From Coq Require Import ZArith NArith Bool List Hexadecimal.
Import ListNotations.
Open Scope Z_scope.

Section Quote.
Variable accept : Z -> bool.

(** %x *)
Fixpoint hex_digits (u : Hexadecimal.uint) : list Z :=
  match u with
  | Hexadecimal.Nil => []
  | Hexadecimal.D0 r => 48 :: hex_digits r | Hexadecimal.D1 r => 49 :: hex_digits r
  | Hexadecimal.D2 r => 50 :: hex_digits r | Hexadecimal.D3 r => 51 :: hex_digits r
  | Hexadecimal.D4 r => 52 :: hex_digits r | Hexadecimal.D5 r => 53 :: hex_digits r
  | Hexadecimal.D6 r => 54 :: hex_digits r | Hexadecimal.D7 r => 55 :: hex_digits r
  | Hexadecimal.D8 r => 56 :: hex_digits r | Hexadecimal.D9 r => 57 :: hex_digits r
  | Hexadecimal.Da r => 97 :: hex_digits r | Hexadecimal.Db r => 98 :: hex_digits r
  | Hexadecimal.Dc r => 99 :: hex_digits r | Hexadecimal.Dd r => 100 :: hex_digits r
  | Hexadecimal.De r => 101 :: hex_digits r | Hexadecimal.Df r => 102 :: hex_digits r
  end.
Definition hex_code (c : Z) : list Z := hex_digits (N.to_hex_uint (Z.to_N c)).

(** quotedIdentEscape, applied by quote() to control characters, backslash and quote;
    every other character the reader does not accept between quotes gets \x..\ too *)
Definition quote_char (c : Z) : list Z :=
  if c =? 7 then [92; 97] else if c =? 8 then [92; 98] else if c =? 12 then [92; 102]
  else if c =? 10 then [92; 110] else if c =? 13 then [92; 114] else if c =? 9 then [92; 116]
  else if c =? 11 then [92; 118] else if c =? 92 then [92; 92] else if c =? 39 then [92; 39]
  else if (c <? 32) || (c =? 127) then 92 :: 120 :: hex_code c ++ [92]
  else if accept c then [c] else 92 :: 120 :: hex_code c ++ [92].

Definition quote_body (s : list Z) : list Z := flat_map quote_char s.
Definition quote (s : list Z) : list Z := 39 :: quote_body s ++ [39].

(** the reader *)
Definition is_hex (c : Z) : bool := ((48 <=? c) && (c <=? 57)) || ((97 <=? c) && (c <=? 102)) || ((65 <=? c) && (c <=? 70)).
Definition is_octal (c : Z) : bool := (48 <=? c) && (c <=? 55).

Fixpoint uint_of_digits (l : list Z) : option Hexadecimal.uint :=
  match l with
  | [] => Some Hexadecimal.Nil
  | c :: r =>
      match uint_of_digits r with
      | None => None
      | Some u =>
          if c =? 48 then Some (Hexadecimal.D0 u) else if c =? 49 then Some (Hexadecimal.D1 u)
          else if c =? 50 then Some (Hexadecimal.D2 u) else if c =? 51 then Some (Hexadecimal.D3 u)
          else if c =? 52 then Some (Hexadecimal.D4 u) else if c =? 53 then Some (Hexadecimal.D5 u)
          else if c =? 54 then Some (Hexadecimal.D6 u) else if c =? 55 then Some (Hexadecimal.D7 u)
          else if c =? 56 then Some (Hexadecimal.D8 u) else if c =? 57 then Some (Hexadecimal.D9 u)
          else if (c =? 97) || (c =? 65) then Some (Hexadecimal.Da u) else if (c =? 98) || (c =? 66) then Some (Hexadecimal.Db u)
          else if (c =? 99) || (c =? 67) then Some (Hexadecimal.Dc u) else if (c =? 100) || (c =? 68) then Some (Hexadecimal.Dd u)
          else if (c =? 101) || (c =? 69) then Some (Hexadecimal.De u) else if (c =? 102) || (c =? 70) then Some (Hexadecimal.Df u)
          else None
      end
  end.

Fixpoint span (p : Z -> bool) (l : list Z) : list Z * list Z :=
  match l with
  | c :: r => if p c then let '(a, b) := span p r in (c :: a, b) else ([], l)
  | [] => ([], [])
  end.

(** a code point that string(rune(r)) keeps: not a surrogate, not above U+10FFFF, not U+FFFD *)
Definition valid_cp (c : Z) : bool :=
  (0 <=? c) && (c <? 1114112) && negb ((55296 <=? c) && (c <=? 57343)) && negb (c =? 65533).

Definition simple_escape (d : Z) : option Z :=
  if d =? 97 then Some 7 else if d =? 98 then Some 8 else if d =? 102 then Some 12 else if d =? 110 then Some 10
  else if d =? 114 then Some 13 else if d =? 116 then Some 9 else if d =? 118 then Some 11
  else if d =? 92 then Some 92 else if d =? 39 then Some 39 else if d =? 34 then Some 34 else if d =? 96 then Some 96
  else None.

Definition octal_value (ds : list Z) : Z := fold_left (fun acc d => acc * 8 + (d - 48)) ds 0.

(** the text between the outer quotes: None = the token is invalid *)
Fixpoint unq (fuel : nat) (l : list Z) : option (list Z) :=
  match fuel with
  | O => None
  | S f =>
      match l with
      | [] => Some []
      | c :: r =>
          if c =? 39 then
            match r with
            | 39 :: r' => option_map (cons 39) (unq f r')
            | _ => None
            end
          else if c =? 92 then
            match r with
            | [] => None
            | d :: r' =>
                if d =? 10 then unq f r'
                else match simple_escape d with
                     | Some v => option_map (cons v) (unq f r')
                     | None =>
                         if d =? 120 then
                           match span is_hex r' with
                           | (x :: ds, 92 :: r'') =>
                               match uint_of_digits (x :: ds) with
                               | Some u => let v := Z.of_N (N.of_hex_uint u) in
                                           if valid_cp v then option_map (cons v) (unq f r'') else None
                               | None => None
                               end
                           | _ => None
                           end
                         else if is_octal d then
                           match span is_octal (d :: r') with
                           | (ds, 92 :: r'') => let v := octal_value ds in
                                                if valid_cp v then option_map (cons v) (unq f r'') else None
                           | _ => None
                           end
                         else None
                     end
            end
          else if accept c then option_map (cons c) (unq f r) else None
      end
  end.

Definition read_quoted (text : list Z) : option (list Z) :=
  match text with
  | 39 :: r =>
      match List.rev r with
      | 39 :: body_rev => unq (S (List.length r)) (List.rev body_rev)
      | _ => None
      end
  | _ => None
  end.

End Quote.
