(** Environments (variable bindings) and unification: mirror of engine/env.go
    Resolve / unify / contains over a finite map (the red-black tree of the
    implementation is modelled separately in Model/EnvTree.v). Executable. *)
From Coq Require Import ZArith Bool List String FMapPositive.
From PV Require Import Model.Term.
Import ListNotations.
Open Scope Z_scope.

(** finite map from variable numbers (>= 0) to terms: a binary trie on the key *)
Definition env := PositiveMap.t term.
(** an injection of variable numbers into trie keys; key 1 is reserved, see [poisoned] *)
Definition key (v : Z) : positive :=
  match v with
  | Z0 => 2%positive
  | Zpos p => xO (Pos.succ p)
  | Zneg p => xI p
  end.
Definition empty_env : env := PositiveMap.empty term.
Definition lookup (e : env) (v : Z) : option term := PositiveMap.find (key v) e.
Definition bind (e : env) (v : Z) (t : term) : env := PositiveMap.add (key v) t e.

(** Unification without occurs check can bind a variable to a term containing
    it (ISO: "subject to occurs check", undefined; the properties exclude such
    programs, and the engine itself dies on the resulting cyclic terms).  The
    model marks such an env instead of building the cyclic binding; a marked
    env makes the run leave the model's domain (treated like fuel exhaustion:
    the case is dropped, never compared). *)
Definition poison (e : env) : env := PositiveMap.add 1%positive (Atom "$sto") e.
Definition poisoned (e : env) : bool := PositiveMap.mem 1%positive e.

(** Resolve: follow the variable chain; Go guards against a cyclic chain with
    its [stop] list, the model with fuel = number of bindings + 1 *)
Fixpoint resolve_f (fuel : nat) (e : env) (t : term) : term :=
  match t with
  | Var v =>
      match fuel with
      | O => t
      | S f => match lookup e v with Some r => resolve_f f e r | None => t end
      end
  | _ => t
  end.
(** a variable chain is never longer than the number of bindings; the machine
    uses a fixed bound instead of recomputing the length at every call *)
Definition RFUEL : nat := Eval vm_compute in Z.to_nat 20000.
Definition resolve (e : env) (t : term) : term := resolve_f RFUEL e t.

(** contains (occurs check), as in env.go: follows bindings of variables *)
Fixpoint contains_f (fuel : nat) (e : env) (t : term) (s : Z) : bool :=
  match fuel with
  | O => true (* out of fuel: report an occurrence; excluded by the theorems' fuel hypothesis *)
  | S f =>
      match t with
      | Var v => if Z.eqb v s then true
                 else match lookup e v with Some r => contains_f f e r s | None => false end
      | Cmp _ args => existsb (fun a => contains_f f e a s) args
      | _ => false
      end
  end.

(** unify e x y = Some e' on success, None on failure; [oc] = occurs check.
    The third outcome (fuel exhausted) is [Stuck]. *)
Inductive ures := UOk (e : env) | UFail | UStuck.

Fixpoint unify_f (fuel : nat) (oc : bool) (e : env) (x y : term) : ures :=
  match fuel with
  | O => UStuck
  | S f =>
      let x := resolve e x in
      let y := resolve e y in
      match x with
      | Var vx =>
          (* resolve returns an unbound variable unless its own fuel ran out *)
          match lookup e vx with Some _ => UStuck | None =>
          match y with
          | Var vy => if Z.eqb vx vy then UOk e
                      else match lookup e vy with Some _ => UStuck | None => UOk (bind e vx y) end
          | Cmp _ _ => if contains_f fuel e y vx then (if oc then UFail else UOk (poison e)) else UOk (bind e vx y)
          | _ => UOk (bind e vx y)
          end
          end
      | Cmp fx xs =>
          match y with
          | Var vy => match lookup e vy with Some _ => UStuck | None =>
                      if contains_f fuel e x vy then (if oc then UFail else UOk (poison e)) else UOk (bind e vy x) end
          | Cmp fy ys =>
              if negb (String.eqb fx fy) then UFail
              else if negb (Nat.eqb (List.length xs) (List.length ys)) then UFail
              else (fix go (e : env) (l1 l2 : list term) : ures :=
                      match l1, l2 with
                      | a :: l1', b :: l2' =>
                          match unify_f f oc e a b with
                          | UOk e' => if poisoned e' then UOk e' (* left the model's domain: stop *) else go e' l1' l2'
                          | r => r
                          end
                      | _, _ => UOk e
                      end) e xs ys
          | _ => UFail
          end
      | _ =>
          match y with
          | Var vy => match lookup e vy with Some _ => UStuck | None => UOk (bind e vy x) end   (* atomic: nothing can occur *)
          | _ => if term_eqb x y then UOk e else UFail
          end
      end
  end.

(** fuel that always suffices for finite (acyclic) bindings is established in
    Proofs/Unify.v; the machine passes a generous fixed amount *)
Definition UFUEL : nat := 5000.
Definition unify (e : env) (x y : term) : ures := unify_f UFUEL false e x y.
Definition unify_oc (e : env) (x y : term) : ures := unify_f UFUEL true e x y.

(** full resolution of a term (walk-star), for observation and copying *)
Fixpoint walk_f (fuel : nat) (e : env) (t : term) : term :=
  match fuel with
  | O => t
  | S f =>
      match resolve e t with
      | Cmp g args => Cmp g (map (walk_f f e) args)
      | r => r
      end
  end.
Definition walk (e : env) (t : term) : term := walk_f UFUEL e t.

(** free variables in order of first occurrence, resolving through env
    (env.freeVariables) *)
Fixpoint fvs_f (fuel : nat) (e : env) (t : term) (acc : list Z) : list Z :=
  match fuel with
  | O => acc
  | S f =>
      match resolve e t with
      | Var v => if existsb (Z.eqb v) acc then acc else acc ++ [v]
      | Cmp _ args => fold_left (fun a x => fvs_f f e x a) args acc
      | _ => acc
      end
  end.
Definition free_vars (e : env) (t : term) : list Z := fvs_f UFUEL e t [].
