Model/GoInt.vo Model/GoInt.glob Model/GoInt.v.beautified Model/GoInt.required_vo: Model/GoInt.v 
Model/GoInt.vio: Model/GoInt.v 
Model/GoInt.vos Model/GoInt.vok Model/GoInt.required_vos: Model/GoInt.v 
Model/F64.vo Model/F64.glob Model/F64.v.beautified Model/F64.required_vo: Model/F64.v Model/GoInt.vo
Model/F64.vio: Model/F64.v Model/GoInt.vio
Model/F64.vos Model/F64.vok Model/F64.required_vos: Model/F64.v Model/GoInt.vos
Model/Num.vo Model/Num.glob Model/Num.v.beautified Model/Num.required_vo: Model/Num.v Model/GoInt.vo Model/F64.vo
Model/Num.vio: Model/Num.v Model/GoInt.vio Model/F64.vio
Model/Num.vos Model/Num.vok Model/Num.required_vos: Model/Num.v Model/GoInt.vos Model/F64.vos
Gen/Arith_gen.vo Gen/Arith_gen.glob Gen/Arith_gen.v.beautified Gen/Arith_gen.required_vo: Gen/Arith_gen.v Model/GoInt.vo Model/F64.vo Model/Num.vo
Gen/Arith_gen.vio: Gen/Arith_gen.v Model/GoInt.vio Model/F64.vio Model/Num.vio
Gen/Arith_gen.vos Gen/Arith_gen.vok Gen/Arith_gen.required_vos: Gen/Arith_gen.v Model/GoInt.vos Model/F64.vos Model/Num.vos
Model/Eval.vo Model/Eval.glob Model/Eval.v.beautified Model/Eval.required_vo: Model/Eval.v Model/GoInt.vo Model/F64.vo Model/Num.vo Gen/Arith_gen.vo
Model/Eval.vio: Model/Eval.v Model/GoInt.vio Model/F64.vio Model/Num.vio Gen/Arith_gen.vio
Model/Eval.vos Model/Eval.vok Model/Eval.required_vos: Model/Eval.v Model/GoInt.vos Model/F64.vos Model/Num.vos Gen/Arith_gen.vos
Model/EvalCheck.vo Model/EvalCheck.glob Model/EvalCheck.v.beautified Model/EvalCheck.required_vo: Model/EvalCheck.v Model/GoInt.vo Model/F64.vo Model/Num.vo Gen/Arith_gen.vo Model/Eval.vo
Model/EvalCheck.vio: Model/EvalCheck.v Model/GoInt.vio Model/F64.vio Model/Num.vio Gen/Arith_gen.vio Model/Eval.vio
Model/EvalCheck.vos Model/EvalCheck.vok Model/EvalCheck.required_vos: Model/EvalCheck.v Model/GoInt.vos Model/F64.vos Model/Num.vos Gen/Arith_gen.vos Model/Eval.vos
Proofs/ArithInt.vo Proofs/ArithInt.glob Proofs/ArithInt.v.beautified Proofs/ArithInt.required_vo: Proofs/ArithInt.v Model/GoInt.vo Model/F64.vo Model/Num.vo Gen/Arith_gen.vo
Proofs/ArithInt.vio: Proofs/ArithInt.v Model/GoInt.vio Model/F64.vio Model/Num.vio Gen/Arith_gen.vio
Proofs/ArithInt.vos Proofs/ArithInt.vok Proofs/ArithInt.required_vos: Proofs/ArithInt.v Model/GoInt.vos Model/F64.vos Model/Num.vos Gen/Arith_gen.vos
Props/C07.vo Props/C07.glob Props/C07.v.beautified Props/C07.required_vo: Props/C07.v Model/GoInt.vo Model/F64.vo Model/Num.vo Gen/Arith_gen.vo Proofs/ArithInt.vo
Props/C07.vio: Props/C07.v Model/GoInt.vio Model/F64.vio Model/Num.vio Gen/Arith_gen.vio Proofs/ArithInt.vio
Props/C07.vos Props/C07.vok Props/C07.required_vos: Props/C07.v Model/GoInt.vos Model/F64.vos Model/Num.vos Gen/Arith_gen.vos Proofs/ArithInt.vos
