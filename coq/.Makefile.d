Model/Term.vo Model/Term.glob Model/Term.v.beautified Model/Term.required_vo: Model/Term.v 
Model/Term.vio: Model/Term.v 
Model/Term.vos Model/Term.vok Model/Term.required_vos: Model/Term.v 
Model/Unify.vo Model/Unify.glob Model/Unify.v.beautified Model/Unify.required_vo: Model/Unify.v Model/Term.vo
Model/Unify.vio: Model/Unify.v Model/Term.vio
Model/Unify.vos Model/Unify.vok Model/Unify.required_vos: Model/Unify.v Model/Term.vos
Model/Clause.vo Model/Clause.glob Model/Clause.v.beautified Model/Clause.required_vo: Model/Clause.v Model/Term.vo Model/Unify.vo
Model/Clause.vio: Model/Clause.v Model/Term.vio Model/Unify.vio
Model/Clause.vos Model/Clause.vok Model/Clause.required_vos: Model/Clause.v Model/Term.vos Model/Unify.vos
Model/Order.vo Model/Order.glob Model/Order.v.beautified Model/Order.required_vo: Model/Order.v Model/Term.vo Model/Unify.vo
Model/Order.vio: Model/Order.v Model/Term.vio Model/Unify.vio
Model/Order.vos Model/Order.vok Model/Order.required_vos: Model/Order.v Model/Term.vos Model/Unify.vos
Model/TermCheck.vo Model/TermCheck.glob Model/TermCheck.v.beautified Model/TermCheck.required_vo: Model/TermCheck.v Model/Term.vo Model/Unify.vo Model/Order.vo
Model/TermCheck.vio: Model/TermCheck.v Model/Term.vio Model/Unify.vio Model/Order.vio
Model/TermCheck.vos Model/TermCheck.vok Model/TermCheck.required_vos: Model/TermCheck.v Model/Term.vos Model/Unify.vos Model/Order.vos
Model/Groups.vo Model/Groups.glob Model/Groups.v.beautified Model/Groups.required_vo: Model/Groups.v 
Model/Groups.vio: Model/Groups.v 
Model/Groups.vos Model/Groups.vok Model/Groups.required_vos: Model/Groups.v 
Model/GoInt.vo Model/GoInt.glob Model/GoInt.v.beautified Model/GoInt.required_vo: Model/GoInt.v 
Model/GoInt.vio: Model/GoInt.v 
Model/GoInt.vos Model/GoInt.vok Model/GoInt.required_vos: Model/GoInt.v 
Model/F64.vo Model/F64.glob Model/F64.v.beautified Model/F64.required_vo: Model/F64.v Model/GoInt.vo
Model/F64.vio: Model/F64.v Model/GoInt.vio
Model/F64.vos Model/F64.vok Model/F64.required_vos: Model/F64.v Model/GoInt.vos
Model/Num.vo Model/Num.glob Model/Num.v.beautified Model/Num.required_vo: Model/Num.v Model/GoInt.vo Model/F64.vo
Model/Num.vio: Model/Num.v Model/GoInt.vio Model/F64.vio
Model/Num.vos Model/Num.vok Model/Num.required_vos: Model/Num.v Model/GoInt.vos Model/F64.vos
Gen/Arith_gen.vo Gen/Arith_gen.glob Gen/Arith_gen.v.beautified Gen/Arith_gen.required_vo: Gen/Arith_gen.v Model/GoInt.vo Model/F64.vo Model/Num.vo
Gen/Arith_gen.vio: Gen/Arith_gen.v Model/GoInt.vio Model/F64.vio Model/Num.vio
Gen/Arith_gen.vos Gen/Arith_gen.vok Gen/Arith_gen.required_vos: Gen/Arith_gen.v Model/GoInt.vos Model/F64.vos Model/Num.vos
Model/Eval.vo Model/Eval.glob Model/Eval.v.beautified Model/Eval.required_vo: Model/Eval.v Model/GoInt.vo Model/F64.vo Model/Num.vo Gen/Arith_gen.vo
Model/Eval.vio: Model/Eval.v Model/GoInt.vio Model/F64.vio Model/Num.vio Gen/Arith_gen.vio
Model/Eval.vos Model/Eval.vok Model/Eval.required_vos: Model/Eval.v Model/GoInt.vos Model/F64.vos Model/Num.vos Gen/Arith_gen.vos
Model/EvalCheck.vo Model/EvalCheck.glob Model/EvalCheck.v.beautified Model/EvalCheck.required_vo: Model/EvalCheck.v Model/GoInt.vo Model/F64.vo Model/Num.vo Gen/Arith_gen.vo Model/Eval.vo
Model/EvalCheck.vio: Model/EvalCheck.v Model/GoInt.vio Model/F64.vio Model/Num.vio Gen/Arith_gen.vio Model/Eval.vio
Model/EvalCheck.vos Model/EvalCheck.vok Model/EvalCheck.required_vos: Model/EvalCheck.v Model/GoInt.vos Model/F64.vos Model/Num.vos Gen/Arith_gen.vos Model/Eval.vos
Model/Machine.vo Model/Machine.glob Model/Machine.v.beautified Model/Machine.required_vo: Model/Machine.v Model/Term.vo Model/Unify.vo Model/Clause.vo Model/Order.vo Model/Groups.vo Model/GoInt.vo Model/F64.vo Model/Num.vo Gen/Arith_gen.vo Model/Eval.vo
Model/Machine.vio: Model/Machine.v Model/Term.vio Model/Unify.vio Model/Clause.vio Model/Order.vio Model/Groups.vio Model/GoInt.vio Model/F64.vio Model/Num.vio Gen/Arith_gen.vio Model/Eval.vio
Model/Machine.vos Model/Machine.vok Model/Machine.required_vos: Model/Machine.v Model/Term.vos Model/Unify.vos Model/Clause.vos Model/Order.vos Model/Groups.vos Model/GoInt.vos Model/F64.vos Model/Num.vos Gen/Arith_gen.vos Model/Eval.vos
Model/Sld.vo Model/Sld.glob Model/Sld.v.beautified Model/Sld.required_vo: Model/Sld.v Model/Term.vo Model/Unify.vo Model/Order.vo Model/Groups.vo Model/Clause.vo Model/GoInt.vo Model/F64.vo Model/Num.vo Gen/Arith_gen.vo Model/Eval.vo Model/Machine.vo
Model/Sld.vio: Model/Sld.v Model/Term.vio Model/Unify.vio Model/Order.vio Model/Groups.vio Model/Clause.vio Model/GoInt.vio Model/F64.vio Model/Num.vio Gen/Arith_gen.vio Model/Eval.vio Model/Machine.vio
Model/Sld.vos Model/Sld.vok Model/Sld.required_vos: Model/Sld.v Model/Term.vos Model/Unify.vos Model/Order.vos Model/Groups.vos Model/Clause.vos Model/GoInt.vos Model/F64.vos Model/Num.vos Gen/Arith_gen.vos Model/Eval.vos Model/Machine.vos
Gen/Bootstrap_gen.vo Gen/Bootstrap_gen.glob Gen/Bootstrap_gen.v.beautified Gen/Bootstrap_gen.required_vo: Gen/Bootstrap_gen.v Model/Term.vo
Gen/Bootstrap_gen.vio: Gen/Bootstrap_gen.v Model/Term.vio
Gen/Bootstrap_gen.vos Gen/Bootstrap_gen.vok Gen/Bootstrap_gen.required_vos: Gen/Bootstrap_gen.v Model/Term.vos
Model/Boot.vo Model/Boot.glob Model/Boot.v.beautified Model/Boot.required_vo: Model/Boot.v Model/Term.vo Model/Unify.vo Model/Clause.vo Model/Order.vo Model/GoInt.vo Model/F64.vo Model/Num.vo Gen/Arith_gen.vo Model/Eval.vo Model/Machine.vo Gen/Bootstrap_gen.vo
Model/Boot.vio: Model/Boot.v Model/Term.vio Model/Unify.vio Model/Clause.vio Model/Order.vio Model/GoInt.vio Model/F64.vio Model/Num.vio Gen/Arith_gen.vio Model/Eval.vio Model/Machine.vio Gen/Bootstrap_gen.vio
Model/Boot.vos Model/Boot.vok Model/Boot.required_vos: Model/Boot.v Model/Term.vos Model/Unify.vos Model/Clause.vos Model/Order.vos Model/GoInt.vos Model/F64.vos Model/Num.vos Gen/Arith_gen.vos Model/Eval.vos Model/Machine.vos Gen/Bootstrap_gen.vos
Model/OpTable.vo Model/OpTable.glob Model/OpTable.v.beautified Model/OpTable.required_vo: Model/OpTable.v 
Model/OpTable.vio: Model/OpTable.v 
Model/OpTable.vos Model/OpTable.vok Model/OpTable.required_vos: Model/OpTable.v 
Model/Scan.vo Model/Scan.glob Model/Scan.v.beautified Model/Scan.required_vo: Model/Scan.v 
Model/Scan.vio: Model/Scan.v 
Model/Scan.vos Model/Scan.vok Model/Scan.required_vos: Model/Scan.v 
Gen/Scan_gen.vo Gen/Scan_gen.glob Gen/Scan_gen.v.beautified Gen/Scan_gen.required_vo: Gen/Scan_gen.v Model/Scan.vo
Gen/Scan_gen.vio: Gen/Scan_gen.v Model/Scan.vio
Gen/Scan_gen.vos Gen/Scan_gen.vok Gen/Scan_gen.required_vos: Gen/Scan_gen.v Model/Scan.vos
Model/ScanCheck.vo Model/ScanCheck.glob Model/ScanCheck.v.beautified Model/ScanCheck.required_vo: Model/ScanCheck.v Model/Scan.vo Gen/Scan_gen.vo
Model/ScanCheck.vio: Model/ScanCheck.v Model/Scan.vio Gen/Scan_gen.vio
Model/ScanCheck.vos Model/ScanCheck.vok Model/ScanCheck.required_vos: Model/ScanCheck.v Model/Scan.vos Gen/Scan_gen.vos
Model/Solutions.vo Model/Solutions.glob Model/Solutions.v.beautified Model/Solutions.required_vo: Model/Solutions.v 
Model/Solutions.vio: Model/Solutions.v 
Model/Solutions.vos Model/Solutions.vok Model/Solutions.required_vos: Model/Solutions.v 
Model/SolutionsCheck.vo Model/SolutionsCheck.glob Model/SolutionsCheck.v.beautified Model/SolutionsCheck.required_vo: Model/SolutionsCheck.v Model/Solutions.vo
Model/SolutionsCheck.vio: Model/SolutionsCheck.v Model/Solutions.vio
Model/SolutionsCheck.vos Model/SolutionsCheck.vok Model/SolutionsCheck.required_vos: Model/SolutionsCheck.v Model/Solutions.vos
Model/OpCheck.vo Model/OpCheck.glob Model/OpCheck.v.beautified Model/OpCheck.required_vo: Model/OpCheck.v Model/Term.vo Model/OpTable.vo Gen/Bootstrap_gen.vo
Model/OpCheck.vio: Model/OpCheck.v Model/Term.vio Model/OpTable.vio Gen/Bootstrap_gen.vio
Model/OpCheck.vos Model/OpCheck.vok Model/OpCheck.required_vos: Model/OpCheck.v Model/Term.vos Model/OpTable.vos Gen/Bootstrap_gen.vos
Model/Rel.vo Model/Rel.glob Model/Rel.v.beautified Model/Rel.required_vo: Model/Rel.v Model/Term.vo Model/Unify.vo
Model/Rel.vio: Model/Rel.v Model/Term.vio Model/Unify.vio
Model/Rel.vos Model/Rel.vok Model/Rel.required_vos: Model/Rel.v Model/Term.vos Model/Unify.vos
Model/RelCheck.vo Model/RelCheck.glob Model/RelCheck.v.beautified Model/RelCheck.required_vo: Model/RelCheck.v Model/Term.vo Model/Unify.vo Model/TermCheck.vo Model/Rel.vo
Model/RelCheck.vio: Model/RelCheck.v Model/Term.vio Model/Unify.vio Model/TermCheck.vio Model/Rel.vio
Model/RelCheck.vos Model/RelCheck.vok Model/RelCheck.required_vos: Model/RelCheck.v Model/Term.vos Model/Unify.vos Model/TermCheck.vos Model/Rel.vos
Model/Stream.vo Model/Stream.glob Model/Stream.v.beautified Model/Stream.required_vo: Model/Stream.v 
Model/Stream.vio: Model/Stream.v 
Model/Stream.vos Model/Stream.vok Model/Stream.required_vos: Model/Stream.v 
Model/StreamCheck.vo Model/StreamCheck.glob Model/StreamCheck.v.beautified Model/StreamCheck.required_vo: Model/StreamCheck.v Model/Stream.vo
Model/StreamCheck.vio: Model/StreamCheck.v Model/Stream.vio
Model/StreamCheck.vos Model/StreamCheck.vok Model/StreamCheck.required_vos: Model/StreamCheck.v Model/Stream.vos
Model/Shared.vo Model/Shared.glob Model/Shared.v.beautified Model/Shared.required_vo: Model/Shared.v 
Model/Shared.vio: Model/Shared.v 
Model/Shared.vos Model/Shared.vok Model/Shared.required_vos: Model/Shared.v 
Gen/Shared_gen.vo Gen/Shared_gen.glob Gen/Shared_gen.v.beautified Gen/Shared_gen.required_vo: Gen/Shared_gen.v Model/Shared.vo
Gen/Shared_gen.vio: Gen/Shared_gen.v Model/Shared.vio
Gen/Shared_gen.vos Gen/Shared_gen.vok Gen/Shared_gen.required_vos: Gen/Shared_gen.v Model/Shared.vos
Model/SharedCheck.vo Model/SharedCheck.glob Model/SharedCheck.v.beautified Model/SharedCheck.required_vo: Model/SharedCheck.v Model/Shared.vo Gen/Shared_gen.vo
Model/SharedCheck.vio: Model/SharedCheck.v Model/Shared.vio Gen/Shared_gen.vio
Model/SharedCheck.vos Model/SharedCheck.vok Model/SharedCheck.required_vos: Model/SharedCheck.v Model/Shared.vos Gen/Shared_gen.vos
Model/Canon.vo Model/Canon.glob Model/Canon.v.beautified Model/Canon.required_vo: Model/Canon.v Model/Term.vo
Model/Canon.vio: Model/Canon.v Model/Term.vio
Model/Canon.vos Model/Canon.vok Model/Canon.required_vos: Model/Canon.v Model/Term.vos
Model/CanonLex.vo Model/CanonLex.glob Model/CanonLex.v.beautified Model/CanonLex.required_vo: Model/CanonLex.v Model/Term.vo Model/Canon.vo
Model/CanonLex.vio: Model/CanonLex.v Model/Term.vio Model/Canon.vio
Model/CanonLex.vos Model/CanonLex.vok Model/CanonLex.required_vos: Model/CanonLex.v Model/Term.vos Model/Canon.vos
Model/Quote.vo Model/Quote.glob Model/Quote.v.beautified Model/Quote.required_vo: Model/Quote.v 
Model/Quote.vio: Model/Quote.v 
Model/Quote.vos Model/Quote.vok Model/Quote.required_vos: Model/Quote.v 
Model/QuoteCheck.vo Model/QuoteCheck.glob Model/QuoteCheck.v.beautified Model/QuoteCheck.required_vo: Model/QuoteCheck.v Model/Quote.vo
Model/QuoteCheck.vio: Model/QuoteCheck.v Model/Quote.vio
Model/QuoteCheck.vos Model/QuoteCheck.vok Model/QuoteCheck.required_vos: Model/QuoteCheck.v Model/Quote.vos
Model/Loader.vo Model/Loader.glob Model/Loader.v.beautified Model/Loader.required_vo: Model/Loader.v 
Model/Loader.vio: Model/Loader.v 
Model/Loader.vos Model/Loader.vok Model/Loader.required_vos: Model/Loader.v 
Model/LoaderCheck.vo Model/LoaderCheck.glob Model/LoaderCheck.v.beautified Model/LoaderCheck.required_vo: Model/LoaderCheck.v Model/Loader.vo
Model/LoaderCheck.vio: Model/LoaderCheck.v Model/Loader.vio
Model/LoaderCheck.vos Model/LoaderCheck.vok Model/LoaderCheck.required_vos: Model/LoaderCheck.v Model/Loader.vos
Model/MachineCheck.vo Model/MachineCheck.glob Model/MachineCheck.v.beautified Model/MachineCheck.required_vo: Model/MachineCheck.v Model/Term.vo Model/Unify.vo Model/Clause.vo Model/Machine.vo Model/Boot.vo Model/Sld.vo Gen/Bootstrap_gen.vo
Model/MachineCheck.vio: Model/MachineCheck.v Model/Term.vio Model/Unify.vio Model/Clause.vio Model/Machine.vio Model/Boot.vio Model/Sld.vio Gen/Bootstrap_gen.vio
Model/MachineCheck.vos Model/MachineCheck.vok Model/MachineCheck.required_vos: Model/MachineCheck.v Model/Term.vos Model/Unify.vos Model/Clause.vos Model/Machine.vos Model/Boot.vos Model/Sld.vos Gen/Bootstrap_gen.vos
Model/Dcg.vo Model/Dcg.glob Model/Dcg.v.beautified Model/Dcg.required_vo: Model/Dcg.v Model/Term.vo
Model/Dcg.vio: Model/Dcg.v Model/Term.vio
Model/Dcg.vos Model/Dcg.vok Model/Dcg.required_vos: Model/Dcg.v Model/Term.vos
Model/DcgCore.vo Model/DcgCore.glob Model/DcgCore.v.beautified Model/DcgCore.required_vo: Model/DcgCore.v 
Model/DcgCore.vio: Model/DcgCore.v 
Model/DcgCore.vos Model/DcgCore.vok Model/DcgCore.required_vos: Model/DcgCore.v 
Model/DcgCheck.vo Model/DcgCheck.glob Model/DcgCheck.v.beautified Model/DcgCheck.required_vo: Model/DcgCheck.v Model/Term.vo Model/Unify.vo Model/Machine.vo Model/Sld.vo Model/Boot.vo Model/Dcg.vo Model/MachineCheck.vo
Model/DcgCheck.vio: Model/DcgCheck.v Model/Term.vio Model/Unify.vio Model/Machine.vio Model/Sld.vio Model/Boot.vio Model/Dcg.vio Model/MachineCheck.vio
Model/DcgCheck.vos Model/DcgCheck.vok Model/DcgCheck.required_vos: Model/DcgCheck.v Model/Term.vos Model/Unify.vos Model/Machine.vos Model/Sld.vos Model/Boot.vos Model/Dcg.vos Model/MachineCheck.vos
Proofs/ArithInt.vo Proofs/ArithInt.glob Proofs/ArithInt.v.beautified Proofs/ArithInt.required_vo: Proofs/ArithInt.v Model/GoInt.vo Model/F64.vo Model/Num.vo Gen/Arith_gen.vo
Proofs/ArithInt.vio: Proofs/ArithInt.v Model/GoInt.vio Model/F64.vio Model/Num.vio Gen/Arith_gen.vio
Proofs/ArithInt.vos Proofs/ArithInt.vok Proofs/ArithInt.required_vos: Proofs/ArithInt.v Model/GoInt.vos Model/F64.vos Model/Num.vos Gen/Arith_gen.vos
Proofs/FloatKernels.vo Proofs/FloatKernels.glob Proofs/FloatKernels.v.beautified Proofs/FloatKernels.required_vo: Proofs/FloatKernels.v Model/GoInt.vo Model/F64.vo Model/Num.vo Gen/Arith_gen.vo
Proofs/FloatKernels.vio: Proofs/FloatKernels.v Model/GoInt.vio Model/F64.vio Model/Num.vio Gen/Arith_gen.vio
Proofs/FloatKernels.vos Proofs/FloatKernels.vok Proofs/FloatKernels.required_vos: Proofs/FloatKernels.v Model/GoInt.vos Model/F64.vos Model/Num.vos Gen/Arith_gen.vos
Proofs/FloatToInt.vo Proofs/FloatToInt.glob Proofs/FloatToInt.v.beautified Proofs/FloatToInt.required_vo: Proofs/FloatToInt.v Model/GoInt.vo Model/F64.vo Model/Num.vo Gen/Arith_gen.vo
Proofs/FloatToInt.vio: Proofs/FloatToInt.v Model/GoInt.vio Model/F64.vio Model/Num.vio Gen/Arith_gen.vio
Proofs/FloatToInt.vos Proofs/FloatToInt.vok Proofs/FloatToInt.required_vos: Proofs/FloatToInt.v Model/GoInt.vos Model/F64.vos Model/Num.vos Gen/Arith_gen.vos
Proofs/FloatCompare.vo Proofs/FloatCompare.glob Proofs/FloatCompare.v.beautified Proofs/FloatCompare.required_vo: Proofs/FloatCompare.v Model/GoInt.vo Model/F64.vo Model/Num.vo Gen/Arith_gen.vo Proofs/FloatToInt.vo
Proofs/FloatCompare.vio: Proofs/FloatCompare.v Model/GoInt.vio Model/F64.vio Model/Num.vio Gen/Arith_gen.vio Proofs/FloatToInt.vio
Proofs/FloatCompare.vos Proofs/FloatCompare.vok Proofs/FloatCompare.required_vos: Proofs/FloatCompare.v Model/GoInt.vos Model/F64.vos Model/Num.vos Gen/Arith_gen.vos Proofs/FloatToInt.vos
Proofs/FloatIntPart.vo Proofs/FloatIntPart.glob Proofs/FloatIntPart.v.beautified Proofs/FloatIntPart.required_vo: Proofs/FloatIntPart.v Model/GoInt.vo Model/F64.vo Model/Num.vo Gen/Arith_gen.vo Proofs/FloatToInt.vo Proofs/FloatCompare.vo
Proofs/FloatIntPart.vio: Proofs/FloatIntPart.v Model/GoInt.vio Model/F64.vio Model/Num.vio Gen/Arith_gen.vio Proofs/FloatToInt.vio Proofs/FloatCompare.vio
Proofs/FloatIntPart.vos Proofs/FloatIntPart.vok Proofs/FloatIntPart.required_vos: Proofs/FloatIntPart.v Model/GoInt.vos Model/F64.vos Model/Num.vos Gen/Arith_gen.vos Proofs/FloatToInt.vos Proofs/FloatCompare.vos
Props/C07.vo Props/C07.glob Props/C07.v.beautified Props/C07.required_vo: Props/C07.v Model/GoInt.vo Model/F64.vo Model/Num.vo Gen/Arith_gen.vo Proofs/ArithInt.vo Proofs/FloatKernels.vo Proofs/FloatToInt.vo Proofs/FloatCompare.vo Proofs/FloatIntPart.vo
Props/C07.vio: Props/C07.v Model/GoInt.vio Model/F64.vio Model/Num.vio Gen/Arith_gen.vio Proofs/ArithInt.vio Proofs/FloatKernels.vio Proofs/FloatToInt.vio Proofs/FloatCompare.vio Proofs/FloatIntPart.vio
Props/C07.vos Props/C07.vok Props/C07.required_vos: Props/C07.v Model/GoInt.vos Model/F64.vos Model/Num.vos Gen/Arith_gen.vos Proofs/ArithInt.vos Proofs/FloatKernels.vos Proofs/FloatToInt.vos Proofs/FloatCompare.vos Proofs/FloatIntPart.vos
Proofs/Promise.vo Proofs/Promise.glob Proofs/Promise.v.beautified Proofs/Promise.required_vo: Proofs/Promise.v Model/Term.vo Model/Unify.vo Model/Clause.vo Model/Machine.vo
Proofs/Promise.vio: Proofs/Promise.v Model/Term.vio Model/Unify.vio Model/Clause.vio Model/Machine.vio
Proofs/Promise.vos Proofs/Promise.vok Proofs/Promise.required_vos: Proofs/Promise.v Model/Term.vos Model/Unify.vos Model/Clause.vos Model/Machine.vos
Proofs/Trampoline.vo Proofs/Trampoline.glob Proofs/Trampoline.v.beautified Proofs/Trampoline.required_vo: Proofs/Trampoline.v Model/Term.vo Model/Unify.vo Model/Clause.vo Model/Machine.vo Proofs/Promise.vo
Proofs/Trampoline.vio: Proofs/Trampoline.v Model/Term.vio Model/Unify.vio Model/Clause.vio Model/Machine.vio Proofs/Promise.vio
Proofs/Trampoline.vos Proofs/Trampoline.vok Proofs/Trampoline.required_vos: Proofs/Trampoline.v Model/Term.vos Model/Unify.vos Model/Clause.vos Model/Machine.vos Proofs/Promise.vos
Proofs/FuelMono.vo Proofs/FuelMono.glob Proofs/FuelMono.v.beautified Proofs/FuelMono.required_vo: Proofs/FuelMono.v Model/Term.vo Model/Unify.vo Model/Clause.vo Model/Machine.vo
Proofs/FuelMono.vio: Proofs/FuelMono.v Model/Term.vio Model/Unify.vio Model/Clause.vio Model/Machine.vio
Proofs/FuelMono.vos Proofs/FuelMono.vok Proofs/FuelMono.required_vos: Proofs/FuelMono.v Model/Term.vos Model/Unify.vos Model/Clause.vos Model/Machine.vos
Proofs/ForceComplete.vo Proofs/ForceComplete.glob Proofs/ForceComplete.v.beautified Proofs/ForceComplete.required_vo: Proofs/ForceComplete.v Model/Term.vo Model/Unify.vo Model/Clause.vo Model/Machine.vo Proofs/Promise.vo Proofs/Trampoline.vo Proofs/FuelMono.vo
Proofs/ForceComplete.vio: Proofs/ForceComplete.v Model/Term.vio Model/Unify.vio Model/Clause.vio Model/Machine.vio Proofs/Promise.vio Proofs/Trampoline.vio Proofs/FuelMono.vio
Proofs/ForceComplete.vos Proofs/ForceComplete.vok Proofs/ForceComplete.required_vos: Proofs/ForceComplete.v Model/Term.vos Model/Unify.vos Model/Clause.vos Model/Machine.vos Proofs/Promise.vos Proofs/Trampoline.vos Proofs/FuelMono.vos
Props/C01.vo Props/C01.glob Props/C01.v.beautified Props/C01.required_vo: Props/C01.v Model/Term.vo Model/Unify.vo Model/Clause.vo Model/Machine.vo Proofs/Promise.vo Proofs/Trampoline.vo Proofs/FuelMono.vo Proofs/ForceComplete.vo
Props/C01.vio: Props/C01.v Model/Term.vio Model/Unify.vio Model/Clause.vio Model/Machine.vio Proofs/Promise.vio Proofs/Trampoline.vio Proofs/FuelMono.vio Proofs/ForceComplete.vio
Props/C01.vos Props/C01.vok Props/C01.required_vos: Props/C01.v Model/Term.vos Model/Unify.vos Model/Clause.vos Model/Machine.vos Proofs/Promise.vos Proofs/Trampoline.vos Proofs/FuelMono.vos Proofs/ForceComplete.vos
Props/C03.vo Props/C03.glob Props/C03.v.beautified Props/C03.required_vo: Props/C03.v Model/Term.vo Model/Unify.vo Model/Clause.vo Model/Machine.vo Proofs/Promise.vo Proofs/Trampoline.vo Model/Boot.vo Proofs/FuelMono.vo Proofs/ForceComplete.vo
Props/C03.vio: Props/C03.v Model/Term.vio Model/Unify.vio Model/Clause.vio Model/Machine.vio Proofs/Promise.vio Proofs/Trampoline.vio Model/Boot.vio Proofs/FuelMono.vio Proofs/ForceComplete.vio
Props/C03.vos Props/C03.vok Props/C03.required_vos: Props/C03.v Model/Term.vos Model/Unify.vos Model/Clause.vos Model/Machine.vos Proofs/Promise.vos Proofs/Trampoline.vos Model/Boot.vos Proofs/FuelMono.vos Proofs/ForceComplete.vos
Props/C04.vo Props/C04.glob Props/C04.v.beautified Props/C04.required_vo: Props/C04.v Model/Term.vo Model/Unify.vo Model/Clause.vo Model/Machine.vo Proofs/Promise.vo Proofs/Trampoline.vo Model/Boot.vo Proofs/FuelMono.vo Proofs/ForceComplete.vo
Props/C04.vio: Props/C04.v Model/Term.vio Model/Unify.vio Model/Clause.vio Model/Machine.vio Proofs/Promise.vio Proofs/Trampoline.vio Model/Boot.vio Proofs/FuelMono.vio Proofs/ForceComplete.vio
Props/C04.vos Props/C04.vok Props/C04.required_vos: Props/C04.v Model/Term.vos Model/Unify.vos Model/Clause.vos Model/Machine.vos Proofs/Promise.vos Proofs/Trampoline.vos Model/Boot.vos Proofs/FuelMono.vos Proofs/ForceComplete.vos
Proofs/Groups.vo Proofs/Groups.glob Proofs/Groups.v.beautified Proofs/Groups.required_vo: Proofs/Groups.v Model/Groups.vo
Proofs/Groups.vio: Proofs/Groups.v Model/Groups.vio
Proofs/Groups.vos Proofs/Groups.vok Proofs/Groups.required_vos: Proofs/Groups.v Model/Groups.vos
Props/C11.vo Props/C11.glob Props/C11.v.beautified Props/C11.required_vo: Props/C11.v Model/Groups.vo Proofs/Groups.vo Model/Term.vo Model/Machine.vo Model/Boot.vo
Props/C11.vio: Props/C11.v Model/Groups.vio Proofs/Groups.vio Model/Term.vio Model/Machine.vio Model/Boot.vio
Props/C11.vos Props/C11.vok Props/C11.required_vos: Props/C11.v Model/Groups.vos Proofs/Groups.vos Model/Term.vos Model/Machine.vos Model/Boot.vos
Proofs/Db.vo Proofs/Db.glob Proofs/Db.v.beautified Proofs/Db.required_vo: Proofs/Db.v Model/Term.vo Model/Unify.vo Model/Clause.vo Model/Machine.vo
Proofs/Db.vio: Proofs/Db.v Model/Term.vio Model/Unify.vio Model/Clause.vio Model/Machine.vio
Proofs/Db.vos Proofs/Db.vok Proofs/Db.required_vos: Proofs/Db.v Model/Term.vos Model/Unify.vos Model/Clause.vos Model/Machine.vos
Proofs/Compile.vo Proofs/Compile.glob Proofs/Compile.v.beautified Proofs/Compile.required_vo: Proofs/Compile.v Model/Term.vo Model/Unify.vo Model/Clause.vo
Proofs/Compile.vio: Proofs/Compile.v Model/Term.vio Model/Unify.vio Model/Clause.vio
Proofs/Compile.vos Proofs/Compile.vok Proofs/Compile.required_vos: Proofs/Compile.v Model/Term.vos Model/Unify.vos Model/Clause.vos
Proofs/HeadExec.vo Proofs/HeadExec.glob Proofs/HeadExec.v.beautified Proofs/HeadExec.required_vo: Proofs/HeadExec.v Model/Term.vo Model/Unify.vo Model/Clause.vo Model/Machine.vo Proofs/Unify.vo Proofs/UnifySound.vo Proofs/Compile.vo
Proofs/HeadExec.vio: Proofs/HeadExec.v Model/Term.vio Model/Unify.vio Model/Clause.vio Model/Machine.vio Proofs/Unify.vio Proofs/UnifySound.vio Proofs/Compile.vio
Proofs/HeadExec.vos Proofs/HeadExec.vok Proofs/HeadExec.required_vos: Proofs/HeadExec.v Model/Term.vos Model/Unify.vos Model/Clause.vos Model/Machine.vos Proofs/Unify.vos Proofs/UnifySound.vos Proofs/Compile.vos
Props/C09.vo Props/C09.glob Props/C09.v.beautified Props/C09.required_vo: Props/C09.v Model/Term.vo Model/Unify.vo Model/Clause.vo Model/Machine.vo Proofs/Db.vo Model/Boot.vo
Props/C09.vio: Props/C09.v Model/Term.vio Model/Unify.vio Model/Clause.vio Model/Machine.vio Proofs/Db.vio Model/Boot.vio
Props/C09.vos Props/C09.vok Props/C09.required_vos: Props/C09.v Model/Term.vos Model/Unify.vos Model/Clause.vos Model/Machine.vos Proofs/Db.vos Model/Boot.vos
Props/C10.vo Props/C10.glob Props/C10.v.beautified Props/C10.required_vo: Props/C10.v Model/Term.vo Model/Unify.vo Model/Clause.vo Model/Machine.vo Proofs/Compile.vo Proofs/Unify.vo Proofs/HeadExec.vo
Props/C10.vio: Props/C10.v Model/Term.vio Model/Unify.vio Model/Clause.vio Model/Machine.vio Proofs/Compile.vio Proofs/Unify.vio Proofs/HeadExec.vio
Props/C10.vos Props/C10.vok Props/C10.required_vos: Props/C10.v Model/Term.vos Model/Unify.vos Model/Clause.vos Model/Machine.vos Proofs/Compile.vos Proofs/Unify.vos Proofs/HeadExec.vos
Proofs/Cancel.vo Proofs/Cancel.glob Proofs/Cancel.v.beautified Proofs/Cancel.required_vo: Proofs/Cancel.v Model/Term.vo Model/Unify.vo Model/Clause.vo Model/Machine.vo Proofs/Promise.vo Proofs/Trampoline.vo
Proofs/Cancel.vio: Proofs/Cancel.v Model/Term.vio Model/Unify.vio Model/Clause.vio Model/Machine.vio Proofs/Promise.vio Proofs/Trampoline.vio
Proofs/Cancel.vos Proofs/Cancel.vok Proofs/Cancel.required_vos: Proofs/Cancel.v Model/Term.vos Model/Unify.vos Model/Clause.vos Model/Machine.vos Proofs/Promise.vos Proofs/Trampoline.vos
Props/C13.vo Props/C13.glob Props/C13.v.beautified Props/C13.required_vo: Props/C13.v Model/Term.vo Model/Unify.vo Model/Clause.vo Model/Machine.vo Proofs/Promise.vo Proofs/Trampoline.vo Proofs/Cancel.vo Model/Boot.vo Model/MachineCheck.vo
Props/C13.vio: Props/C13.v Model/Term.vio Model/Unify.vio Model/Clause.vio Model/Machine.vio Proofs/Promise.vio Proofs/Trampoline.vio Proofs/Cancel.vio Model/Boot.vio Model/MachineCheck.vio
Props/C13.vos Props/C13.vok Props/C13.required_vos: Props/C13.v Model/Term.vos Model/Unify.vos Model/Clause.vos Model/Machine.vos Proofs/Promise.vos Proofs/Trampoline.vos Proofs/Cancel.vos Model/Boot.vos Model/MachineCheck.vos
Proofs/Unify.vo Proofs/Unify.glob Proofs/Unify.v.beautified Proofs/Unify.required_vo: Proofs/Unify.v Model/Term.vo Model/Unify.vo
Proofs/Unify.vio: Proofs/Unify.v Model/Term.vio Model/Unify.vio
Proofs/Unify.vos Proofs/Unify.vok Proofs/Unify.required_vos: Proofs/Unify.v Model/Term.vos Model/Unify.vos
Proofs/UnifySound.vo Proofs/UnifySound.glob Proofs/UnifySound.v.beautified Proofs/UnifySound.required_vo: Proofs/UnifySound.v Model/Term.vo Model/Unify.vo Proofs/Unify.vo
Proofs/UnifySound.vio: Proofs/UnifySound.v Model/Term.vio Model/Unify.vio Proofs/Unify.vio
Proofs/UnifySound.vos Proofs/UnifySound.vok Proofs/UnifySound.required_vos: Proofs/UnifySound.v Model/Term.vos Model/Unify.vos Proofs/Unify.vos
Props/C02.vo Props/C02.glob Props/C02.v.beautified Props/C02.required_vo: Props/C02.v Model/Term.vo Model/Unify.vo Proofs/Unify.vo Proofs/UnifySound.vo Model/Clause.vo Proofs/HeadExec.vo
Props/C02.vio: Props/C02.v Model/Term.vio Model/Unify.vio Proofs/Unify.vio Proofs/UnifySound.vio Model/Clause.vio Proofs/HeadExec.vio
Props/C02.vos Props/C02.vok Props/C02.required_vos: Props/C02.v Model/Term.vos Model/Unify.vos Proofs/Unify.vos Proofs/UnifySound.vos Model/Clause.vos Proofs/HeadExec.vos
Proofs/Order.vo Proofs/Order.glob Proofs/Order.v.beautified Proofs/Order.required_vo: Proofs/Order.v Model/Term.vo Model/Unify.vo Model/Order.vo
Proofs/Order.vio: Proofs/Order.v Model/Term.vio Model/Unify.vio Model/Order.vio
Proofs/Order.vos Proofs/Order.vok Proofs/Order.required_vos: Proofs/Order.v Model/Term.vos Model/Unify.vos Model/Order.vos
Props/C08.vo Props/C08.glob Props/C08.v.beautified Props/C08.required_vo: Props/C08.v Model/Term.vo Model/Unify.vo Model/Order.vo Proofs/Order.vo
Props/C08.vio: Props/C08.v Model/Term.vio Model/Unify.vio Model/Order.vio Proofs/Order.vio
Props/C08.vos Props/C08.vok Props/C08.required_vos: Props/C08.v Model/Term.vos Model/Unify.vos Model/Order.vos Proofs/Order.vos
Proofs/OpTable.vo Proofs/OpTable.glob Proofs/OpTable.v.beautified Proofs/OpTable.required_vo: Proofs/OpTable.v Model/OpTable.vo
Proofs/OpTable.vio: Proofs/OpTable.v Model/OpTable.vio
Proofs/OpTable.vos Proofs/OpTable.vok Proofs/OpTable.required_vos: Proofs/OpTable.v Model/OpTable.vos
Props/C18.vo Props/C18.glob Props/C18.v.beautified Props/C18.required_vo: Props/C18.v Model/OpTable.vo Proofs/OpTable.vo Model/OpCheck.vo
Props/C18.vio: Props/C18.v Model/OpTable.vio Proofs/OpTable.vio Model/OpCheck.vio
Props/C18.vos Props/C18.vok Props/C18.required_vos: Props/C18.v Model/OpTable.vos Proofs/OpTable.vos Model/OpCheck.vos
Proofs/Solutions.vo Proofs/Solutions.glob Proofs/Solutions.v.beautified Proofs/Solutions.required_vo: Proofs/Solutions.v Model/Solutions.vo
Proofs/Solutions.vio: Proofs/Solutions.v Model/Solutions.vio
Proofs/Solutions.vos Proofs/Solutions.vok Proofs/Solutions.required_vos: Proofs/Solutions.v Model/Solutions.vos
Props/C12.vo Props/C12.glob Props/C12.v.beautified Props/C12.required_vo: Props/C12.v Model/Solutions.vo Proofs/Solutions.vo
Props/C12.vio: Props/C12.v Model/Solutions.vio Proofs/Solutions.vio
Props/C12.vos Props/C12.vok Props/C12.required_vos: Props/C12.v Model/Solutions.vos Proofs/Solutions.vos
Proofs/Scan.vo Proofs/Scan.glob Proofs/Scan.v.beautified Proofs/Scan.required_vo: Proofs/Scan.v Model/Scan.vo Gen/Scan_gen.vo
Proofs/Scan.vio: Proofs/Scan.v Model/Scan.vio Gen/Scan_gen.vio
Proofs/Scan.vos Proofs/Scan.vok Proofs/Scan.required_vos: Proofs/Scan.v Model/Scan.vos Gen/Scan_gen.vos
Props/C15.vo Props/C15.glob Props/C15.v.beautified Props/C15.required_vo: Props/C15.v Model/Scan.vo Gen/Scan_gen.vo Proofs/Scan.vo
Props/C15.vio: Props/C15.v Model/Scan.vio Gen/Scan_gen.vio Proofs/Scan.vio
Props/C15.vos Props/C15.vok Props/C15.required_vos: Props/C15.v Model/Scan.vos Gen/Scan_gen.vos Proofs/Scan.vos
Proofs/Loader.vo Proofs/Loader.glob Proofs/Loader.v.beautified Proofs/Loader.required_vo: Proofs/Loader.v Model/Loader.vo
Proofs/Loader.vio: Proofs/Loader.v Model/Loader.vio
Proofs/Loader.vos Proofs/Loader.vok Proofs/Loader.required_vos: Proofs/Loader.v Model/Loader.vos
Props/C20.vo Props/C20.glob Props/C20.v.beautified Props/C20.required_vo: Props/C20.v Model/Loader.vo Proofs/Loader.vo
Props/C20.vio: Props/C20.v Model/Loader.vio Proofs/Loader.vio
Props/C20.vos Props/C20.vok Props/C20.required_vos: Props/C20.v Model/Loader.vos Proofs/Loader.vos
Proofs/Rel.vo Proofs/Rel.glob Proofs/Rel.v.beautified Proofs/Rel.required_vo: Proofs/Rel.v Model/Term.vo Model/Unify.vo Model/Rel.vo Proofs/Unify.vo Proofs/UnifySound.vo
Proofs/Rel.vio: Proofs/Rel.v Model/Term.vio Model/Unify.vio Model/Rel.vio Proofs/Unify.vio Proofs/UnifySound.vio
Proofs/Rel.vos Proofs/Rel.vok Proofs/Rel.required_vos: Proofs/Rel.v Model/Term.vos Model/Unify.vos Model/Rel.vos Proofs/Unify.vos Proofs/UnifySound.vos
Props/C16.vo Props/C16.glob Props/C16.v.beautified Props/C16.required_vo: Props/C16.v Model/Term.vo Model/Unify.vo Model/Rel.vo Proofs/Unify.vo Proofs/Rel.vo
Props/C16.vio: Props/C16.v Model/Term.vio Model/Unify.vio Model/Rel.vio Proofs/Unify.vio Proofs/Rel.vio
Props/C16.vos Props/C16.vok Props/C16.required_vos: Props/C16.v Model/Term.vos Model/Unify.vos Model/Rel.vos Proofs/Unify.vos Proofs/Rel.vos
Proofs/Stream.vo Proofs/Stream.glob Proofs/Stream.v.beautified Proofs/Stream.required_vo: Proofs/Stream.v Model/Stream.vo
Proofs/Stream.vio: Proofs/Stream.v Model/Stream.vio
Proofs/Stream.vos Proofs/Stream.vok Proofs/Stream.required_vos: Proofs/Stream.v Model/Stream.vos
Props/C19.vo Props/C19.glob Props/C19.v.beautified Props/C19.required_vo: Props/C19.v Model/Stream.vo Proofs/Stream.vo
Props/C19.vio: Props/C19.v Model/Stream.vio Proofs/Stream.vio
Props/C19.vos Props/C19.vok Props/C19.required_vos: Props/C19.v Model/Stream.vos Proofs/Stream.vos
Proofs/Dcg.vo Proofs/Dcg.glob Proofs/Dcg.v.beautified Proofs/Dcg.required_vo: Proofs/Dcg.v Model/DcgCore.vo Model/Term.vo Model/Dcg.vo
Proofs/Dcg.vio: Proofs/Dcg.v Model/DcgCore.vio Model/Term.vio Model/Dcg.vio
Proofs/Dcg.vos Proofs/Dcg.vok Proofs/Dcg.required_vos: Proofs/Dcg.v Model/DcgCore.vos Model/Term.vos Model/Dcg.vos
Props/C17.vo Props/C17.glob Props/C17.v.beautified Props/C17.required_vo: Props/C17.v Model/DcgCore.vo Model/Term.vo Model/Dcg.vo Proofs/Dcg.vo
Props/C17.vio: Props/C17.v Model/DcgCore.vio Model/Term.vio Model/Dcg.vio Proofs/Dcg.vio
Props/C17.vos Props/C17.vok Props/C17.required_vos: Props/C17.v Model/DcgCore.vos Model/Term.vos Model/Dcg.vos Proofs/Dcg.vos
Proofs/Atoms.vo Proofs/Atoms.glob Proofs/Atoms.v.beautified Proofs/Atoms.required_vo: Proofs/Atoms.v Model/Shared.vo
Proofs/Atoms.vio: Proofs/Atoms.v Model/Shared.vio
Proofs/Atoms.vos Proofs/Atoms.vok Proofs/Atoms.required_vos: Proofs/Atoms.v Model/Shared.vos
Props/C14.vo Props/C14.glob Props/C14.v.beautified Props/C14.required_vo: Props/C14.v Model/Shared.vo Gen/Shared_gen.vo Proofs/Atoms.vo
Props/C14.vio: Props/C14.v Model/Shared.vio Gen/Shared_gen.vio Proofs/Atoms.vio
Props/C14.vos Props/C14.vok Props/C14.required_vos: Props/C14.v Model/Shared.vos Gen/Shared_gen.vos Proofs/Atoms.vos
Proofs/NoPanic.vo Proofs/NoPanic.glob Proofs/NoPanic.v.beautified Proofs/NoPanic.required_vo: Proofs/NoPanic.v Model/GoInt.vo Model/F64.vo Model/Num.vo Gen/Arith_gen.vo Model/Eval.vo Proofs/ArithInt.vo
Proofs/NoPanic.vio: Proofs/NoPanic.v Model/GoInt.vio Model/F64.vio Model/Num.vio Gen/Arith_gen.vio Model/Eval.vio Proofs/ArithInt.vio
Proofs/NoPanic.vos Proofs/NoPanic.vok Proofs/NoPanic.required_vos: Proofs/NoPanic.v Model/GoInt.vos Model/F64.vos Model/Num.vos Gen/Arith_gen.vos Model/Eval.vos Proofs/ArithInt.vos
Props/C05.vo Props/C05.glob Props/C05.v.beautified Props/C05.required_vo: Props/C05.v Model/GoInt.vo Model/F64.vo Model/Num.vo Gen/Arith_gen.vo Model/Eval.vo Model/Term.vo Model/Machine.vo Proofs/ArithInt.vo Proofs/NoPanic.vo
Props/C05.vio: Props/C05.v Model/GoInt.vio Model/F64.vio Model/Num.vio Gen/Arith_gen.vio Model/Eval.vio Model/Term.vio Model/Machine.vio Proofs/ArithInt.vio Proofs/NoPanic.vio
Props/C05.vos Props/C05.vok Props/C05.required_vos: Props/C05.v Model/GoInt.vos Model/F64.vos Model/Num.vos Gen/Arith_gen.vos Model/Eval.vos Model/Term.vos Model/Machine.vos Proofs/ArithInt.vos Proofs/NoPanic.vos
Proofs/Canon.vo Proofs/Canon.glob Proofs/Canon.v.beautified Proofs/Canon.required_vo: Proofs/Canon.v Model/Term.vo Model/Canon.vo
Proofs/Canon.vio: Proofs/Canon.v Model/Term.vio Model/Canon.vio
Proofs/Canon.vos Proofs/Canon.vok Proofs/Canon.required_vos: Proofs/Canon.v Model/Term.vos Model/Canon.vos
Proofs/CanonLex.vo Proofs/CanonLex.glob Proofs/CanonLex.v.beautified Proofs/CanonLex.required_vo: Proofs/CanonLex.v Model/Term.vo Model/Canon.vo Model/CanonLex.vo Proofs/Canon.vo
Proofs/CanonLex.vio: Proofs/CanonLex.v Model/Term.vio Model/Canon.vio Model/CanonLex.vio Proofs/Canon.vio
Proofs/CanonLex.vos Proofs/CanonLex.vok Proofs/CanonLex.required_vos: Proofs/CanonLex.v Model/Term.vos Model/Canon.vos Model/CanonLex.vos Proofs/Canon.vos
Proofs/Quote.vo Proofs/Quote.glob Proofs/Quote.v.beautified Proofs/Quote.required_vo: Proofs/Quote.v Model/Quote.vo
Proofs/Quote.vio: Proofs/Quote.v Model/Quote.vio
Proofs/Quote.vos Proofs/Quote.vok Proofs/Quote.required_vos: Proofs/Quote.v Model/Quote.vos
Props/C06.vo Props/C06.glob Props/C06.v.beautified Props/C06.required_vo: Props/C06.v Model/Term.vo Model/Canon.vo Proofs/Canon.vo Model/Quote.vo Proofs/Quote.vo Model/CanonLex.vo Proofs/CanonLex.vo
Props/C06.vio: Props/C06.v Model/Term.vio Model/Canon.vio Proofs/Canon.vio Model/Quote.vio Proofs/Quote.vio Model/CanonLex.vio Proofs/CanonLex.vio
Props/C06.vos Props/C06.vok Props/C06.required_vos: Props/C06.v Model/Term.vos Model/Canon.vos Proofs/Canon.vos Model/Quote.vos Proofs/Quote.vos Model/CanonLex.vos Proofs/CanonLex.vos
