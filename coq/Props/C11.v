(** C11 -- findall/bagof/setof collect exactly the solutions, grouped by witness.
    Property theorems only.  [group_with] is the grouping function that both the
    machine model (with engine/builtin.go's variant test) and the reference
    semantics (with true variance) use; the theorems hold for any such test. *)
From Coq Require Import List Bool Permutation.
From PV Require Import Model.Groups Proofs.Groups.
Import ListNotations.

Section C11.
  Context {W T : Type}.
  Variable same : W -> W -> bool.

  (** the groups together contain every solution exactly once *)
  Theorem C11_groups_partition :
    forall fuel (pairs : list (W * T)), length pairs < fuel ->
      Permutation (concat (map (@snd (list W) (list T)) (group_with same fuel pairs))) (map (@snd W T) pairs).
  Proof. exact (groups_partition same). Qed.

  (** in solution order inside each group (bagof) *)
  Theorem C11_groups_keep_order :
    forall fuel (pairs : list (W * T)),
      Forall (fun g : list W * list T => subseq (snd g) (map snd pairs)) (group_with same fuel pairs).
  Proof. exact (groups_keep_order same). Qed.

  (** every member of a group has the witness of the group's first solution *)
  Theorem C11_groups_same_witness :
    forall fuel (pairs : list (W * T)),
      Forall (fun g : list W * list T => match fst g with [] => False | w :: ws => Forall (fun w' => same w' w = true) ws end)
             (group_with same fuel pairs).
  Proof. exact (groups_same_witness same). Qed.

  (** and no later group starts with a solution that has an earlier group's witness *)
  Theorem C11_groups_distinct :
    forall fuel (pairs : list (W * T)) w ws ts later,
      group_with same fuel pairs = (w :: ws, ts) :: later ->
      Forall (fun g : list W * list T => match fst g with [] => True | w2 :: _ => same w2 w = false end) later.
  Proof. exact (groups_distinct same). Qed.
End C11.
Print Assumptions C11_groups_partition.
Print Assumptions C11_groups_keep_order.
Print Assumptions C11_groups_same_witness.
Print Assumptions C11_groups_distinct.

(** non-vacuity, on the machine model: p(1,Z,Z). p(2,X,Y). ?- bagof(T,p(T,A,B),L).
    has two groups (F10, repaired) *)
From Coq Require Import ZArith String.
From PV Require Import Model.Term Model.Machine Model.Boot.
Open Scope Z_scope. Open Scope string_scope.
Example C11_variant_groups :
  List.length (fst (run 4000 (program_db [Cmp "p" [Int 1; Var 0; Var 0]; Cmp "p" [Int 2; Var 0; Var 1]])
                        (Cmp "bagof" [Var 0; Cmp "p" [Var 0; Var 1; Var 2]; Var 3]) [3] 10)) = 2%nat.
Proof. vm_compute. reflexivity. Qed.
