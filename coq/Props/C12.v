(** C12 -- the Solutions iterator never blocks, counts answers exactly and stops on Close.
    Property theorems only, over the handshake model Model/Solutions.v.
    Partial: the Go scheduler, the memory model and the termination of the
    goroutine are not in the model ("run to block" is trusted); they are
    observed by the harness (watchdogs, goroutine counts). *)
From Coq Require Import Bool List String.
From PV Require Import Model.Solutions Proofs.Solutions.
Import ListNotations.

(** For every query (k answers then end or error, or answers for ever) and every
    sequence of Next/Scan/Err/Close calls: no call ever blocks. *)
Theorem C12_no_call_blocks : forall p cs, ~ In RBlocked (snd (run p init cs)).
Proof. exact no_call_blocks. Qed.
Print Assumptions C12_no_call_blocks.

(** Next returns true exactly while the iterator is open and answers remain;
    each true hands over exactly the next answer, which Scan then reports. *)
Theorem C12_next_counts : forall p s, Inv s ->
  let '(s', r) := step p s CNext in
  (r = RBool true <-> (closed s = false /\ done s = false /\ ps s = PWaiting /\ has_more p (delivered s) = true)) /\
  (r = RBool true -> delivered s' = S (delivered s) /\ cur s' = Some (delivered s')) /\
  (r <> RBool true -> delivered s' = delivered s).
Proof. exact next_counts. Qed.
Print Assumptions C12_next_counts.

Theorem C12_exhausted_stays_false : forall p s, done s = true -> step p s CNext = (s, RBool false).
Proof. exact exhausted_stays_false. Qed.

Theorem C12_err_after_end : forall p s, Inv s -> closed s = false -> done s = false -> has_more p (delivered s) = false ->
  perr (fst (step p s CNext)) = final_err p.
Proof. exact err_after_end. Qed.

(** Close ends the search: whatever is called afterwards, no further answer is
    produced (no goal runs), Next is false, Close reports ErrClosed. *)
Theorem C12_close_stops : forall p s cs,
  closed s = true ->
  delivered (fst (run p s cs)) = delivered s /\
  Forall (fun r => r <> RBool true /\ r <> RClosed false) (snd (run p s cs)).
Proof. exact close_stops. Qed.
Theorem C12_close_closes : forall p s, closed s = false -> closed (fst (step p s CClose)) = true /\ snd (step p s CClose) = RClosed false.
Proof. exact close_closes. Qed.
Theorem C12_second_close_reports : forall p s, closed s = true -> step p s CClose = (s, RClosed true).
Proof. exact second_close_reports. Qed.
Print Assumptions C12_close_stops.

(** non-vacuity: Next x5 on a two-answer query (F11, repaired) *)
Example C12_five_nexts :
  snd (run (Finite 2 None) init [CNext; CNext; CNext; CNext; CNext]) = [RBool true; RBool true; RBool false; RBool false; RBool false].
Proof. reflexivity. Qed.
