(** C16 -- relational built-ins enumerate exactly their relation in every call mode.
    Property theorems only, over Model/Rel.v: the enumerations from which the model
    computes the answers of a call are exactly the mathematical relations, each tuple
    once; answers are the candidates unifiable with the arguments; text is counted in
    characters.  The implementation is compared with that model call by call. *)
From Coq Require Import ZArith Bool List String.
From PV Require Import Model.Term Model.Unify Model.Rel Proofs.Unify Proofs.Rel.
Import ListNotations.
Open Scope Z_scope.

(** atom_concat/3 and append/3 with the whole known: all splits, each once *)
Theorem C16_splits_exact : forall (A : Type) (l a b : list A), In (a, b) (splits l) <-> a ++ b = l.
Proof. exact @splits_spec. Qed.
Theorem C16_splits_once : forall (A : Type) (l : list A), NoDup (splits l).
Proof. exact @splits_nodup. Qed.

(** sub_atom/5: all (before, length, after, sub), each occurrence once *)
Theorem C16_subs_exact : forall (A : Type) (l : list A) b n r s,
  In (b, n, r, s) (subs l) <->
  exists pre post, l = pre ++ s ++ post /\ List.length pre = b /\ List.length s = n /\ List.length post = r.
Proof. exact @subs_spec. Qed.
Theorem C16_subs_once : forall (A : Type) (l : list A),
  NoDup (map (fun q => (fst (fst (fst q)), snd (fst (fst q)))) (subs l)).
Proof. exact @subs_nodup. Qed.

(** between/3: exactly the integers of the interval, ascending, for all of Z (no wrap-around) *)
Theorem C16_between_exact : forall lo hi x, In x (zrange lo hi) <-> lo <= x <= hi.
Proof. exact zrange_spec. Qed.
Theorem C16_between_once : forall lo hi, NoDup (zrange lo hi).
Proof. exact zrange_nodup. Qed.
Theorem C16_between_ascending : forall lo hi i j a b, (i < j)%nat ->
  nth_error (zrange lo hi) i = Some a -> nth_error (zrange lo hi) j = Some b -> a < b.
Proof. exact zrange_ascending. Qed.

(** nth0/3, nth1/3, arg/3: every position once *)
Theorem C16_indexed_exact : forall (A : Type) (l : list A) i e, In (i, e) (indexed l) <-> nth_error l i = Some e.
Proof. exact @indexed_spec. Qed.
Theorem C16_indexed_once : forall (A : Type) (l : list A), NoDup (map fst (indexed l)).
Proof. exact @indexed_nodup. Qed.

(** select/3 and member/2: one answer per position *)
Theorem C16_selects_exact : forall (A : Type) (l : list A) e r,
  In (e, r) (selects l) <-> exists a b, l = a ++ e :: b /\ r = a ++ b.
Proof. exact @selects_spec. Qed.
Theorem C16_selects_per_position : forall (A : Type) (l : list A),
  List.length (selects l) = List.length l /\ map fst (selects l) = l.
Proof. intros A l. split; [apply selects_length | apply selects_members]. Qed.

(** answers: exactly the candidates unifiable with the arguments are kept (dropped
    ones are not unifiable, kept ones are), each as a most general common instance *)
Theorem C16_answers_selected : forall name args cs ans,
  cands name args = Some cs -> answers name args = Some ans -> selected args cs ans.
Proof. exact answers_selected. Qed.

(** instantiating a call further selects a subset of the tuples *)
Theorem C16_instance_selects_subset : forall args th c,
  (forall s, map (apply s) c = c) -> unifiable (map (apply th) args) c -> unifiable args c.
Proof. exact instance_selects_subset. Qed.

(** text is measured in characters *)
Theorem C16_characters_not_bytes : forall s p q,
  match s with EmptyString => True | String a _ => is_cont a = false end ->
  In (p, q) (splits (uchars s)) ->
  uchars (cat p) = p /\ uchars (cat q) = q /\ (List.length p + List.length q = List.length (uchars s))%nat.
Proof. exact concat_lengths_in_characters. Qed.

Print Assumptions C16_subs_exact.
Print Assumptions C16_answers_selected.
Print Assumptions C16_characters_not_bytes.
Print Assumptions C16_between_ascending.

Open Scope string_scope.
Example C16_nonvacuous :
  answers "sub_atom" [Atom "aé日"; Var 0; Int 1; Var 1; Var 2]
  = Some [[Atom "aé日"; Int 0; Int 1; Int 2; Atom "a"];
          [Atom "aé日"; Int 1; Int 1; Int 1; Atom "é"];
          [Atom "aé日"; Int 2; Int 1; Int 0; Atom "日"]].
Proof. vm_compute. reflexivity. Qed.
