(** C20 -- loading defines clauses in source order; a failed load defines nothing.
    Property theorems only, over Model/Loader.v (the staging and commit of
    engine/text.go; tied to the code by the load/assertz histories of the harness). *)
From Coq Require Import ZArith Bool List String.
From PV Require Import Model.Loader Proofs.Loader.
Import ListNotations.
Open Scope Z_scope.

Theorem C20_all_or_nothing : forall db is db' e o,
  load db is = (db', Some e, o) -> e <> EInit -> db' = db.
Proof. exact load_all_or_nothing. Qed.

Theorem C20_source_order : forall db is db' e o p t u,
  load db is = (db', e, o) ->
  stage_all empty_t is = inl t -> get (defs t) p = Some u ->
  listing db' p =
    Some match get db p with
         | Some old => if u_multi old && u_multi u then u_cls old ++ ids_of p is else ids_of p is
         | None => ids_of p is
         end.
Proof. exact load_source_order. Qed.

Theorem C20_every_defined_predicate_is_staged : forall is t p,
  stage_all empty_t is = inl t -> ids_of p is <> [] -> exists u, get (defs t) p = Some u.
Proof. exact ids_staged. Qed.

Theorem C20_flags : forall db is db' e o p t u,
  load db is = (db', e, o) ->
  stage_all empty_t is = inl t -> get (defs t) p = Some u ->
  exists v, get db' p = Some v /\
    match get db p with
    | Some old => if u_multi old && u_multi u then u_dyn v = u_dyn old /\ u_multi v = true
                  else u_dyn v = u_dyn u /\ u_multi v = u_multi u
    | None => u_dyn v = u_dyn u /\ u_multi v = u_multi u
    end.
Proof. exact load_flags. Qed.

Theorem C20_untouched : forall db is db' e o p,
  load db is = (db', e, o) ->
  forallb (fun i => negb (mentions p i)) is = true ->
  get db' p = get db p.
Proof. exact load_untouched. Qed.

Theorem C20_discontiguous_rejected : forall db p q a b c,
  pi_eqb p q = false ->
  load db [IClause p a; IClause q b; IClause p c] = (db, Some (EDiscontiguous p), []).
Proof. exact discontiguous_rejected. Qed.

Theorem C20_discontiguous_declared : forall p q a b c,
  pi_eqb p q = false ->
  load [] [IDiscontiguous p; IClause p a; IClause q b; IClause p c]
  = ([(p, mkU false false true [a; c]); (q, mkU false false false [b])], None, []).
Proof. exact discontiguous_declared. Qed.

Theorem C20_output_order : forall db is db' o,
  load db is = (db', None, o) -> o = dir_toks is ++ map snd (init_goals is).
Proof. exact load_output_order. Qed.

Print Assumptions C20_all_or_nothing.
Print Assumptions C20_source_order.
Print Assumptions C20_untouched.
Print Assumptions C20_output_order.

Example C20_nonvacuous :
  let a := ("a"%string, 1) in let b := ("b"%string, 1) in
  load [(a, mkU false true false [1])] [IMultifile a; IClause a 2; IClause a 3; IDirective true 7; IClause b 4; IInit true 8]
  = ([(a, mkU false true false [1; 2; 3]); (b, mkU false false false [4])], None, [7; 8]).
Proof. vm_compute. reflexivity. Qed.
