(** C08 -- the standard order is total and representation independent; sorts obey it.
    Property theorems only, over Model/Order.v (mirror of the Compare methods on
    abstract, resolved terms: the order cannot depend on how a list or string was
    built; that the engine's representations agree with the abstract view is
    checked by the correspondence run, path by path). *)
From Coq Require Import ZArith Bool List String.
From PV Require Import Model.Term Model.Unify Model.Order Proofs.Order.
Import ListNotations.
Open Scope Z_scope.

Theorem C08_reflexive : forall a, cmp_term a a = Eq.
Proof. exact cmp_refl. Qed.

(** '=' exactly for structurally identical terms (floats by value, as Go's ==) *)
Theorem C08_equal_iff_identical : forall a b, cmp_term a b = Eq -> ident a b.
Proof. exact cmp_eq_ident. Qed.

Theorem C08_antisymmetric : forall a b, cmp_term b a = CompOpp (cmp_term a b).
Proof. exact cmp_antisym. Qed.

Theorem C08_transitive : forall a b c, cmp_term a b = Lt -> cmp_term b c = Lt -> cmp_term a c = Lt.
Proof. exact cmp_trans_lt. Qed.

(** identical terms are interchangeable in any comparison *)
Theorem C08_identical_compare_alike : forall a b, ident a b -> forall c, cmp_term a c = cmp_term b c.
Proof. exact ident_cmp_l. Qed.

(** Var < Float < Integer < Atom < Compound *)
Theorem C08_classes : forall v f i a g args,
  cmp_term (Var v) (Flt f) = Lt /\ cmp_term (Flt f) (Int i) = Lt /\
  cmp_term (Int i) (Atom a) = Lt /\ cmp_term (Atom a) (Cmp g args) = Lt.
Proof. exact cmp_classes. Qed.
Print Assumptions C08_transitive.
Print Assumptions C08_antisymmetric.

(** sort/2 and setof/3: the result is strictly ascending (hence duplicate-free),
    contains only given elements, and every given element is represented *)
Theorem C08_sort_ascending : forall e l, asc e (sort_uniq e l).
Proof. exact sort_uniq_ascending. Qed.
Theorem C08_sort_nothing_invented : forall e l y, In y (sort_uniq e l) -> In y l.
Proof. exact sort_uniq_subset. Qed.
Theorem C08_sort_nothing_lost : forall e l x, In x l -> exists y, In y (sort_uniq e l) /\ compare_t e x y = Eq.
Proof. exact sort_uniq_complete. Qed.
Print Assumptions C08_sort_ascending.

Open Scope string_scope.
Example C08_example :
  cmp_term (Cmp "f" [Int 1; Atom "b"]) (Cmp "f" [Int 1; Atom "c"]) = Lt /\
  cmp_term (Cmp "g" [Atom "z"]) (Cmp "f" [Atom "a"; Atom "a"]) = Lt /\
  sort_uniq empty_env [Atom "b"; Int 3; Flt 4607182418800017408; Atom "a"; Int 3] = [Flt 4607182418800017408; Int 3; Atom "a"; Atom "b"].
Proof. repeat split; vm_compute; reflexivity. Qed.
