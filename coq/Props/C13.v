(** C13 -- cancelling the context stops any execution promptly.
    Property theorems only, over the machine model M; partial: wall-clock time,
    the Go scheduler and the cost of one thunk cannot be exhibited by the model. *)
From Coq Require Import ZArith Bool List String.
From PV Require Import Model.Term Model.Unify Model.Clause Model.Machine Proofs.Promise Proofs.Trampoline Proofs.Cancel.
Import ListNotations.
Open Scope Z_scope.

(** The trampoline looks at the context before every thunk it runs; once the
    context is cancelled it returns the context's error at once, whatever the
    stack holds, running nothing and changing nothing.  ([is_fuel_err p = false]:
    p is a promise of the code, not the marker by which the model says that it
    ran out of fuel -- that marker ends a run of the model before anything else.) *)
Theorem C13_cancelled_stops_immediately :
  forall f p rest st, is_fuel_err p = false -> s_polls st = Some O -> force (S f) (p :: rest) st = (FError ECancelled, st).
Proof. exact cancelled_stops_immediately. Qed.
Print Assumptions C13_cancelled_stops_immediately.

(** In the compositional semantics (which [force] computes, C01): a promise
    evaluated with no polls left does no work at all, *)
Theorem C13_no_polls_no_work :
  forall p st o st', is_fuel_err p = false -> s_polls st = Some O -> Eval p st o st' -> o = VCancel /\ st' = st.
Proof. exact no_polls_no_work. Qed.
Print Assumptions C13_no_polls_no_work.

(** every thunk that does run has consumed a poll (so with cancellation at the
    n-th poll at most n thunks run at a nesting level), *)
Theorem C13_poll_decreases :
  forall st st' n, s_polls st = Some n -> poll st = Some st' -> exists m, n = S m /\ s_polls st' = Some m.
Proof. exact poll_decreases. Qed.

(** and the cancellation outcome passes every frame untouched -- no catch/3
    handler of this level runs on it, no alternative is tried -- and is the
    result of the run. *)
Theorem C13_cancel_passes_frames :
  forall p st o st', After p VCancel st o st' -> o = VCancel /\ st' = st.
Proof. exact cancel_passes_frames. Qed.
Theorem C13_cancel_is_the_result :
  forall rest st r st', Resume VCancel rest st r st' -> r = FError ECancelled /\ st' = st.
Proof. exact cancel_is_the_result. Qed.
Print Assumptions C13_cancel_is_the_result.

Theorem C13_force_is_depth_first :
  forall fuel stack st r st', force fuel stack st = (r, st') -> r <> FOutOfFuel -> Run stack st r st'.
Proof. exact (fun fuel => proj1 (force_sound fuel)). Qed.

(** non-vacuity: repeat, fail  is cut by cancellation at poll 20, inside findall too *)
From PV Require Import Model.Boot Model.MachineCheck.
Open Scope string_scope.
Example C13_repeat_is_cancelled :
  snd (run_polls 4000 bootstrap_db (Cmp "," [Atom "repeat"; Atom "fail"]) [] 5 20) = EndErr ECancelled /\
  snd (run_polls 4000 bootstrap_db (Cmp "findall" [Var 0; Cmp "," [Atom "repeat"; Atom "fail"]; Var 1]) [1] 5 20) = EndErr ECancelled.
Proof. split; vm_compute; reflexivity. Qed.
