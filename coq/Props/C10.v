(** C10 -- a stored clause is the clause that was given, and it executes as that clause.
    Property theorems only, over the compiler model (Model/Clause.v) and M. *)
From Coq Require Import ZArith Bool List String.
From PV Require Import Model.Term Model.Unify Model.Clause Model.Machine Proofs.Compile.
Import ListNotations.
Open Scope Z_scope.

(** The compiled form of a clause denotes its source term: decompiling the
    bytecode of a head argument / body-goal argument gives back the term, with
    the same variable sharing (variable offsets index the clause's variables in
    first-occurrence order). *)
Theorem C10_head_arg_roundtrip :
  forall t vs vs' code, compile_head_arg t vs = (vs', code) ->
    forall stack rest, decompile_args (code ++ rest) vs' stack = decompile_args rest vs' (push_arg t stack).
Proof. exact head_arg_roundtrip. Qed.
Print Assumptions C10_head_arg_roundtrip.

Theorem C10_body_arg_roundtrip :
  forall t vs vs' code, compile_body_arg t vs = (vs', code) ->
    forall stack rest, decompile_args (code ++ rest) vs' stack = decompile_args rest vs' (push_arg t stack).
Proof. exact body_arg_roundtrip. Qed.
Print Assumptions C10_body_arg_roundtrip.

(** variables keep their offsets once allocated: later compilation only extends the table *)
Theorem C10_var_table_extends :
  forall t vs vs' code, compile_head_arg t vs = (vs', code) -> exists ext, vs' = vs ++ ext.
Proof. exact head_arg_extends. Qed.
Print Assumptions C10_var_table_extends.
