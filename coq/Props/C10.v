(** C10 -- a stored clause is the clause that was given, and it executes as that clause.
    Property theorems only, over the compiler model (Model/Clause.v) and M. *)
From Coq Require Import ZArith Bool List String.
From PV Require Import Model.Term Model.Unify Model.Clause Model.Machine Proofs.Compile.
Import ListNotations.
Open Scope Z_scope.

(** The compiled form of a clause denotes its source term: decompiling the
    bytecode of a head argument / body-goal argument gives back the term, with
    the same variable sharing (variable offsets index the clause's variables in
    first-occurrence order). *)
Theorem C10_head_arg_roundtrip :
  forall t vs vs' code, compile_head_arg t vs = (vs', code) ->
    forall stack rest, decompile_args (code ++ rest) vs' stack = decompile_args rest vs' (push_arg t stack).
Proof. exact head_arg_roundtrip. Qed.
Print Assumptions C10_head_arg_roundtrip.

Theorem C10_body_arg_roundtrip :
  forall t vs vs' code, compile_body_arg t vs = (vs', code) ->
    forall stack rest, decompile_args (code ++ rest) vs' stack = decompile_args rest vs' (push_arg t stack).
Proof. exact body_arg_roundtrip. Qed.
Print Assumptions C10_body_arg_roundtrip.

(** variables keep their offsets once allocated: later compilation only extends the table *)
Theorem C10_var_table_extends :
  forall t vs vs' code, compile_head_arg t vs = (vs', code) -> exists ext, vs' = vs ++ ext.
Proof. exact head_arg_extends. Qed.
Print Assumptions C10_var_table_extends.

(** ... and it executes as that term.  Running the head code of a clause
    (opGetConst / opGetVar / opGetFunctor / opPop of vm.exec, [exec] of
    Model/Machine.v) against the arguments of a goal IS unifying those arguments
    with the head's arguments renamed by the activation's frame of fresh
    variables ([inst]: the clause variable at position i of the clause's variable
    table becomes the i-th variable of the frame): the resulting env has exactly
    the solutions of the old env that make the goal's arguments equal to the
    renamed head's (the fresh variables introduced for sub-terms being
    existentially quantified: [ok_sound], [ok_complete]); when the run fails no
    solution exists; and the machine continues with the body on exactly that env.
    For every head, goal, env bounded by the fresh-variable counter, body, fuel. *)
From PV Require Import Proofs.Unify Proofs.HeadExec.
Theorem C10_head_code_is_unification :
  forall name hargs cvsH hc, compile_head (Cmp name hargs) = (cvsH, hc) -> forallb wf_term hargs = true ->
  forall (c : clause) ext rest, c_vars c = cvsH ++ ext -> c_code c = hc ++ rest ->
  forall f gargs k e pid st,
    List.length gargs = List.length hargs ->
    0 < s_nextv st -> eb (s_nextv st) e -> poisoned e = false -> Forall (tb (s_nextv st)) gargs ->
    let vb := fresh_from (s_nextv st) (List.length (c_vars c)) in
    let nv := s_nextv st + Z.of_nat (List.length (c_vars c)) in
    let head := map (inst (c_vars c) vb) hargs in
    match run_get hc vb gargs [] e nv with
    | GDone args' astack' e' nv' =>
        ok_spec e e' nv nv' gargs head /\
        run_thunk (S (List.length hc + f)) (ThClause c gargs k e pid) st = exec f rest vb k [] [] e' pid (bump st nv')
    | GFail nv' =>
        (forall s, sat s e -> map (apply s) gargs <> map (apply s) head) /\
        run_thunk (S (List.length hc + f)) (ThClause c gargs k e pid) st = (PBool false, bump st nv')
    | GStuck _ | GPoison _ => True
    | GBad => False
    end.
Proof. exact clause_head_is_unification. Qed.
Print Assumptions C10_head_code_is_unification.

(** the frame renames the clause apart: distinct variables, none of them in the goal or the env *)
Theorem C10_frame_renames_apart :
  forall nv n, NoDup (fresh_from nv n) /\ Forall (fun z => nv <= z < nv + Z.of_nat n) (fresh_from nv n).
Proof. exact fresh_from_apart. Qed.

(** one head argument, any term *)
Theorem C10_head_arg_is_unification : forall t, head_sem t.
Proof. exact all_head_sem. Qed.
Print Assumptions C10_head_arg_is_unification.

(** non-vacuity: p(f(X), [X|T], a) against the goal p(Y, [1,2], Z) *)
Open Scope string_scope.
Example C10_head_exec_example :
  let h := Cmp "p" [Cmp "f" [Var 0]; Cmp "." [Var 0; Var 1]; Atom "a"] in
  let gargs := [Var 50; Cmp "." [Int 1; Cmp "." [Int 2; Atom "[]"]]; Var 51] in
  match compile_head h with
  | (cvs, hc) =>
      match run_get hc (fresh_from 100 (List.length cvs)) gargs [] empty_env (100 + Z.of_nat (List.length cvs)) with
      | GDone [] [] e' _ => poisoned e' = false /\
                            map (walk e') gargs = [Cmp "f" [Int 1]; Cmp "." [Int 1; Cmp "." [Int 2; Atom "[]"]]; Atom "a"]
      | _ => False
      end
  end.
Proof. vm_compute. split; reflexivity. Qed.
Example C10_head_exec_example_fails :
  match compile_head (Cmp "p" [Cmp "." [Var 0; Cmp "." [Var 0; Atom "[]"]]]) with
  | (cvs, hc) =>
      match run_get hc (fresh_from 100 (List.length cvs)) [Cmp "." [Int 1; Cmp "." [Int 2; Atom "[]"]]] [] empty_env (100 + Z.of_nat (List.length cvs)) with
      | GFail _ => True
      | _ => False
      end
  end.
Proof. vm_compute. exact I. Qed.

(** body goals: the Put instructions of a goal build exactly its arguments renamed
    by the frame, and opCall arrives at the goal's predicate with them and with the
    rest of the clause as continuation -- same goals, same order, same sharing *)
Theorem C10_body_arg_builds_instance :
  forall t cvs cvs1 code, compile_body_arg t cvs = (cvs1, code) ->
    forall (ext : list Z) vb args astack, run_put code vb args astack = Some ((args ++ [inst (cvs1 ++ ext)%list vb t])%list, astack).
Proof. exact all_body_sem. Qed.

Theorem C10_body_goal_is_call :
  forall (vs : list Z) (k : cont) (cutp : Z) g cvs cvs1 pcode, compile_pred1 g cvs = Some (cvs1, pcode) -> g <> Atom "!" ->
    forall (ext : list Z) f rest e st, poisoned e = false ->
      exec (List.length pcode + f) (pcode ++ rest)%list vs k [] [] e cutp st =
      match g with
      | Var v => arrive f "call" [inst (cvs1 ++ ext)%list vs g] (KExec rest vs k cutp) e st
      | Atom a => arrive f a [] (KExec rest vs k cutp) e st
      | Cmp name gargs => arrive f name (map (inst (cvs1 ++ ext)%list vs) gargs) (KExec rest vs k cutp) e st
      | _ => (PErr EFuel, st)
      end.
Proof. exact body_goal_is_call. Qed.
Print Assumptions C10_body_goal_is_call.
