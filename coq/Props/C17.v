(** C17 -- the DCG translation preserves the language and the threading of the remainder.
    Property theorems only.  The semantic theorem is over the context-free core of the
    translation (terminals, non-terminals, sequence, alternation, at any nesting, all
    grammars, all inputs, all remainders); the mirror of dcg.go (Model/Dcg.v) is
    proved to coincide with that core on it, and is compared with expand_term/2 and,
    through M and S, with phrase/2,3 on grammars using every construct. *)
From Coq Require Import ZArith List.
From PV Require Import Model.DcgCore Model.Term Model.Dcg Proofs.Dcg.
Import ListNotations.
Close Scope Z_scope.

Theorem C17_translation_preserves_language : forall G b s0 s n rho, s0 < n -> s < n ->
  (exists rho', (forall v, v < n -> rho' v = rho v) /\ holds (map tr_rule G) rho' (fst (tr b s0 s n)))
  <-> derives G b (rho s0) (rho s).
Proof. exact translation_preserves_language. Qed.

Theorem C17_phrase3_exact : forall G a L R,
  holds (map tr_rule G) (fun v => match v with 0 => L | _ => R end) (GCall a 0 1) <-> derives G (GNt a) L R.
Proof. exact phrase3_exact. Qed.

Theorem C17_remainder_is_what_is_left : forall G b xs r, derives G b xs r -> exists pre, xs = pre ++ r.
Proof. exact derives_prefix. Qed.

Theorem C17_remainder_independent : forall G b xs r, derives G b xs r ->
  forall pre, xs = pre ++ r -> forall r', derives G b (pre ++ r') r'.
Proof. exact derives_remainder_independent. Qed.

Theorem C17_mirror_agrees_with_core : forall b fuel s0 s n, (bsize b < fuel)%nat ->
  dcg_body fuel (embed b) (zv s0) (zv s) (Z.of_nat n)
  = Some (embed_goal (fst (tr b s0 s n)), Z.of_nat (snd (tr b s0 s n))).
Proof. exact mirror_agrees_with_core. Qed.

Print Assumptions C17_translation_preserves_language.
Print Assumptions C17_phrase3_exact.
Print Assumptions C17_remainder_independent.
Print Assumptions C17_mirror_agrees_with_core.

(** non-vacuity: s --> [1], t.  t --> [2] ; [].   s derives [1;2;3] leaving [3], and [1;3] leaving [3] *)
Example C17_nonvacuous :
  let G := [(0, GSeq (GTerm [1%Z]) (GNt 1)); (1, GAlt (GTerm [2%Z]) (GTerm []))] in
  derives G (GNt 0) [1; 2; 3]%Z [3%Z] /\ derives G (GNt 0) [1; 3]%Z [3%Z].
Proof.
  cbn. split.
  - eapply DNt; [left; reflexivity|]. eapply DSeq with (m := [2; 3]%Z); [apply (DTerm _ [1%Z] [2; 3]%Z)|].
    eapply DNt; [right; left; reflexivity|]. apply DAltL. apply (DTerm _ [2%Z] [3%Z]).
  - eapply DNt; [left; reflexivity|]. eapply DSeq with (m := [3%Z]); [apply (DTerm _ [1%Z] [3%Z])|].
    eapply DNt; [right; left; reflexivity|]. apply DAltR. apply (DTerm _ [] [3%Z]).
Qed.
