(** C05 -- no input crashes or wedges the host; every failure is a Prolog error term.
    Property theorems only.  What is proved is the arithmetic part, over the kernels
    regenerated from number.go: on 64-bit integers no operation ends in a Go panic, an
    undefined conversion or an unbounded loop, and integer expressions evaluate to a
    64-bit integer or to an error; and the error values of the machine model are ISO
    formal terms by construction.  The rest of the property (every registered
    predicate x argument shapes, every short byte string as text) is decided on the
    implementation by an exhaustive-over-shapes sweep in isolated processes: that
    part is enumeration, not proof. *)
From Coq Require Import ZArith Bool List String.
From PV Require Import Model.GoInt Model.F64 Model.Num Gen.Arith_gen Model.Eval Model.Term Model.Machine Proofs.ArithInt Proofs.NoPanic.
Import ListNotations.
Open Scope Z_scope.

Theorem C05_int_kernels_never_abort : forall x y, int64 x -> int64 y ->
  normal (addI x y) /\ normal (subI x y) /\ normal (mulI x y) /\ normal (negI x) /\ normal (absI x) /\
  normal (intDivI x y) /\ normal (remI x y) /\ normal (modI x y) /\ normal (intFloorDivI x y) /\
  normal (shlI x y) /\ normal (shrI x y) /\ (0 <= y -> normal (intPow x y)).
Proof. exact int_kernels_normal. Qed.

Theorem C05_integer_expressions_never_abort : forall e, int_expr e -> int_result (eval e).
Proof. exact int_expr_eval_normal. Qed.

(** the machine's error constructors build error(Formal, Context) with an ISO formal *)
Definition iso_formal (f : term) : bool :=
  match f with
  | Atom a => existsb (String.eqb a) ["instantiation_error"; "system_error"]%string
  | Cmp n args =>
      existsb (fun p => String.eqb n (fst p) && Nat.eqb (List.length args) (snd p))
              [("type_error", 2); ("domain_error", 2); ("existence_error", 2); ("permission_error", 3);
               ("representation_error", 1); ("evaluation_error", 1); ("resource_error", 1); ("syntax_error", 1);
               ("uninstantiation_error", 1)]%string%nat
  | _ => false
  end.
Definition iso_error (e : merr) : bool :=
  match e with
  | EBall (Cmp "error" [f; _]) => iso_formal f
  | _ => false
  end.

Theorem C05_error_constructors_are_iso : forall ty d op n a (c : term),
  iso_error inst_err = true /\ iso_error (type_err ty c) = true /\ iso_error (dom_err d c) = true /\
  iso_error (exist_proc_err n a) = true /\ iso_error (perm_err op ty c) = true /\ iso_error (eval_err d) = true.
Proof. intros. repeat split; reflexivity. Qed.

Print Assumptions C05_int_kernels_never_abort.
Print Assumptions C05_integer_expressions_never_abort.

Open Scope string_scope.
Example C05_nonvacuous :
  int_expr (ECmp "*" [ENum (NInt 0); ECmp "//" [ENum (NInt 5); ENum (NInt 0)]]) /\
  eval (ECmp "*" [ENum (NInt 0); ENum (NInt 7)]) = Ok (NInt 0) /\
  eval (ECmp "//" [ENum (NInt 5); ENum (NInt 0)]) = Err (XKernel (EExc ZeroDivisor)).
Proof.
  split; [|split; vm_compute; reflexivity].
  apply IE_bin; [cbn; tauto | apply IE_num; vm_compute; split; discriminate |].
  apply IE_bin; [cbn; tauto | apply IE_num; vm_compute; split; discriminate | apply IE_num; vm_compute; split; discriminate].
Qed.
