(** C15 -- Go values cross the API as data: Scan is exact or an error.
    Property theorems only, over Gen/Scan_gen.v (regenerated from solutions.go).
    The placeholder half of the property (a Go value for '?' behaves like the
    literal denoting it and is never re-read as syntax) is evaluated on the
    implementation by the harness and is not a theorem (the reader is not modelled). *)
From Coq Require Import ZArith Bool.
From PV Require Import Model.Scan Gen.Scan_gen Proofs.Scan.
Open Scope Z_scope.

Theorem C15_scan_int64_exact : forall z, int64 z -> scan_int64 (SInt z) = Some z.
Proof. exact scan_int64_exact. Qed.
Theorem C15_scan_int_exact : forall z, int64 z -> scan_int (SInt z) = Some z.
Proof. exact scan_int_exact. Qed.
Theorem C15_scan_int8_exact : forall z, (in_bits 8 z -> scan_int8 (SInt z) = Some z) /\ (~ in_bits 8 z -> scan_int8 (SInt z) = None).
Proof. exact scan_int8_exact. Qed.
Theorem C15_scan_int16_exact : forall z, (in_bits 16 z -> scan_int16 (SInt z) = Some z) /\ (~ in_bits 16 z -> scan_int16 (SInt z) = None).
Proof. exact scan_int16_exact. Qed.
Theorem C15_scan_int32_exact : forall z, (in_bits 32 z -> scan_int32 (SInt z) = Some z) /\ (~ in_bits 32 z -> scan_int32 (SInt z) = None).
Proof. exact scan_int32_exact. Qed.
Theorem C15_scan_float64_exact : forall bits, scan_float64 (SFlt bits) = Some bits.
Proof. exact scan_float64_exact. Qed.
Theorem C15_scan_float64_rejects_integers : forall z, scan_float64 (SInt z) = None.
Proof. exact scan_float64_rejects_integers. Qed.
Theorem C15_scan_rejects_non_numbers :
  scan_int SOther = None /\ scan_int8 SOther = None /\ scan_int16 SOther = None /\ scan_int32 SOther = None /\
  scan_int64 SOther = None /\ scan_float64 SOther = None /\
  (forall b, scan_int (SFlt b) = None /\ scan_int8 (SFlt b) = None /\ scan_int16 (SFlt b) = None /\
             scan_int32 (SFlt b) = None /\ scan_int64 (SFlt b) = None).
Proof. exact scan_rejects_non_numbers. Qed.
Print Assumptions C15_scan_int8_exact.
Print Assumptions C15_scan_float64_rejects_integers.

Example C15_int8_300 : scan_int8 (SInt 300) = None /\ scan_int8 (SInt (-128)) = Some (-128).
Proof. split; reflexivity. Qed.
