(** C14 -- separate interpreters are isolated and run concurrently without data races.
    Property theorems only.  Gen/Shared_gen.v is regenerated on every run from the
    engine and root packages: all package-level variables, every access with its
    lock context, and the critical-section structure of NewAtom. *)
From Coq Require Import List String Bool.
From PV Require Import Model.Shared Gen.Shared_gen Proofs.Atoms.
Import ListNotations.

(** the access discipline holds of the code as it is now (finite generated domain, by computation) *)
Theorem C14_discipline_ok : discipline_ok shared_accesses dead_functions = true.
Proof. vm_compute. reflexivity. Qed.

(** ... hence no two conflicting accesses by live code are unprotected *)
Theorem C14_no_unprotected_conflict :
  forall a b, In a shared_accesses -> In b shared_accesses ->
  live dead_functions a = true -> live dead_functions b = true ->
  a_kind a <> ALockOp -> a_kind b <> ALockOp -> a_kind a <> AAddr -> a_kind b <> AAddr ->
  conflict a b = true -> protected a b = true.
Proof. exact (discipline_protects shared_accesses dead_functions C14_discipline_ok). Qed.

(** the only package-level variables updated after initialisation are the atom table and the variable counter *)
Theorem C14_only_two_shared_mutables :
  filter (fun v => written shared_accesses dead_functions v || atomically_updated shared_accesses dead_functions v)
         (map (fun x => fst (fst x)) shared_vars)
  = ["engine.atomTable"; "engine.varCounter"]%string.
Proof. vm_compute. reflexivity. Qed.

(** NewAtom, as structured now, is accepted by the interleaving theorems *)
Theorem C14_intern_regions_wf : wf_regions intern_regions = true.
Proof. vm_compute. reflexivity. Qed.

Theorem C14_atom_table_stays_a_bijection : forall base sched t ths,
  Inv base t -> Forall (TI intern_regions t) ths ->
  let '(t', ths') := run_sched base intern_regions t ths sched in Inv base t' /\ Forall (TI intern_regions t') ths'.
Proof. intros base. exact (interleavings_keep_invariant base intern_regions C14_intern_regions_wf). Qed.

Theorem C14_same_atom_iff_same_name : forall base sched t ths t' ths' i j n1 r1 n2 r2,
  Inv base t -> Forall (TI intern_regions t) ths ->
  run_sched base intern_regions t ths sched = (t', ths') ->
  nth_error ths' i = Some (TDone n1 r1) -> nth_error ths' j = Some (TDone n2 r2) ->
  (n1 = n2 <-> r1 = r2).
Proof. intros base. exact (interned_iff_same_name base intern_regions C14_intern_regions_wf). Qed.

Print Assumptions C14_no_unprotected_conflict.
Print Assumptions C14_same_atom_iff_same_name.

(** non-vacuity: three threads, two of them interning the same name, one schedule *)
Open Scope string_scope.
Example C14_nonvacuous :
  snd (run_sched 100 intern_regions (mkT [] []) [TRun "foo" 0 None; TRun "bar" 0 None; TRun "foo" 0 None] [2; 0; 1; 0; 2; 1])
  = [TDone "foo" 100; TDone "bar" 101; TDone "foo" 100].
Proof. vm_compute. reflexivity. Qed.

(** the double-checked variant without the second check is rejected, and does go wrong *)
Example C14_unchecked_insert_rejected :
  wf_regions [(RRead, [OLookupReturnIfHit]); (RWrite, [OAllocNext; OPut; OAppendName])] = false /\
  snd (run_sched 100 [(RRead, [OLookupReturnIfHit]); (RWrite, [OAllocNext; OPut; OAppendName])]
         (mkT [] []) [TRun "foo" 0 None; TRun "foo" 0 None] [0; 1; 0; 1; 0; 1])
  = [TDone "foo" 100; TDone "foo" 101].
Proof. vm_compute. split; reflexivity. Qed.
