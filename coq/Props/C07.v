(** C07 -- arithmetic is exact or raises an evaluation error.
    Property theorems only; each is closed by [exact] of a lemma proved in
    Proofs/, over the model regenerated from engine/number.go (Gen/Arith_gen.v). *)
From Coq Require Import ZArith Bool List.
From PV Require Import Model.GoInt Model.F64 Model.Num Gen.Arith_gen Proofs.ArithInt.
Open Scope Z_scope.

(** [exact_or_overflow r v]: r is [Ok v] with v in the int64 range, or
    evaluation_error(int_overflow) with v outside it; nothing else (no panic,
    no wrapped value).  [div_spec r y v] adds zero_divisor exactly for y = 0. *)

Theorem C07_add : forall x y, int64 x -> int64 y -> exact_or_overflow (addI x y) (x + y).
Proof. exact addI_exact. Qed.
Print Assumptions C07_add.

Theorem C07_sub : forall x y, int64 x -> int64 y -> exact_or_overflow (subI x y) (x - y).
Proof. exact subI_exact. Qed.
Print Assumptions C07_sub.

Theorem C07_mul : forall x y, int64 x -> int64 y -> exact_or_overflow (mulI x y) (x * y).
Proof. exact mulI_exact. Qed.
Print Assumptions C07_mul.

Theorem C07_neg : forall x, int64 x -> exact_or_overflow (negI x) (- x).
Proof. exact negI_exact. Qed.
Print Assumptions C07_neg.

Theorem C07_abs : forall x, int64 x -> exact_or_overflow (absI x) (Z.abs x).
Proof. exact absI_exact. Qed.
Print Assumptions C07_abs.

Theorem C07_sign : forall x, signI x = Z.sgn x.
Proof. exact signI_exact. Qed.
Print Assumptions C07_sign.

(** // truncates toward zero, div floors, rem/mod are the matching remainders *)
Theorem C07_intdiv : forall x y, int64 x -> int64 y -> div_spec (intDivI x y) y (Z.quot x y).
Proof. exact intDivI_exact. Qed.
Print Assumptions C07_intdiv.

Theorem C07_rem : forall x y, int64 x -> int64 y -> div_spec (remI x y) y (Z.rem x y).
Proof. exact remI_exact. Qed.
Print Assumptions C07_rem.

Theorem C07_div : forall x y, int64 x -> int64 y -> div_spec (intFloorDivI x y) y (x / y).
Proof. exact intFloorDivI_exact. Qed.
Print Assumptions C07_div.

Theorem C07_mod : forall x y, int64 x -> int64 y -> div_spec (modI x y) y (x mod y).
Proof. exact modI_exact. Qed.
Print Assumptions C07_mod.

(** ^ with a non-negative exponent (square-and-multiply loop, all 64 rounds) *)
Theorem C07_pow : forall a b, int64 a -> int64 b -> 0 <= b -> exact_or_overflow (intPow a b) (a ^ b).
Proof. exact intPow_exact. Qed.
Print Assumptions C07_pow.

(** bitwise operations stay in range (their value is Z.land/lor/lxor/lnot by definition) *)
Theorem C07_and : forall x y, int64 x -> int64 y -> int64 (and64 x y).
Proof. exact and64_range. Qed.
Theorem C07_or : forall x y, int64 x -> int64 y -> int64 (or64 x y).
Proof. exact or64_range. Qed.
Theorem C07_xor : forall x y, int64 x -> int64 y -> int64 (xor64 x y).
Proof. exact xor64_range. Qed.
Theorem C07_not : forall x, int64 x -> not64 x = - x - 1 /\ int64 (not64 x).
Proof. exact not64_exact. Qed.
Print Assumptions C07_and.

(** shifts by 0..63 bits that do not overflow are exact; no count panics *)
Theorem C07_shl : forall n s, int64 n -> 0 <= s <= 63 -> int64 (n * 2 ^ s) -> shlI n s = Ok (n * 2 ^ s).
Proof. exact shlI_exact. Qed.
Theorem C07_shr : forall n s, int64 n -> 0 <= s <= 63 -> shrI n s = Ok (n / 2 ^ s) /\ int64 (n / 2 ^ s).
Proof. exact shrI_exact. Qed.
Theorem C07_shl_total : forall n s, int64 n -> int64 s -> exists z, shlI n s = Ok z.
Proof. exact shlI_total. Qed.
Theorem C07_shr_total : forall n s, int64 n -> int64 s -> exists z, shrI n s = Ok z.
Proof. exact shrI_total. Qed.
Print Assumptions C07_shl.

(** non-vacuity: the hypotheses are met by concrete boundary operands, and both
    outcomes occur *)
Example C07_add_ok : addI maxI (-1) = Ok 9223372036854775806. Proof. reflexivity. Qed.
Example C07_add_ovf : addI maxI 1 = Err (EExc IntOverflow). Proof. reflexivity. Qed.
Example C07_mul_ovf : mulI 3037000500 3037000500 = Err (EExc IntOverflow). Proof. reflexivity. Qed.
Example C07_mod_big : modI maxI 2 = Ok 1. Proof. reflexivity. Qed.
Example C07_div_big : intFloorDivI 9007199254740993 1 = Ok 9007199254740993. Proof. reflexivity. Qed.
Example C07_pow_63 : intPow 2 63 = Err (EExc IntOverflow) /\ intPow 2 62 = Ok 4611686018427387904 /\ intPow (-2) 63 = Ok minI.
Proof. repeat split; reflexivity. Qed.

(** ** floats: multiplication and division against IEEE-754 (Flocq), for all finite operands *)
From Coq Require Import Reals.
From Flocq Require Import Core IEEE754.BinarySingleNaN IEEE754.Binary.
From PV Require Import Proofs.FloatKernels.
Open Scope R_scope.

Theorem C07_mulF : forall x y : f64, fis_finite x = true -> fis_finite y = true ->
  let p := rnd (B2R 53 1024 x * B2R 53 1024 y) in
  if Rlt_bool (Rabs p) (bpow radix2 1024) then
    if Req_bool p 0 && negb (Req_bool (B2R 53 1024 x) 0) && negb (Req_bool (B2R 53 1024 y) 0)
    then mulF x y = Err (EExc Underflow)
    else exists r, mulF x y = Ok r /\ B2R 53 1024 r = p /\ fis_finite r = true
  else mulF x y = Err (EExc FloatOverflow).
Proof. exact mulF_correct. Qed.

Theorem C07_divF : forall x y : f64, fis_finite x = true -> fis_finite y = true ->
  if Req_bool (B2R 53 1024 y) 0 then divF x y = Err (EExc ZeroDivisor)
  else
    let q := rnd (B2R 53 1024 x / B2R 53 1024 y) in
    if Rlt_bool (Rabs q) (bpow radix2 1024) then
      if Req_bool q 0 && negb (Req_bool (B2R 53 1024 x) 0)
      then divF x y = Err (EExc Underflow)
      else exists r, divF x y = Ok r /\ B2R 53 1024 r = q /\ fis_finite r = true
    else divF x y = Err (EExc FloatOverflow).
Proof. exact divF_correct. Qed.

Print Assumptions C07_mulF.

(** addition and subtraction: float_overflow or the correctly rounded, finite IEEE
    sum; an out-of-range sum is always reported (F32, repaired: the sum of
    1.7976931348623155e308 and 2.9937604643020797e292 was returned as inf) *)
Theorem C07_addF : forall x y : f64, fis_finite x = true -> fis_finite y = true ->
  let s := rnd (B2R 53 1024 x + B2R 53 1024 y) in
  if Rlt_bool (Rabs s) (bpow radix2 1024) then
    addF x y = Err (EExc FloatOverflow) \/
    exists r, addF x y = Ok r /\ B2R 53 1024 r = s /\ fis_finite r = true
  else addF x y = Err (EExc FloatOverflow).
Proof. exact addF_correct. Qed.

Theorem C07_subF : forall x y : f64, fis_finite x = true -> fis_finite y = true ->
  let s := rnd (B2R 53 1024 x - B2R 53 1024 y) in
  if Rlt_bool (Rabs s) (bpow radix2 1024) then
    subF x y = Err (EExc FloatOverflow) \/
    exists r, subF x y = Ok r /\ B2R 53 1024 r = s /\ fis_finite r = true
  else subF x y = Err (EExc FloatOverflow).
Proof. exact subF_correct. Qed.
Print Assumptions C07_addF.

(** non-vacuity and the witness of F32: the pre-checks pass, the IEEE sum is infinite *)
Example C07_addF_rounds_to_infinity :
  let x := of_bits 9218868437227405310 in let y := of_bits 8982429456790454272 in
  fis_finite x = true /\ fis_finite y = true /\ fis_inf (fadd x y) = true /\
  fgt x (fsub (of_bits 9218868437227405311) y) = false /\ addF x y = Err (EExc FloatOverflow).
Proof. vm_compute. repeat split; reflexivity. Qed.
Example C07_addF_ok : exists r, addF (of_int 1) (of_int 2) = Ok r /\ to_bits r = to_bits (of_int 3).
Proof. eexists. split; [reflexivity | vm_compute; reflexivity]. Qed.

(** the recorded finding F9, as a theorem about the model: float addition reports
    float_overflow for operands whose IEEE sum is finite (63.0 + the largest float) *)
Theorem C07_addF_exact_or_overflow_refuted :
  exists x y : f64, fis_finite x = true /\ fis_finite y = true /\ fis_finite (fadd x y) = true /\
                    addF x y = Err (EExc FloatOverflow).
Proof.
  exists (of_int 63), (of_bits 9218868437227405311). vm_compute. repeat split; reflexivity.
Qed.

(** floor/1, ceiling/1, truncate/1, round/1: for every finite float the exact
    mathematical rounding of its value -- toward -inf, toward +inf, toward zero,
    to nearest with ties away from zero -- when that integer fits in 64 bits,
    evaluation_error(int_overflow) otherwise; never a wrapped conversion.
    float/1 of a 64-bit integer is the nearest binary64 (ties to even), finite.
    (Proofs/FloatToInt.v, against Flocq's Bnearbyint / Btrunc / binary_normalize.) *)
From PV Require Import Proofs.FloatToInt.
Theorem C07_floor : forall x : f64, fis_finite x = true -> floorFtoI x = in64 (Zfloor (B2R 53 1024 x)).
Proof. exact floorFtoI_correct. Qed.
Theorem C07_ceiling : forall x : f64, fis_finite x = true -> ceilingFtoI x = in64 (Zceil (B2R 53 1024 x)).
Proof. exact ceilingFtoI_correct. Qed.
Theorem C07_truncate : forall x : f64, fis_finite x = true -> truncateFtoI x = in64 (Ztrunc (B2R 53 1024 x)).
Proof. exact truncateFtoI_correct. Qed.
Theorem C07_round : forall x : f64, fis_finite x = true -> roundFtoI x = in64 (ZnearestA (B2R 53 1024 x)).
Proof. exact roundFtoI_correct. Qed.
Print Assumptions C07_round.
Theorem C07_float_of_integer : forall n : Z, int64b n = true ->
  B2R 53 1024 (floatItoF n) = round radix2 (SpecFloat.fexp 53 1024) (round_mode mode_NE) (IZR n) /\
  fis_finite (floatItoF n) = true.
Proof. exact floatItoF_correct. Qed.
Print Assumptions C07_float_of_integer.

(** non-vacuity: 2.5 rounds to 3, -2.5 to -3; floor(-0.5) = -1; 1.0e19 overflows *)
Example C07_round_examples :
  roundFtoI (of_bits 4612811918334230528) = Ok 3%Z /\ roundFtoI (of_bits 13836183955189006336) = Ok (-3)%Z /\
  floorFtoI (of_bits 13826050856027422720) = Ok (-1)%Z /\ truncateFtoI (of_bits 4891288408196988160) = Err (EExc IntOverflow).
Proof. vm_compute. repeat split; reflexivity. Qed.

(** The arithmetic comparisons on floats and on mixed operands: two finite floats
    compare as their values do; an integer and a float compare as the correctly
    rounded binary64 of the integer and the float's value do (ISO: convert the
    integer, then compare) -- each of =:=, =\=, <, >, =<, >= in both argument
    orders.  (Proofs/FloatCompare.v) *)
From PV Require Import Proofs.FloatCompare.
Theorem C07_compare_floats : forall x y : f64, fis_finite x = true -> fis_finite y = true ->
  let c := Rcompare (B2R 53 1024 x) (B2R 53 1024 y) in
  eqF x y = is_eq c /\ neqF x y = negb (is_eq c) /\ lssF x y = is_lt c /\ gtrF x y = is_gt c /\
  leqF x y = is_le c /\ geqF x y = is_ge c.
Proof.
  intros x y Hx Hy c.
  exact (conj (eqF_correct x y Hx Hy) (conj (neqF_correct x y Hx Hy) (conj (lssF_correct x y Hx Hy)
        (conj (gtrF_correct x y Hx Hy) (conj (leqF_correct x y Hx Hy) (geqF_correct x y Hx Hy)))))).
Qed.
Print Assumptions C07_compare_floats.

Theorem C07_compare_mixed : forall (x : f64) (n : Z), fis_finite x = true -> int64b n = true ->
  let c := Rcompare (B2R 53 1024 x) (rnd64 n) in
  (eqFI x n = is_eq c /\ eqIF n x = is_eq c) /\ (neqFI x n = negb (is_eq c) /\ neqIF n x = negb (is_eq c)) /\
  (lssFI x n = is_lt c /\ gtrIF n x = is_lt c) /\ (gtrFI x n = is_gt c /\ lssIF n x = is_gt c) /\
  (geqFI x n = is_ge c /\ leqIF n x = is_ge c) /\ (leqFI x n = is_le c /\ geqIF n x = is_le c).
Proof.
  intros x n Hx Hn c.
  exact (conj (eqFI_correct x n Hx Hn) (conj (neqFI_correct x n Hx Hn) (conj (lssFI_correct x n Hx Hn)
        (conj (gtrFI_correct x n Hx Hn) (conj (geqFI_correct x n Hx Hn) (leqFI_correct x n Hx Hn)))))).
Qed.
Print Assumptions C07_compare_mixed.

(** non-vacuity and the case C07_g got wrong: 2^63 as a float is greater than 1 and not less than 0;
    9007199254740993 =:= 9007199254740992.0 holds (the integer rounds to that float) *)
Example C07_compare_examples :
  gtrFI (of_bits 4890909195324358656) 1 = true /\ lssFI (of_bits 4890909195324358656) 0 = false /\
  eqIF 9007199254740993 (of_bits 4845873199050653696) = true.
Proof. vm_compute. repeat split; reflexivity. Qed.

(** float_integer_part/1: for every finite float exactly the integer part of its
    value (truncation toward zero), finite.  (Proofs/FloatIntPart.v) *)
From PV Require Import Proofs.FloatIntPart.
Theorem C07_float_integer_part : forall x : f64, fis_finite x = true ->
  B2R 53 1024 (intPartF x) = IZR (Ztrunc (B2R 53 1024 x)) /\ fis_finite (intPartF x) = true.
Proof. exact intPartF_correct. Qed.
Print Assumptions C07_float_integer_part.
