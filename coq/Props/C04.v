(** C04 -- throw/1 unwinds to the innermost still-executing catch/3.
    Property theorems only, over the machine model M (Model/Machine.v). *)
From Coq Require Import ZArith Bool List String.
From PV Require Import Model.Term Model.Unify Model.Clause Model.Machine Proofs.Promise Proofs.Trampoline.
Import ListNotations.
Open Scope Z_scope.

Theorem C04_force_is_depth_first :
  forall fuel stack st r st', force fuel stack st = (r, st') -> r <> FOutOfFuel -> Run stack st r st'.
Proof. exact (fun fuel => proj1 (force_sound fuel)). Qed.
Print Assumptions C04_force_is_depth_first.

(** An error raised while the frames [above ++ p :: below] are on the stack goes
    to the innermost frame [p] whose handler accepts it (the catcher unifies with
    the ball in the env captured when catch/3 was called: [handles]); the frames
    above it are discarded, the frames below it are untouched, and Recovery is
    called in place of the catch/3 goal, with the continuation of that call. *)
Theorem C04_recover_innermost :
  forall e above xs p below st recovery k env' f q st1 r st2,
    e <> EFuel ->
    (forall pre q0 post, above = pre ++ q0 :: post ->
       p_exited q0 <> None \/ handles q0 e (fold_left (fun acc x => pass x acc) pre xs) = None) ->
    p_exited p = None ->
    handles p e (fold_left (fun acc x => pass x acc) above xs) = Some (recovery, k, env') ->
    call_goal f recovery k env' st = (q, st1) ->
    Run (q :: below) st1 r st2 ->
    Recover e xs (above ++ p :: below) st r st2.
Proof. exact recover_innermost. Qed.
Print Assumptions C04_recover_innermost.

(** A catch/3 whose goal has exited does not intercept errors raised by later
    goals: once the error has passed the marker left by the exit, the frame's
    handler is never consulted, whatever its catcher. *)
Theorem C04_exited_catch_inactive :
  forall p e xs, In (p_id p) xs -> handles p e xs = None.
Proof. exact exited_catch_inactive. Qed.
Print Assumptions C04_exited_catch_inactive.

(** If no frame handles it, the run ends with an error carrying the ball. *)
Theorem C04_uncaught_reaches_caller :
  forall e xs stack st,
    e <> EFuel ->
    (forall pre q0 post, stack = pre ++ q0 :: post ->
       p_exited q0 <> None \/ handles q0 e (fold_left (fun acc x => pass x acc) pre xs) = None) ->
    Recover e xs stack st (FError e) st.
Proof. exact uncaught_reaches_caller. Qed.
Print Assumptions C04_uncaught_reaches_caller.

(** non-vacuity (F1, repaired): catch(true,_,X=caught), throw(x) ends with the
    uncaught ball x in M, and a throw inside the goal is caught. *)
From PV Require Import Model.Boot.
Example C04_exited_catch_example :
  snd (run 4000 bootstrap_db (Cmp "," [Cmp "catch" [Atom "true"; Var 1; Cmp "=" [Var 0; Atom "caught"]]; Cmp "throw" [Atom "x"]]) [0] 10)
  = EndErr (EBall (Atom "x")).
Proof. vm_compute. reflexivity. Qed.
Example C04_active_catch_example :
  fst (run 4000 bootstrap_db (Cmp "catch" [Cmp "throw" [Atom "x"]; Var 1; Cmp "=" [Var 0; Atom "caught"]]) [0] 10)
  = [[Atom "caught"]].
Proof. vm_compute. reflexivity. Qed.

(** The same on the trampoline itself (with Proofs/ForceComplete.v). *)
From PV Require Import Proofs.FuelMono Proofs.ForceComplete.
Theorem C04_force_uncaught :
  forall p e xs stack st st1,
    Eval p st (VErr e xs) st1 -> e <> EFuel ->
    (forall pre q0 post, stack = pre ++ q0 :: post ->
       p_exited q0 <> None \/ handles q0 e (fold_left (fun acc x => pass x acc) pre xs) = None) ->
    exists n, force n (p :: stack) st = (FError e, st1).
Proof. exact force_uncaught. Qed.
Print Assumptions C04_force_uncaught.

Theorem C04_force_caught_innermost :
  forall p e xs above q below st st1 recovery k env' f g st2 r st',
    Eval p st (VErr e xs) st1 -> e <> EFuel ->
    (forall pre q0 post, above = pre ++ q0 :: post ->
       p_exited q0 <> None \/ handles q0 e (fold_left (fun acc x => pass x acc) pre xs) = None) ->
    p_exited q = None ->
    handles q e (fold_left (fun acc x => pass x acc) above xs) = Some (recovery, k, env') ->
    call_goal f recovery k env' st1 = (g, st2) ->
    Run (g :: below) st2 r st' -> r <> FOutOfFuel ->
    exists n, force n (p :: above ++ q :: below) st = (r, st').
Proof. exact force_caught_innermost. Qed.
Print Assumptions C04_force_caught_innermost.
