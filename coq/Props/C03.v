(** C03 -- cut removes exactly the clause-level choice points; call/N makes it local.
    Property theorems only, over the machine model M (Model/Machine.v). *)
From Coq Require Import ZArith Bool List String.
From PV Require Import Model.Term Model.Unify Model.Clause Model.Machine Proofs.Promise Proofs.Trampoline.
Import ListNotations.
Open Scope Z_scope.

(** The trampoline computes the compositional semantics [Run] (same theorem as C01). *)
Theorem C03_force_is_depth_first :
  forall fuel stack st r st', force fuel stack st = (r, st') -> r <> FOutOfFuel -> Run stack st r st'.
Proof. exact (fun fuel => proj1 (force_sound fuel)). Qed.
Print Assumptions C03_force_is_depth_first.

(** In that semantics a cut whose parent (the promise created by the predicate
    call, or the earlier cut of the same clause standing for it) is on the
    stack discards precisely the frames pushed since that call -- the
    remaining clauses (the parent's own alternatives) and the choice points of
    the goals to its left -- and nothing older; the computation [o] that
    follows the cut continues on the older frames. *)
Theorem C03_cut_discards_exactly :
  forall c o above p below st r st',
    stands_for c p = true ->
    forallb (fun q => negb (stands_for c q)) above = true ->
    (Resume (VCut c o) (above ++ p :: below) st r st' <-> Resume o below st r st').
Proof. exact cut_discards_exactly. Qed.
Print Assumptions C03_cut_discards_exactly.

(** ... and no frame reacts to a cut passing through it other than by
    disappearing: its alternatives are not tried, its state is untouched. *)
Theorem C03_cut_skips_alternatives :
  forall p c o st o' st', After p (VCut c o) st o' st' ->
    st' = st /\ ((stands_for c p = true /\ o' = o) \/ (stands_for c p = false /\ o' = VCut c o)).
Proof. exact cut_skips_alternatives. Qed.
Print Assumptions C03_cut_skips_alternatives.

(** popUntil itself *)
Theorem C03_pop_until_found :
  forall c above p below, stands_for c p = true -> forallb (fun q => negb (stands_for c q)) above = true ->
    pop_until c (above ++ p :: below) = below.
Proof. exact pop_until_found. Qed.

(** what used to go wrong (F20, repaired): with no stand-in on the stack a cut empties it *)
Theorem C03_pop_until_missing :
  forall c s, forallb (fun q => negb (stands_for c q)) s = true -> pop_until c s = [].
Proof. exact pop_until_missing. Qed.
Print Assumptions C03_pop_until_missing.

(** non-vacuity: two cuts in one clause body, an older choice point survives.
    p :- true, !, true, !.   ?- member(X,[1,2,3]), p.   has three answers in M. *)
From PV Require Import Model.Boot.
Example C03_second_cut_keeps_older_choice_points :
  fst (run 4000 (program_db [Cmp ":-" [Atom "p"; Cmp "," [Atom "true"; Cmp "," [Atom "!"; Cmp "," [Atom "true"; Atom "!"]]]]])
           (Cmp "," [Cmp "member" [Var 0; list_t [Int 1; Int 2; Int 3]]; Atom "p"]) [0] 10)
  = [[Int 1]; [Int 2]; [Int 3]].
Proof. vm_compute. reflexivity. Qed.

(** The same on the trampoline itself (with Proofs/ForceComplete.v): when the
    top promise executes a cut addressed to [c] and [q] is the first frame that
    stands for [c], what [force] returns is what resuming on the frames BELOW
    [q] gives; by [C01_force_deterministic] that is the only thing it can return. *)
From PV Require Import Proofs.FuelMono Proofs.ForceComplete.
Theorem C03_force_after_cut :
  forall p c o above q below st st1 r st',
    Eval p st (VCut c o) st1 ->
    stands_for c q = true -> forallb (fun x => negb (stands_for c x)) above = true ->
    Resume o below st1 r st' -> r <> FOutOfFuel ->
    exists n, force n (p :: above ++ q :: below) st = (r, st').
Proof. exact force_after_cut. Qed.
Print Assumptions C03_force_after_cut.
