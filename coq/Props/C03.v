(** C03 -- answers are those of depth-first, left-to-right SLD resolution.
    Property theorems only (closed by [exact]); see DESIGN.md section 5 C03
    for the full statement and for what is still missing. *)
From Coq Require Import ZArith Bool List String.
From PV Require Import Model.Term Model.Unify Model.Clause Model.Machine Proofs.Promise Proofs.Trampoline.
Import ListNotations.
Open Scope Z_scope.

(** Alternatives are discarded only by a cut, and a cut whose parent is on the
    stack discards exactly the frames above and including that parent. *)
Theorem C03_pop_until_found :
  forall c above p below, stands_for c p = true -> forallb (fun q => negb (stands_for c q)) above = true ->
    pop_until c (above ++ p :: below) = below.
Proof. exact pop_until_found. Qed.
Print Assumptions C03_pop_until_found.

Theorem C03_pop_until_suffix : forall c s, exists pre, s = pre ++ pop_until c s.
Proof. exact pop_until_suffix. Qed.
Print Assumptions C03_pop_until_suffix.

(** The trampoline (Promise.Force with its explicit stack, child, popUntil and
    recover) computes the compositional depth-first semantics [Run]: the outcome
    of the top promise -- its alternatives left to right, the first success
    wins, a cut prunes to its parent, an error unwinds to the innermost frame
    whose handler accepts it -- resumed on the frames below.  For every stack,
    every state, every program and every amount of fuel that suffices. *)
Theorem C03_force_is_depth_first :
  forall fuel stack st r st', force fuel stack st = (r, st') -> r <> FOutOfFuel -> Run stack st r st'.
Proof. exact (fun fuel => proj1 (force_sound fuel)). Qed.
Print Assumptions C03_force_is_depth_first.

(** non-vacuity: a concrete run of the machine that is not out of fuel *)
Example C03_run_example :
  exists r st', force 50 [mkP 7 [ThUnify (Var 0) (Int 1) KTop empty_env] false None None None false None None]
                      (init_state [] 100 [Var 0] 5 None) = (r, st') /\ r = FFalse /\ s_answers st' = [[Int 1]].
Proof. eexists _, _. split; [vm_compute; reflexivity | split; reflexivity]. Qed.
