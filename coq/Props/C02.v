(** C02 -- unification yields a most general unifier, whatever the term representation.
    Property theorems only, over Model/Unify.v (mirror of engine/env.go Resolve/unify
    on abstract terms: the model sees a term only through functor/arity/arguments, so
    its results cannot depend on how a list or string was built; that the engine's
    five representations agree with the abstract view is what the correspondence
    run checks, path by path). *)
From Coq Require Import ZArith Bool List String.
From PV Require Import Model.Term Model.Unify Proofs.Unify Proofs.UnifySound.
Import ListNotations.
Open Scope Z_scope.

(** MGU in solution-set form.  [sat s e]: substitution s satisfies every binding
    of env e.  For =/2 and clause-head unification (no occurs check), for every
    env, every pair of terms and every fuel:
    - success with an env that is not marked "subject to occurs check":
      the solutions of the new env are exactly the solutions of the old env
      that make the two terms equal;
    - failure: no solution of the old env makes them equal. *)
Theorem C02_unify_mgu : forall fuel e x y, good_result (unify_f fuel false e x y) e x y.
Proof. exact unify_mgu. Qed.
Print Assumptions C02_unify_mgu.

Theorem C02_unify_makes_identical :
  forall fuel e x y e', unify_f fuel false e x y = UOk e' -> poisoned e' = false ->
    forall s, sat s e' -> apply s x = apply s y.
Proof. exact unify_makes_identical. Qed.

Theorem C02_unify_most_general :
  forall fuel e x y e', unify_f fuel false e x y = UOk e' -> poisoned e' = false ->
    forall s, sat s e -> apply s x = apply s y -> sat s e'.
Proof. exact unify_most_general. Qed.

Theorem C02_unify_fails_only_if_not_unifiable :
  forall fuel e x y, unify_f fuel false e x y = UFail -> forall s, sat s e -> apply s x <> apply s y.
Proof. exact unify_fails_only_if_not_unifiable. Qed.

Theorem C02_unify_symmetric :
  forall f1 f2 e x y e1 e2,
    unify_f f1 false e x y = UOk e1 -> poisoned e1 = false ->
    unify_f f2 false e y x = UOk e2 -> poisoned e2 = false ->
    forall s, sat s e1 <-> sat s e2.
Proof. exact unify_symmetric. Qed.

Theorem C02_unify_symmetric_failure :
  forall f1 f2 e x y e1,
    unify_f f1 false e x y = UOk e1 -> poisoned e1 = false -> (exists s, sat s e1) ->
    unify_f f2 false e y x <> UFail.
Proof. exact unify_symmetric_failure. Qed.

Theorem C02_unify_extends :
  forall fuel e x y e', unify_f fuel false e x y = UOk e' -> poisoned e' = false ->
    forall s, sat s e' -> sat s e.
Proof. exact unify_extends. Qed.
Print Assumptions C02_unify_symmetric.

(** "succeeds iff unifiable", the remaining half: a success that is not subject to
    occurs check has a solution -- some substitution satisfies the resulting
    bindings and makes the two terms equal (the bindings are acyclic; the proof
    carries a solved form of the env as an invariant) *)
Theorem C02_unify_succeeds_only_if_unifiable :
  forall fuel x y e, unify_f fuel false empty_env x y = UOk e -> poisoned e = false ->
    exists s, sat s e /\ apply s x = apply s y.
Proof. exact unify_ok_unifiable. Qed.
(** and so does every env reached from a solvable one, e.g. along a derivation *)
Theorem C02_unify_keeps_solvable :
  forall fuel e x y e', (exists s, Inv e s) -> unify_f fuel false e x y = UOk e' -> poisoned e' = false ->
    exists s, Inv e' s.
Proof. exact unify_keeps_solvable. Qed.

(** unify_with_occurs_check/2 agrees with =/2 when the unifier is finite and fails
    otherwise *)
Theorem C02_occurs_check_agrees :
  forall fuel e x y, poisoned e = false -> oc_rel (unify_f fuel false e x y) (unify_f fuel true e x y).
Proof. exact occurs_check_agrees. Qed.
Theorem C02_occurs_check_finite :
  forall fuel x y e, unify_f fuel false empty_env x y = UOk e -> poisoned e = false ->
    unify_f fuel true empty_env x y = UOk e.
Proof. exact occurs_check_finite. Qed.
Theorem C02_occurs_check_infinite :
  forall fuel x y e, unify_f fuel false empty_env x y = UOk e -> poisoned e = true ->
    unify_f fuel true empty_env x y = UFail.
Proof. exact occurs_check_infinite. Qed.
Print Assumptions C02_unify_succeeds_only_if_unifiable.
Print Assumptions C02_occurs_check_agrees.

(** non-vacuity *)
Open Scope string_scope.
Example C02_example_success :
  match unify empty_env (Cmp "f" [Var 0; Cmp "g" [Var 1]]) (Cmp "f" [Atom "a"; Var 2]) with
  | UOk e => poisoned e = false /\ walk e (Var 0) = Atom "a" /\ walk e (Var 2) = Cmp "g" [Var 1]
  | _ => False
  end.
Proof. vm_compute. repeat split; reflexivity. Qed.
Example C02_example_failure : unify empty_env (Cmp "f" [Atom "a"]) (Cmp "f" [Atom "a"; Atom "b"]) = UFail.
Proof. reflexivity. Qed.
Example C02_example_sto : match unify empty_env (Var 0) (Cmp "f" [Var 0]) with UOk e => poisoned e = true | _ => False end.
Proof. vm_compute. reflexivity. Qed.

(** clause-head unification: the Get instructions that the compiler emits for a
    head argument, run by the machine against a goal argument, compute the same
    solution set as unifying the argument with the head argument renamed by the
    activation's frame (Proofs/HeadExec.v; the statement for whole clause
    activations is C10_head_code_is_unification) *)
From PV Require Import Model.Clause Proofs.HeadExec.
Theorem C02_clause_head_unification :
  forall t cvs cvs1 code, compile_head_arg t cvs = (cvs1, code) -> wf_term t = true ->
    forall ext vb a, get_spec code vb [a] [inst (cvs1 ++ ext) vb t].
Proof. exact head_arg_get_spec. Qed.
Print Assumptions C02_clause_head_unification.
