(** C06 -- text written by writeq/write_canonical reads back as the same term.
    Property theorems only.  PARTIAL: the theorem covers the canonical fragment
    (plain atoms, integers, compounds in functional notation, any nesting, any
    continuation of the text) and the quoting of atoms (every text, every set of
    accepted characters); operators, floats, lists, variables and the
    flags are decided on the implementation by round trips over generated terms
    and operator tables, which is testing, not proof. *)
From Coq Require Import ZArith Bool List String.
From PV Require Import Model.Term Model.Canon Proofs.Canon Model.Quote Proofs.Quote Model.CanonLex Proofs.CanonLex.
Import ListNotations.

Theorem C06_canonical_roundtrip : forall t, canon_ok t = true ->
  forall fuel rest, (tsize t < fuel)%nat -> no_open rest -> parse fuel (pr t ++ rest) = Some (t, rest).
Proof. exact canonical_roundtrip. Qed.

Theorem C06_canonical_roundtrip_text : forall t, canon_ok t = true -> parse (S (tsize t)) (pr t) = Some (t, []).
Proof. exact canonical_roundtrip_text. Qed.

(** quoted atoms: for every text of valid code points and whatever characters the reader
    accepts between quotes, reading what quote() wrote gives the text back *)
Theorem C06_quoted_atom_roundtrip : forall (accept : Z -> bool) (s : list Z),
  Forall (fun c => valid_cp c = true) s -> read_quoted accept (quote accept s) = Some s.
Proof. exact read_quoted_quote. Qed.

(** down to the characters: for names made of a lower-case letter followed by
    letters, digits and underscores, and decimal integers, the text of the
    writer's tokens is taken apart into exactly those tokens by maximal munch
    (every name or number is followed by punctuation or the end), and the whole
    text reads back as the term *)
Theorem C06_canonical_text_lexes : forall l fuel, lexable l = true -> (List.length l < fuel)%nat -> lex fuel (show l) = Some l.
Proof. exact lex_show. Qed.
Theorem C06_canonical_text_roundtrip : forall t, plain_term t = true -> read_text (show (pr t)) = Some t.
Proof. exact read_text_roundtrip. Qed.
Print Assumptions C06_canonical_text_roundtrip.

Print Assumptions C06_canonical_roundtrip.
Print Assumptions C06_quoted_atom_roundtrip.

Open Scope string_scope.
Example C06_text_nonvacuous :
  read_text "foo(a,-12,g(0),b_1X)" = Some (Cmp "foo" [Atom "a"; Int (-12); Cmp "g" [Int 0]; Atom "b_1X"]) /\
  read_text "foo(a,- 12)" = None.
Proof. vm_compute. split; reflexivity. Qed.
Example C06_nonvacuous :
  show (pr (Cmp "foo" [Atom "a"; Int (-12); Cmp "g" [Int 0]])) = "foo(a,-12,g(0))" /\
  parse 10 (pr (Cmp "foo" [Atom "a"; Int (-12); Cmp "g" [Int 0]])) = Some (Cmp "foo" [Atom "a"; Int (-12); Cmp "g" [Int 0]], []).
Proof. vm_compute. split; reflexivity. Qed.
