(** C09 -- database updates follow the logical update view; retract removes its match.
    Property theorems only, over the machine model M. *)
From Coq Require Import ZArith Bool List String.
From PV Require Import Model.Term Model.Unify Model.Clause Model.Machine Proofs.Db.
Import ListNotations.
Open Scope Z_scope.

(** A call to a predicate fixes its alternatives -- the clauses that exist at
    that moment, in that order -- when it is made; each alternative carries its
    own clause, and making the call does not touch the database. *)
Theorem C09_call_sees_snapshot :
  forall cs args k e st p st',
    clauses_call cs args k e st = (p, st') ->
    p_delayed p = map (fun c => ThClause c args k e (p_id p)) cs /\
    s_db st' = s_db st /\ p_cutp p = None /\ p_recover p = None.
Proof. exact call_sees_snapshot. Qed.
Print Assumptions C09_call_sees_snapshot.

(** Whatever happens to the database while the call is open, an alternative
    runs the clause it was given. *)
Theorem C09_alternative_ignores_database :
  forall f c args k e pid st db',
    fst (run_thunk (S f) (ThClause c args k e pid) (set_db st db')) =
    fst (let '(vs, st1) := fresh_vars (List.length (c_vars c)) (set_db st db') in
         exec f (c_code c) vs k args [] e pid st1).
Proof. exact alternative_ignores_database. Qed.
Print Assumptions C09_alternative_ignores_database.

(** retract/1: the clause that unified (identity cid), and only that clause,
    leaves the procedure; a clause that is already gone is not removed again. *)
Theorem C09_retract_removes_its_match :
  forall f cid uid k e st p,
    poisoned e = false ->
    find (fun p => Z.eqb (pr_uid p) uid) (s_db st) = Some p ->
    (In cid (clause_ids p) ->
       apply_cont (S f) (KRetractDel cid uid k) e st =
       apply_cont f k e (set_db st (update_proc (s_db st)
            (mkProc (pr_name p) (pr_arity p) (pr_uid p) (pr_dynamic p) (pr_public p)
                    (filter (fun c => negb (Z.eqb (c_cid c) cid)) (pr_clauses p)))))) /\
    (~ In cid (clause_ids p) ->
       apply_cont (S f) (KRetractDel cid uid k) e st = (PBool false, st)).
Proof. exact retract_removes_its_match. Qed.
Print Assumptions C09_retract_removes_its_match.

Theorem C09_removal_is_exact :
  forall (cs : list clause) cid,
    NoDup (map c_cid cs) -> In cid (map c_cid cs) ->
    exists pre c post, cs = pre ++ c :: post /\ c_cid c = cid /\
      filter (fun c => negb (Z.eqb (c_cid c) cid)) cs = pre ++ post.
Proof. exact filter_removes_exactly. Qed.
Print Assumptions C09_removal_is_exact.

(** non-vacuity (F2, repaired): d0(0). d0(0). ?- retract(d0(0)), retractall(d0(0)). *)
From PV Require Import Model.Boot.
Open Scope string_scope.
Example C09_retract_under_update :
  run 4000 (dynamic_db [Cmp "d0" [Int 0]; Cmp "d0" [Int 0]])
      (Cmp "," [Cmp "retract" [Cmp "d0" [Int 0]]; Cmp "retractall" [Cmp "d0" [Int 0]]]) [] 10 = ([[]], EndNo).
Proof. vm_compute. reflexivity. Qed.
