(** C19 -- a stream is one forward cursor: peeks do not consume, nothing skipped or repeated.
    Property theorems only, over Model/Stream.v (the cursor model that the
    implementation's get/peek char/byte, read/1 and stream properties are compared
    with, operation by operation). *)
From Coq Require Import ZArith Bool List.
From PV Require Import Model.Stream Proofs.Stream.
Import ListNotations.
Open Scope Z_scope.

Theorem C19_peek_keeps_cursor : forall s o s' r, is_peek o = true -> step s o = (s', r) -> src s' = src s /\ pos s' = pos s.
Proof. exact peek_keeps_cursor. Qed.
Theorem C19_peek_pure : forall s o s' r, is_peek o = true -> own_type s o = true -> step s o = (s', r) -> s' = s.
Proof. exact peek_pure. Qed.

Theorem C19_nothing_skipped_or_repeated : forall ops s s' rs,
  run s ops = (s', rs) ->
  src s' = src s /\ (pos s <= pos s')%nat /\ concat (extents s ops) = slice (src s) (pos s) (pos s').
Proof. exact extents_tile. Qed.
Theorem C19_peeks_consume_nothing : forall s o, is_peek o = true -> slice (src s) (pos s) (pos (fst (step s o))) = [].
Proof. exact peek_extent_empty. Qed.

Theorem C19_get_byte : forall s s' b, binary s = true -> past s = false -> step s GetByte = (s', RCode b) -> 0 <= b ->
  nth_error (src s) (pos s) = Some b /\ pos s' = S (pos s).
Proof. exact get_byte_spec. Qed.
Theorem C19_get_char : forall s s' c, binary s = false -> past s = false -> step s GetChar = (s', RCode c) -> 0 <= c ->
  exists n, decode (remaining s) = (c, n) /\ pos s' = (pos s + n)%nat.
Proof. exact get_char_spec. Qed.

Theorem C19_position_is_cursor : forall s, step s QPos = (s, RPos (Z.of_nat (pos s))).
Proof. exact position_is_cursor. Qed.

Theorem C19_eos_never_early : forall ops bytes a b s' rs,
  run (mkS bytes 0 false a b) ops = (s', rs) ->
  (pos s' < List.length (src s'))%nat -> step s' QEos = (s', REos 0).
Proof. exact eos_never_early. Qed.

Theorem C19_eos_past_after_eof : forall s o s',
  Forall (fun b => 0 <= b) (src s) ->
  (o = GetChar /\ step s o = (s', RCode (-1))) \/ (o = GetByte /\ step s o = (s', RCode (-1))) \/ (o = ReadTerm /\ step s o = (s', RTok [])) ->
  step s' QEos = (s', REos 2).
Proof. exact eos_past_after_eof. Qed.

Theorem C19_eof_action_error : forall s o, past s = true -> act s = AError -> is_read o = true -> step s o = (s, RErr 1).
Proof. exact eof_action_error. Qed.
Theorem C19_eof_action_eof_code : forall s, inv s -> past s = true -> act s = ACode ->
  (binary s = false -> step s GetChar = (s, RCode (-1)) /\ step s PeekChar = (s, RCode (-1))) /\
  (binary s = true -> step s GetByte = (s, RCode (-1)) /\ step s PeekByte = (s, RCode (-1))).
Proof. exact eof_action_eof_code. Qed.
Theorem C19_eof_action_reset : forall s, inv s -> past s = true -> act s = AReset ->
  (binary s = false -> snd (step s GetChar) = RCode (-1) /\ past (fst (step s GetChar)) = true /\ pos (fst (step s GetChar)) = pos s) /\
  (binary s = true -> snd (step s GetByte) = RCode (-1) /\ past (fst (step s GetByte)) = true /\ pos (fst (step s GetByte)) = pos s).
Proof. exact eof_action_reset. Qed.

Print Assumptions C19_nothing_skipped_or_repeated.
Print Assumptions C19_eos_never_early.
Print Assumptions C19_eos_past_after_eof.
Print Assumptions C19_peek_pure.

(** non-vacuity: "foo. é" -- read, peek, get, get, get, get *)
Example C19_nonvacuous :
  snd (run (mkS [102; 111; 111; 46; 32; 195; 169] 0 false AError false) [ReadTerm; PeekChar; GetChar; QPos; GetChar; QPos; GetChar; QEos; GetChar])
  = [RTok [102; 111; 111]; RCode 32; RCode 32; RPos 5; RCode 233; RPos 7; RCode (-1); REos 2; RErr 1].
Proof. vm_compute. reflexivity. Qed.
