(** C01 -- answers are those of depth-first, left-to-right SLD resolution.
    Property theorems only (closed by [exact]); see DESIGN.md section 5 C01
    for the full statement and for what is still missing. *)
From Coq Require Import ZArith Bool List String.
From PV Require Import Model.Term Model.Unify Model.Clause Model.Machine Proofs.Promise Proofs.Trampoline Proofs.FuelMono Proofs.ForceComplete.
Import ListNotations.
Open Scope Z_scope.

(** Alternatives are discarded only by a cut, and a cut whose parent is on the
    stack discards exactly the frames above and including that parent. *)
Theorem C01_pop_until_found :
  forall c above p below, stands_for c p = true -> forallb (fun q => negb (stands_for c q)) above = true ->
    pop_until c (above ++ p :: below) = below.
Proof. exact pop_until_found. Qed.
Print Assumptions C01_pop_until_found.

Theorem C01_pop_until_suffix : forall c s, exists pre, s = pre ++ pop_until c s.
Proof. exact pop_until_suffix. Qed.
Print Assumptions C01_pop_until_suffix.

(** The trampoline (Promise.Force with its explicit stack, child, popUntil and
    recover) computes the compositional depth-first semantics [Run]: the outcome
    of the top promise -- its alternatives left to right, the first success
    wins, a cut prunes to its parent, an error unwinds to the innermost frame
    whose handler accepts it -- resumed on the frames below.  For every stack,
    every state, every program and every amount of fuel that suffices. *)
Theorem C01_force_is_depth_first :
  forall fuel stack st r st', force fuel stack st = (r, st') -> r <> FOutOfFuel -> Run stack st r st'.
Proof. exact (fun fuel => proj1 (force_sound fuel)). Qed.
Print Assumptions C01_force_is_depth_first.

(** non-vacuity: a concrete run of the machine that is not out of fuel *)
Example C01_run_example :
  exists r st', force 50 [mkP 7 [ThUnify (Var 0) (Int 1) KTop empty_env] false None None None false None None]
                      (init_state [] 100 [Var 0] 5 None) = (r, st') /\ r = FFalse /\ s_answers st' = [[Int 1]].
Proof. eexists _, _. split; [vm_compute; reflexivity | split; reflexivity]. Qed.

(** What M computes does not depend on the fuel: a run of the trampoline that
    ends otherwise than by lack of fuel ends in the same way and in the same
    state with any larger amount ([C01_force_fuel_monotone]), so two such runs
    agree ([C01_force_deterministic]); for a whole query the answers handed to
    the consumer (in order), the end of the search -- "no (more) answers", an
    error, the consumer satisfied -- and the final database are a function of
    program, query, limit and cancellation budget.  All eleven mutually
    recursive functions of the machine are covered (Proofs/FuelMono.v). *)
Theorem C01_force_fuel_monotone :
  forall n m stack st r st', (n <= m)%nat ->
    force n stack st = (r, st') -> r <> FOutOfFuel -> force m stack st = (r, st').
Proof. exact force_mono. Qed.
Print Assumptions C01_force_fuel_monotone.

Theorem C01_force_deterministic :
  forall n1 n2 stack st r1 st1 r2 st2,
    force n1 stack st = (r1, st1) -> r1 <> FOutOfFuel ->
    force n2 stack st = (r2, st2) -> r2 <> FOutOfFuel ->
    r1 = r2 /\ st1 = st2.
Proof. exact force_deterministic. Qed.
Print Assumptions C01_force_deterministic.

Theorem C01_answers_do_not_depend_on_fuel :
  forall n1 n2 db nextv q qvars limit polls r1 st1 r2 st2,
    run_query n1 db nextv q qvars limit polls = (r1, st1) -> r1 <> FOutOfFuel ->
    run_query n2 db nextv q qvars limit polls = (r2, st2) -> r2 <> FOutOfFuel ->
    r1 = r2 /\ s_answers st1 = s_answers st2 /\ s_db st1 = s_db st2.
Proof. exact run_query_deterministic. Qed.
Print Assumptions C01_answers_do_not_depend_on_fuel.

(** non-vacuity: the run of [C01_run_example] with 50 and with 500 units of fuel *)
Example C01_fuel_example :
  let stack := [mkP 7 [ThUnify (Var 0) (Int 1) KTop empty_env] false None None None false None None] in
  let st := init_state [] 100 [Var 0] 5 None in
  fst (force 50 stack st) = FFalse /\ force 500 stack st = force 50 stack st.
Proof. split; vm_compute; reflexivity. Qed.

(** Conversely, whatever the compositional semantics derives (otherwise than
    "out of fuel") the trampoline computes with enough fuel: [Run] and [force]
    define the same partial function of stack and state, so everything stated
    about [Run], [Resume], [After], [Recover] (C03, C04, C13) is a statement
    about what the trampoline returns (Proofs/ForceComplete.v). *)
Theorem C01_force_complete :
  forall stack st r st', Run stack st r st' -> r <> FOutOfFuel -> exists n, force n stack st = (r, st').
Proof. exact force_complete. Qed.
Print Assumptions C01_force_complete.

Theorem C01_force_iff_run :
  forall stack st r st', r <> FOutOfFuel ->
    ((exists n, force n stack st = (r, st')) <-> Run stack st r st').
Proof. exact force_iff_run. Qed.
Print Assumptions C01_force_iff_run.

Theorem C01_run_deterministic :
  forall stack st r1 st1 r2 st2,
    Run stack st r1 st1 -> r1 <> FOutOfFuel -> Run stack st r2 st2 -> r2 <> FOutOfFuel -> r1 = r2 /\ st1 = st2.
Proof. exact run_deterministic. Qed.
Print Assumptions C01_run_deterministic.
