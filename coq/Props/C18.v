(** C18 -- the operator table evolves as op/3 defines; failed updates change nothing.
    Property theorems only, over Model/OpTable.v (mirror of Op/validateOp/operators). *)
From Coq Require Import ZArith Bool List String.
From PV Require Import Model.OpTable Proofs.OpTable Model.OpCheck.
Import ListNotations.
Open Scope string_scope.
Open Scope Z_scope.

(** An op/3 call that raises an error -- including one invalid or forbidden
    element anywhere in a list of names -- leaves the table exactly as it was. *)
Theorem C18_failed_is_noop : forall t pa sa na t' e, op_call t pa sa na = (t', Some e) -> t' = t.
Proof. exact op_failed_is_noop. Qed.
Print Assumptions C18_failed_is_noop.

(** After ANY sequence of op/3 calls from a table satisfying it, the ISO
    invariant holds: priorities within 1..1200, one definition per name and
    class, never an infix and a postfix operator of the same name, '|' only
    infix with priority above 1000, '[]' and '{}' never operators. *)
Theorem C18_ops_inv : forall cs t, Inv t -> Inv (run_calls t cs).
Proof. exact ops_inv. Qed.
Print Assumptions C18_ops_inv.

(** the table the interpreter starts with (regenerated from bootstrap.pl) satisfies it *)
Theorem C18_bootstrap_inv_excl :
  forallb (fun o => negb (defined_in_class bootstrap_table (o_name o) Infix && defined_in_class bootstrap_table (o_name o) Postfix)) bootstrap_table = true
  /\ forallb (fun o => (1 <=? o_pri o) && (o_pri o <=? 1200)) bootstrap_table = true
  /\ forallb (fun o => negb (String.eqb (o_name o) "[]" || String.eqb (o_name o) "{}")) bootstrap_table = true.
Proof. repeat split; vm_compute; reflexivity. Qed.

(** latest definition wins, priority 0 removes, nothing else moves *)
Theorem C18_latest_wins : forall t p s n,
  filter (in_slot n (class_of s)) (update t p s n) = if p =? 0 then [] else [mkOp n p s].
Proof. exact update_slot. Qed.
Theorem C18_other_slots_untouched : forall t p s n n' c',
  (n', c') <> (n, class_of s) -> filter (in_slot n' c') (update t p s n) = filter (in_slot n' c') t.
Proof. exact update_other_slot. Qed.

(** ',' cannot be modified *)
Theorem C18_comma_unmodifiable : forall t pa sa na,
  defined_in_class t "," Infix = true ->
  forall c, filter (in_slot "," c) (fst (op_call t pa sa na)) = filter (in_slot "," c) t.
Proof. exact comma_unmodifiable. Qed.
Print Assumptions C18_comma_unmodifiable.

Example C18_example :
  defined_in_class bootstrap_table "," Infix = true /\
  snd (op_call bootstrap_table (PInt 200) (SAtom "xfy") (NList [IAtom "foo"; IAtom "[]"] (IAtom "[]"))) = Some (EPermCreate "[]") /\
  snd (op_call bootstrap_table (PInt 700) (SAtom "xfx") (NAtom "===>")) = None.
Proof. repeat split; vm_compute; reflexivity. Qed.
