(** The arithmetic comparisons of number.go (as regenerated) on floats and on
    mixed integer/float operands against the order of the reals: two finite
    floats compare as their values do; an integer and a float compare as the
    correctly rounded binary64 of the integer (ties to even) and the float's
    value do -- the ISO rule "convert the integer, then compare". *)
From Coq Require Import ZArith Reals Bool Lia Lra.
From Flocq Require Import Core IEEE754.BinarySingleNaN IEEE754.Binary IEEE754.Bits.
From PV Require Import Model.GoInt Model.F64 Model.Num Gen.Arith_gen Proofs.FloatToInt.
Open Scope R_scope.

Definition is_lt (c : comparison) : bool := match c with Lt => true | _ => false end.
Definition is_gt (c : comparison) : bool := match c with Gt => true | _ => false end.
Definition is_eq (c : comparison) : bool := match c with Eq => true | _ => false end.
Definition is_le (c : comparison) : bool := negb (is_gt c).
Definition is_ge (c : comparison) : bool := negb (is_lt c).

Notation V x := (B2R 53 1024 x).
Definition rnd64 (n : Z) : R := round radix2 (SpecFloat.fexp 53 1024) (round_mode mode_NE) (IZR n).

Lemma fcmp_correct (x y : f64) : fis_finite x = true -> fis_finite y = true ->
  fcmp x y = Some (Rcompare (V x) (V y)).
Proof. intros Hx Hy. unfold fcmp, b64_compare. apply (Bcompare_correct 53 1024 x y Hx Hy). Qed.

Section FF.
Variables x y : f64.
Hypothesis Hx : fis_finite x = true.
Hypothesis Hy : fis_finite y = true.
Let c := Rcompare (V x) (V y).

Theorem eqF_correct : eqF x y = is_eq c.
Proof. unfold eqF, feq. rewrite (fcmp_correct x y Hx Hy). fold c. destruct c; reflexivity. Qed.
Theorem neqF_correct : neqF x y = negb (is_eq c).
Proof. unfold neqF, fne, feq. rewrite (fcmp_correct x y Hx Hy). fold c. destruct c; reflexivity. Qed.
Theorem lssF_correct : lssF x y = is_lt c.
Proof. unfold lssF, flt. rewrite (fcmp_correct x y Hx Hy). fold c. destruct c; reflexivity. Qed.
Theorem gtrF_correct : gtrF x y = is_gt c.
Proof. unfold gtrF, fgt. rewrite (fcmp_correct x y Hx Hy). fold c. destruct c; reflexivity. Qed.
Theorem leqF_correct : leqF x y = is_le c.
Proof. unfold leqF, fle. rewrite (fcmp_correct x y Hx Hy). fold c. destruct c; reflexivity. Qed.
Theorem geqF_correct : geqF x y = is_ge c.
Proof. unfold geqF, fge. rewrite (fcmp_correct x y Hx Hy). fold c. destruct c; reflexivity. Qed.
End FF.

(** float against integer, and integer against float *)
Section FI.
Variables (x : f64) (n : Z).
Hypothesis Hx : fis_finite x = true.
Hypothesis Hn : int64b n = true.
Let c := Rcompare (V x) (rnd64 n).   (* the float on the left *)

Let HF : V (floatItoF n) = rnd64 n /\ fis_finite (floatItoF n) = true := floatItoF_correct n Hn.

Theorem eqFI_correct : eqFI x n = is_eq c /\ eqIF n x = is_eq c.
Proof. destruct HF as [E F]. unfold eqIF, eqFI. cbv zeta. rewrite (eqF_correct x _ Hx F), E. split; reflexivity. Qed.
Theorem neqFI_correct : neqFI x n = negb (is_eq c) /\ neqIF n x = negb (is_eq c).
Proof. destruct HF as [E F]. unfold neqIF, neqFI. cbv zeta. rewrite (neqF_correct x _ Hx F), E. split; reflexivity. Qed.
(** x < n, and n > x *)
Theorem lssFI_correct : lssFI x n = is_lt c /\ gtrIF n x = is_lt c.
Proof. destruct HF as [E F]. unfold gtrIF, lssFI. cbv zeta. rewrite (lssF_correct x _ Hx F), E. split; reflexivity. Qed.
(** x > n, and n < x *)
Theorem gtrFI_correct : gtrFI x n = is_gt c /\ lssIF n x = is_gt c.
Proof. destruct HF as [E F]. unfold lssIF, gtrFI. cbv zeta. rewrite (gtrF_correct x _ Hx F), E. split; reflexivity. Qed.
(** x >= n, and n =< x *)
Theorem geqFI_correct : geqFI x n = is_ge c /\ leqIF n x = is_ge c.
Proof. destruct HF as [E F]. unfold leqIF, geqFI. cbv zeta. rewrite (geqF_correct x _ Hx F), E. split; reflexivity. Qed.
(** x =< n, and n >= x *)
Theorem leqFI_correct : leqFI x n = is_le c /\ geqIF n x = is_le c.
Proof. destruct HF as [E F]. unfold geqIF, leqFI. cbv zeta. rewrite (leqF_correct x _ Hx F), E. split; reflexivity. Qed.
End FI.
