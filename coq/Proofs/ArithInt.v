(** Exactness of the integer kernels of engine/number.go (as regenerated in
    Gen/Arith_gen.v): each returns the mathematically exact result when it fits
    int64 and the right evaluation error otherwise; never Panic / ConvUB. *)
From Coq Require Import ZArith Bool List Lia.
From PV Require Import Model.GoInt Model.F64 Model.Num Gen.Arith_gen.
Open Scope Z_scope.

Ltac Zify.zify_post_hook ::= Z.div_mod_to_equations.

Ltac u64 := unfold int64, add64, sub64, mul64, neg64, wrap, two63, two64, minI, maxI in *.

Lemma wrap_id z : int64 z -> wrap z = z.
Proof. u64; lia. Qed.

Lemma wrap_range z : int64 (wrap z).
Proof. u64; lia. Qed.

Lemma wrap_cong z : exists k, wrap z = z + k * two64.
Proof. exists (- ((z + two63) / two64)). u64; lia. Qed.

Lemma wrap_outside z : ~ int64 z -> wrap z <> z.
Proof. u64; lia. Qed.

(** boolean tests to propositions *)
Ltac btest :=
  repeat match goal with
  | H : context [Z.gtb ?a ?b] |- _ => rewrite (Z.gtb_ltb a b) in H
  | |- context [Z.gtb ?a ?b] => rewrite (Z.gtb_ltb a b)
  | H : context [Z.geb ?a ?b] |- _ => rewrite (Z.geb_leb a b) in H
  | |- context [Z.geb ?a ?b] => rewrite (Z.geb_leb a b)
  end.

Ltac dtest :=
  match goal with
  | |- context [Z.ltb ?a ?b] => destruct (Z.ltb_spec a b)
  | |- context [Z.leb ?a ?b] => destruct (Z.leb_spec a b)
  | |- context [Z.eqb ?a ?b] => destruct (Z.eqb_spec a b)
  end.

(** ---- + - ------------------------------------------------------------- *)

Definition exact_or_overflow (r : resE Z) (v : Z) : Prop :=
  match r with
  | Ok z => z = v /\ int64 v
  | Err (EExc IntOverflow) => ~ int64 v
  | _ => False
  end.

Lemma addI_exact x y : int64 x -> int64 y -> exact_or_overflow (addI x y) (x + y).
Proof.
  intros Hx Hy. unfold addI, exact_or_overflow. btest.
  repeat (dtest; cbn [andb negb]); u64; try lia.
Qed.

Lemma subI_exact x y : int64 x -> int64 y -> exact_or_overflow (subI x y) (x - y).
Proof.
  intros Hx Hy. unfold subI, exact_or_overflow. btest.
  repeat (dtest; cbn [andb negb]); u64; try lia.
Qed.

Lemma negI_exact x : int64 x -> exact_or_overflow (negI x) (- x).
Proof.
  intros Hx. unfold negI, exact_or_overflow.
  repeat (dtest; cbn [andb negb]); u64; try lia.
Qed.

Lemma absI_exact x : int64 x -> exact_or_overflow (absI x) (Z.abs x).
Proof.
  intros Hx. unfold absI, exact_or_overflow.
  repeat (dtest; cbn [andb negb]); u64; try lia.
Qed.

Lemma signI_exact x : signI x = Z.sgn x.
Proof. unfold signI. btest. repeat dtest; lia. Qed.

Lemma posI_exact x : posI x = Ok x.
Proof. reflexivity. Qed.

(** ---- * ----------------------------------------------------------------- *)

Lemma quot_abs_le a b : b <> 0 -> Z.abs (Z.quot a b) <= Z.abs a.
Proof.
  intros Hb. rewrite <- Z.quot_abs by assumption.
  rewrite Z.quot_div_nonneg by lia.
  apply Z.div_le_upper_bound; nia.
Qed.

(** the heart of mulI: Go's test [r / y != x] on the wrapped product detects
    overflow exactly (the two excluded pairs are tested beforehand). *)
Lemma mul_overflow_test x y :
  int64 x -> int64 y -> y <> 0 ->
  ~ (x = -1 /\ y = minI) -> ~ (x = minI /\ y = -1) ->
  (wrap (Z.quot (wrap (x * y)) y) = x <-> int64 (x * y)).
Proof.
  intros Hx Hy Hy0 H1 H2. split.
  - intros Hq.
    destruct (wrap_cong (x * y)) as [k Hk].
    set (r := wrap (x * y)) in *.
    assert (Hr : int64 r) by apply wrap_range.
    destruct (Z.eq_dec k 0) as [->|Hk0]; [ rewrite Z.add_0_r in Hk; rewrite <- Hk; exact Hr |].
    exfalso.
    pose proof (quot_abs_le r y Hy0) as Hle.
    pose proof (Z.quot_rem' r y) as Hqr.
    pose proof (Z.rem_bound_abs r y Hy0) as Hb.
    destruct (Z.eq_dec (Z.quot r y) two63) as [Htop|Htop].
    + (* only minI / -1 reaches 2^63; then the wrapped quotient is minI = x *)
      rewrite Htop in Hq. assert (x = minI) by (rewrite <- Hq; reflexivity).
      assert (r = minI) by (unfold int64, two63, minI, maxI in *; lia).
      assert (y = -1) by (unfold int64, two63, minI, maxI in *; nia).
      apply H2; split; assumption.
    + assert (Hin : int64 (Z.quot r y)) by (unfold int64, two63, minI, maxI in *; lia).
      rewrite (wrap_id _ Hin) in Hq. rewrite Hq in Hqr.
      unfold int64, two64, minI, maxI in *. nia.
  - intros Hin. rewrite (wrap_id _ Hin), Z.quot_mul by assumption. apply wrap_id; assumption.
Qed.

Lemma mulI_exact x y : int64 x -> int64 y -> exact_or_overflow (mulI x y) (x * y).
Proof.
  intros Hx Hy. unfold mulI, exact_or_overflow.
  destruct (andb (Z.eqb x (-1)) (Z.eqb y minI)) eqn:E1.
  { apply andb_prop in E1 as [A B]. apply Z.eqb_eq in A, B. subst. u64; lia. }
  destruct (andb (Z.eqb x minI) (Z.eqb y (-1))) eqn:E2.
  { apply andb_prop in E2 as [A B]. apply Z.eqb_eq in A, B. subst. u64; lia. }
  destruct (Z.eqb_spec y 0) as [->|Hy0].
  { rewrite Z.mul_0_r. split; [reflexivity | u64; lia]. }
  unfold quot64. destruct (Z.eqb_spec y 0); [contradiction|]. cbn [bind].
  assert (H1 : ~ (x = -1 /\ y = minI)).
  { intros [-> ->]. rewrite !Z.eqb_refl in E1. discriminate. }
  assert (H2 : ~ (x = minI /\ y = -1)).
  { intros [-> ->]. rewrite !Z.eqb_refl in E2. discriminate. }
  pose proof (mul_overflow_test x y Hx Hy Hy0 H1 H2) as [Hf Hb].
  unfold mul64. destruct (Z.eqb_spec (wrap (Z.quot (wrap (x * y)) y)) x) as [Heq|Hne]; cbn [negb].
  - split; [apply wrap_id; auto | auto].
  - intro Hin. apply Hne, Hb, Hin.
Qed.

(** ---- // rem mod div ------------------------------------------------------ *)

Definition div_spec (r : resE Z) (y v : Z) : Prop :=
  match r with
  | Ok z => y <> 0 /\ z = v /\ int64 v
  | Err (EExc ZeroDivisor) => y = 0
  | Err (EExc IntOverflow) => y <> 0 /\ ~ int64 v
  | _ => False
  end.

Lemma quot_in_range x y : int64 x -> int64 y -> y <> 0 -> ~ (x = minI /\ y = -1) -> int64 (Z.quot x y).
Proof.
  intros Hx Hy Hy0 Hn. pose proof (quot_abs_le x y Hy0).
  destruct (Z.eq_dec (Z.quot x y) two63) as [E|E].
  - exfalso. pose proof (Z.quot_rem' x y). pose proof (Z.rem_bound_abs x y Hy0).
    assert (x = minI) by (unfold int64, two63, minI, maxI in *; lia).
    apply Hn. split; [assumption|]. unfold int64, two63, minI, maxI in *; nia.
  - unfold int64, two63, minI, maxI in *; lia.
Qed.

Lemma intDivI_exact x y : int64 x -> int64 y -> div_spec (intDivI x y) y (Z.quot x y).
Proof.
  intros Hx Hy. unfold intDivI, div_spec.
  destruct (Z.eqb_spec y 0) as [->|Hy0]; [reflexivity|].
  destruct (andb (Z.eqb x minI) (Z.eqb y (-1))) eqn:E.
  { apply andb_prop in E as [A B]. apply Z.eqb_eq in A, B. subst.
    split; [lia|]. vm_compute. intros [_ H]. apply H. reflexivity. }
  unfold quot64. destruct (Z.eqb_spec y 0); [contradiction|]. cbn [bind].
  assert (Hn : ~ (x = minI /\ y = -1)).
  { intros [-> ->]. rewrite !Z.eqb_refl in E. discriminate. }
  pose proof (quot_in_range x y Hx Hy Hy0 Hn) as Hq.
  rewrite (wrap_id _ Hq). auto.
Qed.

Lemma rem_in_range x y : int64 x -> int64 y -> y <> 0 -> int64 (Z.rem x y).
Proof.
  intros Hx Hy Hy0. pose proof (Z.rem_bound_abs x y Hy0). unfold int64, minI, maxI in *. lia.
Qed.

(** remI: Go computes x - (x / y) * y with wrapping; still exactly Z.rem *)
Lemma remI_exact x y : int64 x -> int64 y -> div_spec (remI x y) y (Z.rem x y).
Proof.
  intros Hx Hy. unfold remI, div_spec.
  destruct (Z.eqb_spec y 0) as [->|Hy0]; [reflexivity|].
  unfold quot64. destruct (Z.eqb_spec y 0); [contradiction|]. cbn [bind].
  pose proof (rem_in_range x y Hx Hy Hy0) as Hr.
  split; [assumption|]. split; [|assumption].
  pose proof (Z.quot_rem' x y) as Hqr.
  destruct (wrap_cong (Z.quot x y)) as [k1 Hk1].
  unfold sub64, mul64.
  destruct (wrap_cong (wrap (Z.quot x y) * y)) as [k2 Hk2].
  destruct (wrap_cong (x - wrap (wrap (Z.quot x y) * y))) as [k3 Hk3].
  pose proof (wrap_range (x - wrap (wrap (Z.quot x y) * y))) as Hw.
  rewrite Hk3 in *. rewrite Hk2 in *. rewrite Hk1 in *.
  unfold int64, two64, minI, maxI in *. nia.
Qed.

(** modI: ISO mod = remainder of flooring division (sign of the divisor) *)
Lemma modI_exact x y : int64 x -> int64 y -> div_spec (modI x y) y (x mod y).
Proof.
  intros Hx Hy. unfold modI, div_spec.
  destruct (Z.eqb_spec y 0) as [->|Hy0]; [reflexivity|].
  unfold rem64. destruct (Z.eqb_spec y 0); [contradiction|]. cbn [bind].
  pose proof (rem_in_range x y Hx Hy Hy0) as Hr.
  pose proof (Z.quot_rem' x y) as Hqr.
  pose proof (Z.rem_bound_abs x y Hy0) as Hb.
  pose proof (Z.rem_sign_nz x y Hy0) as Hs.
  assert (Hm : int64 (x mod y)).
  { destruct (Z.lt_total y 0) as [Hneg|[?|Hpos]]; [|lia|].
    - pose proof (Z.mod_neg_bound x y Hneg). unfold int64, minI, maxI in *; lia.
    - pose proof (Z.mod_pos_bound x y Hpos). unfold int64, minI, maxI in *; lia. }
  destruct (Z.eqb_spec (Z.rem x y) 0) as [E0|E0]; cbn [negb andb].
  - split; [assumption|]. split; [|assumption].
    apply Z.mod_unique with (q := Z.quot x y); lia.
  - specialize (Hs E0).
    destruct (Z.ltb_spec (Z.rem x y) 0) as [Hr0|Hr0]; destruct (Z.ltb_spec y 0) as [Hy1|Hy1]; cbn [xorb];
      (split; [assumption|]); (split; [|assumption]).
    + apply Z.mod_unique with (q := Z.quot x y); lia.
    + unfold add64. rewrite wrap_id by (unfold int64, minI, maxI in *; lia).
      apply Z.mod_unique with (q := Z.quot x y - 1); lia.
    + unfold add64. rewrite wrap_id by (unfold int64, minI, maxI in *; lia).
      apply Z.mod_unique with (q := Z.quot x y - 1); lia.
    + apply Z.mod_unique with (q := Z.quot x y); lia.
Qed.

(** intFloorDivI: ISO div = flooring division *)
Lemma intFloorDivI_exact x y : int64 x -> int64 y -> div_spec (intFloorDivI x y) y (x / y).
Proof.
  intros Hx Hy. unfold intFloorDivI, div_spec.
  destruct (andb (Z.eqb x minI) (Z.eqb y (-1))) eqn:E.
  { apply andb_prop in E as [A B]. apply Z.eqb_eq in A, B. subst.
    split; [lia|]. vm_compute. intros [_ H]. apply H. reflexivity. }
  destruct (Z.eqb_spec y 0) as [->|Hy0]; [reflexivity|].
  unfold quot64, rem64. destruct (Z.eqb_spec y 0); [contradiction|]. cbn [bind].
  assert (Hn : ~ (x = minI /\ y = -1)).
  { intros [-> ->]. rewrite !Z.eqb_refl in E. discriminate. }
  pose proof (quot_in_range x y Hx Hy Hy0 Hn) as Hq.
  rewrite (wrap_id _ Hq).
  pose proof (Z.quot_rem' x y) as Hqr.
  pose proof (Z.rem_bound_abs x y Hy0) as Hb.
  pose proof (Z.rem_sign_nz x y Hy0) as Hs.
  destruct (Z.eqb_spec (Z.rem x y) 0) as [E0|E0]; cbn [negb andb].
  - assert (Z.quot x y = x / y) by (apply Z.div_unique with (r := 0); lia).
    split; [assumption|]. split; [assumption|]. congruence.
  - specialize (Hs E0).
    destruct (Z.ltb_spec x 0) as [Hx0|Hx0]; destruct (Z.ltb_spec y 0) as [Hy1|Hy1]; cbn [xorb].
    + assert (Z.quot x y = x / y) by (apply Z.div_unique with (r := Z.rem x y); lia).
      split; [assumption|]. split; [assumption|]. congruence.
    + assert (Z.quot x y - 1 = x / y) by (apply Z.div_unique with (r := Z.rem x y + y); lia).
      assert (Z.quot x y <= 0) by nia.
      unfold sub64. rewrite wrap_id.
      * split; [assumption|]. split; [assumption|]. rewrite <- H. 
        destruct (Z.eq_dec (Z.quot x y) minI) as [Em|Em];
          [| unfold int64, minI, maxI in *; lia].
        exfalso. pose proof (quot_abs_le x y Hy0). rewrite Em in *.
        unfold int64, minI, maxI in *. nia.
      * destruct (Z.eq_dec (Z.quot x y) minI) as [Em|Em];
          [| unfold int64, minI, maxI in *; lia].
        exfalso. pose proof (quot_abs_le x y Hy0). rewrite Em in *.
        unfold int64, minI, maxI in *. nia.
    + assert (Z.quot x y - 1 = x / y) by (apply Z.div_unique with (r := Z.rem x y + y); lia).
      unfold sub64. 
      assert (Hnm : Z.quot x y <> minI).
      { intro Em. pose proof (quot_abs_le x y Hy0). rewrite Em in *. unfold int64, minI, maxI in *. nia. }
      rewrite wrap_id by (unfold int64, minI, maxI in *; lia).
      split; [assumption|]. split; [assumption|]. rewrite <- H. unfold int64, minI, maxI in *; lia.
    + assert (Z.quot x y = x / y) by (apply Z.div_unique with (r := Z.rem x y); lia).
      split; [assumption|]. split; [assumption|]. congruence.
Qed.

(** ---- bitwise ------------------------------------------------------------- *)

Lemma int64_hi z : int64 z <-> (Z.shiftr z 63 = 0 \/ Z.shiftr z 63 = -1).
Proof. rewrite Z.shiftr_div_pow2 by lia. unfold int64, minI, maxI. change (2 ^ 63) with 9223372036854775808. lia. Qed.

Lemma and64_range x y : int64 x -> int64 y -> int64 (and64 x y).
Proof.
  rewrite !int64_hi. unfold and64. rewrite Z.shiftr_land.
  intros [->| ->] [->| ->]; vm_compute; auto.
Qed.
Lemma or64_range x y : int64 x -> int64 y -> int64 (or64 x y).
Proof.
  rewrite !int64_hi. unfold or64. rewrite Z.shiftr_lor.
  intros [->| ->] [->| ->]; vm_compute; auto.
Qed.
Lemma xor64_range x y : int64 x -> int64 y -> int64 (xor64 x y).
Proof.
  rewrite !int64_hi. unfold xor64. rewrite Z.shiftr_lxor.
  intros [->| ->] [->| ->]; vm_compute; auto.
Qed.
Lemma not64_exact x : int64 x -> not64 x = - x - 1 /\ int64 (not64 x).
Proof. unfold not64, Z.lnot, int64, minI, maxI. lia. Qed.

(** ---- shifts -------------------------------------------------------------- *)

(** for counts 0..63, << is multiplication by 2^s when that fits, >> is
    flooring division by 2^s *)
Lemma shlI_exact n s : int64 n -> 0 <= s <= 63 -> int64 (n * 2 ^ s) -> shlI n s = Ok (n * 2 ^ s).
Proof.
  intros Hn Hs Hr. unfold shlI, shl64.
  destruct (Z.ltb_spec s 0); [lia|]. destruct (Z.ltb_spec s 0); [lia|].
  destruct (Z.leb_spec 64 s); [lia|]. cbn [bind]. rewrite wrap_id by assumption. reflexivity.
Qed.

Lemma shrI_exact n s : int64 n -> 0 <= s <= 63 -> shrI n s = Ok (n / 2 ^ s) /\ int64 (n / 2 ^ s).
Proof.
  intros Hn Hs. unfold shrI, shr64.
  destruct (Z.ltb_spec s 0); [lia|]. destruct (Z.ltb_spec s 0); [lia|].
  destruct (Z.leb_spec 64 s); [lia|]. cbn [bind]. split; [reflexivity|].
  assert (0 < 2 ^ s) by (apply Z.pow_pos_nonneg; lia).
  unfold int64, minI, maxI in *. split.
  - apply Z.div_le_lower_bound; nia.
  - apply Z.div_le_upper_bound; nia.
Qed.

(** for every count whatsoever the shifts return a value: no Go panic *)
Lemma neg64_pos s : minI < s < 0 -> 0 < neg64 s.
Proof. u64; lia. Qed.

Lemma shlI_total n s : int64 n -> int64 s -> exists z, shlI n s = Ok z.
Proof.
  intros Hn Hs. unfold shlI, shl64, shr64.
  destruct (Z.ltb_spec s 0).
  - destruct (Z.eqb_spec s minI).
    + change (neg64 (add64 minI 1)) with 9223372036854775807. cbn. eauto.
    + pose proof (neg64_pos s ltac:(unfold int64, minI in *; lia)).
      destruct (Z.ltb_spec (neg64 s) 0); [lia|]. destruct (Z.leb_spec 64 (neg64 s)); cbn; eauto.
  - destruct (Z.ltb_spec s 0); [lia|]. destruct (Z.leb_spec 64 s); cbn; eauto.
Qed.

Lemma shrI_total n s : int64 n -> int64 s -> exists z, shrI n s = Ok z.
Proof.
  intros Hn Hs. unfold shrI, shl64, shr64.
  destruct (Z.ltb_spec s 0).
  - destruct (Z.eqb_spec s minI).
    + change (neg64 (add64 minI 1)) with 9223372036854775807. cbn. eauto.
    + pose proof (neg64_pos s ltac:(unfold int64, minI in *; lia)).
      destruct (Z.ltb_spec (neg64 s) 0); [lia|]. destruct (Z.leb_spec 64 (neg64 s)); cbn; eauto.
  - destruct (Z.ltb_spec s 0); [lia|]. destruct (Z.leb_spec 64 s); cbn; eauto.
Qed.

(** ---- ^ (intPow: square-and-multiply with overflow checks) ------------------ *)

Lemma out_range_mul p q : ~ int64 p -> 1 <= q -> ~ int64 (p * q).
Proof. unfold int64, minI, maxI. nia. Qed.

Lemma sq_not_two63 a : a * a <> two63.
Proof.
  unfold two63. destruct (Z_le_gt_dec (Z.abs a) 3037000499); nia.
Qed.

Lemma sq_overflow a c k : ~ int64 (a * a) -> c <> 0 -> 1 <= k -> ~ int64 (c * (a * a) ^ k).
Proof.
  intros Ho Hc Hk.
  assert (Hp : two63 < a * a).
  { pose proof (sq_not_two63 a). unfold int64, minI, maxI, two63 in *. nia. }
  assert (Hge : a * a <= (a * a) ^ k).
  { replace k with (Z.succ (k - 1)) by lia. rewrite Z.pow_succ_r by lia.
    assert (0 < (a * a) ^ (k - 1)) by (apply Z.pow_pos_nonneg; unfold two63 in *; lia).
    unfold two63 in *. nia. }
  unfold int64, minI, maxI, two63 in *. nia.
Qed.

Lemma pow_split a b : 0 <= b -> a ^ b = (a * a) ^ (b / 2) * a ^ (b mod 2).
Proof.
  intros Hb. rewrite (Z.div_mod b 2) at 1 by lia.
  rewrite Z.pow_add_r by (try apply Z.mul_nonneg_nonneg; try apply Z.div_pos; try apply Z.mod_pos_bound; lia).
  rewrite Z.pow_mul_r by (try apply Z.div_pos; lia).
  rewrite Z.pow_2_r. reflexivity.
Qed.

Lemma land1 b : 0 <= b -> Z.land b 1 = b mod 2.
Proof. intros. change 1 with (Z.ones 1) at 1. rewrite Z.land_ones by lia. reflexivity. Qed.

Lemma shr1 b : 0 <= b -> @shr64 err b 1 = Ok (b / 2).
Proof. intros. unfold shr64. destruct (Z.ltb_spec 1 0); [lia|]. cbn. reflexivity. Qed.

Lemma intPow_loop_spec :
  forall fuel a b r,
    int64 a -> int64 r -> 0 <= b -> b < 2 ^ Z.of_nat fuel -> (1 <= fuel)%nat ->
    (a <> 0 -> r <> 0) ->
    exact_or_overflow (intPow_loop1 fuel a b r) (r * a ^ b).
Proof.
  induction fuel as [|f IH]; intros a b r Ha Hr Hb Hlt Hf Hnz; [lia|].
  cbn [intPow_loop1].
  pose proof (pow_split a b Hb) as Hsplit.
  pose proof (Z.mod_pos_bound b 2 ltac:(lia)) as Hm.
  pose proof (Z.div_mod b 2 ltac:(lia)) as Hdm.
  assert (Hb' : 0 <= b / 2) by (apply Z.div_pos; lia).
  assert (Hlt' : b / 2 <> 0 -> b / 2 < 2 ^ Z.of_nat f /\ (1 <= f)%nat).
  { intros Hne. rewrite Nat2Z.inj_succ, Z.pow_succ_r in Hlt by lia.
    split; [lia|]. destruct f; [cbn in Hlt; lia | lia]. }
  unfold and64. rewrite land1 by assumption.
  destruct (Z.eqb_spec (b mod 2) 0) as [Hev|Hodd]; cbn [negb].
  - (* even *)
    rewrite Hev, Z.pow_0_r, Z.mul_1_r in Hsplit.
    rewrite shr1 by assumption. cbn [bind].
    destruct (Z.eqb_spec (b / 2) 0) as [Hz|Hnzb].
    + rewrite Hsplit, Hz, Z.pow_0_r, Z.mul_1_r. unfold exact_or_overflow. auto.
    + destruct (Hlt' Hnzb) as [L1 L2].
      pose proof (mulI_exact a a Ha Ha) as Hmm. unfold exact_or_overflow in Hmm.
      destruct (mulI a a) as [a2|[[]|]| | | |]; try contradiction; cbn [bind].
      * destruct Hmm as [-> Ha2]. rewrite Hsplit. apply IH; auto; nia.
      * rewrite Hsplit. apply sq_overflow; [assumption| |lia].
        apply Hnz. intros ->. apply Hmm. unfold int64, minI, maxI; lia.
  - (* odd *)
    assert (Hone : b mod 2 = 1) by lia.
    rewrite Hone, Z.pow_1_r in Hsplit.
    pose proof (mulI_exact r a Hr Ha) as Hra. unfold exact_or_overflow in Hra.
    destruct (mulI r a) as [ra|[[]|]| | | |]; try contradiction; cbn [bind].
    + destruct Hra as [-> Hra]. rewrite shr1 by assumption. cbn [bind].
      destruct (Z.eqb_spec (b / 2) 0) as [Hz|Hnzb].
      * rewrite Hsplit, Hz, Z.pow_0_r, Z.mul_1_l. unfold exact_or_overflow. auto.
      * destruct (Hlt' Hnzb) as [L1 L2].
        pose proof (mulI_exact a a Ha Ha) as Hmm. unfold exact_or_overflow in Hmm.
        destruct (mulI a a) as [a2|[[]|]| | | |]; try contradiction; cbn [bind].
        -- destruct Hmm as [-> Ha2]. rewrite Hsplit.
           replace (r * ((a * a) ^ (b / 2) * a)) with ((r * a) * (a * a) ^ (b / 2)) by ring.
           apply IH; auto; nia.
        -- rewrite Hsplit. replace (r * ((a * a) ^ (b / 2) * a)) with ((r * a) * (a * a) ^ (b / 2)) by ring.
           assert (a <> 0) by (intros ->; apply Hmm; unfold int64, minI, maxI; lia).
           apply sq_overflow; [assumption| |lia]. specialize (Hnz H). nia.
    + (* r*a overflows *)
      rewrite Hsplit. replace (r * ((a * a) ^ (b / 2) * a)) with ((r * a) * (a * a) ^ (b / 2)) by ring.
      apply out_range_mul; [assumption|].
      assert (a <> 0) by (intros ->; apply Hra; rewrite Z.mul_0_r; unfold int64, minI, maxI; lia).
      assert (0 < (a * a) ^ (b / 2)) by (apply Z.pow_pos_nonneg; nia). lia.
Qed.

Lemma intPow_exact a b : int64 a -> int64 b -> 0 <= b -> exact_or_overflow (intPow a b) (a ^ b).
Proof.
  intros Ha Hbr Hb. unfold intPow.
  replace (a ^ b) with (1 * a ^ b) by ring.
  apply intPow_loop_spec; try assumption.
  - unfold int64, minI, maxI; lia.
  - unfold LOOPFUEL. change (2 ^ Z.of_nat 70) with 1180591620717411303424. unfold int64, maxI in Hbr. lia.
  - unfold LOOPFUEL. lia.
  - intros _. discriminate.
Qed.
