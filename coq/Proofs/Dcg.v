(** The DCG translation preserves the language and the threading of the remainder,
    on the context-free core, for every grammar, every body at any nesting, every
    input list and every remainder. *)
From Coq Require Import List ZArith Lia.
From PV Require Import Model.DcgCore.
Import ListNotations.

(** the shape of a translated body determines the body *)
Lemma tr_shape b s0 s n :
  match fst (tr b s0 s n) with
  | GEq x ts y => b = GTerm ts /\ x = s0 /\ y = s
  | GCall a x y => b = GNt a /\ x = s0 /\ y = s
  | GConj g h => exists u v, b = GSeq u v /\ g = fst (tr u s0 n (S n)) /\ h = fst (tr v n s (snd (tr u s0 n (S n))))
  | GDisj g h => exists u v, b = GAlt u v /\ g = fst (tr u s0 s n) /\ h = fst (tr v s0 s (snd (tr u s0 s n)))
  end.
Proof.
  destruct b as [ts|a|u v|u v]; cbn.
  - repeat split.
  - repeat split.
  - destruct (tr u s0 n (S n)) as [g1 n1] eqn:E1. destruct (tr v n s n1) as [g2 n2] eqn:E2. cbn.
    exists u, v. rewrite E1. cbn. rewrite E2. repeat split.
  - destruct (tr u s0 s n) as [g1 n1] eqn:E1. destruct (tr v s0 s n1) as [g2 n2] eqn:E2. cbn.
    exists u, v. rewrite E1. cbn. rewrite E2. repeat split.
Qed.

(** soundness: what the translated program proves is derivable *)
Lemma holds_derives G rho g :
  holds (map tr_rule G) rho g ->
  forall b s0 s n, g = fst (tr b s0 s n) -> derives G b (rho s0) (rho s).
Proof.
  induction 1 as [rho x ts y Heq | rho rho' a x y g Hin H0 H2 Hh IH | rho g h Hg IHg Hh IHh | rho g h Hg IHg | rho g h Hh IHh];
    intros b s0 s n Hb; pose proof (tr_shape b s0 s n) as Hs; rewrite <- Hb in Hs.
  - destruct Hs as (-> & -> & ->). rewrite Heq. constructor.
  - destruct Hs as (-> & -> & ->).
    apply in_map_iff in Hin. destruct Hin as ([a' b'] & Hr & Hin). unfold tr_rule in Hr. cbn in Hr. inversion Hr; subst.
    eapply DNt; [exact Hin|]. rewrite <- H0, <- H2. eapply IH. reflexivity.
  - destruct Hs as (u & v & -> & Eg & Eh). eapply DSeq; [eapply IHg; exact Eg | eapply IHh; exact Eh].
  - destruct Hs as (u & v & -> & Eg & Eh). apply DAltL. eapply IHg. exact Eg.
  - destruct Hs as (u & v & -> & Eg & Eh). apply DAltR. eapply IHh. exact Eh.
Qed.

(** the variables of a goal *)
Fixpoint gvars (g : goal) : list nat :=
  match g with
  | GEq x _ y => [x; y]
  | GCall _ x y => [x; y]
  | GConj g h | GDisj g h => gvars g ++ gvars h
  end.

(** a goal sees a valuation only through its variables *)
Lemma holds_ext P rho g : holds P rho g -> forall rho', (forall v, In v (gvars g) -> rho' v = rho v) -> holds P rho' g.
Proof.
  induction 1 as [rho x ts y Heq | rho rho1 a x y g Hin H0 H2 Hh IH | rho g h Hg IHg Hh IHh | rho g h Hg IHg | rho g h Hh IHh];
    intros rho' Hag; cbn in Hag.
  - constructor. rewrite !Hag by (cbn; tauto). exact Heq.
  - econstructor; [exact Hin | | | exact Hh]; rewrite Hag by (cbn; tauto); assumption.
  - constructor; [apply IHg | apply IHh]; intros v Hv; apply Hag; apply in_or_app; tauto.
  - apply HDisjL. apply IHg. intros v Hv. apply Hag. apply in_or_app. tauto.
  - apply HDisjR. apply IHh. intros v Hv. apply Hag. apply in_or_app. tauto.
Qed.

(** the counter only grows, and a translated body mentions only S0, S and variables below the new counter *)
Lemma tr_counter b : forall s0 s n, n <= snd (tr b s0 s n).
Proof.
  induction b as [ts|a|x IHx y IHy|x IHx y IHy]; intros s0 s n; cbn; try lia.
  - specialize (IHx s0 n (S n)). destruct (tr x s0 n (S n)) as [g1 n1]. specialize (IHy n s n1). destruct (tr y n s n1) as [g2 n2]. cbn in *. lia.
  - specialize (IHx s0 s n). destruct (tr x s0 s n) as [g1 n1]. specialize (IHy s0 s n1). destruct (tr y s0 s n1) as [g2 n2]. cbn in *. lia.
Qed.

Lemma tr_vars b : forall s0 s n v, s0 < n -> s < n -> In v (gvars (fst (tr b s0 s n))) -> v < snd (tr b s0 s n).
Proof.
  induction b as [ts|a|x IHx y IHy|x IHx y IHy]; intros s0 s n v H0 Hs Hv; cbn in *.
  - destruct Hv as [<-|[<-|[]]]; assumption.
  - destruct Hv as [<-|[<-|[]]]; assumption.
  - pose proof (tr_counter x s0 n (S n)) as Hc1. specialize (IHx s0 n (S n) v). destruct (tr x s0 n (S n)) as [g1 n1].
    pose proof (tr_counter y n s n1) as Hc2. specialize (IHy n s n1 v). destruct (tr y n s n1) as [g2 n2]. cbn in *.
    apply in_app_or in Hv. destruct Hv as [Hv|Hv]; [specialize (IHx ltac:(lia) ltac:(lia) Hv); lia | apply IHy; [lia | lia | exact Hv]].
  - pose proof (tr_counter x s0 s n) as Hc1. specialize (IHx s0 s n v). destruct (tr x s0 s n) as [g1 n1].
    pose proof (tr_counter y s0 s n1) as Hc2. specialize (IHy s0 s n1 v). destruct (tr y s0 s n1) as [g2 n2]. cbn in *.
    apply in_app_or in Hv. destruct Hv as [Hv|Hv]; [specialize (IHx H0 Hs Hv); lia | apply IHy; [lia | lia | exact Hv]].
Qed.

(** completeness: every derivation is reproduced by the translated program, for some
    values of the fresh variables *)
Lemma derives_holds G b xs r :
  derives G b xs r ->
  forall s0 s n rho, s0 < n -> s < n -> rho s0 = xs -> rho s = r ->
  exists rho', (forall v, v < n -> rho' v = rho v) /\ holds (map tr_rule G) rho' (fst (tr b s0 s n)).
Proof.
  induction 1 as [ts r | a b xs r Hin Hd IH | x y xs m r Hx IHx Hy IHy | x y xs r Hx IHx | x y xs r Hy IHy];
    intros s0 s n rho H0 Hs Hxs Hr.
  - exists rho. split; [reflexivity|]. cbn. constructor. rewrite Hxs, Hr. reflexivity.
  - exists rho. split; [reflexivity|]. cbn.
    destruct (IH 0 2 3 (fun v => match v with 0 => xs | 2 => r | _ => [] end) ltac:(lia) ltac:(lia) eq_refl eq_refl) as (rho1 & Hag & Hh).
    eapply HCall with (rho' := rho1) (g := fst (tr b 0 2 3)).
    + apply in_map_iff. exists (a, b). split; [reflexivity | exact Hin].
    + rewrite (Hag 0) by lia. symmetry. exact Hxs.
    + rewrite (Hag 2) by lia. symmetry. exact Hr.
    + exact Hh.
  - cbn. pose proof (tr_counter x s0 n (S n)) as Hc1. pose proof (tr_vars x s0 n (S n)) as Hv1.
    set (rho1 := fun v => if Nat.eqb v n then m else rho v).
    assert (R1 : rho1 s0 = xs) by (unfold rho1; destruct (Nat.eqb_spec s0 n); [lia | exact Hxs]).
    assert (R2 : rho1 n = m) by (unfold rho1; rewrite Nat.eqb_refl; reflexivity).
    destruct (IHx s0 n (S n) rho1 ltac:(lia) ltac:(lia) R1 R2) as (rho2 & Hag2 & Hh2).
    destruct (tr x s0 n (S n)) as [g1 n1]. cbn in *.
    assert (R3 : rho2 n = m) by (rewrite Hag2 by lia; exact R2).
    assert (R4 : rho2 s = r) by (rewrite Hag2 by lia; unfold rho1; destruct (Nat.eqb_spec s n); [lia | exact Hr]).
    destruct (IHy n s n1 rho2 ltac:(lia) ltac:(lia) R3 R4) as (rho3 & Hag3 & Hh3).
    destruct (tr y n s n1) as [g2 n2]. cbn in *.
    exists rho3. split.
    + intros v Hv. rewrite Hag3 by lia. rewrite Hag2 by lia. unfold rho1. destruct (Nat.eqb_spec v n); [lia | reflexivity].
    + constructor; [|exact Hh3]. eapply holds_ext; [exact Hh2|]. intros v Hv. apply Hag3. apply Hv1; [lia | lia | exact Hv].
  - cbn. destruct (IHx s0 s n rho H0 Hs Hxs Hr) as (rho1 & Hag & Hh).
    destruct (tr x s0 s n) as [g1 n1]. destruct (tr y s0 s n1) as [g2 n2]. cbn in *.
    exists rho1. split; [exact Hag | apply HDisjL; exact Hh].
  - cbn. pose proof (tr_counter x s0 s n) as Hc1. destruct (tr x s0 s n) as [g1 n1]. cbn in Hc1.
    destruct (IHy s0 s n1 rho ltac:(lia) ltac:(lia) Hxs Hr) as (rho1 & Hag & Hh).
    destruct (tr y s0 s n1) as [g2 n2]. cbn in *.
    exists rho1. split; [intros v Hv; apply Hag; lia | apply HDisjR; exact Hh].
Qed.

(** The translated body, called with the lists [rho s0] and [rho s], is provable
    (for some values of its fresh variables) exactly when the body derives
    [rho s0] leaving the remainder [rho s]. *)
Theorem translation_preserves_language G b s0 s n rho : s0 < n -> s < n ->
  (exists rho', (forall v, v < n -> rho' v = rho v) /\ holds (map tr_rule G) rho' (fst (tr b s0 s n)))
  <-> derives G b (rho s0) (rho s).
Proof.
  intros H0 Hs. split.
  - intros (rho' & Hag & Hh). rewrite <- (Hag s0 H0), <- (Hag s Hs). eapply holds_derives; [exact Hh | reflexivity].
  - intros Hd. eapply derives_holds; [exact Hd | exact H0 | exact Hs | reflexivity | reflexivity].
Qed.

(** phrase(a, L, R) on the translated program: exactly the derivable pairs *)
Corollary phrase3_exact G a L R :
  holds (map tr_rule G) (fun v => match v with 0 => L | _ => R end) (GCall a 0 1) <-> derives G (GNt a) L R.
Proof.
  pose proof (translation_preserves_language G (GNt a) 0 1 2 (fun v => match v with 0 => L | _ => R end) ltac:(lia) ltac:(lia)) as H.
  cbn in H. rewrite <- H. split.
  - intros Hh. eexists. split; [reflexivity | exact Hh].
  - intros (rho' & Hag & Hh). eapply holds_ext; [exact Hh|]. intros v [<-|[<-|[]]]; symmetry; apply Hag; lia.
Qed.

(** the remainder is threaded: whatever is derived is a prefix, the remainder is what is left *)
Theorem derives_prefix G b xs r : derives G b xs r -> exists pre, xs = pre ++ r.
Proof.
  induction 1 as [ts r | a b xs r Hin Hd IH | x y xs m r Hx IHx Hy IHy | x y xs r Hx IHx | x y xs r Hy IHy].
  - exists ts. reflexivity.
  - exact IH.
  - destruct IHx as (p1 & ->). destruct IHy as (p2 & ->). exists (p1 ++ p2). rewrite app_assoc. reflexivity.
  - exact IHx.
  - exact IHy.
Qed.

(** ... and what follows the derived part does not matter (steadfastness of the scheme) *)
Theorem derives_remainder_independent G b xs r : derives G b xs r ->
  forall pre, xs = pre ++ r -> forall r', derives G b (pre ++ r') r'.
Proof.
  induction 1 as [ts r | a b xs r Hin Hd IH | x y xs m r Hx IHx Hy IHy | x y xs r Hx IHx | x y xs r Hy IHy]; intros pre Hp r'.
  - apply app_inv_tail in Hp. subst. constructor.
  - eapply DNt; [exact Hin | apply IH; exact Hp].
  - destruct (derives_prefix _ _ _ _ Hx) as (p1 & E1). destruct (derives_prefix _ _ _ _ Hy) as (p2 & E2).
    assert (Hpre : pre = p1 ++ p2).
    { rewrite E1, E2, app_assoc in Hp. apply app_inv_tail in Hp. symmetry. exact Hp. }
    subst pre. eapply DSeq with (m := p2 ++ r').
    + rewrite <- app_assoc. apply (IHx p1 E1).
    + apply (IHy p2 E2).
  - apply DAltL. apply IHx. exact Hp.
  - apply DAltR. apply IHy. exact Hp.
Qed.

(** ** the core scheme is the restriction of the mirrored translation (Model/Dcg.v) *)
From Coq Require Import ZArith String.
From PV Require Import Model.Term Model.Dcg.
Open Scope string_scope.

Fixpoint embed (b : gbody) : term :=
  match b with
  | GTerm ts => list_t (map Int ts)
  | GNt a => Cmp "nt" [Int (Z.of_nat a)]
  | GSeq x y => Cmp "," [embed x; embed y]
  | GAlt x y => Cmp ";" [embed x; embed y]
  end.
Definition zv (n : nat) : term := Var (Z.of_nat n).
Fixpoint embed_goal (g : goal) : term :=
  match g with
  | GEq x ts y => eq_t (zv x) (plist_t (map Int ts) (zv y))
  | GCall a x y => Cmp "nt" [Int (Z.of_nat a); zv x; zv y]
  | GConj g h => Cmp "," [embed_goal g; embed_goal h]
  | GDisj g h => Cmp ";" [embed_goal g; embed_goal h]
  end.

Fixpoint bsize (b : gbody) : nat :=
  match b with GSeq x y | GAlt x y => S (bsize x + bsize y) | _ => 1%nat end.

Lemma list_elems_list_t : forall (l : list term) fuel, (List.length l < fuel)%nat -> list_elems fuel (list_t l) = Some l.
Proof.
  induction l as [|x l IH]; intros fuel H; destruct fuel as [|f]; try (cbn in H; lia); cbn; [reflexivity|].
  rewrite IH by (cbn in H; lia). reflexivity.
Qed.

Lemma tsize_list_t (l : list term) : (List.length l < S (tsize (list_t l)))%nat.
Proof. induction l as [|x l IH]; cbn; [lia|]. destruct (tsize x); cbn in *; lia. Qed.

Lemma dcg_body_terminals (l : list term) f s0 s n : dcg_body (S f) (list_t l) s0 s n = Some (eq_t s0 (plist_t l s), n).
Proof.
  destruct l as [|x l]; [reflexivity|].
  change (list_t (x :: l)) with (Cmp "." [x; list_t l]).
  change (dcg_body (S f) (Cmp "." [x; list_t l]) s0 s n) with (option_map (fun g => (g, n)) (dcg_terminals (Cmp "." [x; list_t l]) s0 s)).
  unfold dcg_terminals. change (Cmp "." [x; list_t l]) with (list_t (x :: l)).
  rewrite list_elems_list_t by apply tsize_list_t. reflexivity.
Qed.

Theorem mirror_agrees_with_core : forall b fuel s0 s n, (bsize b < fuel)%nat ->
  dcg_body fuel (embed b) (zv s0) (zv s) (Z.of_nat n)
  = Some (embed_goal (fst (tr b s0 s n)), Z.of_nat (snd (tr b s0 s n))).
Proof.
  induction b as [ts|a|x IHx y IHy|x IHx y IHy]; intros fuel s0 s n Hf; destruct fuel as [|f]; try (cbn in Hf; lia).
  - cbn [embed tr fst snd embed_goal]. apply dcg_body_terminals.
  - reflexivity.
  - cbn [embed dcg_body tr]. cbn in Hf.
    replace (Z.of_nat n + 1)%Z with (Z.of_nat (S n)) by lia. change (Var (Z.of_nat n)) with (zv n).
    rewrite (IHx f s0 n (S n)) by lia. destruct (tr x s0 n (S n)) as [g1 n1]. cbn [fst snd].
    rewrite (IHy f n s n1) by lia. destruct (tr y n s n1) as [g2 n2]. reflexivity.
  - cbn [embed dcg_body tr]. cbn in Hf.
    rewrite (IHx f s0 s n) by lia. destruct (tr x s0 s n) as [g1 n1]. cbn [fst snd].
    rewrite (IHy f s0 s n1) by lia. destruct (tr y s0 s n1) as [g2 n2]. reflexivity.
Qed.
