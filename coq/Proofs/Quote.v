(** Reading a quoted atom that the writer wrote gives the atom's text back, for
    every text of valid code points and whatever the reader's character classes. *)
From Coq Require Import ZArith NArith Bool List Lia Hexadecimal HexadecimalN HexadecimalPos.
From PV Require Import Model.Quote.
Import ListNotations.
Open Scope Z_scope.

Section QuoteProofs.
Variable accept : Z -> bool.

Lemma hex_digits_all_hex u : Forall (fun c => is_hex c = true) (hex_digits u).
Proof. induction u; cbn; constructor; auto. Qed.

Lemma uint_of_digits_hex u : uint_of_digits (hex_digits u) = Some u.
Proof. induction u; cbn; try reflexivity; rewrite IHu; reflexivity. Qed.

Lemma span_hex_stop (ds rest : list Z) : Forall (fun c => is_hex c = true) ds ->
  span is_hex (ds ++ 92 :: rest) = (ds, 92 :: rest).
Proof.
  induction 1 as [|c ds Hc Hds IH]; cbn; [reflexivity|]. rewrite Hc, IH. reflexivity.
Qed.

Lemma hex_code_nonempty c : hex_code c <> [].
Proof.
  unfold hex_code. destruct (Z.to_N c) as [|p]; cbn; [discriminate|].
  pose proof (HexadecimalPos.Unsigned.to_uint_nonnil p) as H. destruct (Pos.to_hex_uint p); cbn; congruence || discriminate.
Qed.

Lemma hex_code_value c : 0 <= c -> Z.of_N (N.of_hex_uint (N.to_hex_uint (Z.to_N c))) = c.
Proof. intros H. rewrite HexadecimalN.Unsigned.of_to. lia. Qed.

Lemma unq_hex_step f l :
  unq accept (S f) (92 :: 120 :: l) =
  match span is_hex l with
  | (x :: ds, 92 :: r'') =>
      match uint_of_digits (x :: ds) with
      | Some u => let v := Z.of_N (N.of_hex_uint u) in
                  if valid_cp v then option_map (cons v) (unq accept f r'') else None
      | None => None
      end
  | _ => None
  end.
Proof. reflexivity. Qed.

(** one character: the reader consumes exactly what the writer produced for it *)
Lemma unq_char f c rest : valid_cp c = true ->
  unq accept (S f) (quote_char accept c ++ rest) = option_map (cons c) (unq accept f rest).
Proof.
  intros Hv. assert (Hv' := Hv). unfold valid_cp in Hv. apply andb_true_iff in Hv. destruct Hv as [Hv Hn3].
  apply andb_true_iff in Hv. destruct Hv as [Hv Hn2]. apply andb_true_iff in Hv. destruct Hv as [H0 H1].
  apply Z.leb_le in H0.
  assert (Hhex : forall r, unq accept (S f) ((92 :: 120 :: hex_code c ++ [92]) ++ r) = option_map (cons c) (unq accept f r)).
  { intros r. replace ((92 :: 120 :: hex_code c ++ [92]) ++ r) with (92 :: 120 :: (hex_code c ++ 92 :: r))
      by (change ((92 :: 120 :: hex_code c ++ [92]) ++ r) with (92 :: 120 :: ((hex_code c ++ [92]) ++ r)); rewrite <- app_assoc; reflexivity).
    rewrite unq_hex_step. unfold hex_code. rewrite (span_hex_stop _ r (hex_digits_all_hex _)).
    pose proof (hex_code_nonempty c) as Hne. unfold hex_code in Hne.
    destruct (hex_digits (N.to_hex_uint (Z.to_N c))) as [|x ds] eqn:Ed; [congruence|].
    rewrite <- Ed, uint_of_digits_hex. cbv zeta. rewrite (hex_code_value c H0), Hv'. reflexivity. }
  unfold quote_char.
  destruct (c =? 7) eqn:E7; [apply Z.eqb_eq in E7; subst; reflexivity|].
  destruct (c =? 8) eqn:E8; [apply Z.eqb_eq in E8; subst; reflexivity|].
  destruct (c =? 12) eqn:E12; [apply Z.eqb_eq in E12; subst; reflexivity|].
  destruct (c =? 10) eqn:E10; [apply Z.eqb_eq in E10; subst; reflexivity|].
  destruct (c =? 13) eqn:E13; [apply Z.eqb_eq in E13; subst; reflexivity|].
  destruct (c =? 9) eqn:E9; [apply Z.eqb_eq in E9; subst; reflexivity|].
  destruct (c =? 11) eqn:E11; [apply Z.eqb_eq in E11; subst; reflexivity|].
  destruct (c =? 92) eqn:E92; [apply Z.eqb_eq in E92; subst; reflexivity|].
  destruct (c =? 39) eqn:E39; [apply Z.eqb_eq in E39; subst; reflexivity|].
  destruct ((c <? 32) || (c =? 127)); [apply Hhex|].
  destruct (accept c) eqn:Ea; [|apply Hhex].
  change ([c] ++ rest) with (c :: rest). cbn [unq]. rewrite E39, E92, Ea. reflexivity.
Qed.

Theorem unq_quote_body : forall s fuel, Forall (fun c => valid_cp c = true) s ->
  (List.length s < fuel)%nat -> unq accept fuel (quote_body accept s) = Some s.
Proof.
  induction s as [|c s IH]; intros fuel Hv Hf; destruct fuel as [|f]; try (cbn in Hf; lia).
  - reflexivity.
  - inversion Hv as [|? ? Hc Hs]; subst. unfold quote_body. cbn [flat_map].
    rewrite (unq_char f c _ Hc). fold (quote_body accept s). rewrite (IH f Hs) by (cbn in Hf; lia). reflexivity.
Qed.

Lemma quote_char_nonempty c : (1 <= List.length (quote_char accept c))%nat.
Proof.
  unfold quote_char.
  repeat match goal with |- context [if ?b then _ else _] => destruct b end; cbn; try lia.
Qed.

Lemma quote_body_length s : (List.length s <= List.length (quote_body accept s))%nat.
Proof.
  induction s as [|c s IH]; [cbn; lia|]. unfold quote_body in *. cbn [flat_map]. rewrite app_length.
  pose proof (quote_char_nonempty c). cbn [List.length]. lia.
Qed.

(** what writeq writes for an atom that needs quotes reads back as the atom's text *)
Theorem read_quoted_quote s : Forall (fun c => valid_cp c = true) s ->
  read_quoted accept (quote accept s) = Some s.
Proof.
  intros Hv. unfold read_quoted, quote. rewrite rev_app_distr. change (List.rev [39]) with [39]. change ([39] ++ List.rev (quote_body accept s)) with (39 :: List.rev (quote_body accept s)). cbv iota beta. rewrite rev_involutive.
  apply unq_quote_body; [exact Hv|]. rewrite app_length. cbn [List.length]. pose proof (quote_body_length s). lia.
Qed.

(** the written text never contains a bare quote or an unaccepted character: every
    element is an accepted character or part of an escape (so the lexer's loop never
    takes its "invalid" exit on it) -- that is what [unq] returning Some says. *)

End QuoteProofs.
