(** Unification succeeds only on unifiable terms: a successful, unpoisoned result
    has a solution.  [Proofs/Unify.v] shows that the solutions of the result are
    exactly the solutions of the old bindings that make the two terms equal; what
    it leaves open is that there is one.  Here the acyclicity of the bindings is
    carried as an invariant in solved form: an idempotent substitution [s] that
    satisfies the env and is the identity on unbound variables.  Binding an unbound
    variable [v] to a term in which [contains] finds no occurrence of [v] keeps the
    invariant (the new solution is the old one followed by [v := apply s t]).
    For all terms, all envs with a solved form (the empty env has one), every fuel. *)
From Coq Require Import ZArith Bool List String FMapPositive Lia.
From PV Require Import Model.Term Model.Unify Proofs.Unify.
Import ListNotations.
Open Scope Z_scope.

Arguments resolve : simpl never.
Arguments contains_f : simpl never.
Arguments poisoned : simpl never.
Arguments lookup : simpl never.
Arguments bind : simpl never.
Arguments poison : simpl never.

(** variable [u] occurs in a term *)
Inductive occ (u : Z) : term -> Prop :=
| occ_var : occ u (Var u)
| occ_cmp f args a : In a args -> occ u a -> occ u (Cmp f args).

Lemma apply_ext s1 s2 t : (forall u, occ u t -> s1 u = s2 u) -> apply s1 t = apply s2 t.
Proof.
  induction t as [v|a|z|b|f args IH] using term_ind'; intros H; cbn; try reflexivity.
  - apply H. constructor.
  - f_equal. apply map_ext_in. intros a Ha. rewrite Forall_forall in IH. apply IH; [exact Ha|].
    intros u Hu. apply H. econstructor; eassumption.
Qed.

Lemma apply_id t : apply Var t = t.
Proof.
  induction t as [v|a|z|b|f args IH] using term_ind'; cbn; try reflexivity.
  f_equal. rewrite <- (map_id args) at 2. apply map_ext_Forall. exact IH.
Qed.

(** a substitution that factors through another one *)
Lemma apply_factor s' d s t : (forall w, s' w = apply d (s w)) -> apply s' t = apply d (apply s t).
Proof.
  intros H. induction t as [v|a|z|b|f args IH] using term_ind'; cbn; try reflexivity.
  - apply H.
  - f_equal. rewrite map_map. apply map_ext_Forall. exact IH.
Qed.

Lemma occ_apply s u t : occ u (apply s t) -> exists w, occ w t /\ occ u (s w).
Proof.
  induction t as [v|a|z|b|f args IH] using term_ind'; cbn; intros H.
  - exists v. split; [constructor|exact H].
  - inversion H.
  - inversion H.
  - inversion H.
  - inversion H as [|g l a Ha Hu]; subst. apply in_map_iff in Ha as (a0 & <- & Ha0).
    rewrite Forall_forall in IH. destruct (IH a0 Ha0 Hu) as (w & Hw & Hu').
    exists w. split; [econstructor; eassumption|exact Hu'].
Qed.

(** the one-point substitution *)
Definition upd (v : Z) (T : term) : subst := fun w => if Z.eqb w v then T else Var w.

Lemma apply_upd_fresh v T t : ~ occ v t -> apply (upd v T) t = t.
Proof.
  intros H. rewrite <- (apply_id t) at 2. apply apply_ext. intros u Hu. unfold upd.
  destruct (Z.eqb_spec u v) as [->|]; [contradiction|reflexivity].
Qed.

(** solved form of an env *)
Definition Inv (e : env) (s : subst) : Prop :=
  sat s e /\ (forall w, lookup e w = None -> s w = Var w) /\ (forall w u, occ u (s w) -> s u = Var u).

Lemma Inv_empty : Inv empty_env Var.
Proof.
  split; [|split].
  - intros v t H. unfold lookup, empty_env in H. rewrite PositiveMap.gempty in H. discriminate.
  - reflexivity.
  - intros w u H. reflexivity.
Qed.

Lemma contains_f_S f e t s :
  contains_f (S f) e t s =
  match t with
  | Var v => if Z.eqb v s then true else match lookup e v with Some r => contains_f f e r s | None => false end
  | Cmp _ args => existsb (fun a => contains_f f e a s) args
  | _ => false
  end.
Proof. reflexivity. Qed.

(** when [contains] answers "no", the variable does not occur in the instance *)
Lemma contains_sound e s v : Inv e s -> forall fuel t, contains_f fuel e t v = false -> ~ occ v (apply s t).
Proof.
  intros (Hs & Hu & Hi). induction fuel as [|f IH]; intros t H; [discriminate|].
  rewrite contains_f_S in H. destruct t as [w|a|z|b|g args].
  - destruct (Z.eqb_spec w v) as [|Hne]; [discriminate|]. destruct (lookup e w) as [r|] eqn:Hl.
    + cbn [apply]. rewrite (Hs w r Hl). apply IH. exact H.
    + cbn [apply]. rewrite (Hu w Hl). intros Ho. inversion Ho. congruence.
  - cbn. intros Ho. inversion Ho.
  - cbn. intros Ho. inversion Ho.
  - cbn. intros Ho. inversion Ho.
  - cbn [apply]. intros Ho. inversion Ho as [|g' l a Ha Hv]; subst.
    apply in_map_iff in Ha as (a0 & <- & Ha0).
    assert (Hc : contains_f f e a0 v = false).
    { destruct (contains_f f e a0 v) eqn:E; [|reflexivity]. rewrite <- H. symmetry.
      apply existsb_exists. exists a0. split; assumption. }
    exact (IH a0 Hc Hv).
Qed.

(** binding an unbound variable to a term it does not occur in keeps a solved form *)
Lemma bind_inv e s v t : Inv e s -> lookup e v = None -> ~ occ v (apply s t) ->
  Inv (bind e v t) (fun w => apply (upd v (apply s t)) (s w)).
Proof.
  intros (Hs & Hu & Hi) Hn Hocc.
  assert (Hf : forall x, apply (fun w => apply (upd v (apply s t)) (s w)) x = apply (upd v (apply s t)) (apply s x))
    by (intros x; apply apply_factor; reflexivity).
  assert (Hsv : s v = Var v) by (apply Hu; exact Hn).
  split; [|split].
  - apply sat_bind; [exact Hn|]. split.
    + intros w r Hw. rewrite Hf. cbv beta. rewrite (Hs w r Hw). reflexivity.
    + rewrite Hf. cbv beta. rewrite Hsv. cbn [apply]. unfold upd at 1. rewrite Z.eqb_refl.
      symmetry. apply apply_upd_fresh. exact Hocc.
  - intros w Hw. destruct (Z.eq_dec v w) as [->|Hne]; [rewrite lookup_bind_same in Hw; discriminate|].
    rewrite lookup_bind_other in Hw by exact Hne. cbv beta. rewrite (Hu w Hw). cbn [apply]. unfold upd.
    destruct (Z.eqb_spec w v); [congruence|reflexivity].
  - intros w u Ho. cbv beta in Ho. apply occ_apply in Ho as (z & Hz & Hou). cbv beta.
    unfold upd in Hou. destruct (Z.eqb_spec z v) as [->|Hzv].
    + assert (Huv : u <> v) by (intros ->; exact (Hocc Hou)).
      apply occ_apply in Hou as (y & Hy & Huy). rewrite (Hi y u Huy). cbn [apply]. unfold upd.
      destruct (Z.eqb_spec u v); [contradiction|reflexivity].
    + assert (u = z) by (inversion Hou; reflexivity). subst u.
      rewrite (Hi w z Hz). cbn [apply]. unfold upd. destruct (Z.eqb_spec z v); [contradiction|reflexivity].
Qed.

Definition sound_result (r : ures) (e : env) (x y : term) : Prop :=
  match r with
  | UOk e' => poisoned e' = false -> forall s, Inv e s ->
              exists s' d, Inv e' s' /\ (forall w, s' w = apply d (s w)) /\ apply s' x = apply s' y
  | _ => True
  end.

Definition sound_args (r : ures) (e : env) (l1 l2 : list term) : Prop :=
  match r with
  | UOk e' => poisoned e' = false -> forall s, Inv e s ->
              exists s' d, Inv e' s' /\ (forall w, s' w = apply d (s w)) /\ map (apply s') l1 = map (apply s') l2
  | _ => True
  end.

Lemma args_sound f :
  (forall e x y, sound_result (unify_f f false e x y) e x y) ->
  forall l1 l2 e, List.length l1 = List.length l2 -> sound_args (unify_args f false e l1 l2) e l1 l2.
Proof.
  intros IH. induction l1 as [|a l1 IHl]; intros l2 e Hlen; destruct l2 as [|b l2]; try discriminate; cbn [unify_args].
  - intros Hp s Hi. exists s, Var. split; [exact Hi|]. split; [intros w; symmetry; apply apply_id|reflexivity].
  - specialize (IH e a b). destruct (unify_f f false e a b) as [e1| |]; cbn [sound_result] in IH; [|exact I|exact I].
    destruct (poisoned e1) eqn:Hp1.
    { intros Hp. rewrite Hp in Hp1. discriminate. }
    specialize (IHl l2 e1 ltac:(cbn in Hlen; lia)).
    destruct (unify_args f false e1 l1 l2) as [e2| |]; cbn [sound_args] in IHl |- *; [|exact I|exact I].
    intros Hp s Hi. destruct (IH eq_refl s Hi) as (s1 & d1 & Hi1 & Hf1 & Heq1).
    destruct (IHl Hp s1 Hi1) as (s2 & d2 & Hi2 & Hf2 & Heq2).
    exists s2, (fun u => apply d2 (d1 u)). split; [exact Hi2|]. split.
    + intros w. rewrite Hf2, Hf1. symmetry. apply apply_factor. reflexivity.
    + cbn [map]. f_equal; [|exact Heq2].
      rewrite (apply_factor s2 d2 s1 a Hf2), (apply_factor s2 d2 s1 b Hf2), Heq1. reflexivity.
Qed.

Theorem unify_sound :
  forall fuel e x y, sound_result (unify_f fuel false e x y) e x y.
Proof.
  induction fuel as [|f IH]; intros e x y; [exact I|].
  cbn [unify_f].
  assert (Hred : forall r, sound_result r e (resolve e x) (resolve e y) -> sound_result r e x y).
  { intros r Hr. destruct r as [e'| |]; cbn [sound_result] in *; try exact I.
    intros Hp s Hi. destruct (Hr Hp s Hi) as (s' & d & Hi' & Hf & Heq). exists s', d.
    split; [exact Hi'|]. split; [exact Hf|]. destruct Hi as (Hs & _).
    rewrite (apply_factor s' d s x Hf), (apply_factor s' d s y Hf).
    rewrite <- (resolve_apply s e x Hs), <- (resolve_apply s e y Hs).
    rewrite <- (apply_factor s' d s _ Hf), <- (apply_factor s' d s _ Hf). exact Heq. }
  apply Hred. clear Hred.
  set (x' := resolve e x). set (y' := resolve e y). clearbody x' y'. clear x y.
  assert (Hsame : forall t, sound_result (UOk e) e t t).
  { intros t Hp s Hi. exists s, Var. split; [exact Hi|]. split; [intros w; symmetry; apply apply_id|reflexivity]. }
  assert (Hbind : forall v t, lookup e v = None -> (forall s, Inv e s -> ~ occ v (apply s t)) ->
            sound_result (UOk (bind e v t)) e (Var v) t /\ sound_result (UOk (bind e v t)) e t (Var v)).
  { intros v t Hn Hocc.
    assert (K : forall s, Inv e s -> exists s' d, Inv (bind e v t) s' /\ (forall w, s' w = apply d (s w)) /\ apply s' (Var v) = apply s' t).
    { intros s Hi. exists (fun w => apply (upd v (apply s t)) (s w)), (upd v (apply s t)).
      pose proof (bind_inv e s v t Hi Hn (Hocc s Hi)) as Hi'. split; [exact Hi'|]. split; [reflexivity|].
      destruct Hi' as (Hs' & _). cbn [apply]. apply Hs'. apply lookup_bind_same. }
    split; intros _ s Hi; destruct (K s Hi) as (s' & d & A & B & C); exists s', d;
      (split; [exact A|split; [exact B|]]); [exact C|symmetry; exact C]. }
  assert (Hatomic : forall v t, lookup e v = None -> (forall s, apply s t = t) -> (forall u, ~ occ u t) ->
            sound_result (UOk (bind e v t)) e (Var v) t /\ sound_result (UOk (bind e v t)) e t (Var v)).
  { intros v t Hn Ha Ho. apply Hbind; [exact Hn|]. intros s _. rewrite Ha. apply Ho. }
  destruct x' as [vx|ax|ix|fx|gx xs].
  - destruct (lookup e vx) eqn:Hlx; [exact I|].
    destruct y' as [vy|ay|iy|fy|gy ys].
    + destruct (Z.eqb_spec vx vy) as [->|Hne]; [apply Hsame|].
      destruct (lookup e vy) eqn:Hly; [exact I|]. apply (Hbind vx (Var vy) Hlx).
      intros s (_ & Hu & _). cbn [apply]. rewrite (Hu vy Hly). intros Ho. inversion Ho. congruence.
    + apply (Hatomic vx _ Hlx); [reflexivity|intros u Ho; inversion Ho].
    + apply (Hatomic vx _ Hlx); [reflexivity|intros u Ho; inversion Ho].
    + apply (Hatomic vx _ Hlx); [reflexivity|intros u Ho; inversion Ho].
    + destruct (contains_f (S f) e (Cmp gy ys) vx) eqn:Hc.
      * intros Hp. rewrite poisoned_poison in Hp. discriminate.
      * apply (Hbind vx _ Hlx). intros s Hi. exact (contains_sound e s vx Hi _ _ Hc).
  - destruct y' as [vy|ay|iy|fy|gy ys]; cbn [term_eqb]; try exact I.
    + destruct (lookup e vy) eqn:Hly; [exact I|]. apply (Hatomic vy _ Hly); [reflexivity|intros u Ho; inversion Ho].
    + destruct (String.eqb_spec ax ay) as [->|Hne]; [apply Hsame|exact I].
  - destruct y' as [vy|ay|iy|fy|gy ys]; cbn [term_eqb]; try exact I.
    + destruct (lookup e vy) eqn:Hly; [exact I|]. apply (Hatomic vy _ Hly); [reflexivity|intros u Ho; inversion Ho].
    + destruct (Z.eqb_spec ix iy) as [->|Hne]; [apply Hsame|exact I].
  - destruct y' as [vy|ay|iy|fy|gy ys]; cbn [term_eqb]; try exact I.
    + destruct (lookup e vy) eqn:Hly; [exact I|]. apply (Hatomic vy _ Hly); [reflexivity|intros u Ho; inversion Ho].
    + destruct (Z.eqb_spec fx fy) as [->|Hne]; [apply Hsame|exact I].
  - destruct y' as [vy|ay|iy|fy|gy ys]; try exact I.
    + destruct (lookup e vy) eqn:Hly; [exact I|].
      destruct (contains_f (S f) e (Cmp gx xs) vy) eqn:Hc.
      * intros Hp. rewrite poisoned_poison in Hp. discriminate.
      * apply (Hbind vy _ Hly). intros s Hi. exact (contains_sound e s vy Hi _ _ Hc).
    + destruct (String.eqb_spec gx gy) as [->|Hne]; cbn [negb]; [|exact I].
      destruct (Nat.eqb_spec (List.length xs) (List.length ys)) as [Hlen|Hlen]; cbn [negb]; [|exact I].
      rewrite args_loop_eq.
      pose proof (args_sound f IH xs ys e Hlen) as Ha.
      destruct (unify_args f false e xs ys) as [e'| |]; cbn [sound_args sound_result] in Ha |- *; [|exact I|exact I].
      intros Hp s Hi. destruct (Ha Hp s Hi) as (s' & d & A & B & C). exists s', d.
      split; [exact A|]. split; [exact B|]. cbn [apply]. rewrite C. reflexivity.
Qed.

(** the statement for a whole call: a successful unification from the empty env
    makes the two terms equal under some substitution *)
Corollary unify_ok_unifiable fuel x y e :
  unify_f fuel false empty_env x y = UOk e -> poisoned e = false -> exists s, sat s e /\ apply s x = apply s y.
Proof.
  intros H Hp. pose proof (unify_sound fuel empty_env x y) as G. rewrite H in G.
  destruct (G Hp Var Inv_empty) as (s & _ & (Hs & _) & _ & Heq). exists s. split; assumption.
Qed.

(** every env reached by successful unifications from the empty env has a solution *)
Corollary unify_keeps_solvable fuel e x y e' :
  (exists s, Inv e s) -> unify_f fuel false e x y = UOk e' -> poisoned e' = false -> exists s, Inv e' s.
Proof.
  intros (s & Hi) H Hp. pose proof (unify_sound fuel e x y) as G. rewrite H in G.
  destruct (G Hp s Hi) as (s' & _ & Hi' & _). exists s'. exact Hi'.
Qed.

(** ** unify_with_occurs_check/2 agrees with =/2 when the unifier is finite and
    fails otherwise: the two modes compute the same bindings until the first
    binding that would be cyclic, where the one stops with a marked env and the
    other fails *)
Definition oc_rel (r r' : ures) : Prop :=
  match r with
  | UOk e' => if poisoned e' then r' = UFail else r' = UOk e'
  | UFail => r' = UFail
  | UStuck => r' = UStuck
  end.

Lemma oc_args f :
  (forall e x y, poisoned e = false -> oc_rel (unify_f f false e x y) (unify_f f true e x y)) ->
  forall l1 l2 e, poisoned e = false -> oc_rel (unify_args f false e l1 l2) (unify_args f true e l1 l2).
Proof.
  intros IH. induction l1 as [|a l1 IHl]; intros l2 e Hp; destruct l2 as [|b l2]; cbn [unify_args oc_rel];
    try (rewrite Hp; reflexivity).
  specialize (IH e a b Hp). destruct (unify_f f false e a b) as [e1| |]; cbn [oc_rel] in IH.
  - destruct (poisoned e1) eqn:Hp1.
    + rewrite IH. cbn [oc_rel]. rewrite Hp1. reflexivity.
    + rewrite IH, Hp1. apply IHl. exact Hp1.
  - rewrite IH. reflexivity.
  - rewrite IH. reflexivity.
Qed.

Theorem occurs_check_agrees :
  forall fuel e x y, poisoned e = false -> oc_rel (unify_f fuel false e x y) (unify_f fuel true e x y).
Proof.
  induction fuel as [|f IH]; intros e x y Hp; [reflexivity|].
  cbn [unify_f].
  set (x' := resolve e x). set (y' := resolve e y). clearbody x' y'. clear x y.
  assert (Hsame : oc_rel (UOk e) (UOk e)) by (cbn; rewrite Hp; reflexivity).
  assert (Hbind : forall v t, oc_rel (UOk (bind e v t)) (UOk (bind e v t)))
    by (intros v t; cbn; rewrite poisoned_bind, Hp; reflexivity).
  assert (Hpoison : oc_rel (UOk (poison e)) UFail) by (cbn; rewrite poisoned_poison; reflexivity).
  destruct x' as [vx|ax|ix|fx|gx xs].
  - destruct (lookup e vx); [reflexivity|].
    destruct y' as [vy|ay|iy|fy|gy ys]; try apply Hbind.
    + destruct (Z.eqb vx vy); [exact Hsame|]. destruct (lookup e vy); [reflexivity|apply Hbind].
    + destruct (contains_f (S f) e (Cmp gy ys) vx); [exact Hpoison|apply Hbind].
  - destruct y' as [vy|ay|iy|fy|gy ys]; try reflexivity.
    + destruct (lookup e vy); [reflexivity|apply Hbind].
    + destruct (term_eqb (Atom ax) (Atom ay)); [exact Hsame|reflexivity].
  - destruct y' as [vy|ay|iy|fy|gy ys]; try reflexivity.
    + destruct (lookup e vy); [reflexivity|apply Hbind].
    + destruct (term_eqb (Int ix) (Int iy)); [exact Hsame|reflexivity].
  - destruct y' as [vy|ay|iy|fy|gy ys]; try reflexivity.
    + destruct (lookup e vy); [reflexivity|apply Hbind].
    + destruct (term_eqb (Flt fx) (Flt fy)); [exact Hsame|reflexivity].
  - destruct y' as [vy|ay|iy|fy|gy ys]; try reflexivity.
    + destruct (lookup e vy); [reflexivity|].
      destruct (contains_f (S f) e (Cmp gx xs) vy); [exact Hpoison|apply Hbind].
    + destruct (negb (String.eqb gx gy)); [reflexivity|].
      destruct (negb (Nat.eqb (List.length xs) (List.length ys))); [reflexivity|].
      rewrite !args_loop_eq. apply oc_args; [exact IH|exact Hp].
Qed.

(** with a finite unifier the two agree; otherwise the checked one fails *)
Corollary occurs_check_finite fuel x y e :
  unify_f fuel false empty_env x y = UOk e -> poisoned e = false -> unify_f fuel true empty_env x y = UOk e.
Proof.
  intros H Hp. pose proof (occurs_check_agrees fuel empty_env x y eq_refl) as G. rewrite H in G. cbn in G. rewrite Hp in G. exact G.
Qed.
Corollary occurs_check_infinite fuel x y e :
  unify_f fuel false empty_env x y = UOk e -> poisoned e = true -> unify_f fuel true empty_env x y = UFail.
Proof.
  intros H Hp. pose proof (occurs_check_agrees fuel empty_env x y eq_refl) as G. rewrite H in G. cbn in G. rewrite Hp in G. exact G.
Qed.
