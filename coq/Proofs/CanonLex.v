(** The canonical text of a term of the plain fragment, character by character,
    lexes to the writer's tokens and reads back as the term. *)
From Coq Require Import ZArith Bool List String Ascii Lia DecimalString DecimalZ DecimalPos.
From PV Require Import Model.Term Model.Canon Model.CanonLex Proofs.Canon.
Import ListNotations.
Open Scope string_scope.

Definition stop (p : ascii -> bool) (s : string) : Prop :=
  match s with EmptyString => True | String c _ => p c = false end.

Lemma span_stop p w : forall rest, all_chars p w = true -> stop p rest -> span p (w ++ rest) = (w, rest).
Proof.
  induction w as [|c w IH]; intros rest Hw Hr; cbn [append].
  - destruct rest as [|c r]; [reflexivity|]. cbn in Hr |- *. rewrite Hr. reflexivity.
  - cbn [all_chars] in Hw. apply andb_true_iff in Hw as [Hc Hw]. cbn [span]. rewrite Hc, (IH rest Hw Hr). reflexivity.
Qed.

Lemma lex_S f c r :
  lex (S f) (String c r) =
  if Ascii.eqb c "(" then option_map (cons TOpen) (lex f r)
  else if Ascii.eqb c ")" then option_map (cons TClose) (lex f r)
  else if Ascii.eqb c "," then option_map (cons TComma) (lex f r)
  else if is_lower c then let '(w, r') := span is_alnum (String c r) in option_map (cons (TAtom w)) (lex f r')
  else if is_digit c then let '(w, r') := span is_digit (String c r) in
                          match int_tok w with Some t => option_map (cons t) (lex f r') | None => None end
  else if Ascii.eqb c "-" then
    match r with
    | String c2 _ => if is_digit c2 then let '(w, r') := span is_digit r in
                                         match int_tok (String "-" w) with Some t => option_map (cons t) (lex f r') | None => None end
                     else None
    | EmptyString => None
    end
  else None.
Proof.
  cbn [lex]. repeat match goal with |- context [if ?b then _ else _] => destruct b; try reflexivity end.
Qed.

(** character classes, by their codes *)
Lemma class_facts c :
  (is_lower c = true -> is_alnum c = true /\ Ascii.eqb c "(" = false /\ Ascii.eqb c ")" = false /\ Ascii.eqb c "," = false) /\
  (is_digit c = true -> is_alnum c = true /\ is_lower c = false /\ Ascii.eqb c "(" = false /\ Ascii.eqb c ")" = false /\ Ascii.eqb c "," = false).
Proof.
  destruct c as [[|] [|] [|] [|] [|] [|] [|] [|]]; vm_compute; split; intros H; try discriminate H; repeat split; reflexivity.
Qed.

Lemma minus_facts : is_lower "-" = false /\ is_digit "-" = false /\ Ascii.eqb "-" "(" = false /\ Ascii.eqb "-" ")" = false /\ Ascii.eqb "-" "," = false.
Proof. repeat split; reflexivity. Qed.

(** the text of an integer token *)
Lemma digits_all d : all_chars is_digit (NilEmpty.string_of_uint d) = true.
Proof. induction d; cbn; try reflexivity; exact IHd. Qed.

Lemma uint_text d : exists c r, NilZero.string_of_uint d = String c r /\ is_digit c = true /\ all_chars is_digit r = true.
Proof.
  destruct d; cbn; try (eexists _, _; split; [reflexivity|split; [reflexivity|]]; try reflexivity; apply digits_all).
Qed.

Lemma to_int_nonnil z : Z.to_int z <> Decimal.Pos Decimal.Nil /\ Z.to_int z <> Decimal.Neg Decimal.Nil.
Proof.
  destruct z as [|p|p]; cbn; split; try discriminate; intros H; inversion H as [H'];
    exact (DecimalPos.Unsigned.to_uint_nonnil p H').
Qed.

Lemma int_text z :
  int_tok (NilZero.string_of_int (Z.to_int z)) = Some (TInt z) /\
  ((exists c r, NilZero.string_of_int (Z.to_int z) = String c r /\ is_digit c = true /\ all_chars is_digit r = true) \/
   (exists c r, NilZero.string_of_int (Z.to_int z) = String "-" (String c r) /\ is_digit c = true /\ all_chars is_digit r = true)).
Proof.
  split.
  - unfold int_tok. destruct (to_int_nonnil z) as [H1 H2]. rewrite (NilZero.isi _ H1 H2), DecimalZ.of_to. reflexivity.
  - destruct (Z.to_int z) as [d|d]; cbn [NilZero.string_of_int]; destruct (uint_text d) as (c & r & E & Hc & Hr); rewrite E.
    + left. exists c, r. repeat split; assumption.
    + right. exists c, r. repeat split; assumption.
Qed.

(** token sequences the lexer can take apart: names are plain, and every name or
    number is followed by punctuation or by the end *)
Definition sep (l : list tok) : bool :=
  match l with [] => true | (TOpen | TClose | TComma) :: _ => true | _ => false end.
Fixpoint lexable (l : list tok) : bool :=
  match l with
  | [] => true
  | TAtom a :: r => plain_name a && sep r && lexable r
  | TInt _ :: r => sep r && lexable r
  | _ :: r => lexable r
  end.

Lemma append_nil_r (s : string) : s ++ "" = s.
Proof. induction s as [|c s IH]; cbn; [reflexivity|rewrite IH; reflexivity]. Qed.

Lemma show_cons t l : show (t :: l) = show_tok t ++ show l.
Proof. unfold show. cbn [map]. destruct (map show_tok l) as [|x xs]; cbn; [rewrite append_nil_r; reflexivity|reflexivity]. Qed.

Lemma sep_stop l : sep l = true -> stop is_alnum (show l).
Proof.
  destruct l as [|t l]; [intros _; exact I|]. rewrite show_cons. destruct t; cbn; intros H; try discriminate; reflexivity.
Qed.
Lemma stop_weaken s : stop is_alnum s -> stop is_digit s.
Proof.
  destruct s as [|c r]; [intros _; exact I|]. cbn. intros H. destruct (is_digit c) eqn:E; [|reflexivity].
  destruct (proj2 (class_facts c) E) as [Ha _]. congruence.
Qed.

Theorem lex_show : forall l fuel, lexable l = true -> (List.length l < fuel)%nat -> lex fuel (show l) = Some l.
Proof.
  induction l as [|t l IH]; intros fuel Hl Hf.
  - destruct fuel; reflexivity.
  - destruct fuel as [|f]; [lia|]. cbn [List.length] in Hf. rewrite show_cons.
    destruct t as [a|z| | |]; cbn [lexable] in Hl.
    + (* a name *)
      apply andb_true_iff in Hl as [Hl Hll]. apply andb_true_iff in Hl as [Hp Hs].
      destruct a as [|c r]; [discriminate|]. cbn [plain_name] in Hp. apply andb_true_iff in Hp as [Hc Hr].
      destruct (proj1 (class_facts c) Hc) as (Ha & E1 & E2 & E3).
      cbn [show_tok append]. rewrite lex_S, E1, E2, E3, Hc.
      change (String c (r ++ show l)) with (String c r ++ show l).
      rewrite (span_stop is_alnum (String c r) (show l)) by first [apply sep_stop; exact Hs | cbn [all_chars]; rewrite Ha, Hr; reflexivity].
      rewrite (IH f Hll ltac:(lia)). reflexivity.
    + (* a number *)
      apply andb_true_iff in Hl as [Hs Hll]. cbn [show_tok].
      destruct (int_text z) as [Htok [(c & r & E & Hc & Hr)|(c & r & E & Hc & Hr)]]; rewrite E in *.
      * destruct (proj2 (class_facts c) Hc) as (Ha & Hlo & E1 & E2 & E3).
        cbn [append]. rewrite lex_S, E1, E2, E3, Hlo, Hc.
        change (String c (r ++ show l)) with (String c r ++ show l).
        rewrite (span_stop is_digit (String c r) (show l)) by first [apply stop_weaken, sep_stop; exact Hs | cbn [all_chars]; rewrite Hc, Hr; reflexivity].
        rewrite Htok, (IH f Hll ltac:(lia)). reflexivity.
      * destruct minus_facts as (M1 & M2 & M3 & M4 & M5).
        cbn [append]. rewrite lex_S, M3, M4, M5, M1, M2. cbn [Ascii.eqb Bool.eqb]. rewrite Hc.
        change (String c (r ++ show l)) with (String c r ++ show l).
        rewrite (span_stop is_digit (String c r) (show l)) by first [apply stop_weaken, sep_stop; exact Hs | cbn [all_chars]; rewrite Hc, Hr; reflexivity].
        rewrite Htok, (IH f Hll ltac:(lia)). reflexivity.
    + cbn [show_tok append]. rewrite lex_S. cbn [Ascii.eqb Bool.eqb]. rewrite (IH f Hl ltac:(lia)). reflexivity.
    + cbn [show_tok append]. rewrite lex_S. cbn [Ascii.eqb Bool.eqb]. rewrite (IH f Hl ltac:(lia)). reflexivity.
    + cbn [show_tok append]. rewrite lex_S. cbn [Ascii.eqb Bool.eqb]. rewrite (IH f Hl ltac:(lia)). reflexivity.
Qed.

(** the writer's tokens for a plain term can be taken apart *)
Definition LX (x : term) : Prop :=
  plain_term x = true -> forall rest, sep rest = true -> lexable rest = true -> lexable (pr x ++ rest) = true.

Lemma args_lexable : forall args : list term, args <> [] -> Forall LX args -> forallb plain_term args = true ->
  forall rest, lexable rest = true -> lexable (pr_args pr args ++ rest) = true.
Proof.
  induction args as [|x args IH]; intros Hne Hall Hok rest Hr; [contradiction|].
  inversion Hall as [|? ? Hx Hrest]; subst. cbn [forallb] in Hok. apply andb_true_iff in Hok as [Hokx Hokr].
  destruct args as [|y args'].
  - cbn [pr_args]. rewrite <- app_assoc. apply Hx; [exact Hokx|reflexivity|exact Hr].
  - change (pr_args pr (x :: y :: args')) with (pr x ++ TComma :: pr_args pr (y :: args'))%list.
    rewrite <- app_assoc. apply Hx; [exact Hokx|reflexivity|].
    cbn [app lexable]. apply IH; [discriminate|exact Hrest|exact Hokr|exact Hr].
Qed.

Lemma pr_lexable : forall t, LX t.
Proof.
  induction t as [v|a|z|b|f args IH] using term_ind'; intros Hp rest Hs Hr; cbn [plain_term] in Hp; try discriminate.
  - cbn [pr app lexable]. rewrite Hp, Hs, Hr. reflexivity.
  - cbn [pr app lexable]. rewrite Hs, Hr. reflexivity.
  - apply andb_true_iff in Hp as [Hp Hargs]. apply andb_true_iff in Hp as [Hf Hne].
    cbn [pr app lexable sep]. rewrite Hf. cbn [andb].
    apply args_lexable; [destruct args; [discriminate Hne|discriminate]|exact IH|exact Hargs|exact Hr].
Qed.

Lemma plain_canon : forall t, plain_term t = true -> canon_ok t = true.
Proof.
  induction t as [v|a|z|b|f args IH] using term_ind'; intros Hp; cbn in *; try reflexivity; try discriminate.
  apply andb_true_iff in Hp as [Hp Hargs]. apply andb_true_iff in Hp as [_ Hne]. rewrite Hne. cbn [andb].
  apply forallb_forall. intros x Hx. rewrite Forall_forall in IH. apply IH; [exact Hx|].
  rewrite forallb_forall in Hargs. exact (Hargs x Hx).
Qed.

(** at least one character per token, at least one token per node *)
Lemma length_append a b : String.length (a ++ b) = (String.length a + String.length b)%nat.
Proof. induction a as [|c a IH]; cbn; [reflexivity|rewrite IH; reflexivity]. Qed.

Lemma show_length l : lexable l = true -> (List.length l <= String.length (show l))%nat.
Proof.
  induction l as [|t l IH]; intros H; [cbn; lia|]. rewrite show_cons, length_append. cbn [List.length].
  assert (Ht : (1 <= String.length (show_tok t))%nat /\ lexable l = true).
  { destruct t as [a|z| | |]; cbn [lexable] in H.
    - apply andb_true_iff in H as [H Hl]. apply andb_true_iff in H as [Hp _]. split; [|exact Hl]. destruct a; [discriminate|cbn; lia].
    - apply andb_true_iff in H as [_ Hl]. split; [|exact Hl]. cbn [show_tok].
      destruct (int_text z) as [_ [(c & r & E & _)|(c & r & E & _)]]; rewrite E; cbn; lia.
    - split; [cbn; lia|exact H].
    - split; [cbn; lia|exact H].
    - split; [cbn; lia|exact H]. }
  destruct Ht as [H1 Hl]. specialize (IH Hl). lia.
Qed.

Lemma pr_args_tokens (args : list term) :
  Forall (fun x => tsize x <= List.length (pr x))%nat args ->
  (fold_right (fun a n => tsize a + n) 0 args <= List.length (pr_args pr args))%nat.
Proof.
  induction 1 as [|x args Hx Hall IH]; [cbn; lia|].
  destruct args as [|y args'].
  - cbn [pr_args fold_right]. rewrite app_length. cbn. lia.
  - change (pr_args pr (x :: y :: args')) with (pr x ++ TComma :: pr_args pr (y :: args'))%list.
    cbn [fold_right] in *. rewrite app_length. cbn [List.length]. lia.
Qed.

Lemma pr_tokens : forall t, canon_ok t = true -> (tsize t <= List.length (pr t))%nat.
Proof.
  induction t as [v|a|z|b|f args IH] using term_ind'; intros Hc; cbn in Hc; try discriminate; try (cbn; lia).
  apply andb_true_iff in Hc as [_ Hargs]. cbn [tsize pr List.length].
  assert (H : Forall (fun x => tsize x <= List.length (pr x))%nat args).
  { apply Forall_forall. intros x Hx. rewrite Forall_forall in IH. apply IH; [exact Hx|]. rewrite forallb_forall in Hargs. exact (Hargs x Hx). }
  pose proof (pr_args_tokens args H). lia.
Qed.

(** the text of a plain term reads back as the term *)
Theorem read_text_roundtrip : forall t, plain_term t = true -> read_text (show (pr t)) = Some t.
Proof.
  intros t Hp. unfold read_text.
  pose proof (pr_lexable t Hp [] eq_refl eq_refl) as Hl. rewrite app_nil_r in Hl.
  rewrite (lex_show (pr t) _ Hl) by (pose proof (show_length _ Hl); lia).
  pose proof (plain_canon t Hp) as Hc.
  pose proof (canonical_roundtrip t Hc (S (List.length (pr t))) [] ltac:(pose proof (pr_tokens t Hc); lia) I) as Hr.
  rewrite app_nil_r in Hr. rewrite Hr. reflexivity.
Qed.
