(** floor / ceiling / truncate / round of number.go (as regenerated) against
    Flocq's IEEE-754 binary64: for every finite float the result is the exact
    mathematical rounding of its value (toward -inf, toward +inf, toward zero,
    to nearest with ties away from zero) when that integer fits in 64 bits, and
    evaluation_error(int_overflow) otherwise -- never a wrapped or
    implementation-defined conversion. *)
From Coq Require Import ZArith Reals Bool Lia Lra.
From Flocq Require Import Core IEEE754.BinarySingleNaN IEEE754.Binary IEEE754.Bits.
From Coq Require Import Floats.SpecFloat.
From PV Require Import Model.GoInt Model.F64 Model.Num Gen.Arith_gen.
Open Scope R_scope.

Lemma B2R_SF (x : f64) : B2R 53 1024 x = SF2R radix2 (B2SF 53 1024 x).
Proof. destruct x; reflexivity. Qed.

(** the two bounds the kernels compare with: float64(maxI) is 2^63 (rounded up), float64(minI) is -2^63 *)
Lemma of_int_max : B2R 53 1024 (of_int maxI) = IZR 9223372036854775808 /\ fis_finite (of_int maxI) = true.
Proof.
  split; [|vm_compute; reflexivity].
  rewrite B2R_SF.
  replace (B2SF 53 1024 (of_int maxI)) with (S754_finite false 4503599627370496 11) by (vm_compute; reflexivity).
  unfold SF2R, F2R. cbn [Fnum Fexp cond_Zopp]. 
  change (bpow radix2 11) with (IZR (Zpower_pos 2 11)). rewrite <- mult_IZR. f_equal.
Qed.

Lemma of_int_min : B2R 53 1024 (of_int minI) = IZR (-9223372036854775808) /\ fis_finite (of_int minI) = true.
Proof.
  split; [|vm_compute; reflexivity].
  rewrite B2R_SF.
  replace (B2SF 53 1024 (of_int minI)) with (S754_finite true 4503599627370496 11) by (vm_compute; reflexivity).
  unfold SF2R, F2R. cbn [Fnum Fexp cond_Zopp].
  change (bpow radix2 11) with (IZR (Zpower_pos 2 11)). rewrite <- mult_IZR. f_equal.
Qed.

Lemma fge_IZR (f c : f64) (z k : Z) : fis_finite f = true -> fis_finite c = true ->
  B2R 53 1024 f = IZR z -> B2R 53 1024 c = IZR k -> fge f c = (k <=? z)%Z.
Proof.
  intros Hf Hc Ef Ec. unfold fge, fcmp, b64_compare.
  rewrite (Bcompare_correct 53 1024 f c Hf Hc), Ef, Ec, Rcompare_IZR.
  destruct (Z.compare_spec z k); destruct (Z.leb_spec k z); try reflexivity; lia.
Qed.

Lemma flt_IZR (f c : f64) (z k : Z) : fis_finite f = true -> fis_finite c = true ->
  B2R 53 1024 f = IZR z -> B2R 53 1024 c = IZR k -> flt f c = (z <? k)%Z.
Proof.
  intros Hf Hc Ef Ec. unfold flt, fcmp, b64_compare.
  rewrite (Bcompare_correct 53 1024 f c Hf Hc), Ef, Ec, Rcompare_IZR.
  destruct (Z.compare_spec z k); destruct (Z.ltb_spec z k); try reflexivity; lia.
Qed.

(** the common shape of the four kernels *)
Lemma nearby_to_int (md : mode) (x : f64) : fis_finite x = true ->
  let f := Bnearbyint 53 1024 (refl_equal _) unop_nan_pl64 md x in
  let z := round_mode md (B2R 53 1024 x) in
  (if orb (fge f (of_int maxI)) (flt f (of_int minI)) then Err (EExc IntOverflow)
   else bind (to_int f) (fun t1_ => Ok t1_)) = (if int64b z then Ok z else Err (EExc IntOverflow) : resE Z).
Proof.
  intros Hx f z.
  destruct (Bnearbyint_correct 53 1024 (refl_equal _) unop_nan_pl64 md x) as (HR & Hfin & _).
  fold f in HR, Hfin. rewrite round_FIX_IZR in HR. fold z in HR.
  unfold fis_finite in Hx. rewrite Hx in Hfin.
  destruct of_int_max as [Emax Fmax]. destruct of_int_min as [Emin Fmin].
  rewrite (fge_IZR f (of_int maxI) z _ Hfin Fmax HR Emax), (flt_IZR f (of_int minI) z _ Hfin Fmin HR Emin).
  unfold int64b, minI, maxI.
  destruct (Z.leb_spec 9223372036854775808 z) as [H1|H1]; cbn [orb].
  - destruct (Z.leb_spec z 9223372036854775807); [lia|]. rewrite andb_false_r. reflexivity.
  - destruct (Z.ltb_spec z (-9223372036854775808)) as [H2|H2].
    + destruct (Z.leb_spec (-9223372036854775808) z); [lia|]. reflexivity.
    + destruct (Z.leb_spec (-9223372036854775808) z); [|lia]. destruct (Z.leb_spec z 9223372036854775807); [|lia].
      cbn [andb]. unfold to_int, fis_finite. rewrite Hfin.
      assert (Hz : ztrunc f = z).
      { unfold ztrunc. apply eq_IZR. rewrite (Btrunc_correct 53 1024 (refl_equal _) f), round_FIX_IZR, HR. f_equal. apply Ztrunc_IZR. }
      rewrite Hz. unfold int64b, minI, maxI.
      destruct (Z.leb_spec (-9223372036854775808) z); [|lia]. destruct (Z.leb_spec z 9223372036854775807); [|lia].
      reflexivity.
Qed.

Definition in64 (z : Z) : resE Z := if int64b z then Ok z else Err (EExc IntOverflow).

Theorem floorFtoI_correct (x : f64) : fis_finite x = true -> floorFtoI x = in64 (Zfloor (B2R 53 1024 x)).
Proof. intro H. exact (nearby_to_int mode_DN x H). Qed.

Theorem ceilingFtoI_correct (x : f64) : fis_finite x = true -> ceilingFtoI x = in64 (Zceil (B2R 53 1024 x)).
Proof. intro H. exact (nearby_to_int mode_UP x H). Qed.

Theorem truncateFtoI_correct (x : f64) : fis_finite x = true -> truncateFtoI x = in64 (Ztrunc (B2R 53 1024 x)).
Proof. intro H. exact (nearby_to_int mode_ZR x H). Qed.

(** round/1: to nearest, ties away from zero (math.Round) *)
Theorem roundFtoI_correct (x : f64) : fis_finite x = true -> roundFtoI x = in64 (ZnearestA (B2R 53 1024 x)).
Proof. intro H. exact (nearby_to_int mode_NA x H). Qed.

(** float/1 on an integer (float64(n) of Go): the nearest binary64, ties to even, always finite *)
Theorem floatItoF_correct (n : Z) : int64b n = true ->
  B2R 53 1024 (floatItoF n) = round radix2 (SpecFloat.fexp 53 1024) (round_mode mode_NE) (IZR n) /\
  fis_finite (floatItoF n) = true.
Proof.
  intro Hn. unfold floatItoF, of_int.
  pose proof (binary_normalize_correct 53 1024 (refl_equal _) (refl_equal _) mode_NE n 0 false) as H.
  assert (HF : F2R (Float radix2 n 0) = IZR n) by (unfold F2R; cbn; lra).
  rewrite HF in H.
  assert (Hlt : Rlt_bool (Rabs (round radix2 (SpecFloat.fexp 53 1024) (round_mode mode_NE) (IZR n))) (bpow radix2 1024) = true).
  { apply Rlt_bool_true.
    apply Rle_lt_trans with (bpow radix2 63); [|apply bpow_lt; lia].
    apply abs_round_le_generic.
    - apply (fexp_correct 53 1024 (refl_equal _)).
    - apply valid_rnd_N.
    - apply generic_format_bpow. unfold SpecFloat.fexp, SpecFloat.emin. lia.
    - unfold int64b, minI, maxI in Hn. apply andb_prop in Hn. destruct Hn as [H1 H2].
      apply Z.leb_le in H1, H2. rewrite <- abs_IZR.
      change (bpow radix2 63) with (IZR (Zpower_pos 2 63)). apply IZR_le.
      change (Zpower_pos 2 63) with 9223372036854775808%Z. lia. }
  rewrite Hlt in H. destruct H as (HR & Hfin & _). split; assumption.
Qed.
