(** Fuel is only a device of the model: a run of M that does not end in
    "out of fuel" gives the same result and the same final state with any larger
    amount of fuel.  So what M computes (answers, their order, the end of the
    search, the error) is a partial FUNCTION of program, query and cancellation
    budget -- the fuel a check happens to use cannot change an observation, and
    "dropped: out of fuel" is the only way in which too little fuel shows.

    Proved for all eleven mutually recursive functions of Model/Machine.v at
    once: [Mono n m] says that every call with fuel n that does not end in the
    out-of-fuel marker returns the same with fuel m; [mono_step] lifts it from
    (n, m) to (S n, S m) by walking through one unfolding of each function --
    both sides take the same branches because every test is on data that does not
    depend on the fuel -- and [mono_add] is the induction. *)
From Coq Require Import ZArith Bool List String Lia.
From PV Require Import Model.Term Model.Unify Model.Clause Model.Machine.
Import ListNotations.
Open Scope Z_scope.

Definition Mono (n m : nat) : Prop :=
  (forall stack st r st', force n stack st = (r, st') -> r <> FOutOfFuel -> force m stack st = (r, st')) /\
  (forall err xs stack st r st', recover n err xs stack st = (r, st') -> r <> FOutOfFuel -> recover m err xs stack st = (r, st')) /\
  (forall th st q st', run_thunk n th st = (q, st') -> is_fuel_err q = false -> run_thunk m th st = (q, st')) /\
  (forall lo up v k e st q st', between n lo up v k e st = (q, st') -> is_fuel_err q = false -> between m lo up v k e st = (q, st')) /\
  (forall k e st q st', apply_cont n k e st = (q, st') -> is_fuel_err q = false -> apply_cont m k e st = (q, st')) /\
  (forall pc vs k args astack e cutp st q st', exec n pc vs k args astack e cutp st = (q, st') -> is_fuel_err q = false ->
      exec m pc vs k args astack e cutp st = (q, st')) /\
  (forall g k e st q st', call_goal n g k e st = (q, st') -> is_fuel_err q = false -> call_goal m g k e st = (q, st')) /\
  (forall name args k e st q st', arrive n name args k e st = (q, st') -> is_fuel_err q = false -> arrive m name args k e st = (q, st')) /\
  (forall name args k e st q st', builtin n name args k e st = (q, st') -> is_fuel_err q = false -> builtin m name args k e st = (q, st')) /\
  (forall so tmpl g inst k e st q st', collection n so tmpl g inst k e st = (q, st') -> is_fuel_err q = false ->
      collection m so tmpl g inst k e st = (q, st')) /\
  (forall front t k e st q st', assert_clause n front t k e st = (q, st') -> is_fuel_err q = false ->
      assert_clause m front t k e st = (q, st')).

(** the out-of-fuel marker on top of the stack ends the run as "out of fuel" *)
Lemma force_fuel_err :
  forall n q rest st, is_fuel_err q = true -> force n (q :: rest) st = (FOutOfFuel, st).
Proof. intros n q rest st H. destruct n; cbn [force]; [reflexivity | rewrite H; reflexivity]. Qed.

Lemma mono_zero : forall m, Mono 0 m.
Proof.
  intro m. unfold Mono. repeat split; intros; cbn in *;
  match goal with H : (_, _) = (_, _) |- _ => inversion H; subst end;
  try contradiction; try discriminate.
Qed.

(** one unfolding of each function, stated by computation and checked by [reflexivity] *)
Lemma force_S n stack st :
  force (S n) stack st = ltac:(let t := eval cbn [force] in (force (S n) stack st) in exact t).
Proof. reflexivity. Qed.
Lemma recover_S n err xs stack st :
  recover (S n) err xs stack st = ltac:(let t := eval cbn [recover] in (recover (S n) err xs stack st) in exact t).
Proof. reflexivity. Qed.
Lemma run_thunk_S n th st :
  run_thunk (S n) th st = ltac:(let t := eval cbn [run_thunk] in (run_thunk (S n) th st) in exact t).
Proof. reflexivity. Qed.
Lemma between_S n lo up v k e st :
  between (S n) lo up v k e st = ltac:(let t := eval cbn [between] in (between (S n) lo up v k e st) in exact t).
Proof. reflexivity. Qed.
Lemma apply_cont_S n k e st :
  apply_cont (S n) k e st = ltac:(let t := eval cbn [apply_cont] in (apply_cont (S n) k e st) in exact t).
Proof. reflexivity. Qed.
Lemma exec_S n pc vs k args astack e cutp st :
  exec (S n) pc vs k args astack e cutp st = ltac:(let t := eval cbn [exec] in (exec (S n) pc vs k args astack e cutp st) in exact t).
Proof. reflexivity. Qed.
Lemma call_goal_S n g k e st :
  call_goal (S n) g k e st = ltac:(let t := eval cbn [call_goal] in (call_goal (S n) g k e st) in exact t).
Proof. reflexivity. Qed.
Lemma arrive_S n name args k e st :
  arrive (S n) name args k e st = ltac:(let t := eval cbn [arrive] in (arrive (S n) name args k e st) in exact t).
Proof. reflexivity. Qed.
Lemma builtin_S n name args k e st :
  builtin (S n) name args k e st = ltac:(let t := eval cbn [builtin] in (builtin (S n) name args k e st) in exact t).
Proof. reflexivity. Qed.
Lemma collection_S n so tmpl g inst k e st :
  collection (S n) so tmpl g inst k e st = ltac:(let t := eval cbn [collection] in (collection (S n) so tmpl g inst k e st) in exact t).
Proof. reflexivity. Qed.
Lemma assert_clause_S n front t k e st :
  assert_clause (S n) front t k e st = ltac:(let t := eval cbn [assert_clause] in (assert_clause (S n) front t k e st) in exact t).
Proof. reflexivity. Qed.

(** walk through one unfolding: destruct the scrutinee at the head of the
    hypothesis (the same term occurs at the head of the goal) until a leaf *)
Ltac head_scrut t :=
  lazymatch t with
  | match ?X with _ => _ end => head_scrut X
  | _ => t
  end.

Ltac walk_step H :=
  lazymatch type of H with
  | (match ?X with _ => _ end) = _ =>
      let x := head_scrut X in destruct x eqn:?
  end.

Ltac walk_with H leaf :=
  repeat (lazymatch type of H with
          | (match _ with _ => _ end) = _ => walk_step H
          | _ => leaf H
          end).

Section Step.
Variables n m : nat.
Hypothesis IH : Mono n m.

Let IHforce := proj1 IH.
Let IHrecover := proj1 (proj2 IH).
Let IHrun := proj1 (proj2 (proj2 IH)).
Let IHbetween := proj1 (proj2 (proj2 (proj2 IH))).
Let IHapply := proj1 (proj2 (proj2 (proj2 (proj2 IH)))).
Let IHexec := proj1 (proj2 (proj2 (proj2 (proj2 (proj2 IH))))).
Let IHcall := proj1 (proj2 (proj2 (proj2 (proj2 (proj2 (proj2 IH)))))).
Let IHarrive := proj1 (proj2 (proj2 (proj2 (proj2 (proj2 (proj2 (proj2 IH))))))).
Let IHbuiltin := proj1 (proj2 (proj2 (proj2 (proj2 (proj2 (proj2 (proj2 (proj2 IH)))))))).
Let IHcollection := proj1 (proj2 (proj2 (proj2 (proj2 (proj2 (proj2 (proj2 (proj2 (proj2 IH))))))))).
Let IHassert := proj2 (proj2 (proj2 (proj2 (proj2 (proj2 (proj2 (proj2 (proj2 (proj2 IH))))))))).

Ltac leaf H :=
  lazymatch goal with
  | |- ?L = _ =>
      lazymatch type of H with
      | L = _ => exact H
      | _ =>
  first [ apply IHapply; assumption | apply IHexec; assumption | apply IHcall; assumption
        | apply IHarrive; assumption | apply IHbuiltin; assumption | apply IHbetween; assumption
        | apply IHcollection; assumption | apply IHassert; assumption
        | apply IHforce; assumption | apply IHrecover; assumption | apply IHrun; assumption ]
      end
  end.
Ltac walk H := walk_with H leaf.

(** a child computed with fuel n and then forced with fuel n: if the whole is
    not out of fuel, the child was not the marker, so it is the same with m *)
Lemma child_then_force :
  forall q st1 rest r st',
    force n (q :: rest) st1 = (r, st') -> r <> FOutOfFuel ->
    is_fuel_err q = false /\ force m (q :: rest) st1 = (r, st').
Proof.
  intros q st1 rest r st' H Hr. split; [|apply IHforce; assumption].
  destruct (is_fuel_err q) eqn:E; [|reflexivity].
  rewrite force_fuel_err in H by assumption. inversion H; subst. contradiction.
Qed.

Lemma step_force :
  forall stack st r st', force (S n) stack st = (r, st') -> r <> FOutOfFuel -> force (S m) stack st = (r, st').
Proof.
  intros stack st r st' H Hr. rewrite force_S in H; rewrite force_S.
  destruct stack as [|p rest]; [exact H|].
  destruct (is_fuel_err p); [exact H|].
  destruct (s_polls st) as [[|c]|]; [exact H| |].
  all: destruct (p_delayed p) as [|th ths];
    [ destruct (p_err p); [apply IHrecover; assumption | destruct (p_ok p); [exact H | apply IHforce; assumption]] |].
  all: match type of H with context [run_thunk n ?a ?b] => destruct (run_thunk n a b) as [q st2] eqn:E end.
  all: destruct (child_then_force _ _ _ _ _ H Hr) as [Hq Hf].
  all: rewrite (IHrun _ _ _ _ E Hq); exact Hf.
Qed.

Lemma step_recover :
  forall err xs stack st r st', recover (S n) err xs stack st = (r, st') -> r <> FOutOfFuel -> recover (S m) err xs stack st = (r, st').
Proof.
  intros err xs stack st r st' H Hr. rewrite recover_S in H; rewrite recover_S.
  destruct err; [| | |exact H].
  all: destruct stack as [|p rest]; [exact H|].
  all: destruct (p_exited p); [apply IHrecover; assumption|].
  all: destruct (if existsb (Z.eqb (p_id p)) xs then None else p_recover p) as [[catcher recovery k e]|]; [|apply IHrecover; assumption].
  all: match type of H with context [unify ?a ?b ?c] => destruct (unify a b c) end; try (apply IHrecover; assumption).
  all: match type of H with context [call_goal n ?a ?b ?c ?d] => destruct (call_goal n a b c d) as [q st2] eqn:E end.
  all: destruct (child_then_force _ _ _ _ _ H Hr) as [Hq Hf].
  all: rewrite (IHcall _ _ _ _ _ _ E Hq); exact Hf.
Qed.

Lemma step_apply :
  forall k e st q st', apply_cont (S n) k e st = (q, st') -> is_fuel_err q = false -> apply_cont (S m) k e st = (q, st').
Proof. intros k e st q st' H Hq. rewrite apply_cont_S in H; rewrite apply_cont_S. walk H. Qed.

Lemma step_between :
  forall lo up v k e st q st', between (S n) lo up v k e st = (q, st') -> is_fuel_err q = false -> between (S m) lo up v k e st = (q, st').
Proof. intros lo up v k e st q st' H Hq. rewrite between_S in H; rewrite between_S. walk H. Qed.

Lemma step_exec :
  forall pc vs k args astack e cutp st q st', exec (S n) pc vs k args astack e cutp st = (q, st') -> is_fuel_err q = false ->
    exec (S m) pc vs k args astack e cutp st = (q, st').
Proof. intros pc vs k args astack e cutp st q st' H Hq. rewrite exec_S in H; rewrite exec_S. walk H. Qed.

Lemma step_call :
  forall g k e st q st', call_goal (S n) g k e st = (q, st') -> is_fuel_err q = false -> call_goal (S m) g k e st = (q, st').
Proof. intros g k e st q st' H Hq. rewrite call_goal_S in H; rewrite call_goal_S. exact H. Qed.

Lemma step_arrive :
  forall name args k e st q st', arrive (S n) name args k e st = (q, st') -> is_fuel_err q = false -> arrive (S m) name args k e st = (q, st').
Proof. intros name args k e st q st' H Hq. rewrite arrive_S in H; rewrite arrive_S. walk H. Qed.

Lemma step_collection :
  forall so tmpl g inst k e st q st', collection (S n) so tmpl g inst k e st = (q, st') -> is_fuel_err q = false ->
    collection (S m) so tmpl g inst k e st = (q, st').
Proof. intros so tmpl g inst k e st q st' H Hq. rewrite collection_S in H; rewrite collection_S. exact H. Qed.

Lemma step_assert :
  forall front t k e st q st', assert_clause (S n) front t k e st = (q, st') -> is_fuel_err q = false ->
    assert_clause (S m) front t k e st = (q, st').
Proof. intros front t k e st q st' H Hq. rewrite assert_clause_S in H; rewrite assert_clause_S. walk H. Qed.

Lemma step_builtin :
  forall name args k e st q st', builtin (S n) name args k e st = (q, st') -> is_fuel_err q = false -> builtin (S m) name args k e st = (q, st').
Proof. intros name args k e st q st' H Hq. rewrite builtin_S in H; rewrite builtin_S. walk H. Qed.

(** \+ and findall run a nested trampoline *)
Lemma step_run :
  forall th st q st', run_thunk (S n) th st = (q, st') -> is_fuel_err q = false -> run_thunk (S m) th st = (q, st').
Proof.
  intros th st q st' H Hq. rewrite run_thunk_S in H; rewrite run_thunk_S.
  destruct th.
  - (* ThClause *) walk H.
  - apply IHexec; assumption.
  - apply IHapply; assumption.
  - (* ThNegate *)
    destruct (call_goal n g KSuccess e st) as [q1 st1] eqn:E1.
    destruct (force n [q1] st1) as [r st2] eqn:E2.
    assert (Hr : r <> FOutOfFuel) by (intro; subst r; inversion H; subst; discriminate).
    destruct (child_then_force _ _ _ _ _ E2 Hr) as [Hq1 Hf].
    rewrite (IHcall _ _ _ _ _ _ E1 Hq1), Hf.
    destruct r; try exact H; try contradiction. apply IHapply; assumption.
  - apply IHcall; assumption.
  - (* ThFindall *)
    destruct (fresh_id st) as [cid st0].
    match type of H with context [call_goal n ?a ?b ?c ?d] => destruct (call_goal n a b c d) as [q1 st1] eqn:E1 end.
    destruct (force n [q1] st1) as [r st2] eqn:E2.
    assert (Hr : r <> FOutOfFuel) by (intro; subst r; inversion H; subst; discriminate).
    destruct (child_then_force _ _ _ _ _ E2 Hr) as [Hq1 Hf].
    rewrite (IHcall _ _ _ _ _ _ E1 Hq1), Hf.
    destruct r; try exact H; try contradiction; walk H.
  - walk H.
  - apply IHbetween; assumption.
  - walk H.
  - walk H.
Qed.

Lemma mono_step : Mono (S n) (S m).
Proof.
  unfold Mono. repeat split.
  - exact step_force. - exact step_recover. - exact step_run. - exact step_between. - exact step_apply.
  - exact step_exec. - exact step_call. - exact step_arrive. - exact step_builtin. - exact step_collection.
  - exact step_assert.
Qed.

End Step.

Theorem mono_add : forall n k, Mono n (n + k).
Proof.
  induction n as [|n IHn]; intro k; [apply mono_zero|].
  cbn [Nat.add]. apply mono_step. apply IHn.
Qed.

(** ---- the statements used by the properties ------------------------------------- *)

Theorem force_mono :
  forall n m stack st r st', (n <= m)%nat ->
    force n stack st = (r, st') -> r <> FOutOfFuel -> force m stack st = (r, st').
Proof.
  intros n m stack st r st' Hle. replace m with (n + (m - n))%nat by lia. apply (proj1 (mono_add n (m - n))).
Qed.

Theorem recover_mono :
  forall n m err xs stack st r st', (n <= m)%nat ->
    recover n err xs stack st = (r, st') -> r <> FOutOfFuel -> recover m err xs stack st = (r, st').
Proof.
  intros n m err xs stack st r st' Hle. replace m with (n + (m - n))%nat by lia.
  apply (proj1 (proj2 (mono_add n (m - n)))).
Qed.

Theorem run_thunk_mono :
  forall n m th st q st', (n <= m)%nat ->
    run_thunk n th st = (q, st') -> is_fuel_err q = false -> run_thunk m th st = (q, st').
Proof.
  intros n m th st q st' Hle. replace m with (n + (m - n))%nat by lia.
  apply (proj1 (proj2 (proj2 (mono_add n (m - n))))).
Qed.

Theorem call_goal_mono :
  forall n m g k e st q st', (n <= m)%nat ->
    call_goal n g k e st = (q, st') -> is_fuel_err q = false -> call_goal m g k e st = (q, st').
Proof.
  intros n m g k e st q st' Hle. replace m with (n + (m - n))%nat by lia.
  apply (proj1 (proj2 (proj2 (proj2 (proj2 (proj2 (proj2 (mono_add n (m - n))))))))).
Qed.

(** two runs of the trampoline on the same stack and state that both end
    otherwise than by lack of fuel end in the same way, in the same state *)
Theorem force_deterministic :
  forall n1 n2 stack st r1 st1 r2 st2,
    force n1 stack st = (r1, st1) -> r1 <> FOutOfFuel ->
    force n2 stack st = (r2, st2) -> r2 <> FOutOfFuel ->
    r1 = r2 /\ st1 = st2.
Proof.
  intros n1 n2 stack st r1 st1 r2 st2 H1 Hr1 H2 Hr2.
  apply (force_mono n1 (Nat.max n1 n2)) in H1; [|lia|assumption].
  apply (force_mono n2 (Nat.max n1 n2)) in H2; [|lia|assumption].
  rewrite H1 in H2. inversion H2; subst. split; reflexivity.
Qed.

(** a whole query: the answers handed to the consumer, the way the search ends
    and the final database do not depend on the fuel *)
Theorem run_query_mono :
  forall n m db nextv q qvars limit polls r st', (n <= m)%nat ->
    run_query n db nextv q qvars limit polls = (r, st') -> r <> FOutOfFuel ->
    run_query m db nextv q qvars limit polls = (r, st').
Proof.
  intros n m db nextv q qvars limit polls r st' Hle H Hr. unfold run_query in *.
  destruct (call_goal n q KTop empty_env (init_state db nextv qvars limit polls)) as [p st1] eqn:E.
  assert (Hp : is_fuel_err p = false).
  { destruct (is_fuel_err p) eqn:Ep; [|reflexivity].
    rewrite force_fuel_err in H by assumption. inversion H; subst. contradiction. }
  rewrite (call_goal_mono n m _ _ _ _ _ _ Hle E Hp).
  apply (force_mono n m); assumption.
Qed.

Theorem run_query_deterministic :
  forall n1 n2 db nextv q qvars limit polls r1 st1 r2 st2,
    run_query n1 db nextv q qvars limit polls = (r1, st1) -> r1 <> FOutOfFuel ->
    run_query n2 db nextv q qvars limit polls = (r2, st2) -> r2 <> FOutOfFuel ->
    r1 = r2 /\ s_answers st1 = s_answers st2 /\ s_db st1 = s_db st2.
Proof.
  intros n1 n2 db nextv q qvars limit polls r1 st1 r2 st2 H1 Hr1 H2 Hr2.
  apply (run_query_mono n1 (Nat.max n1 n2)) in H1; [|lia|assumption].
  apply (run_query_mono n2 (Nat.max n1 n2)) in H2; [|lia|assumption].
  rewrite H1 in H2. inversion H2; subst. repeat split; reflexivity.
Qed.
