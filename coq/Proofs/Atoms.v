(** NewAtom under every interleaving of any number of threads: the table stays a
    bijection between names and numbers, and two calls return the same atom
    exactly when they were given the same name -- for every critical-section
    structure accepted by [wf_regions]. *)
From Coq Require Import List String Bool Arith Lia.
From PV Require Import Model.Shared.
Import ListNotations.
Open Scope string_scope.

Section Base.
Variable BASE : nat.

Definition Inv (t : tbl) : Prop :=
  NoDup (names t) /\
  forall n i, lookup (atoms t) n = Some i <-> (BASE <= i /\ nth_error (names t) (i - BASE) = Some n).

Definition ext (t t' : tbl) : Prop := forall n i, lookup (atoms t) n = Some i -> lookup (atoms t') n = Some i.
Lemma ext_refl t : ext t t. Proof. intros n i H. exact H. Qed.
Lemma ext_trans a b c : ext a b -> ext b c -> ext a c. Proof. intros H1 H2 n i H. apply H2, H1, H. Qed.

Definition grow (t : tbl) (name : string) : tbl :=
  mkT (names t ++ [name]) ((name, List.length (names t) + BASE) :: atoms t).

Lemma NoDup_snoc {A} (l : list A) x : NoDup l -> ~ In x l -> NoDup (l ++ [x]).
Proof.
  induction l as [|y l IH]; intros Hnd Hx; cbn; [constructor; [intros []|constructor]|].
  inversion Hnd as [|? ? Hy Hl]; subst. constructor.
  - intros Hin. apply in_app_or in Hin. destruct Hin as [Hin|[<-|[]]]; [exact (Hy Hin) | apply Hx; left; reflexivity].
  - apply IH; [exact Hl | intros Hin; apply Hx; right; exact Hin].
Qed.

Lemma grow_inv t name : Inv t -> lookup (atoms t) name = None -> Inv (grow t name) /\ ext t (grow t name) /\
  lookup (atoms (grow t name)) name = Some (List.length (names t) + BASE).
Proof.
  intros [Hnd Hbij] Hmiss.
  assert (Hnotin : ~ In name (names t)).
  { intros Hin. apply In_nth_error in Hin. destruct Hin as [k Hk].
    assert (H : lookup (atoms t) name = Some (k + BASE)).
    { apply Hbij. split; [lia|]. replace (k + BASE - BASE) with k by lia. exact Hk. }
    congruence. }
  split; [|split].
  - split; [apply NoDup_snoc; assumption|].
    intros n i. cbn [grow atoms names lookup]. destruct (String.eqb_spec name n) as [->|Hne].
    + split.
      * intros H. inversion H; subst. split; [lia|]. replace (List.length (names t) + BASE - BASE) with (List.length (names t)) by lia.
        rewrite nth_error_app2 by lia. rewrite Nat.sub_diag. reflexivity.
      * intros [Hb Hn]. destruct (Nat.lt_ge_cases (i - BASE) (List.length (names t))) as [Hlt|Hge].
        -- rewrite nth_error_app1 in Hn by exact Hlt. apply nth_error_In in Hn. contradiction.
        -- assert (Hlen : i - BASE < List.length (names t ++ [n])) by (apply nth_error_Some; congruence).
           rewrite app_length in Hlen. cbn in Hlen. f_equal. lia.
    + rewrite Hbij. split; intros [Hb Hn]; (split; [exact Hb|]).
      * rewrite nth_error_app1; [exact Hn | apply nth_error_Some; congruence].
      * destruct (Nat.lt_ge_cases (i - BASE) (List.length (names t))) as [Hlt|Hge].
        -- rewrite nth_error_app1 in Hn by exact Hlt. exact Hn.
        -- rewrite nth_error_app2 in Hn by exact Hge. destruct (i - BASE - List.length (names t)) as [|k]; cbn in Hn.
           ++ inversion Hn. congruence.
           ++ destruct k; discriminate.
  - intros n i H. cbn [grow atoms lookup]. destruct (String.eqb_spec name n) as [->|Hne]; [congruence | exact H].
  - cbn [grow atoms lookup]. rewrite String.eqb_refl. reflexivity.
Qed.

(** what a section of each accepted shape does *)
Lemma exec_write_shape t name a :
  exec_ops BASE [OLookupReturnIfHit; OAllocNext; OPut; OAppendName] t name a =
  match lookup (atoms t) name with
  | Some i => (t, Some i, Some i)
  | None => (grow t name, Some (List.length (names t) + BASE), None)
  end.
Proof. cbn. destruct (lookup (atoms t) name); reflexivity. Qed.

(** per-thread invariant: a finished call holds the table's entry for its name; a
    call that has left its last section holds it too *)
Definition TI (rs : list region) (t : tbl) (th : thread) : Prop :=
  match th with
  | TDone name res => lookup (atoms t) name = Some res
  | TRun name pc a => pc <= List.length rs /\ (pc = List.length rs -> exists i, a = Some i /\ lookup (atoms t) name = Some i)
  end.

Lemma TI_ext rs t t' th : ext t t' -> TI rs t th -> TI rs t' th.
Proof.
  intros He. destruct th as [name pc a|name res]; cbn.
  - intros [Hle H]. split; [exact Hle|]. intros Hpc. destruct (H Hpc) as (i & Ha & Hl). exists i. split; [exact Ha | apply He; exact Hl].
  - apply He.
Qed.

Lemma last_nth {A} (l : list A) d pc : S pc = List.length l -> nth_error l pc = Some (last l d).
Proof.
  revert pc. induction l as [|x l IH]; intros pc H; [discriminate|]. destruct l as [|y l].
  - cbn in H. inversion H. reflexivity.
  - destruct pc as [|pc]; [cbn in H; lia|]. cbn [nth_error]. change (last (x :: y :: l) d) with (last (y :: l) d). apply IH. cbn in *. lia.
Qed.

Lemma step_thread_ok rs t th : wf_regions rs = true -> Inv t -> TI rs t th ->
  let '(t', th') := step_thread BASE rs t th in Inv t' /\ ext t t' /\ TI rs t' th'.
Proof.
  intros Hwf Hi Ht. unfold wf_regions in Hwf. apply andb_true_iff in Hwf. destruct Hwf as [Hall Hlast].
  destruct th as [name pc a|name res]; cbn [step_thread]; [|split; [exact Hi | split; [apply ext_refl | exact Ht]]].
  destruct Ht as [Hle Hend]. destruct (nth_error rs pc) as [[m ops]|] eqn:En.
  - assert (Hpc : pc < List.length rs) by (apply nth_error_Some; congruence).
    assert (Hwr : wf_region (m, ops) = true) by (rewrite forallb_forall in Hall; apply Hall; eapply nth_error_In; exact En).
    assert (Hlastw : S pc = List.length rs -> write_shape ops = true).
    { intros Hs. rewrite (last_nth rs (RNone, []) pc Hs) in En. inversion En as [E]. rewrite E in Hlast. destruct m; try discriminate. exact Hlast. }
    assert (Hcases : write_shape ops = true \/ (read_shape ops = true /\ S pc <> List.length rs)).
    { destruct (write_shape ops) eqn:Ew; [left; reflexivity|]. right. split.
      - destruct m; cbn in Hwr; rewrite ?Ew in Hwr; cbn in Hwr; [exact Hwr | exact Hwr | discriminate].
      - intros Hs. specialize (Hlastw Hs). congruence. }
    destruct Hcases as [Hw|[Hr Hnl]].
    + assert (ops = [OLookupReturnIfHit; OAllocNext; OPut; OAppendName]) as ->.
      { destruct ops as [|[] [|[] [|[] [|[] [|]]]]]; try discriminate. reflexivity. }
      rewrite exec_write_shape. destruct (lookup (atoms t) name) as [i|] eqn:El.
      * split; [exact Hi | split; [apply ext_refl | exact El]].
      * destruct (grow_inv t name Hi El) as (Hi' & He & Hl). split; [exact Hi'|]. split; [exact He|].
        cbn. split; [lia|]. intros _. eexists. split; [reflexivity | exact Hl].
    + destruct ops as [|[] [|]]; try discriminate; cbn.
      * split; [exact Hi | split; [apply ext_refl | split; [lia | intros Hs; contradiction]]].
      * destruct (lookup (atoms t) name) as [i|] eqn:El.
        -- split; [exact Hi | split; [apply ext_refl | exact El]].
        -- split; [exact Hi | split; [apply ext_refl | split; [lia | intros Hs; contradiction]]].
  - assert (Hpc : pc = List.length rs) by (apply nth_error_None in En; lia).
    destruct (Hend Hpc) as (i & -> & Hl). split; [exact Hi | split; [apply ext_refl | exact Hl]].
Qed.

Lemma Forall_set_nth {A} (P : A -> Prop) l i x : Forall P l -> P x -> Forall P (set_nth l i x).
Proof.
  revert i. induction l as [|y l IH]; intros i Hl Hx; cbn; [constructor|]. inversion Hl; subst.
  destruct i; constructor; auto.
Qed.

Lemma nth_error_Forall {A} (P : A -> Prop) l i x : Forall P l -> nth_error l i = Some x -> P x.
Proof. intros Hl Hn. rewrite Forall_forall in Hl. apply Hl. eapply nth_error_In. exact Hn. Qed.

(** every schedule keeps the table a bijection and every thread consistent with it *)
Theorem interleavings_keep_invariant rs : wf_regions rs = true ->
  forall sched t ths, Inv t -> Forall (TI rs t) ths ->
  let '(t', ths') := run_sched BASE rs t ths sched in Inv t' /\ Forall (TI rs t') ths'.
Proof.
  intros Hwf. induction sched as [|i sched IH]; intros t ths Hi Hths; cbn [run_sched]; [split; assumption|].
  destruct (nth_error ths i) as [th|] eqn:En; [|apply IH; assumption].
  pose proof (step_thread_ok rs t th Hwf Hi (nth_error_Forall _ _ _ _ Hths En)) as Hs.
  destruct (step_thread BASE rs t th) as [t' th']. destruct Hs as (Hi' & He & Ht').
  apply IH; [exact Hi'|]. apply Forall_set_nth; [|exact Ht'].
  eapply Forall_impl; [|exact Hths]. intros x. apply TI_ext. exact He.
Qed.

(** equal names get equal atoms, different names different atoms, whatever the interleaving *)
Theorem interned_iff_same_name rs : wf_regions rs = true ->
  forall sched t ths t' ths' i j n1 r1 n2 r2, Inv t -> Forall (TI rs t) ths ->
  run_sched BASE rs t ths sched = (t', ths') ->
  nth_error ths' i = Some (TDone n1 r1) -> nth_error ths' j = Some (TDone n2 r2) ->
  (n1 = n2 <-> r1 = r2).
Proof.
  intros Hwf sched t ths t' ths' i j n1 r1 n2 r2 Hi Hths Hrun H1 H2.
  pose proof (interleavings_keep_invariant rs Hwf sched t ths Hi Hths) as H. rewrite Hrun in H. destruct H as [[Hnd Hbij] Hall].
  pose proof (nth_error_Forall _ _ _ _ Hall H1) as L1. pose proof (nth_error_Forall _ _ _ _ Hall H2) as L2. cbn in L1, L2.
  split.
  - intros ->. congruence.
  - intros ->. apply Hbij in L1, L2. destruct L1 as [_ L1], L2 as [_ L2]. congruence.
Qed.

(** fresh calls on the initial table satisfy the hypotheses *)
Lemma fresh_threads_ok rs t (ns : list string) : rs <> [] -> Forall (TI rs t) (map (fun n => TRun n 0 None) ns).
Proof.
  intros Hne. apply Forall_forall. intros th Hin. apply in_map_iff in Hin. destruct Hin as (n & <- & _). cbn.
  split; [lia|]. intros H. destruct rs; [contradiction | discriminate].
Qed.
Lemma empty_inv : Inv (mkT [] []).
Proof.
  split; [constructor|]. intros n i. cbn. split; [discriminate|]. intros [_ H]. destruct (i - BASE); discriminate.
Qed.

End Base.

(** ** the lock-set discipline: in a summary that passes [discipline_ok], two live
    accesses that conflict are protected *)
Theorem discipline_protects accs dead : discipline_ok accs dead = true ->
  forall a b, In a accs -> In b accs -> live dead a = true -> live dead b = true ->
  a_kind a <> ALockOp -> a_kind b <> ALockOp -> a_kind a <> AAddr -> a_kind b <> AAddr ->
  conflict a b = true -> protected a b = true.
Proof.
  unfold discipline_ok. rewrite forallb_forall. intros Hok a b Ha Hb La Lb Ka Kb Aa Ab Hc.
  pose proof (Hok a Ha) as Oa. pose proof (Hok b Hb) as Ob. unfold ok_access in Oa, Ob. rewrite La in Oa. rewrite Lb in Ob. cbn [negb] in Oa, Ob.
  unfold conflict in Hc. apply andb_true_iff in Hc. destruct Hc as [Hv Hu]. apply String.eqb_eq in Hv.
  assert (Wa : plain_write a = true -> written accs dead (a_var a) = true).
  { intros H. unfold written. apply existsb_exists. exists a. rewrite String.eqb_refl, La, H. split; [exact Ha | reflexivity]. }
  assert (Wb : plain_write b = true -> written accs dead (a_var a) = true).
  { intros H. unfold written. apply existsb_exists. exists b. rewrite Hv, String.eqb_refl, Lb, H. split; [exact Hb | reflexivity]. }
  assert (Ta : atomic_op a = true -> atomically_updated accs dead (a_var a) = true).
  { intros H. unfold atomically_updated. apply existsb_exists. exists a. rewrite String.eqb_refl, La, H. split; [exact Ha | reflexivity]. }
  assert (Tb : atomic_op b = true -> atomically_updated accs dead (a_var a) = true).
  { intros H. unfold atomically_updated. apply existsb_exists. exists b. rewrite Hv, String.eqb_refl, Lb, H. split; [exact Hb | reflexivity]. }
  rewrite <- Hv in Ob. unfold protected, updates, plain_write, atomic_op in *.
  destruct (a_kind a) eqn:Eka, (a_kind b) eqn:Ekb; try contradiction; cbn in Hu; try discriminate;
    repeat match goal with
           | H : true = true -> _ |- _ => specialize (H eq_refl)
           | H : false = true -> _ |- _ => clear H
           end;
    try rewrite Wa in *; try rewrite Wb in *; try rewrite Ta in *; try rewrite Tb in *; cbn in *;
    destruct (a_lock a), (a_lock b); cbn in *; try discriminate; try reflexivity;
    destruct (written accs dead (a_var a)); cbn in *; try discriminate;
    destruct (atomically_updated accs dead (a_var a)); cbn in *; discriminate.
Qed.
