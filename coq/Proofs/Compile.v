(** The bytecode of a clause argument denotes the argument: symbolic
    decompilation of the code emitted by compileHeadArg / compileBodyArg
    (Model/Clause.v) rebuilds the term, with the clause's variable table. *)
From Coq Require Import ZArith Bool List String Lia.
From PV Require Import Model.Term Model.Unify Model.Clause.
Import ListNotations.
Open Scope Z_scope.

(** a frame under construction: the functor (None at top level) and the
    arguments collected so far, most recent first *)
Definition dframe := (option string * list term)%type.

Definition push_arg (t : term) (st : list dframe) : list dframe :=
  match st with
  | (f, args) :: rest => (f, t :: args) :: rest
  | [] => [(None, [t])]
  end.

(** Get and Put instructions build the same terms; the difference (unify the
    argument with it / pass it as an argument) is the machine's business *)
Fixpoint decompile_args (code : list instr) (vs : list Z) (st : list dframe) : list dframe :=
  match code with
  | IGetVar i :: c | IPutVar i :: c => decompile_args c vs (push_arg (Var (nth i vs 0)) st)
  | IGetConst k :: c | IPutConst k :: c => decompile_args c vs (push_arg k st)
  | IGetFunctor f _ :: c | IPutFunctor f _ :: c => decompile_args c vs ((Some f, []) :: st)
  | IPop :: c =>
      match st with
      | (Some f, args) :: rest => decompile_args c vs (push_arg (Cmp f (rev args)) rest)
      | _ => st
      end
  | _ => st
  end.

Lemma index_of_nth v vs i : index_of v vs = Some i -> nth i vs 0 = v.
Proof.
  revert i. induction vs as [|w vs IH]; intros i H; cbn in *; [discriminate|].
  destruct (Z.eqb_spec v w) as [->|E].
  - inversion H; subst. reflexivity.
  - destruct (index_of v vs) as [j|] eqn:Hj; cbn in H; [|discriminate].
    inversion H; subst. cbn. apply IH. reflexivity.
Qed.

Lemma index_of_lt v vs i : index_of v vs = Some i -> (i < List.length vs)%nat.
Proof.
  revert i. induction vs as [|w vs IH]; intros i H; cbn in *; [discriminate|].
  destruct (Z.eqb v w); [inversion H; lia|].
  destruct (index_of v vs) as [j|] eqn:Hj; cbn in H; [|discriminate].
  inversion H; subst. specialize (IH j eq_refl). lia.
Qed.

Lemma var_offset_spec v vs vs' i :
  var_offset vs v = (vs', i) -> (exists ext, vs' = vs ++ ext) /\ forall ext, nth i (vs' ++ ext) 0 = v.
Proof.
  unfold var_offset. destruct (index_of v vs) as [j|] eqn:Hj; intros H; inversion H; subst.
  - split; [exists []; rewrite app_nil_r; reflexivity|].
    intros ext. rewrite app_nth1 by (eapply index_of_lt; eassumption). apply index_of_nth. assumption.
  - split; [exists [v]; reflexivity|].
    intros ext. rewrite <- app_assoc. rewrite app_nth2 by lia. rewrite Nat.sub_diag. reflexivity.
Qed.

(** the argument-list compilers, named *)
Definition head_args (args : list term) (vs : list Z) : list Z * list instr :=
  fold_left (fun acc a => let '(vs0, c0) := acc in
                          let '(vs1, c1) := compile_head_arg a vs0 in (vs1, c0 ++ c1)) args (vs, []).
Definition body_args (args : list term) (vs : list Z) : list Z * list instr :=
  fold_left (fun acc a => let '(vs0, c0) := acc in
                          let '(vs1, c1) := compile_body_arg a vs0 in (vs1, c0 ++ c1)) args (vs, []).

Section Roundtrip.
  (** one proof for both compilers *)
  Variable comp : term -> list Z -> list Z * list instr.
  Variable mkVar : nat -> instr.
  Variable mkConst : term -> instr.
  Variable mkFun : string -> nat -> instr.
  Hypothesis comp_var : forall v vs, comp (Var v) vs = let '(vs', i) := var_offset vs v in (vs', [mkVar i]).
  Hypothesis comp_cmp : forall f args vs,
      comp (Cmp f args) vs =
      let '(vs', code) := fold_left (fun acc a => let '(vs0, c0) := acc in
                                                  let '(vs1, c1) := comp a vs0 in (vs1, c0 ++ c1)) args (vs, []) in
      (vs', mkFun f (List.length args) :: code ++ [IPop]).
  Hypothesis comp_const : forall t vs, (forall v, t <> Var v) -> (forall f a, t <> Cmp f a) -> comp t vs = (vs, [mkConst t]).
  Hypothesis dec_var : forall i c vs st, decompile_args (mkVar i :: c) vs st = decompile_args c vs (push_arg (Var (nth i vs 0)) st).
  Hypothesis dec_const : forall k c vs st, decompile_args (mkConst k :: c) vs st = decompile_args c vs (push_arg k st).
  Hypothesis dec_fun : forall f n c vs st, decompile_args (mkFun f n :: c) vs st = decompile_args c vs ((Some f, []) :: st).

  Definition good (t : term) : Prop :=
    forall vs vs' code, comp t vs = (vs', code) ->
      (exists ext, vs' = vs ++ ext) /\
      forall ext st rest, decompile_args (code ++ rest) (vs' ++ ext) st = decompile_args rest (vs' ++ ext) (push_arg t st).

  Lemma fold_good :
    forall args, Forall good args ->
    forall vs c0 vs' code,
      fold_left (fun acc a => let '(vs0, c0) := acc in
                              let '(vs1, c1) := comp a vs0 in (vs1, c0 ++ c1)) args (vs, c0) = (vs', code) ->
      exists code1, code = c0 ++ code1 /\ (exists ext, vs' = vs ++ ext) /\
        forall ext f done rest st,
          decompile_args (code1 ++ rest) (vs' ++ ext) ((f, done) :: st) =
          decompile_args rest (vs' ++ ext) ((f, rev args ++ done) :: st).
  Proof.
    induction 1 as [|a args Ha Hargs IH]; intros vs c0 vs' code Hf; cbn [fold_left] in Hf.
    - inversion Hf; subst. exists []. rewrite app_nil_r. split; [reflexivity|]. split; [exists []; rewrite app_nil_r; reflexivity|].
      intros. reflexivity.
    - destruct (comp a vs) as [vs1 c1] eqn:Hc.
      destruct (Ha vs vs1 c1 Hc) as [[ext1 ->] Hdec].
      destruct (IH _ _ _ _ Hf) as (code1 & -> & [ext2 ->] & Hrest).
      exists (c1 ++ code1). split; [rewrite app_assoc; reflexivity|].
      split; [exists (ext1 ++ ext2); rewrite app_assoc; reflexivity|].
      intros ext f done rest st. rewrite <- app_assoc.
      rewrite <- (app_assoc (vs ++ ext1) ext2 ext). rewrite Hdec. rewrite (app_assoc (vs ++ ext1) ext2 ext).
      cbn [push_arg]. rewrite Hrest. cbn [rev]. rewrite <- !app_assoc. reflexivity.
  Qed.

  Theorem all_good : forall t, good t.
  Proof.
    induction t using term_ind'; unfold good; intros vs vs' code Hc.
    - rewrite comp_var in Hc. destruct (var_offset vs v) as [vs1 i] eqn:Hv. inversion Hc; subst.
      destruct (var_offset_spec _ _ _ _ Hv) as [Hext Hnth]. split; [assumption|].
      intros ext st rest. cbn [app]. rewrite dec_var, Hnth. reflexivity.
    - rewrite comp_const in Hc by (intros; discriminate). inversion Hc; subst.
      split; [exists []; rewrite app_nil_r; reflexivity|]. intros. cbn [app]. apply dec_const.
    - rewrite comp_const in Hc by (intros; discriminate). inversion Hc; subst.
      split; [exists []; rewrite app_nil_r; reflexivity|]. intros. cbn [app]. apply dec_const.
    - rewrite comp_const in Hc by (intros; discriminate). inversion Hc; subst.
      split; [exists []; rewrite app_nil_r; reflexivity|]. intros. cbn [app]. apply dec_const.
    - rewrite comp_cmp in Hc.
      destruct (fold_left _ args (vs, [])) as [vs1 code1] eqn:Hf. inversion Hc; subst.
      destruct (fold_good args H _ _ _ _ Hf) as (code2 & Hcode & Hext & Hdec). cbn [app] in Hcode. subst code1.
      split; [assumption|].
      intros ext st rest. cbn [app]. rewrite dec_fun. rewrite <- app_assoc. rewrite Hdec.
      cbn [app decompile_args]. rewrite app_nil_r, rev_involutive. reflexivity.
  Qed.
End Roundtrip.

Lemma head_all_good : forall t, good compile_head_arg t.
Proof.
  apply all_good with (mkVar := IGetVar) (mkConst := IGetConst) (mkFun := IGetFunctor); try reflexivity.
  intros t vs Hv Hc. destruct t; try reflexivity; [exfalso; eapply Hv; reflexivity | exfalso; eapply Hc; reflexivity].
Qed.

Lemma body_all_good : forall t, good compile_body_arg t.
Proof.
  apply all_good with (mkVar := IPutVar) (mkConst := IPutConst) (mkFun := IPutFunctor); try reflexivity.
  intros t vs Hv Hc. destruct t; try reflexivity; [exfalso; eapply Hv; reflexivity | exfalso; eapply Hc; reflexivity].
Qed.

Theorem head_arg_roundtrip :
  forall t vs vs' code, compile_head_arg t vs = (vs', code) ->
    forall stack rest, decompile_args (code ++ rest) vs' stack = decompile_args rest vs' (push_arg t stack).
Proof.
  intros t vs vs' code H stack rest. destruct (head_all_good t vs vs' code H) as [_ Hd].
  specialize (Hd [] stack rest). rewrite app_nil_r in Hd. exact Hd.
Qed.

Theorem body_arg_roundtrip :
  forall t vs vs' code, compile_body_arg t vs = (vs', code) ->
    forall stack rest, decompile_args (code ++ rest) vs' stack = decompile_args rest vs' (push_arg t stack).
Proof.
  intros t vs vs' code H stack rest. destruct (body_all_good t vs vs' code H) as [_ Hd].
  specialize (Hd [] stack rest). rewrite app_nil_r in Hd. exact Hd.
Qed.

Theorem head_arg_extends :
  forall t vs vs' code, compile_head_arg t vs = (vs', code) -> exists ext, vs' = vs ++ ext.
Proof. intros t vs vs' code H. destruct (head_all_good t vs vs' code H) as [He _]. exact He. Qed.
