(** The cursor model of C19: peeks and property queries do not move the cursor,
    consuming reads deliver consecutive pieces of the source, the position is the
    number of bytes consumed, end_of_stream is never early and is past once
    end_of_file was delivered, and a stream past its end follows its eof_action. *)
From Coq Require Import ZArith Bool List Lia.
From PV Require Import Model.Stream.
Import ListNotations.
Open Scope Z_scope.

Definition is_peek (o : op) : bool := match o with PeekChar | PeekByte | QPos | QEos => true | _ => false end.
Definition own_type (s : st) (o : op) : bool :=
  match o with GetByte | PeekByte => binary s | GetChar | PeekChar | ReadTerm => negb (binary s) | _ => true end.

Lemma enter_cursor s s1 : enter s = Some s1 -> src s1 = src s /\ pos s1 = pos s /\ act s1 = act s /\ binary s1 = binary s.
Proof.
  unfold enter. destruct (past s); [destruct (act s) eqn:Ea|]; intros H; inversion H; subst; cbn; rewrite ?Ea; repeat split; reflexivity.
Qed.

(** peeks and property queries never move the cursor ... *)
Theorem peek_keeps_cursor s o s' r : is_peek o = true -> step s o = (s', r) -> src s' = src s /\ pos s' = pos s.
Proof.
  intros Hp H. destruct o; try discriminate; cbn [step] in H.
  - destruct (enter s) as [s1|] eqn:E; [|inversion H; subst; split; reflexivity].
    destruct (enter_cursor s s1 E) as (H1 & H2 & _).
    destruct (binary s); [inversion H; subst; split; assumption|].
    destruct (remaining s1); [inversion H; subst; split; reflexivity|].
    destruct (decode (z :: l)) as [c n]. destruct (c =? -2); inversion H; subst; split; reflexivity.
  - destruct (enter s) as [s1|] eqn:E; [|inversion H; subst; split; reflexivity].
    destruct (enter_cursor s s1 E) as (H1 & H2 & _).
    destruct (negb (binary s)); [inversion H; subst; split; assumption|].
    destruct (remaining s1); inversion H; subst; split; reflexivity.
  - inversion H; subst. split; reflexivity.
  - inversion H; subst. split; reflexivity.
Qed.

(** ... and on a stream of their own type they leave the whole state as it was *)
Theorem peek_pure s o s' r : is_peek o = true -> own_type s o = true -> step s o = (s', r) -> s' = s.
Proof.
  intros Hp Ht H. destruct o; try discriminate; cbn [step own_type] in *.
  - destruct (enter s) as [s1|]; [|inversion H; reflexivity]. apply negb_true_iff in Ht. rewrite Ht in H.
    destruct (remaining s1); [inversion H; reflexivity|].
    destruct (decode (z :: l)) as [c n]. destruct (c =? -2); inversion H; reflexivity.
  - destruct (enter s) as [s1|]; [|inversion H; reflexivity]. rewrite Ht in H. cbn in H.
    destruct (remaining s1); inversion H; reflexivity.
  - inversion H; reflexivity.
  - inversion H; reflexivity.
Qed.

(** every operation keeps the source and never moves the cursor backwards *)
Ltac fin := repeat split; (assumption || reflexivity || lia || congruence).

Lemma step_monotone s o s' r : step s o = (s', r) -> src s' = src s /\ (pos s <= pos s')%nat /\ act s' = act s /\ binary s' = binary s.
Proof.
  intros H. destruct o; cbn [step] in H;
    try (inversion H; subst; fin);
    (destruct (enter s) as [s1|] eqn:E; [|inversion H; subst; fin];
     destruct (enter_cursor s s1 E) as (H1 & H2 & H3 & H4)).
  - destruct (binary s) eqn:Eb; [inversion H; subst; fin|].
    destruct (remaining s1); [inversion H; subst; cbn; fin|].
    destruct (decode (z :: l)) as [c n]. destruct (c =? -2); inversion H; subst; cbn; fin.
  - destruct (binary s) eqn:Eb; [inversion H; subst; fin|].
    destruct (remaining s1); [inversion H; subst; fin|].
    destruct (decode (z :: l)) as [c n]. destruct (c =? -2); inversion H; subst; fin.
  - destruct (negb (binary s)) eqn:Eb; [inversion H; subst; fin|].
    destruct (remaining s1); inversion H; subst; cbn; fin.
  - destruct (negb (binary s)) eqn:Eb; [inversion H; subst; fin|].
    destruct (remaining s1); inversion H; subst; fin.
  - destruct (binary s) eqn:Eb; [inversion H; subst; fin|].
    destruct (read_token (remaining s1)); inversion H; subst; cbn; fin.
Qed.

(** what an operation consumed: the bytes between the cursor before and after *)
Definition slice (l : list Z) (a b : nat) : list Z := firstn (b - a) (skipn a l).

Lemma firstn_plus (a b : nat) (l : list Z) : firstn (a + b) l = firstn a l ++ firstn b (skipn a l).
Proof.
  revert l. induction a as [|a IH]; intros l; cbn; [reflexivity|]. destruct l as [|x l]; cbn.
  - destruct b; reflexivity.
  - rewrite IH. reflexivity.
Qed.
Lemma skipn_plus (a b : nat) (l : list Z) : skipn b (skipn a l) = skipn (a + b) l.
Proof.
  revert l. induction a as [|a IH]; intros l; cbn; [reflexivity|]. destruct l as [|x l]; cbn; [destruct b; reflexivity | apply IH].
Qed.

Lemma slice_split l a b c : (a <= b)%nat -> (b <= c)%nat -> slice l a b ++ slice l b c = slice l a c.
Proof.
  intros Hab Hbc. unfold slice.
  replace (c - a)%nat with ((b - a) + (c - b))%nat by lia.
  rewrite firstn_plus. f_equal. rewrite skipn_plus. f_equal. f_equal. lia.
Qed.

Fixpoint extents (s : st) (ops : list op) : list (list Z) :=
  match ops with
  | [] => []
  | o :: r => let '(s1, _) := step s o in slice (src s) (pos s) (pos s1) :: extents s1 r
  end.

(** nothing skipped, nothing delivered twice: what the operations of a sequence
    consumed, put end to end, is exactly the source between the first and the last cursor *)
Theorem extents_tile : forall ops s s' rs,
  run s ops = (s', rs) ->
  src s' = src s /\ (pos s <= pos s')%nat /\ concat (extents s ops) = slice (src s) (pos s) (pos s').
Proof.
  induction ops as [|o ops IH]; intros s s' rs H; cbn [run extents] in *.
  - inversion H; subst. repeat split; [lia|]. unfold slice. rewrite Nat.sub_diag. reflexivity.
  - destruct (step s o) as [s1 x] eqn:E1. destruct (run s1 ops) as [s2 xs] eqn:E2. inversion H; subst.
    destruct (step_monotone s o s1 x E1) as (Hs & Hp & _). destruct (IH s1 s' xs E2) as (Hs' & Hp' & Hc).
    repeat split; [congruence | lia |]. cbn [concat]. rewrite Hc, Hs. apply slice_split; assumption.
Qed.

(** peeks and property queries consume nothing *)
Corollary peek_extent_empty s o : is_peek o = true -> slice (src s) (pos s) (pos (fst (step s o))) = [].
Proof.
  intros Hp. destruct (step s o) as [s' r] eqn:E. destruct (peek_keeps_cursor s o s' r Hp E) as [_ H]. cbn.
  rewrite H. unfold slice. rewrite Nat.sub_diag. reflexivity.
Qed.

(** a byte read delivers the byte under the cursor and moves by one; a character read
    delivers the character decoded at the cursor and moves by its width *)
Theorem get_byte_spec s s' b : binary s = true -> past s = false -> step s GetByte = (s', RCode b) -> 0 <= b ->
  nth_error (src s) (pos s) = Some b /\ pos s' = S (pos s).
Proof.
  intros Hb Hp H Hb0. cbn [step] in H. unfold enter in H. rewrite Hp, Hb in H. cbn in H.
  unfold remaining in H. destruct (skipn (pos s) (src s)) as [|x l] eqn:E; inversion H; subst; [lia|].
  split; [|cbn; lia]. rewrite <- (firstn_skipn (pos s) (src s)), E.
  assert (Hl : List.length (firstn (pos s) (src s)) = pos s).
  { apply firstn_length_le. destruct (Nat.le_gt_cases (pos s) (List.length (src s))) as [Hle|Hgt]; [exact Hle|].
    rewrite skipn_all2 in E by lia. discriminate. }
  rewrite nth_error_app2 by lia. rewrite Hl, Nat.sub_diag. reflexivity.
Qed.

Theorem get_char_spec s s' c : binary s = false -> past s = false -> step s GetChar = (s', RCode c) -> 0 <= c ->
  exists n, decode (remaining s) = (c, n) /\ pos s' = (pos s + n)%nat.
Proof.
  intros Hb Hp H Hc. cbn [step] in H. unfold enter in H. rewrite Hp, Hb in H.
  destruct (remaining s) as [|x l] eqn:E; [inversion H; subst; lia|].
  destruct (decode (x :: l)) as [d n] eqn:Ed. destruct (d =? -2); inversion H; subst. exists n. split; reflexivity.
Qed.

(** the position property is the cursor: the number of bytes consumed so far *)
Theorem position_is_cursor s : step s QPos = (s, RPos (Z.of_nat (pos s))).
Proof. reflexivity. Qed.

(** ** end of stream *)
Definition inv (s : st) : Prop := past s = true -> (List.length (src s) <= pos s)%nat.

Lemma remaining_nil s : remaining s = [] -> (List.length (src s) <= pos s)%nat.
Proof.
  unfold remaining. intros H. destruct (Nat.le_gt_cases (List.length (src s)) (pos s)) as [Hle|Hgt]; [exact Hle|].
  apply (f_equal (@List.length Z)) in H. rewrite skipn_length in H. cbn in H. lia.
Qed.

Lemma step_inv s o s' r : inv s -> step s o = (s', r) -> inv s'.
Proof.
  intros Hi H. destruct o; cbn [step] in H;
    try (inversion H; subst; exact Hi);
    (destruct (enter s) as [s1|] eqn:E; [|inversion H; subst; exact Hi];
     assert (Hi1 : inv s1) by (unfold enter in E; destruct (past s) eqn:Ep; [destruct (act s)|]; inversion E; subst;
                               unfold inv in *; cbn; try congruence; intros; apply Hi; assumption)).
  - destruct (binary s); [inversion H; subst; exact Hi1|].
    destruct (remaining s1) eqn:Er; [inversion H; subst; intros _; cbn; apply remaining_nil; exact Er|].
    destruct (decode (z :: l)) as [c n]. destruct (c =? -2); inversion H; subst; intros Hp; discriminate.
  - destruct (binary s); [inversion H; subst; exact Hi1|].
    destruct (remaining s1); [inversion H; subst; exact Hi|].
    destruct (decode (z :: l)) as [c n]. destruct (c =? -2); inversion H; subst; exact Hi.
  - destruct (negb (binary s)); [inversion H; subst; exact Hi1|].
    destruct (remaining s1) eqn:Er; inversion H; subst; [intros _; cbn; apply remaining_nil; exact Er | intros Hp; discriminate].
  - destruct (negb (binary s)); [inversion H; subst; exact Hi1|].
    destruct (remaining s1); inversion H; subst; exact Hi.
  - destruct (binary s); [inversion H; subst; exact Hi1|].
    destruct (read_token (remaining s1)); inversion H; subst; [intros _; cbn; lia | intros Hp; discriminate | exact Hi].
Qed.

Lemma run_inv : forall ops s s' rs, inv s -> run s ops = (s', rs) -> inv s'.
Proof.
  induction ops as [|o ops IH]; intros s s' rs Hi H; cbn [run] in H.
  - inversion H; subst. exact Hi.
  - destruct (step s o) as [s1 x] eqn:E1. destruct (run s1 ops) as [s2 xs] eqn:E2. inversion H; subst.
    eapply IH; [eapply step_inv; eassumption | exact E2].
Qed.

(** end_of_stream is never at or past while input remains: after any sequence of
    operations on a fresh stream, if bytes remain the property says "not" *)
Theorem eos_never_early : forall ops bytes a b s' rs,
  run (mkS bytes 0 false a b) ops = (s', rs) ->
  (pos s' < List.length (src s'))%nat -> step s' QEos = (s', REos 0).
Proof.
  intros ops bytes a b s' rs H Hlt.
  assert (Hi : inv s') by (eapply run_inv; [|exact H]; intros Hp; discriminate).
  cbn [step]. destruct (past s') eqn:Ep; [specialize (Hi Ep); lia|].
  apply Nat.ltb_lt in Hlt. rewrite Hlt. reflexivity.
Qed.


(** ... and it is past once end_of_file was delivered *)
Lemma decode_nonneg l : Forall (fun b => 0 <= b) l -> 0 <= fst (decode l) \/ fst (decode l) = -2.
Proof.
  intros Hl. unfold decode. destruct l as [|b0 r]; [right; reflexivity|].
  inversion Hl as [|? ? H0 Hr]; subst.
  destruct (b0 <? 128) eqn:E0; [left; cbn; exact H0|].
  destruct ((194 <=? b0) && (b0 <=? 223)) eqn:E1.
  { destruct r as [|b1 r]; [right; reflexivity|]. destruct (cont b1) eqn:Ec; [|right; reflexivity].
    left. cbn. unfold cont in Ec. lia. }
  destruct ((224 <=? b0) && (b0 <=? 239)) eqn:E2.
  { destruct r as [|b1 [|b2 r]]; try (right; reflexivity).
    destruct (_ && cont b2) eqn:Ec; [|right; reflexivity]. left. cbn. unfold cont in Ec.
    destruct (b0 =? 224); lia. }
  destruct ((240 <=? b0) && (b0 <=? 244)) eqn:E3; [|right; reflexivity].
  destruct r as [|b1 [|b2 [|b3 r]]]; try (right; reflexivity).
  destruct (_ && cont b3) eqn:Ec; [|right; reflexivity]. left. cbn. unfold cont in Ec.
  destruct (b0 =? 240); lia.
Qed.

Lemma skipn_Forall {A} (P : A -> Prop) n l : Forall P l -> Forall P (skipn n l).
Proof. revert l. induction n as [|n IH]; intros l H; cbn; [exact H|]. destruct l; [constructor|]. inversion H; subst. apply IH. assumption. Qed.

Lemma read_token_tok_nonempty bytes t w : read_token bytes = RtTok t w -> t <> [].
Proof.
  unfold read_token. destruct (decode_all _ bytes) as [cs|]; [|discriminate].
  destruct (skip_ws _ cs 0) as [[l w0]|]; [|discriminate]. destruct l as [|[c n] r]; [discriminate|].
  destruct (if is_small c then _ else _) as [[t0 tw] rest]. destruct t0 as [|x t0]; [discriminate|].
  destruct rest as [|[d dn] rest]; [discriminate|].
  destruct (is_digit c && _); [discriminate|].
  destruct (skip_ws _ _ 0) as [[[|[e en] after] w2]|]; try discriminate.
  destruct (e =? 46) eqn:Ee; [apply Z.eqb_eq in Ee; subst e | ].
  - destruct after as [|[e2 n2] after]; [intros H; inversion H; discriminate|].
    destruct (is_layout e2 || (e2 =? 37)); intros H; inversion H; discriminate.
  - destruct e; try discriminate. repeat (destruct p; try discriminate).
Qed.

Theorem eos_past_after_eof s o s' :
  Forall (fun b => 0 <= b) (src s) ->
  (o = GetChar /\ step s o = (s', RCode (-1))) \/ (o = GetByte /\ step s o = (s', RCode (-1))) \/ (o = ReadTerm /\ step s o = (s', RTok [])) ->
  step s' QEos = (s', REos 2).
Proof.
  intros Hsrc H. assert (Hp : past s' = true); [|cbn [step]; rewrite Hp; reflexivity].
  destruct H as [[-> H]|[[-> H]|[-> H]]]; cbn [step] in H; (destruct (enter s) as [s1|] eqn:E; [|discriminate]);
    destruct (enter_cursor s s1 E) as (Hs1 & _).
  - destruct (binary s); [discriminate|]. destruct (remaining s1) eqn:Er; [inversion H; reflexivity|].
    pose proof (decode_nonneg (z :: l)) as Hd. rewrite <- Er in Hd. unfold remaining in Hd. rewrite Hs1 in Hd.
    specialize (Hd (skipn_Forall _ _ _ Hsrc)). unfold remaining in Er. rewrite Hs1 in Er. rewrite Er in Hd.
    destruct (decode (z :: l)) as [c n]. cbn in Hd. destruct (c =? -2) eqn:Ec; [discriminate|]. inversion H; subst.
    apply Z.eqb_neq in Ec. lia.
  - destruct (negb (binary s)); [discriminate|]. destruct (remaining s1) eqn:Er; inversion H; subst; [reflexivity|].
    exfalso. unfold remaining in Er. rewrite Hs1 in Er. pose proof (skipn_Forall _ (pos s1) _ Hsrc) as Hf. rewrite Er in Hf.
    inversion Hf; subst. lia.
  - destruct (binary s); [discriminate|]. destruct (read_token (remaining s1)) eqn:Et; inversion H; subst; [reflexivity|].
    exfalso. eapply read_token_tok_nonempty; [exact Et | reflexivity].
Qed.

(** ** a stream past its end follows its eof_action *)
Definition is_read (o : op) : bool := match o with QPos | QEos => false | _ => true end.

Theorem eof_action_error s o : past s = true -> act s = AError -> is_read o = true -> step s o = (s, RErr 1).
Proof. intros Hp Ha Ho. destruct o; try discriminate; cbn [step]; unfold enter; rewrite Hp, Ha; reflexivity. Qed.

Theorem eof_action_eof_code s : inv s -> past s = true -> act s = ACode ->
  (binary s = false -> step s GetChar = (s, RCode (-1)) /\ step s PeekChar = (s, RCode (-1))) /\
  (binary s = true -> step s GetByte = (s, RCode (-1)) /\ step s PeekByte = (s, RCode (-1))).
Proof.
  intros Hi Hp Ha. specialize (Hi Hp).
  assert (Hr : remaining s = []) by (unfold remaining; apply skipn_all2; exact Hi).
  split; intros Hb; cbn [step]; unfold enter; rewrite Hp, Ha, Hb; cbn; rewrite Hr; unfold at_eof; destruct s; cbn in *; subst; split; reflexivity.
Qed.

Theorem eof_action_reset s : inv s -> past s = true -> act s = AReset ->
  (binary s = false -> snd (step s GetChar) = RCode (-1) /\ past (fst (step s GetChar)) = true /\ pos (fst (step s GetChar)) = pos s) /\
  (binary s = true -> snd (step s GetByte) = RCode (-1) /\ past (fst (step s GetByte)) = true /\ pos (fst (step s GetByte)) = pos s).
Proof.
  intros Hi Hp Ha. specialize (Hi Hp).
  assert (Hr : skipn (pos s) (src s) = []) by (apply skipn_all2; exact Hi).
  split; intros Hb; cbn [step]; unfold enter; rewrite Hp, Ha, Hb; cbn; unfold remaining; cbn; rewrite Hr; cbn; repeat split; reflexivity.
Qed.
