(** C05, the arithmetic part: on integers the evaluator never ends in a Go panic,
    an undefined conversion or an unbounded loop -- every result is a value or an
    ISO evaluation/type error.  Over Gen/Arith_gen.v (regenerated from number.go). *)
From Coq Require Import ZArith Bool List String Lia.
From PV Require Import Model.GoInt Model.F64 Model.Num Gen.Arith_gen Model.Eval Proofs.ArithInt.
Import ListNotations.
Open Scope Z_scope.
Open Scope string_scope.

(** a result is normal: a value or an error, not one of the ways Go can abort *)
Definition normal {A E} (r : res A E) : Prop :=
  match r with Ok _ | Err _ => True | _ => False end.

Lemma exact_normal r v : exact_or_overflow r v -> normal r.
Proof. destruct r as [z|[e|]| | | |]; cbn; auto. Qed.
Lemma div_normal r y v : div_spec r y v -> normal r.
Proof. destruct r as [z|[e|]| | | |]; cbn; auto. Qed.

(** the integer kernels, for all 64-bit operands *)
Theorem int_kernels_normal x y : int64 x -> int64 y ->
  normal (addI x y) /\ normal (subI x y) /\ normal (mulI x y) /\ normal (negI x) /\ normal (absI x) /\
  normal (intDivI x y) /\ normal (remI x y) /\ normal (modI x y) /\ normal (intFloorDivI x y) /\
  normal (shlI x y) /\ normal (shrI x y) /\ (0 <= y -> normal (intPow x y)).
Proof.
  intros Hx Hy. repeat split.
  - exact (exact_normal _ _ (addI_exact x y Hx Hy)).
  - exact (exact_normal _ _ (subI_exact x y Hx Hy)).
  - exact (exact_normal _ _ (mulI_exact x y Hx Hy)).
  - exact (exact_normal _ _ (negI_exact x Hx)).
  - exact (exact_normal _ _ (absI_exact x Hx)).
  - exact (div_normal _ _ _ (intDivI_exact x y Hx Hy)).
  - exact (div_normal _ _ _ (remI_exact x y Hx Hy)).
  - exact (div_normal _ _ _ (modI_exact x y Hx Hy)).
  - exact (div_normal _ _ _ (intFloorDivI_exact x y Hx Hy)).
  - destruct (shlI_total x y Hx Hy) as [z ->]. exact I.
  - destruct (shrI_total x y Hx Hy) as [z ->]. exact I.
  - intros H0. exact (exact_normal _ _ (intPow_exact x y Hx Hy H0)).
Qed.

(** integer expressions: 64-bit literals under the integer functors *)
Inductive int_expr : expr -> Prop :=
| IE_num z : int64 z -> int_expr (ENum (NInt z))
| IE_un f x : In f ["-"; "abs"; "+"; "sign"; "\"] -> int_expr x -> int_expr (ECmp f [x])
| IE_bin f x y : In f ["+"; "-"; "*"; "//"; "rem"; "mod"; "div"; "/\"; "\/"; "xor"; "min"; "max"] -> int_expr x -> int_expr y -> int_expr (ECmp f [x; y]).

(** the value of an integer expression, when there is one, is a 64-bit integer; and evaluation is normal *)
Definition int_result (r : res num everr) : Prop :=
  match r with
  | Ok (NInt z) => int64 z
  | Err _ => True
  | _ => False
  end.

Lemma lift_int (r : resE Z) : normal r -> (forall z, r = Ok z -> int64 z) -> int_result (lift (rmap NInt r)).
Proof. destruct r as [z|e| | | |]; cbn; intros Hn Hz; try contradiction; auto. Qed.

Lemma exact_range r v z : exact_or_overflow r v -> r = Ok z -> int64 z.
Proof. intros H ->. cbn in H. destruct H as [-> H]. exact H. Qed.
Lemma div_range r y v z : div_spec r y v -> r = Ok z -> int64 z.
Proof. intros H ->. cbn in H. destruct H as (_ & -> & H). exact H. Qed.

Theorem int_expr_eval_normal e : int_expr e -> int_result (eval e).
Proof.
  induction 1 as [z Hz | f x Hf Hx IH | f x y Hf Hx IHx Hy IHy].
  - exact Hz.
  - cbn [eval]. destruct (eval x) as [[vx|fx]|ex| | | |] eqn:Ex; cbn in IH; try contradiction;
      cbn in Hf; destruct Hf as [<-|[<-|[<-|[<-|[<-|[]]]]]]; cbn; try exact I.
    + apply lift_int; [exact (exact_normal _ _ (negI_exact vx IH)) | intros z; apply (exact_range _ _ _ (negI_exact vx IH))].
    + apply lift_int; [exact (exact_normal _ _ (absI_exact vx IH)) | intros z; apply (exact_range _ _ _ (absI_exact vx IH))].
    + exact IH.
    + unfold go_sign. cbn. rewrite signI_exact. clear. destruct vx; cbn; u64; lia.
    + exact (proj2 (not64_exact vx IH)).
  - cbn [eval]. destruct (eval x) as [[vx|fx]|ex| | | |] eqn:Ex; cbn in IHx; try contradiction;
      cbn in Hf; destruct Hf as [<-|[<-|[<-|[<-|[<-|[<-|[<-|[<-|[<-|[<-|[<-|[<-|[]]]]]]]]]]]]]; cbn; try exact I;
      destruct (eval y) as [[vy|fy]|ey| | | |] eqn:Ey; cbn in IHy; try contradiction; cbn; try exact I.
    + apply lift_int; [exact (exact_normal _ _ (addI_exact vx vy IHx IHy)) | intros z; apply (exact_range _ _ _ (addI_exact vx vy IHx IHy))].
    + apply lift_int; [exact (exact_normal _ _ (subI_exact vx vy IHx IHy)) | intros z; apply (exact_range _ _ _ (subI_exact vx vy IHx IHy))].
    + apply lift_int; [exact (exact_normal _ _ (mulI_exact vx vy IHx IHy)) | intros z; apply (exact_range _ _ _ (mulI_exact vx vy IHx IHy))].
    + apply lift_int; [exact (div_normal _ _ _ (intDivI_exact vx vy IHx IHy)) | intros z; apply (div_range _ _ _ _ (intDivI_exact vx vy IHx IHy))].
    + apply lift_int; [exact (div_normal _ _ _ (remI_exact vx vy IHx IHy)) | intros z; apply (div_range _ _ _ _ (remI_exact vx vy IHx IHy))].
    + apply lift_int; [exact (div_normal _ _ _ (modI_exact vx vy IHx IHy)) | intros z; apply (div_range _ _ _ _ (modI_exact vx vy IHx IHy))].
    + apply lift_int; [exact (div_normal _ _ _ (intFloorDivI_exact vx vy IHx IHy)) | intros z; apply (div_range _ _ _ _ (intFloorDivI_exact vx vy IHx IHy))].
    + exact (and64_range vx vy IHx IHy).
    + exact (or64_range vx vy IHx IHy).
    + exact (xor64_range vx vy IHx IHy).
    + destruct (Z.gtb vx vy); cbn; assumption.
    + destruct (Z.ltb vx vy); cbn; assumption.
Qed.
