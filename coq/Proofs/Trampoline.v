(** The trampoline of engine/promise.go (Force / child / popUntil / recover), as
    mirrored by [force] and [recover] of Model/Machine.v, computes a
    COMPOSITIONAL depth-first semantics: the outcome of a stack of promises is
    the outcome of its top promise -- which does not depend on what lies below
    it -- resumed on the frames below.  That is what "alternatives are tried
    left to right, chronological backtracking, a cut prunes to its parent, an
    error unwinds to the innermost handler" means, and it is proved here for
    every program, every stack and every amount of fuel that suffices. *)
From Coq Require Import ZArith Bool List String Lia.
From PV Require Import Model.Term Model.Unify Model.Clause Model.Machine Proofs.Promise.
Import ListNotations.
Open Scope Z_scope.

(** outcome of evaluating ONE promise to exhaustion of its own alternatives *)
Inductive vout :=
| VFalse                      (* no (more) solutions below this promise *)
| VTrue                       (* the consumer is satisfied: stop everything *)
| VErr (e : merr) (exited : list Z)   (* an error left this promise unhandled; [exited]: the catch
                                         frames whose goal had already exited when it was raised *)
| VCut (c : Z) (o : vout)     (* a cut was executed: prune to promise c, then continue as o *)
| VCancel.                    (* the context was found cancelled at a poll *)

Definition poll (st : state) : option state :=
  match s_polls st with
  | Some O => None
  | Some (S n) => Some (set_polls st (Some n))
  | None => Some st
  end.

(** the promise as Force pushes it back after taking one child (promise.child) *)
Definition stepped (p : promise) : promise :=
  mkP (p_id p) (if p_repeat p then p_delayed p else tl (p_delayed p)) (p_ok p) (p_err p) None
      (match p_cutp p with Some c => Some c | None => p_cutdone p end) (p_repeat p) (p_recover p) (p_exited p).

Definition wrapcut (c : option Z) (o : vout) : vout :=
  match c with Some c => VCut c o | None => o end.

Definition ball_of (err : merr) : term :=
  match err with
  | EBall t => t
  | EPanic w => Cmp "error" [Atom "system_error"; Atom w]
  | ECancelled => Cmp "error" [Atom "system_error"; Atom "context canceled"]
  | EFuel => Atom "$fuel"
  end.

(** does frame p handle error e, and with which env?  Not if its goal has exited. *)
Definition handles (p : promise) (e : merr) (exited : list Z) : option (term * cont * env) :=
  match e, (if existsb (Z.eqb (p_id p)) exited then None else p_recover p) with
  | EFuel, _ => None
  | _, Some (HCatch catcher recovery k env) =>
      match unify env catcher (ball_of e) with
      | UOk env' => Some (recovery, k, env')
      | _ => None
      end
  | _, None => None
  end.

(** the exited set after passing frame p *)
Definition pass (p : promise) (exited : list Z) : list Z :=
  match p_exited p with Some x => x :: exited | None => exited end.

Inductive Eval : promise -> state -> vout -> state -> Prop :=
| EvFuel : forall p st, is_fuel_err p = true -> Eval p st (VErr EFuel []) st     (* the model's out-of-fuel marker *)
| EvCancel : forall p st, is_fuel_err p = false -> poll st = None -> Eval p st VCancel st
| EvFalse : forall p st st1, is_fuel_err p = false -> poll st = Some st1 -> p_delayed p = [] -> p_err p = None -> p_ok p = false ->
    Eval p st VFalse st1
| EvTrue : forall p st st1, is_fuel_err p = false -> poll st = Some st1 -> p_delayed p = [] -> p_err p = None -> p_ok p = true ->
    Eval p st VTrue st1
| EvErr : forall p st st1 e, is_fuel_err p = false -> poll st = Some st1 -> p_delayed p = [] -> p_err p = Some e ->
    Eval p st (VErr e []) st1
| EvStep : forall p st st1 th ths f q st2 oq st3 o st4,
    is_fuel_err p = false ->
    poll st = Some st1 -> p_delayed p = th :: ths ->
    run_thunk f th st1 = (q, st2) ->
    Eval q st2 oq st3 ->
    After (stepped p) oq st3 o st4 ->
    Eval p st (wrapcut (p_cutp p) o) st4

(** what a frame does with the outcome of the child it has just run *)
with After : promise -> vout -> state -> vout -> state -> Prop :=
| AfFalse : forall p st o st', Eval p st o st' -> After p VFalse st o st'      (* next alternative *)
| AfTrue : forall p st, After p VTrue st VTrue st
| AfCancel : forall p st, After p VCancel st VCancel st
| AfCutMine : forall p c o st, stands_for c p = true -> After p (VCut c o) st o st   (* the cut was for me: I am gone too *)
| AfCutOther : forall p c o st, stands_for c p = false -> After p (VCut c o) st (VCut c o) st
| AfCaught : forall p e xs st recovery k env' f q st1 o st2,
    p_exited p = None ->
    handles p e xs = Some (recovery, k, env') ->
    call_goal f recovery k env' st = (q, st1) ->
    Eval q st1 o st2 ->
    After p (VErr e xs) st o st2
| AfPass : forall p e xs st, (p_exited p <> None \/ handles p e xs = None) ->
    After p (VErr e xs) st (VErr e (pass p xs)) st.

Inductive Run : list promise -> state -> fres -> state -> Prop :=
| RunNil : forall st, Run [] st FFalse st
| RunCons : forall p rest st o st1 r st2,
    Eval p st o st1 -> Resume o rest st1 r st2 -> Run (p :: rest) st r st2
with Resume : vout -> list promise -> state -> fres -> state -> Prop :=
| RsFalse : forall rest st r st', Run rest st r st' -> Resume VFalse rest st r st'
| RsTrue : forall rest st, Resume VTrue rest st FTrue st
| RsCancel : forall rest st, Resume VCancel rest st (FError ECancelled) st
| RsErr : forall e xs rest st r st', Recover e xs rest st r st' -> Resume (VErr e xs) rest st r st'
| RsCut : forall c o rest st r st', Resume o (pop_until c rest) st r st' -> Resume (VCut c o) rest st r st'
with Recover : merr -> list Z -> list promise -> state -> fres -> state -> Prop :=
| RcFuel : forall xs stack st, Recover EFuel xs stack st FOutOfFuel st
| RcNil : forall e xs st, e <> EFuel -> Recover e xs [] st (FError e) st
| RcCaught : forall e xs p rest st recovery k env' f q st1 r st2,
    p_exited p = None ->
    handles p e xs = Some (recovery, k, env') ->
    call_goal f recovery k env' st = (q, st1) ->
    Run (q :: rest) st1 r st2 ->
    Recover e xs (p :: rest) st r st2
| RcPass : forall e xs p rest st r st',
    e <> EFuel -> (p_exited p <> None \/ handles p e xs = None) ->
    Recover e (pass p xs) rest st r st' -> Recover e xs (p :: rest) st r st'.

(** a frame's reaction to its child's outcome, read off the resumption on the
    stack that has the frame on top *)
Ltac inv H := inversion H; subst; clear H.

Lemma resume_after :
  forall oq p rest st r st',
    Resume oq (p :: rest) st r st' ->
    exists o st1, After p oq st o st1 /\ Resume o rest st1 r st'.
Proof.
  intros oq p rest st r st' H. inv H.
  - (* VFalse *)
    lazymatch goal with HR : Run (_ :: _) _ _ _ |- _ => inv HR end.
    eexists _, _. split; [apply AfFalse; eassumption | eassumption].
  - eexists _, _. split; [apply AfTrue | apply RsTrue].
  - eexists _, _. split; [apply AfCancel | apply RsCancel].
  - (* VErr *)
    lazymatch goal with HR : Recover _ _ (_ :: _) _ _ _ |- _ => inv HR end.
    + eexists _, _. split; [apply AfPass; right; unfold handles; destruct (if existsb (Z.eqb (p_id p)) xs then None else p_recover p); reflexivity | apply RsErr, RcFuel].
    + lazymatch goal with HR : Run (_ :: _) _ _ _ |- _ => inv HR end.
      eexists _, _. split; [eapply AfCaught; eassumption | eassumption].
    + eexists _, _. split; [apply AfPass; assumption | apply RsErr; assumption].
  - (* VCut *) cbn [pop_until] in *.
    destruct (stands_for c p) eqn:E.
    + eexists _, _. split; [apply AfCutMine; exact E | eassumption].
    + eexists _, _. split; [apply AfCutOther; exact E | apply RsCut; eassumption].
Qed.

Theorem force_sound :
  forall fuel,
    (forall stack st r st', force fuel stack st = (r, st') -> r <> FOutOfFuel -> Run stack st r st') /\
    (forall e xs stack st r st', recover fuel e xs stack st = (r, st') -> r <> FOutOfFuel -> Recover e xs stack st r st').
Proof.
  induction fuel as [|f [IHf IHr]]; split.
  - intros stack st r st' H Hr. cbn in H. inversion H; subst. contradiction.
  - intros e xs stack st r st' H Hr. cbn in H. inversion H; subst. contradiction.
  - (* force *)
    intros stack st r st' H Hr. cbn [force] in H.
    destruct stack as [|p rest]; [inversion H; subst; apply RunNil|].
    destruct (is_fuel_err p) eqn:Hfe; [inversion H; subst; contradiction|].
    destruct (s_polls st) as [[|n]|] eqn:Hp.
    + (* cancelled *)
      inversion H; subst. eapply RunCons; [apply EvCancel; [exact Hfe | unfold poll; rewrite Hp; reflexivity] | apply RsCancel].
    + (* Some (S n) *)
      assert (Hpoll : poll st = Some (set_polls st (Some n))) by (unfold poll; rewrite Hp; reflexivity).
      destruct (p_delayed p) as [|th ths] eqn:Hd.
      * destruct (p_err p) as [err|] eqn:He.
        -- eapply RunCons; [eapply EvErr; eassumption | apply RsErr; eapply IHr; eassumption].
        -- destruct (p_ok p) eqn:Hok.
           ++ inversion H; subst. eapply RunCons; [eapply EvTrue; eassumption | apply RsTrue].
           ++ eapply RunCons; [eapply EvFalse; eassumption | apply RsFalse; eapply IHf; eassumption].
      * destruct (run_thunk f th (set_polls st (Some n))) as [q st2] eqn:Hrun.
        apply IHf in H; [|assumption].
        inversion H; subst.
        match goal with HR : Resume _ (_ :: _) _ _ _ |- _ => apply resume_after in HR; destruct HR as (o2 & st4 & Haf & Hres) end.
        eapply RunCons.
        -- eapply EvStep; [exact Hfe | exact Hpoll | exact Hd | exact Hrun | eassumption |].
           unfold stepped. rewrite Hd. cbn [tl]. exact Haf.
        -- destruct (p_cutp p); cbn [wrapcut]; [apply RsCut|]; exact Hres.
    + (* never cancelled *)
      assert (Hpoll : poll st = Some st) by (unfold poll; rewrite Hp; reflexivity).
      destruct (p_delayed p) as [|th ths] eqn:Hd.
      * destruct (p_err p) as [err|] eqn:He.
        -- eapply RunCons; [eapply EvErr; eassumption | apply RsErr; eapply IHr; eassumption].
        -- destruct (p_ok p) eqn:Hok.
           ++ inversion H; subst. eapply RunCons; [eapply EvTrue; eassumption | apply RsTrue].
           ++ eapply RunCons; [eapply EvFalse; eassumption | apply RsFalse; eapply IHf; eassumption].
      * destruct (run_thunk f th st) as [q st2] eqn:Hrun.
        apply IHf in H; [|assumption].
        inversion H; subst.
        match goal with HR : Resume _ (_ :: _) _ _ _ |- _ => apply resume_after in HR; destruct HR as (o2 & st4 & Haf & Hres) end.
        eapply RunCons.
        -- eapply EvStep; [exact Hfe | exact Hpoll | exact Hd | exact Hrun | eassumption |].
           unfold stepped. rewrite Hd. cbn [tl]. exact Haf.
        -- destruct (p_cutp p); cbn [wrapcut]; [apply RsCut|]; exact Hres.
  - (* recover *)
    intros e xs stack st r st' H Hr. cbn [recover] in H.
    destruct e as [t|w| |].
    4: { inversion H; subst. contradiction. }
    all: destruct stack as [|p rest]; [inversion H; subst; apply RcNil; discriminate|].
    all: destruct (p_exited p) as [x|] eqn:Hex.
    all: try (apply RcPass; [discriminate | left; rewrite Hex; discriminate | unfold pass; rewrite Hex; eapply IHr; eassumption]).
    all: destruct (if existsb (Z.eqb (p_id p)) xs then None else p_recover p) as [[catcher recovery k env]|] eqn:Hrec.
    all: try (apply RcPass; [discriminate | right; unfold handles; rewrite Hrec; reflexivity | unfold pass; rewrite Hex; eapply IHr; eassumption]).
    all: match type of H with context [unify ?a ?b ?c] => destruct (unify a b c) as [env'| |] eqn:Hu end.
    all: try (apply RcPass; [discriminate | right; unfold handles; rewrite Hrec; cbn [ball_of]; rewrite Hu; reflexivity | unfold pass; rewrite Hex; eapply IHr; eassumption]).
    all: match type of H with context [call_goal ?a ?b ?c ?d ?e] => destruct (call_goal a b c d e) as [q st1] eqn:Hc end.
    all: eapply RcCaught; [exact Hex | unfold handles; rewrite Hrec; cbn [ball_of]; rewrite Hu; reflexivity | exact Hc | eapply IHf; eassumption].
Qed.

(** ---- consequences for cut (C03) ------------------------------------------------------ *)

(** A cut addressed to promise c discards exactly the frames above the first
    frame that stands for c, and that frame; everything older is kept and the
    computation continues there. *)
Lemma cut_discards_exactly :
  forall c o above p below st r st',
    stands_for c p = true ->
    forallb (fun q => negb (stands_for c q)) above = true ->
    (Resume (VCut c o) (above ++ p :: below) st r st' <-> Resume o below st r st').
Proof.
  intros c o above p below st r st' Hp Ha.
  pose proof (pop_until_found c above p below Hp Ha) as Hpop.
  split; intro H.
  - inv H. rewrite Hpop in *. assumption.
  - apply RsCut. rewrite Hpop. assumption.
Qed.

(** the frame for which a cut is meant never tries its remaining alternatives,
    and frames in between are skipped without being resumed *)
Lemma cut_skips_alternatives :
  forall p c o st o' st', After p (VCut c o) st o' st' ->
    st' = st /\ ((stands_for c p = true /\ o' = o) \/ (stands_for c p = false /\ o' = VCut c o)).
Proof. intros p c o st o' st' H. inv H; auto. Qed.

(** ---- consequences for catch/throw (C04) ------------------------------------------------ *)

(** an error goes to the innermost frame that handles it: frames that do not
    handle it are popped (their alternatives are lost), frames below the
    handling one are untouched *)
Lemma recover_innermost :
  forall e above xs p below st recovery k env' f q st1 r st2,
    e <> EFuel ->
    (* no frame above p handles e, given the catch frames already known to have exited *)
    (forall pre q0 post, above = pre ++ q0 :: post ->
       p_exited q0 <> None \/ handles q0 e (fold_left (fun acc x => pass x acc) pre xs) = None) ->
    p_exited p = None ->
    handles p e (fold_left (fun acc x => pass x acc) above xs) = Some (recovery, k, env') ->
    call_goal f recovery k env' st = (q, st1) ->
    Run (q :: below) st1 r st2 ->
    Recover e xs (above ++ p :: below) st r st2.
Proof.
  intros e above. induction above as [|a above IH]; intros xs p below st recovery k env' f q st1 r st2 He Hno Hex Hh Hc Hrun.
  - cbn in *. eapply RcCaught; eassumption.
  - cbn [app]. apply RcPass; [assumption | apply (Hno [] a above eq_refl) |].
    eapply IH; try eassumption.
    intros pre q0 post Heq. specialize (Hno (a :: pre) q0 post). cbn in Hno. apply Hno. rewrite Heq. reflexivity.
Qed.

(** a catch frame whose goal has exited (its id is in the exited set collected
    on the way down) never handles the error, whatever its catcher *)
Lemma exited_catch_inactive :
  forall p e xs, In (p_id p) xs -> handles p e xs = None.
Proof.
  intros p e xs Hin. unfold handles.
  assert (existsb (Z.eqb (p_id p)) xs = true) as ->.
  { apply existsb_exists. exists (p_id p). split; [assumption | apply Z.eqb_refl]. }
  destruct e; reflexivity.
Qed.

(** an uncaught error is the result of the run, carrying the ball *)
Lemma uncaught_reaches_caller :
  forall e xs stack st,
    e <> EFuel ->
    (forall pre q0 post, stack = pre ++ q0 :: post ->
       p_exited q0 <> None \/ handles q0 e (fold_left (fun acc x => pass x acc) pre xs) = None) ->
    Recover e xs stack st (FError e) st.
Proof.
  intros e xs stack. revert xs. induction stack as [|a stack IH]; intros xs st He Hno.
  - apply RcNil. assumption.
  - apply RcPass; [assumption | apply (Hno [] a stack eq_refl) |].
    apply IH; [assumption|].
    intros pre q0 post Heq. specialize (Hno (a :: pre) q0 post). cbn in Hno. apply Hno. rewrite Heq. reflexivity.
Qed.
