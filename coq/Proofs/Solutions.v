(** No call of the Solutions iterator blocks; Next counts the answers exactly;
    Close ends the search.  For every producer and every script of calls. *)
From Coq Require Import ZArith Bool List String Lia.
From PV Require Import Model.Solutions.
Import ListNotations.

(** the invariant of reachable states *)
Definition Inv (s : st) : Prop :=
  more_full s = false /\ (ps s = PDone -> closed s = true \/ done s = true).

Lemma init_inv : Inv init.
Proof. split; [reflexivity | discriminate]. Qed.

Lemma step_inv p s c : Inv s -> Inv (fst (step p s c)).
Proof.
  intros [Hm Hd]. unfold Inv. destruct c; cbn [step].
  - destruct (closed s || done s) eqn:E; cbn [fst]; [split; assumption|].
    rewrite Hm. destruct (ps s) eqn:Ep.
    + destruct (has_more p (delivered s)); cbn; split; try reflexivity; try discriminate. intros _. right. reflexivity.
    + exfalso. apply orb_false_iff in E as [E1 E2]. destruct (Hd eq_refl); congruence.
  - cbn [fst]. split; assumption.
  - cbn [fst]. split; assumption.
  - destruct (closed s) eqn:E; cbn; [split; [exact Hm | rewrite E; exact Hd]|]. split; [exact Hm | intros _; left; reflexivity].
Qed.

Lemma run_inv p : forall cs s, Inv s -> Inv (fst (run p s cs)).
Proof.
  induction cs as [|c cs IH]; intros s H; cbn; [exact H|].
  destruct (step p s c) as [s1 r] eqn:E1. pose proof (step_inv p s c H) as H1. rewrite E1 in H1. cbn in H1.
  specialize (IH s1 H1). destruct (run p s1 cs) as [s2 rs]. exact IH.
Qed.

(** no call blocks, whatever was called before *)
Lemma step_never_blocks p s c : Inv s -> snd (step p s c) <> RBlocked.
Proof.
  intros [Hm Hd]. destruct c; cbn; try discriminate.
  - destruct (closed s || done s); [discriminate|]. rewrite Hm.
    destruct (ps s); [destruct (has_more p (delivered s))|]; discriminate.
  - destruct (closed s); discriminate.
Qed.

Theorem no_call_blocks : forall p cs, ~ In RBlocked (snd (run p init cs)).
Proof.
  intros p cs. assert (G : forall s, Inv s -> ~ In RBlocked (snd (run p s cs))).
  { induction cs as [|c cs IH]; intros s H; cbn; [intros []|].
    destruct (step p s c) as [s1 r] eqn:E1.
    pose proof (step_never_blocks p s c H) as Hb. pose proof (step_inv p s c H) as H1. rewrite E1 in Hb, H1. cbn in Hb, H1.
    specialize (IH s1 H1). destruct (run p s1 cs) as [s2 rs]. cbn in *. intros [E|E]; [congruence | exact (IH E)]. }
  apply G. apply init_inv.
Qed.

(** Next returns true exactly while answers remain and the iterator is open,
    and each true hands over exactly one further answer, in order *)
Theorem next_counts : forall p s, Inv s ->
  let '(s', r) := step p s CNext in
  (r = RBool true <-> (closed s = false /\ done s = false /\ ps s = PWaiting /\ has_more p (delivered s) = true)) /\
  (r = RBool true -> delivered s' = S (delivered s) /\ cur s' = Some (delivered s')) /\
  (r <> RBool true -> delivered s' = delivered s).
Proof.
  intros p s [Hm Hd]. cbn. destruct (closed s) eqn:Ec; cbn.
  { repeat split; try discriminate; try tauto; intros [? _]; discriminate. }
  destruct (done s) eqn:Ed; cbn.
  { repeat split; try discriminate; try tauto. intros [_ [? _]]; discriminate. }
  rewrite Hm. destruct (ps s) eqn:Ep.
  - destruct (has_more p (delivered s)) eqn:Eh; cbn; repeat split; try discriminate; try tauto; try congruence.
    intros [_ [_ [_ ?]]]; discriminate.
  - exfalso. destruct (Hd eq_refl); congruence.
Qed.

(** once exhausted (or failed), always false; the error stays reported *)
Theorem exhausted_stays_false : forall p s, done s = true -> step p s CNext = (s, RBool false).
Proof. intros p s H. cbn. rewrite H, orb_true_r. reflexivity. Qed.

(** Close ends the search: no goal runs afterwards (no further answer is ever
    produced), Next is false, a second Close reports ErrClosed *)
Theorem close_stops : forall p s cs,
  closed s = true ->
  delivered (fst (run p s cs)) = delivered s /\
  Forall (fun r => r <> RBool true /\ r <> RClosed false) (snd (run p s cs)).
Proof.
  intros p s cs. revert s. induction cs as [|c cs IH]; intros s Hc; cbn; [split; [reflexivity|constructor]|].
  destruct c; cbn; rewrite ?Hc; cbn.
  all: specialize (IH s Hc); destruct (run p s cs) as [s2 rs]; cbn in *; destruct IH as [A B];
       (split; [exact A | constructor; [split; discriminate | exact B]]).
Qed.

Theorem close_closes : forall p s, closed s = false -> closed (fst (step p s CClose)) = true /\ snd (step p s CClose) = RClosed false.
Proof. intros p s H. cbn. rewrite H. cbn. split; reflexivity. Qed.

Theorem second_close_reports : forall p s, closed s = true -> step p s CClose = (s, RClosed true).
Proof. intros p s H. cbn. rewrite H. reflexivity. Qed.

(** after the terminating false, Err reports the producer's error *)
Theorem err_after_end : forall p s, Inv s -> closed s = false -> done s = false -> has_more p (delivered s) = false ->
  perr (fst (step p s CNext)) = final_err p.
Proof.
  intros p s [Hm Hd] Hc Hdn Hh. cbn. rewrite Hc, Hdn, Hm. cbn. destruct (ps s) eqn:Ep.
  - rewrite Hh. reflexivity.
  - exfalso. destruct (Hd eq_refl); congruence.
Qed.
