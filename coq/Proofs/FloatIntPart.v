(** float_integer_part/1 (intPartF of number.go, as regenerated): sign(x) * floor(|x|)
    is, for every finite float, exactly the integer part of its value
    (truncation toward zero) -- the product by +-1 or 0 is exact. *)
From Coq Require Import ZArith Reals Bool Lia Lra.
From Flocq Require Import Core IEEE754.BinarySingleNaN IEEE754.Binary IEEE754.Bits.
From PV Require Import Model.GoInt Model.F64 Model.Num Gen.Arith_gen Proofs.FloatToInt Proofs.FloatCompare.
Open Scope R_scope.

Lemma V_zero : B2R 53 1024 (of_bits 0) = 0 /\ fis_finite (of_bits 0) = true.
Proof. split; reflexivity. Qed.
Lemma V_one : B2R 53 1024 (of_bits 4607182418800017408) = 1 /\ fis_finite (of_bits 4607182418800017408) = true.
Proof.
  split; [|vm_compute; reflexivity]. rewrite B2R_SF.
  replace (B2SF 53 1024 (of_bits 4607182418800017408)) with (SpecFloat.S754_finite false 4503599627370496 (-52)) by (vm_compute; reflexivity).
  unfold SF2R, F2R. cbn [Fnum Fexp cond_Zopp].
  change (bpow radix2 (-52)) with (/ IZR (Zpower_pos 2 52)). change (Zpower_pos 2 52) with 4503599627370496%Z.
  apply Rinv_r. apply not_0_IZR. lia.
Qed.
Lemma V_mone : B2R 53 1024 (of_bits 13830554455654793216) = -1 /\ fis_finite (of_bits 13830554455654793216) = true.
Proof.
  split; [|vm_compute; reflexivity]. rewrite B2R_SF.
  replace (B2SF 53 1024 (of_bits 13830554455654793216)) with (SpecFloat.S754_finite true 4503599627370496 (-52)) by (vm_compute; reflexivity).
  unfold SF2R, F2R. cbn [Fnum Fexp cond_Zopp].
  change (bpow radix2 (-52)) with (/ IZR (Zpower_pos 2 52)). change (Zpower_pos 2 52) with 4503599627370496%Z.
  change (IZR (Z.neg 4503599627370496)) with (IZR (- 4503599627370496)). rewrite opp_IZR.
  rewrite Ropp_mult_distr_l_reverse, Rinv_r; [reflexivity | apply not_0_IZR; lia].
Qed.

(** multiplying a finite float by a finite float whose value is s in {-1, 0, 1} is exact *)
Lemma fmul_unit (s f : f64) (u : R) : fis_finite s = true -> fis_finite f = true ->
  B2R 53 1024 s = u -> (u = 1 \/ u = -1 \/ u = 0) ->
  B2R 53 1024 (fmul s f) = u * B2R 53 1024 f /\ fis_finite (fmul s f) = true.
Proof.
  intros Hs Hf Eu Hu. unfold fmul, b64_mult.
  match goal with |- context [Bmult 53 1024 ?a ?b binop_nan_pl64 mode_NE s f] => generalize a b end.
  intros Hp He.
  pose proof (Bmult_correct 53 1024 Hp He binop_nan_pl64 mode_NE s f) as H.
  rewrite Eu in H.
  assert (Hg : generic_format radix2 (SpecFloat.fexp 53 1024) (u * B2R 53 1024 f)).
  { destruct Hu as [Hu|[Hu|Hu]]; rewrite Hu.
    - rewrite Rmult_1_l. apply generic_format_B2R.
    - replace (-1 * B2R 53 1024 f) with (- B2R 53 1024 f) by ring. apply generic_format_opp, generic_format_B2R.
    - rewrite Rmult_0_l. apply generic_format_0. }
  rewrite (round_generic radix2 (SpecFloat.fexp 53 1024) (round_mode mode_NE) _ Hg) in H.
  assert (Hlt : Rlt_bool (Rabs (u * B2R 53 1024 f)) (bpow radix2 1024) = true).
  { apply Rlt_bool_true. pose proof (abs_B2R_lt_emax 53 1024 f) as Hb.
    destruct Hu as [Hu|[Hu|Hu]]; rewrite Hu.
    - rewrite Rmult_1_l. exact Hb.
    - replace (-1 * B2R 53 1024 f) with (- B2R 53 1024 f) by ring. rewrite Rabs_Ropp. exact Hb.
    - rewrite Rmult_0_l, Rabs_R0. apply bpow_gt_0. }
  rewrite Hlt in H. destruct H as (HR & Hfin & _). split; [exact HR|].
  unfold fis_finite in *. rewrite Hfin, Hs, Hf. reflexivity.
Qed.

Theorem intPartF_correct (x : f64) : fis_finite x = true ->
  B2R 53 1024 (intPartF x) = IZR (Ztrunc (B2R 53 1024 x)) /\ fis_finite (intPartF x) = true.
Proof.
  intro Hx. unfold intPartF. cbv zeta.
  set (X := B2R 53 1024 x).
  (* floor |x| *)
  assert (Ha : B2R 53 1024 (fabs x) = Rabs X /\ fis_finite (fabs x) = true).
  { unfold fabs, b64_abs. split; [apply B2R_Babs|]. unfold fis_finite. rewrite is_finite_Babs. exact Hx. }
  destruct Ha as [Ea Fa].
  destruct (Bnearbyint_correct 53 1024 (refl_equal _) unop_nan_pl64 mode_DN (fabs x)) as (HR & Hfin & _).
  fold (ffloor (fabs x)) in HR, Hfin. rewrite round_FIX_IZR, Ea in HR. cbn [round_mode] in HR.
  unfold fis_finite in Fa. rewrite Fa in Hfin.
  destruct V_zero as [Ez Fz]. destruct V_one as [E1 F1]. destruct V_mone as [Em Fm].
  unfold signF.
  change (fgt x (of_bits 0)) with (gtrF x (of_bits 0)). change (flt x (of_bits 0)) with (lssF x (of_bits 0)).
  rewrite (gtrF_correct x _ Hx Fz), (lssF_correct x _ Hx Fz), Ez. fold X.
  destruct (Rcompare_spec X 0) as [Hlt|Heq|Hgt]; cbn [is_gt is_lt].
  - (* negative *)
    destruct (fmul_unit _ (ffloor (fabs x)) (-1) Fm Hfin Em (or_intror (or_introl eq_refl))) as [E F].
    split; [|exact F]. rewrite E, HR. rewrite (Rabs_left X Hlt).
    rewrite (Ztrunc_ceil X (Rlt_le _ _ Hlt)). unfold Zceil. rewrite opp_IZR. ring.
  - (* zero *)
    destruct (fmul_unit _ (ffloor (fabs x)) 0 Fz Hfin Ez (or_intror (or_intror eq_refl))) as [E F].
    split; [|exact F]. rewrite E, Heq. rewrite Ztrunc_IZR. ring.
  - (* positive *)
    destruct (fmul_unit _ (ffloor (fabs x)) 1 F1 Hfin E1 (or_introl eq_refl)) as [E F].
    split; [|exact F]. rewrite E, HR. rewrite (Rabs_pos_eq X (Rlt_le _ _ Hgt)).
    rewrite (Ztrunc_floor X (Rlt_le _ _ Hgt)). ring.
Qed.
