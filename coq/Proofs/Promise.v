(** Facts about the promise stack of M (engine/promise.go). *)
From Coq Require Import ZArith Bool List String Lia.
From PV Require Import Model.Term Model.Unify Model.Clause Model.Machine.
Import ListNotations.
Open Scope Z_scope.

Definition ids (s : list promise) : list Z := map p_id s.

(** popUntil c: if a promise with id c is on the stack, exactly the frames
    strictly below its topmost occurrence remain *)
Lemma pop_until_found :
  forall c above p below,
    stands_for c p = true -> forallb (fun q => negb (stands_for c q)) above = true ->
    pop_until c (above ++ p :: below) = below.
Proof.
  intros c above p below Hp. induction above as [|q above IH]; intros Hn; cbn [app pop_until].
  - rewrite Hp. reflexivity.
  - cbn [forallb] in Hn. apply andb_prop in Hn as [Hq Hn].
    destruct (stands_for c q); [discriminate|]. apply IH. exact Hn.
Qed.

(** ... and if it is not on the stack, popUntil empties the stack *)
Lemma pop_until_missing :
  forall c s, forallb (fun q => negb (stands_for c q)) s = true -> pop_until c s = [].
Proof.
  intros c s. induction s as [|q s IH]; intros Hn; cbn [pop_until]; [reflexivity|].
  cbn [forallb] in Hn. apply andb_prop in Hn as [Hq Hn].
  destruct (stands_for c q); [discriminate|]. apply IH. exact Hn.
Qed.

(** popUntil never adds frames and keeps a suffix of the stack *)
Lemma pop_until_suffix : forall c s, exists pre, s = pre ++ pop_until c s.
Proof.
  intros c s. induction s as [|q s [pre IH]]; cbn [pop_until].
  - exists []. reflexivity.
  - destruct (stands_for c q).
    + exists [q]. reflexivity.
    + exists (q :: pre). cbn. rewrite <- IH. reflexivity.
Qed.
