(** Facts about the promise stack of M (engine/promise.go). *)
From Coq Require Import ZArith Bool List String Lia.
From PV Require Import Model.Term Model.Unify Model.Clause Model.Machine.
Import ListNotations.
Open Scope Z_scope.

Definition ids (s : list promise) : list Z := map p_id s.

(** popUntil c: if a promise with id c is on the stack, exactly the frames
    strictly below its topmost occurrence remain *)
Lemma pop_until_found :
  forall c above p below,
    p_id p = c -> ~ In c (ids above) ->
    pop_until c (above ++ p :: below) = below.
Proof.
  intros c above p below Hp. induction above as [|q above IH]; intros Hn; cbn [app pop_until].
  - rewrite Hp, Z.eqb_refl. reflexivity.
  - cbn [ids map In] in Hn.
    destruct (Z.eqb_spec (p_id q) c) as [E|E]; [exfalso; apply Hn; left; exact E|].
    apply IH. intro H. apply Hn. right. exact H.
Qed.

(** ... and if it is not on the stack, popUntil empties the stack *)
Lemma pop_until_missing :
  forall c s, ~ In c (ids s) -> pop_until c s = [].
Proof.
  intros c s. induction s as [|q s IH]; intros Hn; cbn [pop_until]; [reflexivity|].
  cbn [ids map In] in Hn.
  destruct (Z.eqb_spec (p_id q) c) as [E|E]; [exfalso; apply Hn; left; exact E|].
  apply IH. intro H. apply Hn. right. exact H.
Qed.

(** popUntil never adds frames and keeps a suffix of the stack *)
Lemma pop_until_suffix : forall c s, exists pre, s = pre ++ pop_until c s.
Proof.
  intros c s. induction s as [|q s [pre IH]]; cbn [pop_until].
  - exists []. reflexivity.
  - destruct (Z.eqb (p_id q) c).
    + exists [q]. reflexivity.
    + exists (q :: pre). cbn. rewrite <- IH. reflexivity.
Qed.
