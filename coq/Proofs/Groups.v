(** The grouping of bagof/setof solutions partitions them: every solution is in
    exactly one group, in solution order; the members of a group have the same
    witness as its head.  For any "same witness" test. *)
From Coq Require Import List Bool Permutation Lia.
From PV Require Import Model.Groups.
Import ListNotations.

Section GroupsProofs.
  Context {W T : Type}.
  Variable same : W -> W -> bool.

  Lemma filter_split_perm {A} (f : A -> bool) (l : list A) :
    Permutation (filter f l ++ filter (fun x => negb (f x)) l) l.
  Proof.
    induction l as [|x l IH]; cbn; [constructor|].
    destruct (f x); cbn.
    - constructor. exact IH.
    - apply Permutation_sym. eapply Permutation_trans; [|apply Permutation_middle].
      constructor. apply Permutation_sym. exact IH.
  Qed.

  Lemma filter_length_le {A} (f : A -> bool) (l : list A) : length (filter f l) <= length l.
  Proof. induction l as [|x l IH]; cbn; [lia|]. destruct (f x); cbn; lia. Qed.

  (** every solution is in exactly one group *)
  Theorem groups_partition :
    forall fuel pairs, length pairs < fuel ->
      Permutation (concat (map (@snd (list W) (list T)) (group_with same fuel pairs))) (map (@snd W T) pairs).
  Proof.
    induction fuel as [|f IH]; intros pairs Hlen; [lia|].
    destruct pairs as [|[w t] rest]; cbn [group_with]; [constructor|].
    cbn [map snd concat]. rewrite <- app_comm_cons. constructor.
    rewrite IH by (cbn in Hlen; pose proof (filter_length_le (fun p => negb (same (fst p) w)) rest); lia).
    rewrite <- map_app. apply Permutation_map. apply filter_split_perm.
  Qed.

  (** the witnesses go with their instances *)
  Theorem groups_aligned :
    forall fuel (pairs : list (W * T)), Forall (fun g : list W * list T => length (fst g) = length (snd g)) (group_with same fuel pairs).
  Proof.
    induction fuel as [|f IH]; intros pairs; cbn [group_with]; [constructor|].
    destruct pairs as [|[w t] rest]; [constructor|].
    constructor; [cbn; rewrite !map_length; reflexivity | apply IH].
  Qed.

  (** the members of a group have the same witness as its head *)
  Theorem groups_same_witness :
    forall fuel (pairs : list (W * T)),
      Forall (fun g : list W * list T => match fst g with [] => False | w :: ws => Forall (fun w' => same w' w = true) ws end)
             (group_with same fuel pairs).
  Proof.
    induction fuel as [|f IH]; intros pairs; cbn [group_with]; [constructor|].
    destruct pairs as [|[w t] rest]; [constructor|].
    constructor; [|apply IH]. cbn [fst].
    apply Forall_forall. intros w' Hin. apply in_map_iff in Hin as [[w2 t2] [<- Hin]].
    apply filter_In in Hin as [_ H]. exact H.
  Qed.

  (** the head of a later group does not have the witness of an earlier group *)
  Theorem groups_distinct :
    forall fuel (pairs : list (W * T)) w ws ts later,
      group_with same fuel pairs = (w :: ws, ts) :: later ->
      Forall (fun g : list W * list T => match fst g with [] => True | w2 :: _ => same w2 w = false end) later.
  Proof.
    destruct fuel as [|f]; intros pairs w ws ts later H; cbn [group_with] in H; [discriminate|].
    destruct pairs as [|[w0 t0] rest]; [discriminate|]. inversion H; subst. clear H.
    set (others := filter (fun p => negb (same (fst p) w)) rest).
    assert (Hall : Forall (fun p => same (fst p) w = false) others).
    { apply Forall_forall. intros p Hp. apply filter_In in Hp as [_ Hp]. destruct (same (fst p) w); [discriminate|reflexivity]. }
    clearbody others. revert others Hall. induction f as [|f IHf]; intros others Hall; cbn [group_with]; [constructor|].
    destruct others as [|[w1 t1] rest']; [constructor|].
    inversion Hall; subst. constructor; [cbn; assumption|].
    apply IHf. apply Forall_forall. intros p Hp. apply filter_In in Hp as [Hp _].
    rewrite Forall_forall in H2. apply H2. exact Hp.
  Qed.

  (** solution order is kept inside a group: its instances are a subsequence of the solutions *)
  Inductive subseq {A} : list A -> list A -> Prop :=
  | sub_nil : forall l, subseq [] l
  | sub_take : forall x l1 l2, subseq l1 l2 -> subseq (x :: l1) (x :: l2)
  | sub_skip : forall x l1 l2, subseq l1 l2 -> subseq l1 (x :: l2).

  Lemma subseq_filter {A} (f : A -> bool) (l : list A) : subseq (filter f l) l.
  Proof. induction l as [|x l IH]; cbn; [constructor|]. destruct (f x); constructor; exact IH. Qed.

  Lemma subseq_map {A B} (g : A -> B) (l1 l2 : list A) : subseq l1 l2 -> subseq (map g l1) (map g l2).
  Proof. induction 1; cbn; constructor; assumption. Qed.

  Lemma subseq_trans {A} (l1 l2 l3 : list A) : subseq l1 l2 -> subseq l2 l3 -> subseq l1 l3.
  Proof.
    intros H12 H23. revert l1 H12. induction H23; intros l0 H12.
    - inversion H12; subst. constructor.
    - inversion H12; subst; constructor; auto.
    - constructor. auto.
  Qed.

  Theorem groups_keep_order :
    forall fuel (pairs : list (W * T)), Forall (fun g : list W * list T => subseq (snd g) (map snd pairs)) (group_with same fuel pairs).
  Proof.
    induction fuel as [|f IH]; intros pairs; cbn [group_with]; [constructor|].
    destruct pairs as [|[w t] rest]; [constructor|].
    constructor.
    - cbn. constructor. apply subseq_map. apply subseq_filter.
    - specialize (IH (filter (fun p => negb (same (fst p) w)) rest)).
      eapply Forall_impl; [|exact IH]. intros g Hg. cbn.
      apply sub_skip. eapply subseq_trans; [exact Hg|]. apply subseq_map. apply subseq_filter.
  Qed.
End GroupsProofs.
