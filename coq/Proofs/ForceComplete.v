(** The converse of [force_sound]: whatever the compositional semantics [Run]
    derives for a stack (otherwise than "out of fuel") the trampoline computes
    with enough fuel.  With Proofs/FuelMono.v this makes [Run] a partial
    function and [force] its evaluator: the statements of C01/C03/C04/C13 that
    are phrased on [Run], [Resume], [After] are statements about what the
    trampoline of Model/Machine.v returns. *)
From Coq Require Import ZArith Bool List String Lia.
From PV Require Import Model.Term Model.Unify Model.Clause Model.Machine Proofs.Promise Proofs.Trampoline Proofs.FuelMono.
Import ListNotations.
Open Scope Z_scope.

(** an outcome that does not carry the model's out-of-fuel marker *)
Fixpoint clean (o : vout) : bool :=
  match o with
  | VErr EFuel _ => false
  | VCut _ o' => clean o'
  | _ => true
  end.

(** what the trampoline does with the outcome of the top promise (the
    functional reading of [Resume]) *)
Fixpoint resume_f (n : nat) (o : vout) (rest : list promise) (st : state) : fres * state :=
  match o with
  | VFalse => force n rest st
  | VTrue => (FTrue, st)
  | VCancel => (FError ECancelled, st)
  | VErr e xs => recover n e xs rest st
  | VCut c o' => resume_f n o' (pop_until c rest) st
  end.

Lemma resume_f_mono :
  forall o n m rest st r st', (n <= m)%nat ->
    resume_f n o rest st = (r, st') -> r <> FOutOfFuel -> resume_f m o rest st = (r, st').
Proof.
  induction o as [| |e xs|c o IH|]; intros n m rest st r st' Hle H Hr; cbn [resume_f] in *.
  - eapply force_mono; eassumption.
  - exact H.
  - eapply recover_mono; eassumption.
  - eapply IH; eassumption.
  - exact H.
Qed.

(** the two ways in which [recover] passes or stops at a frame *)
Lemma recover_pass :
  forall n e xs p rest st, e <> EFuel ->
    (p_exited p <> None \/ handles p e xs = None) ->
    recover (S n) e xs (p :: rest) st = recover n e (pass p xs) rest st.
Proof.
  intros n e xs p rest st He Hor. rewrite recover_S. unfold pass.
  destruct e; try contradiction.
  all: destruct (p_exited p) as [x|] eqn:Hex; [reflexivity|].
  all: destruct Hor as [Hor|Hor]; [contradiction|].
  all: unfold handles in Hor.
  all: destruct (if existsb (Z.eqb (p_id p)) xs then None else p_recover p) as [[catcher recovery k env]|]; [|reflexivity].
  all: cbn [ball_of] in Hor.
  all: match goal with |- context [unify ?a ?b ?c] => destruct (unify a b c) end; try reflexivity; discriminate.
Qed.

Lemma recover_caught :
  forall n e xs p rest st recovery k env',
    p_exited p = None -> handles p e xs = Some (recovery, k, env') ->
    recover (S n) e xs (p :: rest) st =
    (let '(q, st1) := call_goal n recovery k env' st in force n (q :: rest) st1).
Proof.
  intros n e xs p rest st recovery k env' Hex Hh. rewrite recover_S. unfold handles in Hh.
  destruct e; try discriminate.
  all: rewrite Hex.
  all: destruct (if existsb (Z.eqb (p_id p)) xs then None else p_recover p) as [[catcher recovery0 k0 env]|]; [|discriminate].
  all: cbn [ball_of] in Hh.
  all: match goal with |- context [unify ?a ?b ?c] => destruct (unify a b c) end; try discriminate.
  all: inversion Hh; subst; reflexivity.
Qed.

Lemma handles_not_fuel : forall p e xs v, handles p e xs = Some v -> e <> EFuel.
Proof. intros p e xs v H He. subst e. unfold handles in H. discriminate. Qed.

(** the marker evaluates to the marker *)
Lemma eval_marker :
  forall p st o st', Eval p st o st' -> is_fuel_err p = true -> clean o = false.
Proof. intros p st o st' H Hm. inversion H; subst; try congruence. reflexivity. Qed.

Lemma clean_wrapcut : forall c o, clean (wrapcut c o) = clean o.
Proof. intros [c|] o; reflexivity. Qed.

Lemma poll_cases :
  forall st, (poll st = None /\ s_polls st = Some O) \/
             (exists c, poll st = Some (set_polls st (Some c)) /\ s_polls st = Some (S c)) \/
             (poll st = Some st /\ s_polls st = None).
Proof.
  intro st. unfold poll. destruct (s_polls st) as [[|c]|]; [left | right; left; exists c | right; right]; split; reflexivity.
Qed.

Scheme Eval_mind := Minimality for Eval Sort Prop
  with After_mind := Minimality for After Sort Prop.
Combined Scheme Eval_After_mind from Eval_mind, After_mind.

Definition P_Eval (p : promise) (st : state) (o : vout) (st1 : state) : Prop :=
  clean o = true ->
  forall rest, exists k, forall n r st',
    resume_f n o rest st1 = (r, st') -> r <> FOutOfFuel -> force (k + n) (p :: rest) st = (r, st').

Definition P_After (p : promise) (oq : vout) (st : state) (o : vout) (st1 : state) : Prop :=
  clean o = true ->
  clean oq = true /\
  forall rest, exists k, forall n r st',
    resume_f n o rest st1 = (r, st') -> r <> FOutOfFuel -> resume_f (k + n) oq (p :: rest) st = (r, st').

(** one iteration of [force] on a promise that is not the marker, polled *)
Lemma force_polled :
  forall n p rest st st1, is_fuel_err p = false -> poll st = Some st1 ->
    force (S n) (p :: rest) st =
    match p_delayed p with
    | [] => match p_err p with
            | Some err => recover n err [] rest st1
            | None => if p_ok p then (FTrue, st1) else force n rest st1
            end
    | th :: ths =>
        let rest' := match p_cutp p with Some c => pop_until c rest | None => rest end in
        let p' := mkP (p_id p) (if p_repeat p then th :: ths else ths) (p_ok p) (p_err p) None
                      (match p_cutp p with Some c => Some c | None => p_cutdone p end) (p_repeat p) (p_recover p) (p_exited p) in
        let '(q, st') := run_thunk n th st1 in force n (q :: p' :: rest') st'
    end.
Proof.
  intros n p rest st st1 Hfe Hp. rewrite force_S, Hfe.
  destruct (poll_cases st) as [[H1 H2]|[[c [H1 H2]]|[H1 H2]]]; rewrite H1 in Hp; try discriminate;
    inversion Hp; subst; rewrite H2; reflexivity.
Qed.

Lemma eval_after_complete :
  (forall p st o st1, Eval p st o st1 -> P_Eval p st o st1) /\
  (forall p oq st o st1, After p oq st o st1 -> P_After p oq st o st1).
Proof.
  apply Eval_After_mind; unfold P_Eval, P_After.
  - (* EvFuel *) intros p st _ Hc. discriminate.
  - (* EvCancel *)
    intros p st Hfe Hp _ rest. exists 1%nat. intros n r st' H Hr. cbn [resume_f] in H. cbn [Nat.add].
    rewrite force_S, Hfe. destruct (poll_cases st) as [[H1 H2]|[[c [H1 H2]]|[H1 H2]]]; rewrite H1 in Hp; try discriminate.
    rewrite H2. exact H.
  - (* EvFalse *)
    intros p st st1 Hfe Hp Hd He Hok _ rest. exists 1%nat. intros n r st' H Hr. cbn [resume_f] in H. cbn [Nat.add].
    rewrite (force_polled _ _ _ _ _ Hfe Hp), Hd, He, Hok. exact H.
  - (* EvTrue *)
    intros p st st1 Hfe Hp Hd He Hok _ rest. exists 1%nat. intros n r st' H Hr. cbn [resume_f] in H. cbn [Nat.add].
    rewrite (force_polled _ _ _ _ _ Hfe Hp), Hd, He, Hok. exact H.
  - (* EvErr *)
    intros p st st1 e Hfe Hp Hd He _ rest. exists 1%nat. intros n r st' H Hr. cbn [resume_f] in H. cbn [Nat.add].
    rewrite (force_polled _ _ _ _ _ Hfe Hp), Hd, He. exact H.
  - (* EvStep *)
    intros p st st1 th ths f q st2 oq st3 o st4 Hfe Hp Hd Hrun Hev IHev Haf IHaf Hc rest.
    rewrite clean_wrapcut in Hc.
    destruct (IHaf Hc) as [Hcq IHaf'].
    specialize (IHev Hcq).
    assert (Hq : is_fuel_err q = false).
    { destruct (is_fuel_err q) eqn:E; [|reflexivity]. rewrite (eval_marker _ _ _ _ Hev E) in Hcq. discriminate. }
    set (rest' := match p_cutp p with Some c => pop_until c rest | None => rest end).
    destruct (IHaf' rest') as [k2 H2].
    destruct (IHev (stepped p :: rest')) as [k1 H1].
    exists (S (f + k1 + k2)). intros n r st' H Hr.
    assert (H' : resume_f n o rest' st4 = (r, st')).
    { subst rest'. destruct (p_cutp p); exact H. }
    cbn [Nat.add]. rewrite (force_polled _ _ _ _ _ Hfe Hp), Hd.
    rewrite (run_thunk_mono f (f + k1 + k2 + n) _ _ _ _ ltac:(lia) Hrun Hq).
    fold rest'.
    assert (Hst : mkP (p_id p) (if p_repeat p then th :: ths else ths) (p_ok p) (p_err p) None
                      (match p_cutp p with Some c => Some c | None => p_cutdone p end) (p_repeat p) (p_recover p) (p_exited p)
                  = stepped p).
    { unfold stepped. rewrite Hd. reflexivity. }
    rewrite Hst.
    replace (f + k1 + k2 + n)%nat with (k1 + (k2 + n + f))%nat by lia.
    apply H1; [|exact Hr].
    apply (resume_f_mono oq (k2 + n) (k2 + n + f)); [lia | | exact Hr].
    apply H2; assumption.
  - (* AfFalse *)
    intros p st o st' Hev IHev Hc. split; [reflexivity|]. intro rest.
    destruct (IHev Hc rest) as [k Hk]. exists k. intros n r st'' H Hr. cbn [resume_f]. apply Hk; assumption.
  - (* AfTrue *)
    intros p st _. split; [reflexivity|]. intro rest. exists 0%nat. intros n r st' H Hr. exact H.
  - (* AfCancel *)
    intros p st _. split; [reflexivity|]. intro rest. exists 0%nat. intros n r st' H Hr. exact H.
  - (* AfCutMine *)
    intros p c o st Hs Hc. split; [exact Hc|]. intro rest. exists 0%nat. intros n r st' H Hr.
    cbn [resume_f Nat.add pop_until]. rewrite Hs. exact H.
  - (* AfCutOther *)
    intros p c o st Hs Hc. split; [exact Hc|]. intro rest. exists 0%nat. intros n r st' H Hr.
    cbn [resume_f Nat.add pop_until] in *. rewrite Hs. exact H.
  - (* AfCaught *)
    intros p e xs st recovery k env' f q st1 o st2 Hex Hh Hcall Hev IHev Hc.
    pose proof (handles_not_fuel _ _ _ _ Hh) as He.
    split; [destruct e; try reflexivity; contradiction|].
    intro rest. destruct (IHev Hc rest) as [k1 H1].
    assert (Hq : is_fuel_err q = false).
    { destruct (is_fuel_err q) eqn:E; [|reflexivity]. rewrite (eval_marker _ _ _ _ Hev E) in Hc. discriminate. }
    exists (S (f + k1)). intros n r st' H Hr. cbn [resume_f Nat.add].
    rewrite (recover_caught _ _ _ _ _ _ _ _ _ Hex Hh).
    rewrite (call_goal_mono f (f + k1 + n) _ _ _ _ _ _ ltac:(lia) Hcall Hq).
    replace (f + k1 + n)%nat with (k1 + (n + f))%nat by lia.
    apply H1; [|exact Hr]. apply (resume_f_mono o n (n + f)); [lia | exact H | exact Hr].
  - (* AfPass *)
    intros p e xs st Hor Hc.
    assert (He : e <> EFuel) by (intro; subst e; discriminate).
    split; [destruct e; try reflexivity; contradiction|].
    intro rest. exists 1%nat. intros n r st' H Hr. cbn [resume_f Nat.add] in *.
    rewrite (recover_pass _ _ _ _ _ _ He Hor). exact H.
Qed.

Scheme Run_mind := Minimality for Run Sort Prop
  with Resume_mind := Minimality for Resume Sort Prop
  with Recover_mind := Minimality for Recover Sort Prop.
Combined Scheme Run_Resume_Recover_mind from Run_mind, Resume_mind, Recover_mind.

Lemma run_complete :
  (forall stack st r st', Run stack st r st' -> r <> FOutOfFuel -> exists n, force n stack st = (r, st')) /\
  (forall o rest st r st', Resume o rest st r st' -> r <> FOutOfFuel ->
     clean o = true /\ exists n, resume_f n o rest st = (r, st')) /\
  (forall e xs stack st r st', Recover e xs stack st r st' -> r <> FOutOfFuel ->
     e <> EFuel /\ exists n, recover n e xs stack st = (r, st')).
Proof.
  apply Run_Resume_Recover_mind.
  - (* RunNil *) intros st _. exists 1%nat. reflexivity.
  - (* RunCons *)
    intros p rest st o st1 r st2 Hev Hres IH Hr. destruct (IH Hr) as [Hc [n Hn]].
    destruct (proj1 eval_after_complete _ _ _ _ Hev Hc rest) as [k Hk].
    exists (k + n)%nat. apply Hk; assumption.
  - (* RsFalse *) intros rest st r st' Hrun IH Hr. split; [reflexivity|]. destruct (IH Hr) as [n Hn]. exists n. exact Hn.
  - (* RsTrue *) intros rest st _. split; [reflexivity|]. exists 0%nat. reflexivity.
  - (* RsCancel *) intros rest st _. split; [reflexivity|]. exists 0%nat. reflexivity.
  - (* RsErr *)
    intros e xs rest st r st' Hrec IH Hr. destruct (IH Hr) as [He [n Hn]].
    split; [destruct e; try reflexivity; contradiction|]. exists n. exact Hn.
  - (* RsCut *)
    intros c o rest st r st' Hres IH Hr. destruct (IH Hr) as [Hc [n Hn]]. split; [exact Hc|]. exists n. exact Hn.
  - (* RcFuel *) intros xs stack st Hr. contradiction.
  - (* RcNil *)
    intros e xs st He _. split; [exact He|]. exists 1%nat. rewrite recover_S. destruct e; try reflexivity; contradiction.
  - (* RcCaught *)
    intros e xs p rest st recovery k env' f q st1 r st2 Hex Hh Hcall Hrun IH Hr.
    split; [eapply handles_not_fuel; eassumption|].
    destruct (IH Hr) as [n Hn].
    assert (Hq : is_fuel_err q = false).
    { destruct (is_fuel_err q) eqn:E; [|reflexivity]. rewrite force_fuel_err in Hn by assumption. inversion Hn; subst. contradiction. }
    exists (S (Nat.max f n)). rewrite (recover_caught _ _ _ _ _ _ _ _ _ Hex Hh).
    rewrite (call_goal_mono f (Nat.max f n) _ _ _ _ _ _ ltac:(lia) Hcall Hq).
    apply (force_mono n (Nat.max f n)); [lia | exact Hn | exact Hr].
  - (* RcPass *)
    intros e xs p rest st r st' He Hor Hrec IH Hr. split; [exact He|].
    destruct (IH Hr) as [_ [n Hn]]. exists (S n). rewrite (recover_pass _ _ _ _ _ _ He Hor). exact Hn.
Qed.

(** ---- the statements used by the properties -------------------------------------------- *)

Theorem force_complete :
  forall stack st r st', Run stack st r st' -> r <> FOutOfFuel -> exists n, force n stack st = (r, st').
Proof. exact (proj1 run_complete). Qed.

Theorem force_iff_run :
  forall stack st r st', r <> FOutOfFuel ->
    ((exists n, force n stack st = (r, st')) <-> Run stack st r st').
Proof.
  intros stack st r st' Hr. split.
  - intros [n Hn]. exact (proj1 (force_sound n) _ _ _ _ Hn Hr).
  - intro H. apply force_complete; assumption.
Qed.

Theorem run_deterministic :
  forall stack st r1 st1 r2 st2,
    Run stack st r1 st1 -> r1 <> FOutOfFuel -> Run stack st r2 st2 -> r2 <> FOutOfFuel -> r1 = r2 /\ st1 = st2.
Proof.
  intros stack st r1 st1 r2 st2 H1 Hr1 H2 Hr2.
  destruct (force_complete _ _ _ _ H1 Hr1) as [n1 F1]. destruct (force_complete _ _ _ _ H2 Hr2) as [n2 F2].
  eapply force_deterministic; eassumption.
Qed.

(** ---- the cut and the error laws, stated on the trampoline itself ------------------------- *)

(** the top promise executes a cut addressed to [c]; [q] is the first frame that
    stands for [c]: whatever resuming on the frames BELOW [q] gives is what the
    trampoline returns -- the frames in between, and [q] with its remaining
    alternatives, have no influence *)
Theorem force_after_cut :
  forall p c o above q below st st1 r st',
    Eval p st (VCut c o) st1 ->
    stands_for c q = true -> forallb (fun x => negb (stands_for c x)) above = true ->
    Resume o below st1 r st' -> r <> FOutOfFuel ->
    exists n, force n (p :: above ++ q :: below) st = (r, st').
Proof.
  intros p c o above q below st st1 r st' Hev Hq Ha Hres Hr.
  apply force_complete; [|exact Hr].
  eapply RunCons; [exact Hev|]. apply (cut_discards_exactly c o above q below st1 r st' Hq Ha). exact Hres.
Qed.

(** the top promise raises an error that no frame of the stack handles: the
    trampoline returns that error and the state in which it was raised *)
Theorem force_uncaught :
  forall p e xs stack st st1,
    Eval p st (VErr e xs) st1 -> e <> EFuel ->
    (forall pre q0 post, stack = pre ++ q0 :: post ->
       p_exited q0 <> None \/ handles q0 e (fold_left (fun acc x => pass x acc) pre xs) = None) ->
    exists n, force n (p :: stack) st = (FError e, st1).
Proof.
  intros p e xs stack st st1 Hev He Hno.
  apply force_complete; [|discriminate].
  eapply RunCons; [exact Hev|]. apply RsErr. apply uncaught_reaches_caller; assumption.
Qed.

(** ... and one that the frame [q] is the innermost to handle: the recovery goal
    is called with [q]'s continuation on the frames below [q]; the frames above
    it are gone, whatever alternatives they held *)
Theorem force_caught_innermost :
  forall p e xs above q below st st1 recovery k env' f g st2 r st',
    Eval p st (VErr e xs) st1 -> e <> EFuel ->
    (forall pre q0 post, above = pre ++ q0 :: post ->
       p_exited q0 <> None \/ handles q0 e (fold_left (fun acc x => pass x acc) pre xs) = None) ->
    p_exited q = None ->
    handles q e (fold_left (fun acc x => pass x acc) above xs) = Some (recovery, k, env') ->
    call_goal f recovery k env' st1 = (g, st2) ->
    Run (g :: below) st2 r st' -> r <> FOutOfFuel ->
    exists n, force n (p :: above ++ q :: below) st = (r, st').
Proof.
  intros p e xs above q below st st1 recovery k env' f g st2 r st' Hev He Hno Hex Hh Hc Hrun Hr.
  apply force_complete; [|exact Hr].
  eapply RunCons; [exact Hev|]. apply RsErr. eapply recover_innermost; eassumption.
Qed.
