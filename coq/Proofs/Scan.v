(** Scan stores exactly the value of the answer or reports an error
    (solutions.go convertAssign*, as regenerated in Gen/Scan_gen.v). *)
From Coq Require Import ZArith Bool Lia.
From PV Require Import Model.Scan Gen.Scan_gen.
Open Scope Z_scope.

Ltac Zify.zify_post_hook ::= Z.div_mod_to_equations.

Lemma wrap_bits_id n z : 0 < n -> - 2 ^ (n - 1) <= z < 2 ^ (n - 1) -> wrap_bits n z = z.
Proof.
  intros Hn Hz. unfold wrap_bits.
  assert (E : 2 ^ n = 2 * 2 ^ (n - 1)) by (replace n with (Z.succ (n - 1)) at 1 by lia; rewrite Z.pow_succ_r by lia; reflexivity).
  assert (0 < 2 ^ (n - 1)) by (apply Z.pow_pos_nonneg; lia).
  rewrite E. rewrite Z.mod_small by lia. lia.
Qed.

Definition in_bits (n z : Z) : Prop := - 2 ^ (n - 1) <= z < 2 ^ (n - 1).

(** every engine Integer is an int64 *)
Definition int64 (z : Z) := in_bits 64 z.

Theorem scan_int64_exact : forall z, int64 z -> scan_int64 (SInt z) = Some z.
Proof. intros z H. cbn. rewrite wrap_bits_id by (unfold int64, in_bits in H; lia). reflexivity. Qed.
Theorem scan_int_exact : forall z, int64 z -> scan_int (SInt z) = Some z.
Proof. intros z H. cbn. rewrite wrap_bits_id by (unfold int64, in_bits in H; lia). reflexivity. Qed.

Ltac narrow n :=
  intros z; cbn; change (2 ^ (n - 1)) with (Z.pow 2 (n - 1)) in *;
  match goal with |- context [(z <? ?lo) || (?hi <? z)] =>
    destruct (Z.ltb_spec z lo); destruct (Z.ltb_spec hi z); cbn [orb] end.

(** narrow destinations: the value is stored exactly when it fits, otherwise an error *)
Theorem scan_int8_exact : forall z, (in_bits 8 z -> scan_int8 (SInt z) = Some z) /\ (~ in_bits 8 z -> scan_int8 (SInt z) = None).
Proof.
  intros z. unfold in_bits. cbn. change (2 ^ (8 - 1)) with 128.
  destruct (Z.ltb_spec z (-128)); destruct (Z.ltb_spec 127 z); cbn [orb]; split; intros Hb; try lia; try reflexivity.
  rewrite wrap_bits_id by (change (2 ^ (8 - 1)) with 128; lia). reflexivity.
Qed.
Theorem scan_int16_exact : forall z, (in_bits 16 z -> scan_int16 (SInt z) = Some z) /\ (~ in_bits 16 z -> scan_int16 (SInt z) = None).
Proof.
  intros z. unfold in_bits. cbn. change (2 ^ (16 - 1)) with 32768.
  destruct (Z.ltb_spec z (-32768)); destruct (Z.ltb_spec 32767 z); cbn [orb]; split; intros Hb; try lia; try reflexivity.
  rewrite wrap_bits_id by (change (2 ^ (16 - 1)) with 32768; lia). reflexivity.
Qed.
Theorem scan_int32_exact : forall z, (in_bits 32 z -> scan_int32 (SInt z) = Some z) /\ (~ in_bits 32 z -> scan_int32 (SInt z) = None).
Proof.
  intros z. unfold in_bits. cbn. change (2 ^ (32 - 1)) with 2147483648.
  destruct (Z.ltb_spec z (-2147483648)); destruct (Z.ltb_spec 2147483647 z); cbn [orb]; split; intros Hb; try lia; try reflexivity.
  rewrite wrap_bits_id by (change (2 ^ (32 - 1)) with 2147483648; lia). reflexivity.
Qed.

(** float64: the bit pattern is stored unchanged; an integer answer is not
    silently rounded into a float destination *)
Theorem scan_float64_exact : forall bits, scan_float64 (SFlt bits) = Some bits.
Proof. reflexivity. Qed.
Theorem scan_float64_rejects_integers : forall z, scan_float64 (SInt z) = None.
Proof. reflexivity. Qed.

(** answers that are not numbers are an error for every numeric destination *)
Theorem scan_rejects_non_numbers :
  scan_int SOther = None /\ scan_int8 SOther = None /\ scan_int16 SOther = None /\ scan_int32 SOther = None /\
  scan_int64 SOther = None /\ scan_float64 SOther = None /\
  (forall b, scan_int (SFlt b) = None /\ scan_int8 (SFlt b) = None /\ scan_int16 (SFlt b) = None /\
             scan_int32 (SFlt b) = None /\ scan_int64 (SFlt b) = None).
Proof. repeat split; reflexivity. Qed.
