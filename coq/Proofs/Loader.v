(** A failed load defines nothing; a successful one gives every predicate of the
    text exactly the text's clauses for it, in source order. *)
From Coq Require Import ZArith Bool List String Lia.
From PV Require Import Model.Loader.
Import ListNotations.
Open Scope Z_scope.

(** all or nothing *)
(** all or nothing: every error that arises while the text is read and staged
    (that is every error but a failing initialization goal, which by definition
    runs after the load) leaves the database as it was *)
Theorem load_all_or_nothing : forall db is db' e o,
  load db is = (db', Some e, o) -> e <> EInit -> db' = db.
Proof.
  intros db is db' e o H Hne. unfold load in H. destruct (stage_all empty_t is) as [t|[e1 o1]].
  - destruct (run_goals (goals t) (out t)) as [o2 e2] eqn:Er. inversion H; subst. exfalso.
    clear H. revert Er. generalize (out t). induction (goals t) as [|[[|] tok] gs IH]; cbn; intros o1 Er.
    + inversion Er.
    + eapply IH; exact Er.
    + inversion Er; subst. apply Hne. reflexivity.
  - inversion H. reflexivity.
Qed.

(** ... and the staging verdict does not depend on the database at all *)
Theorem load_error_independent_of_db : forall db1 db2 is,
  snd (fst (load db1 is)) = snd (fst (load db2 is)) /\ snd (load db1 is) = snd (load db2 is).
Proof.
  intros db1 db2 is. unfold load. destruct (stage_all empty_t is) as [t|[e o]]; [|split; reflexivity].
  destruct (run_goals (goals t) (out t)); split; reflexivity.
Qed.

Lemma pi_eqb_refl p : pi_eqb p p = true.
Proof. unfold pi_eqb. rewrite String.eqb_refl, Z.eqb_refl. reflexivity. Qed.
Lemma pi_eqb_eq p q : pi_eqb p q = true -> p = q.
Proof.
  unfold pi_eqb. destruct p, q; cbn. rewrite andb_true_iff, String.eqb_eq, Z.eqb_eq. intros [-> ->]. reflexivity.
Qed.

Lemma get_put_same ds p u : get (put ds p u) p = Some u.
Proof.
  induction ds as [|[q v] ds IH]; cbn; [rewrite pi_eqb_refl; reflexivity|].
  destruct (pi_eqb q p) eqn:E; cbn; rewrite E; [reflexivity | exact IH].
Qed.
Lemma get_put_other ds p q u : pi_eqb p q = false -> get (put ds p u) q = get ds q.
Proof.
  intros Hne. induction ds as [|[r v] ds IH]; cbn.
  - destruct (pi_eqb p q) eqn:E; [congruence|reflexivity].
  - destruct (pi_eqb r p) eqn:E; cbn.
    + apply pi_eqb_eq in E. subst r. rewrite Hne. reflexivity.
    + destruct (pi_eqb r q); [reflexivity | exact IH].
Qed.

(** the clauses of predicate p among a list of items, in order *)
Definition ids_of (p : pi) (is : list item) : list Z :=
  flat_map (fun i => match i with IClause q id => if pi_eqb q p then [id] else [] | _ => [] end) is.

Definition staged (t : text) (p : pi) : list Z :=
  (match get (defs t) p with Some u => u_cls u | None => [] end) ++
  map snd (filter (fun b => pi_eqb (fst b) p) (buf t)).

(** the buffer holds clauses of one predicate only *)
Definition buf_ok (t : text) : Prop :=
  forall b c, In b (buf t) -> In c (buf t) -> fst b = fst c.

Lemma filter_all p (l : list (pi * Z)) : (forall b, In b l -> fst b = p) -> filter (fun b => pi_eqb (fst b) p) l = l.
Proof.
  induction l as [|b l IH]; intros H; cbn; [reflexivity|].
  rewrite (H b (or_introl eq_refl)), pi_eqb_refl. f_equal. apply IH. intros c Hc. apply H. right. exact Hc.
Qed.
Lemma filter_none p q (l : list (pi * Z)) : (forall b, In b l -> fst b = q) -> pi_eqb q p = false -> filter (fun b => pi_eqb (fst b) p) l = [].
Proof.
  induction l as [|b l IH]; intros H Hne; cbn; [reflexivity|].
  rewrite (H b (or_introl eq_refl)), Hne. apply IH; [|exact Hne]. intros c Hc. apply H. right. exact Hc.
Qed.

Lemma flush_staged t t' p : buf_ok t -> flush t = inl t' -> staged t' p = staged t p /\ buf t' = [].
Proof.
  intros Hb H. unfold flush in H. destruct (buf t) as [|[q id] rest] eqn:Eb.
  - inversion H; subst. split; [reflexivity | exact Eb].
  - destruct (negb _ && negb _); [discriminate|]. inversion H; subst. clear H. split; [|reflexivity].
    assert (Hall : forall b, In b (buf t) -> fst b = q).
    { intros b Hin. specialize (Hb b (q, id) Hin). rewrite Eb in Hb. apply Hb. left. reflexivity. }
    change (id :: map snd rest) with (map snd ((q, id) :: rest)). rewrite <- Eb. unfold staged. cbn [buf defs filter]. change (map snd (@nil (pi * Z))) with (@nil Z). rewrite app_nil_r.
    destruct (pi_eqb q p) eqn:E.
    + apply pi_eqb_eq in E. subst q. rewrite get_put_same. cbn [u_cls].
      rewrite (filter_all p (buf t) Hall). destruct (get (defs t) p); reflexivity.
    + rewrite get_put_other by exact E.
      rewrite (filter_none p q (buf t) Hall E). cbn. rewrite app_nil_r. reflexivity.
Qed.

Lemma set_flag_staged t p q f : (forall u, u_cls (f u) = u_cls u) -> staged (set_flag t q f) p = staged t p.
Proof.
  intros Hf. unfold staged, set_flag. cbn [buf defs]. f_equal.
  destruct (pi_eqb q p) eqn:E.
  - apply pi_eqb_eq in E. subst q. rewrite get_put_same. rewrite Hf. destruct (get (defs t) p); reflexivity.
  - rewrite get_put_other by exact E. reflexivity.
Qed.

Definition push (t : text) (q : pi) (id : Z) : text := mkT (buf t ++ [(q, id)]) (defs t) (goals t) (out t).

Lemma staged_push t p q id : staged (push t q id) p = staged t p ++ (if pi_eqb q p then [id] else []).
Proof.
  unfold staged, push. cbn [buf defs]. rewrite filter_app, map_app, app_assoc. cbn [filter fst].
  destruct (pi_eqb q p); cbn; rewrite ?app_nil_r; reflexivity.
Qed.

Lemma buf_ok_push t q id : (forall b, In b (buf t) -> fst b = q) -> buf_ok (push t q id).
Proof.
  intros Hall b c Hb1 Hc1. unfold push in *. cbn [buf] in *. apply in_app_or in Hb1, Hc1.
  assert (forall x, In x (buf t) \/ In x [(q, id)] -> fst x = q) as Hx.
  { intros x [Hx|[<-|[]]]; [apply Hall; exact Hx | reflexivity]. }
  rewrite (Hx b Hb1), (Hx c Hc1). reflexivity.
Qed.

Lemma stage_staged t i t' p :
  buf_ok t -> stage t i = inl t' ->
  buf_ok t' /\ staged t' p = staged t p ++ ids_of p [i].
Proof.
  intros Hb H. destruct i; cbn [stage] in H; cbn [ids_of flat_map]; rewrite ?app_nil_r.
  - (* clause *)
    assert (Hcase : exists t1, t' = push t1 p0 id /\ staged t1 p = staged t p /\ (forall b, In b (buf t1) -> fst b = p0)).
    { destruct (buf t) as [|[q id0] rest] eqn:Eb.
      - exists t. inversion H; subst. split; [reflexivity|]. split; [reflexivity|]. rewrite Eb. intros b [].
      - destruct (pi_eqb q p0) eqn:E.
        + apply pi_eqb_eq in E. subst q. exists t. inversion H; subst. split; [reflexivity|]. split; [reflexivity|].
          intros b Hin. specialize (Hb b (p0, id0) Hin). rewrite Eb in Hb. apply Hb. left. reflexivity.
        + destruct (flush t) as [t1|] eqn:Ef; [|discriminate]. exists t1. inversion H; subst.
          destruct (flush_staged t t1 p Hb Ef) as [Hs He]. split; [reflexivity|]. split; [exact Hs|].
          rewrite He. intros b []. }
    destruct Hcase as (t1 & -> & Hs & Hall). split; [apply buf_ok_push; exact Hall|].
    rewrite staged_push, Hs. reflexivity.
  - destruct (flush t) as [t1|] eqn:Ef; [|discriminate]. inversion H; subst.
    destruct (flush_staged t t1 p Hb Ef) as [Hs He]. split.
    + intros b c Hb1. cbn [set_flag buf] in Hb1. rewrite He in Hb1. destruct Hb1.
    + rewrite set_flag_staged by reflexivity. exact Hs.
  - destruct (flush t) as [t1|] eqn:Ef; [|discriminate]. inversion H; subst.
    destruct (flush_staged t t1 p Hb Ef) as [Hs He]. split.
    + intros b c Hb1. cbn [set_flag buf] in Hb1. rewrite He in Hb1. destruct Hb1.
    + rewrite set_flag_staged by reflexivity. exact Hs.
  - destruct (flush t) as [t1|] eqn:Ef; [|discriminate]. inversion H; subst.
    destruct (flush_staged t t1 p Hb Ef) as [Hs He]. split.
    + intros b c Hb1. cbn [set_flag buf] in Hb1. rewrite He in Hb1. destruct Hb1.
    + rewrite set_flag_staged by reflexivity. exact Hs.
  - destruct (flush t) as [t1|] eqn:Ef; [|discriminate]. destruct ok; [|discriminate]. inversion H; subst.
    destruct (flush_staged t t1 p Hb Ef) as [Hs He]. split; [|exact Hs].
    intros b c Hb1. cbn [buf] in Hb1. rewrite He in Hb1. destruct Hb1.
  - destruct (flush t) as [t1|] eqn:Ef; [|discriminate]. inversion H; subst.
    destruct (flush_staged t t1 p Hb Ef) as [Hs He]. split; [|exact Hs].
    intros b c Hb1. cbn [buf] in Hb1. rewrite He in Hb1. destruct Hb1.
  - destruct (flush t); discriminate.
  - discriminate.
  - discriminate.
Qed.

Lemma stage_all_staged : forall is t t' p,
  buf_ok t -> stage_all t is = inl t' -> staged t' p = staged t p ++ ids_of p is /\ buf t' = [].
Proof.
  induction is as [|i is IH]; intros t t' p Hb H; cbn [stage_all] in H.
  - destruct (flush_staged t t' p Hb H) as [Hs He]. split; [cbn; rewrite app_nil_r; exact Hs | exact He].
  - destruct (stage t i) as [t1|] eqn:Es; [|discriminate].
    destruct (stage_staged t i t1 p Hb Es) as [Hb1 Hs1].
    destruct (IH t1 t' p Hb1 H) as [Hs He]. split; [|exact He].
    rewrite Hs, Hs1. rewrite <- app_assoc. f_equal. unfold ids_of. cbn [flat_map]. rewrite app_nil_r. reflexivity.
Qed.

(** after staging a whole text, the definition staged for p is exactly the
    text's clauses for p, in source order *)
Theorem staged_in_source_order : forall is t p,
  stage_all empty_t is = inl t ->
  (match get (defs t) p with Some u => u_cls u | None => [] end) = ids_of p is.
Proof.
  intros is t p H.
  assert (Hb : buf_ok empty_t) by (intros b c []).
  destruct (stage_all_staged is empty_t t p Hb H) as [Hs He].
  unfold staged in Hs. cbn [defs buf get filter map app] in Hs. rewrite He in Hs. cbn in Hs. rewrite app_nil_r in Hs. exact Hs.
Qed.

(** ** the commit *)
Definition merge (old : option udef) (u : udef) : udef :=
  match old with
  | Some o => if u_multi o && u_multi u then mkU (u_dyn o) (u_multi o) (u_disc o) (u_cls o ++ u_cls u) else u
  | None => u
  end.

Fixpoint nodupk (ds : list (pi * udef)) : Prop :=
  match ds with [] => True | (q, _) :: r => get r q = None /\ nodupk r end.

Lemma pi_eqb_sym p q : pi_eqb p q = pi_eqb q p.
Proof. unfold pi_eqb. rewrite String.eqb_sym, Z.eqb_sym. reflexivity. Qed.

Lemma put_nodupk ds p u : nodupk ds -> nodupk (put ds p u).
Proof.
  induction ds as [|[q v] ds IH]; cbn; intros H; [split; [reflexivity|exact I]|].
  destruct H as [Hq Hr]. destruct (pi_eqb q p) eqn:E; cbn.
  - split; assumption.
  - split; [|apply IH; exact Hr]. rewrite get_put_other; [exact Hq|]. rewrite pi_eqb_sym. exact E.
Qed.

Lemma commit_get : forall ds db p, nodupk ds ->
  get (commit db ds) p = match get ds p with Some u => Some (merge (get db p) u) | None => get db p end.
Proof.
  unfold commit. induction ds as [|[q u] ds IH]; intros db p Hn; cbn [fold_left get]; [reflexivity|].
  destruct Hn as [Hq Hr].
  set (db1 := match get db q with
              | Some old => if u_multi old && u_multi u
                            then put db q (mkU (u_dyn old) (u_multi old) (u_disc old) (u_cls old ++ u_cls u))
                            else put db q u
              | None => put db q u end).
  assert (Hdb1 : db1 = put db q (merge (get db q) u)).
  { unfold db1, merge. destruct (get db q) as [o|]; [destruct (u_multi o && u_multi u)|]; reflexivity. }
  rewrite (IH db1 p Hr). destruct (pi_eqb q p) eqn:E.
  - apply pi_eqb_eq in E. subst q. rewrite Hq, Hdb1, get_put_same. reflexivity.
  - rewrite Hdb1, get_put_other by exact E. reflexivity.
Qed.

Lemma flush_nodupk t t' : nodupk (defs t) -> flush t = inl t' -> nodupk (defs t').
Proof.
  unfold flush. intros Hn H. destruct (buf t) as [|[q id] r]; [inversion H; subst; exact Hn|].
  destruct (negb _ && negb _); [discriminate|]. inversion H; subst. cbn [defs]. apply put_nodupk. exact Hn.
Qed.

Lemma stage_nodupk t i t' : nodupk (defs t) -> stage t i = inl t' -> nodupk (defs t').
Proof.
  intros Hn H. destruct i; cbn [stage] in H.
  - destruct (buf t) as [|[q id0] r].
    + inversion H; subst. exact Hn.
    + destruct (pi_eqb q p).
      * inversion H; subst. exact Hn.
      * destruct (flush t) as [t1|] eqn:Ef; [|discriminate]. inversion H; subst. cbn [defs]. eapply flush_nodupk; eassumption.
  - destruct (flush t) as [t1|] eqn:Ef; [|discriminate]. inversion H; subst. cbn [set_flag defs]. apply put_nodupk. eapply flush_nodupk; eassumption.
  - destruct (flush t) as [t1|] eqn:Ef; [|discriminate]. inversion H; subst. cbn [set_flag defs]. apply put_nodupk. eapply flush_nodupk; eassumption.
  - destruct (flush t) as [t1|] eqn:Ef; [|discriminate]. inversion H; subst. cbn [set_flag defs]. apply put_nodupk. eapply flush_nodupk; eassumption.
  - destruct (flush t) as [t1|] eqn:Ef; [|discriminate]. destruct ok; [|discriminate]. inversion H; subst. cbn [defs]. eapply flush_nodupk; eassumption.
  - destruct (flush t) as [t1|] eqn:Ef; [|discriminate]. inversion H; subst. cbn [defs]. eapply flush_nodupk; eassumption.
  - destruct (flush t); discriminate.
  - discriminate.
  - discriminate.
Qed.

Lemma stage_all_nodupk : forall is t t', nodupk (defs t) -> stage_all t is = inl t' -> nodupk (defs t').
Proof.
  induction is as [|i is IH]; intros t t' Hn H; cbn [stage_all] in H.
  - eapply flush_nodupk; eassumption.
  - destruct (stage t i) as [t1|] eqn:Es; [|discriminate]. eapply IH; [|exact H]. eapply stage_nodupk; eassumption.
Qed.

(** the items that mention predicate p: its clauses and its declarations *)
Definition mentions (p : pi) (i : item) : bool :=
  match i with
  | IClause q _ | IDynamic q | IMultifile q | IDiscontiguous q => pi_eqb q p
  | _ => false
  end.

Definition nop (t : text) (p : pi) : Prop :=
  get (defs t) p = None /\ forall b, In b (buf t) -> pi_eqb (fst b) p = false.

Lemma flush_nop t t' p : nop t p -> flush t = inl t' -> nop t' p.
Proof.
  intros [Hg Hb] H. unfold flush in H. destruct (buf t) as [|[q id] r] eqn:Eb.
  - inversion H; subst. split; [exact Hg|]. rewrite Eb. intros b [].
  - destruct (negb _ && negb _); [discriminate|]. inversion H; subst. split; cbn [defs buf]; [|intros b []].
    rewrite get_put_other; [exact Hg|]. apply (Hb (q, id)). left. reflexivity.
Qed.

Lemma stage_nop t i t' p : nop t p -> mentions p i = false -> stage t i = inl t' -> nop t' p.
Proof.
  intros Hn Hm H. destruct i; cbn [stage] in H; cbn [mentions] in Hm.
  - assert (exists t1, nop t1 p /\ t' = mkT (buf t1 ++ [(p0, id)]) (defs t1) (goals t1) (out t1)) as (t1 & [Hg Hb] & ->).
    { destruct (buf t) as [|[q id0] r] eqn:Eb.
      - exists t. split; [exact Hn|]. inversion H; subst. rewrite Eb. reflexivity.
      - destruct (pi_eqb q p0).
        + exists t. split; [exact Hn|]. inversion H; subst. rewrite Eb. reflexivity.
        + destruct (flush t) as [t1|] eqn:Ef; [|discriminate]. exists t1. split; [eapply flush_nop; eassumption|].
          inversion H; subst. reflexivity. }
    split; cbn [defs buf]; [exact Hg|]. intros b Hin. apply in_app_or in Hin. destruct Hin as [Hin|[<-|[]]]; [apply Hb; exact Hin | exact Hm].
  - destruct (flush t) as [t1|] eqn:Ef; [|discriminate]. inversion H; subst. destruct (flush_nop t t1 p Hn Ef) as [Hg Hb].
    split; cbn [set_flag defs buf]; [|exact Hb]. rewrite get_put_other; [exact Hg | exact Hm].
  - destruct (flush t) as [t1|] eqn:Ef; [|discriminate]. inversion H; subst. destruct (flush_nop t t1 p Hn Ef) as [Hg Hb].
    split; cbn [set_flag defs buf]; [|exact Hb]. rewrite get_put_other; [exact Hg | exact Hm].
  - destruct (flush t) as [t1|] eqn:Ef; [|discriminate]. inversion H; subst. destruct (flush_nop t t1 p Hn Ef) as [Hg Hb].
    split; cbn [set_flag defs buf]; [|exact Hb]. rewrite get_put_other; [exact Hg | exact Hm].
  - destruct (flush t) as [t1|] eqn:Ef; [|discriminate]. destruct ok; [|discriminate]. inversion H; subst.
    destruct (flush_nop t t1 p Hn Ef) as [Hg Hb]. split; assumption.
  - destruct (flush t) as [t1|] eqn:Ef; [|discriminate]. inversion H; subst.
    destruct (flush_nop t t1 p Hn Ef) as [Hg Hb]. split; assumption.
  - destruct (flush t); discriminate.
  - discriminate.
  - discriminate.
Qed.

Lemma stage_all_nop : forall is t t' p, nop t p -> forallb (fun i => negb (mentions p i)) is = true -> stage_all t is = inl t' -> nop t' p.
Proof.
  induction is as [|i is IH]; intros t t' p Hn Hm H; cbn [stage_all] in H.
  - eapply flush_nop; eassumption.
  - cbn [forallb] in Hm. apply andb_true_iff in Hm. destruct Hm as [Hi Hr]. apply negb_true_iff in Hi.
    destruct (stage t i) as [t1|] eqn:Es; [|discriminate]. eapply IH; [|exact Hr|exact H]. eapply stage_nop; eassumption.
Qed.

(** A predicate the text does not mention keeps its definition, whatever the outcome of the load. *)
Theorem load_untouched : forall db is db' e o p,
  load db is = (db', e, o) ->
  forallb (fun i => negb (mentions p i)) is = true ->
  get db' p = get db p.
Proof.
  intros db is db' e o p H Hm. unfold load in H. destruct (stage_all empty_t is) as [t|[e1 o1]] eqn:Es.
  - destruct (run_goals (goals t) (out t)) as [o2 e2]. inversion H; subst.
    rewrite commit_get by (eapply stage_all_nodupk; [|exact Es]; exact I).
    assert (Hn : nop empty_t p) by (split; [reflexivity | intros b []]).
    destruct (stage_all_nop is empty_t t p Hn Hm Es) as [Hg _]. rewrite Hg. reflexivity.
  - inversion H; subst. reflexivity.
Qed.

(** A load that got past staging: every predicate staged by the text gets exactly
    the text's clauses for it in source order -- appended to the old ones only if
    both the old and the new definition are multifile, replacing them otherwise. *)
Theorem load_source_order : forall db is db' e o p t u,
  load db is = (db', e, o) ->
  stage_all empty_t is = inl t -> get (defs t) p = Some u ->
  listing db' p =
    Some match get db p with
         | Some old => if u_multi old && u_multi u then u_cls old ++ ids_of p is else ids_of p is
         | None => ids_of p is
         end.
Proof.
  intros db is db' e o p t u H Es Hu. unfold load in H. rewrite Es in H.
  destruct (run_goals (goals t) (out t)) as [o2 e2]. inversion H; subst.
  unfold listing. rewrite commit_get by (eapply stage_all_nodupk; [|exact Es]; exact I).
  rewrite Hu. pose proof (staged_in_source_order is t p Es) as Hs. rewrite Hu in Hs.
  unfold merge. destruct (get db p) as [old|]; [destruct (u_multi old && u_multi u)|]; cbn [u_cls]; rewrite Hs; reflexivity.
Qed.

(** flags: dynamic / multifile / discontiguous of the committed definition *)
Theorem load_flags : forall db is db' e o p t u,
  load db is = (db', e, o) ->
  stage_all empty_t is = inl t -> get (defs t) p = Some u ->
  exists v, get db' p = Some v /\
    match get db p with
    | Some old => if u_multi old && u_multi u then u_dyn v = u_dyn old /\ u_multi v = true
                  else u_dyn v = u_dyn u /\ u_multi v = u_multi u
    | None => u_dyn v = u_dyn u /\ u_multi v = u_multi u
    end.
Proof.
  intros db is db' e o p t u H Es Hu. unfold load in H. rewrite Es in H.
  destruct (run_goals (goals t) (out t)) as [o2 e2]. inversion H; subst.
  rewrite commit_get by (eapply stage_all_nodupk; [|exact Es]; exact I). rewrite Hu.
  eexists. split; [reflexivity|]. unfold merge. destruct (get db p) as [old|]; [|split; reflexivity].
  destruct (u_multi old && u_multi u) eqn:E; cbn; [|split; reflexivity].
  apply andb_true_iff in E. destruct E as [E1 E2]. split; [reflexivity | exact E1].
Qed.

(** a predicate with at least one clause in the text is staged *)
Lemma ids_staged : forall is t p, stage_all empty_t is = inl t -> ids_of p is <> [] -> exists u, get (defs t) p = Some u.
Proof.
  intros is t p Es Hne. pose proof (staged_in_source_order is t p Es) as Hs.
  destruct (get (defs t) p) as [u|]; [exists u; reflexivity|]. rewrite <- Hs in Hne. congruence.
Qed.

(** interleaved clauses without a discontiguous declaration are rejected *)
Theorem discontiguous_rejected : forall db p q a b c,
  pi_eqb p q = false ->
  load db [IClause p a; IClause q b; IClause p c] = (db, Some (EDiscontiguous p), []).
Proof.
  intros db p q a b c Hne. assert (Hne' : pi_eqb q p = false) by (rewrite pi_eqb_sym; exact Hne).
  unfold load, flush. cbn. repeat (rewrite ?Hne, ?Hne', ?pi_eqb_refl; unfold flush; cbn). reflexivity.
Qed.

(** with the declaration the same text loads, in source order *)
Theorem discontiguous_declared : forall p q a b c,
  pi_eqb p q = false ->
  load [] [IDiscontiguous p; IClause p a; IClause q b; IClause p c]
  = ([(p, mkU false false true [a; c]); (q, mkU false false false [b])], None, []).
Proof.
  intros p q a b c Hne. assert (Hne' : pi_eqb q p = false) by (rewrite pi_eqb_sym; exact Hne).
  unfold load, flush, set_flag. cbn. repeat (rewrite ?Hne, ?Hne', ?pi_eqb_refl; unfold flush; cbn). reflexivity.
Qed.

(** directives write at their position, initialization goals after all of them *)
Fixpoint dir_toks (is : list item) : list Z :=
  match is with [] => [] | IDirective true tok :: r => tok :: dir_toks r | _ :: r => dir_toks r end.
Fixpoint init_goals (is : list item) : list (bool * Z) :=
  match is with [] => [] | IInit ok tok :: r => (ok, tok) :: init_goals r | _ :: r => init_goals r end.

Lemma flush_out t t' : flush t = inl t' -> out t' = out t /\ goals t' = goals t.
Proof.
  unfold flush. intros H. destruct (buf t) as [|[q id] r]; [inversion H; subst; split; reflexivity|].
  destruct (negb _ && negb _); [discriminate|]. inversion H; subst. split; reflexivity.
Qed.

Lemma stage_out t i t' : stage t i = inl t' ->
  out t' = out t ++ dir_toks [i] /\ goals t' = goals t ++ init_goals [i].
Proof.
  intros H. destruct i; cbn [stage] in H; cbn [dir_toks init_goals]; rewrite ?app_nil_r.
  - destruct (buf t) as [|[q id0] r].
    + inversion H; subst. split; reflexivity.
    + destruct (pi_eqb q p).
      * inversion H; subst. split; reflexivity.
      * destruct (flush t) as [t1|] eqn:Ef; [|discriminate]. inversion H; subst. cbn [out goals]. apply flush_out. exact Ef.
  - destruct (flush t) as [t1|] eqn:Ef; [|discriminate]. inversion H; subst. cbn [set_flag out goals]. apply flush_out. exact Ef.
  - destruct (flush t) as [t1|] eqn:Ef; [|discriminate]. inversion H; subst. cbn [set_flag out goals]. apply flush_out. exact Ef.
  - destruct (flush t) as [t1|] eqn:Ef; [|discriminate]. inversion H; subst. cbn [set_flag out goals]. apply flush_out. exact Ef.
  - destruct (flush t) as [t1|] eqn:Ef; [|discriminate]. destruct ok; [|discriminate]. inversion H; subst. cbn [out goals].
    destruct (flush_out t t1 Ef) as [-> ->]. split; reflexivity.
  - destruct (flush t) as [t1|] eqn:Ef; [|discriminate]. inversion H; subst. cbn [out goals].
    destruct (flush_out t t1 Ef) as [-> ->]. split; reflexivity.
  - destruct (flush t); discriminate.
  - discriminate.
  - discriminate.
Qed.

Lemma stage_all_out : forall is t t', stage_all t is = inl t' ->
  out t' = out t ++ dir_toks is /\ goals t' = goals t ++ init_goals is.
Proof.
  induction is as [|i is IH]; intros t t' H; cbn [stage_all] in H.
  - cbn. rewrite !app_nil_r. apply flush_out. exact H.
  - destruct (stage t i) as [t1|] eqn:Es; [|discriminate].
    destruct (stage_out t i t1 Es) as [Ho Hg]. destruct (IH t1 t' H) as [Ho' Hg'].
    rewrite Ho', Hg', Ho, Hg, <- !app_assoc. split; f_equal.
    + destruct i as [| | | |[|]| | | |]; reflexivity.
    + destruct i as [| | | |[|]| | | |]; reflexivity.
Qed.

Lemma run_goals_all_ok : forall gs o, forallb fst gs = true -> run_goals gs o = (o ++ map snd gs, None).
Proof.
  induction gs as [|[[|] tok] gs IH]; intros o H; cbn in *; [rewrite app_nil_r; reflexivity| |discriminate].
  rewrite IH by exact H. rewrite <- app_assoc. reflexivity.
Qed.

Theorem load_output_order : forall db is db' o,
  load db is = (db', None, o) -> o = dir_toks is ++ map snd (init_goals is).
Proof.
  intros db is db' o H. unfold load in H. destruct (stage_all empty_t is) as [t|[e1 o1]] eqn:Es; [|inversion H].
  destruct (stage_all_out is empty_t t Es) as [Ho Hg]. cbn in Ho, Hg. rewrite Ho, Hg in H.
  assert (Hok : forallb fst (init_goals is) = true).
  { destruct (forallb fst (init_goals is)) eqn:E; [reflexivity|]. exfalso.
    revert H. generalize (dir_toks is). clear -E. induction (init_goals is) as [|[[|] tok] gs IH]; cbn in *; intros o0 H.
    - discriminate.
    - eapply IH; [exact E | exact H].
    - destruct (commit db (defs t)); inversion H. }
  rewrite run_goals_all_ok in H by exact Hok. inversion H. reflexivity.
Qed.
