(** Executing the compiled head of a clause IS unifying the goal's arguments with
    the renamed head arguments.

    [run_get] is the Get-part of [exec] (Model/Machine.v: opGetConst, opGetVar,
    opGetFunctor, opPop of engine/vm.go) as a function of its own; [exec_get]
    shows that [exec] on a code that starts with Get instructions is [run_get]
    followed by [exec] on the rest.  [head_sem] then shows, for the code that
    [compile_head_arg] emits for ANY term t, any variable table, any goal
    argument, any env whose variables lie below the fresh-variable counter: the
    run has the solutions of  argument = t renamed by the activation's variable
    frame  -- in the solution-set sense of Proofs/Unify.v, the fresh variables of
    opGetFunctor being existentially quantified. *)
From Coq Require Import ZArith Bool List String FMapPositive Lia FinFun.
From PV Require Import Model.Term Model.Unify Model.Clause Model.Machine Proofs.Unify Proofs.UnifySound Proofs.Compile.
Import ListNotations.
Open Scope Z_scope.

Arguments resolve : simpl never.
Arguments contains_f : simpl never.
Arguments poisoned : simpl never.
Arguments lookup : simpl never.
Arguments bind : simpl never.
Arguments poison : simpl never.

(** ** variables below a bound *)
Definition tb (n : Z) (t : term) : Prop := forall u, occ u t -> u < n.
Definition eb (n : Z) (e : env) : Prop := forall v t, lookup e v = Some t -> v < n /\ tb n t.

Lemma tb_mono n m t : n <= m -> tb n t -> tb m t.
Proof. intros H Ht u Hu. specialize (Ht u Hu). lia. Qed.
Lemma eb_mono n m e : n <= m -> eb n e -> eb m e.
Proof. intros H He v t Hl. destruct (He v t Hl) as [A B]. split; [lia|eapply tb_mono; eassumption]. Qed.

Lemma tb_cmp n f args : tb n (Cmp f args) <-> Forall (tb n) args.
Proof.
  split.
  - intros H. apply Forall_forall. intros a Ha u Hu. apply H. econstructor; eassumption.
  - intros H u Hu. inversion Hu as [|g l a Ha Hua]; subst. rewrite Forall_forall in H. exact (H a Ha u Hua).
Qed.
Lemma tb_var n v : tb n (Var v) <-> v < n.
Proof. split; [intros H; apply H; constructor | intros H u Hu; inversion Hu; subst; exact H]. Qed.
Lemma tb_atomic n t : (forall v, t <> Var v) -> (forall f a, t <> Cmp f a) -> tb n t.
Proof. intros Hv Hc u Hu. inversion Hu; subst; [exfalso; eapply Hv; reflexivity | exfalso; eapply Hc; reflexivity]. Qed.

Lemma resolve_f_tb n e : eb n e -> forall f t, tb n t -> tb n (resolve_f f e t).
Proof.
  intros He. induction f as [|f IH]; intros t Ht; destruct t; cbn; try exact Ht.
  destruct (lookup e v) as [r|] eqn:Hl; [|exact Ht]. apply IH. exact (proj2 (He v r Hl)).
Qed.
Lemma resolve_tb n e t : eb n e -> tb n t -> tb n (resolve e t).
Proof. intros. unfold resolve. apply resolve_f_tb; assumption. Qed.

Lemma eb_bind n e v t : eb n e -> v < n -> tb n t -> eb n (bind e v t).
Proof.
  intros He Hv Ht w r Hl. destruct (Z.eq_dec v w) as [->|Hne].
  - rewrite lookup_bind_same in Hl. inversion Hl; subst. split; assumption.
  - rewrite lookup_bind_other in Hl by exact Hne. exact (He w r Hl).
Qed.
Lemma eb_poison n e : eb n e -> eb n (poison e).
Proof. intros He w r Hl. rewrite lookup_poison in Hl. exact (He w r Hl). Qed.

Ltac fin_eb :=
  repeat match goal with
  | H : UOk _ = UOk _ |- _ => inversion H; subst; clear H
  | H : UFail = UOk _ |- _ => discriminate H
  | H : UStuck = UOk _ |- _ => discriminate H
  | H : (if ?b then _ else _) = UOk _ |- _ => destruct b
  | H : match lookup ?e ?v with _ => _ end = UOk _ |- _ => destruct (lookup e v)
  end.

Lemma unify_args_eb n f oc :
  (forall e x y e', unify_f f oc e x y = UOk e' -> eb n e -> tb n x -> tb n y -> eb n e') ->
  forall l1 l2 e e', unify_args f oc e l1 l2 = UOk e' -> eb n e -> Forall (tb n) l1 -> Forall (tb n) l2 -> eb n e'.
Proof.
  intros IH. induction l1 as [|a l1 IHl]; intros l2 e e' H He H1 H2; destruct l2 as [|b l2]; cbn [unify_args] in H;
    try (inversion H; subst; exact He).
  inversion H1; subst. inversion H2; subst.
  destruct (unify_f f oc e a b) as [e1| |] eqn:Hu; try discriminate.
  pose proof (IH _ _ _ _ Hu He ltac:(assumption) ltac:(assumption)) as He1.
  destruct (poisoned e1); [inversion H; subst; exact He1|]. eapply IHl; eassumption.
Qed.

(** one step of [unify_f], with the argument loop named *)
Lemma unify_f_S f oc e x0 y0 :
  unify_f (S f) oc e x0 y0 =
  let x := resolve e x0 in
  let y := resolve e y0 in
  match x with
  | Var vx =>
      match lookup e vx with Some _ => UStuck | None =>
      match y with
      | Var vy => if Z.eqb vx vy then UOk e
                  else match lookup e vy with Some _ => UStuck | None => UOk (bind e vx y) end
      | Cmp _ _ => if contains_f (S f) e y vx then (if oc then UFail else UOk (poison e)) else UOk (bind e vx y)
      | _ => UOk (bind e vx y)
      end
      end
  | Cmp fx xs =>
      match y with
      | Var vy => match lookup e vy with Some _ => UStuck | None =>
                  if contains_f (S f) e x vy then (if oc then UFail else UOk (poison e)) else UOk (bind e vy x) end
      | Cmp fy ys =>
          if negb (String.eqb fx fy) then UFail
          else if negb (Nat.eqb (List.length xs) (List.length ys)) then UFail
          else unify_args f oc e xs ys
      | _ => UFail
      end
  | _ =>
      match y with
      | Var vy => match lookup e vy with Some _ => UStuck | None => UOk (bind e vy x) end
      | _ => if term_eqb x y then UOk e else UFail
      end
  end.
Proof.
  cbn [unify_f]. cbv zeta.
  destruct (resolve e x0) as [vx|ax|ix|fx|gx xs]; try reflexivity.
  destruct (resolve e y0) as [vy|ay|iy|fy|gy ys]; try reflexivity.
  rewrite args_loop_eq. reflexivity.
Qed.

(** unification only binds variables of the two terms and the env to sub-terms of them *)
Lemma unify_eb n : forall fuel oc e x y e', unify_f fuel oc e x y = UOk e' -> eb n e -> tb n x -> tb n y -> eb n e'.
Proof.
  induction fuel as [|f IH]; intros oc e x y e' H He Hx Hy; [discriminate|].
  rewrite unify_f_S in H. cbv zeta in H.
  pose proof (resolve_tb n e x He Hx) as Hx'. pose proof (resolve_tb n e y He Hy) as Hy'.
  revert H Hx' Hy'. generalize (resolve e x) as x'. generalize (resolve e y) as y'. intros y' x' H Hx' Hy'. clear x y Hx Hy.
  assert (Hb : forall v t, tb n (Var v) -> tb n t -> eb n (bind e v t))
    by (intros v t Hv Ht; apply eb_bind; [exact He | apply Hv; constructor | exact Ht]).
  pose proof (eb_poison n e He) as Hpo.
  destruct x' as [vx|ax|ix|fx|gx xs]; destruct y' as [vy|ay|iy|fy|gy ys]; fin_eb; auto.
  eapply unify_args_eb; try eassumption.
  - intros; eapply IH; eassumption.
  - apply tb_cmp in Hx'. exact Hx'.
  - apply tb_cmp in Hy'. exact Hy'.
Qed.

(** ** the Get instructions as a function *)
Inductive gres :=
| GDone (args : list term) (astack : list frame) (e : env) (nv : Z)
| GFail (nv : Z)      (* a unification failed: the clause does not match *)
| GStuck (nv : Z)     (* the model's unification ran out of fuel (exec: treated as failure) *)
| GPoison (nv : Z)    (* subject to occurs check: the run leaves the model's domain *)
| GBad.               (* not a Get code, or no argument left *)

Definition fresh_from (nv : Z) (n : nat) : list Z := map (fun i => nv + Z.of_nat i) (seq 0 n).

Fixpoint run_get (code : list instr) (vb : list Z) (args : list term) (astack : list frame) (e : env) (nv : Z) : gres :=
  match code with
  | [] => GDone args astack e nv
  | op :: code' =>
      let vr := fun i => Var (nth i vb 0) in
      match op with
      | IGetConst c =>
          match args with
          | a :: args' => match unify e a c with
                          | UOk e' => if poisoned e' then GPoison nv else run_get code' vb args' astack e' nv
                          | UFail => GFail nv
                          | UStuck => GStuck nv
                          end
          | [] => GBad
          end
      | IGetVar i =>
          match args with
          | a :: args' => match unify e a (vr i) with
                          | UOk e' => if poisoned e' then GPoison nv else run_get code' vb args' astack e' nv
                          | UFail => GFail nv
                          | UStuck => GStuck nv
                          end
          | [] => GBad
          end
      | IGetFunctor g n =>
          match args with
          | a :: args' =>
              let sub := map Var (fresh_from nv n) in
              let nv' := nv + Z.of_nat n in
              match unify e a (match sub with [] => Atom g | _ => Cmp g sub end) with
              | UOk e' => if poisoned e' then GPoison nv' else run_get code' vb sub (FGet args' :: astack) e' nv'
              | UFail => GFail nv'
              | UStuck => GStuck nv'
              end
          | [] => GBad
          end
      | IPop =>
          match astack with
          | FGet rest :: astack' => run_get code' vb rest astack' e nv
          | _ => GBad
          end
      | _ => GBad
      end
  end.

(** running a concatenation *)
Lemma run_get_app c1 : forall c2 vb args astack e nv,
  run_get (c1 ++ c2) vb args astack e nv =
  match run_get c1 vb args astack e nv with
  | GDone args' astack' e' nv' => run_get c2 vb args' astack' e' nv'
  | r => r
  end.
Proof.
  induction c1 as [|op c1 IH]; intros c2 vb args astack e nv; [reflexivity|].
  cbn [app run_get]. destruct op; try reflexivity.
  - destruct args as [|a args']; [reflexivity|]. destruct (unify e a c) as [e'| |]; try reflexivity.
    destruct (poisoned e'); [reflexivity|apply IH].
  - destruct args as [|a args']; [reflexivity|]. destruct (unify e a (Var (nth i vb 0))) as [e'| |]; try reflexivity.
    destruct (poisoned e'); [reflexivity|apply IH].
  - destruct args as [|a args']; [reflexivity|].
    destruct (unify e a _) as [e'| |]; try reflexivity.
    destruct (poisoned e'); [reflexivity|apply IH].
  - destruct astack as [|[rest|parent g] astack']; [reflexivity|apply IH|reflexivity].
Qed.

(** ** what the run means *)
(** the activation's renaming: clause variable number [v], at position [i] of the
    clause's variable table, is the [i]-th variable of the frame [vb] *)
Definition rho (cvs vb : list Z) : subst :=
  fun v => match index_of v cvs with Some i => Var (nth i vb 0) | None => Var v end.
Definition inst (cvs vb : list Z) (t : term) : term := apply (rho cvs vb) t.

(** Go compounds have at least one argument *)
Fixpoint wf_term (t : term) : bool :=
  match t with
  | Cmp _ args => negb (match args with [] => true | _ => false end) && forallb wf_term args
  | _ => true
  end.

Definition agree_below (nv : Z) (s s' : subst) : Prop := forall v, v < nv -> s' v = s v.
Definition vbb (nv : Z) (vb : list Z) : Prop := 0 < nv /\ Forall (fun z => z < nv) vb.

Record ok_spec (e e' : env) (nv nv' : Z) (xs ys : list term) : Prop := mk_ok {
  ok_nv : nv <= nv';
  ok_eb : eb nv' e';
  ok_np : poisoned e' = false;
  ok_sound : forall s, sat s e' -> sat s e /\ map (apply s) xs = map (apply s) ys;
  ok_complete : forall s, sat s e -> map (apply s) xs = map (apply s) ys ->
                exists s', agree_below nv s s' /\ sat s' e'
}.

Definition get_spec (c : list instr) (vb : list Z) (xs ys : list term) : Prop :=
  forall more astack e nv,
    eb nv e -> poisoned e = false -> Forall (tb nv) xs -> vbb nv vb ->
    match run_get c vb (xs ++ more) astack e nv with
    | GDone args' astack' e' nv' => args' = more /\ astack' = astack /\ ok_spec e e' nv nv' xs ys
    | GFail nv' => forall s, sat s e -> map (apply s) xs <> map (apply s) ys
    | GStuck _ | GPoison _ => True
    | GBad => False
    end.

Definition covers (cvs : list Z) (t : term) : Prop := forall u, occ u t -> index_of u cvs <> None.

(** *** small facts *)
Lemma index_of_app v l ext i : index_of v l = Some i -> index_of v (l ++ ext) = Some i.
Proof.
  revert i. induction l as [|w l IH]; intros i H; cbn in *; [discriminate|].
  destruct (Z.eqb v w); [exact H|]. destruct (index_of v l) as [j|]; cbn in H; [|discriminate].
  rewrite (IH j eq_refl). exact H.
Qed.
Lemma index_of_new v l : index_of v l = None -> index_of v (l ++ [v]) = Some (List.length l).
Proof.
  induction l as [|w l IH]; intros H; cbn in *; [rewrite Z.eqb_refl; reflexivity|].
  destruct (Z.eqb v w); [discriminate|]. destruct (index_of v l) as [j|]; cbn in H; [discriminate|].
  rewrite (IH eq_refl). reflexivity.
Qed.
Lemma var_offset_index cvs v cvs1 i ext : var_offset cvs v = (cvs1, i) -> index_of v (cvs1 ++ ext) = Some i.
Proof.
  unfold var_offset. destruct (index_of v cvs) as [j|] eqn:Hj; intros H; inversion H; subst.
  - apply index_of_app. exact Hj.
  - apply index_of_app. apply index_of_new. exact Hj.
Qed.

Lemma vbb_mono n m vb : n <= m -> vbb n vb -> vbb m vb.
Proof. intros H [H0 Hv]. split; [lia|]. eapply Forall_impl; [|exact Hv]. cbn. intros; lia. Qed.
Lemma vbb_nth n vb i : vbb n vb -> nth i vb 0 < n.
Proof.
  intros [H0 Hv]. destruct (Nat.lt_ge_cases i (List.length vb)) as [Hi|Hi].
  - rewrite Forall_forall in Hv. apply Hv. apply nth_In. exact Hi.
  - rewrite nth_overflow by exact Hi. exact H0.
Qed.

Lemma inst_tb cvs vb n t : covers cvs t -> vbb n vb -> tb n (inst cvs vb t).
Proof.
  intros Hc Hv u Hu. unfold inst in Hu. apply occ_apply in Hu as (w & Hw & Huw).
  unfold rho in Huw. specialize (Hc w Hw). destruct (index_of w cvs) as [i|]; [|congruence].
  inversion Huw; subst. apply vbb_nth. exact Hv.
Qed.

Lemma apply_below n s s' t : agree_below n s s' -> tb n t -> apply s' t = apply s t.
Proof. intros Ha Ht. apply apply_ext. intros u Hu. apply Ha. apply Ht. exact Hu. Qed.
Lemma map_apply_below n s s' l : agree_below n s s' -> Forall (tb n) l -> map (apply s') l = map (apply s) l.
Proof. intros Ha Hl. apply map_ext_Forall. eapply Forall_impl; [|exact Hl]. intros t Ht. eapply apply_below; eassumption. Qed.
Lemma sat_below n s s' e : agree_below n s s' -> eb n e -> sat s e -> sat s' e.
Proof.
  intros Ha He Hs v t Hl. destruct (He v t Hl) as [Hv Ht].
  rewrite (Ha v Hv), (apply_below n s s' t Ha Ht). exact (Hs v t Hl).
Qed.
Lemma agree_below_trans n m s s1 s2 : n <= m -> agree_below n s s1 -> agree_below m s1 s2 -> agree_below n s s2.
Proof. intros H A B v Hv. rewrite (B v ltac:(lia)). exact (A v Hv). Qed.
Lemma agree_below_sym n s s' : agree_below n s s' -> agree_below n s' s.
Proof. intros A v Hv. symmetry. exact (A v Hv). Qed.

(** one unification, in the vocabulary of [ok_spec] *)
Lemma unify_spec e a y nv :
  eb nv e -> tb nv a -> tb nv y ->
  match unify e a y with
  | UOk e' => poisoned e' = false -> ok_spec e e' nv nv [a] [y]
  | UFail => forall s, sat s e -> map (apply s) [a] <> map (apply s) [y]
  | UStuck => True
  end.
Proof.
  intros He Ha Hy. unfold unify. pose proof (unify_mgu UFUEL e a y) as Hm. pose proof (unify_eb nv UFUEL false e a y) as Hb.
  destruct (unify_f UFUEL false e a y) as [e'| |]; [| |exact I].
  - intros Hp. destruct (Hm Hp) as [_ Hiff]. constructor.
    + lia.
    + exact (Hb e' eq_refl He Ha Hy).
    + exact Hp.
    + intros s Hs. apply Hiff in Hs as [Hs Heq]. split; [exact Hs|]. cbn. rewrite Heq. reflexivity.
    + intros s Hs Heq. exists s. split; [intros v _; reflexivity|]. apply Hiff. split; [exact Hs|]. cbn in Heq. inversion Heq. reflexivity.
  - intros s Hs Heq. cbn in Heq. inversion Heq as [Heq']. exact (Hm s Hs Heq').
Qed.

(** overriding a substitution on the fresh variables [nv, nv + length vals) *)
Definition ov (s : subst) (nv : Z) (vals : list term) : subst :=
  fun v => if (nv <=? v) && (v <? nv + Z.of_nat (List.length vals)) then nth (Z.to_nat (v - nv)) vals (Var v) else s v.
Lemma ov_below s nv vals : agree_below nv s (ov s nv vals).
Proof. intros v Hv. unfold ov. destruct (Z.leb_spec nv v); [lia|reflexivity]. Qed.
Lemma map_nth_seq {A} (l : list A) d : map (fun i => nth i l d) (seq 0 (List.length l)) = l.
Proof. induction l as [|x l IH]; cbn; [reflexivity|]. f_equal. rewrite <- seq_shift, map_map. exact IH. Qed.
Lemma ov_fresh s nv vals :
  map (apply (ov s nv vals)) (map Var (fresh_from nv (List.length vals))) = vals.
Proof.
  unfold fresh_from. rewrite !map_map.
  transitivity (map (fun i => nth i vals (Var 0)) (seq 0 (List.length vals))); [|apply map_nth_seq].
  apply map_ext_in. intros i Hi. apply in_seq in Hi. cbn [apply]. unfold ov.
  destruct (Z.leb_spec nv (nv + Z.of_nat i)); [|lia]. destruct (Z.ltb_spec (nv + Z.of_nat i) (nv + Z.of_nat (List.length vals))); [|lia].
  cbn [andb]. replace (Z.to_nat (nv + Z.of_nat i - nv)) with i by lia. apply nth_indep. lia.
Qed.
Lemma fresh_tb nv n : Forall (tb (nv + Z.of_nat n)) (map Var (fresh_from nv n)).
Proof.
  unfold fresh_from. rewrite map_map. apply Forall_forall. intros t Ht. apply in_map_iff in Ht as (i & <- & Hi).
  apply in_seq in Hi. apply tb_var. lia.
Qed.
Lemma fresh_length nv n : List.length (map Var (fresh_from nv n)) = n.
Proof. unfold fresh_from. rewrite !map_length, seq_length. reflexivity. Qed.

(** ** the code emitted for a head argument *)
Definition head_sem (t : term) : Prop :=
  forall cvs cvs1 code, compile_head_arg t cvs = (cvs1, code) -> wf_term t = true ->
    forall ext, covers (cvs1 ++ ext) t /\ forall vb a, get_spec code vb [a] [inst (cvs1 ++ ext) vb t].

Lemma get_one_spec op vb a y :
  (forall args astack e nv,
     run_get [op] vb args astack e nv =
     match args with
     | a :: args' => match unify e a y with
                     | UOk e' => if poisoned e' then GPoison nv else GDone args' astack e' nv
                     | UFail => GFail nv
                     | UStuck => GStuck nv
                     end
     | [] => GBad
     end) ->
  (forall nv, vbb nv vb -> tb nv y) ->
  get_spec [op] vb [a] [y].
Proof.
  intros Hrun Hy more astack e nv He Hp Hxs Hvb. rewrite Hrun. cbn [app].
  inversion Hxs as [|? ? Ha _]; subst.
  pose proof (unify_spec e a y nv He Ha (Hy nv Hvb)) as Hu.
  destruct (unify e a y) as [e'| |]; [|exact Hu|exact I].
  destruct (poisoned e') eqn:Hp'; [exact I|]. split; [reflexivity|]. split; [reflexivity|]. exact (Hu eq_refl).
Qed.

Lemma ok_refl e nv : eb nv e -> poisoned e = false -> ok_spec e e nv nv [] [].
Proof.
  intros He Hp. constructor; [lia|exact He|exact Hp| |].
  - intros s Hs. split; [exact Hs|reflexivity].
  - intros s Hs _. exists s. split; [intros v _; reflexivity|exact Hs].
Qed.

Lemma ok_cons e e1 e2 nv nv1 nv2 x y xs ys :
  Forall (tb nv) xs -> Forall (tb nv) ys ->
  ok_spec e e1 nv nv1 [x] [y] -> ok_spec e1 e2 nv1 nv2 xs ys -> ok_spec e e2 nv nv2 (x :: xs) (y :: ys).
Proof.
  intros Hxs Hys O1 O2. constructor.
  - pose proof (ok_nv _ _ _ _ _ _ O1). pose proof (ok_nv _ _ _ _ _ _ O2). lia.
  - exact (ok_eb _ _ _ _ _ _ O2).
  - exact (ok_np _ _ _ _ _ _ O2).
  - intros s Hs. apply (ok_sound _ _ _ _ _ _ O2) in Hs as [Hs1 Heq2]. apply (ok_sound _ _ _ _ _ _ O1) in Hs1 as [Hs0 Heq1].
    split; [exact Hs0|]. cbn [map] in *. inversion Heq1 as [Heq1']. rewrite Heq1', Heq2. reflexivity.
  - intros s Hs Heq. cbn [map] in Heq. inversion Heq as [[H1 H2]].
    destruct (ok_complete _ _ _ _ _ _ O1 s Hs ltac:(cbn [map]; rewrite H1; reflexivity)) as (s1 & A1 & Hs1).
    assert (Heq' : map (apply s1) xs = map (apply s1) ys)
      by (rewrite (map_apply_below nv s s1 xs A1 Hxs), (map_apply_below nv s s1 ys A1 Hys); exact H2).
    destruct (ok_complete _ _ _ _ _ _ O2 s1 Hs1 Heq') as (s2 & A2 & Hs2).
    exists s2. split; [|exact Hs2]. eapply agree_below_trans; [exact (ok_nv _ _ _ _ _ _ O1)|exact A1|exact A2].
Qed.

Lemma fold_extends : forall ts cvs c0 cvs1 code,
  fold_left (fun acc a => let '(vs0, c0) := acc in let '(vs1, c1) := compile_head_arg a vs0 in (vs1, c0 ++ c1)) ts (cvs, c0) = (cvs1, code) ->
  exists ext0, cvs1 = cvs ++ ext0.
Proof.
  induction ts as [|t ts IH]; intros cvs c0 cvs1 code H; cbn [fold_left] in H.
  - inversion H; subst. exists []. rewrite app_nil_r. reflexivity.
  - destruct (compile_head_arg t cvs) as [cvsA cA] eqn:Hc. destruct (head_arg_extends _ _ _ _ Hc) as [e1 ->].
    destruct (IH _ _ _ _ H) as [e2 ->]. exists (e1 ++ e2). rewrite app_assoc. reflexivity.
Qed.

Lemma fold_sem : forall ts, Forall head_sem ts -> forallb wf_term ts = true ->
  forall cvs c0 cvs1 code,
    fold_left (fun acc a => let '(vs0, c0) := acc in let '(vs1, c1) := compile_head_arg a vs0 in (vs1, c0 ++ c1)) ts (cvs, c0) = (cvs1, code) ->
    exists code1, code = c0 ++ code1 /\
      forall ext, Forall (covers (cvs1 ++ ext)) ts /\
        forall vb xs, List.length xs = List.length ts -> get_spec code1 vb xs (map (inst (cvs1 ++ ext) vb) ts).
Proof.
  induction 1 as [|t ts Ht Hts IH]; intros Hwf cvs c0 cvs1 code Hf; cbn [fold_left] in Hf.
  - inversion Hf; subst. exists []. rewrite app_nil_r. split; [reflexivity|]. intros ext. split; [constructor|].
    intros vb xs Hlen. destruct xs; [|discriminate]. intros more astack e nv He Hp _ _. cbn.
    split; [reflexivity|]. split; [reflexivity|]. apply ok_refl; assumption.
  - cbn [forallb] in Hwf. apply andb_true_iff in Hwf as [Hwt Hwts].
    destruct (compile_head_arg t cvs) as [cvsA cA] eqn:Hc.
    destruct (fold_extends _ _ _ _ _ Hf) as [ext1 Hext1].
    destruct (IH Hwts _ _ _ _ Hf) as (code1' & -> & Hrest).
    exists (cA ++ code1'). split; [rewrite app_assoc; reflexivity|].
    intros ext. destruct (Hrest ext) as [Hcov Hspec].
    destruct (Ht cvs cvsA cA Hc Hwt (ext1 ++ ext)) as [Hcovt Hspect].
    rewrite app_assoc, <- Hext1 in Hcovt, Hspect.
    split; [constructor; assumption|].
    intros vb xs Hlen. destruct xs as [|x xs]; [discriminate|]. cbn [List.length] in Hlen. injection Hlen as Hlen.
    intros more astack e nv He Hp Hxs Hvb. pose proof (Forall_inv Hxs) as Hx. pose proof (Forall_inv_tail Hxs) as Hxs'.
    cbn [map]. rewrite run_get_app. change ((x :: xs) ++ more) with ([x] ++ (xs ++ more)).
    pose proof (Hspect vb x (xs ++ more) astack e nv He Hp ltac:(constructor; [exact Hx|constructor]) Hvb) as H1.
    destruct (run_get cA vb ([x] ++ xs ++ more) astack e nv) as [args' as' e1 nv1|nv1|nv1|nv1|]; try exact H1.
    + destruct H1 as (-> & -> & O1).
      pose proof (ok_nv _ _ _ _ _ _ O1) as Hnv1.
      assert (Hys : Forall (tb nv) (map (inst (cvs1 ++ ext) vb) ts)).
      { apply Forall_forall. intros y Hy. apply in_map_iff in Hy as (t0 & <- & Ht0).
        rewrite Forall_forall in Hcov. apply inst_tb; [exact (Hcov t0 Ht0)|exact Hvb]. }
      pose proof (Hspec vb xs Hlen more astack e1 nv1 (ok_eb _ _ _ _ _ _ O1) (ok_np _ _ _ _ _ _ O1)
                    ltac:(eapply Forall_impl; [|exact Hxs']; intros; eapply tb_mono; eassumption)
                    (vbb_mono _ _ _ Hnv1 Hvb)) as H2.
      destruct (run_get code1' vb (xs ++ more) astack e1 nv1) as [args2 as2 e2 nv2|nv2|nv2|nv2|]; try exact H2.
      * destruct H2 as (-> & -> & O2). split; [reflexivity|]. split; [reflexivity|].
        eapply ok_cons; eassumption.
      * intros s Hs Heq. cbn [map] in Heq. inversion Heq as [[E1 E2]].
        destruct (ok_complete _ _ _ _ _ _ O1 s Hs ltac:(cbn [map]; rewrite E1; reflexivity)) as (s1 & A1 & Hs1).
        apply (H2 s1 Hs1). rewrite (map_apply_below nv s s1 xs A1 Hxs'), (map_apply_below nv s s1 _ A1 Hys). exact E2.
    + intros s Hs Heq. cbn [map] in Heq. inversion Heq as [[E1 E2]]. apply (H1 s Hs). cbn [map]. rewrite E1. reflexivity.
Qed.

Lemma compile_cmp_eq g ts cvs :
  compile_head_arg (Cmp g ts) cvs =
  let '(cvs1, code) := fold_left (fun acc a => let '(vs0, c0) := acc in
                                              let '(vs1, c1) := compile_head_arg a vs0 in (vs1, c0 ++ c1)) ts (cvs, []) in
  (cvs1, IGetFunctor g (List.length ts) :: code ++ [IPop]).
Proof. reflexivity. Qed.

Lemma const_sem c : (forall v, c <> Var v) -> (forall f a, c <> Cmp f a) ->
  forall cvs, compile_head_arg c cvs = (cvs, [IGetConst c]) -> head_sem c.
Proof.
  intros Hv Hc cvs0 _ cvs cvs1 code Hcomp _ ext.
  assert (E : compile_head_arg c cvs = (cvs, [IGetConst c])) by (destruct c; try reflexivity; [exfalso; eapply Hv; reflexivity|exfalso; eapply Hc; reflexivity]).
  rewrite E in Hcomp. inversion Hcomp; subst. split.
  - intros u Hu. inversion Hu; subst; [exfalso; eapply Hv; reflexivity|exfalso; eapply Hc; reflexivity].
  - intros vb a. assert (Ei : inst (cvs1 ++ ext) vb c = c) by (destruct c; try reflexivity; [exfalso; eapply Hv; reflexivity|exfalso; eapply Hc; reflexivity]).
    rewrite Ei. apply get_one_spec; [reflexivity|]. intros nv _. apply tb_atomic; assumption.
Qed.

Theorem all_head_sem : forall t, head_sem t.
Proof.
  induction t as [v|a|z|b|g ts IH] using term_ind'.
  - (* a variable: opGetVar *)
    intros cvs cvs1 code Hcomp _ ext. cbn [compile_head_arg] in Hcomp.
    destruct (var_offset cvs v) as [cvs' i] eqn:Hv. inversion Hcomp; subst.
    pose proof (var_offset_index _ _ _ _ ext Hv) as Hi. split.
    + intros u Hu. inversion Hu; subst. rewrite Hi. discriminate.
    + intros vb a. assert (Ei : inst (cvs1 ++ ext) vb (Var v) = Var (nth i vb 0)) by (unfold inst, rho; cbn [apply]; rewrite Hi; reflexivity).
      rewrite Ei. apply get_one_spec; [reflexivity|]. intros nv Hvb. apply tb_var. apply vbb_nth. exact Hvb.
  - eapply const_sem with (cvs := []); [intros; discriminate|intros; discriminate|reflexivity].
  - eapply const_sem with (cvs := []); [intros; discriminate|intros; discriminate|reflexivity].
  - eapply const_sem with (cvs := []); [intros; discriminate|intros; discriminate|reflexivity].
  - (* a compound: opGetFunctor, the arguments, opPop *)
    intros cvs cvs1 code Hcomp Hwf ext. rewrite compile_cmp_eq in Hcomp.
    destruct (fold_left _ ts (cvs, [])) as [cvsF codeF] eqn:Hf. inversion Hcomp; subst cvs1 code. clear Hcomp.
    cbn [wf_term] in Hwf. apply andb_true_iff in Hwf as [Hne Hwts].
    destruct (fold_sem ts IH Hwts _ _ _ _ Hf) as (code1 & Hcode & Hrest). cbn [app] in Hcode. subst codeF.
    destruct (Hrest ext) as [Hcov Hspec]. split.
    + intros u Hu. inversion Hu as [|g' l a0 Ha0 Hua0]; subst. rewrite Forall_forall in Hcov. exact (Hcov a0 Ha0 u Hua0).
    + intros vb a more astack e nv He Hp Hxs Hvb. pose proof (Forall_inv Hxs) as Ha.
      set (n := List.length ts). set (sub := map Var (fresh_from nv n)). set (nv' := nv + Z.of_nat n).
      set (ys := map (inst (cvsF ++ ext) vb) ts).
      assert (Ei : inst (cvsF ++ ext) vb (Cmp g ts) = Cmp g ys) by reflexivity. rewrite Ei.
      assert (Hsubne : sub <> []).
      { unfold sub, fresh_from, n. destruct ts; [discriminate Hne|]. cbn. discriminate. }
      assert (Hpat : (match sub with [] => Atom g | _ => Cmp g sub end) = Cmp g sub) by (destruct sub; [congruence|reflexivity]).
      assert (Hnv : nv <= nv') by (unfold nv'; lia).
      assert (Hsubtb : Forall (tb nv') sub) by apply fresh_tb.
      assert (Hystb : Forall (tb nv) ys).
      { apply Forall_forall. intros y Hy. apply in_map_iff in Hy as (t0 & <- & Ht0).
        rewrite Forall_forall in Hcov. apply inst_tb; [exact (Hcov t0 Ht0)|exact Hvb]. }
      assert (Hlen : List.length ys = n) by (unfold ys; apply map_length).
      (* a solution of the goal equation extends to the fresh variables *)
      assert (Hext : forall s, sat s e -> apply s a = apply s (Cmp g ys) ->
                exists s1, agree_below nv s s1 /\ sat s1 e /\ apply s1 a = apply s1 (Cmp g sub) /\ map (apply s1) sub = map (apply s1) ys).
      { intros s Hs Heq. set (vals := map (apply s) ys). exists (ov s nv vals).
        pose proof (ov_below s nv vals) as Hb.
        assert (Hsub : map (apply (ov s nv vals)) sub = vals).
        { unfold sub. replace n with (List.length vals) by (unfold vals; rewrite map_length; exact Hlen). apply ov_fresh. }
        split; [exact Hb|]. split; [eapply sat_below; eassumption|]. split.
        - rewrite (apply_below nv s _ a Hb Ha), Heq. cbn [apply]. rewrite Hsub. reflexivity.
        - rewrite Hsub. unfold vals. symmetry. eapply map_apply_below; eassumption. }
      cbn [app run_get]. fold sub. fold nv'. rewrite Hpat.
      pose proof (unify_spec e a (Cmp g sub) nv' (eb_mono _ _ _ Hnv He) (tb_mono _ _ _ Hnv Ha) (proj2 (tb_cmp nv' g sub) Hsubtb)) as Hu.
      destruct (unify e a (Cmp g sub)) as [e1| |]; [| |exact I].
      * destruct (poisoned e1) eqn:Hp1; [exact I|]. specialize (Hu eq_refl).
        rewrite run_get_app.
        pose proof (Hspec vb sub ltac:(unfold sub; rewrite fresh_length; reflexivity) [] (FGet more :: astack) e1 nv'
                      (ok_eb _ _ _ _ _ _ Hu) Hp1 Hsubtb (vbb_mono _ _ _ Hnv Hvb)) as H2.
        rewrite app_nil_r in H2. fold ys in H2.
        destruct (run_get code1 vb sub (FGet more :: astack) e1 nv') as [args2 as2 e2 nv2|nv2|nv2|nv2|]; try exact H2.
        -- destruct H2 as (-> & -> & O2). cbn [run_get]. split; [reflexivity|]. split; [reflexivity|]. constructor.
           ++ pose proof (ok_nv _ _ _ _ _ _ O2). lia.
           ++ exact (ok_eb _ _ _ _ _ _ O2).
           ++ exact (ok_np _ _ _ _ _ _ O2).
           ++ intros s Hs. apply (ok_sound _ _ _ _ _ _ O2) in Hs as [Hs1 Heq2].
              apply (ok_sound _ _ _ _ _ _ Hu) in Hs1 as [Hs0 Heq1]. split; [exact Hs0|].
              cbn [map] in Heq1 |- *. inversion Heq1 as [Heq1']. rewrite Heq1'. cbn [apply]. rewrite Heq2. reflexivity.
           ++ intros s Hs Heq. cbn [map] in Heq. inversion Heq as [Heq'].
              destruct (Hext s Hs Heq') as (s1 & A1 & Hs1 & Ea & Es).
              destruct (ok_complete _ _ _ _ _ _ Hu s1 Hs1 ltac:(cbn [map]; rewrite Ea; reflexivity)) as (s1' & A1' & Hs1').
              assert (Es' : map (apply s1') sub = map (apply s1') ys).
              { rewrite (map_apply_below nv' s1 s1' sub A1' Hsubtb).
                rewrite (map_apply_below nv' s1 s1' ys A1' ltac:(eapply Forall_impl; [|exact Hystb]; intros; eapply tb_mono; eassumption)). exact Es. }
              destruct (ok_complete _ _ _ _ _ _ O2 s1' Hs1' Es') as (s2 & A2 & Hs2).
              exists s2. split; [|exact Hs2].
              eapply agree_below_trans; [exact Hnv|exact A1|]. eapply agree_below_trans; [apply Z.le_refl|exact A1'|exact A2].
        -- intros s Hs Heq. cbn [map] in Heq. inversion Heq as [Heq'].
           destruct (Hext s Hs Heq') as (s1 & A1 & Hs1 & Ea & Es).
           destruct (ok_complete _ _ _ _ _ _ Hu s1 Hs1 ltac:(cbn [map]; rewrite Ea; reflexivity)) as (s1' & A1' & Hs1').
           apply (H2 s1' Hs1').
           rewrite (map_apply_below nv' s1 s1' sub A1' Hsubtb).
           rewrite (map_apply_below nv' s1 s1' ys A1' ltac:(eapply Forall_impl; [|exact Hystb]; intros; eapply tb_mono; eassumption)). exact Es.
      * intros s Hs Heq. cbn [map] in Heq. inversion Heq as [Heq'].
        destruct (Hext s Hs Heq') as (s1 & A1 & Hs1 & Ea & Es).
        apply (Hu s1 Hs1). cbn [map]. rewrite Ea. reflexivity.
Qed.

(** ** [exec] on Get instructions is [run_get] *)
Definition bump (st : state) (nv : Z) : state :=
  mkSt nv (s_nextid st) (s_db st) (s_answers st) (s_limit st) (s_qvars st) (s_collect st) (s_deleted st) (s_polls st).
Lemma bump_same st : bump st (s_nextv st) = st.
Proof. destruct st; reflexivity. Qed.
Lemma bump_bump st a b : bump (bump st a) b = bump st b.
Proof. reflexivity. Qed.
Lemma fresh_vars_eq n st : fresh_vars n st = (fresh_from (s_nextv st) n, bump st (s_nextv st + Z.of_nat n)).
Proof. reflexivity. Qed.

Section ExecGet.
  Variables (vs : list Z) (k : cont) (cutp : Z).

  Lemma exec_poisoned f pc args astack e st : poisoned e = true -> exec f pc vs k args astack e cutp st = (PErr EFuel, st).
  Proof. intros Hp. destruct f as [|f]; [reflexivity|]. cbn [exec]. rewrite Hp. reflexivity. Qed.

  Lemma exec_getconst f c pc args astack e st : poisoned e = false ->
    exec (S f) (IGetConst c :: pc) vs k args astack e cutp st =
    match args with
    | a :: args' => match unify e a c with
                    | UOk e' => exec f pc vs k args' astack e' cutp st
                    | _ => (PBool false, st)
                    end
    | [] => (PErr (EPanic "index out of range"), st)
    end.
  Proof. intros Hp. cbn [exec]. rewrite Hp. reflexivity. Qed.

  Lemma exec_getvar f i pc args astack e st : poisoned e = false ->
    exec (S f) (IGetVar i :: pc) vs k args astack e cutp st =
    match args with
    | a :: args' => match unify e a (Var (nth i vs 0)) with
                    | UOk e' => exec f pc vs k args' astack e' cutp st
                    | _ => (PBool false, st)
                    end
    | [] => (PErr (EPanic "index out of range"), st)
    end.
  Proof. intros Hp. cbn [exec]. rewrite Hp. reflexivity. Qed.

  Lemma exec_getfunctor f g n pc args astack e st : poisoned e = false ->
    exec (S f) (IGetFunctor g n :: pc) vs k args astack e cutp st =
    match args with
    | a :: args' =>
        let sub := map Var (fresh_from (s_nextv st) n) in
        let st' := bump st (s_nextv st + Z.of_nat n) in
        match unify e a (match sub with [] => Atom g | _ => Cmp g sub end) with
        | UOk e' => exec f pc vs k sub (FGet args' :: astack) e' cutp st'
        | _ => (PBool false, st')
        end
    | [] => (PErr (EPanic "index out of range"), st)
    end.
  Proof. intros Hp. cbn [exec]. rewrite Hp. reflexivity. Qed.

  Lemma exec_pop f pc args astack e st : poisoned e = false ->
    exec (S f) (IPop :: pc) vs k args astack e cutp st =
    match astack with
    | FGet rest :: astack' => exec f pc vs k rest astack' e cutp st
    | FPut parent g :: astack' => exec f pc vs k (parent ++ [Cmp g args]) astack' e cutp st
    | [] => (PErr (EPanic "index out of range"), st)
    end.
  Proof. intros Hp. cbn [exec]. rewrite Hp. reflexivity. Qed.

  (** the machine, on a code that begins with Get instructions: what [run_get]
      says, then the machine on the rest; one unit of fuel per instruction *)
  Theorem exec_get : forall code f rest args astack e st,
    poisoned e = false ->
    match run_get code vs args astack e (s_nextv st) with
    | GDone args' astack' e' nv' =>
        exec (List.length code + f) (code ++ rest) vs k args astack e cutp st = exec f rest vs k args' astack' e' cutp (bump st nv')
    | GFail nv' | GStuck nv' =>
        exec (List.length code + f) (code ++ rest) vs k args astack e cutp st = (PBool false, bump st nv')
    | GPoison nv' =>
        exec (List.length code + f) (code ++ rest) vs k args astack e cutp st = (PErr EFuel, bump st nv')
    | GBad => True
    end.
  Proof.
    induction code as [|op code IH]; intros f rest args astack e st Hp.
    - cbn [run_get List.length app Nat.add]. rewrite bump_same. reflexivity.
    - cbn [run_get List.length app Nat.add]. destruct op; try exact I.
      + (* opGetConst *)
        destruct args as [|a args']; [exact I|]. rewrite exec_getconst by exact Hp.
        destruct (unify e a c) as [e'| |]; [|rewrite bump_same; reflexivity|rewrite bump_same; reflexivity].
        destruct (poisoned e') eqn:Hp'; [rewrite bump_same; apply exec_poisoned; exact Hp'|]. apply IH. exact Hp'.
      + (* opGetVar *)
        destruct args as [|a args']; [exact I|]. rewrite exec_getvar by exact Hp.
        destruct (unify e a (Var (nth i vs 0))) as [e'| |]; [|rewrite bump_same; reflexivity|rewrite bump_same; reflexivity].
        destruct (poisoned e') eqn:Hp'; [rewrite bump_same; apply exec_poisoned; exact Hp'|]. apply IH. exact Hp'.
      + (* opGetFunctor *)
        destruct args as [|a args']; [exact I|]. rewrite exec_getfunctor by exact Hp. cbv zeta.
        destruct (unify e a _) as [e'| |]; [|reflexivity|reflexivity].
        destruct (poisoned e') eqn:Hp'; [apply exec_poisoned; exact Hp'|].
        specialize (IH f rest (map Var (fresh_from (s_nextv st) n)) (FGet args' :: astack) e' (bump st (s_nextv st + Z.of_nat n)) Hp').
        cbn [bump s_nextv] in IH. exact IH.
      + (* opPop *)
        rewrite exec_pop by exact Hp. destruct astack as [|[rest'|parent g] astack']; try exact I. apply IH. exact Hp.
  Qed.
End ExecGet.

(** ** a clause activation: the head code against the goal's arguments *)
Lemma fresh_from_apart nv n : NoDup (fresh_from nv n) /\ Forall (fun z => nv <= z < nv + Z.of_nat n) (fresh_from nv n).
Proof.
  unfold fresh_from. split.
  - apply FinFun.Injective_map_NoDup; [intros i j H; lia|apply seq_NoDup].
  - apply Forall_forall. intros z Hz. apply in_map_iff in Hz as (i & <- & Hi). apply in_seq in Hi. lia.
Qed.

Lemma fresh_vbb nv n : 0 < nv -> vbb (nv + Z.of_nat n) (fresh_from nv n).
Proof.
  intros H0. split; [lia|]. eapply Forall_impl; [|exact (proj2 (fresh_from_apart nv n))]. cbn. intros; lia.
Qed.

Theorem clause_head_is_unification :
  forall name hargs cvsH hc, compile_head (Cmp name hargs) = (cvsH, hc) -> forallb wf_term hargs = true ->
  forall (c : clause) ext rest, c_vars c = cvsH ++ ext -> c_code c = hc ++ rest ->
  forall f gargs k e pid st,
    List.length gargs = List.length hargs ->
    0 < s_nextv st -> eb (s_nextv st) e -> poisoned e = false -> Forall (tb (s_nextv st)) gargs ->
    let vb := fresh_from (s_nextv st) (List.length (c_vars c)) in
    let nv := s_nextv st + Z.of_nat (List.length (c_vars c)) in
    let head := map (inst (c_vars c) vb) hargs in
    match run_get hc vb gargs [] e nv with
    | GDone args' astack' e' nv' =>
        ok_spec e e' nv nv' gargs head /\
        run_thunk (S (List.length hc + f)) (ThClause c gargs k e pid) st = exec f rest vb k [] [] e' pid (bump st nv')
    | GFail nv' =>
        (forall s, sat s e -> map (apply s) gargs <> map (apply s) head) /\
        run_thunk (S (List.length hc + f)) (ThClause c gargs k e pid) st = (PBool false, bump st nv')
    | GStuck _ | GPoison _ => True
    | GBad => False
    end.
Proof.
  intros name hargs cvsH hc Hcomp Hwf c ext rest Hvars Hcode f gargs k e pid st Hlen H0 He Hp Hg vb nv head.
  unfold compile_head in Hcomp.
  destruct (fold_sem hargs ltac:(apply Forall_forall; intros; apply all_head_sem) Hwf _ _ _ _ Hcomp) as (code1 & Hc1 & Hrest).
  cbn [app] in Hc1. subst code1.
  destruct (Hrest ext) as [_ Hspec]. rewrite <- Hvars in Hspec.
  assert (Hnv : s_nextv st <= nv) by (unfold nv; lia).
  pose proof (Hspec vb gargs Hlen [] [] e nv (eb_mono _ _ _ Hnv He) Hp
                ltac:(eapply Forall_impl; [|exact Hg]; intros; eapply tb_mono; eassumption)
                (fresh_vbb _ _ H0)) as H1.
  rewrite app_nil_r in H1. fold head in H1.
  assert (Hrun : run_thunk (S (List.length hc + f)) (ThClause c gargs k e pid) st
                 = exec (List.length hc + f) (hc ++ rest) vb k gargs [] e pid (bump st nv)).
  { cbn [run_thunk]. rewrite fresh_vars_eq, Hcode. reflexivity. }
  pose proof (exec_get vb k pid hc f rest gargs [] e (bump st nv) Hp) as H2. cbn [bump s_nextv] in H2.
  destruct (run_get hc vb gargs [] e nv) as [args' as' e' nv'|nv'|nv'|nv'|]; try exact H1.
  - destruct H1 as (-> & -> & O). split; [exact O|]. rewrite Hrun. exact H2.
  - split; [exact H1|]. rewrite Hrun. exact H2.
Qed.

Corollary head_arg_get_spec :
  forall t cvs cvs1 code, compile_head_arg t cvs = (cvs1, code) -> wf_term t = true ->
    forall ext vb a, get_spec code vb [a] [inst (cvs1 ++ ext) vb t].
Proof. intros t cvs cvs1 code H Hw ext vb a. exact (proj2 (all_head_sem t cvs cvs1 code H Hw ext) vb a). Qed.

(** ** body goals: the Put instructions build the renamed arguments, opCall calls *)
Fixpoint run_put (code : list instr) (vb : list Z) (args : list term) (astack : list frame) : option (list term * list frame) :=
  match code with
  | [] => Some (args, astack)
  | op :: code' =>
      match op with
      | IPutConst c => run_put code' vb (args ++ [c]) astack
      | IPutVar i => run_put code' vb (args ++ [Var (nth i vb 0)]) astack
      | IPutFunctor g n => run_put code' vb [] (FPut args g :: astack)
      | IPop => match astack with
                | FPut parent g :: astack' => run_put code' vb (parent ++ [Cmp g args]) astack'
                | _ => None
                end
      | _ => None
      end
  end.

Lemma run_put_app c1 : forall c2 vb args astack,
  run_put (c1 ++ c2) vb args astack =
  match run_put c1 vb args astack with Some (args', astack') => run_put c2 vb args' astack' | None => None end.
Proof.
  induction c1 as [|op c1 IH]; intros c2 vb args astack; [reflexivity|].
  cbn [app run_put]. destruct op; try reflexivity; try apply IH.
  destruct astack as [|[rest|parent g] astack']; try reflexivity. apply IH.
Qed.

Definition body_sem (t : term) : Prop :=
  forall cvs cvs1 code, compile_body_arg t cvs = (cvs1, code) ->
    forall ext vb args astack, run_put code vb args astack = Some (args ++ [inst (cvs1 ++ ext) vb t], astack).

Lemma body_arg_extends t cvs cvs1 code : compile_body_arg t cvs = (cvs1, code) -> exists ext, cvs1 = cvs ++ ext.
Proof. intros H. destruct (body_all_good t cvs cvs1 code H) as [He _]. exact He. Qed.

Lemma body_fold_extends : forall ts cvs c0 cvs1 code,
  fold_left (fun acc a => let '(vs0, c0) := acc in let '(vs1, c1) := compile_body_arg a vs0 in (vs1, c0 ++ c1)) ts (cvs, c0) = (cvs1, code) ->
  exists ext0, cvs1 = cvs ++ ext0.
Proof.
  induction ts as [|t ts IH]; intros cvs c0 cvs1 code H; cbn [fold_left] in H.
  - inversion H; subst. exists []. rewrite app_nil_r. reflexivity.
  - destruct (compile_body_arg t cvs) as [cvsA cA] eqn:Hc. destruct (body_arg_extends _ _ _ _ Hc) as [e1 ->].
    destruct (IH _ _ _ _ H) as [e2 ->]. exists (e1 ++ e2). rewrite app_assoc. reflexivity.
Qed.

Lemma body_fold_sem : forall ts, Forall body_sem ts ->
  forall cvs c0 cvs1 code,
    fold_left (fun acc a => let '(vs0, c0) := acc in let '(vs1, c1) := compile_body_arg a vs0 in (vs1, c0 ++ c1)) ts (cvs, c0) = (cvs1, code) ->
    exists code1, code = c0 ++ code1 /\
      forall ext vb args astack, run_put code1 vb args astack = Some (args ++ map (inst (cvs1 ++ ext) vb) ts, astack).
Proof.
  induction 1 as [|t ts Ht Hts IH]; intros cvs c0 cvs1 code Hf; cbn [fold_left] in Hf.
  - inversion Hf; subst. exists []. rewrite app_nil_r. split; [reflexivity|]. intros. cbn. rewrite app_nil_r. reflexivity.
  - destruct (compile_body_arg t cvs) as [cvsA cA] eqn:Hc.
    destruct (body_fold_extends _ _ _ _ _ Hf) as [ext1 Hext1].
    destruct (IH _ _ _ _ Hf) as (code1' & -> & Hrest).
    exists (cA ++ code1'). split; [rewrite app_assoc; reflexivity|].
    intros ext vb args astack. rewrite run_put_app.
    pose proof (Ht cvs cvsA cA Hc (ext1 ++ ext) vb args astack) as H1. rewrite app_assoc, <- Hext1 in H1. rewrite H1.
    rewrite (Hrest ext). cbn [map]. rewrite <- app_assoc. reflexivity.
Qed.

Lemma compile_body_cmp_eq g ts cvs :
  compile_body_arg (Cmp g ts) cvs =
  let '(cvs1, code) := fold_left (fun acc a => let '(vs0, c0) := acc in
                                              let '(vs1, c1) := compile_body_arg a vs0 in (vs1, c0 ++ c1)) ts (cvs, []) in
  (cvs1, IPutFunctor g (List.length ts) :: code ++ [IPop]).
Proof. reflexivity. Qed.

Theorem all_body_sem : forall t, body_sem t.
Proof.
  induction t as [v|a|z|b|g ts IH] using term_ind'; intros cvs cvs1 code Hcomp ext vb args astack.
  - cbn [compile_body_arg] in Hcomp. destruct (var_offset cvs v) as [cvs' i] eqn:Hv. inversion Hcomp; subst.
    unfold inst, rho. cbn [apply run_put]. rewrite (var_offset_index _ _ _ _ ext Hv). reflexivity.
  - inversion Hcomp; subst. reflexivity.
  - inversion Hcomp; subst. reflexivity.
  - inversion Hcomp; subst. reflexivity.
  - rewrite compile_body_cmp_eq in Hcomp. destruct (fold_left _ ts (cvs, [])) as [cvsF codeF] eqn:Hf.
    inversion Hcomp; subst cvs1 code. clear Hcomp.
    destruct (body_fold_sem ts IH _ _ _ _ Hf) as (code1 & Hcode & Hrest). cbn [app] in Hcode. subst codeF.
    cbn [run_put]. rewrite run_put_app, (Hrest ext). cbn [app run_put]. reflexivity.
Qed.

Section ExecPut.
  Variables (vs : list Z) (k : cont) (cutp : Z).

  Lemma exec_put_step f op pc args astack e st : poisoned e = false ->
    match op with
    | IPutConst c => exec (S f) (op :: pc) vs k args astack e cutp st = exec f pc vs k (args ++ [c]) astack e cutp st
    | IPutVar i => exec (S f) (op :: pc) vs k args astack e cutp st = exec f pc vs k (args ++ [Var (nth i vs 0)]) astack e cutp st
    | IPutFunctor g n => exec (S f) (op :: pc) vs k args astack e cutp st = exec f pc vs k [] (FPut args g :: astack) e cutp st
    | ICall g n => exec (S f) (op :: pc) vs k args astack e cutp st = arrive f g args (KExec pc vs k cutp) e st
    | _ => True
    end.
  Proof. intros Hp. destruct op; try exact I; cbn [exec]; rewrite Hp; reflexivity. Qed.

  Theorem exec_put : forall code f rest args astack e st,
    poisoned e = false ->
    match run_put code vs args astack with
    | Some (args', astack') =>
        exec (List.length code + f) (code ++ rest) vs k args astack e cutp st = exec f rest vs k args' astack' e cutp st
    | None => True
    end.
  Proof.
    induction code as [|op code IH]; intros f rest args astack e st Hp; [reflexivity|].
    cbn [run_put List.length app Nat.add]. pose proof (exec_put_step (List.length code + f) op (code ++ rest) args astack e st Hp) as Hs.
    destruct op; try exact I.
    - rewrite Hs. apply IH. exact Hp.
    - rewrite Hs. apply IH. exact Hp.
    - rewrite Hs. apply IH. exact Hp.
    - rewrite exec_pop by exact Hp. destruct astack as [|[rest'|parent g] astack']; try exact I. apply IH. exact Hp.
  Qed.

  (** a body goal that is not a control construct compiled in line: the machine
      arrives at the goal's predicate with the goal's arguments renamed by the
      frame, and the rest of the clause as continuation *)
  Theorem body_goal_is_call :
    forall g cvs cvs1 pcode, compile_pred1 g cvs = Some (cvs1, pcode) -> g <> Atom "!" ->
    forall ext f rest e st, poisoned e = false ->
      exec (List.length pcode + f) (pcode ++ rest) vs k [] [] e cutp st =
      match g with
      | Var v => arrive f "call" [inst (cvs1 ++ ext) vs g] (KExec rest vs k cutp) e st
      | Atom a => arrive f a [] (KExec rest vs k cutp) e st
      | Cmp name gargs => arrive f name (map (inst (cvs1 ++ ext) vs) gargs) (KExec rest vs k cutp) e st
      | _ => (PErr EFuel, st)
      end.
  Proof.
    intros g cvs cvs1 pcode Hcomp Hcut ext f rest e st Hp. destruct g as [v|a|z|b|name gargs]; cbn [compile_pred1] in Hcomp; try discriminate.
    - (* a variable goal: call(V) *)
      destruct (compile_body_arg (Var v) cvs) as [cvs' c] eqn:Hc. inversion Hcomp; subst cvs1 pcode. clear Hcomp.
      pose proof (all_body_sem (Var v) cvs cvs' c Hc ext vs [] []) as Hr.
      pose proof (exec_put c (S f) (ICall "call" 1 :: rest) [] [] e st Hp) as He. rewrite Hr in He.
      rewrite <- app_assoc, app_length. cbn [List.length app]. rewrite <- Nat.add_assoc. cbn [Nat.add]. rewrite He.
      pose proof (exec_put_step f (ICall "call" 1) rest ([] ++ [inst (cvs' ++ ext) vs (Var v)]) [] e st Hp) as Hs. cbn beta iota in Hs. exact Hs.
    - destruct (String.eqb_spec a "!") as [->|Hne]; [congruence|]. inversion Hcomp; subst cvs1 pcode.
      cbn [List.length app Nat.add]. exact (exec_put_step f (ICall a 0) rest [] [] e st Hp).
    - destruct (fold_left _ gargs (cvs, [])) as [cvsF codeF] eqn:Hf. inversion Hcomp; subst cvs1 pcode. clear Hcomp.
      destruct (body_fold_sem gargs ltac:(apply Forall_forall; intros; apply all_body_sem) _ _ _ _ Hf) as (code1 & Hcode & Hrest).
      cbn [app] in Hcode. subst codeF.
      pose proof (exec_put code1 (S f) (ICall name (List.length gargs) :: rest) [] [] e st Hp) as He. rewrite (Hrest ext vs [] []) in He.
      rewrite <- app_assoc, app_length. cbn [List.length app]. rewrite <- Nat.add_assoc. cbn [Nat.add]. rewrite He.
      exact (exec_put_step f (ICall name (List.length gargs)) rest ([] ++ map (inst (cvsF ++ ext) vs) gargs) [] e st Hp).
  Qed.
End ExecPut.
