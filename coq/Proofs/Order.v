(** The standard order of terms (Compare methods of the engine, Model/Order.v)
    is a total order on resolved terms: reflexive, antisymmetric, transitive;
    Var < Float < Integer < Atom < Compound; compounds by arity, name, arguments. *)
From Coq Require Import ZArith Bool List String Ascii Lia.
From PV Require Import Model.Term Model.Unify Model.Order.
Import ListNotations.
Open Scope Z_scope.

(** ---- strings (strings.Compare) ---------------------------------------------- *)

Lemma str_cmp_refl a : str_cmp a a = Eq.
Proof. induction a as [|c a IH]; cbn; [reflexivity|]. rewrite Nat.compare_refl. exact IH. Qed.

Lemma nat_of_ascii_inj x y : nat_of_ascii x = nat_of_ascii y -> x = y.
Proof. intros H. rewrite <- (ascii_nat_embedding x), <- (ascii_nat_embedding y), H. reflexivity. Qed.

Lemma str_cmp_eq a b : str_cmp a b = Eq -> a = b.
Proof.
  revert b. induction a as [|c a IH]; intros [|d b]; cbn; try discriminate; [reflexivity|].
  destruct (Nat.compare_spec (nat_of_ascii c) (nat_of_ascii d)) as [E|E|E]; try discriminate.
  intros H. apply nat_of_ascii_inj in E. subst. f_equal. apply IH. exact H.
Qed.

Lemma str_cmp_antisym a b : str_cmp b a = CompOpp (str_cmp a b).
Proof.
  revert b. induction a as [|c a IH]; intros [|d b]; cbn; try reflexivity.
  rewrite (Nat.compare_antisym (nat_of_ascii c) (nat_of_ascii d)).
  destruct (Nat.compare (nat_of_ascii c) (nat_of_ascii d)); cbn; [apply IH|reflexivity|reflexivity].
Qed.

Lemma str_cmp_trans_lt a b d : str_cmp a b = Lt -> str_cmp b d = Lt -> str_cmp a d = Lt.
Proof.
  revert b d. induction a as [|x a IH]; intros [|y b] [|z d]; cbn; intros H1 H2; try discriminate; try reflexivity.
  destruct (Nat.compare_spec (nat_of_ascii x) (nat_of_ascii y)) as [E1|E1|E1]; try discriminate;
  destruct (Nat.compare_spec (nat_of_ascii y) (nat_of_ascii z)) as [E2|E2|E2]; try discriminate;
  destruct (Nat.compare_spec (nat_of_ascii x) (nat_of_ascii z)) as [E3|E3|E3]; try lia; try reflexivity.
  eapply IH; eassumption.
Qed.

(** ---- a generic lexicographic lemma for argument lists ----------------------------- *)

Section Lex.
  Variable cmp : term -> term -> comparison.
  Fixpoint lex (l1 l2 : list term) : comparison :=
    match l1, l2 with
    | x :: l1', y :: l2' => match cmp x y with Eq => lex l1' l2' | c => c end
    | _, _ => Eq
    end.
End Lex.

Lemma cmp_term_cmp fa xs fb ys :
  cmp_term (Cmp fa xs) (Cmp fb ys) =
  match Nat.compare (List.length xs) (List.length ys) with
  | Eq => match str_cmp fa fb with Eq => lex cmp_term xs ys | c => c end
  | c => c
  end.
Proof. reflexivity. Qed.

(** floats are compared by value: +0.0 and -0.0 are equal, as in Go *)
Definition same_atomic (a b : term) : Prop :=
  match a, b with
  | Flt x, Flt y => flt_key x = flt_key y
  | _, _ => a = b
  end.

(** structural identity up to the sign of a float zero *)
Inductive ident : term -> term -> Prop :=
| id_var v : ident (Var v) (Var v)
| id_atom a : ident (Atom a) (Atom a)
| id_int z : ident (Int z) (Int z)
| id_flt x y : flt_key x = flt_key y -> ident (Flt x) (Flt y)
| id_cmp f xs ys : Forall2 ident xs ys -> ident (Cmp f xs) (Cmp f ys).

Lemma flt_cmp_refl x : flt_cmp x x = Eq.
Proof. unfold flt_cmp. apply Z.compare_refl. Qed.

Theorem cmp_refl : forall a, cmp_term a a = Eq.
Proof.
  induction a using term_ind'; try (cbn; auto using Z.compare_refl, str_cmp_refl, flt_cmp_refl; fail).
  rewrite cmp_term_cmp, Nat.compare_refl, str_cmp_refl.
  induction H as [|x xs Hx Hxs IH]; cbn; [reflexivity|]. rewrite Hx. exact IH.
Qed.

Theorem cmp_eq_ident : forall a b, cmp_term a b = Eq -> ident a b.
Proof.
  induction a using term_ind'; intros t2 Hc; destruct t2; cbn in Hc; try discriminate.
  - apply Z.compare_eq in Hc. subst. constructor.
  - apply str_cmp_eq in Hc. subst. constructor.
  - apply Z.compare_eq in Hc. subst. constructor.
  - unfold flt_cmp in Hc. apply Z.compare_eq in Hc. constructor. exact Hc.
  - change (cmp_term (Cmp f args) (Cmp f0 args0) = Eq) in Hc. rewrite cmp_term_cmp in Hc.
    destruct (Nat.compare_spec (List.length args) (List.length args0)) as [El|El|El]; try discriminate.
    destruct (str_cmp f f0) eqn:Ef; try discriminate. apply str_cmp_eq in Ef. subst.
    constructor. revert args0 El Hc. induction H as [|x xs Hx Hxs IH]; intros [|y ys] El Hc; cbn in *; try discriminate; [constructor|].
    destruct (cmp_term x y) eqn:Exy; try discriminate.
    constructor; [apply Hx; exact Exy | apply IH; [lia | exact Hc]].
Qed.

Theorem cmp_antisym : forall a b, cmp_term b a = CompOpp (cmp_term a b).
Proof.
  induction a using term_ind'; intros t2; destruct t2; try reflexivity;
    try (cbn; apply Z.compare_antisym); try (cbn; apply str_cmp_antisym).
  - rewrite !cmp_term_cmp. rewrite (Nat.compare_antisym (List.length args) (List.length args0)).
    destruct (Nat.compare_spec (List.length args) (List.length args0)) as [El|El|El]; cbn; try reflexivity.
    rewrite (str_cmp_antisym f f0). destruct (str_cmp f f0); cbn; try reflexivity.
    revert args0 El. induction H as [|x xs Hx Hxs IH]; intros [|y ys] El; cbn in *; try reflexivity; try discriminate.
    rewrite (Hx y). destruct (cmp_term x y); cbn; try reflexivity. apply IH. lia.
Qed.

(** ---- transitivity ------------------------------------------------------------------------ *)

Lemma cmp_rank_lt a b : rank a < rank b -> cmp_term a b = Lt.
Proof. destruct a, b; cbn; intros H; try lia; reflexivity. Qed.

Lemma cmp_lt_rank a b : cmp_term a b = Lt -> rank a <= rank b.
Proof. destruct a, b; cbn; intros H; try lia; discriminate. Qed.

(** identical terms compare alike with anything *)
Lemma lex_ident_l xs ys :
  Forall2 (fun x y => forall c, cmp_term x c = cmp_term y c) xs ys ->
  forall zs, lex cmp_term xs zs = lex cmp_term ys zs.
Proof.
  induction 1 as [|x y xs ys Hxy Hrest IH]; intros zs; [reflexivity|].
  destruct zs as [|z zs]; cbn; [reflexivity|]. rewrite (Hxy z). destruct (cmp_term y z); try reflexivity. apply IH.
Qed.

Lemma ident_cmp_l : forall a b, ident a b -> forall c, cmp_term a c = cmp_term b c.
Proof.
  fix IH 3. intros a b H c. destruct H.
  - reflexivity.
  - reflexivity.
  - reflexivity.
  - destruct c; try reflexivity. cbn. unfold flt_cmp. rewrite H. reflexivity.
  - destruct c; try reflexivity. rewrite !cmp_term_cmp.
    assert (Hl : List.length xs = List.length ys) by (clear IH; induction H; cbn; congruence).
    rewrite Hl. destruct (Nat.compare _ _); try reflexivity. destruct (str_cmp f f0); try reflexivity.
    apply lex_ident_l. clear -H IH. induction H; constructor; [apply IH; assumption | assumption].
Qed.

Lemma ident_sym : forall a b, ident a b -> ident b a.
Proof.
  fix IH 3. intros a b H. destruct H; try constructor.
  - symmetry. assumption.
  - induction H; constructor; [apply IH; assumption | assumption].
Qed.

Lemma ident_cmp_r a b : ident a b -> forall c, cmp_term c a = cmp_term c b.
Proof.
  intros H c. rewrite (cmp_antisym a c), (cmp_antisym b c). rewrite (ident_cmp_l a b H c). reflexivity.
Qed.

Lemma lex_trans_lt xs :
  Forall (fun x => forall b c, cmp_term x b = Lt -> cmp_term b c = Lt -> cmp_term x c = Lt) xs ->
  forall ys zs, lex cmp_term xs ys = Lt -> lex cmp_term ys zs = Lt -> lex cmp_term xs zs = Lt.
Proof.
  induction 1 as [|x xs Hx Hxs IH]; intros [|y ys] [|z zs]; cbn; intros H1 H2; try discriminate.
  destruct (cmp_term x y) eqn:Exy; try discriminate.
  - (* x = y *) apply cmp_eq_ident in Exy. rewrite (ident_cmp_l x y Exy z).
    destruct (cmp_term y z); try discriminate; [eapply IH; eassumption | reflexivity].
  - (* x < y *) destruct (cmp_term y z) eqn:Eyz; try discriminate.
    + apply cmp_eq_ident in Eyz. rewrite <- (ident_cmp_r y z Eyz x), Exy. reflexivity.
    + rewrite (Hx y z Exy Eyz). reflexivity.
Qed.

Theorem cmp_trans_lt : forall a b c, cmp_term a b = Lt -> cmp_term b c = Lt -> cmp_term a c = Lt.
Proof.
  induction a using term_ind'; intros t2 t3 H1 H2;
    pose proof (cmp_lt_rank _ _ H1) as R1; pose proof (cmp_lt_rank _ _ H2) as R2.
  all: destruct t2; cbn [rank] in R1; try lia; destruct t3; cbn [rank] in R2; try lia; try reflexivity.
  - cbn in *. rewrite Z.compare_lt_iff in *. lia.
  - cbn in *. eapply str_cmp_trans_lt; eassumption.
  - cbn in *. rewrite Z.compare_lt_iff in *. lia.
  - cbn in *. unfold flt_cmp in *. rewrite Z.compare_lt_iff in *. lia.
  - rewrite cmp_term_cmp in *.
    destruct (Nat.compare_spec (List.length args) (List.length args0)) as [E1|E1|E1]; try discriminate;
    destruct (Nat.compare_spec (List.length args0) (List.length args1)) as [E2|E2|E2]; try discriminate;
    destruct (Nat.compare_spec (List.length args) (List.length args1)) as [E3|E3|E3]; try lia; try reflexivity.
    destruct (str_cmp f f0) eqn:S1; try discriminate; destruct (str_cmp f0 f1) eqn:S2; try discriminate.
    + apply str_cmp_eq in S1, S2. subst. rewrite str_cmp_refl. eapply lex_trans_lt; eassumption.
    + apply str_cmp_eq in S1. subst. rewrite S2. reflexivity.
    + apply str_cmp_eq in S2. subst. rewrite S1. reflexivity.
    + rewrite (str_cmp_trans_lt _ _ _ S1 S2). reflexivity.
Qed.

(** the order is total: exactly one of <, =, > (by definition of [comparison]);
    > is < read backwards *)
Corollary cmp_gt_lt a b : cmp_term a b = Gt <-> cmp_term b a = Lt.
Proof. rewrite (cmp_antisym a b). destruct (cmp_term a b); cbn; split; congruence. Qed.

(** class order *)
Theorem cmp_classes v f i a g args :
  cmp_term (Var v) (Flt f) = Lt /\ cmp_term (Flt f) (Int i) = Lt /\
  cmp_term (Int i) (Atom a) = Lt /\ cmp_term (Atom a) (Cmp g args) = Lt.
Proof. repeat split; reflexivity. Qed.

(** ---- sort/2, setof/3: ascending, duplicate-free, same elements ------------------------------- *)

Opaque walk.

Section Sorting.
  Variable e : env.
  Let c := compare_t e.

  Lemma c_antisym a b : c b a = CompOpp (c a b).
  Proof. exact (cmp_antisym (walk e a) (walk e b)). Qed.
  Lemma c_trans a b d : c a b = Lt -> c b d = Lt -> c a d = Lt.
  Proof. exact (cmp_trans_lt (walk e a) (walk e b) (walk e d)). Qed.
  Lemma c_refl a : c a a = Eq.
  Proof. exact (cmp_refl (walk e a)). Qed.

  Inductive asc : list term -> Prop :=
  | asc_nil : asc []
  | asc_one x : asc [x]
  | asc_cons x y l : c x y = Lt -> asc (y :: l) -> asc (x :: y :: l).

  Lemma insert_head x l : asc l -> forall y, c y x = Lt -> (match l with [] => True | z :: _ => c y z = Lt end) ->
    match insert_uniq e x l with [] => False | z :: _ => c y z = Lt end.
  Proof.
    intros Hl y Hyx Hyl. destruct l as [|z l]; cbn; [exact Hyx|].
    fold c. destruct (c x z) eqn:E; [exact Hyl | exact Hyx | exact Hyl].
  Qed.

  Lemma insert_asc x l : asc l -> asc (insert_uniq e x l).
  Proof.
    induction 1 as [|y|y z l Hyz Hl IH]; cbn.
    - constructor.
    - fold c. destruct (c x y) eqn:E; [constructor | constructor; [exact E | constructor] |].
      constructor; [|constructor]. rewrite (c_antisym x y), E. reflexivity.
    - fold c. destruct (c x y) eqn:E.
      + constructor; assumption.
      + constructor; [exact E | constructor; assumption].
      + assert (Hyx : c y x = Lt) by (rewrite (c_antisym x y), E; reflexivity).
        cbn in IH. fold c in IH. destruct (c x z) eqn:E2.
        * constructor; assumption.
        * constructor; [exact Hyx | exact IH].
        * constructor; [exact Hyz | exact IH].
  Qed.

  Theorem sort_uniq_ascending l : asc (sort_uniq e l).
  Proof.
    unfold sort_uniq. assert (H : asc []) by constructor. revert H. generalize (@nil term).
    induction l as [|x l IH]; intros acc Hacc; cbn; [exact Hacc|]. apply IH. apply insert_asc. exact Hacc.
  Qed.

  (** strictly ascending lists have no two equal elements *)
  Lemma asc_all_lt x l : asc (x :: l) -> Forall (fun y => c x y = Lt) l.
  Proof.
    revert x. induction l as [|y l IH]; intros x H; [constructor|].
    inversion H; subst. constructor; [assumption|].
    specialize (IH y ltac:(assumption)).
    eapply Forall_impl; [|exact IH]. intros z Hz. eapply c_trans; eassumption.
  Qed.

  (** nothing is invented, nothing is lost (up to the order's equality) *)
  Lemma insert_in x l y : In y (insert_uniq e x l) -> y = x \/ In y l.
  Proof.
    induction l as [|z l IH]; cbn; [intros [H|[]]; auto|].
    fold c. destruct (c x z); cbn; intros H.
    - right. exact H.
    - destruct H as [H|H]; auto.
    - destruct H as [H|H]; [right; left; exact H|]. destruct (IH H); auto.
  Qed.

  Lemma insert_keeps x l y : In y l -> In y (insert_uniq e x l).
  Proof.
    induction l as [|z l IH]; cbn; [intros []|].
    fold c. destruct (c x z); cbn; intros [H|H]; auto.
  Qed.

  Lemma insert_has x l : exists y, In y (insert_uniq e x l) /\ c x y = Eq.
  Proof.
    induction l as [|z l IH]; cbn.
    - exists x. split; [left; reflexivity | apply c_refl].
    - fold c. destruct (c x z) eqn:E.
      + exists z. split; [left; reflexivity | exact E].
      + exists x. split; [left; reflexivity | apply c_refl].
      + destruct IH as [y [Hy Hc]]. exists y. split; [right; exact Hy | exact Hc].
  Qed.

  Theorem sort_uniq_subset l : forall y, In y (sort_uniq e l) -> In y l.
  Proof.
    unfold sort_uniq.
    assert (G : forall acc y, In y (fold_left (fun acc x => insert_uniq e x acc) l acc) -> In y l \/ In y acc).
    { induction l as [|x l IH]; intros acc y H; cbn in *; [right; exact H|].
      destruct (IH _ _ H) as [H1|H1]; [left; right; exact H1|].
      destruct (insert_in _ _ _ H1) as [->|H2]; [left; left; reflexivity | right; exact H2]. }
    intros y H. destruct (G [] y H) as [H1|[]]. exact H1.
  Qed.

  Theorem sort_uniq_complete l : forall x, In x l -> exists y, In y (sort_uniq e l) /\ c x y = Eq.
  Proof.
    unfold sort_uniq.
    assert (K : forall l acc y, In y acc -> In y (fold_left (fun acc x => insert_uniq e x acc) l acc)).
    { induction l0 as [|x l0 IH]; intros acc y H; cbn; [exact H|]. apply IH. apply insert_keeps. exact H. }
    assert (G : forall acc x, In x l -> exists y, In y (fold_left (fun acc x => insert_uniq e x acc) l acc) /\ c x y = Eq).
    { induction l as [|z l IH]; intros acc x H; [destruct H|]. cbn. destruct H as [->|H].
      - destruct (insert_has x acc) as [y [Hy Hc]]. exists y. split; [apply K; exact Hy | exact Hc].
      - apply IH. exact H. }
    intros x H. apply G. exact H.
  Qed.
End Sorting.
