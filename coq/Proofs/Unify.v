(** Unification (engine/env.go unify, as mirrored in Model/Unify.v) computes a
    most general unifier, in solution-set form: the substitutions that satisfy
    the resulting bindings are exactly those that satisfy the old bindings and
    make the two terms equal; and when it fails no such substitution exists.
    For all terms, all envs, every amount of fuel. *)
From Coq Require Import ZArith Bool List String FMapPositive Lia.
From PV Require Import Model.Term Model.Unify.
Import ListNotations.
Open Scope Z_scope.

Arguments resolve : simpl never.
Arguments contains_f : simpl never.
Arguments poisoned : simpl never.
Arguments lookup : simpl never.
Arguments bind : simpl never.
Arguments poison : simpl never.

(** a substitution maps every variable to a term; [apply] instantiates a term *)
Definition subst := Z -> term.
Fixpoint apply (s : subst) (t : term) : term :=
  match t with
  | Var v => s v
  | Cmp f args => Cmp f (map (apply s) args)
  | _ => t
  end.

(** s satisfies env e: every binding v |-> t is an equation s v = apply s t *)
Definition sat (s : subst) (e : env) : Prop :=
  forall v t, lookup e v = Some t -> s v = apply s t.

Lemma key_inj v w : key v = key w -> v = w.
Proof.
  destruct v as [|p|p], w as [|q|q]; cbn; intros H; try discriminate; try reflexivity.
  - exfalso. injection H as H. destruct q; discriminate.
  - exfalso. injection H as H. destruct p; discriminate.
  - injection H as H. apply Pos.succ_inj in H. subst. reflexivity.
  - injection H as H. subst. reflexivity.
Qed.

Lemma key_not_1 v : key v <> 1%positive.
Proof. destruct v; cbn; discriminate. Qed.

Lemma lookup_bind_same e v t : lookup (bind e v t) v = Some t.
Proof. unfold lookup, bind. apply PositiveMap.gss. Qed.

Lemma lookup_bind_other e v w t : v <> w -> lookup (bind e v t) w = lookup e w.
Proof. intros H. unfold lookup, bind. apply PositiveMap.gso. intro K. apply H. symmetry. apply key_inj. exact K. Qed.

Lemma lookup_poison e w : lookup (poison e) w = lookup e w.
Proof. unfold lookup, poison. apply PositiveMap.gso. apply key_not_1. Qed.

(** binding an unbound variable adds exactly one equation *)
Lemma sat_bind s e v t :
  lookup e v = None -> (sat s (bind e v t) <-> sat s e /\ s v = apply s t).
Proof.
  intros Hn. split.
  - intros H. split.
    + intros w u Hw. apply H. rewrite lookup_bind_other; [exact Hw|]. intros ->. rewrite Hn in Hw. discriminate.
    + apply H. apply lookup_bind_same.
  - intros [He Hv] w u Hw. destruct (Z.eq_dec v w) as [->|Hne].
    + rewrite lookup_bind_same in Hw. inversion Hw; subst. exact Hv.
    + rewrite lookup_bind_other in Hw by exact Hne. apply He. exact Hw.
Qed.

(** following bindings does not change the instance *)
Lemma resolve_f_apply s e : sat s e -> forall f t, apply s (resolve_f f e t) = apply s t.
Proof.
  intros Hs. induction f as [|f IH]; intros t; destruct t; cbn; try reflexivity.
  destruct (lookup e v) as [r|] eqn:Hl; [|reflexivity].
  rewrite IH. symmetry. apply Hs. exact Hl.
Qed.
Lemma resolve_apply s e t : sat s e -> apply s (resolve e t) = apply s t.
Proof. intros. unfold resolve. apply resolve_f_apply. assumption. Qed.

(** the argument loop of unify, named *)
Fixpoint unify_args (f : nat) (oc : bool) (e : env) (l1 l2 : list term) : ures :=
  match l1, l2 with
  | a :: l1', b :: l2' =>
      match unify_f f oc e a b with
      | UOk e' => if poisoned e' then UOk e' else unify_args f oc e' l1' l2'
      | r => r
      end
  | _, _ => UOk e
  end.

Lemma map_apply_eq_length s l1 l2 : map (apply s) l1 = map (apply s) l2 -> List.length l1 = List.length l2.
Proof. intros H. apply (f_equal (@List.length term)) in H. rewrite !map_length in H. exact H. Qed.

Lemma poisoned_bind e v t : poisoned (bind e v t) = poisoned e.
Proof.
  unfold poisoned, bind. rewrite !PositiveMap.mem_find.
  rewrite PositiveMap.gso by (intro K; symmetry in K; exact (key_not_1 v K)). reflexivity.
Qed.

Lemma poisoned_poison e : poisoned (poison e) = true.
Proof. unfold poisoned, poison. rewrite PositiveMap.mem_find, PositiveMap.gss. reflexivity. Qed.

Definition good_result (r : ures) (e : env) (x y : term) : Prop :=
  match r with
  | UOk e' => poisoned e' = false ->
              poisoned e = false /\ forall s, sat s e' <-> (sat s e /\ apply s x = apply s y)
  | UFail => forall s, sat s e -> apply s x <> apply s y
  | UStuck => True
  end.

Definition good_args (r : ures) (e : env) (l1 l2 : list term) : Prop :=
  match r with
  | UOk e' => poisoned e' = false ->
              poisoned e = false /\ forall s, sat s e' <-> (sat s e /\ map (apply s) l1 = map (apply s) l2)
  | UFail => forall s, sat s e -> map (apply s) l1 <> map (apply s) l2
  | UStuck => True
  end.

Lemma args_loop_eq f oc :
  forall l1 l2 e,
    (fix go (e : env) (l1 l2 : list term) : ures :=
       match l1, l2 with
       | a :: l1', b :: l2' => match unify_f f oc e a b with
                               | UOk e' => if poisoned e' then UOk e' else go e' l1' l2'
                               | r => r end
       | _, _ => UOk e
       end) e l1 l2 = unify_args f oc e l1 l2.
Proof.
  induction l1 as [|a l1 IH]; intros l2 e; destruct l2 as [|b l2]; cbn; try reflexivity.
  destruct (unify_f f oc e a b) as [e'| |]; try reflexivity. destruct (poisoned e'); [reflexivity|]. apply IH.
Qed.

Lemma args_good f :
  (forall e x y, good_result (unify_f f false e x y) e x y) ->
  forall l1 l2 e, List.length l1 = List.length l2 -> good_args (unify_args f false e l1 l2) e l1 l2.
Proof.
  intros IH. induction l1 as [|a l1 IHl]; intros l2 e Hlen; destruct l2 as [|b l2]; try discriminate; cbn [unify_args].
  - intros Hp. split; [exact Hp|]. intros s. cbn. tauto.
  - specialize (IH e a b). destruct (unify_f f false e a b) as [e1| |]; cbn in IH.
    + destruct (poisoned e1) eqn:Hp1.
      { cbn. intros Hp. rewrite Hp in Hp1. discriminate. }
      specialize (IHl l2 e1 ltac:(cbn in Hlen; lia)).
      destruct (IH eq_refl) as [Hp0 Ha].
      destruct (unify_args f false e1 l1 l2) as [e2| |]; cbn in IHl |- *; [| |exact I].
      * intros Hp. destruct (IHl Hp) as [_ Hl]. split; [exact Hp0|].
        intros s. rewrite Hl, Ha. split.
        -- intros [[Hs Hab] Hll]. split; [exact Hs|]. rewrite Hab, Hll. reflexivity.
        -- intros [Hs Heq]. inversion Heq. tauto.
      * intros s Hs Heq. inversion Heq.
        apply (IHl s); [apply Ha; tauto | assumption].
    + intros s Hs Heq. inversion Heq. apply (IH s Hs). assumption.
    + exact I.
Qed.

(** =/2 and clause-head unification (no occurs check) *)
Theorem unify_mgu :
  forall fuel e x y, good_result (unify_f fuel false e x y) e x y.
Proof.
  induction fuel as [|f IH]; intros e x y; [exact I|].
  cbn [unify_f].
  assert (Hred : forall r, good_result r e (resolve e x) (resolve e y) -> good_result r e x y).
  { intros r Hr. destruct r as [e'| |]; cbn in *; [| |exact I].
    - intros Hp. destruct (Hr Hp) as [Hp0 H]. split; [exact Hp0|]. intros s. rewrite H.
      split; intros [Hs Heq]; (split; [exact Hs|]).
      + rewrite <- (resolve_apply s e x Hs), <- (resolve_apply s e y Hs). exact Heq.
      + rewrite (resolve_apply s e x Hs), (resolve_apply s e y Hs). exact Heq.
    - intros s Hs Heq. apply (Hr s Hs). rewrite (resolve_apply s e x Hs), (resolve_apply s e y Hs). exact Heq. }
  apply Hred. clear Hred.
  set (x' := resolve e x). set (y' := resolve e y). clearbody x' y'. clear x y.
  (* binding an unbound variable: the new env is the old one plus the equation *)
  assert (Hbind : forall v t, lookup e v = None ->
            good_result (UOk (bind e v t)) e (Var v) t /\ good_result (UOk (bind e v t)) e t (Var v)).
  { intros v t Hn. split; cbn; intros Hp; rewrite poisoned_bind in Hp; (split; [exact Hp|]); intros s;
      rewrite (sat_bind s e v t Hn); cbn [apply]; split; intros [A B]; split; auto. }
  destruct x' as [vx|ax|ix|fx|gx xs].
  - (* variable on the left *)
    destruct (lookup e vx) eqn:Hlx; [exact I|].
    destruct y' as [vy|ay|iy|fy|gy ys].
    + destruct (Z.eqb_spec vx vy) as [->|Hne].
      * cbn. intros Hp. split; [exact Hp|]. intros s. tauto.
      * destruct (lookup e vy); [exact I|]. apply (Hbind vx (Var vy) Hlx).
    + apply (Hbind vx _ Hlx).
    + apply (Hbind vx _ Hlx).
    + apply (Hbind vx _ Hlx).
    + destruct (contains_f (S f) e (Cmp gy ys) vx).
      * cbn. intros Hp. rewrite poisoned_poison in Hp. discriminate.
      * apply (Hbind vx _ Hlx).
  - (* atom on the left *)
    destruct y' as [vy|ay|iy|fy|gy ys]; cbn [term_eqb].
    + destruct (lookup e vy) eqn:Hly; [exact I|]. apply (Hbind vy _ Hly).
    + destruct (String.eqb_spec ax ay) as [->|Hne]; cbn.
      * intros Hp. split; [exact Hp|]. intros s. tauto.
      * intros s Hs Heq. apply Hne. inversion Heq. reflexivity.
    + cbn. intros s Hs Heq. discriminate.
    + cbn. intros s Hs Heq. discriminate.
    + cbn. intros s Hs Heq. discriminate.
  - (* integer *)
    destruct y' as [vy|ay|iy|fy|gy ys]; cbn [term_eqb].
    + destruct (lookup e vy) eqn:Hly; [exact I|]. apply (Hbind vy _ Hly).
    + cbn. intros s Hs Heq. discriminate.
    + destruct (Z.eqb_spec ix iy) as [->|Hne]; cbn.
      * intros Hp. split; [exact Hp|]. intros s. tauto.
      * intros s Hs Heq. apply Hne. inversion Heq. reflexivity.
    + cbn. intros s Hs Heq. discriminate.
    + cbn. intros s Hs Heq. discriminate.
  - (* float *)
    destruct y' as [vy|ay|iy|fy|gy ys]; cbn [term_eqb].
    + destruct (lookup e vy) eqn:Hly; [exact I|]. apply (Hbind vy _ Hly).
    + cbn. intros s Hs Heq. discriminate.
    + cbn. intros s Hs Heq. discriminate.
    + destruct (Z.eqb_spec fx fy) as [->|Hne]; cbn.
      * intros Hp. split; [exact Hp|]. intros s. tauto.
      * intros s Hs Heq. apply Hne. inversion Heq. reflexivity.
    + cbn. intros s Hs Heq. discriminate.
  - (* compound on the left *)
    destruct y' as [vy|ay|iy|fy|gy ys].
    + destruct (lookup e vy) eqn:Hly; [exact I|].
      destruct (contains_f (S f) e (Cmp gx xs) vy).
      * cbn. intros Hp. rewrite poisoned_poison in Hp. discriminate.
      * apply (Hbind vy _ Hly).
    + cbn. intros s Hs Heq. discriminate.
    + cbn. intros s Hs Heq. discriminate.
    + cbn. intros s Hs Heq. discriminate.
    + destruct (String.eqb_spec gx gy) as [->|Hne]; cbn [negb].
      2: { cbn. intros s Hs Heq. apply Hne. inversion Heq. reflexivity. }
      destruct (Nat.eqb_spec (List.length xs) (List.length ys)) as [Hlen|Hlen]; cbn [negb].
      2: { cbn. intros s Hs Heq. apply Hlen. inversion Heq as [Hm]. apply map_apply_eq_length in Hm. exact Hm. }
      rewrite args_loop_eq.
      pose proof (args_good f IH xs ys e Hlen) as Ha.
      destruct (unify_args f false e xs ys) as [e'| |]; cbn in Ha |- *; [| |exact I].
      * intros Hp. destruct (Ha Hp) as [Hp0 H]. split; [exact Hp0|]. intros s. rewrite H.
        split; intros [Hs Heq]; (split; [exact Hs|]).
        -- rewrite Heq. reflexivity.
        -- inversion Heq. reflexivity.
      * intros s Hs Heq. apply (Ha s Hs). inversion Heq. reflexivity.
Qed.

(** ---- consequences ------------------------------------------------------------------- *)

(** on success the two terms are identical under every solution of the result *)
Corollary unify_makes_identical :
  forall fuel e x y e', unify_f fuel false e x y = UOk e' -> poisoned e' = false ->
    forall s, sat s e' -> apply s x = apply s y.
Proof.
  intros fuel e x y e' H Hp s Hs. pose proof (unify_mgu fuel e x y) as G. rewrite H in G.
  destruct (G Hp) as [_ G']. apply G'. exact Hs.
Qed.

(** the result keeps every solution that makes the terms equal: nothing more
    specific than necessary is imposed (most general) *)
Corollary unify_most_general :
  forall fuel e x y e', unify_f fuel false e x y = UOk e' -> poisoned e' = false ->
    forall s, sat s e -> apply s x = apply s y -> sat s e'.
Proof.
  intros fuel e x y e' H Hp s Hs Heq. pose proof (unify_mgu fuel e x y) as G. rewrite H in G.
  destruct (G Hp) as [_ G']. apply G'. split; assumption.
Qed.

(** failure means: no instance of the bindings makes the terms equal *)
Corollary unify_fails_only_if_not_unifiable :
  forall fuel e x y, unify_f fuel false e x y = UFail -> forall s, sat s e -> apply s x <> apply s y.
Proof. intros fuel e x y H. pose proof (unify_mgu fuel e x y) as G. rewrite H in G. exact G. Qed.

(** symmetry: the two orders of the arguments have the same solutions *)
Corollary unify_symmetric :
  forall f1 f2 e x y e1 e2,
    unify_f f1 false e x y = UOk e1 -> poisoned e1 = false ->
    unify_f f2 false e y x = UOk e2 -> poisoned e2 = false ->
    forall s, sat s e1 <-> sat s e2.
Proof.
  intros f1 f2 e x y e1 e2 H1 P1 H2 P2 s.
  pose proof (unify_mgu f1 e x y) as G1. rewrite H1 in G1. destruct (G1 P1) as [_ A].
  pose proof (unify_mgu f2 e y x) as G2. rewrite H2 in G2. destruct (G2 P2) as [_ B].
  rewrite A, B. split; intros [Hs Heq]; split; auto.
Qed.

Corollary unify_symmetric_failure :
  forall f1 f2 e x y e1,
    unify_f f1 false e x y = UOk e1 -> poisoned e1 = false -> (exists s, sat s e1) ->
    unify_f f2 false e y x <> UFail.
Proof.
  intros f1 f2 e x y e1 H1 P1 [s Hs] H2.
  pose proof (unify_mgu f1 e x y) as G1. rewrite H1 in G1. destruct (G1 P1) as [_ A].
  apply A in Hs as [Hs Heq].
  apply (unify_fails_only_if_not_unifiable f2 e y x H2 s Hs). symmetry. exact Heq.
Qed.

(** old bindings are never lost or changed by a successful unification *)
Corollary unify_extends :
  forall fuel e x y e', unify_f fuel false e x y = UOk e' -> poisoned e' = false ->
    forall s, sat s e' -> sat s e.
Proof.
  intros fuel e x y e' H Hp s Hs. pose proof (unify_mgu fuel e x y) as G. rewrite H in G.
  destruct (G Hp) as [_ G']. apply G' in Hs. tauto.
Qed.
