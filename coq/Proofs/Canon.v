(** Reading back what the canonical writer wrote gives the same term: for every
    term of the fragment, at any nesting, whatever follows. *)
From Coq Require Import ZArith Bool List String Lia.
From PV Require Import Model.Term Model.Canon.
Import ListNotations.

Definition no_open (l : list tok) : Prop := match l with TOpen :: _ => False | _ => True end.

(** the writer's output for one term is never empty and never starts with '(' *)
Lemma pr_head t : canon_ok t = true -> exists k r, pr t = k :: r /\ k <> TOpen /\ k <> TComma /\ k <> TClose.
Proof.
  destruct t as [v|a|z|b|f args]; cbn; intros H; try discriminate.
  - exists (TAtom a), []. repeat split; discriminate.
  - exists (TInt z), []. repeat split; discriminate.
  - eexists _, _. repeat split; discriminate.
Qed.

Definition RT (x : term) : Prop :=
  canon_ok x = true -> forall fuel rest, (tsize x < fuel)%nat -> no_open rest -> parse fuel (pr x ++ rest) = Some (x, rest).

Lemma tsize_pos t : (1 <= tsize t)%nat.
Proof. destruct t; cbn; lia. Qed.

Lemma args_roundtrip a : forall (args : list term), args <> [] -> Forall RT args -> forallb canon_ok args = true ->
  forall f n acc rest, (forall x, In x args -> tsize x < f)%nat -> (List.length args <= n)%nat ->
  parse_args (parse f) a n (pr_args pr args ++ rest) acc = Some (Cmp a (acc ++ args), rest).
Proof.
  induction args as [|x args IH]; intros Hne Hall Hok f n acc rest Hf Hn; [contradiction|].
  inversion Hall as [|? ? Hx Hrest]; subst. cbn in Hok. apply andb_true_iff in Hok. destruct Hok as [Hokx Hokr].
  destruct n as [|n]; [cbn in Hn; lia|]. cbn [parse_args].
  destruct args as [|y args].
  - cbn [pr_args]. rewrite <- app_assoc. cbn [app].
    rewrite (Hx Hokx f (TClose :: rest)); [reflexivity | apply Hf; left; reflexivity | exact I].
  - change (pr_args pr (x :: y :: args)) with (pr x ++ TComma :: pr_args pr (y :: args)).
    rewrite <- app_assoc. cbn [app].
    rewrite (Hx Hokx f (TComma :: pr_args pr (y :: args) ++ rest)); [| apply Hf; left; reflexivity | exact I].
    rewrite (IH ltac:(discriminate) Hrest Hokr f n (acc ++ [x]) rest); [rewrite <- app_assoc; reflexivity | | cbn in *; lia].
    intros z Hz. apply Hf. right. exact Hz.
Qed.

Lemma sum_bound (args : list term) x : In x args -> (tsize x <= fold_right (fun a n => tsize a + n) 0 args)%nat.
Proof.
  induction args as [|y args IH]; intros Hin; [destruct Hin|]. cbn. destruct Hin as [->|Hin]; [lia|]. specialize (IH Hin). lia.
Qed.

Lemma pr_args_length (args : list term) rest : Forall (fun x => canon_ok x = true) args ->
  (List.length args <= List.length (pr_args pr args ++ rest))%nat.
Proof.
  rewrite app_length. generalize (List.length rest). intros m.
  induction args as [|x args IH]; intros H; [cbn; lia|]. inversion H as [|? ? Hx Hr]; subst.
  destruct (pr_head x Hx) as (k & r & E & _). destruct args as [|y args].
  - cbn [pr_args]. rewrite E. cbn. lia.
  - change (pr_args pr (x :: y :: args)) with (pr x ++ TComma :: pr_args pr (y :: args)). rewrite E.
    specialize (IH Hr). rewrite app_length. cbn [List.length] in *. lia.
Qed.

Theorem canonical_roundtrip : forall t, RT t.
Proof.
  induction t as [v|a|z|b|f args IH] using term_ind'; unfold RT; intros Hok fuel rest Hfuel Hno; try discriminate.
  - destruct fuel as [|fu]; [lia|]. cbn. destruct rest as [|[] rest]; try reflexivity. contradiction.
  - destruct fuel as [|fu]; [lia|]. reflexivity.
  - destruct fuel as [|fu]; [lia|]. cbn in Hok. apply andb_true_iff in Hok. destruct Hok as [Hne Hall].
    cbn [pr app parse].
    assert (Hargs : args <> []) by (destruct args; [discriminate | discriminate]).
    rewrite (args_roundtrip f args Hargs IH Hall fu (List.length (pr_args pr args ++ rest)) [] rest); [reflexivity | |].
    + intros x Hx. pose proof (sum_bound args x Hx). cbn in Hfuel. lia.
    + apply pr_args_length. apply Forall_forall. intros x Hx. rewrite forallb_forall in Hall. apply Hall. exact Hx.
Qed.

(** in particular a whole text reads back as the term, with nothing left over *)
Corollary canonical_roundtrip_text t : canon_ok t = true -> parse (S (tsize t)) (pr t) = Some (t, []).
Proof.
  intros H. rewrite <- (app_nil_r (pr t)) at 1. apply canonical_roundtrip; [exact H | lia | exact I].
Qed.
