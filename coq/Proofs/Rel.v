(** The enumerations of Model/Rel.v are exactly the relations they stand for, each
    tuple once; and the answers of a call are the candidates unifiable with its
    arguments, so that instantiating a call further selects a subset. *)
From Coq Require Import ZArith Bool List String Lia FMapPositive.
From PV Require Import Model.Term Model.Unify Model.Rel Proofs.Unify Proofs.UnifySound.
Import ListNotations.
Open Scope Z_scope.

(** ** splits: atom_concat/3 and append/3 with the whole known *)
Lemma splits_spec {A} (l a b : list A) : In (a, b) (splits l) <-> a ++ b = l.
Proof.
  unfold splits. rewrite in_map_iff. split.
  - intros (n & Heq & _). inversion Heq; subst. apply firstn_skipn.
  - intros <-. exists (List.length a). split.
    + rewrite firstn_app, Nat.sub_diag, firstn_all, skipn_app, Nat.sub_diag, skipn_all. cbn. rewrite app_nil_r. reflexivity.
    + apply in_seq. rewrite app_length. lia.
Qed.

Lemma NoDup_map_inj_in {A B} (f : A -> B) (l : list A) :
  (forall x y, In x l -> In y l -> f x = f y -> x = y) -> NoDup l -> NoDup (map f l).
Proof.
  induction l as [|x l IH]; intros Hinj Hnd; cbn; [constructor|].
  inversion Hnd as [|? ? Hx Hl]; subst. constructor.
  - rewrite in_map_iff. intros (y & Hy & Hin). apply Hx.
    rewrite (Hinj x y (or_introl eq_refl) (or_intror Hin) (eq_sym Hy)). exact Hin.
  - apply IH; [|exact Hl]. intros a b Ha Hb. apply Hinj; right; assumption.
Qed.

Lemma splits_nodup {A} (l : list A) : NoDup (splits l).
Proof.
  unfold splits. apply NoDup_map_inj_in; [|apply seq_NoDup].
  intros n m Hn Hm Heq. apply in_seq in Hn, Hm. inversion Heq as [[H1 H2]].
  apply (f_equal (@List.length A)) in H1. rewrite !firstn_length in H1. lia.
Qed.

Lemma splits_length {A} (l : list A) : List.length (splits l) = S (List.length l).
Proof. unfold splits. rewrite map_length, seq_length. reflexivity. Qed.

(** ** subs: sub_atom/5 *)
Lemma subs_spec {A} (l : list A) b n r s :
  In (b, n, r, s) (subs l) <->
  exists pre post, l = pre ++ s ++ post /\ List.length pre = b /\ List.length s = n /\ List.length post = r.
Proof.
  unfold subs. rewrite in_flat_map. split.
  - intros (b0 & Hb & Hin). apply in_map_iff in Hin. destruct Hin as (n0 & Heq & Hn).
    inversion Heq; subst. clear Heq. apply in_seq in Hb, Hn.
    exists (firstn b l), (skipn n (skipn b l)). repeat split.
    + rewrite firstn_skipn, firstn_skipn. reflexivity.
    + rewrite firstn_length. lia.
    + rewrite firstn_length, skipn_length. lia.
    + rewrite !skipn_length. lia.
  - intros (pre & post & -> & <- & <- & <-). exists (List.length pre). split.
    + apply in_seq. rewrite !app_length. lia.
    + apply in_map_iff. exists (List.length s). split.
      * rewrite !app_length. f_equal; [f_equal; lia|].
        rewrite skipn_app, Nat.sub_diag, skipn_all. cbn.
        rewrite firstn_app, Nat.sub_diag, firstn_all. cbn. rewrite app_nil_r. reflexivity.
      * apply in_seq. rewrite !app_length. lia.
Qed.

Lemma NoDup_app_local {A} (a b : list A) :
  NoDup a -> NoDup b -> (forall x, In x a -> In x b -> False) -> NoDup (a ++ b).
Proof.
  induction a as [|x a IH]; intros Ha Hb Hd; cbn; [exact Hb|].
  inversion Ha as [|? ? Hx Ha']; subst. constructor.
  - intros Hin. apply in_app_or in Hin. destruct Hin as [Hin|Hin]; [exact (Hx Hin) | exact (Hd x (or_introl eq_refl) Hin)].
  - apply IH; [exact Ha' | exact Hb |]. intros y Hy. apply Hd. right. exact Hy.
Qed.

Lemma NoDup_flat_map {A B} (f : A -> list B) (l : list A) :
  NoDup l -> (forall x, In x l -> NoDup (f x)) ->
  (forall x y z, In x l -> In y l -> In z (f x) -> In z (f y) -> x = y) -> NoDup (flat_map f l).
Proof.
  induction l as [|x l IH]; intros Hl Hf Hd; cbn; [constructor|].
  inversion Hl as [|? ? Hx Hl']; subst. apply NoDup_app_local.
  - apply Hf. left. reflexivity.
  - apply IH; [exact Hl' | intros y Hy; apply Hf; right; exact Hy |].
    intros a b z Ha Hb. apply Hd; right; assumption.
  - intros z Hz Hz'. apply in_flat_map in Hz'. destruct Hz' as (y & Hy & Hzy).
    assert (x = y) by (apply (Hd x y z); [left; reflexivity | right; exact Hy | exact Hz | exact Hzy]).
    subst y. exact (Hx Hy).
Qed.

(** every (before, length) pair at most once: each occurrence is one answer *)
Lemma subs_nodup {A} (l : list A) : NoDup (map (fun q => (fst (fst (fst q)), snd (fst (fst q)))) (subs l)).
Proof.
  unfold subs. rewrite flat_map_concat_map, concat_map, map_map, <- flat_map_concat_map.
  apply NoDup_flat_map.
  - apply seq_NoDup.
  - intros b _. rewrite map_map. cbn [fst snd]. apply NoDup_map_inj_in; [|apply seq_NoDup].
    intros x y _ _ Heq. inversion Heq. reflexivity.
  - intros x y z _ _ Hx Hy. rewrite map_map in Hx, Hy. cbn [fst snd] in Hx, Hy.
    apply in_map_iff in Hx, Hy. destruct Hx as (n1 & <- & _), Hy as (n2 & Heq & _). inversion Heq. reflexivity.
Qed.

(** ** zrange: between/3 *)
Lemma zrange_spec lo hi x : In x (zrange lo hi) <-> lo <= x <= hi.
Proof.
  unfold zrange. rewrite in_map_iff. split.
  - intros (i & <- & Hi). apply in_seq in Hi. lia.
  - intros H. exists (Z.to_nat (x - lo)). split; [lia|]. apply in_seq. lia.
Qed.
Lemma zrange_nodup lo hi : NoDup (zrange lo hi).
Proof.
  unfold zrange. apply NoDup_map_inj_in; [|apply seq_NoDup]. intros a b _ _ H. lia.
Qed.
Lemma zrange_ascending lo hi : forall i j a b, (i < j)%nat -> nth_error (zrange lo hi) i = Some a -> nth_error (zrange lo hi) j = Some b -> a < b.
Proof.
  unfold zrange. intros i j a b Hij Ha Hb.
  rewrite nth_error_map in Ha, Hb.
  destruct (nth_error (seq 0 (Z.to_nat (hi - lo + 1))) i) as [x|] eqn:Ex; [|discriminate].
  destruct (nth_error (seq 0 (Z.to_nat (hi - lo + 1))) j) as [y|] eqn:Ey; [|discriminate].
  cbn in Ha, Hb. inversion Ha; inversion Hb; subst.
  assert (Hi : (i < Z.to_nat (hi - lo + 1))%nat) by (rewrite <- (seq_length (Z.to_nat (hi - lo + 1)) 0); apply nth_error_Some; congruence).
  assert (Hj : (j < Z.to_nat (hi - lo + 1))%nat) by (rewrite <- (seq_length (Z.to_nat (hi - lo + 1)) 0); apply nth_error_Some; congruence).
  rewrite (nth_error_nth' _ 0%nat) in Ex by (rewrite seq_length; exact Hi).
  rewrite (nth_error_nth' _ 0%nat) in Ey by (rewrite seq_length; exact Hj).
  rewrite seq_nth in Ex, Ey by assumption. inversion Ex; inversion Ey; subst. lia.
Qed.

(** ** indexed: nth0/3, nth1/3, arg/3 *)
Lemma indexed_spec {A} (l : list A) i e : In (i, e) (indexed l) <-> nth_error l i = Some e.
Proof.
  unfold indexed. assert (H : forall k, In (i, e) (combine (seq k (List.length l)) l) <-> (k <= i)%nat /\ nth_error l (i - k) = Some e).
  { induction l as [|x l IH]; intros k; cbn.
    - split; [intros [] | intros [_ H]; destruct (i - k)%nat; discriminate].
    - rewrite IH. split.
      + intros [Heq|[Hle Hn]].
        * inversion Heq; subst. rewrite Nat.sub_diag. split; [lia | reflexivity].
        * split; [lia|]. replace (i - k)%nat with (S (i - S k)) by lia. exact Hn.
      + intros [Hle Hn]. destruct (Nat.eq_dec k i) as [->|Hne].
        * rewrite Nat.sub_diag in Hn. cbn in Hn. inversion Hn. left. reflexivity.
        * right. split; [lia|]. replace (i - k)%nat with (S (i - S k)) in Hn by lia. exact Hn. }
  rewrite H, Nat.sub_0_r. split; [intros [_ Hn]; exact Hn | intros Hn; split; [lia | exact Hn]].
Qed.
Lemma indexed_nodup {A} (l : list A) : NoDup (map fst (indexed l)).
Proof.
  unfold indexed. assert (H : forall k, map fst (combine (seq k (List.length l)) l) = seq k (List.length l)).
  { induction l as [|x l IH]; intros k; cbn; [reflexivity | rewrite IH; reflexivity]. }
  rewrite H. apply seq_NoDup.
Qed.

(** ** selects: select/3 (and member/2 as its first projection) *)
Lemma selects_spec {A} (l : list A) e r : In (e, r) (selects l) <-> exists a b, l = a ++ e :: b /\ r = a ++ b.
Proof.
  revert r. induction l as [|x l IH]; intros r; cbn.
  - split; [intros [] | intros (a & b & H & _); destruct a; discriminate].
  - split.
    + intros [Heq|Hin].
      * inversion Heq; subst. exists [], r. split; reflexivity.
      * apply in_map_iff in Hin. destruct Hin as ([e' r'] & Heq & Hin). cbn in Heq. inversion Heq; subst.
        apply IH in Hin. destruct Hin as (a & b & -> & ->). exists (x :: a), b. split; reflexivity.
    + intros (a & b & Hl & ->). destruct a as [|y a]; cbn in Hl; inversion Hl; subst.
      * left. reflexivity.
      * right. apply in_map_iff. exists (e, a ++ b). split; [reflexivity|]. apply IH. exists a, b. split; reflexivity.
Qed.
Lemma selects_length {A} (l : list A) : List.length (selects l) = List.length l.
Proof. induction l as [|x l IH]; cbn; [reflexivity | rewrite map_length, IH; reflexivity]. Qed.
Lemma selects_members {A} (l : list A) : map fst (selects l) = l.
Proof. induction l as [|x l IH]; cbn [selects map fst]; [reflexivity|]. rewrite map_map. f_equal. rewrite <- IH at 2. apply map_ext. intros [a b]. reflexivity. Qed.

(** ** the answers of a call are the candidates unifiable with the arguments *)
Definition unifiable (args c : list term) : Prop := exists s, map (apply s) args = map (apply s) c.

(** kept candidates are unifiable with the arguments and come with an answer through which every unifier of the
    arguments and the candidate factors (it is a most general common instance);
    dropped candidates are not unifiable with the arguments *)
Inductive selected (args : list term) : list (list term) -> list (list term) -> Prop :=
| sel_nil : selected args [] []
| sel_keep c cs a ans :
    unifiable args c ->
    (forall s, map (apply s) args = map (apply s) c -> map (apply s) a = map (apply s) c) ->
    selected args cs ans -> selected args (c :: cs) (a :: ans)
| sel_drop c cs ans : ~ unifiable args c -> selected args cs ans -> selected args (c :: cs) ans.

Lemma walk_f_apply s e : sat s e -> forall f t, apply s (walk_f f e t) = apply s t.
Proof.
  intros Hs. induction f as [|f IH]; intros t; cbn [walk_f]; [reflexivity|].
  rewrite <- (resolve_apply s e t Hs). destruct (resolve e t) as [v|a|z|b|g args]; try reflexivity.
  cbn [apply]. f_equal. rewrite map_map. apply map_ext. intros a. apply IH.
Qed.

Lemma empty_sat s : sat s empty_env.
Proof. intros v t H. unfold lookup, empty_env in H. rewrite PositiveMap.gempty in H. discriminate. Qed.

(** a kept candidate is unifiable with the arguments: the bindings computed by a
    successful unification have a solution (Proofs/UnifySound.v, the solved-form
    invariant of envs) *)
Lemma one_candidate fuel args c :
  match unify_f fuel false empty_env (Cmp "$" args) (Cmp "$" c) with
  | UOk e => poisoned e = false ->
             unifiable args c /\
             forall s, map (apply s) args = map (apply s) c -> map (apply s) (map (walk e) args) = map (apply s) c
  | UFail => ~ unifiable args c
  | UStuck => True
  end.
Proof.
  pose proof (unify_mgu fuel empty_env (Cmp "$" args) (Cmp "$" c)) as Hm.
  pose proof (unify_ok_unifiable fuel (Cmp "$" args) (Cmp "$" c)) as Hu.
  destruct (unify_f fuel false empty_env (Cmp "$" args) (Cmp "$" c)) as [e| |]; [| |exact I].
  - intros Ep. split.
    { destruct (Hu e eq_refl Ep) as (s & _ & Heq). exists s. cbn [apply] in Heq. injection Heq as Heq. exact Heq. }
    intros s Hs. destruct (Hm Ep) as [_ Hsat].
    assert (Hse : sat s e) by (apply Hsat; split; [apply empty_sat | cbn [apply]; f_equal; exact Hs]).
    rewrite map_map. rewrite <- Hs. apply map_ext. intros a. apply walk_f_apply. exact Hse.
  - intros (s & Hs). apply (Hm s (empty_sat s)). cbn [apply]. f_equal. exact Hs.
Qed.

Lemma one_candidate' args c :
  match unify empty_env (Cmp "$" args) (Cmp "$" c) with
  | UOk e => poisoned e = false ->
             unifiable args c /\
             forall s, map (apply s) args = map (apply s) c -> map (apply s) (map (walk e) args) = map (apply s) c
  | UFail => ~ unifiable args c
  | UStuck => True
  end.
Proof. exact (one_candidate UFUEL args c). Qed.

Theorem answers_selected name args cs ans :
  cands name args = Some cs -> answers name args = Some ans -> selected args cs ans.
Proof.
  unfold answers. intros ->. revert ans. induction cs as [|c cs IH]; intros ans H; cbn [fold_right] in H.
  - injection H as <-. constructor.
  - destruct (fold_right _ (Some []) cs) as [l|]; [|discriminate].
    pose proof (one_candidate' args c) as Hc.
    destruct (unify empty_env (Cmp "$" args) (Cmp "$" c)) as [e| |]; [| |discriminate].
    + destruct (poisoned e) eqn:Ep; [discriminate|]. injection H as <-.
      destruct (Hc eq_refl) as [Hun Hmg]. apply sel_keep; [exact Hun | exact Hmg | apply IH; reflexivity].
    + injection H as <-. apply sel_drop; [exact Hc | apply IH; reflexivity].
Qed.

(** as many answers as kept candidates, in the candidates' order *)
Lemma selected_length args cs ans : selected args cs ans -> (List.length ans <= List.length cs)%nat.
Proof. induction 1; cbn; lia. Qed.

(** ** instantiating a call further selects a subset *)
Lemma apply_compose s th t : apply s (apply th t) = apply (fun v => apply s (th v)) t.
Proof.
  induction t as [v|a|z|b|f args IH] using term_ind'; cbn; try reflexivity.
  f_equal. rewrite map_map. apply map_ext_Forall. exact IH.
Qed.

Theorem instance_selects_subset args th c :
  (forall s, map (apply s) c = c) ->              (* the tuple is ground *)
  unifiable (map (apply th) args) c -> unifiable args c.
Proof.
  intros Hg (s & Hs). exists (fun v => apply s (th v)).
  rewrite Hg in *. rewrite <- Hs, map_map. apply map_ext. intros a. symmetry. apply apply_compose.
Qed.

(** ** text is measured in characters *)
Fixpoint all_cont (s : string) : bool :=
  match s with EmptyString => true | String a r => is_cont a && all_cont r end.
Definition wf_char (c : string) : Prop :=
  match c with EmptyString => False | String a r => is_cont a = false /\ all_cont r = true end.

Lemma append_nil_r (s : string) : (s ++ "")%string = s.
Proof. induction s as [|a s IH]; cbn; [reflexivity | rewrite IH; reflexivity]. Qed.
Lemma append_assoc (a b c : string) : ((a ++ b) ++ c)%string = (a ++ (b ++ c))%string.
Proof. induction a as [|x a IH]; cbn; [reflexivity | rewrite IH; reflexivity]. Qed.

Lemma cat_cons c cs : cat (c :: cs) = (c ++ cat cs)%string.
Proof. unfold cat. destruct cs as [|d cs]; cbn; [rewrite append_nil_r; reflexivity | reflexivity]. Qed.

Lemma uchars_aux_cont r : all_cont r = true -> forall s cur, uchars_aux (r ++ s) cur = uchars_aux s (cur ++ r).
Proof.
  induction r as [|a r IH]; cbn; intros H s cur; [rewrite append_nil_r; reflexivity|].
  apply andb_true_iff in H. destruct H as [Ha Hr]. rewrite Ha, (IH Hr), append_assoc. reflexivity.
Qed.

Definition emit (cur : string) : list string := match cur with EmptyString => [] | _ => [cur] end.

Lemma uchars_aux_cat : forall cs cur, Forall wf_char cs -> uchars_aux (cat cs) cur = emit cur ++ cs.
Proof.
  induction cs as [|c cs IH]; intros cur H.
  - cbn. destruct cur; reflexivity.
  - inversion H as [|? ? Hc Hcs]; subst. rewrite cat_cons. destruct c as [|a r]; [destruct Hc|].
    destruct Hc as [Ha Hr]. change (String a r ++ cat cs)%string with (String a (r ++ cat cs)%string). cbn [uchars_aux]. rewrite Ha.
    rewrite (uchars_aux_cont r Hr), (IH _ Hcs). cbn. reflexivity.
Qed.

(** decoding the concatenation of characters gives the characters back: lengths,
    positions and splits of a text are counted in characters *)
Theorem uchars_cat cs : Forall wf_char cs -> uchars (cat cs) = cs.
Proof. intros H. unfold uchars. rewrite (uchars_aux_cat cs EmptyString H). reflexivity. Qed.

Lemma uchars_aux_wf : forall s cur, (cur = EmptyString \/ wf_char cur) ->
  (cur = EmptyString -> match s with EmptyString => True | String a _ => is_cont a = false end) ->
  Forall wf_char (uchars_aux s cur).
Proof.
  induction s as [|a s IH]; intros cur Hcur Hhead; cbn.
  - destruct cur; [constructor|]. destruct Hcur as [Hc|Hc]; [discriminate|]. constructor; [exact Hc | constructor].
  - destruct (is_cont a) eqn:Ea.
    + apply IH.
      * right. destruct cur as [|b cur]; [specialize (Hhead eq_refl); cbn in Hhead; congruence|].
        destruct Hcur as [Hc|[Hb Hr]]; [discriminate|]. cbn. split; [exact Hb|].
        clear -Hr Ea. induction cur as [|x cur IHc]; cbn in *; [rewrite Ea; reflexivity|].
        apply andb_true_iff in Hr. destruct Hr as [Hx Hr]. rewrite Hx. cbn. apply IHc. exact Hr.
      * intros Hnil. destruct cur; discriminate.
    + apply Forall_app. split.
      * destruct cur; [constructor|]. destruct Hcur as [Hc|Hc]; [discriminate|]. constructor; [exact Hc | constructor].
      * apply IH; [right; cbn; split; [exact Ea | reflexivity] | intros Hnil; discriminate].
Qed.

(** every text that does not begin with a continuation byte decodes into well-formed characters *)
Theorem uchars_wf s : match s with EmptyString => True | String a _ => is_cont a = false end -> Forall wf_char (uchars s).
Proof. intros H. apply uchars_aux_wf; [left; reflexivity | intros _; exact H]. Qed.

(** so the parts of a split, put together again, have the lengths of the parts *)
Corollary concat_lengths_in_characters s p q :
  match s with EmptyString => True | String a _ => is_cont a = false end ->
  In (p, q) (splits (uchars s)) ->
  uchars (cat p) = p /\ uchars (cat q) = q /\ (List.length p + List.length q = List.length (uchars s))%nat.
Proof.
  intros Hs Hin. apply splits_spec in Hin. pose proof (uchars_wf s Hs) as Hwf. rewrite <- Hin in Hwf.
  apply Forall_app in Hwf. destruct Hwf as [Hp Hq]. repeat split; [apply uchars_cat; exact Hp | apply uchars_cat; exact Hq |].
  rewrite <- Hin, app_length. reflexivity.
Qed.
