(** Cancellation (C13): the trampoline polls the context once per iteration, at
    every nesting level; from the poll at which the context is found cancelled
    no further thunk runs at that level and the run ends with the context's error. *)
From Coq Require Import ZArith Bool List String Lia.
From PV Require Import Model.Term Model.Unify Model.Clause Model.Machine Proofs.Promise Proofs.Trampoline.
Import ListNotations.
Open Scope Z_scope.

(** a cancelled context ends the run at once, whatever is on the stack, without
    running any thunk and without touching the state *)
Lemma cancelled_stops_immediately :
  forall f p rest st,
    is_fuel_err p = false ->      (* p is a promise of the code, not the model's out-of-fuel marker *)
    s_polls st = Some O ->
    force (S f) (p :: rest) st = (FError ECancelled, st).
Proof. intros f p rest st Hp H. cbn [force]. rewrite Hp, H. reflexivity. Qed.

(** every iteration that runs a thunk consumes one poll: with n polls left, at
    most n thunks are run by this trampoline before it reports cancellation
    (stated on the compositional semantics: evaluating a promise with no polls
    left is [VCancel]) *)
Lemma no_polls_no_work :
  forall p st o st', is_fuel_err p = false -> s_polls st = Some O -> Eval p st o st' -> o = VCancel /\ st' = st.
Proof.
  intros p st o st' Hfe H Hev.
  inversion Hev; subst; try (unfold poll in *; rewrite H in *; discriminate); try congruence.
  split; reflexivity.
Qed.

(** a poll decrements the budget: the budget strictly decreases along a run *)
Lemma poll_decreases :
  forall st st' n, s_polls st = Some n -> poll st = Some st' -> exists m, n = S m /\ s_polls st' = Some m.
Proof.
  intros st st' n H Hp. unfold poll in Hp. rewrite H in Hp. destruct n as [|m]; [discriminate|].
  inversion Hp; subst. exists m. split; reflexivity.
Qed.

(** the cancellation outcome passes through every frame untouched: no handler
    (catch/3) runs on it at this level, no alternative is tried *)
Lemma cancel_passes_frames :
  forall p st o st', After p VCancel st o st' -> o = VCancel /\ st' = st.
Proof. intros p st o st' H. inversion H; subst. split; reflexivity. Qed.

Lemma cancel_is_the_result :
  forall rest st r st', Resume VCancel rest st r st' -> r = FError ECancelled /\ st' = st.
Proof. intros rest st r st' H. inversion H; subst. split; reflexivity. Qed.
