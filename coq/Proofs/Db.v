(** Database mechanisms of M (engine/clause.go clauses.call, engine/builtin.go
    Retract): a call works on the clauses it was given when it started, a
    retract removes exactly the clause it unified with, by identity, at most once. *)
From Coq Require Import ZArith Bool List String Lia.
From PV Require Import Model.Term Model.Unify Model.Clause Model.Machine.
Import ListNotations.
Open Scope Z_scope.

(** clauses.call: the alternatives of a call are fixed when the call is made
    (each thunk carries its own clause), and making the call does not touch the
    database *)
Lemma call_sees_snapshot :
  forall cs args k e st p st',
    clauses_call cs args k e st = (p, st') ->
    p_delayed p = map (fun c => ThClause c args k e (p_id p)) cs /\
    s_db st' = s_db st /\ p_cutp p = None /\ p_recover p = None.
Proof.
  intros cs args k e st p st' H. unfold clauses_call, fresh_id in H. inversion H; subst. cbn. auto.
Qed.

(** the thunk of one alternative runs the clause it carries, whatever the
    database holds by then *)
Lemma alternative_ignores_database :
  forall f c args k e pid st db',
    fst (run_thunk (S f) (ThClause c args k e pid) (set_db st db')) =
    fst (let '(vs, st1) := fresh_vars (List.length (c_vars c)) (set_db st db') in
         exec f (c_code c) vs k args [] e pid st1).
Proof. intros. cbn [run_thunk]. reflexivity. Qed.

Definition clause_ids (p : proc) : list Z := map c_cid (pr_clauses p).

(** Retract's continuation: the clause with identity [cid] and only that clause
    leaves the procedure object the retract started with; every other procedure
    is untouched; a clause that is already gone makes the alternative fail
    without any change (so no clause is removed twice) *)
Lemma retract_removes_its_match :
  forall f cid uid k e st p,
    poisoned e = false ->
    find (fun p => Z.eqb (pr_uid p) uid) (s_db st) = Some p ->
    (In cid (clause_ids p) ->
       apply_cont (S f) (KRetractDel cid uid k) e st =
       apply_cont f k e (set_db st (update_proc (s_db st)
            (mkProc (pr_name p) (pr_arity p) (pr_uid p) (pr_dynamic p) (pr_public p)
                    (filter (fun c => negb (Z.eqb (c_cid c) cid)) (pr_clauses p)))))) /\
    (~ In cid (clause_ids p) ->
       apply_cont (S f) (KRetractDel cid uid k) e st = (PBool false, st)).
Proof.
  intros f cid uid k e st p Hpo Hfind. cbn [apply_cont]. rewrite Hpo, Hfind.
  split; intros Hin.
  - assert (existsb (fun c => Z.eqb (c_cid c) cid) (pr_clauses p) = true) as ->; [|reflexivity].
    apply existsb_exists. unfold clause_ids in Hin. apply in_map_iff in Hin as [c [Hc Hin]].
    exists c. split; [assumption | rewrite Hc; apply Z.eqb_refl].
  - assert (existsb (fun c => Z.eqb (c_cid c) cid) (pr_clauses p) = false) as ->; [|reflexivity].
    apply not_true_is_false. intro H. apply existsb_exists in H as [c [Hin' Hc]].
    apply Hin. unfold clause_ids. apply in_map_iff. exists c. split; [apply Z.eqb_eq in Hc; assumption | assumption].
Qed.

Lemma filter_absent (cs : list clause) cid :
  ~ In cid (map c_cid cs) -> filter (fun c => negb (Z.eqb (c_cid c) cid)) cs = cs.
Proof.
  induction cs as [|d cs IH]; intros Hn; [reflexivity|]. cbn [filter map In] in *.
  destruct (Z.eqb_spec (c_cid d) cid) as [E|E]; cbn [negb].
  - exfalso. apply Hn. left. exact E.
  - f_equal. apply IH. intro H. apply Hn. right. exact H.
Qed.

(** the remaining clauses keep their order, and exactly one identity is gone *)
Lemma filter_removes_exactly :
  forall (cs : list clause) cid,
    NoDup (map c_cid cs) -> In cid (map c_cid cs) ->
    exists pre c post, cs = pre ++ c :: post /\ c_cid c = cid /\
      filter (fun c => negb (Z.eqb (c_cid c) cid)) cs = pre ++ post.
Proof.
  induction cs as [|c cs IH]; intros cid Hnd Hin; [contradiction|].
  cbn [map] in *. inversion Hnd as [|x l Hnotin Hnd']; subst. cbn [filter].
  destruct (Z.eqb_spec (c_cid c) cid) as [E|E]; cbn [negb].
  - exists [], c, cs. split; [reflexivity|]. split; [exact E|].
    cbn [app]. apply filter_absent. rewrite <- E. exact Hnotin.
  - destruct Hin as [Hin|Hin]; [contradiction|].
    destruct (IH cid Hnd' Hin) as (pre & c0 & post & Heq & Hc0 & Hf).
    exists (c :: pre), c0, post. split; [rewrite Heq; reflexivity|]. split; [exact Hc0|].
    cbn [app]. rewrite Hf. reflexivity.
Qed.
