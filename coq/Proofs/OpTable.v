(** Invariants of the operator table under any sequence of op/3 calls. *)
From Coq Require Import ZArith Bool List String Lia.
From PV Require Import Model.OpTable.
Import ListNotations.
Open Scope string_scope.
Open Scope Z_scope.

(** a failed call changes nothing *)
Theorem op_failed_is_noop : forall t pa sa na t' e, op_call t pa sa na = (t', Some e) -> t' = t.
Proof.
  intros t pa sa na t' e H. unfold op_call in H.
  destruct pa as [|p|]; try (inversion H; reflexivity).
  destruct ((p <? 0) || (1200 <? p)); try (inversion H; reflexivity).
  destruct sa as [|a|]; try (inversion H; reflexivity).
  destruct (spec_of_atom a) as [s|]; try (inversion H; reflexivity).
  destruct (names_of na) as [ns|e0]; try (inversion H; reflexivity).
  destruct (first_error t p s ns); inversion H. reflexivity.
Qed.

Definition slot_of (o : opdef) : string * class := (o_name o, class_of (o_spec o)).

(** the table invariant *)
Record Inv (t : table) : Prop := {
  inv_pri : forall o, In o t -> 1 <= o_pri o <= 1200;
  inv_one : forall n c, (List.length (filter (in_slot n c) t) <= 1)%nat;
  inv_excl : forall n, defined_in_class t n Infix = true -> defined_in_class t n Postfix = false;
  inv_bar : forall o, In o t -> o_name o = "|" -> class_of (o_spec o) = Infix /\ 1001 <= o_pri o;
  inv_list : forall o, In o t -> o_name o <> "[]" /\ o_name o <> "{}"
}.

Lemma in_slot_spec n c o : in_slot n c o = true <-> o_name o = n /\ class_of (o_spec o) = c.
Proof.
  unfold in_slot. rewrite andb_true_iff, String.eqb_eq. split; intros [A B]; split; auto.
  - destruct (class_of (o_spec o)), c; try discriminate; reflexivity.
  - rewrite B. destruct c; reflexivity.
Qed.

Lemma defined_spec t n c : defined_in_class t n c = true <-> exists o, In o t /\ o_name o = n /\ class_of (o_spec o) = c.
Proof.
  unfold defined_in_class. rewrite existsb_exists. split; intros [o [Hin H]]; exists o; split; auto; apply in_slot_spec; assumption.
Qed.

Lemma remove_in t n c o : In o (remove t n c) <-> In o t /\ in_slot n c o = false.
Proof. unfold remove. rewrite filter_In. rewrite negb_true_iff. tauto. Qed.

Lemma filter_remove_same t n c : filter (in_slot n c) (remove t n c) = [].
Proof.
  unfold remove. induction t as [|o t IH]; cbn; [reflexivity|].
  destruct (in_slot n c o) eqn:E; cbn; [exact IH|]. rewrite E. exact IH.
Qed.

Lemma filter_remove_other t n c n' c' :
  (n', c') <> (n, c) -> filter (in_slot n' c') (remove t n c) = filter (in_slot n' c') t.
Proof.
  intros Hne. unfold remove. induction t as [|o t IH]; cbn; [reflexivity|].
  destruct (in_slot n c o) eqn:E; cbn.
  - destruct (in_slot n' c' o) eqn:E'; [|exact IH].
    exfalso. apply in_slot_spec in E as [A B]. apply in_slot_spec in E' as [A' B']. apply Hne. congruence.
  - destruct (in_slot n' c' o); cbn; rewrite IH; reflexivity.
Qed.

(** one successful update of one validated name keeps the invariant *)
Lemma update_inv t p s n :
  Inv t -> 0 <= p <= 1200 -> validate t p s n = None -> Inv (update t p s n).
Proof.
  intros [Hp H1 Hx Hb Hl] Hpr Hv. unfold update.
  assert (Hrm : Inv (remove t n (class_of s))).
  { constructor.
    - intros o Ho. apply remove_in in Ho as [Ho _]. auto.
    - intros n' c'. destruct (string_dec n' n) as [->|Hn].
      + destruct c', (class_of s) eqn:Ec; try (rewrite filter_remove_same; cbn; lia);
          (rewrite filter_remove_other by congruence; apply H1).
      + rewrite filter_remove_other by congruence. apply H1.
    - intros n' Hd. apply defined_spec in Hd as [o [Ho [A B]]]. apply remove_in in Ho as [Ho Hs].
      assert (Hd' : defined_in_class t n' Infix = true) by (apply defined_spec; exists o; auto).
      specialize (Hx n' Hd'). destruct (defined_in_class (remove t n (class_of s)) n' Postfix) eqn:E; [|reflexivity].
      apply defined_spec in E as [o' [Ho' [A' B']]]. apply remove_in in Ho' as [Ho' _].
      assert (defined_in_class t n' Postfix = true) by (apply defined_spec; exists o'; auto). congruence.
    - intros o Ho. apply remove_in in Ho as [Ho _]. auto.
    - intros o Ho. apply remove_in in Ho as [Ho _]. auto. }
  destruct (Z.eqb_spec p 0) as [->|Hp0]; [exact Hrm|].
  destruct Hrm as [Hp' H1' Hx' Hb' Hl'].
  unfold validate in Hv.
  constructor.
  - intros o [<-|Ho]; cbn; [lia | auto].
  - intros n' c'. cbn [filter]. destruct (in_slot n' c' (mkOp n p s)) eqn:E.
    + apply in_slot_spec in E as [A B]. cbn in A, B. subst. rewrite filter_remove_same. cbn. lia.
    + apply H1'.
  - intros n' Hd. apply defined_spec in Hd as [o [Ho [A B]]].
    destruct (defined_in_class (mkOp n p s :: remove t n (class_of s)) n' Postfix) eqn:E; [|reflexivity].
    exfalso. apply defined_spec in E as [o' [Ho' [A' B']]].
    (* an infix entry and a postfix entry for n' in the new table *)
    destruct Ho as [<-|Ho], Ho' as [<-|Ho']; cbn in *.
    + congruence.
    + (* new infix n, old postfix n *)
      subst n'. apply remove_in in Ho' as [Ho' _].
      assert (D : defined_in_class t n Postfix = true) by (apply defined_spec; exists o'; auto).
      rewrite B in Hv. rewrite D in Hv.
      destruct (String.eqb n ","); [destruct (defined_in_class t n Infix); discriminate|].
      destruct (String.eqb n "|"); [destruct (negb _ || _); [discriminate|]; discriminate|].
      destruct (String.eqb n "{}" || String.eqb n "[]"); discriminate.
    + (* old infix n', new postfix n *)
      subst n'. apply remove_in in Ho as [Ho _].
      assert (D : defined_in_class t n Infix = true) by (apply defined_spec; exists o; auto).
      rewrite B' in Hv. rewrite D in Hv.
      destruct (String.eqb n ","); [discriminate|].
      destruct (String.eqb n "|"); [destruct (negb _ || _); discriminate|].
      destruct (String.eqb n "{}" || String.eqb n "[]"); discriminate.
    + assert (D : defined_in_class (remove t n (class_of s)) n' Infix = true) by (apply defined_spec; exists o; auto).
      specialize (Hx' n' D).
      assert (D' : defined_in_class (remove t n (class_of s)) n' Postfix = true) by (apply defined_spec; exists o'; auto).
      congruence.
  - intros o [<-|Ho] Hn; cbn in *; [|auto].
    subst n. cbn in Hv.
    destruct (negb (class_eqb (class_of s) Infix) || (0 <? p) && (p <? 1001)) eqn:E; [destruct (defined_in_class t "|" Infix); discriminate|].
    apply orb_false_iff in E as [E1 E2]. apply negb_false_iff in E1.
    split; [destruct (class_of s); try discriminate; reflexivity|].
    apply andb_false_iff in E2 as [E2|E2]; [apply Z.ltb_ge in E2; lia | apply Z.ltb_ge in E2; lia].
  - intros o [<-|Ho]; cbn; [|auto].
    destruct (String.eqb_spec n ",") as [->|N1]; [split; discriminate|].
    destruct (String.eqb_spec n "|") as [->|N2]; [split; discriminate|].
    destruct (String.eqb_spec n "{}") as [->|N3]; [cbn in Hv; discriminate|].
    destruct (String.eqb_spec n "[]") as [->|N4]; [cbn in Hv; discriminate|].
    split; assumption.
Qed.

(** updating one name does not touch the slots of another name *)
Lemma update_other t p s n n' c : n' <> n -> defined_in_class (update t p s n) n' c = defined_in_class t n' c.
Proof.
  intros Hne. unfold update.
  assert (R : defined_in_class (remove t n (class_of s)) n' c = defined_in_class t n' c).
  { unfold defined_in_class, remove. induction t as [|o t IH]; cbn; [reflexivity|].
    destruct (in_slot n (class_of s) o) eqn:E; cbn.
    - rewrite IH. destruct (in_slot n' c o) eqn:E'; [|reflexivity].
      exfalso. apply in_slot_spec in E as [A _]. apply in_slot_spec in E' as [A' _]. congruence.
    - rewrite IH. reflexivity. }
  destruct (p =? 0); [exact R|].
  unfold defined_in_class in *. cbn [existsb]. rewrite R.
  assert (in_slot n' c (mkOp n p s) = false) as ->; [|reflexivity].
  unfold in_slot. cbn. destruct (String.eqb_spec n n'); [congruence|reflexivity].
Qed.

Lemma validate_other t p s n n' : n' <> n -> validate (update t p s n) p s n' = validate t p s n'.
Proof. intros Hne. unfold validate. rewrite !(update_other t p s n n') by exact Hne. reflexivity. Qed.

Lemma uniq_add_in l a y : In y (uniq_add l a) -> y = a \/ In y l.
Proof.
  induction l as [|x l IH]; cbn; [intros [H|[]]; auto|].
  destruct (String.eqb x a) eqn:E; cbn; intros H.
  - right. exact H.
  - destruct H as [H|H]; [right; left; exact H|]. destruct (IH H); auto.
Qed.

Lemma uniq_add_nodup l a : NoDup l -> NoDup (uniq_add l a).
Proof.
  induction l as [|x l IH]; intros Hnd; cbn.
  { constructor; [intros []|constructor]. }
  destruct (String.eqb x a) eqn:E; [exact Hnd|].
  apply String.eqb_neq in E.
  inversion Hnd; subst. constructor; [|apply IH; assumption].
  intro Hin. destruct (uniq_add_in _ _ _ Hin) as [->|H]; [apply E; reflexivity | contradiction].
Qed.

Lemma collect_nodup items : forall acc ns, NoDup acc -> collect items acc = inl ns -> NoDup ns.
Proof.
  induction items as [|i items IH]; intros acc ns Hnd H; cbn in H; [inversion H; subst; exact Hnd|].
  destruct i; try discriminate. eapply IH; [|exact H]. apply uniq_add_nodup. exact Hnd.
Qed.

Lemma names_nodup na ns : names_of na = inl ns -> NoDup ns.
Proof.
  destruct na as [a|items tail| |]; cbn; intros H; try discriminate.
  - inversion H; subst. constructor; [intros []|constructor].
  - destruct (collect items []) as [acc|] eqn:Ec; [|discriminate].
    destruct tail as [a| |]; try discriminate.
    destruct (string_dec a "[]") as [->|Hne].
    + inversion H; subst. eapply collect_nodup; [constructor|exact Ec].
    + exfalso. destruct a as [|c0 a0]; [discriminate|].
      repeat (match type of H with context [match ?x with _ => _ end] => destruct x; try discriminate end).
      apply Hne. reflexivity.
Qed.

Lemma first_error_update t p s n ns :
  ~ In n ns -> first_error (update t p s n) p s ns = first_error t p s ns.
Proof.
  induction ns as [|m ns IH]; intros Hn; cbn; [reflexivity|].
  rewrite validate_other by (intros ->; apply Hn; left; reflexivity).
  destruct (validate t p s m); [reflexivity|]. apply IH. intro H. apply Hn. right. exact H.
Qed.

Lemma fold_update_inv p s : 0 <= p <= 1200 ->
  forall ns t, NoDup ns -> Inv t -> first_error t p s ns = None ->
    Inv (fold_left (fun t' n => update t' p s n) ns t).
Proof.
  intros Hp. induction ns as [|n ns IH]; intros t Hnd Hinv Hfe; cbn; [exact Hinv|].
  cbn in Hfe. destruct (validate t p s n) eqn:Hv; [discriminate|].
  inversion Hnd; subst. apply IH; [assumption | apply update_inv; assumption |].
  rewrite first_error_update by assumption. exact Hfe.
Qed.

(** the invariant holds after every call, successful or not *)
Theorem op_inv : forall t pa sa na, Inv t -> Inv (fst (op_call t pa sa na)).
Proof.
  intros t pa sa na Hinv. unfold op_call.
  destruct pa as [|p|]; try exact Hinv.
  destruct ((p <? 0) || (1200 <? p)) eqn:Hr; [exact Hinv|].
  apply orb_false_iff in Hr as [H0 H1]. apply Z.ltb_ge in H0, H1.
  destruct sa as [|a|]; try exact Hinv.
  destruct (spec_of_atom a) as [s|]; [|exact Hinv].
  destruct (names_of na) as [ns|e0] eqn:Hn; [|exact Hinv].
  destruct (first_error t p s ns) eqn:Hfe; [exact Hinv|].
  cbn [fst]. apply fold_update_inv; [lia | eapply names_nodup; exact Hn | exact Hinv | exact Hfe].
Qed.

(** ... hence after every sequence of calls *)
Definition call := (parg * sarg * narg)%type.
Definition run_calls (t : table) (cs : list call) : table :=
  fold_left (fun t c => match c with (pa, sa, na) => fst (op_call t pa sa na) end) cs t.

Theorem ops_inv : forall cs t, Inv t -> Inv (run_calls t cs).
Proof.
  induction cs as [|[[pa sa] na] cs IH]; intros t Hinv; cbn; [exact Hinv|].
  apply IH. apply op_inv. exact Hinv.
Qed.

(** latest definition wins; priority 0 removes; other slots are untouched *)
Lemma update_slot t p s n :
  filter (in_slot n (class_of s)) (update t p s n) = if p =? 0 then [] else [mkOp n p s].
Proof.
  unfold update. destruct (p =? 0); [apply filter_remove_same|].
  cbn [filter]. assert (in_slot n (class_of s) (mkOp n p s) = true) as ->.
  { apply in_slot_spec. cbn. auto. }
  rewrite filter_remove_same. reflexivity.
Qed.

Lemma update_other_slot t p s n n' c' :
  (n', c') <> (n, class_of s) -> filter (in_slot n' c') (update t p s n) = filter (in_slot n' c') t.
Proof.
  intros Hne. unfold update. destruct (p =? 0); [apply filter_remove_other; exact Hne|].
  cbn [filter]. destruct (in_slot n' c' (mkOp n p s)) eqn:E.
  - exfalso. apply in_slot_spec in E as [A B]. cbn in A, B. apply Hne. congruence.
  - apply filter_remove_other. exact Hne.
Qed.

(** ',' can never be changed once it is an infix operator *)
Theorem comma_unmodifiable : forall t pa sa na,
  defined_in_class t "," Infix = true ->
  forall c, filter (in_slot "," c) (fst (op_call t pa sa na)) = filter (in_slot "," c) t.
Proof.
  intros t pa sa na Hd c. unfold op_call.
  destruct pa as [|p|]; try reflexivity.
  destruct ((p <? 0) || (1200 <? p)); [reflexivity|].
  destruct sa as [|a|]; try reflexivity.
  destruct (spec_of_atom a) as [s|]; [|reflexivity].
  destruct (names_of na) as [ns|e0]; [|reflexivity].
  destruct (first_error t p s ns) eqn:Hfe; [reflexivity|]. cbn [fst].
  assert (Hnot : ~ In "," ns).
  { clear -Hfe Hd. induction ns as [|n ns IH]; [intros []|]. cbn in Hfe.
    destruct (validate t p s n) eqn:Hv; [discriminate|]. intros [->|Hin]; [|apply IH; assumption].
    unfold validate in Hv. cbn in Hv. rewrite Hd in Hv. discriminate. }
  clear Hfe. revert t Hd. induction ns as [|n ns IH]; intros t Hd; cbn; [reflexivity|].
  rewrite IH.
  - apply update_other_slot. intro E. inversion E. apply Hnot. left. congruence.
  - intro Hin. apply Hnot. right. exact Hin.
  - rewrite update_other; [exact Hd|]. intro E. apply Hnot. left. congruence.
Qed.
