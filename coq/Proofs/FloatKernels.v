(** mulF of number.go (as regenerated) against IEEE-754: for finite operands the
    result is the correctly rounded product, or float_overflow exactly when the
    rounded product is out of range, or underflow exactly when it rounds to zero
    although neither operand is zero. *)
From Coq Require Import ZArith Reals Bool Lia Lra.
From Flocq Require Import Core IEEE754.BinarySingleNaN IEEE754.Binary IEEE754.Bits.
From PV Require Import Model.GoInt Model.F64 Model.Num Gen.Arith_gen.
Open Scope R_scope.

Definition rnd (r : R) : R := round radix2 (SpecFloat.fexp 53 1024) (round_mode mode_NE) r.

Lemma zero_bits : of_bits 0 = B754_zero 53 1024 false.
Proof. reflexivity. Qed.

Lemma feq_zero (r : f64) : fis_finite r = true -> feq r (of_bits 0) = true <-> B2R 53 1024 r = 0.
Proof.
  intros Hf. unfold feq, fcmp, b64_compare. rewrite zero_bits.
  rewrite (Bcompare_correct 53 1024 r (B754_zero 53 1024 false) Hf eq_refl). cbn [B2R].
  destruct (Rcompare_spec (B2R 53 1024 r) 0); split; intros H0; try discriminate; try lra; reflexivity.
Qed.

Theorem mulF_correct (x y : f64) : fis_finite x = true -> fis_finite y = true ->
  let p := rnd (B2R 53 1024 x * B2R 53 1024 y) in
  if Rlt_bool (Rabs p) (bpow radix2 1024) then
    if Req_bool p 0 && negb (Req_bool (B2R 53 1024 x) 0) && negb (Req_bool (B2R 53 1024 y) 0)
    then mulF x y = Err (EExc Underflow)
    else exists r, mulF x y = Ok r /\ B2R 53 1024 r = p /\ fis_finite r = true
  else mulF x y = Err (EExc FloatOverflow).
Proof.
  intros Hx Hy p. unfold mulF, fmul, b64_mult. cbv zeta.
  match goal with |- context [Bmult 53 1024 ?a ?b binop_nan_pl64 mode_NE x y] => generalize a b end.
  intros Hp He.
  pose proof (Bmult_correct 53 1024 Hp He binop_nan_pl64 mode_NE x y) as H.
  change (round radix2 (SpecFloat.fexp 53 1024) (round_mode mode_NE) (B2R 53 1024 x * B2R 53 1024 y)) with p in H.
  remember (Bmult 53 1024 Hp He binop_nan_pl64 mode_NE x y) as r eqn:Er. clear Er.
  destruct (Rlt_bool (Rabs p) (bpow radix2 1024)) eqn:Elt.
  - destruct H as (HR & Hfin & _). unfold fis_finite in Hx, Hy. rewrite Hx, Hy in Hfin. cbn in Hfin.
    assert (Hinf : fis_inf r = false) by (destruct r; cbn in Hfin |- *; congruence).
    rewrite Hinf.
    assert (Hr0 : feq r (of_bits 0) = Req_bool p 0).
    { destruct (Req_bool_spec p 0) as [E|E].
      - apply (feq_zero r Hfin). rewrite HR. exact E.
      - destruct (feq r (of_bits 0)) eqn:F; [|reflexivity]. apply (feq_zero r Hfin) in F. rewrite HR in F. contradiction. }
    assert (Hx0 : fne x (of_bits 0) = negb (Req_bool (B2R 53 1024 x) 0)).
    { unfold fne. f_equal. destruct (Req_bool_spec (B2R 53 1024 x) 0) as [E|E].
      - apply (feq_zero x Hx). exact E.
      - destruct (feq x (of_bits 0)) eqn:F; [|reflexivity]. apply (feq_zero x Hx) in F. contradiction. }
    assert (Hy0 : fne y (of_bits 0) = negb (Req_bool (B2R 53 1024 y) 0)).
    { unfold fne. f_equal. destruct (Req_bool_spec (B2R 53 1024 y) 0) as [E|E].
      - apply (feq_zero y Hy). exact E.
      - destruct (feq y (of_bits 0)) eqn:F; [|reflexivity]. apply (feq_zero y Hy) in F. contradiction. }
    rewrite Hr0, Hx0, Hy0.
    destruct (Req_bool p 0 && negb (Req_bool (B2R 53 1024 x) 0) && negb (Req_bool (B2R 53 1024 y) 0)); [reflexivity|].
    exists r. repeat split; assumption.
  - assert (Hinf : fis_inf r = true).
    { unfold binary_overflow in H. cbn in H. destruct r; cbn in H; try discriminate; reflexivity. }
    rewrite Hinf. reflexivity.
Qed.

Theorem divF_correct (x y : f64) : fis_finite x = true -> fis_finite y = true ->
  if Req_bool (B2R 53 1024 y) 0 then divF x y = Err (EExc ZeroDivisor)
  else
    let q := rnd (B2R 53 1024 x / B2R 53 1024 y) in
    if Rlt_bool (Rabs q) (bpow radix2 1024) then
      if Req_bool q 0 && negb (Req_bool (B2R 53 1024 x) 0)
      then divF x y = Err (EExc Underflow)
      else exists r, divF x y = Ok r /\ B2R 53 1024 r = q /\ fis_finite r = true
    else divF x y = Err (EExc FloatOverflow).
Proof.
  intros Hx Hy. unfold divF.
  assert (Hy0 : feq y (of_bits 0) = Req_bool (B2R 53 1024 y) 0).
  { destruct (Req_bool_spec (B2R 53 1024 y) 0) as [E|E].
    - apply (feq_zero y Hy). exact E.
    - destruct (feq y (of_bits 0)) eqn:F; [|reflexivity]. apply (feq_zero y Hy) in F. contradiction. }
  rewrite Hy0. destruct (Req_bool_spec (B2R 53 1024 y) 0) as [E|E]; [reflexivity|].
  unfold fdiv, b64_div. cbv zeta.
  match goal with |- context [Bdiv 53 1024 ?a ?b binop_nan_pl64 mode_NE x y] => generalize a b end.
  intros Hp He.
  pose proof (Bdiv_correct 53 1024 Hp He binop_nan_pl64 mode_NE x y E) as H.
  change (round radix2 (SpecFloat.fexp 53 1024) (round_mode mode_NE) (B2R 53 1024 x / B2R 53 1024 y)) with (rnd (B2R 53 1024 x / B2R 53 1024 y)) in H.
  set (q := rnd (B2R 53 1024 x / B2R 53 1024 y)) in *.
  remember (Bdiv 53 1024 Hp He binop_nan_pl64 mode_NE x y) as r eqn:Er. clear Er.
  destruct (Rlt_bool (Rabs q) (bpow radix2 1024)) eqn:Elt.
  - destruct H as (HR & Hfin & _). unfold fis_finite in Hx. rewrite Hx in Hfin.
    assert (Hinf : fis_inf r = false) by (destruct r; cbn in Hfin |- *; congruence).
    rewrite Hinf.
    assert (Hr0 : feq r (of_bits 0) = Req_bool q 0).
    { destruct (Req_bool_spec q 0) as [E0|E0].
      - apply (feq_zero r Hfin). rewrite HR. exact E0.
      - destruct (feq r (of_bits 0)) eqn:F; [|reflexivity]. apply (feq_zero r Hfin) in F. rewrite HR in F. contradiction. }
    assert (Hx0 : fne x (of_bits 0) = negb (Req_bool (B2R 53 1024 x) 0)).
    { unfold fne. f_equal. destruct (Req_bool_spec (B2R 53 1024 x) 0) as [E0|E0].
      - apply (feq_zero x Hx). exact E0.
      - destruct (feq x (of_bits 0)) eqn:F; [|reflexivity]. apply (feq_zero x Hx) in F. contradiction. }
    rewrite Hr0, Hx0.
    destruct (Req_bool q 0 && negb (Req_bool (B2R 53 1024 x) 0)); [reflexivity|].
    exists r. repeat split; assumption.
  - assert (Hinf : fis_inf r = true).
    { unfold binary_overflow in H. cbn in H. destruct r; cbn in H; try discriminate; reflexivity. }
    rewrite Hinf. reflexivity.
Qed.

(** addF / subF (as regenerated, after F32's repair): for finite operands the
    result is float_overflow or the correctly rounded sum, which is finite; an
    IEEE sum that is out of range is always reported.  (That float_overflow is
    ALSO reported for some finite sums is the recorded finding F9.) *)
Theorem addF_correct (x y : f64) : fis_finite x = true -> fis_finite y = true ->
  let s := rnd (B2R 53 1024 x + B2R 53 1024 y) in
  if Rlt_bool (Rabs s) (bpow radix2 1024) then
    addF x y = Err (EExc FloatOverflow) \/
    exists r, addF x y = Ok r /\ B2R 53 1024 r = s /\ fis_finite r = true
  else addF x y = Err (EExc FloatOverflow).
Proof.
  intros Hx Hy s. unfold addF.
  destruct (fgt y (of_bits 0) && fgt x (fsub (of_bits 9218868437227405311) y));
    [destruct (Rlt_bool (Rabs s) (bpow radix2 1024)); [left|]; reflexivity|].
  destruct (flt y (of_bits 0) && flt x (fsub (of_bits 18442240474082181119) y));
    [destruct (Rlt_bool (Rabs s) (bpow radix2 1024)); [left|]; reflexivity|].
  cbv zeta. unfold fadd, b64_plus.
  match goal with |- context [Bplus 53 1024 ?a ?b binop_nan_pl64 mode_NE x y] => generalize a b end.
  intros Hp He.
  pose proof (Bplus_correct 53 1024 Hp He binop_nan_pl64 mode_NE x y Hx Hy) as H.
  change (round radix2 (SpecFloat.fexp 53 1024) (round_mode mode_NE) (B2R 53 1024 x + B2R 53 1024 y)) with s in H.
  remember (Bplus 53 1024 Hp He binop_nan_pl64 mode_NE x y) as r eqn:Er. clear Er.
  destruct (Rlt_bool (Rabs s) (bpow radix2 1024)) eqn:Elt.
  - destruct H as (HR & Hfin & _).
    assert (Hinf : fis_inf r = false) by (destruct r; cbn in Hfin |- *; congruence).
    rewrite Hinf. right. exists r. repeat split; assumption.
  - destruct H as (H & _).
    assert (Hinf : fis_inf r = true).
    { unfold binary_overflow in H. cbn in H. destruct r; cbn in H; try discriminate; reflexivity. }
    rewrite Hinf. reflexivity.
Qed.

Lemma fneg_finite (y : f64) : fis_finite (fneg y) = fis_finite y.
Proof. unfold fneg, b64_opp, fis_finite. apply is_finite_Bopp. Qed.

Lemma fneg_B2R (y : f64) : B2R 53 1024 (fneg y) = - B2R 53 1024 y.
Proof. unfold fneg, b64_opp. apply B2R_Bopp. Qed.

Theorem subF_correct (x y : f64) : fis_finite x = true -> fis_finite y = true ->
  let s := rnd (B2R 53 1024 x - B2R 53 1024 y) in
  if Rlt_bool (Rabs s) (bpow radix2 1024) then
    subF x y = Err (EExc FloatOverflow) \/
    exists r, subF x y = Ok r /\ B2R 53 1024 r = s /\ fis_finite r = true
  else subF x y = Err (EExc FloatOverflow).
Proof.
  intros Hx Hy. unfold subF.
  pose proof (addF_correct x (fneg y) Hx) as H. rewrite fneg_finite in H. specialize (H Hy).
  rewrite fneg_B2R in H. exact H.
Qed.
