package main

// C02 (unification) and C08 (standard order): properties of pairs / lists of
// terms, whatever the representation of lists and strings.  Abstract terms are
// generated once and rendered through different construction paths (bracket
// and '|' notation, './2 compounds, double-quoted literals under
// double_quotes=chars, results of append/3, atom_chars/2, =../2, findall/3,
// copy_term/2), each path contributing set-up goals that bind a fresh variable
// to the term.  The model works on the abstract terms.

import (
	"fmt"
	"math"
	"path/filepath"
	"sort"
	"strings"
	"time"

	"github.com/ichiban/prolog"
)

type tgen struct {
	r       *rng
	literal bool // only literal notations (for clause text): no set-up goals
	nvars   int
	setup  []string // set-up goals (text)
	nbuild int
	force int // construction path forced for the next list rendered (0 = none)
}

// abstract term generation over {a,b,f/1,g/2,ints,floats,lists,char lists,vars}
func (g *tgen) term(depth int, allowVars bool) *G {
	r := g.r
	n := r.intn(14)
	switch {
	case n < 3 && allowVars:
		return gv(r.intn(g.nvars))
	case n < 5:
		return ga([]string{"a", "b", "[]", "f"}[r.intn(4)])
	case n < 7:
		return gi([]int64{0, 1, 2, -1, -2, 1 << 40, 1 << 62, -(1 << 62), math.MaxInt64, math.MinInt64, math.MinInt64 + 1}[r.intn(11)])
	case n == 7:
		return &G{K: 'f', S: []string{"1.0", "0.5", "2.5"}[r.intn(3)]}
	case depth <= 0:
		return ga("a")
	case n == 8:
		return gc("f", g.term(depth-1, allowVars))
	case n == 9:
		return gc("g", g.term(depth-1, allowVars), g.term(depth-1, allowVars))
	case n == 10:
		return gc("f", g.term(depth-1, allowVars), g.term(depth-1, allowVars))
	case n == 11: // a list of single-character atoms (a "string"), or the list of their codes
		var es []*G
		codes := r.coin(0.35)
		for i, k := 0, 1+r.intn(3); i < k; i++ {
			c := []string{"a", "b", "c", "é", "日"}[r.intn(5)]
			if codes {
				es = append(es, gi(int64([]rune(c)[0])))
			} else {
				es = append(es, ga(c))
			}
		}
		return glist(es, nil)
	case n == 12:
		var es []*G
		for i, k := 0, r.intn(7); i < k; i++ {
			es = append(es, g.term(depth-1, allowVars))
		}
		return glist(es, nil)
	default:
		var es []*G
		for i, k := 0, 1+r.intn(2); i < k; i++ {
			es = append(es, g.term(depth-1, allowVars))
		}
		if allowVars {
			return glist(es, gv(r.intn(g.nvars)))
		}
		return glist(es, ga("t"))
	}
}

func isCharList(t *G) (string, bool) {
	s := ""
	for t.K == 'c' && t.S == "." && len(t.Args) == 2 {
		h := t.Args[0]
		if h.K != 'a' || len([]rune(h.S)) != 1 {
			return "", false
		}
		s += h.S
		t = t.Args[1]
	}
	return s, t.K == 'a' && t.S == "[]" && s != ""
}

// isCodeList: a proper non-empty list of character codes of the generator's alphabet
func isCodeList(t *G) (string, bool) {
	s := ""
	for t.K == 'c' && t.S == "." && len(t.Args) == 2 {
		h := t.Args[0]
		if h.K != 'i' || !(h.I == 97 || h.I == 98 || h.I == 99 || h.I == 233 || h.I == 26085) {
			return "", false
		}
		s += string(rune(h.I))
		t = t.Args[1]
	}
	return s, t.K == 'a' && t.S == "[]" && s != ""
}

func listParts(t *G) ([]*G, *G) {
	var es []*G
	for t.K == 'c' && t.S == "." && len(t.Args) == 2 {
		es = append(es, t.Args[0])
		t = t.Args[1]
	}
	return es, t
}

func ground(t *G) bool {
	if t.K == 'v' {
		return false
	}
	for _, a := range t.Args {
		if !ground(a) {
			return false
		}
	}
	return true
}

func (g *tgen) fresh() string {
	g.nbuild++
	return fmt.Sprintf("B%d", g.nbuild)
}

// render gives the text of t, possibly through set-up goals (appended to g.setup)
func (g *tgen) render(t *G, paths bool) string {
	switch t.K {
	case 'v':
		return fmt.Sprintf("V%d", t.V)
	case 'a':
		return quoteAtom(t.S)
	case 'i':
		return fmt.Sprint(t.I)
	case 'f':
		return t.S
	}
	if t.S == "." && len(t.Args) == 2 {
		es, tail := listParts(t)
		choice := 0
		if paths {
			choice = g.r.intn(8)
		}
		if g.force != 0 && paths {
			choice, g.force = g.force, 0
		}
		if s, ok := isCharList(t); ok && paths && choice != 6 {
			k := g.r.intn(4)
			if g.literal {
				k = 1 + g.r.intn(2)
			}
			switch k {
			case 0:
				v := g.fresh()
				g.setup = append(g.setup, fmt.Sprintf("atom_chars(%s, %s)", quoteAtom(s), v))
				return v
			case 1:
				return `"` + s + `"` // read under double_quotes = chars
			}
		}
		if s, ok := isCodeList(t); ok && paths && !g.literal && g.r.coin(0.6) {
			v := g.fresh()
			g.setup = append(g.setup, fmt.Sprintf("atom_codes(%s, %s)", quoteAtom(s), v)) // a string-backed code list
			return v
		}
		var el []string
		for _, e := range es {
			el = append(el, g.render(e, paths))
		}
		tl := g.render(tail, paths)
		if g.literal && choice > 1 {
			choice = 0
		}
		switch choice {
		case 1: // './2 compounds
			s := tl
			for i := len(el) - 1; i >= 0; i-- {
				s = "'.'(" + el[i] + "," + s + ")"
			}
			return s
		case 2: // append/3
			if len(el) >= 1 {
				k := g.r.intn(len(el) + 1)
				v := g.fresh()
				suffix := "[" + strings.Join(el[k:], ",") + "|" + tl + "]"
				if len(el[k:]) == 0 {
					suffix = tl
				}
				g.setup = append(g.setup, fmt.Sprintf("append([%s], %s, %s)", strings.Join(el[:k], ","), suffix, v))
				return v
			}
		case 3: // =..
			if len(el) >= 1 {
				v := g.fresh()
				rest := "[" + strings.Join(el[1:], ",") + "|" + tl + "]"
				if len(el) == 1 {
					rest = tl
				}
				g.setup = append(g.setup, fmt.Sprintf("%s =.. ['.', %s, %s]", v, el[0], rest))
				return v
			}
		case 4: // findall/3 (copies: ground lists only)
			if ground(t) && tail.K == 'a' && tail.S == "[]" {
				v := g.fresh()
				x := g.fresh()
				g.setup = append(g.setup, fmt.Sprintf("findall(%s, member(%s, [%s]), %s)", x, x, strings.Join(el, ","), v))
				return v
			}
		case 6: // append/3 twice over one built prefix: the first result must not change when the prefix is extended again
			if ground(t) && tail.K == 'a' && tail.S == "[]" && len(el) >= 2 {
				k := len(el) - 1 // a one-element suffix: what fits into spare capacity of the built prefix
				if g.r.coin(0.25) {
					k = 1 + g.r.intn(len(el)-1)
				}
				pv, v, x := g.fresh(), g.fresh(), g.fresh()
				if g.r.coin(0.5) {
					g.setup = append(g.setup, fmt.Sprintf("findall(%s, member(%s, [%s]), %s)", x, x, strings.Join(el[:k], ","), pv))
				} else {
					g.setup = append(g.setup, fmt.Sprintf("length(%s, %d), %s = [%s]", pv, k, pv, strings.Join(el[:k], ",")))
				}
				g.setup = append(g.setup, fmt.Sprintf("append(%s, [%s], %s)", pv, strings.Join(el[k:], ","), v),
					fmt.Sprintf("append(%s, [zz9], _)", pv))
				return v
			}
		case 5: // copy_term/2 (ground only)
			if ground(t) {
				v := g.fresh()
				g.setup = append(g.setup, fmt.Sprintf("copy_term([%s|%s], %s)", strings.Join(el, ","), tl, v))
				return v
			}
		}
		if tail.K == 'a' && tail.S == "[]" {
			return "[" + strings.Join(el, ",") + "]"
		}
		return "[" + strings.Join(el, ",") + "|" + tl + "]"
	}
	var as []string
	for _, a := range t.Args {
		as = append(as, g.render(a, paths))
	}
	if paths && !g.literal && g.r.coin(0.2) { // =.. for ordinary compounds
		v := g.fresh()
		g.setup = append(g.setup, fmt.Sprintf("%s =.. [%s|[%s]]", v, quoteAtom(t.S), strings.Join(as, ",")))
		return v
	}
	return quoteAtom(t.S) + "(" + strings.Join(as, ",") + ")"
}

func (t *G) coqT() string {
	if t.K == 'f' {
		var f float64
		fmt.Sscan(t.S, &f)
		return fmt.Sprintf("Flt %d", math.Float64bits(f))
	}
	if t.K == 'c' {
		var as []string
		for _, a := range t.Args {
			as = append(as, "("+a.coqT()+")")
		}
		return "Cmp " + coqStr(t.S) + " " + coqList(as)
	}
	return t.coq()
}

const c02Header = "From Coq Require Import ZArith List String.\nFrom PV Require Import Model.Term Model.Unify Model.Order Model.TermCheck.\nImport ListNotations.\nOpen Scope Z_scope.\nOpen Scope string_scope.\n"

func varNamesList(n int) []string {
	var ns []string
	for i := 0; i < n; i++ {
		ns = append(ns, fmt.Sprintf("V%d", i))
	}
	return ns
}

// observation of a unification-like goal: failure, or the images of V0..Vn-1
func obsUnify(p *prolog.Interpreter, setup []string, goal string, nvars int) (string, *outcome) {
	var pre []string
	for i := 0; i < nvars; i++ { // make every variable occur in the query
		pre = append(pre, fmt.Sprintf("V%d = V%d", i, i))
	}
	q := strings.Join(append(append(pre, setup...), goal), ", ") + " ."
	out := runQuery(p, 2, varNamesList(nvars), q)
	switch {
	case out.Err != nil || out.GoErr != "":
		return "UErr", &out
	case len(out.Answers) == 0:
		return "UNo", &out
	}
	var ts []string
	for i := 0; i < nvars; i++ {
		ts = append(ts, "("+out.Answers[0][fmt.Sprintf("V%d", i)].coq()+")")
	}
	return "UYes " + coqList(ts), &out
}

func runC02(outDir string, seed int64, tier string) {
	start := time.Now()
	sum := newSummary("C02", seed, tier)
	r := &rng{s: uint64(seed) ^ hashString("C02")}
	n := 2500
	if tier == "thorough" {
		n = 20000
	}
	p := prolog.New(nil, nil)
	if err := p.Exec(":- set_prolog_flag(double_quotes, chars).\n"); err != nil {
		fatal("%v", err)
	}
	var cases []string
	seen := map[string]bool{}
	id := 0
	addFail := func(class string, desc map[string]interface{}, obs, exp string) {
		sum.Failures = append(sum.Failures, failure{ID: id, Class: class, Input: desc, Observed: obs, Expected: exp})
	}
	for i := 0; i < n; i++ {
		g := &tgen{r: r.split(), nvars: 3}
		t1 := g.term(3, true)
		t2 := g.term(3, true)
		if g.r.coin(0.5) { // make unifiable pairs frequent: t2 is a variant / instance skeleton of t1
			t2 = mutateTerm(g, t1)
		}
		directed := i < 64
		if directed {
			// lists of 2-9 atoms built by extending a built prefix (findall/3, length/2) twice, against the
			// same list, a list differing in the last element, and a pattern with an unbound last element
			var es []*G
			for j, l := 0, 2+i%8; j < l; j++ {
				es = append(es, ga([]string{"a", "b", "c", "d"}[(i+j)%4]))
			}
			t1 = glist(es, nil)
			last := append(append([]*G{}, es[:len(es)-1]...), []*G{es[len(es)-1], ga("zz9"), gv(0), ga("e")}[i/8%4])
			t2 = glist(last, nil)
		}
		if t1.K == 'v' && t2.K == 'v' && g.r.coin(0.8) {
			continue
		}
		// the pair must not be subject to occurs check for =/2 (ISO leaves it undefined; the engine
		// builds cyclic terms and may die on them): the harness decides that with its own unifier
		sto := subjectToOccursCheck(t1, t2)
		key := t1.text() + " = " + t2.text()
		nontrivial := !seen[key]
		seen[key] = true
		type obsT struct{ s string }
		run := func(mode string, paths bool) (string, []string, string) {
			g.setup, g.nbuild = nil, 0
			if directed {
				g.force = 6
			}
			a := g.render(t1, paths)
			g.force = 0
			b := g.render(t2, paths && !directed)
			var goal string
			switch mode {
			case "eq":
				goal = a + " = " + b
			case "sym":
				goal = b + " = " + a
			case "oc":
				goal = "unify_with_occurs_check(" + a + ", " + b + ")"
			case "ident":
				goal = a + " = " + b + ", " + a + " == " + b
			case "nobind":
				goal = `\+ ` + a + " = " + b
			}
			o, _ := obsUnify(p, g.setup, goal, g.nvars)
			return o, append([]string{}, g.setup...), goal
		}
		modes := []string{"oc"}
		if !sto {
			modes = []string{"eq", "sym", "oc", "ident", "nobind"}
		}
		results := map[string]string{}
		for _, mode := range modes {
			o, setup, goal := run(mode, true)
			results[mode] = o
			desc := map[string]interface{}{"query": strings.Join(append(setup, goal), ", ") + " .", "vars": varNamesList(3), "text": mode + ": " + key, "program": ":- set_prolog_flag(double_quotes, chars).\n"}
			sum.Cases[fmt.Sprint(id)] = desc
			sum.count("mode:" + mode)
			sum.count(mode + ":" + strings.SplitN(o, " ", 2)[0])
			sum.Evaluations++
			// model case for eq / sym / oc
			switch mode {
			case "eq":
				cases = append(cases, fmt.Sprintf("(%d, MEq, %s, %s, %s)", id, t1.coqT(), t2.coqT(), o))
			case "sym":
				cases = append(cases, fmt.Sprintf("(%d, MEq, %s, %s, %s)", id, t2.coqT(), t1.coqT(), o))
			case "oc":
				cases = append(cases, fmt.Sprintf("(%d, MOc, %s, %s, %s)", id, t1.coqT(), t2.coqT(), o))
			}
			// representation independence: the plain rendering must give the same observation
			o2, _, _ := run(mode, false)
			if o2 != o {
				addFail("unify:"+mode+":depends-on-representation", desc, o, o2+" (bracket notation)")
			}
			if strings.HasPrefix(o, "UErr") {
				addFail("unify:"+mode+":error", desc, o, "success or failure")
			}
			id++
		}
		if !sto {
			desc := map[string]interface{}{"text": key, "query": t1.text() + " = " + t2.text() + " .", "vars": varNamesList(3), "program": ":- set_prolog_flag(double_quotes, chars).\n"}
			yes := func(m string) bool { return strings.HasPrefix(results[m], "UYes") }
			if yes("eq") != yes("sym") {
				addFail("unify:not-symmetric", desc, results["eq"]+" / "+results["sym"], "same outcome")
			}
			if yes("eq") != yes("oc") {
				addFail("unify:occurs-check-version-disagrees-on-finite-unifier", desc, results["eq"]+" / "+results["oc"], "same outcome")
			}
			if yes("eq") != yes("ident") {
				addFail("unify:unified-terms-not-identical", desc, results["eq"]+" / "+results["ident"], "X = Y implies X == Y")
			}
			if yes("eq") == yes("nobind") {
				addFail("unify:negation-inconsistent", desc, results["eq"]+" / "+results["nobind"], `\+ X = Y succeeds iff X = Y fails`)
			}
			if yes("nobind") && results["nobind"] != "UYes [(Var 0); (Var 1); (Var 2)]" {
				addFail("unify:failed-attempt-leaves-bindings", desc, results["nobind"], "all variables unbound")
			}
		} else if strings.HasPrefix(results["oc"], "UYes") {
			desc := map[string]interface{}{"text": key}
			addFail("unify:occurs-check-missed", desc, results["oc"], "failure (the unifier is infinite)")
		}
		// clause-head unification (no occurs check): a fact h(T2) called with T1
		if !sto && g.r.coin(0.5) {
			g.setup, g.nbuild = nil, 0
			hp := prolog.New(nil, nil)
			_ = hp.Exec(":- set_prolog_flag(double_quotes, chars).\n")
			t2r := renameVars(t2, 10)
			if err := hp.Exec("h(" + (&tgen{r: g.r.split(), nvars: 20, literal: true}).render(t2r, true) + ").\n"); err == nil {
				a := g.render(t1, true)
				o, _ := obsUnify(hp, g.setup, "h("+a+")", g.nvars)
				desc := map[string]interface{}{"program": ":- set_prolog_flag(double_quotes, chars).\nh(" + t2r.text() + ").\n", "query": strings.Join(append(g.setup, "h("+a+")"), ", ") + " .", "vars": varNamesList(3), "text": "head: " + key}
				sum.Cases[fmt.Sprint(id)] = desc
				cases = append(cases, fmt.Sprintf("(%d, MHead, %s, %s, %s)", id, t1.coqT(), t2r.coqT(), o))
				sum.count("mode:head")
				sum.Evaluations++
				if strings.HasPrefix(o, "UYes") != strings.HasPrefix(results["eq"], "UYes") && !sharesVars(t1, t2) {
					addFail("unify:head-unification-differs-from-=/2", desc, o, results["eq"])
				}
				id++
			}
		}
		if nontrivial && strings.HasPrefix(results["oc"], "UYes") {
			sum.Distinct++
		}
		if len(sum.Samples) < 8 && i%37 == 0 {
			sum.Samples = append(sum.Samples, map[string]interface{}{"pair": key, "results": results})
		}
	}
	sum.Rule = "pairs of abstract terms (atoms, integers, floats, variables shared within and across the two sides, compounds with one functor name at two arities, proper and partial lists, character lists) rendered through random construction paths (bracket notation, './2, double-quoted literal, append/3, atom_chars/2, =../2, findall/3, copy_term/2); goals X=Y, Y=X, unify_with_occurs_check, X=Y then X==Y, \\+ X=Y, and head unification against a fact; pairs subject to occurs check only with unify_with_occurs_check; distinct by rendered abstract pair; non-trivial = unifiable"
	shard := 1200
	nf := 0
	for i := 0; i < len(cases); i += shard {
		j := i + shard
		if j > len(cases) {
			j = len(cases)
		}
		name := fmt.Sprintf("cases_unify_%d.v", nf)
		writeCases(filepath.Join(outDir, name), c02Header, "ucase", "check_unify", cases[i:j])
		sum.CaseFiles = append(sum.CaseFiles, name)
		nf++
	}
	c02Shared(sum, len(sum.Cases)+100000)
	sum.write(outDir, start)
}

// c02Shared: a subterm that occurs several times in a term as ONE value (bound once to a variable)
// against the same term written out: =/2, unify_with_occurs_check/2 and subsumes_term/2 must answer the
// same, whichever variables the shared subterm contains and whichever side binds them.
func c02Shared(sum *runSummary, id int) {
	subs := []string{"s(Y)", "s(X)", "s(Y, Z)", "[Y]", "s(s(Y))", "s(a)", "Y"}
	shapes := []struct{ l, r string }{ // # is the shared subterm
		{"f(X, Y)", "f(a(#), b(#))"},
		{"f(Y, X)", "f(a(#), b(#))"},
		{"f(X, Y, Z)", "f(#, g(#), h(#))"},
		{"f(a(#), b(#))", "f(X, Y)"},
		{"f(#, #)", "f(X, Y)"},
		{"f(X, #)", "f(#, Y)"},
		{"f(Y, g(#))", "f(g(#), X)"},
		{"[X, Y]", "[#, k(#)]"},
		{"f(X, Y)", "f(#, #)"},
	}
	p := prolog.New(nil, nil)
	for _, sub := range subs {
		for _, sh := range shapes {
			for _, pred := range []string{"unify_with_occurs_check", "=", "subsumes_term"} {
				shared := "S = " + sub + ", " + pred + "(" + strings.ReplaceAll(sh.l, "#", "S") + ", " + strings.ReplaceAll(sh.r, "#", "S") + ")"
				plain := pred + "(" + strings.ReplaceAll(sh.l, "#", sub) + ", " + strings.ReplaceAll(sh.r, "#", sub) + ")"
				if pred == "=" && sub != "s(a)" {
					// =/2 on pairs subject to occurs check builds cyclic terms (outside the property): only the ground subterm
					continue
				}
				run := func(q string) string {
					out := runQuery(p, 2, []string{"X", "Y", "Z"}, q+" .")
					var rows []string
					for _, a := range out.Answers {
						rows = append(rows, fmt.Sprint(a["X"], " ", a["Y"], " ", a["Z"]))
					}
					if out.Err != nil || out.GoErr != "" {
						rows = append(rows, fmt.Sprint("error ", out.Err, out.GoErr))
					}
					return strings.Join(rows, " ; ")
				}
				a, b := run(shared), run(plain)
				desc := map[string]interface{}{"text": shared + "   against   " + plain, "query": shared + " .", "vars": []string{"X", "Y", "Z"}}
				sum.Cases[fmt.Sprint(id)] = desc
				sum.Evaluations++
				sum.count("shared-subterm:" + pred)
				if a != b {
					sum.Failures = append(sum.Failures, failure{ID: id, Class: "unify:depends-on-sharing-of-subterms", Input: desc, Observed: a, Expected: b + " (the same term written out)"})
				}
				id++
			}
		}
	}
}

// mutateTerm: a term sharing the skeleton of t with some subterms replaced
func mutateTerm(g *tgen, t *G) *G {
	if g.r.coin(0.25) {
		return g.term(1, true)
	}
	if t.K != 'c' {
		if g.r.coin(0.2) {
			return gv(g.r.intn(g.nvars))
		}
		return t
	}
	c := &G{K: 'c', S: t.S}
	for _, a := range t.Args {
		c.Args = append(c.Args, mutateTerm(g, a))
	}
	return c
}

func renameVars(t *G, by int) *G {
	if t.K == 'v' {
		return gv(t.V + by)
	}
	c := &G{K: t.K, S: t.S, I: t.I, V: t.V}
	for _, a := range t.Args {
		c.Args = append(c.Args, renameVars(a, by))
	}
	return c
}

func sharesVars(a, b *G) bool {
	for i := 0; i <= a.maxVar(); i++ {
		if a.hasVar(i) && b.hasVar(i) {
			return true
		}
	}
	return false
}

// ---- the harness's own unifier (triangular substitution), used to classify pairs -----

func walkG(s map[int]*G, t *G) *G {
	for t.K == 'v' {
		b, ok := s[t.V]
		if !ok {
			return t
		}
		t = b
	}
	return t
}

func occursG(s map[int]*G, v int, t *G) bool {
	t = walkG(s, t)
	if t.K == 'v' {
		return t.V == v
	}
	for _, a := range t.Args {
		if occursG(s, v, a) {
			return true
		}
	}
	return false
}

// unifyG returns (unifiable ignoring occurs, positive occurs check met)
func unifyG(s map[int]*G, a, b *G, sto *bool) bool {
	a, b = walkG(s, a), walkG(s, b)
	switch {
	case a.K == 'v' && b.K == 'v' && a.V == b.V:
		return true
	case a.K == 'v':
		if occursG(s, a.V, b) {
			*sto = true
			return false
		}
		s[a.V] = b
		return true
	case b.K == 'v':
		return unifyG(s, b, a, sto)
	case a.K != b.K:
		return false
	case a.K == 'c':
		if a.S != b.S || len(a.Args) != len(b.Args) {
			return false
		}
		for i := range a.Args {
			if !unifyG(s, a.Args[i], b.Args[i], sto) {
				return false
			}
		}
		return true
	case a.K == 'i':
		return a.I == b.I
	}
	return a.S == b.S
}

func subjectToOccursCheck(a, b *G) bool {
	sto := false
	unifyG(map[int]*G{}, a, b, &sto)
	return sto
}

var _ = sort.Strings
