package main

// Directed families of programs added after seeded changes that the random
// generators did not reach (DESIGN.md section 6, eleventh round).

// ---- deep goals (C01, C03, C04) ---------------------------------------------------
// A goal that leaves several hundred frames on the promise stack (a recursion of
// depth 600 / 1100, every level with an exhausted clause-set frame and, at the
// bottom, an untried clause), run after an older choice point and followed by
// the constructs that prune: a cut in the only / in the last clause, once/1,
// if-then-else, \+, catch/3 (with and without an error raised at the bottom).

func deepLibrary() []*G {
	n, m := gv(0), gv(1)
	step := func(name string) *G {
		return gc(":-", gc(name, n), conjOf([]*G{gc(">", n, gi(0)), gc("is", m, gc("-", n, gi(1))), gc(name, m)}))
	}
	return []*G{
		gc("down", gi(0)), step("down"),
		gc(":-", gc("downt", gi(0)), gc("throw", ga("deep"))), step("downt"),
		gc(":-", gc("first", n), gc(",", gc("down", n), ga("!"))),
		gc(":-", gc("last", gv(0), gv(1)), ga("fail")),
		gc(":-", gc("last", n, m), conjOf([]*G{gc("down", n), gc("member", m, glist([]*G{ga("p"), ga("q")}, nil)), ga("!")})),
		gc(":-", gc("pick", gv(0), gv(1)), gc(",", gc("member", gv(0), glist([]*G{ga("a"), ga("b"), ga("c")}, nil)), gc("first", gv(1)))),
		// a variable handed down N levels, every level through a fresh variable unified afterwards (a chain of
		// N variable-to-variable bindings), bound differently by the alternatives at the bottom
		gc(":-", gc("chain", gi(0), gv(0)), gc("member", gv(0), glist([]*G{ga("a"), ga("b"), ga("c")}, nil))),
		gc(":-", gc("chain", n, gv(2)), conjOf([]*G{gc(">", n, gi(0)), gc("is", m, gc("-", n, gi(1))), gc("chain", m, gv(3)), gc("=", gv(2), gv(3))})),
		gc(":-", gc("chainb", gi(0), gv(0)), gc("member", gv(0), glist([]*G{ga("a"), ga("b"), ga("c")}, nil))),
		gc(":-", gc("chainb", n, gv(2)), conjOf([]*G{gc(">", n, gi(0)), gc("is", m, gc("-", n, gi(1))), gc("=", gv(2), gv(3)), gc("chainb", m, gv(3))})),
	}
}

// kind: 0 = C01 (no pruning construct), 1 = C03, 2 = C04
func deepPrograms(kind int, tier string) []*progCase {
	depths := []int64{600}
	if tier == "thorough" {
		depths = []int64{40, 600, 1100}
	}
	x, y := gv(0), gv(1)
	old := gc("member", x, glist([]*G{gi(1), gi(2)}, nil))
	var out []*progCase
	for _, d := range depths {
		var qs []*G
		switch kind {
		case 0:
			qs = []*G{
				gc(",", old, gc("down", gi(d))),
				gc(",", gc("down", gi(d)), old),
				gc(",", old, gc("call", gc("down", gi(d)))),
				gc(",", old, gc(";", gc("down", gi(d)), gc("=", y, ga("alt")))),
			}
			if d == depths[0] {
				for _, l := range []int64{5, 17, 40} {
					qs = append(qs, gc("chain", gi(l), y), gc("chainb", gi(l), y),
						gc(",", gc("chainb", gi(l), y), gc("==", y, ga("b"))),
						gc("findall", y, gc("chain", gi(l), y), gv(0)))
				}
			}
		case 1:
			qs = []*G{
				gc("pick", x, gi(d)),
				gc(",", old, gc("first", gi(d))),
				gc(",", old, gc("once", gc("down", gi(d)))),
				gc(",", old, gc("last", gi(d), y)),
				gc(",", old, gc(";", gc("->", gc("down", gi(d)), gc("=", y, ga("then"))), gc("=", y, ga("else")))),
				gc(",", old, gc(`\+`, gc(`\+`, gc("down", gi(d))))),
				gc(",", old, gc("call", gc(",", gc("down", gi(d)), ga("!")))),
				gc(",", gc("first", gi(d)), old),
				gc("findall", x, gc(",", old, gc("first", gi(d))), y),
			}
		default:
			qs = []*G{
				gc(",", old, gc("catch", gc("down", gi(d)), gv(-1), ga("true"))),
				gc(",", old, gc("catch", gc("downt", gi(d)), ga("deep"), gc("=", y, ga("caught")))),
				gc(",", old, gc("catch", gc("downt", gi(d)), ga("other"), ga("true"))),
				gc("catch", gc(",", old, gc("downt", gi(d))), ga("deep"), gc("=", y, ga("caught"))),
				gc(",", old, gc(",", gc("catch", gc("first", gi(d)), gv(-1), ga("true")), gc(";", gc("->", gc("==", x, gi(2)), gc("throw", ga("late"))), ga("true")))),
			}
		}
		for _, q := range qs {
			prog := &program{clauses: deepLibrary(), query: q, nq: 2}
			out = append(out, &progCase{prog: prog, note: "deep", steps: 200000})
		}
	}
	return out
}

// ---- a caught ball that is instantiated and thrown again (C04) ------------------------
// The ball delivered to a catcher is a copy; what Recovery (or the continuation)
// binds in it must be part of the term that a later throw/1 of the same
// variable delivers.

func rethrowPrograms() []*progCase {
	v := gv
	f := func(a ...*G) *G { return gc("f", a...) }
	th := func(t *G) *G { return gc("throw", t) }
	catch := func(g, c, r *G) *G { return gc("catch", g, c, r) }
	qs := []*G{
		// catch(catch(throw(f(_)), E, (E = f(1), throw(E))), f(Y), true)
		catch(catch(th(f(v(0))), v(1), gc(",", gc("=", v(1), f(gi(1))), th(v(1)))), f(v(2)), ga("true")),
		// two variables, one bound in Recovery
		catch(catch(th(gc("g", v(0), v(3))), v(1), gc(",", gc("=", v(1), gc("g", ga("a"), gv(-1))), th(v(1)))), gc("g", v(2), v(4)), gc("=", v(4), ga("b"))),
		// not caught again: the error term carries the instantiation
		catch(th(gc("oops", v(0), v(1))), v(2), gc(",", gc("=", v(2), gc("oops", ga("a"), ga("b"))), th(v(2)))),
		// bound by the continuation of the inner catch/3, then thrown
		catch(conjOf([]*G{catch(th(f(v(0))), v(1), ga("true")), gc("=", v(1), f(gi(1))), th(v(1))}), f(v(2)), ga("true")),
		// bound through a variable inside the ball
		catch(catch(th(f(v(0))), f(v(3)), gc(",", gc("=", v(3), gi(7)), th(f(v(3))))), f(v(2)), ga("true")),
		// thrown again unchanged, and changed, after backtracking into a choice point of Recovery
		catch(catch(th(f(v(0))), v(1), gc(",", gc("member", v(3), glist([]*G{gi(1), gi(2)}, nil)), gc(",", gc("=", v(1), f(v(3))), th(v(1))))), f(v(2)), ga("true")),
		// three levels
		catch(catch(catch(th(gc("h", v(0), v(5))), v(1), gc(",", gc("=", v(1), gc("h", gi(1), gv(-1))), th(v(1)))), v(3), gc(",", gc("=", v(3), gc("h", gv(-1), gi(2))), th(v(3)))), gc("h", v(2), v(4)), ga("true")),
		// the goal of catch/3 itself is not callable: that error is raised inside this catch/3
		catch(v(0), gc("error", v(1), gv(-1)), gc("=", v(2), ga("caught"))),
		catch(gi(1), gc("error", v(1), gv(-1)), gc("=", v(2), ga("caught"))),
		gc(",", gc("=", v(0), gi(3)), catch(v(0), gc("error", gc("type_error", v(1), v(3)), gv(-1)), gc("=", v(2), ga("caught")))),
		catch(catch(v(0), ga("ball"), gc("=", v(2), ga("inner"))), gc("error", v(1), gv(-1)), gc("=", v(2), ga("outer"))),
		catch(catch(gc("foo", ga("a")), gc("error", gc("existence_error", v(1), v(3)), gv(-1)), gc("=", v(2), ga("inner"))), gv(-1), gc("=", v(2), ga("outer"))),
		catch(gc("call", gi(1)), gc("error", v(1), gv(-1)), gc("=", v(2), ga("caught"))),
		// the formal of a built-in's error, thrown again in a new error term
		catch(catch(gc("is", v(0), gc("+", ga("foo"), gi(1))), gc("error", v(1), gv(-1)), th(gc("error", v(1), ga("mine")))), gc("error", v(2), v(4)), ga("true")),
	}
	var out []*progCase
	for _, q := range qs {
		out = append(out, &progCase{prog: &program{query: renumber(q), nq: 6}, note: "rethrow"})
	}
	return out
}

// ---- an update made while a call is open (C09) -------------------------------------------
// d0/1 has k clauses 1..k.  While the call d0(X) is open and X == i, clause j is
// removed and a new clause is added (at the end, at the front, or two of them);
// the answers of the open call, and the final listing, are observed.  Exhaustive
// over k = 2..4, i, j = 1..k and four update shapes.

func openUpdatePrograms() []*progCase {
	var out []*progCase
	for k := 2; k <= 4; k++ {
		for i := 1; i <= k; i++ {
			for j := 1; j <= k; j++ {
				for shape := 0; shape < 4; shape++ {
					prog := &program{}
					for c := 1; c <= k; c++ {
						prog.clauses = append(prog.clauses, gc("d0", gi(int64(c))))
					}
					prog.clauses = append(prog.clauses, gc("d1", gi(0), gi(0)))
					var upd []*G
					switch shape {
					case 0:
						upd = []*G{gc("retract", gc("d0", gi(int64(j)))), gc("assertz", gc("d0", gi(9)))}
					case 1:
						upd = []*G{gc("retract", gc("d0", gi(int64(j)))), gc("asserta", gc("d0", gi(9)))}
					case 2:
						upd = []*G{gc("retract", gc("d0", gi(int64(j)))), gc("assertz", gc("d0", gi(8))), gc("assertz", gc("d0", gi(9)))}
					default:
						upd = []*G{gc("retract", gc("d0", gi(int64(j)))), gc("retract", gc("d0", gi(int64(j%k+1)))), gc("assertz", gc("d0", gi(9)))}
					}
					open := gc(",", gc("d0", gv(0)), gc(";", gc("->", gc("=:=", gv(0), gi(int64(i))), conjOf(upd)), ga("true")))
					prog.query = conjOf([]*G{
						gc("findall", gv(0), open, gv(1)),
						gc("findall", gv(4), gc("d0", gv(4)), gv(2)),
						gc("findall", gc("c", gv(4), gv(5)), gc("clause", gc("d0", gv(4)), gv(5)), gv(7)),
					})
					prog.nq = 8
					out = append(out, &progCase{prog: prog, dynamic: true, note: "open-update"})
				}
			}
		}
	}
	return out
}

// ---- a goal term called more than once under different bindings (C01) -----------------------
// One goal term reaches call/1 (call/N, \+, findall/3, a variable goal) through a clause
// variable and is executed again after backtracking has given its inner variable another
// value: what is executed must be the goal as it is bound now.

func metaCallPrograms() []*progCase {
	x, g := gv(0), gv(1)
	lib := []*G{
		gc("pick", gi(1)), gc("pick", gi(2)), gc("pick", gi(3)),
		gc("q", gi(2)), gc("q", gi(3)),
		gc("r", gi(1), ga("a")), gc("r", gi(3), ga("c")),
	}
	bodies := []*G{
		gc("call", g),
		g,
		gc("call", g, ga("c")),
		gc(`\+`, gc(`\+`, g)),
		gc("findall", x, g, glist([]*G{gv(-1)}, nil)),
		gc(";", g, ga("fail")),
		gc("once", g),
		gc("call", gc(",", g, ga("true"))),
	}
	var out []*progCase
	for bi, b := range bodies {
		for order := 0; order < 2; order++ {
			prog := &program{}
			prog.clauses = append(prog.clauses, lib...)
			body := gc(",", gc("pick", x), b)
			if order == 1 { // the goal is also called before the choice point, with the variable still unbound
				body = conjOf([]*G{gc(`\+`, gc(`\+`, b)), gc("pick", x), b})
			}
			prog.clauses = append(prog.clauses, renumber(gc(":-", gc("p", g, x), body)))
			goal := gc("q", gv(0))
			if bi == 2 {
				goal = gc("r", gv(0)) // closure completed by call/N
			}
			prog.query = gc("p", goal, gv(0))
			prog.nq = 1
			out = append(out, &progCase{prog: prog, note: "meta-call"})
		}
	}
	return out
}

// ---- an open retract/1 whose predicate is abolished and created again (C09) ---------------------
// d0/1 has k clauses; while retract(d0(X)) is open, at its i-th answer the predicate is
// abolished (or emptied by retractall) and then given new clauses; the retract's remaining
// answers, and the listing, are observed.

func openRetractPrograms() []*progCase {
	var out []*progCase
	for k := 2; k <= 4; k++ {
		for i := 1; i <= k; i++ {
			for shape := 0; shape < 4; shape++ {
				prog := &program{}
				for c := 1; c <= k; c++ {
					prog.clauses = append(prog.clauses, gc("d0", gi(int64(c))))
				}
				prog.clauses = append(prog.clauses, gc("d1", gi(0), gi(0)))
				var upd []*G
				switch shape {
				case 0:
					upd = []*G{gc("abolish", gc("/", ga("d0"), gi(1))), gc("assertz", gc("d0", gv(0)))}
				case 1:
					upd = []*G{gc("abolish", gc("/", ga("d0"), gi(1))), gc("assertz", gc("d0", gi(8))), gc("assertz", gc("d0", gi(9)))}
				case 2:
					upd = []*G{gc("retractall", gc("d0", gv(-1))), gc("assertz", gc("d0", gv(0)))}
				default:
					upd = []*G{gc("abolish", gc("/", ga("d0"), gi(1))), gc("asserta", gc("d0", gi(9))), gc("asserta", gc("d0", gv(0)))}
				}
				open := conjOf([]*G{gc("retract", gc("d0", gv(0))), gc("assertz", gc("d1", ga("seen"), gv(0))),
					gc(";", gc("->", gc("=:=", gv(0), gi(int64(i))), conjOf(upd)), ga("true"))})
				prog.query = conjOf([]*G{
					gc("findall", gv(0), open, gv(1)),
					gc("findall", gv(4), gc("d0", gv(4)), gv(2)),
					gc("findall", gv(4), gc("d1", ga("seen"), gv(4)), gv(3)),
				})
				prog.nq = 5
				out = append(out, &progCase{prog: prog, dynamic: true, note: "open-retract"})
			}
		}
	}
	return out
}

// ---- an exited catch/3 followed by a goal that cuts, then an error (C04) ---------------------
// catch/3 whose goal has exited (deterministically, or leaving a choice point), then a goal
// that executes a cut of its own (a user predicate with a cut, once/1, if-then-else, call((G,!)),
// \+), then an error: the exited catch must stay inactive, an outer one takes the ball.

func exitedThenCutPrograms() []*progCase {
	x, y := gv(0), gv(1)
	two := glist([]*G{gi(1), gi(2)}, nil)
	// the recovery of the exited catch has a visible effect if it is ever run: it fails, or throws another ball
	// (a recovery that only binds a variable and lets the continuation raise again ends like the right run)
	var exits []*G
	for _, rec := range []*G{ga("fail"), gc("throw", ga("intercepted"))} {
		exits = append(exits,
			gc("catch", ga("true"), gv(-1), rec),
			gc("catch", gc("member", x, two), gv(-1), rec),
			gc("catch", gc("catch", ga("true"), gv(-1), ga("true")), gv(-1), rec))
	}
	cutters := []*G{
		ga("ok"),
		gc("once", gc("member", gv(-1), two)),
		gc(";", gc("->", ga("true"), ga("true")), ga("fail")),
		gc("call", gc(",", gc("member", gv(-1), two), ga("!"))),
		gc(`\+`, ga("fail")),
		gc("okn", gv(2)),
	}
	raises := []*G{gc("throw", ga("ball"))}
	var out []*progCase
	for _, e := range exits {
		for _, c := range cutters {
			for ri, r := range raises {
				for ctx := 0; ctx < 2; ctx++ {
					prog := &program{}
					prog.clauses = append(prog.clauses, gc(":-", ga("ok"), ga("!")), ga("ok"),
						gc(":-", gc("okn", gv(0)), gc(",", gc("member", gv(0), two), ga("!"))))
					body := conjOf([]*G{e, c, r})
					var q *G
					if ctx == 0 {
						q = gc("catch", body, gv(3), gc("=", y, ga("outer")))
					} else {
						prog.clauses = append(prog.clauses, renumber(gc(":-", gc("run", x, y), body)))
						q = gc("catch", gc("run", x, y), gv(3), gc("=", y, ga("outer")))
					}
					_ = ri
					prog.query = q
					prog.nq = 4
					out = append(out, &progCase{prog: prog, note: "exited-then-cut"})
				}
			}
		}
	}
	return out
}

// ---- library predicates against their textbook definitions (C01, C16) ---------------------------
// The implementation runs member/2, select/3, append/3 (bootstrap.pl or native); M and S run
// the same call on the two-clause textbook definitions mem/2, sel/3, app/3 given as program
// text.  Lists are proper, partial and unbound, so that the answer sequences are infinite and
// only their first 12 members are compared -- the modes the relation model of C16 leaves out.

func libraryAgainstTextbook() []*progCase {
	text := []*G{
		gc("mem", gv(0), gc(".", gv(0), gv(-1))),
		gc(":-", gc("mem", gv(0), gc(".", gv(-1), gv(1))), gc("mem", gv(0), gv(1))),
		gc("sel", gv(0), gc(".", gv(0), gv(1)), gv(1)),
		gc(":-", gc("sel", gv(0), gc(".", gv(1), gv(2)), gc(".", gv(1), gv(3))), gc("sel", gv(0), gv(2), gv(3))),
		// app/3 is part of the library every generated program is loaded with
	}
	a, b, c := ga("a"), ga("b"), ga("c")
	x, y, z, t := gv(0), gv(1), gv(2), gv(3)
	calls := [][]*G{
		{ga("member"), x, glist([]*G{a}, t)}, {ga("member"), b, glist([]*G{a}, t)}, {ga("member"), a, y}, {ga("member"), x, y},
		{ga("member"), x, glist([]*G{a, b, c}, nil)}, {ga("member"), b, glist([]*G{a, b, c}, t)}, {ga("member"), x, glist([]*G{a, y}, t)},
		{ga("member"), gc("f", x), glist([]*G{gc("f", a), gc("g", b)}, t)},
		{ga("select"), x, glist([]*G{a}, t), z}, {ga("select"), a, y, glist([]*G{b}, nil)}, {ga("select"), x, glist([]*G{a, b, c}, nil), z},
		{ga("select"), b, glist([]*G{a}, t), z}, {ga("select"), x, y, glist([]*G{a, b}, nil)}, {ga("select"), x, y, z},
		{ga("append"), x, y, glist([]*G{a, b}, nil)}, {ga("append"), glist([]*G{a}, t), y, z}, {ga("append"), x, glist([]*G{b}, nil), glist([]*G{a}, t)},
		{ga("append"), x, y, z}, {ga("append"), glist([]*G{a, b}, nil), y, z}, {ga("append"), x, glist([]*G{c}, nil), z},
	}
	spec := map[string]string{"member": "mem", "select": "sel", "append": "app"}
	var out []*progCase
	for _, cl := range calls {
		name := cl[0].S
		for ctx := 0; ctx < 2; ctx++ {
			goal, sgoal := gc(name, cl[1:]...), gc(spec[name], cl[1:]...)
			if ctx == 1 { // after an older choice point, and followed by a test
				pre := gc("member", gv(4), glist([]*G{gi(1), gi(2)}, nil))
				spre := gc("mem", gv(4), glist([]*G{gi(1), gi(2)}, nil))
				goal, sgoal = gc(",", pre, goal), gc(",", spre, sgoal)
			}
			prog := &program{clauses: text, query: goal, nq: 5}
			out = append(out, &progCase{prog: prog, spec: sgoal, note: "library-vs-textbook"})
		}
	}
	return out
}

// ---- a cut in the only clause that a bound first argument selects (C03) -------------------------
// All clauses of sel/2 have an atom or integer as first head argument; the call binds it, so one
// clause matches; that clause cuts; an older choice point is pending.

func indexedCutPrograms() []*progCase {
	x, y := gv(0), gv(1)
	two := glist([]*G{gi(1), gi(2)}, nil)
	old := gc("member", y, glist([]*G{ga("u"), ga("v")}, nil))
	bodies := []*G{
		ga("!"),
		gc(",", gc("member", x, two), ga("!")),
		conjOf([]*G{gc("member", x, two), ga("!"), gc("member", gv(2), two)}),
		gc(";", gc("->", gc("member", x, two), ga("true")), ga("fail")),
		gc("once", gc("member", x, two)),
	}
	var out []*progCase
	for _, b := range bodies {
		for _, key := range []*G{ga("a"), gi(7)} {
			for pos := 0; pos < 2; pos++ {
				other := []*G{ga("b"), gi(8)}
				cut := renumber(gc(":-", gc("sel", key, x), b))
				rest := []*G{gc("sel", other[0], gi(3)), gc("sel", other[1], gi(4))}
				prog := &program{}
				if pos == 0 {
					prog.clauses = append([]*G{cut}, rest...)
				} else {
					prog.clauses = append(rest, cut)
				}
				for _, q := range []*G{gc(",", old, gc("sel", key, x)), gc(",", gc("sel", key, x), old), conjOf([]*G{old, gc("=", gv(3), key), gc("sel", gv(3), x)})} {
					out = append(out, &progCase{prog: &program{clauses: prog.clauses, query: q, nq: 4}, note: "indexed-cut"})
				}
			}
		}
	}
	return out
}
