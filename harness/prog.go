package main

// Random Prolog programs and queries over a small signature, shared by the
// engine properties (C01 C03 C04 C09 C10 C11 C13).  One abstract syntax is
// rendered twice: as Prolog text for the implementation (operator notation,
// so that the real reader is part of the path) and as a Coq term for the model.

import (
	"fmt"
	"strings"
)

// G is a term / goal of the generated programs.
type G struct {
	K    byte // 'v' var, 'a' atom, 'i' int, 'c' compound (incl. control constructs and lists)
	S    string
	I    int64
	V    int
	Args []*G
	Q    bool // a proper list of one-letter atoms written as a double-quoted string (double_quotes=chars): string-backed in the engine
}

// gstr is the list of the characters of s, written as "s"
func gstr(s string) *G {
	var es []*G
	for _, r := range s {
		es = append(es, ga(string(r)))
	}
	l := glist(es, nil)
	l.Q = len(es) > 0
	return l
}

func gv(i int) *G            { return &G{K: 'v', V: i} }
func ga(s string) *G         { return &G{K: 'a', S: s} }
func gi(i int64) *G          { return &G{K: 'i', I: i} }
func gc(f string, a ...*G) *G { return &G{K: 'c', S: f, Args: a} }
func glist(es []*G, tail *G) *G {
	if tail == nil {
		tail = ga("[]")
	}
	for i := len(es) - 1; i >= 0; i-- {
		tail = gc(".", es[i], tail)
	}
	return tail
}

var infixOps = map[string]bool{",": true, ";": true, "->": true, "=": true, `\=`: true, "==": true, `\==`: true, "is": true,
	"<": true, ">": true, "=<": true, ">=": true, "=:=": true, `=\=`: true, "+": true, "-": true, "*": true, ":-": true, "^": true, "@<": true, "@>": true, "=..": true}

// text renders in operator notation with full bracketing.
func (g *G) text() string {
	switch g.K {
	case 'v':
		if g.V < 0 {
			return "_"
		}
		return fmt.Sprintf("V%d", g.V)
	case 'a':
		return quoteAtom(g.S)
	case 'i':
		return fmt.Sprint(g.I)
	case 'f':
		return g.S
	}
	if g.S == "." && len(g.Args) == 2 {
		var es []string
		t := g
		for t.K == 'c' && t.S == "." && len(t.Args) == 2 {
			es = append(es, t.Args[0].text())
			t = t.Args[1]
		}
		if t.K == 'a' && t.S == "[]" {
			if g.Q {
				q := ""
				for x := g; x.K == 'c'; x = x.Args[1] {
					q += x.Args[0].S
				}
				return `"` + q + `"`
			}
			return "[" + strings.Join(es, ",") + "]"
		}
		return "[" + strings.Join(es, ",") + "|" + t.text() + "]"
	}
	if len(g.Args) == 2 && infixOps[g.S] {
		return "(" + g.Args[0].text() + " " + g.S + " " + g.Args[1].text() + ")"
	}
	if len(g.Args) == 1 && g.S == `\+` {
		return `(\+ ` + g.Args[0].text() + ")"
	}
	var as []string
	for _, a := range g.Args {
		as = append(as, a.text())
	}
	return quoteAtom(g.S) + "(" + strings.Join(as, ",") + ")"
}

var anonCounter int

func (g *G) coq() string {
	switch g.K {
	case 'v':
		if g.V < 0 { // anonymous: a distinct variable at each occurrence
			anonCounter++
			return fmt.Sprintf("Var %d", 500000+anonCounter)
		}
		return fmt.Sprintf("Var %d", g.V)
	case 'a':
		return "Atom " + coqStr(g.S)
	case 'i':
		return "Int " + coqZ(g.I)
	}
	var as []string
	for _, a := range g.Args {
		as = append(as, "("+a.coq()+")")
	}
	return "Cmp " + coqStr(g.S) + " " + coqList(as)
}

func (g *G) hasVar(v int) bool {
	if g.K == 'v' {
		return g.V == v
	}
	for _, a := range g.Args {
		if a.hasVar(v) {
			return true
		}
	}
	return false
}

func (g *G) maxVar() int {
	m := -1
	if g.K == 'v' {
		m = g.V
	}
	for _, a := range g.Args {
		if x := a.maxVar(); x > m {
			m = x
		}
	}
	return m
}

// ---- generation -------------------------------------------------------------------

type feat struct {
	cut, ite, neg, catch, findall, bag, callN, nestedOr, topOr, arith, db, once, builtinErr bool
}

type pgen struct {
	r     *rng
	f     feat
	preds []predSig // user predicates p0..pn
	nvars int       // size of the clause's variable pool
}

type predSig struct {
	name  string
	arity int
}

var genAtoms = []string{"a", "b", "c"}

func (p *pgen) term(depth int) *G {
	r := p.r
	switch n := r.intn(12); {
	case n < 4:
		return gv(r.intn(p.nvars))
	case n < 6:
		return ga(genAtoms[r.intn(len(genAtoms))])
	case n < 8:
		return gi(int64(r.intn(4)))
	case depth <= 0:
		return ga(genAtoms[r.intn(len(genAtoms))])
	case n == 8:
		// the same functor names occur with arity 1 and 2
		return gc([]string{"f", "g"}[r.intn(2)], p.term(depth-1))
	case n == 9:
		return gc([]string{"g", "f"}[r.intn(2)], p.term(depth-1), p.term(depth-1))
	case n == 10:
		var es []*G
		for i, k := 0, r.intn(3); i < k; i++ {
			es = append(es, p.term(depth-1))
		}
		return glist(es, nil)
	default:
		var es []*G
		for i, k := 0, 1+r.intn(2); i < k; i++ {
			es = append(es, p.term(depth-1))
		}
		return glist(es, gv(r.intn(p.nvars)))
	}
}

func (p *pgen) smallList() *G {
	var es []*G
	for i, k := 0, 1+p.r.intn(3); i < k; i++ {
		if p.r.coin(0.5) {
			es = append(es, gi(int64(p.r.intn(4))))
		} else {
			es = append(es, ga(genAtoms[p.r.intn(len(genAtoms))]))
		}
	}
	return glist(es, nil)
}

// userCall: a call to a user predicate with index >= from (keeps the call graph
// acyclic so that most programs terminate; recursion comes from the library).
func (p *pgen) userCall(from int) *G {
	if from >= len(p.preds) {
		return nil
	}
	s := p.preds[from+p.r.intn(len(p.preds)-from)]
	var as []*G
	for i := 0; i < s.arity; i++ {
		as = append(as, p.term(1))
	}
	if s.arity == 0 {
		return ga(s.name)
	}
	return gc(s.name, as...)
}

// goal generates one body goal; from = first user predicate it may call; inCall =
// nested under call/findall/... (no clause-level cut there unless allowed by the property)
func (p *pgen) goal(depth, from int, allowCut bool) *G {
	r, f := p.r, p.f
	for tries := 0; tries < 20; tries++ {
		switch r.intn(24) {
		case 0, 1, 2, 3:
			if g := p.userCall(from); g != nil {
				return g
			}
		case 4, 5:
			// never X = t with X inside t (subject to occurs check: excluded by the properties)
			v := r.intn(p.nvars)
			t := p.term(2)
			if !t.hasVar(v) || t.K == 'v' {
				return gc("=", gv(v), t)
			}
		case 6:
			return gc("member", gv(r.intn(p.nvars)), p.smallList())
		case 7:
			return gc("app", p.term(1), p.term(1), p.term(1)) // library append/3
		case 8:
			if f.arith {
				switch r.intn(3) {
				case 0:
					return gc("is", gv(r.intn(p.nvars)), gc("+", p.numTerm(), gi(1)))
				case 1:
					return gc(">", p.numTerm(), gi(int64(r.intn(3))))
				default:
					return gc("between", gi(int64(r.intn(2))), gi(int64(1+r.intn(3))), gv(r.intn(p.nvars)))
				}
			}
		case 9:
			if f.cut && allowCut {
				return ga("!")
			}
		case 10:
			if f.nestedOr && depth > 0 {
				return gc(";", p.conj(depth-1, from, false), p.conj(depth-1, from, false))
			}
		case 11:
			if f.ite && depth > 0 {
				if r.coin(0.7) {
					return gc(";", gc("->", p.conj(depth-1, from, false), p.conj(depth-1, from, false)), p.conj(depth-1, from, false))
				}
				return gc("->", p.conj(depth-1, from, false), p.conj(depth-1, from, false))
			}
		case 12:
			if f.neg && depth > 0 {
				return gc(`\+`, p.conj(depth-1, from, f.cut))
			}
		case 13:
			if f.callN && depth > 0 {
				if r.coin(0.6) {
					return gc("call", p.conj(depth-1, from, f.cut))
				}
				if g := p.userCall(from); g != nil && g.K == 'c' && len(g.Args) >= 1 {
					k := 1 + r.intn(len(g.Args))
					closure := gc(g.S, g.Args[:len(g.Args)-k]...)
					if len(closure.Args) == 0 {
						closure = ga(g.S)
					}
					return gc("call", append([]*G{closure}, g.Args[len(g.Args)-k:]...)...)
				}
			}
		case 22, 23:
			// a goal reached through a variable bound at run time (variable goals, and control
			// constructs whose parts are bound variables when call/1 compiles them)
			if f.callN && depth > 0 {
				mv := gv(p.nvars + r.intn(2))
				switch r.intn(5) {
				case 0:
					return gc(",", gc("=", mv, p.conj(depth-1, from, false)), mv)
				case 1:
					if f.ite {
						return gc(",", gc("=", mv, gc("->", p.conj(depth-1, from, false), p.conj(depth-1, from, false))),
							gc("call", gc(";", mv, p.conj(depth-1, from, false))))
					}
				case 2:
					return gc(",", gc("=", mv, p.conj(depth-1, from, false)), gc("call", gc(";", mv, p.conj(depth-1, from, false))))
				case 3:
					return gc(",", gc("=", mv, p.conj(depth-1, from, false)), gc("call", gc(",", p.goal(depth-1, from, false), mv)))
				default:
					if f.findall {
						return gc(",", gc("=", mv, p.conj(depth-1, from, false)), gc("findall", p.term(1), mv, gv(r.intn(p.nvars))))
					}
				}
			}
		case 14:
			if f.once && depth > 0 {
				return gc("once", p.conj(depth-1, from, f.cut))
			}
		case 15:
			if f.findall && depth > 0 {
				return gc("findall", p.term(1), p.conj(depth-1, from, f.cut), gv(r.intn(p.nvars)))
			}
		case 16:
			if f.catch && depth > 0 {
				if r.coin(0.3) {
					// nested catch/3 goals that have all exited, then an error: none of them is active any more
					inner := gc("catch", p.goal(0, from, false), p.catcher(), p.goal(0, from, false))
					if r.coin(0.4) {
						inner = gc(",", inner, gc("catch", p.goal(0, from, false), p.catcher(), ga("true")))
					}
					outer := gc("catch", inner, []*G{gv(-1), gv(-1), p.catcher()}[r.intn(3)], gc("=", gv(r.intn(p.nvars)), ga("caught")))
					var late *G
					if r.coin(0.6) {
						late = gc("throw", p.ball())
					} else {
						late = gc("is", gv(r.intn(p.nvars)), gc("+", ga("foo"), gi(1)))
					}
					if r.coin(0.5) {
						return gc(",", outer, late)
					}
					return gc(",", outer, gc(",", p.goal(0, from, false), late))
				}
				if r.coin(0.25) {
					// a catch/3 that is re-entered by backtracking after it has exited: its goal is nondeterministic,
					// raises on a later solution, and the continuation rejects the earlier ones; the catch is active again
					v := gv(r.intn(p.nvars))
					k := 2 + r.intn(2)
					els := []*G{gi(1), gi(2), gi(3)}[:k]
					var raise *G
					if r.coin(0.6) {
						raise = gc("throw", p.ball())
					} else {
						raise = gc("is", gv(-1), gc("+", ga("foo"), gi(1)))
					}
					bad := gi(int64(2 + r.intn(k-1)))
					inner := gc("catch", gc(",", gc("member", v, glist(els, nil)), gc(";", gc("->", gc("==", v, bad), raise), ga("true"))),
						[]*G{gv(-1), p.catcher(), p.catcher()}[r.intn(3)], gc("=", v, ga("caught")))
					reject := gc(`\==`, v, gi(1))
					if r.coin(0.3) {
						reject = gc(`\==`, v, gi(int64(1+r.intn(2))))
					}
					g := gc(",", inner, reject)
					if r.coin(0.4) { // an outer catch/3 that must not see the ball when the inner one takes it
						g = gc("catch", g, gv(-1), gc("=", v, ga("outer")))
					}
					if r.coin(0.3) && f.findall {
						g = gc("findall", v, inner, gv(r.intn(p.nvars)))
					}
					return g
				}
				return gc("catch", p.conj(depth-1, from, f.cut), p.catcher(), p.conj(depth-1, from, false))
			}
		case 17:
			if f.catch {
				return gc("throw", p.ball())
			}
		case 18:
			if f.bag && depth > 0 {
				g := p.conj(depth-1, from, false)
				if r.coin(0.4) {
					// setof: the template is a variable made ground by the goal, so that the sorted
					// result does not hinge on the order of distinct unbound variables
					tv := gv(r.intn(p.nvars))
					g = gc(",", gc("member", tv, p.smallList()), g)
					if r.coin(0.3) {
						g = gc("^", gv(r.intn(p.nvars)), g)
					}
					return gc("setof", tv, g, gv(r.intn(p.nvars)))
				}
				if r.coin(0.3) {
					g = gc("^", gv(r.intn(p.nvars)), g)
				}
				if r.coin(0.3) {
					// the (quantified) goal, or its inner part, reaches bagof through a bound variable
					mv := gv(p.nvars + r.intn(2))
					if g.K == 'c' && g.S == "^" && r.coin(0.5) {
						return gc(",", gc("=", mv, g.Args[1]), gc("bagof", p.term(1), gc("^", g.Args[0], mv), gv(r.intn(p.nvars))))
					}
					return gc(",", gc("=", mv, g), gc("bagof", p.term(1), mv, gv(r.intn(p.nvars))))
				}
				return gc("bagof", p.term(1), g, gv(r.intn(p.nvars)))
			}
		case 19:
			if f.builtinErr {
				switch r.intn(3) {
				case 0:
					return gc("is", gv(r.intn(p.nvars)), gc("+", ga("foo"), gi(1)))
				case 1:
					return gc("arg", ga("x"), gc("f", ga("a")), gv(r.intn(p.nvars)))
				default:
					return gc("functor", gv(r.intn(p.nvars)), gv(r.intn(p.nvars)), gi(1))
				}
			}
		case 20:
			return ga("true")
		case 21:
			if r.coin(0.3) {
				return ga("fail")
			}
		}
	}
	return ga("true")
}

func (p *pgen) numTerm() *G {
	if p.r.coin(0.6) {
		return gv(p.r.intn(p.nvars))
	}
	return gi(int64(p.r.intn(4)))
}

func (p *pgen) catcher() *G {
	switch p.r.intn(4) {
	case 0:
		return gv(p.r.intn(p.nvars))
	case 1:
		return gc("error", gv(p.r.intn(p.nvars)), gv(-1)) // the Context is implementation defined: never observed
	default:
		return p.ball()
	}
}

func (p *pgen) ball() *G {
	switch p.r.intn(4) {
	case 0:
		return ga("oops")
	case 1:
		return gc("b", gi(int64(p.r.intn(3))))
	case 2:
		return gc("b", gv(p.r.intn(p.nvars)))
	default:
		return gv(p.r.intn(p.nvars))
	}
}

// conj: a right-nested conjunction of 1..3 goals
func (p *pgen) conj(depth, from int, allowCut bool) *G {
	n := 1 + p.r.intn(3)
	var gs []*G
	for i := 0; i < n; i++ {
		gs = append(gs, p.goal(depth, from, allowCut))
	}
	if n == 3 && p.r.coin(0.3) { // left-nested: ((a, b), c) -- a conjunction in goal position is transparent to cut
		return gc(",", gc(",", gs[0], gs[1]), gs[2])
	}
	return conjOf(gs)
}

func conjOf(gs []*G) *G {
	g := gs[len(gs)-1]
	for i := len(gs) - 2; i >= 0; i-- {
		g = gc(",", gs[i], g)
	}
	return g
}

// library: terminating recursive predicates on lists (direct and mutual recursion)
var libraryText = `
app([], L, L).
app([H|T], L, [H|R]) :- app(T, L, R).
len([], 0).
len([_|T], N) :- len(T, M), N is M + 1.
ev([]).
ev([_|T]) :- od(T).
od([_|T]) :- ev(T).
`

func libraryClauses() []*G {
	return []*G{
		gc("app", ga("[]"), gv(0), gv(0)),
		gc(":-", gc("app", glist([]*G{gv(0)}, gv(1)), gv(2), glist([]*G{gv(0)}, gv(3))), gc("app", gv(1), gv(2), gv(3))),
		gc("len", ga("[]"), gi(0)),
		gc(":-", gc("len", glist([]*G{gv(0)}, gv(1)), gv(2)), gc(",", gc("len", gv(1), gv(3)), gc("is", gv(2), gc("+", gv(3), gi(1))))),
		gc("ev", ga("[]")),
		gc(":-", gc("ev", glist([]*G{gv(0)}, gv(1))), gc("od", gv(1))),
		gc(":-", gc("od", glist([]*G{gv(0)}, gv(1))), gc("ev", gv(1))),
	}
}

type program struct {
	clauses []*G // clause terms (variables numbered per clause)
	query   *G
	nq      int // number of query variables (V0..V{nq-1})
}

func genProgram(r *rng, f feat) *program {
	p := &pgen{r: r, f: f}
	np := 1 + r.intn(5)
	for i := 0; i < np; i++ {
		p.preds = append(p.preds, predSig{fmt.Sprintf("p%d", i), r.intn(4)})
	}
	prog := &program{}
	for i, s := range p.preds {
		nc := 1 + r.intn(4)
		for c := 0; c < nc; c++ {
			p.nvars = 2 + r.intn(3)
			var head *G
			if s.arity == 0 {
				head = ga(s.name)
			} else {
				var as []*G
				for a := 0; a < s.arity; a++ {
					if r.coin(0.35) {
						// a structure of distinct variables / constants: pair(_,_), [H|T], f(X,a)
						switch r.intn(3) {
						case 0:
							as = append(as, gc([]string{"f", "g"}[r.intn(2)], gv(r.intn(p.nvars)), gv(r.intn(p.nvars))))
						case 1:
							as = append(as, glist([]*G{gv(r.intn(p.nvars))}, gv(r.intn(p.nvars))))
						default:
							as = append(as, gc([]string{"f", "g"}[r.intn(2)], gv(r.intn(p.nvars))))
						}
					} else {
						as = append(as, p.term(2))
					}
				}
				head = gc(s.name, as...)
			}
			nb := r.intn(4)
			if nb == 0 {
				prog.clauses = append(prog.clauses, renumber(head))
				continue
			}
			var body *G
			if f.topOr && r.coin(0.35) {
				// top-level disjunction: each disjunct is a conjunction in which cut is clause-level
				alt := func() *G {
					if r.coin(0.4) {
						return p.goal(1, i+1, true) // a single (short) goal
					}
					return p.conj(2, i+1, true)
				}
				body = gc(";", alt(), alt())
				if r.coin(0.4) {
					body = gc(";", alt(), body)
				}
			} else if f.cut && r.coin(0.25) {
				// several cuts in one activation: g, !, g, !, g, ! ... (three to five), also grouped on the left
				var gs []*G
				for k, nk := 0, 3+r.intn(3); k < nk; k++ {
					if r.coin(0.6) {
						gs = append(gs, p.goal(1, i+1, false))
					}
					gs = append(gs, ga("!"))
				}
				body = conjOf(gs)
				if len(gs) >= 4 && r.coin(0.3) {
					body = gc(",", gc(",", gs[0], gs[1]), conjOf(gs[2:]))
				}
			} else {
				body = p.conj(2, i+1, true)
			}
			prog.clauses = append(prog.clauses, renumber(gc(":-", head, body)))
		}
	}
	p.nvars = 1 + r.intn(3)
	prog.nq = p.nvars
	q := p.conj(2, 0, false)
	prog.query = q
	return prog
}

// renumber renames the variables of a clause by first occurrence (0,1,2...).
func renumber(g *G) *G {
	m := map[int]int{}
	var walk func(*G) *G
	walk = func(x *G) *G {
		switch x.K {
		case 'v':
			if x.V < 0 {
				return x
			}
			n, ok := m[x.V]
			if !ok {
				n = len(m)
				m[x.V] = n
			}
			return gv(n)
		case 'c':
			y := &G{K: 'c', S: x.S, Q: x.Q}
			for _, a := range x.Args {
				y.Args = append(y.Args, walk(a))
			}
			return y
		}
		return x
	}
	return walk(g)
}

func (p *program) text() string {
	var b strings.Builder
	b.WriteString(libraryText)
	for _, c := range p.clauses {
		b.WriteString(c.text())
		b.WriteString(".\n")
	}
	return b.String()
}

func (p *program) coqClauses() string {
	var cs []string
	for _, c := range append(libraryClauses(), p.clauses...) {
		cs = append(cs, "("+c.coq()+")")
	}
	return coqList(cs)
}

// queryVarIdx: the variables that occur in the query, by index.
func (p *program) queryVarIdx() []int {
	var is []int
	for i := 0; i <= p.query.maxVar(); i++ {
		if p.query.hasVar(i) {
			is = append(is, i)
		}
	}
	return is
}

func (p *program) queryVars() []string {
	var ns []string
	for _, i := range p.queryVarIdx() {
		ns = append(ns, fmt.Sprintf("V%d", i))
	}
	return ns
}
