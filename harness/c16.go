package main

// C16: relational built-ins enumerate exactly their relation in every call mode.

import (
	"context"
	"fmt"
	"math"
	"path/filepath"
	"strings"
	"time"

	"github.com/ichiban/prolog"
)

var c16Atoms = []string{"", "a", "ab", "abc", "aba", "aaa", "é", "日本", "aé日", "a b", "ééé", "𠀋x", "x𠀋y", "hello", "日本語テキスト", "añb"}

type c16gen struct {
	r    *rng
	nvar int
}

func (g *c16gen) v() *G {
	if g.nvar > 0 && g.r.coin(0.12) {
		return gv(g.r.intn(g.nvar))
	}
	g.nvar++
	return gv(g.nvar - 1)
}

// pick: a variable, the true value, or another value
func (g *c16gen) pick(truth *G, wrong ...*G) *G {
	switch c := g.r.intn(20); {
	case c < 10:
		return g.v()
	case c < 17 || len(wrong) == 0:
		return truth
	default:
		return wrong[g.r.intn(len(wrong))]
	}
}

func (g *c16gen) atom() string { return c16Atoms[g.r.intn(len(c16Atoms))] }

func runesOf(s string) []string {
	var rs []string
	for _, c := range s {
		rs = append(rs, string(c))
	}
	return rs
}

func (g *c16gen) elem() *G {
	switch g.r.intn(8) {
	case 0:
		return g.v()
	case 1:
		return gi(int64(g.r.intn(4)))
	case 2:
		return gc("f", ga("x"))
	default:
		return ga([]string{"a", "b", "c", "é"}[g.r.intn(4)])
	}
}

func (g *c16gen) list(max int) []*G {
	var es []*G
	for i, n := 0, g.r.intn(max+1); i < n; i++ {
		es = append(es, g.elem())
	}
	return es
}

func charList(rs []string) *G {
	var es []*G
	for _, c := range rs {
		es = append(es, ga(c))
	}
	return glist(es, nil)
}
func codeList(rs []string) *G {
	var es []*G
	for _, c := range rs {
		es = append(es, gi(int64([]rune(c)[0])))
	}
	return glist(es, nil)
}

func (g *c16gen) call() (string, []*G) {
	r := g.r
	switch r.intn(19) {
	case 0:
		a := g.atom()
		n := int64(len(runesOf(a)))
		return "atom_length", []*G{ga(a), g.pick(gi(n), gi(int64(len(a))), gi(n+1))}
	case 1:
		c := g.atom()
		rs := runesOf(c)
		k := r.intn(len(rs) + 1)
		x, y := strings.Join(rs[:k], ""), strings.Join(rs[k:], "")
		return "atom_concat", []*G{g.pick(ga(x), ga("zz"), ga(g.atom())), g.pick(ga(y), ga("zz"), ga(g.atom())), ga(c)}
	case 2:
		a, b := g.atom(), g.atom()
		return "atom_concat", []*G{ga(a), ga(b), g.pick(ga(a+b), ga(b+a))}
	case 3, 4:
		a := g.atom()
		rs := runesOf(a)
		b := r.intn(len(rs) + 1)
		l := r.intn(len(rs) - b + 1)
		sub := strings.Join(rs[b:b+l], "")
		return "sub_atom", []*G{ga(a), g.pick(gi(int64(b)), gi(int64(b+1))), g.pick(gi(int64(l)), gi(int64(len(sub)))), g.pick(gi(int64(len(rs)-b-l)), gi(0)),
			g.pick(ga(sub), ga(g.atom()), ga("zz"))}
	case 5:
		a := g.atom()
		rs := runesOf(a)
		if r.coin(0.3) {
			return "atom_chars", []*G{g.v(), charList(rs)}
		}
		var partial *G
		if len(rs) > 0 {
			es := []*G{}
			for _, c := range rs[:r.intn(len(rs))+1] {
				es = append(es, ga(c))
			}
			partial = glist(es, g.v())
		} else {
			partial = g.v()
		}
		return "atom_chars", []*G{ga(a), g.pick(charList(rs), partial, charList(runesOf(g.atom())))}
	case 6:
		a := g.atom()
		rs := runesOf(a)
		if r.coin(0.3) {
			return "atom_codes", []*G{g.v(), codeList(rs)}
		}
		return "atom_codes", []*G{ga(a), g.pick(codeList(rs), codeList(runesOf(g.atom())), glist([]*G{g.v()}, g.v()))}
	case 7:
		c := []string{"a", "é", "日", "𠀋", " ", "z"}[r.intn(6)]
		code := int64([]rune(c)[0])
		if r.coin(0.25) {
			// not character codes, some of them character codes in their low 32 bits: representation_error
			bad := []int64{-1, 1114112, 4294967296 + code, 4294967296, 1 << 40, -4294967296 + code}[r.intn(6)]
			if r.coin(0.5) {
				return "atom_codes", []*G{g.v(), glist([]*G{gi(97), gi(bad)}, nil)}
			}
			return "char_code", []*G{g.v(), gi(bad)}
		}
		if r.coin(0.4) {
			return "char_code", []*G{g.v(), gi(code)}
		}
		return "char_code", []*G{ga(c), g.pick(gi(code), gi(code+1), gi(int64(c[0])))}
	case 8:
		if r.coin(0.35) {
			if r.coin(0.3) {
				return "functor", []*G{g.v(), []*G{gi(7), ga("foo"), ga("[]")}[r.intn(3)], gi(0)}
			}
			return "functor", []*G{g.v(), ga([]string{"foo", ".", "é"}[r.intn(3)]), gi(int64(r.intn(4)))}
		}
		ts := []*G{ga("foo"), gi(3), gc("foo", ga("a"), g.v()), glist(g.list(2), nil), gc("é", g.v(), g.v(), ga("b"))}
		t := ts[r.intn(len(ts))]
		name, ar := t, int64(0)
		if t.K == 'c' {
			name, ar = ga(t.S), int64(len(t.Args))
		}
		return "functor", []*G{t, g.pick(name, ga("bar")), g.pick(gi(ar), gi(ar+1))}
	case 9:
		args := g.list(4)
		if len(args) == 0 {
			args = []*G{ga("a")}
		}
		t := gc("foo", args...)
		k := r.intn(len(args))
		return "arg", []*G{[]*G{gi(int64(k + 1)), gi(int64(k + 1)), gi(int64(k + 1)), gi(0), gi(int64(len(args) + 1))}[r.intn(5)], t, g.pick(args[k], ga("zz"))}
	case 10:
		if r.coin(0.35) {
			es := append([]*G{ga([]string{"foo", "é", "."}[r.intn(3)])}, g.list(3)...)
			if r.coin(0.15) {
				es = []*G{gi(5)}
			}
			return "=..", []*G{g.v(), glist(es, nil)}
		}
		args := g.list(3)
		var t *G
		var l *G
		if len(args) == 0 {
			t = []*G{ga("foo"), gi(4)}[r.intn(2)]
			l = glist([]*G{t}, nil)
		} else {
			t = gc("foo", args...)
			l = glist(append([]*G{ga("foo")}, args...), nil)
		}
		if r.coin(0.4) {
			// a bound term against a partial list whose known prefix has 0 .. arity+2 elements
			full := append([]*G{ga("foo")}, args...)
			if len(args) == 0 {
				full = []*G{t}
			}
			k := r.intn(len(full) + 2)
			pre := append([]*G{}, full...)
			if k > len(pre) {
				pre = append(pre, g.v())
			} else {
				pre = pre[:k]
			}
			return "=..", []*G{t, glist(pre, g.v())}
		}
		return "=..", []*G{t, g.pick(l, glist([]*G{ga("foo")}, g.v()), glist([]*G{g.v(), g.v()}, nil))}
	case 11:
		if r.coin(0.6) {
			z := g.list(5)
			k := r.intn(len(z) + 1)
			return "append", []*G{g.pick(glist(z[:k], nil), glist(g.list(2), nil)), g.pick(glist(z[k:], nil), glist(g.list(2), nil)), glist(z, nil)}
		}
		x := g.list(3)
		y := []*G{g.v(), glist(g.list(2), nil), glist(g.list(1), g.v())}[r.intn(3)]
		return "append", []*G{glist(x, nil), y, g.pick(g.v(), glist(append(append([]*G{}, x...), ga("q")), nil))}
	case 12:
		if r.coin(0.6) {
			l := g.list(5)
			return "length", []*G{glist(l, nil), g.pick(gi(int64(len(l))), gi(int64(len(l)+1)), gi(0))}
		}
		l := g.list(3)
		return "length", []*G{glist(l, g.v()), gi(int64(r.intn(6)))}
	case 13, 14:
		bases := []int64{0, -3, 1, 5, math.MaxInt64, math.MaxInt64 - 1, math.MaxInt64 - 4, math.MinInt64, math.MinInt64 + 2}
		lo := bases[r.intn(len(bases))]
		w := int64(r.intn(8)) - 1
		hi := lo + w
		if (w > 0 && hi < lo) || (w < 0 && hi > lo) { // past the 64-bit limit
			hi = math.MaxInt64
			if lo < 0 {
				hi = lo
			}
		}
		in := lo
		if hi > lo {
			in = lo + int64(r.intn(int(hi-lo)+1))
		}
		out := hi
		if hi < math.MaxInt64 {
			out = hi + 1
		}
		return "between", []*G{gi(lo), gi(hi), g.pick(gi(in), gi(out))}
	case 15:
		l := g.list(5)
		name := []string{"nth0", "nth1"}[r.intn(2)]
		k := int64(r.intn(len(l) + 1))
		e := ga("zz")
		if int(k) < len(l) {
			e = l[k]
		}
		if name == "nth1" {
			k++
		}
		if r.coin(0.35) {
			// the index variable also occurs in the element or in the list: nth0(X, [5,1,7], X),
			// nth1(I, [f(1),f(5),f(3)], f(I)), nth0(I, [a,I,2], E)
			n := 2 + r.intn(3)
			var ns []*G
			for i := 0; i < n; i++ {
				ns = append(ns, gi(int64(r.intn(n+1))))
			}
			iv := g.v()
			switch r.intn(4) {
			case 0:
				return name, []*G{iv, glist(ns, nil), iv}
			case 1:
				var fs []*G
				for _, x := range ns {
					fs = append(fs, gc("f", x))
				}
				return name, []*G{iv, glist(fs, nil), gc("f", iv)}
			case 2:
				ns[r.intn(n)] = iv
				return name, []*G{iv, glist(ns, nil), g.v()}
			default:
				ns[r.intn(n)] = iv
				return name, []*G{iv, glist(ns, nil), gi(int64(r.intn(n + 1)))}
			}
		}
		return name, []*G{g.pick(gi(k), gi(0), gi(int64(len(l))+1)), glist(l, nil), g.pick(e, ga("a"))}
	case 16:
		l := g.list(5)
		e := ga("zz")
		if len(l) > 0 {
			e = l[r.intn(len(l))]
		}
		return "member", []*G{g.pick(e, ga("a"), ga("zz")), glist(l, nil)}
	case 17:
		l := g.list(5)
		e, rest := ga("zz"), glist(nil, nil)
		if len(l) > 0 {
			k := r.intn(len(l))
			e = l[k]
			rest = glist(append(append([]*G{}, l[:k]...), l[k+1:]...), nil)
		}
		return "select", []*G{g.pick(e, ga("a")), glist(l, nil), g.pick(rest, glist(g.list(2), nil))}
	default:
		xs := []int64{0, 1, 2, 41, math.MaxInt64 - 1, math.MaxInt64 - 2}
		x := xs[r.intn(len(xs))]
		if r.coin(0.4) {
			return "succ", []*G{g.v(), gi(x + 1)}
		}
		return "succ", []*G{gi(x), g.pick(gi(x+1), gi(x), gi(0))}
	}
}

const c16Cap = 700

func runC16(outDir string, seed int64, tier string) {
	start := time.Now()
	sum := newSummary("C16", seed, tier)
	r := &rng{s: uint64(seed) ^ hashString("C16")}
	n := 1500
	if tier == "thorough" {
		n = 30000
	}
	p := prolog.New(nil, nil)
	var cases []string
	seen := map[string]bool{}
	for id := 0; id < n; id++ {
		g := &c16gen{r: r.split()}
		name, args := g.call()
		directed := id < 72
		if directed {
			// append/3 over first lists of 2-4 elements whose spine runs through bound variables, with the
			// second list closed, unbound or partial and the third unbound, right or wrong
			var x []*G
			for j, l := 0, 2+id%3; j < l; j++ {
				x = append(x, ga([]string{"a", "b", "c", "d"}[(id+j)%4]))
			}
			ys := [][]*G{{ga("y")}, {ga("y"), ga("z")}, {}}[id/3%3]
			y := glist(ys, nil)
			if id/9%4 == 3 {
				y = g.v()
			}
			full := glist(append(append([]*G{}, x...), ys...), nil)
			z := []*G{g.v(), full, glist(x, nil), glist(append(append([]*G{}, x...), ga("q")), nil)}[id/36*2+id%2]
			name, args = "append", []*G{glist(x, nil), y, z}
		}
		goal := gc(name, args...)
		res := gc("r", args...)
		q := fmt.Sprintf("%s, R = %s .", goal.text(), res.text())
		if directed || g.r.coin(0.3) {
			// proper-list arguments whose spine runs through variables bound before the call
			var setup, as []string
			for i, a := range args {
				es, tail := listParts(a)
				if a.K == 'c' && a.S == "." && len(es) >= 2 && tail.K == 'a' && tail.S == "[]" {
					k := 1 + g.r.intn(len(es)-1)
					setup = append(setup, fmt.Sprintf("Sp%d = %s", i, glist(es[k:], nil).text()))
					var pre []string
					for _, e := range es[:k] {
						pre = append(pre, e.text())
					}
					as = append(as, fmt.Sprintf("[%s|Sp%d]", strings.Join(pre, ","), i))
				} else {
					as = append(as, a.text())
				}
			}
			if len(setup) > 0 {
				q = fmt.Sprintf("%s, %s(%s), R = %s .", strings.Join(setup, ", "), quoteAtom(name), strings.Join(as, ", "), res.text())
			}
		}
		if seen[q] {
			continue
		}
		seen[q] = true
		sum.Distinct++
		ctx := newStepCtx(context.Background(), 200000)
		out := runQueryCtx(ctx, p, c16Cap, []string{"R"}, q)
		flag := 0
		if out.More {
			flag = 1
		}
		if out.Err != nil || out.GoErr != "" {
			flag = 2
		}
		var tuples []string
		for _, a := range out.Answers {
			t := a["R"]
			var as []string
			for _, x := range t.Args {
				as = append(as, "("+x.coq()+")")
			}
			tuples = append(tuples, coqList(as))
		}
		var cas []string
		for _, a := range args {
			cas = append(cas, "("+a.coq()+")")
		}
		sum.Evaluations++
		sum.count("call:" + name)
		sum.count(fmt.Sprintf("answers:%s", bucket(len(out.Answers))))
		if flag == 2 {
			sum.count("ended-with-error")
		}
		errs := ""
		if out.Err != nil {
			errs = out.Err.String()
		}
		sum.Cases[fmt.Sprint(id)] = map[string]interface{}{"text": q, "answers_seen": len(out.Answers), "flag": flag, "error": errs + out.GoErr}
		cases = append(cases, fmt.Sprintf("(%d, %s, %s, %d, %s)", id, coqStr(name), coqList(cas), flag, coqList(tuples)))
		if len(sum.Samples) < 12 && id%97 == 0 {
			sum.Samples = append(sum.Samples, q)
		}
	}
	sum.Rule = "calls of the 17 built-ins within their modes: atoms over ASCII and multi-byte characters (2-, 3- and 4-byte) up to 7 characters, lists up to 5 elements with variables, repeated elements and partial tails where the mode admits them, integer ranges around 0 and at both 64-bit limits ; each output argument is independently a fresh or shared variable, the true value or a wrong value; all answers are collected (bound 700, step budget) as instances of the argument tuple and compared as a multiset, modulo variable renaming, with the relation's tuples that unify with the arguments; distinct by query text"
	header := "From Coq Require Import ZArith List String.\nFrom PV Require Import Model.Term Model.Rel Model.RelCheck.\nImport ListNotations.\nOpen Scope Z_scope.\nOpen Scope string_scope.\n"
	shard := 400
	nf := 0
	for i := 0; i < len(cases); i += shard {
		j := i + shard
		if j > len(cases) {
			j = len(cases)
		}
		fname := fmt.Sprintf("cases_rel_%d.v", nf)
		writeCases(filepath.Join(outDir, fname), header, "rcase", "check_rel", cases[i:j])
		sum.CaseFiles = append(sum.CaseFiles, fname)
		nf++
	}
	sum.write(outDir, start)
}

func bucket(n int) string {
	switch {
	case n == 0:
		return "0"
	case n == 1:
		return "1"
	case n <= 5:
		return "2-5"
	case n <= 30:
		return "6-30"
	}
	return ">30"
}
