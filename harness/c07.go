package main

// C07: arithmetic is exact or raises an evaluation error; comparisons numeric.
//
// Generates expression trees (complete boundary grid per functor + random
// trees), runs `X is E` / `E1 op E2` on the implementation through the public
// API with number leaves passed as placeholders (so that no literal parsing is
// involved), writes the cases with the observed outcomes as Coq terms for the
// model (Model/Eval.v over Gen/Arith_gen.v), and evaluates the property oracle
// (exact arithmetic with math/big, IEEE arithmetic of Go) on every case.

import (
	"fmt"
	"math"
	"math/big"
	"path/filepath"
	"strings"
	"time"

	"github.com/ichiban/prolog"
)

type ex struct {
	K    byte // 'i' 'f' 'v' 'a' 'c'
	I    int64
	F    float64
	S    string
	Args []*ex
}

func (e *ex) text(args *[]interface{}) string {
	switch e.K {
	case 'i':
		*args = append(*args, e.I)
		return "?"
	case 'f':
		*args = append(*args, e.F)
		return "?"
	case 'v':
		return "_"
	case 'a':
		return quoteAtom(e.S)
	}
	var as []string
	for _, a := range e.Args {
		as = append(as, a.text(args))
	}
	return "'" + strings.ReplaceAll(e.S, `\`, `\\`) + "'(" + strings.Join(as, ", ") + ")"
}

func (e *ex) show() string {
	switch e.K {
	case 'i':
		return fmt.Sprintf("%d", e.I)
	case 'f':
		return fmt.Sprintf("%v<%#x>", e.F, math.Float64bits(e.F))
	case 'v':
		return "_"
	case 'a':
		return e.S
	}
	var as []string
	for _, a := range e.Args {
		as = append(as, a.show())
	}
	return e.S + "(" + strings.Join(as, ",") + ")"
}

func (e *ex) coq() string {
	switch e.K {
	case 'i':
		return "ENum (NInt " + coqZ(e.I) + ")"
	case 'f':
		return fmt.Sprintf("ENum (NFlt (of_bits %d))", math.Float64bits(e.F))
	case 'v':
		return "EVar"
	case 'a':
		return "EAtom " + coqStr(e.S)
	}
	var as []string
	for _, a := range e.Args {
		as = append(as, a.coq())
	}
	return "ECmp " + coqStr(e.S) + " " + coqList(as)
}

var c07Unary = []string{"-", "+", "abs", "sign", "float_integer_part", "float_fractional_part", "float", "floor", "truncate", "round", "ceiling", `\`}
var c07Binary = []string{"+", "-", "*", "//", "/", "rem", "mod", "div", "max", "min", "^", ">>", "<<", `/\`, `\/`, "xor"}
var c07Cmp = []string{"=:=", `=\=`, "<", ">", "=<", ">="}
var c07CmpCoq = map[string]string{"=:=": "CEq", `=\=`: "CNe", "<": "CLt", ">": "CGt", "=<": "CLe", ">=": "CGe"}

func c07Ints() []int64 {
	base := []int64{0, 1, 2, 3, 5, 7, 62, 63, 64, 65, 3037000499, 3037000500,
		1<<31 - 1, 1 << 31, 1<<31 + 1, 1<<32 - 1, 1 << 32, 1<<53 - 1, 1 << 53, 1<<53 + 1,
		1<<62 - 1, 1 << 62, 1<<62 + 1, math.MaxInt64 - 1, math.MaxInt64}
	var out []int64
	for _, b := range base {
		out = append(out, b)
		if b != 0 {
			out = append(out, -b)
		}
	}
	return append(out, math.MinInt64, math.MinInt64+1)
}

func c07Floats() []float64 {
	base := []float64{0, math.SmallestNonzeroFloat64, 2.2250738585072014e-308, 1e-300, 0.25, 0.5, 1, 1.5, 2, 2.5, 3, 3.5,
		1 << 52, 1<<53 - 1, 1 << 53, 1<<53 + 2, 1 << 62, 9223372036854774784, 9223372036854775808, 9223372036854777856, 1e19, 1e300, 2.9937604643020797e292, 8.98846567431158e307, 1.7976931348623155e308, math.MaxFloat64}
	var out []float64
	for _, b := range base {
		out = append(out, b, -b)
	}
	return out
}

func numLeaves() []*ex {
	var ls []*ex
	for _, i := range c07Ints() {
		ls = append(ls, &ex{K: 'i', I: i})
	}
	for _, f := range c07Floats() {
		ls = append(ls, &ex{K: 'f', F: f})
	}
	return ls
}

// ---- the property oracle ------------------------------------------------------

type oval struct {
	kind string // "int" "flt" "err" "skip"
	i    int64
	f    float64
	err  string // int_overflow zero_divisor float_overflow undefined underflow type(integer) type(float) type(evaluable) inst
}

func (o oval) String() string {
	switch o.kind {
	case "int":
		return fmt.Sprintf("%d", o.i)
	case "flt":
		return fmt.Sprintf("%v<%#x>", o.f, math.Float64bits(o.f))
	case "err":
		return "error:" + o.err
	}
	return "skip"
}

var bigMin = big.NewInt(math.MinInt64)
var bigMax = big.NewInt(math.MaxInt64)

func fit(z *big.Int) oval {
	if z.Cmp(bigMin) < 0 || z.Cmp(bigMax) > 0 {
		return oval{kind: "err", err: "int_overflow"}
	}
	return oval{kind: "int", i: z.Int64()}
}

func fltRes(r float64) oval {
	switch {
	case math.IsInf(r, 0):
		return oval{kind: "err", err: "float_overflow"}
	case math.IsNaN(r):
		return oval{kind: "err", err: "undefined"}
	}
	return oval{kind: "flt", f: r}
}

func f2i(f float64) oval { // f integral
	z, _ := new(big.Float).SetFloat64(f).Int(nil)
	return fit(z)
}

func asF(o oval) float64 {
	if o.kind == "int" {
		return float64(o.i)
	}
	return o.f
}

// specEval is the reference semantics of the property (ISO 9.1/9.3/9.4 with
// 64-bit integers): exact integer arithmetic with range check, IEEE doubles.
// It returns kind "skip" where the property makes no claim (shifts that are
// negative, >63 or overflowing; functors outside the statement).
func specEval(e *ex) oval {
	switch e.K {
	case 'i':
		return oval{kind: "int", i: e.I}
	case 'f':
		return oval{kind: "flt", f: e.F}
	case 'v':
		return oval{kind: "err", err: "inst"}
	case 'a':
		return oval{kind: "skip"}
	}
	var vs []oval
	for _, a := range e.Args {
		v := specEval(a)
		if v.kind == "err" || v.kind == "skip" {
			return v
		}
		vs = append(vs, v)
	}
	bi := func(k int) *big.Int { return big.NewInt(vs[k].i) }
	allInt := true
	for _, v := range vs {
		if v.kind != "int" {
			allInt = false
		}
	}
	typeInt := func() oval { return oval{kind: "err", err: "type(integer)"} }
	if len(vs) != 1 && len(vs) != 2 {
		return oval{kind: "skip"}
	}
	if len(vs) == 1 {
		x := vs[0]
		switch e.S {
		case "-":
			if x.kind == "int" {
				return fit(new(big.Int).Neg(bi(0)))
			}
			return oval{kind: "flt", f: -x.f}
		case "+":
			return x
		case "abs":
			if x.kind == "int" {
				return fit(new(big.Int).Abs(bi(0)))
			}
			return oval{kind: "flt", f: math.Abs(x.f)}
		case "sign":
			if x.kind == "int" {
				return oval{kind: "int", i: int64(bi(0).Sign())}
			}
			switch {
			case x.f > 0:
				return oval{kind: "flt", f: 1}
			case x.f < 0:
				return oval{kind: "flt", f: -1}
			}
			return oval{kind: "flt", f: 0}
		case "float":
			return oval{kind: "flt", f: asF(x)}
		case "float_integer_part":
			if x.kind == "int" {
				return oval{kind: "err", err: "type(float)"}
			}
			r := math.Trunc(x.f)
			if r == 0 { // the sign of a zero result is not constrained by the property
				return oval{kind: "skip"}
			}
			return oval{kind: "flt", f: r}
		case "float_fractional_part":
			if x.kind == "int" {
				return oval{kind: "err", err: "type(float)"}
			}
			r := x.f - math.Trunc(x.f)
			if r == 0 {
				return oval{kind: "skip"}
			}
			return oval{kind: "flt", f: r}
		case "floor", "truncate", "round", "ceiling":
			if x.kind == "int" {
				return oval{kind: "err", err: "type(float)"}
			}
			f := map[string]func(float64) float64{"floor": math.Floor, "truncate": math.Trunc, "round": math.Round, "ceiling": math.Ceil}[e.S]
			return f2i(f(x.f))
		case `\`:
			if x.kind != "int" {
				return typeInt()
			}
			return oval{kind: "int", i: ^x.i}
		}
		return oval{kind: "skip"}
	}
	x, y := vs[0], vs[1]
	switch e.S {
	case "+", "-", "*":
		if allInt {
			z := new(big.Int)
			switch e.S {
			case "+":
				z.Add(bi(0), bi(1))
			case "-":
				z.Sub(bi(0), bi(1))
			case "*":
				z.Mul(bi(0), bi(1))
			}
			return fit(z)
		}
		a, b := asF(x), asF(y)
		var r float64
		switch e.S {
		case "+":
			r = a + b
		case "-":
			r = a - b
		case "*":
			r = a * b
			if r == 0 && a != 0 && b != 0 {
				return oval{kind: "err", err: "underflow"}
			}
		}
		return fltRes(r)
	case "/":
		a, b := asF(x), asF(y)
		if b == 0 {
			return oval{kind: "err", err: "zero_divisor"}
		}
		r := a / b
		if r == 0 && a != 0 {
			return oval{kind: "err", err: "underflow"}
		}
		return fltRes(r)
	case "//", "rem", "mod", "div":
		if x.kind != "int" || y.kind != "int" {
			return typeInt()
		}
		if y.i == 0 {
			return oval{kind: "err", err: "zero_divisor"}
		}
		z := new(big.Int)
		switch e.S {
		case "//":
			z.Quo(bi(0), bi(1))
		case "rem":
			z.Rem(bi(0), bi(1))
		case "div":
			q, r := new(big.Int).QuoRem(bi(0), bi(1), new(big.Int))
			if r.Sign() != 0 && (r.Sign() < 0) != (bi(1).Sign() < 0) {
				q.Sub(q, big.NewInt(1))
			}
			z = q
		case "mod":
			r := new(big.Int).Rem(bi(0), bi(1))
			if r.Sign() != 0 && (r.Sign() < 0) != (bi(1).Sign() < 0) {
				r.Add(r, bi(1))
			}
			z = r
		}
		return fit(z)
	case "max", "min":
		if allInt {
			if (e.S == "max") == (x.i < y.i) {
				return y
			}
			return x
		}
		a, b := asF(x), asF(y)
		if a == b { // which of two numerically equal operands is returned is not constrained
			return oval{kind: "skip"}
		}
		if (e.S == "max") == (a < b) {
			return y
		}
		return x
	case "^":
		if !allInt {
			return oval{kind: "skip"}
		}
		if y.i < 0 {
			switch x.i {
			case 0:
				return oval{kind: "err", err: "undefined"}
			case 1:
				return oval{kind: "int", i: 1}
			case -1:
				if y.i%2 == 0 {
					return oval{kind: "int", i: 1}
				}
				return oval{kind: "int", i: -1}
			}
			return oval{kind: "err", err: "type(float)"}
		}
		if x.i == 0 || x.i == 1 || x.i == -1 || y.i <= 64 {
			switch {
			case x.i == 0 && y.i > 0:
				return oval{kind: "int", i: 0}
			case x.i == 1 || y.i == 0:
				return oval{kind: "int", i: 1}
			case x.i == -1:
				if y.i%2 == 0 {
					return oval{kind: "int", i: 1}
				}
				return oval{kind: "int", i: -1}
			}
			return fit(new(big.Int).Exp(bi(0), bi(1), nil))
		}
		return oval{kind: "err", err: "int_overflow"}
	case ">>", "<<":
		if x.kind != "int" || y.kind != "int" {
			return typeInt()
		}
		if y.i < 0 || y.i > 63 {
			return oval{kind: "skip"}
		}
		if e.S == ">>" {
			return oval{kind: "int", i: x.i >> uint(y.i)}
		}
		z := new(big.Int).Lsh(bi(0), uint(y.i))
		if r := fit(z); r.kind == "int" {
			return r
		}
		return oval{kind: "skip"}
	case `/\`, `\/`, "xor":
		if x.kind != "int" || y.kind != "int" {
			return typeInt()
		}
		switch e.S {
		case `/\`:
			return oval{kind: "int", i: x.i & y.i}
		case `\/`:
			return oval{kind: "int", i: x.i | y.i}
		}
		return oval{kind: "int", i: x.i ^ y.i}
	}
	return oval{kind: "skip"}
}

func specCompare(op string, a, b oval) bool {
	if a.kind == "int" && b.kind == "int" {
		switch op {
		case "=:=":
			return a.i == b.i
		case `=\=`:
			return a.i != b.i
		case "<":
			return a.i < b.i
		case ">":
			return a.i > b.i
		case "=<":
			return a.i <= b.i
		}
		return a.i >= b.i
	}
	x, y := asF(a), asF(b)
	switch op {
	case "=:=":
		return x == y
	case `=\=`:
		return x != y
	case "<":
		return x < y
	case ">":
		return x > y
	case "=<":
		return x <= y
	}
	return x >= y
}

// ---- observation -----------------------------------------------------------------

// obsOval turns the implementation's outcome into (Coq term of type oval, oracle view).
func errObs(t *T, goErr string) (string, oval) {
	if goErr != "" {
		if strings.HasPrefix(goErr, "panic:") {
			return "VPanic", oval{kind: "err", err: "PANIC " + goErr}
		}
		return "VUnknown " + coqStr(goErr), oval{kind: "err", err: "GOERR " + goErr}
	}
	// error(Formal, Context)
	if t.K == 'c' && t.S == "error" && len(t.Args) == 2 {
		f := t.Args[0]
		switch {
		case f.K == 'a' && f.S == "instantiation_error":
			return "VErr OXInst", oval{kind: "err", err: "inst"}
		case f.K == 'c' && f.S == "evaluation_error" && f.Args[0].K == 'a':
			m := map[string]string{"float_overflow": "FloatOverflow", "int_overflow": "IntOverflow", "underflow": "Underflow", "zero_divisor": "ZeroDivisor", "undefined": "Undefined"}
			if c, ok := m[f.Args[0].S]; ok {
				return "VErr (OXKernel (OExc " + c + "))", oval{kind: "err", err: f.Args[0].S}
			}
		case f.K == 'c' && f.S == "type_error" && f.Args[0].K == 'a':
			ty, c := f.Args[0].S, f.Args[1]
			switch ty {
			case "evaluable":
				if c.K == 'c' && c.S == "/" && c.Args[0].K == 'a' && c.Args[1].K == 'i' {
					return fmt.Sprintf("VErr (OXEvaluable %s %s)", coqStr(c.Args[0].S), coqZ(c.Args[1].I)), oval{kind: "err", err: "type(evaluable)"}
				}
				return "VErr OXEvaluableTerm", oval{kind: "err", err: "type(evaluable)"}
			case "integer", "float":
				vt := map[string]string{"integer": "VTInteger", "float": "VTFloat"}[ty]
				switch c.K {
				case 'i':
					return fmt.Sprintf("VErr (OXKernel (OType %s (OInt %s)))", vt, coqZ(c.I)), oval{kind: "err", err: "type(" + ty + ")"}
				case 'f':
					return fmt.Sprintf("VErr (OXKernel (OType %s (OFlt %d)))", vt, c.F), oval{kind: "err", err: "type(" + ty + ")"}
				}
			}
		}
	}
	return "VUnknown " + coqStr(t.String()), oval{kind: "err", err: "OTHER " + t.String()}
}

func sameOval(a, b oval) bool {
	if a.kind != b.kind {
		return false
	}
	switch a.kind {
	case "int":
		return a.i == b.i
	case "flt":
		return math.Float64bits(a.f) == math.Float64bits(b.f) || (a.f == 0 && b.f == 0 && false)
	case "err":
		return a.err == b.err
	}
	return true
}

// classify names the kind of property failure narrowly: functor, operand kinds, what went wrong.
// f9Witness: the expression contains a + or - whose float operands trip addF's overflow pre-check
// (y > 0 && x > MaxFloat64-y, or y < 0 && x < -MaxFloat64-y) although the sum is finite: the recorded
// finding F9, identified by its call site whatever the surrounding expression is.
func f9Witness(e *ex) bool {
	if e.K != 'c' {
		return false
	}
	for _, a := range e.Args {
		if f9Witness(a) {
			return true
		}
	}
	if (e.S == "+" || e.S == "-") && len(e.Args) == 2 {
		a, b := specEval(e.Args[0]), specEval(e.Args[1])
		if (a.kind == "int" || a.kind == "flt") && (b.kind == "int" || b.kind == "flt") && (a.kind == "flt" || b.kind == "flt") {
			x, y := a.f, b.f
			if a.kind == "int" {
				x = float64(a.i)
			}
			if b.kind == "int" {
				y = float64(b.i)
			}
			if e.S == "-" {
				y = -y
			}
			tripped := (y > 0 && x > math.MaxFloat64-y) || (y < 0 && x < -math.MaxFloat64-y)
			return tripped && !math.IsInf(x+y, 0)
		}
	}
	return false
}

// f29Witness: the expression contains (+-1) ^ min_integer, for which the implementation negates the exponent
// and reports int_overflow (pinned by number_test.go "-1 ^ minInt"); the value is 1.
func f29Witness(e *ex) bool {
	if e.K != 'c' {
		return false
	}
	for _, a := range e.Args {
		if f29Witness(a) {
			return true
		}
	}
	if e.S == "^" && len(e.Args) == 2 {
		a, b := specEval(e.Args[0]), specEval(e.Args[1])
		return a.kind == "int" && b.kind == "int" && (a.i == 1 || a.i == -1) && b.i == math.MinInt64
	}
	return false
}

func classifyC07(e *ex, want, got oval) string {
	kinds := ""
	for _, a := range e.Args {
		switch a.K {
		case 'i':
			kinds += "I"
		case 'f':
			kinds += "F"
		default:
			kinds += "E"
		}
	}
	if got.kind == "err" && got.err == "int_overflow" && f29Witness(e) {
		return "F29:unit-base-to-min-integer"
	}
	if got.kind == "err" && got.err == "float_overflow" && f9Witness(e) {
		return "F9:addF-overflow-pre-check"
	}
	w, g := want.kind, got.kind
	if want.kind == "err" {
		w = want.err
	}
	if got.kind == "err" {
		g = got.err
		if strings.HasPrefix(g, "PANIC") {
			g = "panic"
		} else if strings.HasPrefix(g, "GOERR") || strings.HasPrefix(g, "OTHER") {
			g = "non-iso-error"
		}
	}
	return fmt.Sprintf("%s/%d:%s:want=%s:got=%s", e.S, len(e.Args), kinds, w, g)
}

// observeIs runs `X is E` on the implementation.
func observeIs(p *prolog.Interpreter, e *ex) (string, oval) {
	var args []interface{}
	q := "X is " + e.text(&args) + " ."
	out := runQuery(p, 1, []string{"X"}, q, args...)
	switch {
	case len(out.Answers) == 1:
		x := out.Answers[0]["X"]
		switch x.K {
		case 'i':
			return "VNum (OInt " + coqZ(x.I) + ")", oval{kind: "int", i: x.I}
		case 'f':
			return fmt.Sprintf("VNum (OFlt %d)", x.F), oval{kind: "flt", f: math.Float64frombits(x.F)}
		}
		return "VUnknown " + coqStr(x.String()), oval{kind: "err", err: "OTHER " + x.String()}
	case out.Err != nil || out.GoErr != "":
		return errObs(out.Err, out.GoErr)
	}
	return `VUnknown "fail"`, oval{kind: "err", err: "OTHER fail"}
}

// isFailure: does the observed outcome violate the property for this expression?
func isFailure(want, got oval) (bool, oval, oval) {
	if want.kind != "skip" {
		return !sameOval(want, got), want, got
	}
	// no exactness claim, but still no panic residue / non-ISO error (C05 side of C07)
	if strings.HasPrefix(got.err, "PANIC") || strings.HasPrefix(got.err, "GOERR") {
		return true, oval{kind: "skip"}, got
	}
	return false, want, got
}

// shrinkIs descends to the innermost sub-expression that fails on its own.
func shrinkIs(p *prolog.Interpreter, e *ex, want, got oval) (*ex, oval, oval) {
	for _, a := range e.Args {
		if a.K != 'c' {
			continue
		}
		_, g := observeIs(p, a)
		w := specEval(a)
		if bad, _, _ := isFailure(w, g); bad {
			return shrinkIs(p, a, w, g)
		}
	}
	return e, want, got
}

func replayOfIs(e *ex) map[string]interface{} {
	var args []interface{}
	q := "X is " + e.text(&args) + " ."
	return map[string]interface{}{"query": q, "args": encodeArgs(args), "vars": []string{"X"}, "text": "X is " + e.show()}
}

// ---- generation ----------------------------------------------------------------------

func randLeaf(r *rng, ints []int64, floats []float64) *ex {
	switch r.intn(10) {
	case 0, 1, 2:
		return &ex{K: 'i', I: ints[r.intn(len(ints))]}
	case 3, 4:
		return &ex{K: 'f', F: floats[r.intn(len(floats))]}
	case 5, 6:
		return &ex{K: 'i', I: int64(r.intn(41)) - 20}
	case 7:
		// a random 64-bit integer, arithmetically shifted by a random amount
		return &ex{K: 'i', I: int64(r.next()) >> uint(r.intn(64))}
	case 8:
		f := math.Float64frombits(r.next())
		if math.IsNaN(f) || math.IsInf(f, 0) {
			f = 1.25
		}
		return &ex{K: 'f', F: f}
	}
	return &ex{K: 'f', F: float64(int64(r.intn(2001))-1000) / 8}
}

func randTree(r *rng, depth int, ints []int64, floats []float64) *ex {
	if depth == 0 || r.coin(0.25) {
		return randLeaf(r, ints, floats)
	}
	if r.coin(0.3) {
		return &ex{K: 'c', S: c07Unary[r.intn(len(c07Unary))], Args: []*ex{randTree(r, depth-1, ints, floats)}}
	}
	return &ex{K: 'c', S: c07Binary[r.intn(len(c07Binary))], Args: []*ex{randTree(r, depth-1, ints, floats), randTree(r, depth-1, ints, floats)}}
}

func runC07(outDir string, seed int64, tier string) {
	start := time.Now()
	sum := newSummary("C07", seed, tier)
	r := &rng{s: uint64(seed)}
	p := prolog.New(nil, nil)
	ints, floats := c07Ints(), c07Floats()
	leaves := numLeaves()

	type ecase struct {
		e  *ex
		op string // "" for is/2
		e2 *ex
	}
	var all []ecase
	// complete boundary grid
	for _, f := range c07Unary {
		for _, a := range leaves {
			all = append(all, ecase{e: &ex{K: 'c', S: f, Args: []*ex{a}}})
		}
	}
	var grid []ecase
	for _, f := range c07Binary {
		for _, a := range leaves {
			for _, b := range leaves {
				grid = append(grid, ecase{e: &ex{K: 'c', S: f, Args: []*ex{a, b}}})
			}
		}
	}
	for _, op := range c07Cmp {
		for _, a := range leaves {
			for _, b := range leaves {
				grid = append(grid, ecase{e: a, op: op, e2: b})
			}
		}
	}
	nRandom := 1500
	if tier == "thorough" {
		all = append(all, grid...)
		nRandom = 40000
	} else {
		// a seeded 1/40 sample of the binary grid, plus fixed regression pairs
		for _, c := range grid {
			if r.intn(40) == 0 {
				all = append(all, c)
			}
		}
	}
	// regressions (minimised earlier findings, always run)
	reg := func(f string, a, b *ex) { all = append(all, ecase{e: &ex{K: 'c', S: f, Args: []*ex{a, b}}}) }
	I := func(i int64) *ex { return &ex{K: 'i', I: i} }
	F := func(f float64) *ex { return &ex{K: 'f', F: f} }
	reg("*", F(2), F(-3))
	reg("/", F(6), F(-3))
	reg("div", I(9007199254740993), I(1))
	reg("mod", I(math.MaxInt64), I(2))
	reg("<<", I(1), I(-1))
	reg(">>", I(1), I(-1))
	reg("+", F(1), F(math.MaxFloat64))
	reg("+", F(math.MaxFloat64), F(1))
	// F32: the pre-checks pass and the IEEE sum is a tie that rounds to infinity
	reg("+", F(1.7976931348623155e308), F(2.9937604643020797e292))
	reg("+", F(-1.7976931348623155e308), F(-2.9937604643020797e292))
	reg("-", F(1.7976931348623155e308), F(-2.9937604643020797e292))
	reg("-", F(-1.7976931348623155e308), F(2.9937604643020797e292))
	reg("*", I(3037000500), I(3037000500))
	reg("*", I(4294967295), I(4294967295))
	reg("*", I(0), I(5))
	reg("^", I(2), I(63))
	reg("^", I(-2), I(63))
	reg("^", I(3), I(40))
	all = append(all, ecase{e: &ex{K: 'c', S: "floor", Args: []*ex{F(9223372036854775808)}}})
	all = append(all, ecase{e: I(1), op: "=:=", e2: F(1.5)}, ecase{e: I(9007199254740993), op: "=:=", e2: F(9007199254740992)})
	// error paths of eval itself
	all = append(all, ecase{e: &ex{K: 'v'}}, ecase{e: &ex{K: 'a', S: "pi"}}, ecase{e: &ex{K: 'a', S: "foo"}},
		ecase{e: &ex{K: 'c', S: "foo", Args: []*ex{I(1)}}}, ecase{e: &ex{K: 'c', S: "foo", Args: []*ex{I(1), I(2)}}},
		ecase{e: &ex{K: 'c', S: "+", Args: []*ex{I(1), I(2), I(3)}}}, ecase{e: &ex{K: 'c', S: "+", Args: []*ex{{K: 'v'}, I(2)}}},
		ecase{e: &ex{K: 'c', S: "+", Args: []*ex{I(2), {K: 'a', S: "foo"}}}})
	for i := 0; i < nRandom; i++ {
		rr := r.split()
		if rr.coin(0.15) {
			all = append(all, ecase{e: randTree(rr, 2, ints, floats), op: c07Cmp[rr.intn(len(c07Cmp))], e2: randTree(rr, 2, ints, floats)})
		} else {
			all = append(all, ecase{e: randTree(rr, 1+rr.intn(4), ints, floats)})
		}
	}

	var isCases, cmpCases []string
	seen := map[string]bool{}
	for id, c := range all {
		var args []interface{}
		var desc string
		if c.op == "" {
			desc = "X is " + c.e.show()
			coqObs, got := observeIs(p, c.e)
			isCases = append(isCases, fmt.Sprintf("(%d, %s, %s)", id, c.e.coq(), coqObs))
			want := specEval(c.e)
			sum.count("is:" + want.kind)
			if c.e.K == 'c' {
				sum.count("functor:" + c.e.S)
			}
			if bad, _, _ := isFailure(want, got); bad {
				me, mw, mg := shrinkIs(p, c.e, want, got)
				sum.Failures = append(sum.Failures, failure{ID: id, Class: classifyC07(me, mw, mg), Input: replayOfIs(me),
					Observed: mg.String(), Expected: mw.String(), Detail: "found in: " + desc})
			}
		} else {
			q := c.e.text(&args) + " " + c.op + " " + c.e2.text(&args) + " ."
			desc = c.e.show() + " " + c.op + " " + c.e2.show()
			out := runQuery(p, 1, nil, q, args...)
			var coqObs string
			var gotB, gotOK bool
			switch {
			case len(out.Answers) == 1:
				coqObs, gotB, gotOK = "CBool true", true, true
			case out.Err != nil || out.GoErr != "":
				o, _ := errObs(out.Err, out.GoErr)
				coqObs = "CErr " + strings.TrimPrefix(o, "VErr ")
				if !strings.HasPrefix(o, "VErr ") {
					coqObs = "CAbort"
				}
			default:
				coqObs, gotB, gotOK = "CBool false", false, true
			}
			cmpCases = append(cmpCases, fmt.Sprintf("(%d, %s, %s, %s, %s)", id, c07CmpCoq[c.op], c.e.coq(), c.e2.coq(), coqObs))
			a, b := specEval(c.e), specEval(c.e2)
			sum.count("cmp:" + c.op)
			if (a.kind == "int" || a.kind == "flt") && (b.kind == "int" || b.kind == "flt") {
				want := specCompare(c.op, a, b)
				if !gotOK || gotB != want {
					cls := fmt.Sprintf("%s:%s%s:want=%v", c.op, a.kind, b.kind, want)
					if strings.Contains(coqObs, "IntOverflow") && (f29Witness(c.e) || f29Witness(c.e2)) {
						cls = "F29:unit-base-to-min-integer"
					}
					if strings.Contains(coqObs, "FloatOverflow") && (f9Witness(c.e) || f9Witness(c.e2)) {
						cls = "F9:addF-overflow-pre-check"
					}
					sum.Failures = append(sum.Failures, failure{ID: id, Class: cls, Input: map[string]interface{}{"query": q, "args": encodeArgs(args), "text": desc},
						Observed: coqObs, Expected: fmt.Sprint(want)})
				}
			}
		}
		sum.Cases[fmt.Sprint(id)] = desc
		if !seen[desc] {
			seen[desc] = true
			if c.op != "" || c.e.K == 'c' {
				sum.Distinct++
			}
		}
		if id%997 == 0 && len(sum.Samples) < 12 {
			sum.Samples = append(sum.Samples, desc)
		}
	}
	sum.Evaluations = len(all)
	sum.Rule = "complete boundary grid (unary: all; binary and comparisons: all in thorough, seeded 1/40 sample in quick) over int/float boundary leaves, fixed regressions, random trees of depth<=4; distinct by rendered text; non-trivial = at least one evaluable functor or a comparison"

	header := "From Coq Require Import ZArith List String.\nFrom PV Require Import Model.GoInt Model.F64 Model.Num Gen.Arith_gen Model.Eval Model.EvalCheck.\nImport ListNotations.\nOpen Scope Z_scope.\nOpen Scope string_scope.\n"
	shard := 4000
	n := 0
	for i := 0; i < len(isCases); i += shard {
		j := i + shard
		if j > len(isCases) {
			j = len(isCases)
		}
		name := fmt.Sprintf("cases_is_%d.v", n)
		writeCases(filepath.Join(outDir, name), header, "Z * expr * oval", "is_mismatches", isCases[i:j])
		sum.CaseFiles = append(sum.CaseFiles, name)
		n++
	}
	for i := 0; i < len(cmpCases); i += shard {
		j := i + shard
		if j > len(cmpCases) {
			j = len(cmpCases)
		}
		name := fmt.Sprintf("cases_cmp_%d.v", n)
		writeCases(filepath.Join(outDir, name), header, "Z * cmpop * expr * expr * ocmp", "cmp_mismatches", cmpCases[i:j])
		sum.CaseFiles = append(sum.CaseFiles, name)
		n++
	}
	sum.write(outDir, start)
}
