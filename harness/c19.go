package main

// C19: a stream is one forward cursor: peeks do not consume, nothing skipped or repeated.

import (
	"bytes"
	"fmt"
	"io"
	"os"
	"path/filepath"
	"strings"
	"testing/iotest"
	"time"

	"github.com/ichiban/prolog"
	"github.com/ichiban/prolog/engine"
)

func c19Text(r *rng, long bool) []byte {
	var b bytes.Buffer
	terms := []string{"foo", "ab12", "é日", "x", "12", "0", "bar_Baz", "本", "a", "zz9"}
	seps := []string{" ", "\n", "  \t", " % comment é\n", " /* c */ ", "\n/* multi\nline 日 */\n", "\r\n", ""}
	if r.coin(0.3) {
		b.WriteString(seps[r.intn(len(seps)-1)])
	}
	for i, n := 0, r.intn(4); i < n; i++ {
		b.WriteString(terms[r.intn(len(terms))])
		if r.coin(0.15) {
			b.WriteString(" ")
		}
		b.WriteString(".")
		last := i == n-1
		switch {
		case last && r.coin(0.5):
			// no trailing layout
		case long && i == 0:
			b.WriteString(" % " + strings.Repeat("long comment é ", 300) + "\n")
		default:
			s := seps[r.intn(len(seps)-1)]
			if strings.TrimLeft(s, " ") != s || s == "\n" || s == "\r\n" || s == "  \t" {
				b.WriteString(s)
			} else {
				b.WriteString(" " + s)
			}
		}
	}
	if r.coin(0.1) {
		b.WriteString("aé")
	}
	if r.coin(0.12) { // undecodable bytes
		bad := [][]byte{{0xff}, {0xc3}, {0xe6, 0x97}, {0xc0, 0x80}, {0xed, 0xa0, 0x80}, {0x80}}[r.intn(6)]
		out := b.Bytes()
		at := 0
		if len(out) > 0 {
			at = r.intn(len(out) + 1)
		}
		res := append(append(append([]byte{}, out[:at]...), bad...), out[at:]...)
		return res
	}
	return b.Bytes()
}

type c19op struct {
	name string
	coq  string
}

var c19TextOps = []c19op{{"get_char", "GetChar"}, {"get_char", "GetChar"}, {"peek_char", "PeekChar"}, {"peek_char", "PeekChar"}, {"read", "ReadTerm"}, {"read", "ReadTerm"},
	{"position", "QPos"}, {"end_of_stream", "QEos"}}
var c19BinOps = []c19op{{"get_byte", "GetByte"}, {"get_byte", "GetByte"}, {"peek_byte", "PeekByte"}, {"peek_byte", "PeekByte"}, {"position", "QPos"}, {"end_of_stream", "QEos"}}

func c19Res(op c19op, t *T) string {
	switch op.coq {
	case "GetChar", "PeekChar":
		if t.K == 'a' && t.S == "end_of_file" {
			return "RCode (-1)"
		}
		if t.K == 'a' {
			rs := []rune(t.S)
			if len(rs) == 1 {
				return fmt.Sprintf("RCode %d", rs[0])
			}
		}
	case "GetByte", "PeekByte":
		if t.K == 'i' {
			return fmt.Sprintf("RCode (%d)", t.I)
		}
	case "ReadTerm":
		if t.K == 'a' && t.S == "end_of_file" {
			return "RTok []"
		}
		s := t.S
		if t.K == 'i' {
			s = fmt.Sprint(t.I)
		}
		if t.K == 'a' || t.K == 'i' {
			var cs []string
			for _, c := range s {
				cs = append(cs, fmt.Sprint(int(c)))
			}
			return "RTok " + coqList(cs)
		}
	case "QPos":
		if t.K == 'i' {
			return fmt.Sprintf("RPos %d", t.I)
		}
	case "QEos":
		if t.K == 'a' {
			return fmt.Sprintf("REos %d", map[string]int{"not": 0, "at": 1, "past": 2}[t.S])
		}
	}
	return "RStop (* unexpected: " + strings.ReplaceAll(t.String(), "*)", "") + " *)"
}

func c19Err(t *T, goErr string) int {
	s := goErr
	if t != nil {
		s = t.String()
	}
	switch {
	case strings.Contains(s, "past_end_of_stream"):
		return 1
	case strings.Contains(s, "representation_error(character"):
		return 2
	case strings.Contains(s, "binary_stream") || strings.Contains(s, "text_stream"):
		return 3
	case strings.Contains(s, "syntax_error"):
		return 9
	}
	return 8
}

func runC19(outDir string, seed int64, tier string) {
	start := time.Now()
	sum := newSummary("C19", seed, tier)
	r := &rng{s: uint64(seed) ^ hashString("C19")}
	n := 1200
	if tier == "thorough" {
		n = 20000
	}
	var cases []string
	seen := map[string]bool{}
	tmp := filepath.Join(outDir, "src.bin")
	for id := 0; id < n; id++ {
		rr := r.split()
		binary := rr.coin(0.3)
		var src []byte
		if binary {
			for i, k := 0, rr.intn(6); i < k; i++ {
				src = append(src, byte([]int{0, 1, 65, 255, 128, 10}[rr.intn(6)]))
			}
			if rr.coin(0.03) {
				src = append(src, bytes.Repeat([]byte{7}, 4100)...)
			}
		} else {
			src = c19Text(rr, rr.coin(0.05))
		}
		kind := []string{"strings", "dataerr", "onebyte", "file", "file", "file"}[rr.intn(6)]
		action := "reset"
		p := prolog.New(strings.NewReader(""), nil)
		handle := "stream_property(S, alias(user_input))"
		if kind == "file" {
			action = []string{"error", "eof_code", "reset"}[rr.intn(3)]
			if err := os.WriteFile(tmp, src, 0o644); err != nil {
				fatal("%v", err)
			}
			typ := "text"
			if binary {
				typ = "binary"
			}
			handle = "stream_property(S, alias(src))"
			out := runQuery(p, 1, nil, fmt.Sprintf("open(%s, read, _, [alias(src), type(%s), eof_action(%s)]) .", quoteAtom(tmp), typ, action))
			if len(out.Answers) != 1 {
				fatal("open failed: %v %s", out.Err, out.GoErr)
			}
		} else {
			var rd io.Reader = strings.NewReader(string(src))
			switch kind {
			case "dataerr":
				rd = iotest.DataErrReader(rd)
			case "onebyte":
				rd = iotest.OneByteReader(rd)
			}
			if binary {
				p.SetUserInput(engine.NewInputBinaryStream(rd))
				handle = "findall(X, stream_property(X, alias(user_input)), L), append(_, [S], L)"
			} else {
				p = prolog.New(rd, nil)
			}
		}
		ops := c19TextOps
		if binary {
			ops = c19BinOps
		}
		var qs []string
		var texts []string
		for q, nq := 0, 2+rr.intn(5); q < nq; q++ {
			var sel []c19op
			for i, k := 0, 1+rr.intn(4); i < k; i++ {
				if rr.coin(0.02) { // an operation of the other kind
					if binary {
						sel = append(sel, c19TextOps[rr.intn(6)])
					} else {
						sel = append(sel, c19BinOps[rr.intn(4)])
					}
					continue
				}
				sel = append(sel, ops[rr.intn(len(ops))])
			}
			goals := []string{handle}
			var names, coqOps []string
			for i, o := range sel {
				v := fmt.Sprintf("V%d", i)
				names = append(names, v)
				coqOps = append(coqOps, o.coq)
				switch o.coq {
				case "QPos", "QEos":
					goals = append(goals, fmt.Sprintf("stream_property(S, %s(%s))", o.name, v))
				default:
					goals = append(goals, fmt.Sprintf("%s(S, %s)", o.name, v))
				}
			}
			text := strings.Join(goals, ", ") + " ."
			texts = append(texts, text)
			out := runQuery(p, 1, names, text)
			sum.Evaluations++
			for _, o := range sel {
				sum.count("op:" + o.name)
			}
			var obs string
			if out.Err != nil || out.GoErr != "" {
				obs = fmt.Sprintf("QErr %d", c19Err(out.Err, out.GoErr))
				sum.count("query:error")
			} else if len(out.Answers) != 1 {
				obs = "QErr 7"
				sum.count("query:failed")
			} else {
				var rs []string
				for i, o := range sel {
					rs = append(rs, c19Res(o, out.Answers[0][names[i]]))
				}
				obs = "QOk " + coqList(rs)
				sum.count("query:ok")
			}
			qs = append(qs, fmt.Sprintf("(%s, %s)", coqList(coqOps), obs))
		}
		if kind == "file" {
			runQuery(p, 1, nil, "close(src) .")
		}
		sum.count("source:" + kind)
		sum.count("eof_action:" + action)
		if binary {
			sum.count("type:binary")
		} else {
			sum.count("type:text")
		}
		key := fmt.Sprintf("%s|%v|%s|%q|%s", kind, binary, action, src, strings.Join(texts, "\n"))
		if !seen[key] {
			seen[key] = true
			sum.Distinct++
		}
		var bs []string
		for _, b := range src {
			bs = append(bs, fmt.Sprint(int(b)))
		}
		shown := string(src)
		if len(shown) > 300 {
			shown = shown[:300] + "..."
		}
		sum.Cases[fmt.Sprint(id)] = map[string]interface{}{"source_kind": kind, "binary": binary, "eof_action": action, "source": shown, "source_len": len(src), "queries": texts,
			"text": fmt.Sprintf("source %q (%s, eof_action %s): %s", shown, kind, action, strings.Join(texts, " "))}
		act := map[string]string{"error": "AError", "eof_code": "ACode", "reset": "AReset"}[action]
		cases = append(cases, fmt.Sprintf("(%d, %v, %s, %s, %s)", id, binary, act, coqList(bs), coqList(qs)))
		if len(sum.Samples) < 6 && id%197 == 0 {
			sum.Samples = append(sum.Samples, sum.Cases[fmt.Sprint(id)])
		}
	}
	os.Remove(tmp)

	// output: what put_char, nl, write and friends produce reaches the sink completely and in program order
	for id := 0; id < n/6; id++ {
		rr := r.split()
		var sink bytes.Buffer
		p := prolog.New(nil, nil)
		switch rr.intn(3) {
		case 0:
			p.SetUserOutput(engine.NewOutputTextStream(&sink))
		case 1:
			p.SetUserOutput(engine.NewOutputTextStream(iotestWriter{&sink}))
		default:
			p.SetUserOutput(engine.NewOutputTextStream(&sink))
		}
		var want strings.Builder
		var texts []string
		for q, nq := 0, 1+rr.intn(4); q < nq; q++ {
			var goals []string
			for i, k := 0, 1+rr.intn(5); i < k; i++ {
				switch rr.intn(6) {
				case 0:
					c := []string{"a", "é", "日", " ", "z"}[rr.intn(5)]
					goals = append(goals, fmt.Sprintf("put_char(%s)", quoteAtom(c)))
					want.WriteString(c)
				case 1:
					goals = append(goals, "nl")
					want.WriteString("\n")
				case 2:
					a := []string{"foo", "bar", "日本", "x"}[rr.intn(4)]
					goals = append(goals, fmt.Sprintf("write(%s)", a))
					want.WriteString(a)
				case 3:
					v := rr.intn(2000) - 1000
					goals = append(goals, fmt.Sprintf("write(%d)", v))
					want.WriteString(fmt.Sprint(v))
				case 4:
					goals = append(goals, "write(f(a,b))")
					want.WriteString("f(a,b)")
				default:
					goals = append(goals, "(put_char(l) ; put_char(r))")
					want.WriteString("l")
				}
			}
			text := strings.Join(goals, ", ") + " ."
			texts = append(texts, text)
			out := runQuery(p, 1, nil, text)
			sum.Evaluations++
			sum.count("output:query")
			if len(out.Answers) != 1 {
				sum.Failures = append(sum.Failures, failure{ID: 100000 + id, Class: "output:query-did-not-succeed", Input: map[string]interface{}{"text": strings.Join(texts, " ")}, Observed: fmt.Sprint(out.Err, out.GoErr), Expected: "success"})
			}
		}
		runQuery(p, 1, nil, "flush_output .")
		if sink.String() != want.String() {
			sum.Failures = append(sum.Failures, failure{ID: 100000 + id, Class: "output:sink-differs-from-program-order", Input: map[string]interface{}{"text": strings.Join(texts, " ")}, Observed: sink.String(), Expected: want.String()})
		}
	}
	sum.Rule = "sources of 0-3 terms (atoms over ASCII and 2/3-byte letters, integers) separated by layout, line and block comments, with and without trailing layout, sometimes with undecodable bytes or a 4 KB comment crossing the buffer boundary; binary sources of 0-5 bytes (some 4 KB); provided as strings.Reader, as a reader returning its last data together with EOF, as a one-byte reader, or as a file opened by open/4 with each eof_action; 2-6 queries of 1-4 operations each (get/peek char, get/peek byte, read/1, position and end_of_stream properties; 2% operations of the wrong stream type), so that operations follow each other both within one query and across queries; every result and error compared with the cursor model; plus output sequences of put_char/nl/write compared with the sink; distinct by source, source kind, eof_action and query texts"
	header := "From Coq Require Import ZArith List.\nFrom PV Require Import Model.Stream Model.StreamCheck.\nImport ListNotations.\nOpen Scope Z_scope.\n"
	shard := 300
	nf := 0
	for i := 0; i < len(cases); i += shard {
		j := i + shard
		if j > len(cases) {
			j = len(cases)
		}
		name := fmt.Sprintf("cases_stream_%d.v", nf)
		writeCases(filepath.Join(outDir, name), header, "scase", "check_stream", cases[i:j])
		sum.CaseFiles = append(sum.CaseFiles, name)
		nf++
	}
	c19Rewind(sum, outDir)
	sum.write(outDir, start)
}

// c19Rewind: a file opened with reposition(true) is read until end_of_file has been delivered (and once more,
// where the eof_action allows), then set back to a position recorded earlier: from there on the stream
// delivers what a fresh stream delivers from that position, and is not at or past its end.
func c19Rewind(sum *runSummary, outDir string) {
	id := 900000
	tmp := filepath.Join(outDir, "rewind.txt")
	for _, src := range []string{"abc", "é日x", "a", "hello.\nworld.\n"} {
		if err := os.WriteFile(tmp, []byte(src), 0o644); err != nil {
			fatal("%v", err)
		}
		first := string([]rune(src)[0])
		for _, action := range []string{"error", "eof_code", "reset"} {
			for _, skip := range []int{0, 1} { // record the position at the start, or after one character
				for _, extra := range []int{0, 1} { // one more read after end_of_file was delivered (not for eof_action(error))
					if extra == 1 && action == "error" {
						continue
					}
					p := prolog.New(nil, nil)
					var goals []string
					goals = append(goals, fmt.Sprintf("open(%s, read, S, [reposition(true), eof_action(%s)])", quoteAtom(tmp), action))
					want := first
					if skip == 1 {
						goals = append(goals, "get_char(S, _)")
						r := []rune(src)
						if len(r) > 1 {
							want = string(r[1])
						} else {
							want = "end_of_file"
						}
					}
					goals = append(goals, "stream_property(S, position(P0))")
					for range []rune(src)[skip:] {
						goals = append(goals, "get_char(S, _)")
					}
					goals = append(goals, "get_char(S, E1)")
					if extra == 1 {
						goals = append(goals, "get_char(S, _)")
					}
					goals = append(goals, "set_stream_position(S, P0)", "stream_property(S, end_of_stream(X))", "get_char(S, L)", "close(S)")
					q := strings.Join(goals, ", ") + " ."
					desc := map[string]interface{}{"text": q, "query": q, "source": src, "vars": []string{"E1", "X", "L"}}
					sum.Cases[fmt.Sprint(id)] = desc
					sum.Evaluations++
					sum.count("rewind:" + action)
					out := runQuery(p, 1, []string{"E1", "X", "L"}, q)
					got := fmt.Sprint(out.Err, out.GoErr)
					if len(out.Answers) == 1 {
						got = fmt.Sprint(out.Answers[0]["E1"], " ", out.Answers[0]["X"], " ", out.Answers[0]["L"])
					}
					wantEnd := "not"
					if want == "end_of_file" {
						wantEnd = "at"
					}
					exp := fmt.Sprint("end_of_file ", wantEnd, " ", quoteAtom(want))
					if got != exp && !(wantEnd == "at" && got == fmt.Sprint("end_of_file not ", quoteAtom(want))) {
						sum.Failures = append(sum.Failures, failure{ID: id, Class: "stream:after-set_stream_position", Input: desc, Observed: got, Expected: exp})
					}
					id++
				}
			}
		}
	}
}

// iotestWriter hides every method of the sink but Write.
type iotestWriter struct{ w io.Writer }

func (w iotestWriter) Write(p []byte) (int, error) { return w.w.Write(p) }
