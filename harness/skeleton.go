package main

// Exhaustive small control skeletons (C03, C04): every clause body of up to a few
// goals over a small alphabet, placed in a two-clause predicate that is called after
// a nondeterministic goal, so that what a cut or an error discards or keeps is visible.

// skeletonBodies enumerates all sequences over the alphabet of length 1..maxLen, in a fixed order.
func skeletonBodies(alpha []string, maxLen int) [][]string {
	var out [][]string
	prev := [][]string{{}}
	for l := 1; l <= maxLen; l++ {
		var cur [][]string
		for _, p := range prev {
			for _, a := range alpha {
				cur = append(cur, append(append([]string{}, p...), a))
			}
		}
		out = append(out, cur...)
		prev = cur
	}
	return out
}

func skeletonGoal(sym string, k int) *G {
	two := glist([]*G{gi(1), gi(2)}, nil)
	switch sym {
	case "m": // a nondeterministic goal: two solutions, binds one of the head variables
		return gc("member", gv(k%2), two)
	case "!":
		return ga("!")
	case "f":
		return ga("fail")
	case "t":
		return ga("true")
	case "c": // a cut that must stay local: right-nested, grouped on the left, grouped on the right
		m := gc("member", gv(k%2), two)
		switch k % 3 {
		case 1:
			return gc("call", gc(",", gc(",", m, ga("!")), ga("true")))
		case 2:
			return gc("call", gc(",", ga("true"), gc(",", m, ga("!"))))
		}
		return gc("call", gc(",", m, ga("!")))
	case "x": // an error
		return gc("throw", ga("ball"))
	case "k": // a catch/3 that exits (its goal is nondeterministic); its recovery, if ever run, is visible in the outcome
		rec := gc("=", gv(k%2), ga("caught"))
		if k%2 == 1 {
			rec = gc("throw", ga("intercepted"))
		}
		return gc("catch", gc("member", gv(k%2), two), ga("ball"), rec)
	case "K": // nested catch/3 goals that both exit
		rec := gc("=", gv(k%2), ga("outer"))
		if k%2 == 0 {
			rec = ga("fail")
		}
		return gc("catch", gc("catch", ga("true"), gv(-1), ga("true")), gv(-1), rec)
	case "e": // a catch/3 around an error
		return gc("catch", gc("throw", ga("ball")), ga("ball"), gc("=", gv(k%2), ga("caught")))
	}
	return ga("true")
}

// skeletonProgram: p(V0,V1) :- body.  p(9,9).   ?- member(V2,[a,b]), p(V0,V1).   (with variants)
func skeletonProgram(body []string, variant int) *program {
	var gs []*G
	for k, s := range body {
		gs = append(gs, skeletonGoal(s, k))
	}
	b := conjOf(gs)
	switch variant % 3 {
	case 1: // grouped on the left: ((g1, g2), rest)
		if len(gs) >= 3 {
			b = gc(",", gc(",", gs[0], gs[1]), conjOf(gs[2:]))
		}
	case 2: // as the first of two top-level disjuncts
		b = gc(";", b, gc("=", gv(0), gi(7)))
	}
	prog := &program{}
	prog.clauses = append(prog.clauses, gc(":-", gc("p", gv(0), gv(1)), b), gc("p", gi(9), gi(9)))
	q := gc(",", gc("member", gv(2), glist([]*G{ga("a"), ga("b")}, nil)), gc("p", gv(0), gv(1)))
	if variant%2 == 1 {
		q = gc(",", gc("p", gv(0), gv(1)), gc("member", gv(2), glist([]*G{ga("a"), ga("b")}, nil)))
	}
	if variant >= 3 { // inside a catch/3 of the caller
		q = gc("catch", q, gv(3), gc("=", gv(2), ga("handled")))
	}
	prog.query = q
	prog.nq = 4
	return prog
}

// Clause selection, exhaustively over small shapes (C01, C02): a predicate whose
// clauses have one head shape each (closed lists of length 0-3, list patterns,
// string-backed lists, atoms, integers, compounds of two arities, a repeated
// variable), called with every argument shape (the same ones plus partial lists
// of every prefix length and unbound variables); the answers are the numbers of
// the clauses whose head unifies with the argument, in clause order.
func selHeadShapes() []*G {
	return []*G{
		ga("[]"), glist([]*G{gv(0)}, nil), glist([]*G{gv(0), gv(1)}, nil), glist([]*G{gv(0), gv(1), gv(2)}, nil),
		glist([]*G{ga("a")}, nil), glist([]*G{ga("a"), ga("b")}, nil), glist([]*G{gv(0)}, gv(1)), glist([]*G{ga("a")}, gv(1)),
		gstr("ab"), gstr("a"), ga("a"), gi(1), gc("f", gv(0)), gc("f", ga("a")), gc("f", ga("a"), ga("b")), gv(0), gc("g", gv(0), gv(0)),
		glist([]*G{gv(0), gv(0)}, nil),
	}
}

func selArgShapes() []*G {
	a := selHeadShapes()
	a = append(a,
		glist([]*G{ga("a")}, gv(3)), glist([]*G{ga("a"), ga("b")}, gv(3)), glist([]*G{gv(2)}, gv(3)), glist([]*G{gv(2), gv(4)}, gv(3)),
		glist([]*G{ga("b")}, gv(3)), glist([]*G{gv(2), ga("b")}, gv(3)), glist([]*G{ga("a"), ga("b"), ga("c")}, gv(3)),
		gc("g", ga("a"), gv(3)), gc("g", ga("a"), ga("b")), gc("f", gv(3)), ga("b"), gi(2))
	return a
}

func selectionPrograms() []*program {
	heads := selHeadShapes()
	var out []*program
	for pos := 0; pos < 3; pos++ { // the shape as first argument, as second argument, nested in a compound
		wrap := func(t *G, n *G) *G {
			switch pos {
			case 0:
				return gc("sel", t, n)
			case 1:
				return gc("sel", n, t)
			}
			return gc("sel", gc("w", t, ga("k")), n)
		}
		for g := 0; g < 3; g++ { // three groups of clauses, so that the answer limit is never reached
			var cl []*G
			for i := g; i < len(heads); i += 3 {
				cl = append(cl, renumber(wrap(heads[i], gi(int64(i)))))
			}
			for _, a := range selArgShapes() {
				prog := &program{}
				prog.clauses = append(prog.clauses, cl...)
				// query variables: the argument's own variables (0..4 after the shift) and the answer V5
				prog.query = wrap(shiftVars(a, 0), gv(5))
				prog.nq = 6
				out = append(out, prog)
			}
		}
	}
	return out
}

func shiftVars(t *G, d int) *G {
	switch t.K {
	case 'v':
		if t.V < 0 {
			return t
		}
		return gv(t.V + d)
	case 'c':
		y := &G{K: 'c', S: t.S, Q: t.Q}
		for _, a := range t.Args {
			y.Args = append(y.Args, shiftVars(a, d))
		}
		return y
	}
	return t
}

// Wide goals (C01): goals handed to call/1 (disjunctions, call/N) with 7-11 distinct
// free variables each, two alternatives each, one after the other, so that the second
// goal is started while the alternatives of the first are still pending.
func widePrograms() []*program {
	var out []*program
	fact := func(name string, n int, v int64) *G {
		var a []*G
		for i := 0; i < n; i++ {
			a = append(a, gi(v))
		}
		return gc(name, a...)
	}
	vars := func(from, n int) []*G {
		var a []*G
		for i := 0; i < n; i++ {
			a = append(a, gv(from+i))
		}
		return a
	}
	for n := 7; n <= 11; n++ {
		for m := 7; m <= 11; m += 2 {
			for shape := 0; shape < 3; shape++ {
				prog := &program{}
				prog.clauses = append(prog.clauses, fact("wp", n, 1), fact("wq", n, 2), fact("wr", m, 3), fact("ws", m, 4))
				a, b := vars(0, n), vars(n, m)
				var g1, g2 *G
				switch shape {
				case 0:
					g1 = gc(";", gc("wp", a...), gc("wq", a...))
					g2 = gc(";", gc("wr", b...), gc("ws", b...))
				case 1: // call/N with a closure holding all but the last argument
					g1 = gc("call", gc(";", gc("wp", a...), gc("wq", a...)))
					g2 = gc("call", gc(";", gc("wr", b[:m-1]...), gc("ws", b[:m-1]...)), b[m-1])
				default: // the second goal in a clause body
					prog.clauses = append(prog.clauses, gc(":-", gc("wt", b...), gc(";", gc("wr", b...), gc("ws", b...))))
					g1 = gc(";", gc("wp", a...), gc("wq", a...))
					g2 = gc("wt", b...)
				}
				prog.query = gc(",", g1, g2)
				prog.nq = n + m
				out = append(out, prog)
			}
		}
	}
	return out
}
