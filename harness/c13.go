package main

// C13: cancelling the context stops any execution promptly; interpreter stays usable.
//
// The cancellation instant is made deterministic: a context whose Done channel
// is closed from the n-th poll on (the engine polls once per trampoline
// iteration, at every nesting level). For each looping / long-running program
// and each instant n the run is observed (answers delivered before the
// instant, how it ended) and compared with the machine model run with the same
// poll budget; the property itself is evaluated directly: the call returns the
// context's error, within a bounded number of further polls and wall-clock
// time, and the same interpreter then answers further queries correctly.

import (
	"context"
	"errors"
	"fmt"
	"path/filepath"
	"strings"
	"testing/fstest"
	"time"

	"github.com/ichiban/prolog"
)

var c13Library = `
loop :- loop.
count(N) :- N1 is N + 1, count(N1).
nat(0).
nat(N) :- nat(M), N is M + 1.
spin(X) :- repeat, X = never, fail.
walk([]).
walk([_|T]) :- walk(T).
`

func c13LibraryClauses() []*G {
	return []*G{
		gc(":-", ga("loop"), ga("loop")),
		gc(":-", gc("count", gv(0)), gc(",", gc("is", gv(1), gc("+", gv(0), gi(1))), gc("count", gv(1)))),
		gc("nat", gi(0)),
		gc(":-", gc("nat", gv(0)), gc(",", gc("nat", gv(1)), gc("is", gv(0), gc("+", gv(1), gi(1))))),
		gc(":-", gc("spin", gv(0)), gc(",", ga("repeat"), gc(",", gc("=", gv(0), ga("never")), ga("fail")))),
		gc("walk", ga("[]")),
		gc(":-", gc("walk", glist([]*G{gv(0)}, gv(1))), gc("walk", gv(1))),
	}
}

func c13Queries(r *rng) *G {
	inner := []*G{
		ga("loop"),
		gc("count", gi(0)),
		gc(",", gc("nat", gv(0)), ga("fail")),
		gc("spin", gv(0)),
		gc(",", ga("repeat"), ga("fail")),
		gc(",", gc("between", gi(1), gi(1000000), gv(0)), ga("fail")),
		gc(",", gc("between", gi(1), gi(3), gv(0)), gc(",", gc("member", gv(1), glist([]*G{ga("a"), ga("b")}, nil)), gc("count", gi(0)))),
		gc("nat", gv(0)),                 // infinitely many answers
		gc("between", gi(1), gi(5), gv(0)), // finite, terminates
		gc(",", gc("member", gv(0), glist([]*G{gi(1), gi(2), gi(3)}, nil)), gc("walk", glist([]*G{ga("a"), ga("b"), ga("c")}, nil))),
	}
	g := inner[r.intn(len(inner))]
	switch r.intn(8) {
	case 0:
		return gc("findall", gv(0), g, gv(2))
	case 1:
		return gc(`\+`, g)
	case 2:
		return gc("catch", g, gv(3), gc("=", gv(2), ga("caught")))
	case 3:
		return gc(",", gc("member", gv(2), glist([]*G{ga("x"), ga("y")}, nil)), g)
	case 4:
		return gc("catch", gc("findall", gv(0), g, gv(2)), gv(3), gc("=", gv(2), ga("caught")))
	case 5:
		return gc("call", g)
	}
	return g
}

// c13Loads: cancellation in the middle of loading a file (directives and initialization goals
// that loop or run long), then the same interpreter must load the file again and answer.
func c13Loads(sum *runSummary, r *rng, id int, tier string) int {
	files := []string{
		"greeting(hello).\n:- between(1, 200, X), X > 199.\nanswer(42).\n",
		"greeting(hello).\n:- initialization((between(1, 300, X), X > 299)).\nanswer(42).\n",
		"greeting(hello).\nanswer(42).\n:- nat(X), X > 150.\n",
	}
	for fi, text := range files {
		for _, n := range []int{0, 3, 10, 40, 120, 100000} {
			p := prolog.New(nil, nil)
			_ = p.Exec(c13Library)
			p.FS = fstest.MapFS{"prog.pl": &fstest.MapFile{Data: []byte(text)}}
			desc := map[string]interface{}{"text": fmt.Sprintf("consult(prog) of file %d cancelled from poll %d on, then consult(prog) again and query greeting/1, answer/1", fi, n), "file": text, "cancel_at_poll": n}
			sum.Cases[fmt.Sprint(id)] = desc
			ctx := newStepCtx(context.Background(), n)
			done := make(chan error, 1)
			go func() { done <- p.QuerySolutionContext(ctx, "consult(prog).").Err() }()
			var err error
			select {
			case err = <-done:
			case <-time.After(3 * time.Second):
				sum.Failures = append(sum.Failures, failure{ID: id, Class: "cancel:load-does-not-return", Input: desc, Observed: "no return within 3 s", Expected: "the context's error"})
				id++
				continue
			}
			sum.Evaluations++
			cancelled := err != nil && strings.Contains(err.Error(), "context canceled")
			if cancelled {
				sum.count("load:cancelled")
			} else if err == nil {
				sum.count("load:completed")
			} else {
				sum.count("load:error")
			}
			// afterwards: loading again must define the predicates
			err2 := p.QuerySolution("consult(prog).").Err()
			out := runQuery(p, 3, []string{"X", "Y"}, "greeting(X), answer(Y) .")
			ok := err2 == nil && len(out.Answers) == 1 && out.Answers[0]["X"].S == "hello" && out.Answers[0]["Y"].I == 42
			if !ok {
				sum.Failures = append(sum.Failures, failure{ID: id, Class: "cancel:reload-after-cancelled-load-fails", Input: desc,
					Observed: fmt.Sprint("reload: ", err2, " query: ", out.Answers, out.Err, out.GoErr), Expected: "X = hello, Y = 42"})
			}
			id++
		}
	}
	// ExecContext of a text that loads another file (ensure_loaded/1, include/1, consult/1 as directives) whose
	// own directive or initialization goal is still running when the context is cancelled: the error returned
	// is the context's error (errors.Is), whatever the nesting of loads it comes through
	nested := []string{
		"lib_ready.\n:- between(1, 100000, X), X > 99999.\n",
		"lib_ready.\n:- initialization((between(1, 100000, X), X > 99999)).\n",
		"lib_ready.\n:- repeat, fail.\n",
	}
	for ni, lib := range nested {
		for _, how := range []string{":- ensure_loaded(lib).", ":- include(lib).", ":- consult(lib).", ":- initialization(consult(lib))."} {
			for _, n := range []int{5, 60, 400} {
				p := prolog.New(nil, nil)
				_ = p.Exec(c13Library)
				p.FS = fstest.MapFS{"lib.pl": &fstest.MapFile{Data: []byte(lib)}}
				text := "before.\n" + how + "\nafter.\n"
				desc := map[string]interface{}{"text": fmt.Sprintf("ExecContext(%q) with lib.pl = nested file %d, cancelled from poll %d on", text, ni, n), "file": lib, "cancel_at_poll": n}
				sum.Cases[fmt.Sprint(id)] = desc
				ctx := newStepCtx(context.Background(), n)
				done := make(chan error, 1)
				go func() { done <- p.ExecContext(ctx, text) }()
				sum.Evaluations++
				sum.count("cancel:nested-load")
				select {
				case err := <-done:
					if ctx.Err() != nil && !errors.Is(err, context.Canceled) {
						sum.Failures = append(sum.Failures, failure{ID: id, Class: "cancel:nested-load-not-the-context-error", Input: desc, Observed: fmt.Sprint(err), Expected: "the context's error (errors.Is(err, context.Canceled))"})
					}
				case <-time.After(3 * time.Second):
					sum.Failures = append(sum.Failures, failure{ID: id, Class: "cancel:nested-load-does-not-return", Input: desc, Observed: "no return within 3 s", Expected: "the context's error"})
				}
				id++
			}
		}
	}
	// a term_expansion/2 hook that runs long (but ends): cancelled while inside the hook, through a load and through
	// expand_term/2; afterwards the same interpreter still applies the hook
	for _, n := range []int{5, 50, 500} {
		for mode, run := range map[string]string{"load": "", "expand_term": "expand_term(foo, X)."} {
			p := prolog.New(nil, nil)
			_ = p.Exec("term_expansion(foo, bar) :- between(1, 30000, X), X >= 30000.")
			desc := map[string]interface{}{"text": fmt.Sprintf("term_expansion(foo, bar) :- between(1, 30000, X), X >= 30000.  then %s with the context cancelled from poll %d on, then expand_term(foo, X) and a load of foo. without cancellation", mode, n), "cancel_at_poll": n}
			sum.Cases[fmt.Sprint(id)] = desc
			ctx := newStepCtx(context.Background(), n)
			done := make(chan error, 1)
			go func() {
				if run == "" {
					done <- p.ExecContext(ctx, "foo.")
				} else {
					done <- p.QuerySolutionContext(ctx, run).Err()
				}
			}()
			sum.Evaluations++
			sum.count("cancel:inside-term_expansion:" + mode)
			select {
			case <-done:
			case <-time.After(5 * time.Second):
				sum.Failures = append(sum.Failures, failure{ID: id, Class: "cancel:term-expansion-does-not-return", Input: desc, Observed: "no return within 5 s", Expected: "the context's error"})
				id++
				continue
			}
			x := runQuery(p, 2, []string{"X"}, "expand_term(foo, X) .")
			err2 := p.Exec("foo.")
			y := runQuery(p, 2, nil, "bar .")
			if len(x.Answers) != 1 || x.Answers[0]["X"].S != "bar" || err2 != nil || len(y.Answers) != 1 {
				sum.Failures = append(sum.Failures, failure{ID: id, Class: "cancel:term-expansion-not-applied-afterwards", Input: desc,
					Observed: fmt.Sprint("expand_term: ", x.Answers, x.Err, x.GoErr, " load: ", err2, " bar: ", len(y.Answers), y.Err), Expected: "X = bar; bar holds"})
			}
			id++
		}
	}
	// a term_expansion/2 that never returns: loading any text, and expand_term/2, must still be cancellable
	for _, n := range []int{5, 50, 500} {
		for mode, run := range map[string]string{"load": "", "expand_term": "expand_term(foo, X)."} {
			p := prolog.New(nil, nil)
			_ = p.Exec("term_expansion(_, _) :- repeat, fail.")
			desc := map[string]interface{}{"text": fmt.Sprintf("term_expansion(_, _) :- repeat, fail.  then %s with the context cancelled from poll %d on", mode, n), "cancel_at_poll": n}
			sum.Cases[fmt.Sprint(id)] = desc
			ctx := newStepCtx(context.Background(), n)
			done := make(chan error, 1)
			go func() {
				if run == "" {
					done <- p.ExecContext(ctx, "foo.")
				} else {
					done <- p.QuerySolutionContext(ctx, run).Err()
				}
			}()
			sum.Evaluations++
			sum.count("cancel:term_expansion:" + mode)
			select {
			case err := <-done:
				if err == nil || !strings.Contains(err.Error(), "context canceled") {
					sum.Failures = append(sum.Failures, failure{ID: id, Class: "cancel:term-expansion-not-the-context-error", Input: desc, Observed: fmt.Sprint(err), Expected: "context canceled"})
				}
			case <-time.After(3 * time.Second):
				sum.Failures = append(sum.Failures, failure{ID: id, Class: "cancel:term-expansion-does-not-return", Input: desc, Observed: "no return within 3 s", Expected: "the context's error"})
			}
			id++
		}
	}
	return id
}

// follow-up queries after a cancelled run: each exercises nested trampolines that fail or are
// exhausted, one to three levels deep; expected renderings are fixed (they do not depend on the library)
var c13Follow = []struct {
	q    string
	n    int // number of answers
	want string
}{
	{q: `\+ fail .`, n: 1},
	{q: `\+ member(x, [a,b]) .`, n: 1},
	{q: `findall(X, member(X, [1,2]), L) .`, n: 1},
	{q: `findall(X, (member(X, [1,2,3]), \+ X = 2), L) .`, n: 1},
	{q: `findall(L0, (member(Y, [a,b]), findall(Y-Z, (member(Z, [1,2]), \+ Z = 1), L0)), L) .`, n: 1},
	{q: `\+ (findall(X, (member(X, [1,2]), \+ \+ X = 1), L), L = []) .`, n: 1},
	{q: `member(X, [1,2]), \+ \+ findall(Q, fail, []) .`, n: 2},
}

func c13FollowRun(ip *prolog.Interpreter, q string) string {
	res := make(chan string, 1)
	go func() {
		wall, cancel := context.WithTimeout(context.Background(), 2*time.Second)
		defer cancel()
		names := []string{"X", "L"}
		out := runQueryCtx(wall, ip, 5, names, q)
		var rows []string
		for _, a := range out.Answers {
			var kv []string
			for _, n := range names {
				if t, ok := a[n]; ok {
					kv = append(kv, n+":"+t.String())
				}
			}
			rows = append(rows, "{"+strings.Join(kv, " ")+"}")
		}
		s := "[" + strings.Join(rows, " ") + "]"
		if out.Err != nil || out.GoErr != "" {
			s += fmt.Sprint(" error: ", out.Err, out.GoErr)
		}
		res <- s
	}()
	select {
	case got := <-res:
		return got
	case <-time.After(3 * time.Second):
		return "did not return within 3 s"
	}
}

// c13FollowInit: what the follow-up queries answer in a process in which nothing was cancelled yet
// (checked against the answers written next to them)
func c13FollowInit() {
	for i := range c13Follow {
		got := c13FollowRun(prolog.New(nil, nil), c13Follow[i].q)
		if strings.Count(got, "{") != c13Follow[i].n {
			fatal("follow-up %s: %s on a fresh process", c13Follow[i].q, got)
		}
		c13Follow[i].want = got
	}
}

func c13FollowUps(same *prolog.Interpreter) string {
	for round := 0; round < 2; round++ {
		for _, ip := range []*prolog.Interpreter{same, prolog.New(nil, nil)} {
			for _, f := range c13Follow {
				if got := c13FollowRun(ip, f.q); got != f.want {
					return fmt.Sprintf("%s  gave %s, want %s", f.q, got, f.want)
				}
			}
		}
	}
	return ""
}

const c13Header = "From Coq Require Import ZArith List String.\nFrom PV Require Import Model.Term Model.Machine Model.Boot Model.MachineCheck.\nImport ListNotations.\nOpen Scope Z_scope.\nOpen Scope string_scope.\n"

func runC13(outDir string, seed int64, tier string) {
	start := time.Now()
	sum := newSummary("C13", seed, tier)
	r := &rng{s: uint64(seed) ^ hashString("C13")}
	nProg := 60
	if tier == "thorough" {
		nProg = 600
	}
	var cases []string
	id := 0
	stuck := 0
	seen := map[string]bool{}
	c13FollowInit()
	id = c13Loads(sum, r.split(), id, tier)
	for pi := 0; pi < nProg && stuck < 3; pi++ {
		q := renumber(c13Queries(r.split()))
		prog := &program{query: q}
		var instants []int
		for _, base := range []int{0, 1, 2, 3, 5, 8, 13, 21, 34, 55, 89, 144, 233, 377, 610, 987} {
			if r.coin(0.45) {
				instants = append(instants, base+r.intn(3))
			}
		}
		for _, n := range instants {
			p := prolog.New(nil, nil)
			if err := p.Exec(c13Library); err != nil {
				fatal("library: %v", err)
			}
			ctx := newStepCtx(context.Background(), n)
			t0 := time.Now()
			var out outcome
			done := make(chan struct{})
			go func() {
				out = runQueryCtx(ctx, p, answerLimit, prog.queryVars(), q.text()+" .")
				close(done)
			}()
			returned := true
			select {
			case <-done:
			case <-time.After(3 * time.Second):
				returned = false
			}
			wall := time.Since(t0)
			if !ctx.closedAt.IsZero() && returned {
				wall = time.Since(ctx.closedAt) // promptness is counted from the instant of the cancellation
			}
			if !returned {
				desc := map[string]interface{}{"program": c13Library, "query": q.text() + " .", "vars": prog.queryVars(), "text": fmt.Sprintf("%s   [context cancelled from poll %d on]", q.text(), n), "cancel_at_poll": n}
				sum.Cases[fmt.Sprint(id)] = desc
				sum.Failures = append(sum.Failures, failure{ID: id, Class: "cancel:call-does-not-return", Input: desc,
					Observed: "the call had not returned 3 s after its context was cancelled", Expected: "the context's error, promptly"})
				sum.Evaluations++
				id++
				stuck++
				if stuck >= 3 {
					break
				}
				continue
			}
			desc := map[string]interface{}{"program": c13Library, "query": q.text() + " .", "vars": prog.queryVars(), "text": fmt.Sprintf("%s   [context cancelled from poll %d on]", q.text(), n), "cancel_at_poll": n}
			sum.Cases[fmt.Sprint(id)] = desc
			cancelled := strings.Contains(out.GoErr, "context canceled")
			ending := coqEnding(out)
			if cancelled {
				ending = "OEndCancel"
				sum.count("ended:cancelled")
			} else {
				sum.count("ended:" + strings.SplitN(ending, " ", 2)[0])
			}
			sum.Evaluations++
			key := fmt.Sprintf("%s@%d", q.text(), n)
			if !seen[key] {
				seen[key] = true
				if cancelled {
					sum.Distinct++
				}
			}
			// ---- the property, evaluated on the implementation ----
			over := ctx.polls - n
			if cancelled {
				if ctx.Err() == nil || !errors.Is(ctx.Err(), context.Canceled) {
					sum.Failures = append(sum.Failures, failure{ID: id, Class: "cancel:wrong-error", Input: desc, Observed: out.GoErr, Expected: "the context's error"})
				}
				if over > 6 {
					sum.Failures = append(sum.Failures, failure{ID: id, Class: "cancel:keeps-running-after-cancellation", Input: desc,
						Observed: fmt.Sprintf("%d further polls after the cancellation instant", over), Expected: "at most one poll per nesting level"})
				}
				if wall > 250*time.Millisecond {
					// wall-clock time depends on the load of the machine: the same run is repeated, and only a
					// return that is slow again (well after the instant of the cancellation) is reported;
					// the load-independent measure is the number of polls after the instant, above
					p2 := prolog.New(nil, nil)
					_ = p2.Exec(c13Library)
					ctx2 := newStepCtx(context.Background(), n)
					done2 := make(chan struct{})
					go func() { runQueryCtx(ctx2, p2, answerLimit, prog.queryVars(), q.text()+" ."); close(done2) }()
					select {
					case <-done2:
					case <-time.After(5 * time.Second):
					}
					if ctx2.closedAt.IsZero() || time.Since(ctx2.closedAt) > time.Second {
						sum.Failures = append(sum.Failures, failure{ID: id, Class: "cancel:slow-return", Input: desc, Observed: wall.String() + " and again more than 1s", Expected: "promptly"})
					} else {
						sum.count("slow-once-under-load")
					}
				}
			} else if ctx.polls > n+6 {
				// the run went on well past the instant without noticing the cancelled context
				sum.Failures = append(sum.Failures, failure{ID: id, Class: "cancel:not-noticed", Input: desc,
					Observed: fmt.Sprintf("ended %s after %d polls", ending, ctx.polls), Expected: "context.Canceled"})
			}
			// the interpreter stays usable
			chk := runQuery(p, 5, []string{"X"}, "member(X, [1,2]), walk([a,b]) .")
			if len(chk.Answers) != 2 || chk.Answers[0]["X"].I != 1 || chk.Answers[1]["X"].I != 2 {
				sum.Failures = append(sum.Failures, failure{ID: id, Class: "cancel:interpreter-unusable-afterwards", Input: desc,
					Observed: fmt.Sprint(chk.Answers, chk.Err, chk.GoErr), Expected: "X = 1 ; X = 2"})
			}
			// ... and so does every other one: nothing of the cancelled run may resurface in later
			// queries (nested trampolines of \+ and findall/3 that fail or run to exhaustion), on this
			// interpreter or on a new one
			if cancelled {
				if bad := c13FollowUps(p); bad != "" {
					sum.Failures = append(sum.Failures, failure{ID: id, Class: "cancel:later-queries-disturbed", Input: desc, Observed: bad, Expected: "the answers these queries give on a fresh process"})
				}
				sum.count("follow-ups:run")
			}
			if len(sum.Samples) < 8 && id%9 == 0 {
				sum.Samples = append(sum.Samples, map[string]interface{}{"query": q.text(), "cancel_at_poll": n, "ending": ending, "answers_before": len(out.Answers), "polls_after_instant": over})
			}
			var cl []string
			for _, c := range c13LibraryClauses() {
				cl = append(cl, "("+c.coq()+")")
			}
			cases = append(cases, fmt.Sprintf("(%d, %s, %s, %s, %d%%nat, %d%%nat, %s, %s)", id, coqList(cl), q.coq(), qvarIdx(prog), answerLimit, n,
				coqAnswers(out.Answers, prog.queryVars()), ending))
			id++
		}
	}
	sum.Rule = "looping and long-running programs (unbounded recursion, repeat, between/3 over a large range, infinitely many answers; bare and inside findall/3, \\+/1, catch/3, call/1, after a choice point) x cancellation instants spread over the first ~1000 trampoline polls (deterministic: the context reports cancelled from the n-th poll on); distinct by query and instant; non-trivial = the run was actually cut by the cancellation"
	shard := 120
	nf := 0
	for i := 0; i < len(cases); i += shard {
		j := i + shard
		if j > len(cases) {
			j = len(cases)
		}
		name := fmt.Sprintf("cases_cancel_%d.v", nf)
		writeCases(filepath.Join(outDir, name), c13Header, "ccase", "check_cancel", cases[i:j])
		sum.CaseFiles = append(sum.CaseFiles, name)
		nf++
	}
	sum.write(outDir, start)
}
