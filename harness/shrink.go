package main

// Delta-debugging of a failing program case: find a smaller program + query on
// which the implementation still disagrees with the reference semantics S (or,
// with -shrink-model, with the machine model M).  The verdict of a candidate
// needs the implementation (run here, in an isolated child) and one coqc run.

import (
	"encoding/json"
	"fmt"
	"os"
	"os/exec"
	"path/filepath"
	"regexp"
	"strings"
	"sync"
	"time"
)

func cloneG(g *G) *G {
	c := &G{K: g.K, S: g.S, I: g.I, V: g.V}
	for _, a := range g.Args {
		c.Args = append(c.Args, cloneG(a))
	}
	return c
}

func cloneProgram(p *program) *program {
	q := &program{query: cloneG(p.query), nq: p.nq}
	for _, c := range p.clauses {
		q.clauses = append(q.clauses, cloneG(c))
	}
	return q
}

// goalVariants: simpler goals for g (a body / query goal)
func goalVariants(g *G) []*G {
	var out []*G
	if g.K == 'a' && (g.S == "true") {
		return nil
	}
	out = append(out, ga("true"))
	if g.K == 'c' {
		switch {
		case (g.S == "," || g.S == ";" || g.S == "->") && len(g.Args) == 2:
			out = append(out, cloneG(g.Args[0]), cloneG(g.Args[1]))
			for _, v := range goalVariants(g.Args[0]) {
				out = append(out, gc(g.S, v, cloneG(g.Args[1])))
			}
			for _, v := range goalVariants(g.Args[1]) {
				out = append(out, gc(g.S, cloneG(g.Args[0]), v))
			}
		case (g.S == `\+` || g.S == "call" || g.S == "once") && len(g.Args) == 1:
			out = append(out, cloneG(g.Args[0]))
			for _, v := range goalVariants(g.Args[0]) {
				out = append(out, gc(g.S, v))
			}
		case g.S == "findall" || g.S == "bagof" || g.S == "setof":
			for _, v := range goalVariants(g.Args[1]) {
				out = append(out, gc(g.S, cloneG(g.Args[0]), v, cloneG(g.Args[2])))
			}
		case g.S == "catch" && len(g.Args) == 3:
			out = append(out, cloneG(g.Args[0]))
			for _, v := range goalVariants(g.Args[0]) {
				out = append(out, gc("catch", v, cloneG(g.Args[1]), cloneG(g.Args[2])))
			}
			for _, v := range goalVariants(g.Args[2]) {
				out = append(out, gc("catch", cloneG(g.Args[0]), cloneG(g.Args[1]), v))
			}
		}
	}
	return out
}

func programVariants(p *program) []*program {
	var out []*program
	// drop a clause
	for i := range p.clauses {
		q := cloneProgram(p)
		q.clauses = append(q.clauses[:i], q.clauses[i+1:]...)
		out = append(out, q)
	}
	// simplify the query
	for _, v := range goalVariants(p.query) {
		q := cloneProgram(p)
		q.query = v
		out = append(out, q)
	}
	// simplify a clause body, or turn a rule into a fact
	for i, c := range p.clauses {
		if c.K == 'c' && c.S == ":-" && len(c.Args) == 2 {
			q := cloneProgram(p)
			q.clauses[i] = cloneG(c.Args[0])
			out = append(out, q)
			for _, v := range goalVariants(c.Args[1]) {
				q := cloneProgram(p)
				q.clauses[i] = gc(":-", cloneG(c.Args[0]), v)
				out = append(out, q)
			}
		}
	}
	return out
}

func progSize(p *program) int {
	n := len(p.query.text())
	for _, c := range p.clauses {
		n += len(c.text()) + 2
	}
	return n
}

var tripleRe = regexp.MustCompile(`\(\s*(-?\d+)\s*,\s*(-?\d+)\s*,\s*(-?\d+)\s*\)`)

// verdict runs the case on the implementation (child process) and on M and S (coqc):
// returns (model verdict, spec verdict), -1 on any failure to evaluate.
func verdict(p *program, dynamic bool, dir, tag string) (int, int) {
	b, _ := json.Marshal(map[string]interface{}{"clauses": p.clauses, "query": p.query, "nq": p.nq, "dynamic": dynamic})
	in := filepath.Join(dir, "shrink_"+tag+".json")
	os.WriteFile(in, b, 0o644)
	cmd := exec.Command(os.Args[0], "-out", dir, "-observe", in, "x")
	out, err := cmd.Output()
	if err != nil {
		return -1, -1
	}
	line := strings.TrimSpace(string(out))
	if !strings.HasPrefix(line, "(") {
		return -1, -1
	}
	vf := filepath.Join(dir, "shrink_"+tag+".v")
	fn := "check_both false"
	if dynamic {
		fn = "check_both true"
	}
	writeCases(vf, progHeader, "pcase", fn, []string{line})
	c := exec.Command("coqc", "-Q", "/verif/coq", "PV", vf)
	done := make(chan []byte, 1)
	go func() { o, _ := c.CombinedOutput(); done <- o }()
	select {
	case o := <-done:
		s := string(o)
		if strings.Contains(s, "mism = []") {
			return 0, 0
		}
		if m := tripleRe.FindStringSubmatch(s); m != nil {
			var a, bb int
			fmt.Sscan(m[2], &a)
			fmt.Sscan(m[3], &bb)
			return a, bb
		}
		return -1, -1
	case <-time.After(90 * time.Second):
		c.Process.Kill()
		return -1, -1
	}
}

// observeOne: child mode for the shrinker; prints the Coq case line or nothing.
func observeOne(path string) {
	b, err := os.ReadFile(path)
	if err != nil {
		return
	}
	var in struct {
		Clauses []*G `json:"clauses"`
		Query   *G   `json:"query"`
		Nq      int  `json:"nq"`
		Dynamic bool `json:"dynamic"`
	}
	if json.Unmarshal(b, &in) != nil {
		return
	}
	p := &program{clauses: in.Clauses, query: in.Query, nq: in.Nq}
	pc := &progCase{prog: p, dynamic: in.Dynamic}
	out, timedOut, loadErr := observeProgram(pc, 2*time.Second)
	if timedOut || loadErr != "" || hugeOutcome(out) {
		return
	}
	fmt.Printf("(%d, %s, %s, %s, %d%%nat, %s, %s)\n", 0, p.coqClauses(), p.query.coq(), qvarIdx(p), answerLimit, coqAnswers(out.Answers, p.queryVars()), coqEnding(out))
}

func shrinkCase(pid string, seed int64, tier string, id int, gen func(r *rng, i int) *progCase, n int, wantModel bool, dir string) {
	r := &rng{s: uint64(seed) ^ hashString(pid)}
	var pc *progCase
	for i := 0; i <= id && i < n; i++ {
		c := gen(r.split(), i)
		if i == id {
			pc = c
		}
	}
	if pc == nil {
		fatal("no such case")
	}
	cur := pc.prog
	fails := func(m, s int) bool {
		if wantModel {
			return m == 1
		}
		return s == 1
	}
	m, s := verdict(cur, pc.dynamic, dir, "0")
	fmt.Printf("initial verdict: model=%d spec=%d size=%d\n", m, s, progSize(cur))
	if !fails(m, s) {
		fmt.Println("the case does not fail; nothing to shrink")
		return
	}
	for round := 0; ; round++ {
		vars := programVariants(cur)
		type res struct {
			i    int
			ok   bool
			size int
		}
		results := make([]res, len(vars))
		var wg sync.WaitGroup
		sem := make(chan struct{}, 12)
		for i, v := range vars {
			if progSize(v) >= progSize(cur) {
				continue
			}
			wg.Add(1)
			go func(i int, v *program) {
				defer wg.Done()
				sem <- struct{}{}
				defer func() { <-sem }()
				m, s := verdict(v, pc.dynamic, dir, fmt.Sprint(i))
				results[i] = res{i, fails(m, s), progSize(v)}
			}(i, v)
		}
		wg.Wait()
		best := -1
		for i, r := range results {
			if r.ok && (best < 0 || r.size < results[best].size) {
				best = i
			}
		}
		if best < 0 {
			break
		}
		cur = vars[best]
		fmt.Printf("round %d: size %d\n", round, progSize(cur))
	}
	fmt.Println("---- minimal failing program ----")
	for _, c := range cur.clauses {
		fmt.Println(c.text() + ".")
	}
	fmt.Println("?- " + cur.query.text() + ".")
	files, _ := filepath.Glob(filepath.Join(dir, "shrink_*"))
	for _, f := range files {
		os.Remove(f)
	}
	files, _ = filepath.Glob(filepath.Join(dir, ".shrink_*"))
	for _, f := range files {
		os.Remove(f)
	}
}
