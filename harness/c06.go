package main

// C06: text written by writeq/write_canonical reads back as the same term.

import (
	"bytes"
	"fmt"
	"math"
	"path/filepath"
	"strings"
	"time"

	"github.com/ichiban/prolog"
	"github.com/ichiban/prolog/engine"
)

// RT is a generated term, independent of the implementation's reader.
type RT struct {
	K    byte // a atom, i int, f float, v var, c compound, l native list cell [H|T]
	S    string
	I    int64
	F    float64
	V    int
	Args []*RT
}

var c06Atoms = []string{
	// alphanumeric
	"foo", "fooBar_1", "a", "x1",
	// solo and special
	"!", ";", "[]", "{}", ",", "|",
	// graphic
	"+", "-", "*", "-->", "\\", ".", "#", "=..", ":-", "?-", "\\+", "**", "^", "//", "<", "=", ">=", "@", "&", "~", "$", "/*", "%",
	// quoted
	"hello world", "it's", "a\nb", "tab\there", "\\", "", "Aa", "_x", "123", "1.5", "a.b", "[", "]", "(", ")", "{", "}", "''", "\"", "`", "f(x)", " ", "\x00", "\x7f", "\a\b\f\v\r",
	// non-ASCII
	"é", "日本", "Éa", "añb", "😀", "a😀", "∀", "→", "α", "Ω",
	// operators as atoms
	"mod", "is", "rem", "xor", "dynamic", "div", "rdiv",
	// user operators
	"+++", "++", "!!", "=>", "bar",
}

type c06gen struct {
	r    *rng
	nvar int
	pool []*RT // compounds generated so far: reused by pointer, so that the built term shares them
}

func (g *c06gen) atom() *RT { return &RT{K: 'a', S: c06Atoms[g.r.intn(len(c06Atoms))]} }

func (g *c06gen) number() *RT {
	switch g.r.intn(12) {
	case 0:
		return &RT{K: 'i', I: 0}
	case 1:
		return &RT{K: 'i', I: -1}
	case 2:
		return &RT{K: 'i', I: math.MaxInt64}
	case 3:
		return &RT{K: 'i', I: math.MinInt64}
	case 4, 5:
		return &RT{K: 'i', I: int64(g.r.next())}
	case 6:
		return &RT{K: 'i', I: int64(g.r.intn(200)) - 100}
	case 7:
		return &RT{K: 'f', F: []float64{0, math.Copysign(0, -1), 1, -1.5, 1e100, 5e-324, math.MaxFloat64, 1e22, 1e23, 0.1, 123456789.125, 5.735016122967728e-283}[g.r.intn(12)]}
	default:
		for {
			f := math.Float64frombits(g.r.next())
			if !math.IsNaN(f) && !math.IsInf(f, 0) {
				return &RT{K: 'f', F: f}
			}
		}
	}
}

// term: a generated term; now and then a compound generated earlier is used again (the same
// Go value occurs twice in the term that is built: a DAG, not a tree)
func (g *c06gen) term(depth int) *RT {
	if depth > 0 && len(g.pool) > 0 && g.r.intn(9) == 0 {
		return g.pool[g.r.intn(len(g.pool))]
	}
	t := g.term0(depth)
	if t.K == 'c' && len(g.pool) < 8 {
		g.pool = append(g.pool, t)
	}
	return t
}

func (g *c06gen) term0(depth int) *RT {
	if depth <= 0 {
		switch g.r.intn(5) {
		case 0:
			return g.number()
		case 1:
			if g.nvar > 0 && g.r.coin(0.5) {
				return &RT{K: 'v', V: g.r.intn(g.nvar)}
			}
			g.nvar++
			return &RT{K: 'v', V: g.nvar - 1}
		default:
			return g.atom()
		}
	}
	if g.r.intn(5) == 0 { // operator nests: an operator term as the operand of another, over leaves of every token class
		ops := []string{"-", "+", "\\+", "\\", "mod", "rem", "is", "xor", "*", "^", "=", "<", ":-", "dynamic", "++", "!!", "+++", "bar", "=>", "@", "$", "**", ",", "->", "|"}
		leaf := func() *RT {
			switch g.r.intn(6) {
			case 0:
				g.nvar++
				return &RT{K: 'v', V: g.nvar - 1}
			case 1:
				return g.number()
			case 2:
				return &RT{K: 'a', S: []string{"#", "+", "-", "*", "=.."}[g.r.intn(5)]}
			case 3:
				return &RT{K: 'a', S: []string{"A", "Is", "hello world", "[]", "{}", "é"}[g.r.intn(6)]}
			default:
				return &RT{K: 'a', S: []string{"a", "b", "foo", "x1"}[g.r.intn(4)]}
			}
		}
		op := func() string { return ops[g.r.intn(len(ops))] }
		inner := func() *RT {
			if g.r.coin(0.5) {
				return &RT{K: 'c', S: op(), Args: []*RT{leaf()}}
			}
			return &RT{K: 'c', S: op(), Args: []*RT{leaf(), leaf()}}
		}
		switch g.r.intn(4) {
		case 0:
			return &RT{K: 'c', S: op(), Args: []*RT{inner(), leaf()}}
		case 1:
			return &RT{K: 'c', S: op(), Args: []*RT{leaf(), inner()}}
		case 2:
			return &RT{K: 'c', S: op(), Args: []*RT{inner()}}
		default:
			return &RT{K: 'c', S: op(), Args: []*RT{inner(), inner()}}
		}
	}
	switch g.r.intn(14) {
	case 0:
		return g.term(0)
	case 1, 2: // operators as functors, arity 1 and 2
		f := []string{"-", "+", "\\+", "\\", ":-", "?-", "dynamic", "++", "!!", "+++", "mod", "*", "^", ",", ";", "->", "=", ":-", "|", "-->", "is", "**", "<", "=>", "bar", "xor", "rem", "@", "$"}
		name := f[g.r.intn(len(f))]
		if g.r.coin(0.45) {
			return &RT{K: 'c', S: name, Args: []*RT{g.term(depth - 1)}}
		}
		return &RT{K: 'c', S: name, Args: []*RT{g.term(depth - 1), g.term(depth - 1)}}
	case 3: // negative numbers and minus
		n := g.number()
		switch g.r.intn(4) {
		case 0:
			return &RT{K: 'c', S: "-", Args: []*RT{n}}
		case 1:
			return &RT{K: 'c', S: "-", Args: []*RT{g.term(depth - 1), n}}
		case 2:
			return &RT{K: 'c', S: "^", Args: []*RT{n, g.term(depth - 1)}}
		default:
			return &RT{K: 'c', S: "-", Args: []*RT{&RT{K: 'c', S: "-", Args: []*RT{n}}}}
		}
	case 4, 5: // lists, native cells
		var es []*RT
		for i, n := 0, g.r.intn(4); i < n; i++ {
			es = append(es, g.term(depth-1))
		}
		tail := &RT{K: 'a', S: "[]"}
		if g.r.coin(0.25) {
			tail = g.term(0)
		}
		for i := len(es) - 1; i >= 0; i-- {
			k := byte('l')
			if g.r.coin(0.3) {
				k = 'c'
			}
			tail = &RT{K: k, S: ".", Args: []*RT{es[i], tail}}
		}
		return tail
	case 6: // curly terms and their look-alikes
		switch g.r.intn(3) {
		case 0:
			return &RT{K: 'c', S: "{}", Args: []*RT{g.term(depth - 1)}}
		case 1:
			return &RT{K: 'c', S: "{}", Args: []*RT{g.term(depth - 1), g.term(depth - 1)}}
		default:
			return &RT{K: 'c', S: "[]", Args: []*RT{g.term(depth - 1)}}
		}
	case 7:
		return &RT{K: 'c', S: ".", Args: []*RT{g.term(depth - 1)}}
	default:
		n := 1 + g.r.intn(3)
		var as []*RT
		for i := 0; i < n; i++ {
			as = append(as, g.term(depth-1))
		}
		return &RT{K: 'c', S: g.atom().S, Args: as}
	}
}

// build: goals that construct the term without going through the reader for atoms, floats and compounds
// c06built: the variable that holds a compound already built in this query (shared subterms)
var c06built = map[*RT]string{}

func (t *RT) build(goals *[]string, args *[]interface{}, n *int) string {
	fresh := func(p string) string { *n++; return fmt.Sprintf("%s%d", p, *n) }
	if t.K == 'c' {
		if v, ok := c06built[t]; ok {
			return v
		}
	}
	switch t.K {
	case 'a':
		v := fresh("A")
		var cs []string
		for _, c := range t.S {
			cs = append(cs, fmt.Sprint(int(c)))
		}
		*goals = append(*goals, fmt.Sprintf("atom_codes(%s, [%s])", v, strings.Join(cs, ",")))
		return v
	case 'i':
		return fmt.Sprintf("(%d)", t.I)
	case 'f':
		*args = append(*args, t.F)
		return "?"
	case 'v':
		return fmt.Sprintf("V%d", t.V)
	case 'l':
		return "[" + t.Args[0].build(goals, args, n) + "|" + t.Args[1].build(goals, args, n) + "]"
	}
	f := (&RT{K: 'a', S: t.S}).build(goals, args, n)
	var as []string
	for _, a := range t.Args {
		as = append(as, a.build(goals, args, n))
	}
	v := fresh("C")
	*goals = append(*goals, fmt.Sprintf("%s =.. [%s]", v, strings.Join(append([]string{f}, as...), ",")))
	c06built[t] = v
	return v
}

func (t *RT) String() string {
	switch t.K {
	case 'a':
		return fmt.Sprintf("%q", t.S)
	case 'i':
		return fmt.Sprint(t.I)
	case 'f':
		return fmt.Sprintf("%v<%x>", t.F, math.Float64bits(t.F))
	case 'v':
		return fmt.Sprintf("_%d", t.V)
	}
	var as []string
	for _, a := range t.Args {
		as = append(as, a.String())
	}
	return fmt.Sprintf("%q(%s)", t.S, strings.Join(as, ","))
}

type c06op struct {
	p    int
	spec string
	name string
}

func c06Ops(r *rng) []c06op {
	names := []string{"+++", "++", "!!", "=>", "bar", "mod", "-", "*", "foo", "@", "$", "\\+", "dynamic", "^", "e1", "e"}
	specs := []string{"xfx", "xfy", "yfx", "fy", "fx", "xf", "yf"}
	var ops []c06op
	for i, n := 0, r.intn(7); i < n; i++ {
		p := []int{0, 1, 200, 200, 400, 500, 700, 700, 900, 999, 1000, 1001, 1100, 1200}[r.intn(14)]
		ops = append(ops, c06op{p, specs[r.intn(len(specs))], names[r.intn(len(names))]})
	}
	return ops
}

func runC06(outDir string, seed int64, tier string) {
	start := time.Now()
	sum := newSummary("C06", seed, tier)
	r := &rng{s: uint64(seed) ^ hashString("C06")}
	n := 4000
	if tier == "thorough" {
		n = 120000
	}
	seen := map[string]bool{}
	var cases []string
	for id := 0; id < n; id++ {
		rr := r.split()
		g := &c06gen{r: rr}
		t := g.term(1 + rr.intn(3))
		var goals []string
		var args []interface{}
		cnt := 0
		c06built = map[*RT]string{}
		top := t.build(&goals, &args, &cnt)
		ops := c06Ops(rr)
		if id%3 == 0 {
			ops = nil
		}
		directed := id < 48
		if directed {
			// a number directly in front of an alphanumeric operator whose name continues a float's exponent
			name := []string{"e1", "e", "e10", "e5x", "E5", "e_"}[id%6]
			num := []*RT{{K: 'f', F: 1.0}, {K: 'f', F: 1.0e10}, {K: 'f', F: -2.5}, {K: 'i', I: 7}}[id/6%4]
			if id >= 24 {
				t = &RT{K: 'c', S: name, Args: []*RT{num}}
				ops = []c06op{{200, "xf", name}}
			} else {
				t = &RT{K: 'c', S: name, Args: []*RT{num, {K: 'i', I: 2}}}
				ops = []c06op{{700, "xfx", name}}
			}
			goals, args, cnt = nil, nil, 0
			c06built = map[*RT]string{}
			top = t.build(&goals, &args, &cnt)
		}
		if id >= 48 && id < 48+40 {
			// a compound of arity 1, 2 or 3 that occurs more than once in the term, as the same value
			k := id - 48
			zero := &RT{K: 'i', I: 0}
			subs := []*RT{
				{K: 'c', S: "s", Args: []*RT{zero}},
				{K: 'c', S: "s", Args: []*RT{{K: 'c', S: "s", Args: []*RT{zero}}}},
				{K: 'c', S: "-", Args: []*RT{{K: 'i', I: 1}}},
				{K: 'c', S: "g", Args: []*RT{{K: 'a', S: "a"}, {K: 'a', S: "b"}}},
				{K: 'c', S: "h", Args: []*RT{zero, zero, zero}},
			}
			sub := subs[k%5]
			switch k / 5 {
			case 0:
				t = &RT{K: 'c', S: "f", Args: []*RT{sub, sub}}
			case 1:
				t = &RT{K: 'c', S: "f", Args: []*RT{sub, {K: 'c', S: "k", Args: []*RT{sub}}}}
			case 2:
				t = &RT{K: 'l', S: ".", Args: []*RT{sub, {K: 'l', S: ".", Args: []*RT{sub, {K: 'a', S: "[]"}}}}}
			case 3:
				t = &RT{K: 'c', S: "f", Args: []*RT{sub, {K: 'a', S: "x"}, sub}}
			case 4:
				t = &RT{K: 'c', S: "+", Args: []*RT{sub, sub}}
			case 5:
				t = &RT{K: 'c', S: "f", Args: []*RT{{K: 'c', S: "k", Args: []*RT{sub}}, {K: 'c', S: "k", Args: []*RT{sub}}}}
			case 6:
				t = &RT{K: 'c', S: "s", Args: []*RT{{K: 'c', S: "f", Args: []*RT{sub, sub}}}}
			default:
				t = &RT{K: 'c', S: "f", Args: []*RT{sub, sub, sub}}
			}
			goals, args, cnt = nil, nil, 0
			c06built = map[*RT]string{}
			top = t.build(&goals, &args, &cnt)
		}
		if id >= 88 && id < 88+12 {
			// very long tokens (longer than any buffer the lexer may keep): alone, as functor, as operand
			k := id - 88
			long := strings.Repeat("a", []int{4097, 5000, 9000}[k%3])
			if k >= 6 {
				long = "hello " + long // needs quotes
			}
			la := &RT{K: 'a', S: long}
			switch k / 3 % 2 {
			case 0:
				t = la
				if k >= 6 {
					t = &RT{K: 'c', S: "mod", Args: []*RT{la, {K: 'i', I: 3}}}
				}
			default:
				t = &RT{K: 'c', S: long, Args: []*RT{{K: 'a', S: "x"}, {K: 'a', S: "y"}}}
				if k >= 6 {
					t = &RT{K: 'c', S: "f", Args: []*RT{{K: 'a', S: "x"}, la}}
				}
			}
			goals, args, cnt = nil, nil, 0
			c06built = map[*RT]string{}
			top = t.build(&goals, &args, &cnt)
		}
		if id >= 100 && id < 100+16 {
			// lists of integers only: proper, partial (the tail is a variable), improper, nested, as arguments
			k := id - 100
			ints := func(n int, tail *RT) *RT {
				t := tail
				for i := n; i >= 1; i-- {
					t = &RT{K: 'l', S: ".", Args: []*RT{{K: 'i', I: int64(96 + i)}, t}}
				}
				return t
			}
			nv := func() *RT { g.nvar++; return &RT{K: 'v', V: g.nvar - 1} }
			z := nv()
			switch k % 8 {
			case 0:
				t = ints(2, z)
			case 1:
				t = ints(1, nv())
			case 2:
				t = &RT{K: 'c', S: "dl", Args: []*RT{ints(3, z), z}}
			case 3:
				t = ints(2, &RT{K: 'a', S: "a"})
			case 4:
				t = &RT{K: 'l', S: ".", Args: []*RT{ints(2, nv()), nv()}}
			case 5:
				t = &RT{K: 'c', S: "f", Args: []*RT{ints(4, nv()), ints(2, &RT{K: 'a', S: "[]"})}}
			case 6:
				t = &RT{K: 'c', S: "-", Args: []*RT{ints(1, z), z}}
			default:
				t = ints(3, &RT{K: 'a', S: "[]"})
			}
			goals, args, cnt = nil, nil, 0
			c06built = map[*RT]string{}
			top = t.build(&goals, &args, &cnt)
		}
		dq := []string{"codes", "chars", "atom"}[rr.intn(3)]
		writer := []string{"writeq(T)", "write_canonical(T)", "write_term(T, [quoted(true)])", "write_term(T, [quoted(true), ignore_ops(true)])", "print(T)"}[rr.intn(5)]
		if writer == "print(T)" || directed {
			writer = "writeq(T)"
		}
		var sink bytes.Buffer
		p := prolog.New(nil, &sink)
		var setup []string
		for _, o := range ops {
			q := fmt.Sprintf("op(%d, %s, %s) .", o.p, o.spec, quoteAtom(o.name))
			if out := runQuery(p, 1, nil, q); len(out.Answers) == 1 {
				setup = append(setup, q)
			}
		}
		q := fmt.Sprintf("set_prolog_flag(double_quotes, %s) .", dq)
		runQuery(p, 1, nil, q)
		setup = append(setup, q)
		query := strings.Join(append(goals, "T = "+top, writer), ", ") + " ."
		out1 := runQuery(p, 1, []string{"T"}, query, args...)
		key := strings.Join(setup, " ") + " " + t.String() + " " + writer
		if seen[key] {
			continue
		}
		seen[key] = true
		sum.Evaluations++
		sum.Distinct++
		sum.count("writer:" + strings.SplitN(writer, "(", 2)[0] + map[bool]string{true: "+ignore_ops", false: ""}[strings.Contains(writer, "ignore_ops")])
		sum.count(fmt.Sprintf("ops-defined:%d", len(setup)-1))
		desc := map[string]interface{}{"setup": setup, "term": t.String(), "writer": writer, "text": strings.Join(setup, " ") + " ?- " + query}
		sum.Cases[fmt.Sprint(id)] = desc
		if len(out1.Answers) != 1 {
			sum.Failures = append(sum.Failures, failure{ID: id, Class: "write:construction-or-write-failed", Input: desc, Observed: fmt.Sprint(out1.Err, out1.GoErr), Expected: "the term is written"})
			continue
		}
		text := sink.String()
		desc["written"] = text
		want := out1.Answers[0]["T"]
		p.SetUserInput(engine.NewInputTextStream(strings.NewReader(text + " .")))
		out2 := runQuery(p, 1, []string{"R"}, "read_term(user_input, R, []) .")
		if len(out2.Answers) != 1 {
			sum.Failures = append(sum.Failures, failure{ID: id, Class: "read:written-text-not-accepted", Input: desc, Observed: fmt.Sprint(out2.Err, out2.GoErr), Expected: "read_term accepts " + text})
			continue
		}
		got := out2.Answers[0]["R"]
		if got.coq() != want.coq() {
			sum.Failures = append(sum.Failures, failure{ID: id, Class: "read:different-term-read-back", Input: desc, Observed: got.String(), Expected: want.String()})
		}
		if len(sum.Samples) < 8 && id%499 == 0 {
			sum.Samples = append(sum.Samples, desc)
		}
		// the canonical fragment is also compared with the model's printer
		if strings.HasPrefix(writer, "write_canonical") && canonFragment(t) && len(cases) < 400 {
			cases = append(cases, fmt.Sprintf("(%d, %s, %s)", id, want.coq(), coqStr(text)))
		}
	}
	// number_codes / number_chars
	for i := 0; i < n/4; i++ {
		g := &c06gen{r: r.split()}
		num := g.number()
		p := prolog.New(nil, nil)
		var lit string
		var args []interface{}
		if num.K == 'i' {
			lit = fmt.Sprintf("(%d)", num.I)
		} else {
			lit = "?"
			args = append(args, num.F)
		}
		pred := []string{"number_codes", "number_chars"}[g.r.intn(2)]
		out := runQuery(p, 1, []string{"N", "M"}, fmt.Sprintf("N = %s, %s(N, Cs), %s(M, Cs) .", lit, pred, pred), args...)
		sum.Evaluations++
		sum.count(pred)
		desc := map[string]interface{}{"text": fmt.Sprintf("N = %s, %s(N, Cs), %s(M, Cs).", num.String(), pred, pred)}
		id := 1000000 + i
		sum.Cases[fmt.Sprint(id)] = desc
		if len(out.Answers) != 1 {
			sum.Failures = append(sum.Failures, failure{ID: id, Class: "number:text-not-turned-back", Input: desc, Observed: fmt.Sprint(out.Err, out.GoErr), Expected: "the same number"})
		} else if out.Answers[0]["N"].coq() != out.Answers[0]["M"].coq() {
			sum.Failures = append(sum.Failures, failure{ID: id, Class: "number:different-number-read-back", Input: desc, Observed: out.Answers[0]["M"].String(), Expected: out.Answers[0]["N"].String()})
		}
	}
	// a code list with an element that is a digit only in its low 32 bits is not the text of a number
	for i, bad := range []string{"[4294967345]", "[49, 4294967344]", "[49, 1114112]", "[-4294967247]"} {
		p := prolog.New(nil, nil)
		out := runQuery(p, 1, []string{"X"}, "number_codes(X, "+bad+") .")
		sum.Evaluations++
		id := 1500000 + i
		desc := map[string]interface{}{"text": "number_codes(X, " + bad + ")."}
		sum.Cases[fmt.Sprint(id)] = desc
		if len(out.Answers) != 0 || out.Err == nil {
			sum.Failures = append(sum.Failures, failure{ID: id, Class: "number:code-list-with-a-non-character-code-accepted", Input: desc, Observed: fmt.Sprint(out.Answers), Expected: "representation_error(character_code)"})
		}
	}
	// quoted atoms: random texts over characters of every kind; what writeq writes is compared with the model's quote
	pool := []rune{'a', 'Z', '0', '_', ' ', '\'', '\\', '"', '`', '\n', '\t', '\a', 0, 0x7f, 0x1b, '+', '.', '(', ']', '|', '%', 'é', 'É', 'ñ', '日', '本', 'α', 'Ω', '∀', '→', '😀', 0x2a01, 0x300, 0xa0, 0x2028, 0x10ffff, 0xe000}
	var qcases []string
	nq := n / 4
	for i := 0; i < nq; i++ {
		rr := r.split()
		var rs []rune
		for j, k := 0, rr.intn(7); j < k; j++ {
			rs = append(rs, pool[rr.intn(len(pool))])
		}
		var cs []string
		for _, c := range rs {
			cs = append(cs, fmt.Sprint(int(c)))
		}
		var sink bytes.Buffer
		p := prolog.New(nil, &sink)
		out := runQuery(p, 1, []string{"A"}, fmt.Sprintf("atom_codes(A, [%s]), writeq(A) .", strings.Join(cs, ",")))
		id := 2000000 + i
		desc := map[string]interface{}{"text": fmt.Sprintf("atom_codes(A, [%s]), writeq(A).", strings.Join(cs, ",")), "atom": string(rs)}
		sum.Cases[fmt.Sprint(id)] = desc
		sum.Evaluations++
		if len(out.Answers) != 1 {
			sum.Failures = append(sum.Failures, failure{ID: id, Class: "write:construction-or-write-failed", Input: desc, Observed: fmt.Sprint(out.Err, out.GoErr), Expected: "the atom is written"})
			continue
		}
		text := sink.String()
		desc["written"] = text
		// read it back on the implementation as well
		p.SetUserInput(engine.NewInputTextStream(strings.NewReader(text + " .")))
		out2 := runQuery(p, 1, []string{"R"}, "read_term(user_input, R, []) .")
		if len(out2.Answers) != 1 || out2.Answers[0]["R"].K != 'a' || out2.Answers[0]["R"].S != string(rs) {
			sum.Failures = append(sum.Failures, failure{ID: id, Class: "read:quoted-atom-not-read-back", Input: desc, Observed: fmt.Sprint(out2.Answers, out2.Err, out2.GoErr), Expected: string(rs)})
		}
		if strings.HasPrefix(text, "'") {
			sum.count("atom:quoted")
			var ts []string
			for _, c := range text {
				ts = append(ts, fmt.Sprint(int(c)))
			}
			qcases = append(qcases, fmt.Sprintf("(%d, %s, %s)", id, coqList(cs), coqList(ts)))
		} else {
			sum.count("atom:bare")
		}
	}
	qheader := "From Coq Require Import ZArith List.\nFrom PV Require Import Model.Quote Model.QuoteCheck.\nImport ListNotations.\nOpen Scope Z_scope.\n"
	for i, nf := 0, 0; i < len(qcases); i, nf = i+1500, nf+1 {
		j := i + 1500
		if j > len(qcases) {
			j = len(qcases)
		}
		name := fmt.Sprintf("cases_quote_%d.v", nf)
		writeCases(filepath.Join(outDir, name), qheader, "qcase", "check_quote", qcases[i:j])
		sum.CaseFiles = append(sum.CaseFiles, name)
	}
	sum.Rule = "terms of depth 1-3 built without the reader (atom_codes, =.., Go floats): atoms of every lexical class (alphanumeric, solo, graphic, quoted with escapes and control characters, empty, non-ASCII incl. symbols and a 4-byte character, operator names), integers incl. both 64-bit extremes and random 64-bit values, finite floats incl. zeros, subnormals, the largest float and random bit patterns, variables with sharing, compounds whose functor is any of those atoms, operator terms of arity 1 and 2 over built-in and user operators, negative numbers as operands and under ^ and -, lists and partial lists as native cells and as '.'/2, curly terms, '{}'/2, '[]'/1, '.'/1; operator tables after 0-6 random op/3 calls (prefix+infix for one name, postfix, redefinitions, removals); double_quotes in codes/chars/atom; written by writeq, write_canonical, write_term quoted with and without ignore_ops; read back by read_term and compared structurally (floats bit for bit, variables up to renaming); number_codes/number_chars on the same numbers; atoms of 0-6 characters over a pool of 37 (letters, digits, quote, backslash, double and back quote, control characters, layout, solo and graphic characters, accepted and unaccepted non-ASCII incl. combining, private-use and the last code point) written by writeq, compared with the model's quote and read back on both sides; distinct by table + term + writer"
	header := "From Coq Require Import ZArith List String.\nFrom PV Require Import Model.Term Model.Canon Model.CanonLex.\nImport ListNotations.\nOpen Scope Z_scope.\nOpen Scope string_scope.\n"
	writeCases(filepath.Join(outDir, "cases_canon.v"), header, "ccase", "check_canon_text", cases)
	sum.CaseFiles = append(sum.CaseFiles, "cases_canon.v")
	sum.write(outDir, start)
}

// canonFragment: atoms [a-z][a-zA-Z0-9_]*, integers, compounds over those (no lists, no variables, no floats)
func canonFragment(t *RT) bool {
	plain := func(s string) bool {
		if s == "" || !(s[0] >= 'a' && s[0] <= 'z') {
			return false
		}
		for _, c := range s {
			if !(c >= 'a' && c <= 'z' || c >= 'A' && c <= 'Z' || c >= '0' && c <= '9' || c == '_') {
				return false
			}
		}
		return true
	}
	switch t.K {
	case 'a':
		return plain(t.S)
	case 'i':
		return true
	case 'c':
		if !plain(t.S) {
			return false
		}
		for _, a := range t.Args {
			if !canonFragment(a) {
				return false
			}
		}
		return true
	}
	return false
}
