package main

// Generator of database histories (C09, C10): dynamic predicates d0/1 and d1/2
// with initial clauses, and queries that interleave asserta/assertz/retract/
// retractall/abolish/clause with calls, sequentially and inside failure-driven
// loops over open calls and open retracts; the final listing is observed.

import "fmt"

func (p *pgen) dTerm() *G {
	switch p.r.intn(6) {
	case 0, 1:
		return gi(int64(p.r.intn(4)))
	case 2:
		return ga(genAtoms[p.r.intn(3)])
	case 3:
		return gv(p.r.intn(p.nvars))
	case 4:
		return gc("f", gv(p.r.intn(p.nvars)))
	default:
		return glist([]*G{gi(int64(p.r.intn(3)))}, nil)
	}
}

func (p *pgen) dHead() *G {
	if p.r.coin(0.65) {
		return gc("d0", p.dTerm())
	}
	return gc("d1", p.dTerm(), p.dTerm())
}

// a clause to assert: a fact or a rule with a small body
func (p *pgen) dClause() *G {
	h := p.dHead()
	switch p.r.intn(6) {
	case 0:
		return gc(":-", h, gc("=", gv(p.r.intn(p.nvars)), p.dTerm()))
	case 1:
		return gc(":-", h, gc(",", gc("member", gv(p.r.intn(p.nvars)), p.smallList()), ga("true")))
	case 2:
		if p.f.topOr {
			return gc(":-", h, gc(";", gc("=", gv(p.r.intn(p.nvars)), gi(1)), gc("=", gv(p.r.intn(p.nvars)), gi(2))))
		}
	case 3:
		if p.f.callN {
			return gc(":-", h, gv(p.r.intn(p.nvars))) // a variable goal
		}
	}
	return h
}

func (p *pgen) dbOp() *G {
	switch p.r.intn(12) {
	case 0, 1, 2:
		return gc("assertz", p.dClause())
	case 3, 4:
		return gc("asserta", p.dClause())
	case 5, 6, 7:
		return gc("retract", p.dHead())
	case 8:
		return gc("retract", gc(":-", p.dHead(), gv(p.r.intn(p.nvars))))
	case 9:
		return gc("retractall", p.dHead())
	case 10:
		if p.r.coin(0.2) {
			return gc("abolish", gc("/", ga("d0"), gi(1)))
		}
		return gc("clause", p.dHead(), gv(p.r.intn(p.nvars)))
	default:
		return p.dHead() // a call
	}
}

func (p *pgen) dbItem() *G {
	ops := func(n int) []*G {
		var l []*G
		for i := 0; i < n; i++ {
			l = append(l, p.dbOp())
		}
		return l
	}
	switch p.r.intn(6) {
	case 0, 1:
		return conjOf(ops(1 + p.r.intn(2)))
	case 2, 3:
		// failure-driven loop over an open call
		return gc(";", conjOf(append(append([]*G{p.dHead()}, ops(1+p.r.intn(3))...), ga("fail"))), ga("true"))
	case 4:
		// failure-driven loop over an open retract
		if p.r.coin(0.5) {
			// the retract matches every clause (fresh variable) and the body inserts at the front more than once,
			// so that the remaining snapshot clauses move away from their call-time positions
			pred, ar := "d0", 1
			if p.r.coin(0.3) {
				pred, ar = "d1", 2
			}
			mk := func(v int) *G {
				if ar == 1 {
					return gc(pred, gv(v))
				}
				return gc(pred, gv(v), gv(v+1))
			}
			var body []*G
			for i, k := 0, 2+p.r.intn(2); i < k; i++ {
				a := []string{"asserta", "asserta", "assertz"}[p.r.intn(3)]
				h := p.dHead()
				for h.S != pred {
					h = p.dHead()
				}
				body = append(body, gc(a, h))
			}
			return gc(";", conjOf(append(append([]*G{gc("retract", mk(5))}, body...), ga("fail"))), ga("true"))
		}
		return gc(";", conjOf(append(append([]*G{gc("retract", p.dHead())}, ops(1+p.r.intn(2))...), ga("fail"))), ga("true"))
	default:
		// once-only sequence that may fail as a whole
		return gc(";", gc("->", conjOf(ops(2)), ga("true")), ga("true"))
	}
}

func genDbProgram(r *rng, f feat) *program {
	p := &pgen{r: r, f: f, nvars: 3}
	prog := &program{}
	n0, n1 := 1+r.intn(4), 1+r.intn(3)
	for i := 0; i < n0; i++ {
		c := p.dClause()
		for headOf(c).S != "d0" {
			c = p.dClause()
		}
		prog.clauses = append(prog.clauses, renumber(c))
	}
	for i := 0; i < n1; i++ {
		c := p.dClause()
		for headOf(c).S != "d1" {
			c = p.dClause()
		}
		prog.clauses = append(prog.clauses, renumber(c))
	}
	var items []*G
	for i, k := 0, 1+r.intn(4); i < k; i++ {
		items = append(items, p.dbItem())
	}
	// the observation: listing of both predicates through clause/2 (query variables V7, V8)
	items = append(items,
		gc("findall", gc("c", gv(4), gv(5)), gc("clause", gc("d0", gv(4)), gv(5)), gv(7)),
		gc("findall", gc("c", gv(4), gv(6), gv(5)), gc("clause", gc("d1", gv(4), gv(6)), gv(5)), gv(8)))
	prog.query = conjOf(items)
	return prog
}

func headOf(c *G) *G {
	if c.K == 'c' && c.S == ":-" && len(c.Args) == 2 {
		return c.Args[0]
	}
	return c
}

func runC09(outDir string, seed int64, tier string) {
	f := feat{db: true}
	open := append(openUpdatePrograms(), openRetractPrograms()...)
	runProgProperty("C09", outDir, seed, tier, func(r *rng, i int) *progCase {
		if i < len(open) {
			return open[i]
		}
		return &progCase{prog: genDbProgram(r, f), dynamic: true}
	}, 1000+len(open), 8000+len(open),
		"an open retract/1 whose predicate is abolished (or emptied) and created again at its i-th answer, k = 2..4, every i, four shapes; updates made while a call is open, exhaustively: d0/1 with k = 2..4 clauses, at the i-th answer of the open call clause j is retracted and one or two clauses are added at the end or at the front (or two clauses retracted and one added), every i, j; the open call's answers, a later call and the listing are observed; database histories over two dynamic predicates with initial clauses (facts, rules, duplicates, clauses with variables): 1-4 items, each a sequence of asserta/assertz/retract/retractall/abolish/clause/calls, or a failure-driven loop over an open call or an open retract issuing 1-3 updates, or a committed sequence; the final listing of both predicates through clause/2 and every answer are compared; distinct by program+query text; non-trivial = at least one answer or an error")
}

func runC10(outDir string, seed int64, tier string) {
	f := feat{db: true, topOr: true, callN: true}
	runProgProperty("C10", outDir, seed, tier, func(r *rng, i int) *progCase {
		pc := &progCase{prog: genDbProgram(r, f), dynamic: true}
		// clauses given with variables already bound in the calling environment, and richer terms
		p := &pgen{r: r, f: f, nvars: 4}
		var items []*G
		for i, k := 0, 1+r.intn(3); i < k; i++ {
			h := gc("d0", p.term(2))
			if r.coin(0.4) {
				h = gc("d1", p.term(2), p.term(1))
			}
			c := h
			if r.coin(0.5) {
				c = gc(":-", h, p.conj(1, 99, false))
			}
			bind := gc("=", gv(r.intn(4)), p.term(1))
			if r.coin(0.3) {
				// a control construct of the body reaches assert through a bound variable
				cond := gc("member", gv(0), p.smallList())
				bv := gv(3)
				switch r.intn(3) {
				case 0:
					bind = gc("=", bv, gc("->", cond, gc("=", gv(1), ga("yes"))))
					c = gc(":-", h, gc(";", bv, gc("=", gv(1), ga("none"))))
				case 1:
					bind = gc("=", bv, gc(",", cond, gc("=", gv(1), ga("a"))))
					c = gc(":-", h, gc(";", bv, gc("=", gv(1), ga("b"))))
				default:
					bind = gc("=", bv, cond)
					c = gc(":-", h, gc(",", bv, gc("=", gv(1), ga("c"))))
				}
			}
			if r.coin(0.2) {
				// a ground head and first alternative, variables only in a later alternative of a top-level disjunction
				gh := gc("d0", []*G{ga("k"), gi(7), glist([]*G{ga("c")}, nil)}[r.intn(3)])
				alts := []*G{[]*G{ga("true"), ga("fail"), gc("=", ga("a"), ga("a"))}[r.intn(3)], gc("=", gv(r.intn(4)), p.term(1))}
				if r.coin(0.3) {
					alts = append(alts, gc("member", gv(r.intn(4)), p.smallList()))
				}
				body := alts[len(alts)-1]
				for i := len(alts) - 2; i >= 0; i-- {
					body = gc(";", alts[i], body)
				}
				c = gc(":-", gh, body)
			}
			if r.coin(0.2) {
				// double-quoted strings in the head (string-backed lists in the engine), called with the same
				// list written in bracket notation, a prefix of it, and a different one
				str := []string{"ab", "a", "abc", "ba"}[r.intn(4)]
				other := []string{"ab", "b", "abd", "ba"}[r.intn(4)]
				// (a predicate of its own: the d0/d1 clauses with variable goals would call the list)
				c = gc("ds", gstr(str), gv(r.intn(4)))
				if r.coin(0.4) {
					c = gc(":-", c, gc("=", gv(r.intn(4)), gstr(other)))
				}
				es := gstr(str)
				es.Q = false
				probe := []*G{gc("ds", es, gv(6)), gc("ds", gc(".", ga(str[:1]), gv(5)), gv(6)), gc("ds", gstr(other), gv(6)), gc("ds", gv(5), gv(6))}[r.intn(4)]
				bind = gc("=", gv(r.intn(4)), p.term(1))
				items = append(items, bind, gc([]string{"assertz", "asserta"}[r.intn(2)], c),
					gc("findall", gc("p", gv(5), gv(6)), probe, gv(10+len(items))),
					gc("findall", gc("c", gv(4), gv(6), gv(5)), gc("clause", gc("ds", gv(4), gv(6)), gv(5)), gv(30+len(items))))
				continue
			}
			items = append(items, bind, gc([]string{"assertz", "asserta"}[r.intn(2)], c))
			if r.coin(0.4) { // a binding made after the clause was added must not show through
				items = append(items, gc("=", gv(r.intn(4)), p.term(1)))
			}
		}
		// observe through clause/2, retract/1 and calls
		items = append(items,
			gc("findall", gc("c", gv(4), gv(5)), gc("clause", gc("d0", gv(4)), gv(5)), gv(7)),
			gc("findall", gv(4), gc("d0", gv(4)), gv(8)),
			gc("findall", gc("c", gv(4), gv(6), gv(5)), gc("retract", gc(":-", gc("d1", gv(4), gv(6)), gv(5))), gv(9)))
		pc.prog.query = conjOf(items)
		_ = fmt.Sprint
		return pc
	}, 1000, 8000,
		"clauses (facts and rules, nested compounds, proper and partial lists, repeated and singleton variables, variable goals, top-level disjunctive bodies) loaded as text and added by asserta/assertz with variables bound in the calling environment; observed through clause/2, retract/1 and calls; distinct by program+query text; non-trivial = at least one answer or an error")
}
