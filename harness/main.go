package main

import (
	"flag"
	"fmt"
	"os"
)

var workerFrom = -1
var shrinkID = -1
var shrinkM bool

func main() {
	out := flag.String("out", "", "output directory for case files and run.json")
	seed := flag.Int64("seed", 1, "PRNG seed")
	tier := flag.String("tier", "quick", "quick|thorough")
	repo := flag.String("repo", "/repo", "path of the ichiban/prolog working tree (for generators)")
	replay := flag.String("replay", "", "replay file to re-run on the implementation")
	observe := flag.String("observe", "", "internal: observe one program given as JSON and print its Coq case line")
	shrink := flag.Int("shrink", -1, "shrink the failing case with this id (program properties)")
	shrinkModel := flag.Bool("shrink-model", false, "shrink with respect to the model M instead of the reference semantics S")
	flag.IntVar(&workerFrom, "worker-from", -1, "internal: run as an isolated worker starting at this case id")
	flag.IntVar(&c05From, "c05from", -1, "internal: C05 worker, first task")
	flag.IntVar(&c05To, "c05to", -1, "internal: C05 worker, one past the last task")
	flag.Parse()
	if *replay != "" {
		os.Exit(replayFile(*replay))
	}
	if *observe != "" {
		observeOne(*observe)
		return
	}
	shrinkID, shrinkM = *shrink, *shrinkModel
	if flag.NArg() == 1 && flag.Arg(0) == "gen-bootstrap" {
		genBootstrap(*repo, *out)
		return
	}
	if flag.NArg() != 1 || *out == "" {
		fmt.Fprintln(os.Stderr, "usage: harness -out dir [-seed n] [-tier quick|thorough] Cxx")
		os.Exit(2)
	}
	if err := os.MkdirAll(*out, 0o755); err != nil {
		fatal("%v", err)
	}
	switch flag.Arg(0) {
	case "C07":
		runC07(*out, *seed, *tier)
	case "C01":
		runC01(*out, *seed, *tier)
	case "C03":
		runC03(*out, *seed, *tier)
	case "C11":
		runC11(*out, *seed, *tier)
	case "C09":
		runC09(*out, *seed, *tier)
	case "C13":
		runC13(*out, *seed, *tier)
	case "C02":
		runC02(*out, *seed, *tier)
	case "C08":
		runC08(*out, *seed, *tier)
	case "C18":
		runC18(*out, *seed, *tier)
	case "C12":
		runC12(*out, *seed, *tier)
	case "C15":
		runC15(*out, *seed, *tier)
	case "C10":
		runC10(*out, *seed, *tier)
	case "C20":
		runC20(*out, *seed, *tier)
	case "C16":
		runC16(*out, *seed, *tier)
	case "C19":
		runC19(*out, *seed, *tier)
	case "C17":
		runC17(*out, *seed, *tier)
	case "C14":
		runC14(*out, *seed, *tier)
	case "C05":
		runC05(*out, *seed, *tier, *repo)
	case "C06":
		runC06(*out, *seed, *tier)
	case "C04":
		runC04(*out, *seed, *tier)
	default:
		fatal("unknown property %s", flag.Arg(0))
	}
}
