package main

import (
	"flag"
	"fmt"
	"os"
)

func main() {
	out := flag.String("out", "", "output directory for case files and run.json")
	seed := flag.Int64("seed", 1, "PRNG seed")
	tier := flag.String("tier", "quick", "quick|thorough")
	replay := flag.String("replay", "", "replay file to re-run on the implementation")
	flag.Parse()
	if *replay != "" {
		os.Exit(replayFile(*replay))
	}
	if flag.NArg() != 1 || *out == "" {
		fmt.Fprintln(os.Stderr, "usage: harness -out dir [-seed n] [-tier quick|thorough] Cxx")
		os.Exit(2)
	}
	if err := os.MkdirAll(*out, 0o755); err != nil {
		fatal("%v", err)
	}
	switch flag.Arg(0) {
	case "C07":
		runC07(*out, *seed, *tier)
	default:
		fatal("unknown property %s", flag.Arg(0))
	}
}
