package main

import (
	"bytes"
	"flag"
	"fmt"
	"os"
	"os/exec"
	"strings"
	"time"
)

// Properties whose runs are not split into isolated workers of their own are run in a child
// process: when the child is killed by the Go runtime (fatal stack overflow, an unrecovered panic
// inside the implementation), the query that was running is the failing input.
var supervised = map[string]bool{"C02": true, "C06": true, "C07": true, "C08": true, "C12": true, "C13": true, "C15": true,
	"C16": true, "C17": true, "C18": true, "C19": true, "C20": true}

var currentFile *os.File

// markCurrent records the query about to be handed to the implementation (child process only)
func markCurrent(q string) {
	if currentFile == nil {
		return
	}
	_ = currentFile.Truncate(0)
	_, _ = currentFile.WriteAt([]byte(q), 0)
}

// headBuf keeps the first 64 KB written to it (the Go runtime names the cause first)
type headBuf struct{ buf []byte }

func (h *headBuf) Write(p []byte) (int, error) {
	if len(h.buf) < 1<<16 {
		h.buf = append(h.buf, p...)
	}
	return len(p), nil
}

func supervise(pid, out string, seed int64, tier string) {
	start := time.Now()
	cur := out + "/current.txt"
	_ = os.Remove(cur)
	cmd := exec.Command(os.Args[0], os.Args[1:]...)
	cmd.Env = append(os.Environ(), "HARNESS_CHILD=1")
	cmd.Stdout = os.Stdout
	tail := &headBuf{}
	cmd.Stderr = tail
	err := cmd.Run()
	if err == nil {
		return
	}
	log := string(tail.buf)
	os.Stderr.WriteString(log)
	q, _ := os.ReadFile(cur)
	crashed := strings.Contains(log, "fatal error:") || strings.Contains(log, "goroutine stack exceeds") || strings.Contains(log, "\npanic: ") || strings.HasPrefix(log, "panic: ")
	if !crashed || len(bytes.TrimSpace(q)) == 0 {
		os.Exit(2)
	}
	what := "the process was aborted by the Go runtime"
	for _, l := range strings.Split(log, "\n") {
		if strings.HasPrefix(l, "fatal error:") || strings.HasPrefix(l, "panic: ") || strings.Contains(l, "goroutine stack exceeds") {
			what = l
			break
		}
	}
	sum := newSummary(pid, seed, tier)
	desc := map[string]interface{}{"text": string(q), "query": string(q)}
	sum.Cases["0"] = desc
	sum.Evaluations = 1
	sum.Rule = "the run was cut short: the process died while the implementation ran the query below"
	sum.Failures = append(sum.Failures, failure{ID: 0, Class: "process-aborted", Input: desc, Observed: what, Expected: "answers, failure or an error term"})
	sum.write(out, start)
}

var workerFrom = -1
var shrinkID = -1
var shrinkM bool

func main() {
	out := flag.String("out", "", "output directory for case files and run.json")
	seed := flag.Int64("seed", 1, "PRNG seed")
	tier := flag.String("tier", "quick", "quick|thorough")
	repo := flag.String("repo", "/repo", "path of the ichiban/prolog working tree (for generators)")
	replay := flag.String("replay", "", "replay file to re-run on the implementation")
	observe := flag.String("observe", "", "internal: observe one program given as JSON and print its Coq case line")
	shrink := flag.Int("shrink", -1, "shrink the failing case with this id (program properties)")
	shrinkModel := flag.Bool("shrink-model", false, "shrink with respect to the model M instead of the reference semantics S")
	flag.IntVar(&workerFrom, "worker-from", -1, "internal: run as an isolated worker starting at this case id")
	flag.IntVar(&c05From, "c05from", -1, "internal: C05 worker, first task")
	flag.IntVar(&c05To, "c05to", -1, "internal: C05 worker, one past the last task")
	flag.Parse()
	if *replay != "" {
		os.Exit(replayFile(*replay))
	}
	if *observe != "" {
		observeOne(*observe)
		return
	}
	shrinkID, shrinkM = *shrink, *shrinkModel
	if flag.NArg() == 1 && flag.Arg(0) == "gen-bootstrap" {
		genBootstrap(*repo, *out)
		return
	}
	if flag.NArg() != 1 || *out == "" {
		fmt.Fprintln(os.Stderr, "usage: harness -out dir [-seed n] [-tier quick|thorough] Cxx")
		os.Exit(2)
	}
	if err := os.MkdirAll(*out, 0o755); err != nil {
		fatal("%v", err)
	}
	if supervised[flag.Arg(0)] && shrinkID < 0 {
		if os.Getenv("HARNESS_CHILD") == "" {
			supervise(flag.Arg(0), *out, *seed, *tier)
			return
		}
		currentFile, _ = os.OpenFile(*out+"/current.txt", os.O_CREATE|os.O_RDWR|os.O_TRUNC, 0o644)
	}
	switch flag.Arg(0) {
	case "C07":
		runC07(*out, *seed, *tier)
	case "C01":
		runC01(*out, *seed, *tier)
	case "C03":
		runC03(*out, *seed, *tier)
	case "C11":
		runC11(*out, *seed, *tier)
	case "C09":
		runC09(*out, *seed, *tier)
	case "C13":
		runC13(*out, *seed, *tier)
	case "C02":
		runC02(*out, *seed, *tier)
	case "C08":
		runC08(*out, *seed, *tier)
	case "C18":
		runC18(*out, *seed, *tier)
	case "C12":
		runC12(*out, *seed, *tier)
	case "C15":
		runC15(*out, *seed, *tier)
	case "C10":
		runC10(*out, *seed, *tier)
	case "C20":
		runC20(*out, *seed, *tier)
	case "C16":
		runC16(*out, *seed, *tier)
	case "C19":
		runC19(*out, *seed, *tier)
	case "C17":
		runC17(*out, *seed, *tier)
	case "C14":
		runC14(*out, *seed, *tier)
	case "C05":
		runC05(*out, *seed, *tier, *repo)
	case "C06":
		runC06(*out, *seed, *tier)
	case "C04":
		runC04(*out, *seed, *tier)
	default:
		fatal("unknown property %s", flag.Arg(0))
	}
}
