module verif/harness

go 1.19

require github.com/ichiban/prolog v0.0.0

replace github.com/ichiban/prolog => /repo
