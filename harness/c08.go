package main

// C08: the standard order is total and representation independent; sorts obey it.

import (
	"fmt"
	"path/filepath"
	"sort"
	"strings"
	"time"

	"github.com/ichiban/prolog"
)

func hasUnbound(t *G) bool { return !ground(t) }

var c08Pool = []string{"", "a", "ab", "abc", "b", "f", "fo", "foo", "+", "++", "[]", "A", "é", "éa"}

func runC08(outDir string, seed int64, tier string) {
	start := time.Now()
	sum := newSummary("C08", seed, tier)
	r := &rng{s: uint64(seed) ^ hashString("C08")}
	n := 2100 + len(c08NestTerms())*len(c08NestTerms())/2
	if tier == "thorough" {
		n = 20000
	}
	p := prolog.New(nil, nil)
	_ = p.Exec(":- set_prolog_flag(double_quotes, chars).\n")
	var ocases, scases []string
	seen := map[string]bool{}
	id := 0
	sign := map[string]int{"<": -1, "=": 0, ">": 1}
	addFail := func(class string, desc map[string]interface{}, obs, exp string) {
		sum.Failures = append(sum.Failures, failure{ID: id, Class: class, Input: desc, Observed: obs, Expected: exp})
	}
	cmp := func(g *tgen, a, b *G, paths bool) (int, string, bool) {
		g.setup, g.nbuild = nil, 0
		ta, tb := g.render(a, paths), g.render(b, paths)
		q := strings.Join(append(g.setup, "compare(O, "+ta+", "+tb+")"), ", ") + " ."
		out := runQuery(p, 1, []string{"O"}, q)
		if len(out.Answers) != 1 || out.Answers[0]["O"].K != 'a' {
			return 0, q, false
		}
		return sign[out.Answers[0]["O"].S], q, true
	}
	poolRes := map[[2]string]int{}
	poolTransitivity := func() {
		// transitivity over the whole pool, from the matrix of observed comparisons
		var keys []string
		ks := map[string]bool{}
		for k := range poolRes {
			if !ks[k[0]] {
				ks[k[0]] = true
				keys = append(keys, k[0])
			}
		}
		sort.Strings(keys)
		for _, x := range keys {
			for _, y := range keys {
				for _, z := range keys {
					xy, ok1 := poolRes[[2]string{x, y}]
					yz, ok2 := poolRes[[2]string{y, z}]
					xz, ok3 := poolRes[[2]string{x, z}]
					if ok1 && ok2 && ok3 && xy < 0 && yz < 0 && xz >= 0 {
						sum.Failures = append(sum.Failures, failure{ID: id, Class: "order:not-transitive", Input: map[string]interface{}{"text": fmt.Sprintf("a=%s b=%s c=%s", x, y, z)},
							Observed: fmt.Sprintf("ab=%d bc=%d ac=%d", xy, yz, xz), Expected: "a<b, b<c implies a<c"})
					}
				}
			}
		}
	}
	for i := 0; i < n; i++ {
		g := &tgen{r: r.split(), nvars: 2}
		// ground terms mostly: laws relating several calls are asserted only where no two distinct
		// unbound variables are compared
		allowVars := g.r.coin(0.15)
		a, b, c := g.term(3, allowVars), g.term(3, allowVars), g.term(3, allowVars)
		pooled := false
		if np := len(c08Pool); i < 2*np*np {
			// every pair of names of a pool with shared prefixes, the empty atom, symbol and multi-byte names:
			// first as atoms, then as functor names
			k := i % (np * np)
			mk := func(s string) *G {
				if i >= np*np {
					return gc(s, ga("z"))
				}
				return ga(s)
			}
			a, b, c = mk(c08Pool[k/np]), mk(c08Pool[k%np]), mk(c08Pool[(k*5+3)%np])
			pooled = true
		}
		if np, na := len(c08Pool), len(c08ArityTerms()); !pooled && i < 2*np*np+na*na {
			// every pair of compounds over two names, arities 0-5 and two first arguments: arity decides before name
			ts := c08ArityTerms()
			k := i - 2*np*np
			a, b, c = ts[k/na], ts[k%na], ts[(k*7+5)%na]
			pooled = true
		}
		if np, na, nn := len(c08Pool), len(c08ArityTerms()), len(c08NestTerms()); !pooled && i < 2*np*np+na*na+nn*nn/2 {
			// every pair of compounds of one arity (2 or 3) whose first or last argument is a compound of
			// arity 2 or 3 named g or h: name and arity of a nested compound decide before its arguments
			ts := c08NestTerms()
			k := i - 2*np*np - na*na
			h := nn / 2
			blk := k / (h * h)
			k = k % (h * h)
			a, b, c = ts[blk*h+k/h], ts[blk*h+k%h], ts[blk*h+(k*5+3)%h]
			pooled = true
		}
		if !pooled && g.r.coin(0.4) {
			b = mutateTerm(g, a)
			if !allowVars && !ground(b) {
				b = a
			}
		}
		if !pooled && g.r.coin(0.3) {
			c = mutateTerm(g, b)
			if !allowVars && !ground(c) {
				c = b
			}
		}
		if s, ok := isCharList(a); !pooled && ok && g.r.coin(0.5) { // the code list of the same (or a neighbouring) text
			var es []*G
			for _, ch := range s {
				es = append(es, gi(int64(ch)))
			}
			if g.r.coin(0.3) && len(es) > 0 {
				es[len(es)-1] = gi(int64([]rune("abc")[g.r.intn(3)]))
			}
			b = glist(es, nil)
		}
		key := a.text() + " ? " + b.text()
		if !seen[key] {
			seen[key] = true
			sum.Distinct++
		}
		ab, q, ok := cmp(g, a, b, true)
		desc := map[string]interface{}{"query": q, "vars": []string{"O"}, "text": "compare(O, " + a.text() + ", " + b.text() + ")", "program": ":- set_prolog_flag(double_quotes, chars).\n"}
		sum.Cases[fmt.Sprint(id)] = desc
		sum.Evaluations++
		if !ok {
			addFail("order:compare-does-not-answer", desc, "no answer / error", "<, = or >")
			id++
			continue
		}
		sum.count(fmt.Sprintf("compare:%d", ab))
		// the order the property states (Float < Integer < Atom < Compound, numbers by value, atoms by
		// text, compounds by arity, then name, then arguments left to right), computed on the generated
		// term itself: only for ground terms
		if ground(a) && ground(b) {
			if want, ok := statedOrder(a, b); ok && want != ab {
				addFail("order:differs-from-the-stated-order", desc, fmt.Sprint(ab), fmt.Sprint(want))
			}
		}
		if pooled {
			poolRes[[2]string{a.text(), b.text()}] = ab
		}
		if ground(a) && ground(b) { // the relative order of distinct unbound variables is implementation dependent
			ocases = append(ocases, fmt.Sprintf("(%d, %s, %s, %s)", id, a.coqT(), b.coqT(), coqZ(int64(ab))))
		}
		// the order of two distinct unbound variables depends on when each was created, which differs
		// between renderings: the representation check applies when at most one variable is involved
		nv := 0
		for v := 0; v <= a.maxVar() || v <= b.maxVar(); v++ {
			if a.hasVar(v) || b.hasVar(v) {
				nv++
			}
		}
		ab2, _, _ := cmp(g, a, b, false)
		if ab2 != ab && nv <= 1 {
			addFail("order:depends-on-representation", desc, fmt.Sprint(ab), fmt.Sprint(ab2, " (bracket notation)"))
		}
		if ground(a) && ground(b) && ground(c) {
			ba, _, _ := cmp(g, b, a, true)
			if ba != -ab {
				addFail("order:not-antisymmetric", desc, fmt.Sprintf("compare(a,b)=%d compare(b,a)=%d", ab, ba), "opposite signs")
			}
			bc, _, _ := cmp(g, b, c, true)
			ac, _, _ := cmp(g, a, c, true)
			if ab <= 0 && bc <= 0 && (ac > 0 || (ac == 0 && (ab < 0 || bc < 0))) {
				d2 := map[string]interface{}{"text": fmt.Sprintf("a=%s b=%s c=%s", a.text(), b.text(), c.text())}
				addFail("order:not-transitive", d2, fmt.Sprintf("ab=%d bc=%d ac=%d", ab, bc, ac), "a=<b, b=<c implies a=<c")
			}
			// '=' exactly for identical terms
			g.setup, g.nbuild = nil, 0
			ta, tb := g.render(a, true), g.render(b, true)
			o := runQuery(p, 1, nil, strings.Join(append(g.setup, "("+ta+") == ("+tb+")"), ", ")+" .")
			if (len(o.Answers) == 1) != (ab == 0) {
				addFail("order:==-disagrees-with-compare", desc, fmt.Sprint(len(o.Answers) == 1), fmt.Sprint(ab == 0))
			}
			// the operators of bootstrap.pl
			for op, want := range map[string]bool{"@<": ab < 0, "@>": ab > 0, "@=<": ab <= 0, "@>=": ab >= 0, `\==`: ab != 0} {
				o := runQuery(p, 1, nil, "("+a.text()+") "+op+" ("+b.text()+") .") // operands in brackets: an atom that is an operator cannot stand bare
				if (len(o.Answers) == 1) != want {
					addFail("order:operator-"+op+"-disagrees-with-compare", desc, fmt.Sprint(len(o.Answers) == 1), fmt.Sprint(want))
				}
			}
		}
		id++
		// sort/2, keysort/2 on lists of ground terms
		if i%3 == 0 {
			var es []*G
			for j, k := 0, 1+g.r.intn(16); j < k; j++ {
				t := g.term(2, false)
				if j > 0 && g.r.coin(0.3) {
					t = es[g.r.intn(len(es))]
				}
				es = append(es, t)
			}
			g.setup, g.nbuild = nil, 0
			lt := g.render(glist(es, nil), true)
			q := strings.Join(append(g.setup, "sort("+lt+", S)"), ", ") + " ."
			out := runQuery(p, 1, []string{"S"}, q)
			desc := map[string]interface{}{"query": q, "vars": []string{"S"}, "text": "sort(" + glist(es, nil).text() + ", S)", "program": ":- set_prolog_flag(double_quotes, chars).\n"}
			sum.Cases[fmt.Sprint(id)] = desc
			sum.Evaluations++
			sum.count("sort")
			if len(out.Answers) == 1 {
				var ins []string
				for _, e := range es {
					ins = append(ins, "("+e.coqT()+")")
				}
				var outs []string
				t := out.Answers[0]["S"]
				for t.K == 'c' && t.S == "." && len(t.Args) == 2 {
					outs = append(outs, "("+t.Args[0].coq()+")")
					t = t.Args[1]
				}
				scases = append(scases, fmt.Sprintf("(%d, %s, %s)", id, coqList(ins), coqList(outs)))
			} else {
				addFail("order:sort-does-not-answer", desc, fmt.Sprint(out.Err, out.GoErr), "a sorted list")
			}
			id++
			// keysort: stable, keys ascending, a permutation (evaluated directly; long lists included)
			var pairs []string
			type kv struct {
				k int
				v int
			}
			var kvs []kv
			nk := 2 + g.r.intn(40)
			for j := 0; j < nk; j++ {
				k := g.r.intn(4)
				kvs = append(kvs, kv{k, j})
				pairs = append(pairs, fmt.Sprintf("%d-%d", k, j))
			}
			q = "keysort([" + strings.Join(pairs, ",") + "], S) ."
			out = runQuery(p, 1, []string{"S"}, q)
			desc = map[string]interface{}{"query": q, "vars": []string{"S"}, "text": q}
			sum.Cases[fmt.Sprint(id)] = desc
			sum.Evaluations++
			sum.count("keysort")
			good := len(out.Answers) == 1
			if good {
				t := out.Answers[0]["S"]
				lastK, lastV, cnt := -1, -1, 0
				for t.K == 'c' && t.S == "." && len(t.Args) == 2 {
					pr := t.Args[0]
					if pr.K != 'c' || pr.S != "-" {
						good = false
						break
					}
					k, v := int(pr.Args[0].I), int(pr.Args[1].I)
					if k < lastK || (k == lastK && v < lastV) {
						good = false
					}
					if v < 0 || v >= nk || kvs[v].k != k {
						good = false
					}
					lastK, lastV = k, v
					cnt++
					t = t.Args[1]
				}
				if cnt != nk {
					good = false
				}
			}
			if !good {
				addFail("order:keysort-not-a-stable-sort", desc, fmt.Sprint(out.Answers), "pairs by ascending key, equal keys in input order")
			}
			id++
		}
		if len(sum.Samples) < 8 && i%97 == 0 {
			sum.Samples = append(sum.Samples, map[string]interface{}{"compare": key, "result": ab})
		}
	}
	sum.Rule = "every pair of compounds of one arity with a nested compound (g or h, arity 2 or 3) as first or last argument; every pair of compounds over two names x arities 0-5 x two first arguments (arity decides before name); triples of terms (mostly ground; variables, floats vs integers, atoms ordered by text, one functor name at two arities, lists and character lists) rendered through random construction paths: compare/3 both ways and across the triple, ==/2, the five order operators, sort/2 on lists with duplicates, keysort/2 on lists of up to 41 pairs with few distinct keys; distinct by rendered pair; every case is non-trivial"
	header := c02Header
	shard := 1500
	nf := 0
	for i := 0; i < len(ocases); i += shard {
		j := i + shard
		if j > len(ocases) {
			j = len(ocases)
		}
		name := fmt.Sprintf("cases_order_%d.v", nf)
		writeCases(filepath.Join(outDir, name), header, "ocase", "check_order", ocases[i:j])
		sum.CaseFiles = append(sum.CaseFiles, name)
		nf++
	}
	for i := 0; i < len(scases); i += shard {
		j := i + shard
		if j > len(scases) {
			j = len(scases)
		}
		name := fmt.Sprintf("cases_sort_%d.v", nf)
		writeCases(filepath.Join(outDir, name), header, "scase", "check_sort", scases[i:j])
		sum.CaseFiles = append(sum.CaseFiles, name)
		nf++
	}
	poolTransitivity()
	sum.write(outDir, start)
}

// statedOrder: the standard order as the property words it, on ground generated terms
func statedOrder(a, b *G) (int, bool) {
	rank := func(t *G) int {
		switch t.K {
		case 'f':
			return 1
		case 'i':
			return 2
		case 'a':
			return 3
		case 'c':
			return 4
		}
		return 0
	}
	sgn := func(less, greater bool) int {
		if less {
			return -1
		}
		if greater {
			return 1
		}
		return 0
	}
	ra, rb := rank(a), rank(b)
	if ra == 0 || rb == 0 {
		return 0, false
	}
	if ra != rb {
		return sgn(ra < rb, ra > rb), true
	}
	switch a.K {
	case 'f':
		var x, y float64
		if _, err := fmt.Sscan(a.S, &x); err != nil {
			return 0, false
		}
		if _, err := fmt.Sscan(b.S, &y); err != nil {
			return 0, false
		}
		return sgn(x < y, x > y), true
	case 'i':
		return sgn(a.I < b.I, a.I > b.I), true
	case 'a':
		return sgn(a.S < b.S, a.S > b.S), true
	}
	if len(a.Args) != len(b.Args) {
		return sgn(len(a.Args) < len(b.Args), len(a.Args) > len(b.Args)), true
	}
	if a.S != b.S {
		return sgn(a.S < b.S, a.S > b.S), true
	}
	for i := range a.Args {
		c, ok := statedOrder(a.Args[i], b.Args[i])
		if !ok {
			return 0, false
		}
		if c != 0 {
			return c, true
		}
	}
	return 0, true
}

// c08NestTerms: f/2 and f/3 (first half / second half) with a compound g or h of arity 2 or 3 as
// first or as last argument, whose own first argument is 1 or 2
func c08NestTerms() []*G {
	var out []*G
	for _, outer := range []int{2, 3} {
		for _, pos := range []int{0, 1} {
			for _, name := range []string{"g", "h"} {
				for _, inner := range []int{2, 3} {
					for _, first := range []int64{1, 2} {
						in := []*G{gi(first)}
						for j := 1; j < inner; j++ {
							in = append(in, gi(3))
						}
						args := make([]*G, outer)
						for j := range args {
							args[j] = gi(1)
						}
						if pos == 0 {
							args[0] = gc(name, in...)
						} else {
							args[outer-1] = gc(name, in...)
						}
						out = append(out, gc("f", args...))
					}
				}
			}
		}
	}
	return out
}

// c08ArityTerms: f and g with 0-5 arguments, the first one a or b
func c08ArityTerms() []*G {
	var out []*G
	for _, name := range []string{"f", "g"} {
		for n := 0; n <= 5; n++ {
			for _, first := range []string{"a", "b"} {
				if n == 0 {
					if first == "a" {
						out = append(out, ga(name))
					}
					continue
				}
				args := []*G{ga(first)}
				for j := 1; j < n; j++ {
					args = append(args, ga("c"))
				}
				out = append(out, gc(name, args...))
			}
		}
	}
	return out
}
