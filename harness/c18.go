package main

// C18: the operator table evolves as op/3 defines; failed updates change nothing.

import (
	"fmt"
	"path/filepath"
	"sort"
	"strings"
	"time"

	"github.com/ichiban/prolog"
)

type opArg struct{ text, coq string }

func c18Priority(r *rng) opArg {
	switch r.intn(40) {
	case 0:
		return opArg{"_", "PVar"}
	case 1:
		return opArg{"foo", "POther"}
	case 2:
		return opArg{"1201", "PInt 1201"}
	case 3:
		return opArg{"-1", "PInt (-1)"}
	case 4, 5, 6, 7, 8, 9:
		return opArg{"0", "PInt 0"}
	default:
		p := []int{1, 200, 400, 700, 999, 1000, 1001, 1100, 1200}[r.intn(9)]
		return opArg{fmt.Sprint(p), fmt.Sprintf("PInt %d", p)}
	}
}

func c18Spec(r *rng) opArg {
	switch r.intn(40) {
	case 0:
		return opArg{"_", "SVar"}
	case 1:
		return opArg{"7", "SOther"}
	case 2:
		return opArg{"yfy", `SAtom "yfy"`}
	default:
		s := []string{"fx", "fy", "xf", "yf", "xfx", "xfy", "yfx"}[r.intn(7)]
		return opArg{s, `SAtom "` + s + `"`}
	}
}

var c18Names = []string{"foo", "bar", "+", "-", "===>", "foo", "bar", "baz", "qux", ",", "|", "[]", "{}", "mod", "\\+", "baz", "foo", "===>", "-"}

func c18Name(r *rng) string { return c18Names[r.intn(len(c18Names))] }

func c18NamesArg(r *rng) opArg {
	switch r.intn(20) {
	case 0, 1, 2, 3, 4, 7, 8, 9, 10, 11, 12:
		n := c18Name(r)
		return opArg{quoteAtom(n), "NAtom " + coqStr(n)}
	case 5:
		return opArg{"_", "NVar"}
	case 6:
		return opArg{"f(x)", "NOther"}
	default:
		var ts, cs []string
		for i, k := 0, 1+r.intn(4); i < k; i++ {
			switch r.intn(30) {
			case 0:
				ts, cs = append(ts, "_"), append(cs, "IVar")
			case 1:
				ts, cs = append(ts, "3"), append(cs, "INonAtom")
			default:
				n := c18Name(r)
				ts, cs = append(ts, quoteAtom(n)), append(cs, "IAtom "+coqStr(n))
			}
		}
		switch r.intn(25) {
		case 0:
			return opArg{"[" + strings.Join(ts, ",") + "|_]", "NList " + coqList(cs) + " IVar"}
		case 1:
			return opArg{"[" + strings.Join(ts, ",") + "|foo]", "NList " + coqList(cs) + ` (IAtom "foo")`}
		}
		return opArg{"[" + strings.Join(ts, ",") + "]", "NList " + coqList(cs) + ` (IAtom "[]")`}
	}
}

func c18Err(t *T, goErr string) string {
	if t == nil {
		return "None (* go error: " + strings.ReplaceAll(goErr, "*)", "") + " *)"
	}
	if t.K == 'c' && t.S == "error" && len(t.Args) == 2 {
		f := t.Args[0]
		switch {
		case f.K == 'a' && f.S == "instantiation_error":
			return "Some EInst"
		case f.K == 'c' && f.S == "type_error" && f.Args[0].S == "integer":
			return "Some ETypeInteger"
		case f.K == 'c' && f.S == "type_error" && f.Args[0].S == "atom":
			return "Some ETypeAtom"
		case f.K == 'c' && f.S == "type_error" && f.Args[0].S == "list":
			return "Some ETypeList"
		case f.K == 'c' && f.S == "domain_error" && f.Args[0].S == "operator_priority":
			return "Some EDomPriority"
		case f.K == 'c' && f.S == "domain_error" && f.Args[0].S == "operator_specifier":
			return "Some EDomSpecifier"
		case f.K == 'c' && f.S == "permission_error" && len(f.Args) == 3 && f.Args[2].K == 'a':
			if f.Args[0].S == "modify" {
				return "Some (EPermModify " + coqStr(f.Args[2].S) + ")"
			}
			return "Some (EPermCreate " + coqStr(f.Args[2].S) + ")"
		}
	}
	return "Some ETypeList (* unrecognised: " + strings.ReplaceAll(t.String(), "*)", "") + " *)"
}

type opEntry struct {
	p    int64
	s, n string
}

func c18Table(p *prolog.Interpreter) ([]opEntry, bool) {
	out := runQuery(p, 1, []string{"L"}, "findall(op(P,S,N), current_op(P,S,N), L) .")
	if len(out.Answers) != 1 {
		return nil, false
	}
	var es []opEntry
	t := out.Answers[0]["L"]
	for t.K == 'c' && t.S == "." && len(t.Args) == 2 {
		e := t.Args[0]
		if e.K == 'c' && len(e.Args) == 3 {
			es = append(es, opEntry{e.Args[0].I, e.Args[1].S, e.Args[2].S})
		}
		t = t.Args[1]
	}
	sort.Slice(es, func(i, j int) bool {
		if es[i].n != es[j].n {
			return es[i].n < es[j].n
		}
		if es[i].s != es[j].s {
			return es[i].s < es[j].s
		}
		return es[i].p < es[j].p
	})
	return es, true
}

func runC18(outDir string, seed int64, tier string) {
	start := time.Now()
	sum := newSummary("C18", seed, tier)
	r := &rng{s: uint64(seed) ^ hashString("C18")}
	n := 250
	if tier == "thorough" {
		n = 5000
	}
	var cases []string
	seen := map[string]bool{}
	for id := 0; id < n; id++ {
		rr := r.split()
		p := prolog.New(nil, nil)
		var steps []string
		var texts []string
		before, _ := c18Table(p)
		for k, m := 0, 1+rr.intn(15); k < m; k++ {
			pa, sa, na := c18Priority(rr), c18Spec(rr), c18NamesArg(rr)
			q := fmt.Sprintf("op(%s, %s, %s) .", pa.text, sa.text, na.text)
			texts = append(texts, q)
			out := runQuery(p, 1, nil, q)
			after, ok := c18Table(p)
			desc := map[string]interface{}{"history": append([]string{}, texts...), "text": strings.Join(texts, " ")}
			failed := out.Err != nil || out.GoErr != ""
			errc := "None"
			if failed {
				errc = c18Err(out.Err, out.GoErr)
				sum.count("op:error")
			} else if len(out.Answers) == 1 {
				sum.count("op:ok")
			} else {
				sum.count("op:fails")
				errc = "Some ETypeList (* op/3 failed *)"
			}
			sum.Evaluations++
			// ---- the property, evaluated on the implementation ----
			if !ok {
				sum.Failures = append(sum.Failures, failure{ID: id, Class: "op:current_op-does-not-enumerate", Input: desc, Observed: "error", Expected: "the table"})
				break
			}
			if failed && !sameEntries(before, after) {
				sum.Failures = append(sum.Failures, failure{ID: id, Class: "op:failed-call-changed-the-table", Input: desc,
					Observed: fmt.Sprint(diffEntries(before, after)), Expected: "no change"})
			}
			// a successful call on a single name: the latest definition is in force (priority 0 removes it)
			if !failed && len(out.Answers) == 1 && strings.HasPrefix(na.coq, "NAtom ") && strings.HasPrefix(pa.coq, "PInt ") && strings.HasPrefix(sa.coq, "SAtom ") {
				var pv int64
				fmt.Sscan(strings.Trim(strings.TrimPrefix(pa.coq, "PInt "), "()"), &pv)
				nm := strings.TrimSuffix(strings.TrimPrefix(na.coq, "NAtom \""), "\"")
				nm = strings.ReplaceAll(nm, "\"\"", "\"")
				cls := func(s string) string {
					return map[string]string{"fx": "pre", "fy": "pre", "xf": "post", "yf": "post", "xfx": "in", "xfy": "in", "yfx": "in"}[s]
				}
				found := false
				for _, e := range after {
					if e.n == nm && cls(e.s) == cls(sa.text) {
						found = true
						if pv == 0 || e.p != pv || e.s != sa.text {
							sum.Failures = append(sum.Failures, failure{ID: id, Class: "op:latest-definition-not-in-force", Input: desc,
								Observed: fmt.Sprint(e), Expected: fmt.Sprintf("op(%d, %s, %s)", pv, sa.text, nm)})
						}
					}
				}
				if !found && pv != 0 {
					sum.Failures = append(sum.Failures, failure{ID: id, Class: "op:definition-missing-after-successful-op", Input: desc, Observed: "absent", Expected: fmt.Sprintf("op(%d, %s, %s)", pv, sa.text, nm)})
				}
			}
			// a successful call touches only the class of its specifier (and, for a single name, only that name):
			// every other definition is what it was ("one definition per name and class ... priority 0 removing the entry")
			if !failed && len(out.Answers) == 1 && strings.HasPrefix(sa.coq, "SAtom ") {
				clsOf := map[string]string{"fx": "pre", "fy": "pre", "xf": "post", "yf": "post", "xfx": "in", "xfy": "in", "yfx": "in"}
				single := ""
				if strings.HasPrefix(na.coq, "NAtom ") {
					single = strings.ReplaceAll(strings.TrimSuffix(strings.TrimPrefix(na.coq, "NAtom \""), "\""), "\"\"", "\"")
				}
				untouched := func(e opEntry) bool {
					return clsOf[e.s] != clsOf[sa.text] || (strings.HasPrefix(na.coq, "NAtom ") && e.n != single)
				}
				has := func(l []opEntry, e opEntry) bool {
					for _, x := range l {
						if x == e {
							return true
						}
					}
					return false
				}
				if c := clsOf[sa.text]; c != "" {
					for _, e := range before {
						if untouched(e) && !has(after, e) {
							sum.Failures = append(sum.Failures, failure{ID: id, Class: "op:unrelated-definition-lost", Input: desc, Observed: fmt.Sprint("-", e), Expected: "definitions of other classes and names unchanged"})
						}
					}
					for _, e := range after {
						if untouched(e) && !has(before, e) {
							sum.Failures = append(sum.Failures, failure{ID: id, Class: "op:unrelated-definition-appeared", Input: desc, Observed: fmt.Sprint("+", e), Expected: "definitions of other classes and names unchanged"})
						}
					}
				}
			}
			// current_op/3 as a relation: called with the name and the specifier bound (and with the priority
			// bound as well) it selects from the enumerated table, for every specifier
			if strings.HasPrefix(na.coq, "NAtom ") {
				nm := strings.ReplaceAll(strings.TrimSuffix(strings.TrimPrefix(na.coq, "NAtom \""), "\""), "\"\"", "\"")
				specs := []string{"xfx", "xfy", "yfx", "fy", "fx", "xf", "yf"}
				prios := map[int64]bool{}
				for _, e := range after {
					if e.n == nm {
						prios[e.p] = true
					}
				}
				var want []string
				for _, sp := range specs {
					for _, e := range after {
						if e.n == nm && e.s == sp {
							want = append(want, fmt.Sprintf("%s-%d", sp, e.p))
							for pv := range prios {
								if pv == e.p {
									want = append(want, fmt.Sprintf("%s+%d", sp, pv))
								}
							}
						}
					}
				}
				sort.Strings(want)
				var pl []string
				for pv := range prios {
					pl = append(pl, fmt.Sprint(pv))
				}
				sort.Strings(pl)
				q := fmt.Sprintf("findall('-'(S,P), (member(S, [xfx,xfy,yfx,fy,fx,xf,yf]), current_op(P, S, %s)), L1), findall('+'(S,P), (member(P, [%s]), member(S, [xfx,xfy,yfx,fy,fx,xf,yf]), current_op(P, S, %s)), L2), append(L1, L2, L) .", quoteAtom(nm), strings.Join(pl, ","), quoteAtom(nm))
				o2 := runQuery(p, 1, []string{"L"}, q)
				var got []string
				if len(o2.Answers) == 1 {
					t := o2.Answers[0]["L"]
					for t.K == 'c' && t.S == "." && len(t.Args) == 2 {
						e := t.Args[0]
						if e.K == 'c' && len(e.Args) == 2 {
							got = append(got, fmt.Sprintf("%s%s%d", e.Args[0].S, e.S, e.Args[1].I))
						}
						t = t.Args[1]
					}
				}
				sort.Strings(got)
				if len(o2.Answers) != 1 || strings.Join(got, " ") != strings.Join(want, " ") {
					sum.Failures = append(sum.Failures, failure{ID: id, Class: "op:current_op-with-bound-arguments-differs-from-the-table", Input: desc,
						Observed: strings.Join(got, " "), Expected: strings.Join(want, " ") + "   (query: " + q + ")"})
				}
			}
			inf, post := map[string]bool{}, map[string]bool{}
			slots := map[string]int{}
			for _, e := range after {
				cls := map[string]string{"fx": "pre", "fy": "pre", "xf": "post", "yf": "post", "xfx": "in", "xfy": "in", "yfx": "in"}[e.s]
				slots[e.n+"/"+cls]++
				if cls == "in" {
					inf[e.n] = true
				}
				if cls == "post" {
					post[e.n] = true
				}
				bad := e.p < 1 || e.p > 1200 || e.n == "[]" || e.n == "{}" || (e.n == "|" && (cls != "in" || e.p < 1001)) || (e.n == "," && !(cls == "in" && e.p == 1000 && e.s == "xfy"))
				if bad {
					sum.Failures = append(sum.Failures, failure{ID: id, Class: "op:table-violates-iso-restriction", Input: desc, Observed: fmt.Sprint(e), Expected: "ISO 6.3.4.3 / 8.14.3"})
				}
			}
			for k2, c := range slots {
				if c > 1 {
					sum.Failures = append(sum.Failures, failure{ID: id, Class: "op:two-definitions-in-one-class", Input: desc, Observed: k2, Expected: "one definition per name and class"})
				}
			}
			for nm := range inf {
				if post[nm] {
					sum.Failures = append(sum.Failures, failure{ID: id, Class: "op:infix-and-postfix-same-name", Input: desc, Observed: nm, Expected: "never both"})
				}
			}
			var es []string
			for _, e := range after {
				es = append(es, fmt.Sprintf("(%d, %s, %s)", e.p, coqStr(e.s), coqStr(e.n)))
			}
			steps = append(steps, fmt.Sprintf("((%s, %s, %s), %s, %s)", pa.coq, sa.coq, na.coq, errc, coqList(es)))
			before = after
		}
		// reading and writing use that table: a probe with an infix operator of the table, if any
		for _, e := range before {
			if (e.s == "xfx" || e.s == "xfy" || e.s == "yfx") && e.n != "," && e.n != "|" && e.p < 1000 {
				q := fmt.Sprintf("X = (a %s b), X =.. [F, A, B] .", quoteAtom(e.n))
				out := runQuery(p, 1, []string{"F"}, q)
				if len(out.Answers) != 1 || out.Answers[0]["F"].S != e.n {
					sum.Failures = append(sum.Failures, failure{ID: id, Class: "op:reader-ignores-the-table", Input: map[string]interface{}{"history": texts, "text": q},
						Observed: fmt.Sprint(out.Err, out.GoErr), Expected: "parsed as " + e.n + "(a,b)"})
				}
				break
			}
		}
		key := strings.Join(texts, " ")
		if !seen[key] {
			seen[key] = true
			sum.Distinct++
		}
		sum.Cases[fmt.Sprint(id)] = map[string]interface{}{"history": texts, "text": key}
		cases = append(cases, fmt.Sprintf("(%d, %s)", id, coqList(steps)))
		if len(sum.Samples) < 6 && id%41 == 0 {
			sum.Samples = append(sum.Samples, texts)
		}
	}
	sum.Rule = "histories of 1-15 op/3 calls from the bootstrap table: priorities in and out of range, unbound and non-integer; all specifiers, invalid and unbound ones; single names and lists (with duplicates, invalid members, partial and improper lists), the special names ',' '|' '[]' '{}' and existing operators; after every call the outcome (success or the ISO error) and the whole table as enumerated by current_op/3 are compared with the model, the invariants are checked on the enumerated table, current_op/3 is called with the name and each specifier bound (and each priority bound) and must select from that table, and the reader is probed; distinct by history text; every history is non-trivial"
	header := "From Coq Require Import ZArith List String.\nFrom PV Require Import Model.OpTable Model.OpCheck.\nImport ListNotations.\nOpen Scope Z_scope.\nOpen Scope string_scope.\n"
	shard := 100
	nf := 0
	for i := 0; i < len(cases); i += shard {
		j := i + shard
		if j > len(cases) {
			j = len(cases)
		}
		name := fmt.Sprintf("cases_ops_%d.v", nf)
		writeCases(filepath.Join(outDir, name), header, "hcase", "check_ops", cases[i:j])
		sum.CaseFiles = append(sum.CaseFiles, name)
		nf++
	}
	sum.write(outDir, start)
}

func sameEntries(a, b []opEntry) bool {
	if len(a) != len(b) {
		return false
	}
	for i := range a {
		if a[i] != b[i] {
			return false
		}
	}
	return true
}

func diffEntries(a, b []opEntry) []string {
	in := func(l []opEntry, e opEntry) bool {
		for _, x := range l {
			if x == e {
				return true
			}
		}
		return false
	}
	var d []string
	for _, e := range a {
		if !in(b, e) {
			d = append(d, fmt.Sprintf("-%v", e))
		}
	}
	for _, e := range b {
		if !in(a, e) {
			d = append(d, fmt.Sprintf("+%v", e))
		}
	}
	return d
}
