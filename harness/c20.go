package main

// C20: loading defines clauses in source order; a failed load defines nothing.

import (
	"bytes"
	"fmt"
	"path/filepath"
	"strings"
	"testing/fstest"
	"time"

	"github.com/ichiban/prolog"
)

type c20pi struct {
	name  string
	arity int
}

var c20Preds = []c20pi{{"a", 1}, {"b", 1}, {"c", 1}, {"a", 2}, {"d", 1}}

func (p c20pi) coq() string { return fmt.Sprintf("(%s, %d)", coqStr(p.name), p.arity) }
func (p c20pi) ind() string { return fmt.Sprintf("%s/%d", p.name, p.arity) }

// an item of a text, as in Model/Loader.v
type c20item struct {
	kind string // clause dynamic multifile discontiguous directive init baddecl noncallable syntax
	p    c20pi
	id   int
	ok   bool
	text string
}

func (i c20item) coq() string {
	switch i.kind {
	case "clause":
		return fmt.Sprintf("IClause %s %d", i.p.coq(), i.id)
	case "dynamic":
		return "IDynamic " + i.p.coq()
	case "multifile":
		return "IMultifile " + i.p.coq()
	case "discontiguous":
		return "IDiscontiguous " + i.p.coq()
	case "directive":
		return fmt.Sprintf("IDirective %v %d", i.ok, i.id)
	case "init":
		return fmt.Sprintf("IInit %v %d", i.ok, i.id)
	case "baddecl":
		return "IBadDecl"
	case "noncallable":
		return "INonCallable"
	}
	return "ISyntaxError"
}

func c20Clause(r *rng, p c20pi, id int) c20item {
	var t string
	if p.arity == 1 {
		t = fmt.Sprintf("%s(%d)", p.name, id)
	} else {
		t = fmt.Sprintf("%s(%d, %s)", p.name, id, []string{"x", "_", "f(Y, Y)", "\"s\""}[r.intn(4)])
	}
	switch r.intn(5) {
	case 0:
		t += " :- true"
	case 1:
		t += " :- X = 1, Y = X"
	}
	return c20item{kind: "clause", p: p, id: id, text: t + "."}
}

func c20Fault(r *rng, kind string) c20item {
	switch kind {
	case "syntax":
		return c20item{kind: "syntax", text: []string{"a(1 .", "foo bar.", ") .", "a(1)) .", "X = = .", "'abc.", "a :- .", "[1,2."}[r.intn(8)]}
	case "noncallable":
		return c20item{kind: "noncallable", text: []string{"42.", "7 :- true.", "1.5.", "3 :- a(1).", "X."}[r.intn(5)]}
	case "baddecl":
		return c20item{kind: "baddecl", text: []string{":- dynamic(foo).", ":- discontiguous(_).", ":- multifile(a/b).", ":- dynamic(1/a).", ":- dynamic([a/1|_]).", ":- multifile((a/1, 3))."}[r.intn(6)]}
	}
	return c20item{kind: "directive", ok: false, text: []string{":- fail.", ":- 1 = 2.", ":- \\+ true."}[r.intn(3)]}
}

// a mostly valid text
func c20Text(r *rng, nextID *int, tok *int, favMulti map[c20pi]bool) []c20item {
	var items []c20item
	disc := map[c20pi]bool{}
	closed := map[c20pi]bool{}
	decl := func(kind string, p c20pi) {
		form := r.intn(4)
		it := c20item{kind: kind, p: p}
		switch form {
		case 0:
			it.text = fmt.Sprintf(":- %s([%s]).", kind, p.ind())
		case 1:
			it.text = fmt.Sprintf(":- %s((%s)).", kind, p.ind())
		default:
			it.text = fmt.Sprintf(":- %s(%s).", kind, p.ind())
		}
		items = append(items, it)
		if kind == "discontiguous" {
			disc[p] = true
		}
		for q := range closed {
			_ = q
		}
	}
	closeAll := func(cur *c20pi) {
		if cur != nil {
			closed[*cur] = true
		}
	}
	// leading declarations: the history's multifile predicates, and some flags
	for _, p := range c20Preds {
		if favMulti[p] && r.coin(0.8) {
			decl("multifile", p)
		}
		if r.coin(0.25) {
			decl([]string{"dynamic", "discontiguous", "discontiguous"}[r.intn(3)], p)
		}
	}
	var cur *c20pi
	for k, n := 0, 2+r.intn(7); k < n; k++ {
		switch c := r.intn(20); {
		case c < 3:
			closeAll(cur)
			cur = nil
			decl([]string{"dynamic", "multifile", "discontiguous", "discontiguous"}[r.intn(4)], c20Preds[r.intn(len(c20Preds))])
		case c == 3:
			closeAll(cur)
			cur = nil
			*tok++
			items = append(items, c20item{kind: "directive", ok: true, id: *tok, text: fmt.Sprintf(":- write(%d).", *tok)})
		case c == 4:
			closeAll(cur)
			cur = nil
			*tok++
			ok := !r.coin(0.15)
			t := fmt.Sprintf(":- initialization(write(%d)).", *tok)
			if !ok {
				t = ":- initialization(fail)."
			}
			items = append(items, c20item{kind: "init", ok: ok, id: *tok, text: t})
		default:
			p := c20Preds[r.intn(len(c20Preds))]
			if r.coin(0.4) { // prefer another run of a discontiguous predicate
				for _, q := range c20Preds {
					if disc[q] && closed[q] && r.coin(0.6) {
						p = q
					}
				}
			}
			if cur != nil && *cur == p {
				continue
			}
			if closed[p] && !disc[p] && !r.coin(0.08) {
				continue
			}
			closeAll(cur)
			pp := p
			cur = &pp
			for j, m := 0, []int{1, 2, 3, 3, 4, 5, 6, 7}[r.intn(8)]; j < m; j++ {
				*nextID++
				items = append(items, c20Clause(r, p, *nextID))
			}
		}
	}
	return items
}

func c20Render(items []c20item) string {
	var ts []string
	for _, i := range items {
		ts = append(ts, i.text)
	}
	return strings.Join(ts, "\n") + "\n"
}

func c20ErrCode(err error) int {
	if err == nil {
		return 0
	}
	s := err.Error()
	switch {
	case strings.Contains(s, "is discontiguous"):
		return 1
	case strings.Contains(s, "failed directive"):
		return 2
	case strings.Contains(s, "failed initialization goal"):
		return 6
	case strings.Contains(s, "predicate_indicator") || strings.Contains(s, "instantiation_error"):
		return 3
	case strings.Contains(s, "type_error(callable"):
		return 3
	case strings.Contains(s, "permission_error"):
		return 7
	default:
		return 5 // syntax errors: "unexpected token", "insufficient", syntax_error(...)
	}
}

type c20obs struct {
	err  int
	out  []int
	list [][]int // nil = undefined
	raw  string
}

func (o c20obs) coq() string {
	var os, ls []string
	for _, t := range o.out {
		os = append(os, fmt.Sprint(t))
	}
	for _, l := range o.list {
		if l == nil {
			ls = append(ls, "None")
			continue
		}
		var xs []string
		for _, x := range l {
			xs = append(xs, fmt.Sprint(x))
		}
		ls = append(ls, "Some "+coqList(xs))
	}
	return fmt.Sprintf("(%d, %s, %s)", o.err, coqList(os), coqList(ls))
}

// c20DirectStart: the predicate with which the next round of direct calls begins -- the one the previous
// round ended with, so that the first goal executed after an operation is the last one executed before it
var c20DirectStart int
var c20DirectDiff string

// c20Direct calls every predicate as the query goal itself (no findall around it), in rotating order
func c20Direct(p *prolog.Interpreter) [][]int {
	res := make([][]int, len(c20Preds))
	n := len(c20Preds)
	last := c20DirectStart
	for k := 0; k < n; k++ {
		i := (c20DirectStart + k) % n
		last = i
		pi := c20Preds[i]
		goal := fmt.Sprintf("%s(X) .", pi.name)
		if pi.arity == 2 {
			goal = fmt.Sprintf("%s(X, _) .", pi.name)
		}
		out := runQuery(p, 200, []string{"X"}, goal)
		if out.Err != nil || out.GoErr != "" {
			res[i] = nil
			continue
		}
		l := []int{}
		for _, a := range out.Answers {
			l = append(l, int(a["X"].I))
		}
		res[i] = l
	}
	c20DirectStart = last
	return res
}

func c20Listing(p *prolog.Interpreter) [][]int {
	direct := c20Direct(p)
	res := c20ListingFindall(p)
	if c20DirectDiff == "" && fmt.Sprint(direct) != fmt.Sprint(res) {
		c20DirectDiff = fmt.Sprintf("called directly: %v; through findall/3: %v", direct, res)
	}
	return res
}

func c20ListingFindall(p *prolog.Interpreter) [][]int {
	var res [][]int
	for _, pi := range c20Preds {
		goal := fmt.Sprintf("%s(X)", pi.name)
		if pi.arity == 2 {
			goal = fmt.Sprintf("%s(X, _)", pi.name)
		}
		out := runQuery(p, 1, []string{"L"}, fmt.Sprintf("catch(findall(X, %s, L), error(existence_error(_, _), _), L = undefined) .", goal))
		if len(out.Answers) != 1 {
			res = append(res, []int{-999})
			continue
		}
		t := out.Answers[0]["L"]
		if t.K == 'a' && t.S == "undefined" {
			res = append(res, nil)
			continue
		}
		l := []int{}
		for t.K == 'c' && t.S == "." && len(t.Args) == 2 {
			l = append(l, int(t.Args[0].I))
			t = t.Args[1]
		}
		res = append(res, l)
	}
	return res
}

func c20Tokens(s string) []int {
	var out []int
	for _, c := range s { // tokens are written without separators: use fixed two-digit tokens
		_ = c
	}
	for i := 0; i+2 <= len(s); i += 2 {
		var v int
		fmt.Sscan(s[i:i+2], &v)
		out = append(out, v)
	}
	return out
}

func sameLists(a, b [][]int) bool {
	if len(a) != len(b) {
		return false
	}
	for i := range a {
		if (a[i] == nil) != (b[i] == nil) || len(a[i]) != len(b[i]) {
			return false
		}
		for j := range a[i] {
			if a[i][j] != b[i][j] {
				return false
			}
		}
	}
	return true
}

// c20Expect is the property read as a specification: whether the text must be
// rejected, and the listing of every predicate after a load that is accepted.
func c20Expect(items []c20item, before [][]int, multi map[c20pi]bool) (mustFail bool, initFails bool, after [][]int, newMulti map[c20pi]bool) {
	runs := map[c20pi]int{}
	disc := map[c20pi]bool{}
	var prev *c20pi
	for _, it := range items {
		switch it.kind {
		case "syntax", "noncallable", "baddecl":
			mustFail = true
		case "directive":
			if !it.ok {
				mustFail = true
			}
		case "init":
			if !it.ok {
				initFails = true
			}
		case "discontiguous":
			disc[it.p] = true
		}
		if it.kind == "clause" {
			if prev == nil || *prev != it.p {
				runs[it.p]++
				if runs[it.p] > 1 && !disc[it.p] {
					mustFail = true
				}
			}
			p := it.p
			prev = &p
		} else {
			prev = nil
		}
	}
	newMulti = map[c20pi]bool{}
	for k, v := range multi {
		newMulti[k] = v
	}
	for idx, pi := range c20Preds {
		var ids []int
		mentioned, tmulti := false, false
		for _, it := range items {
			if it.p != pi {
				continue
			}
			switch it.kind {
			case "clause":
				ids = append(ids, it.id)
				mentioned = true
			case "multifile":
				tmulti, mentioned = true, true
			case "dynamic", "discontiguous":
				mentioned = true
			}
		}
		switch {
		case !mentioned:
			after = append(after, before[idx])
		case before[idx] != nil && multi[pi] && tmulti:
			after = append(after, append(append([]int{}, before[idx]...), ids...))
		default:
			if ids == nil {
				ids = []int{}
			}
			after = append(after, ids)
			newMulti[pi] = tmulti
		}
	}
	return
}

func runC20(outDir string, seed int64, tier string) {
	start := time.Now()
	sum := newSummary("C20", seed, tier)
	r := &rng{s: uint64(seed) ^ hashString("C20")}
	n := 120
	if tier == "thorough" {
		n = 2500
	}
	var cases []string
	seen := map[string]bool{}
	kinds := []string{"syntax", "noncallable", "baddecl", "faildirective", "interleave"}
	for id := 0; id < n; id++ {
		rr := r.split()
		var buf bytes.Buffer
		p := prolog.New(nil, &buf)
		fsys := fstest.MapFS{}
		p.FS = fsys
		nextID, tok := 100, 10
		var ops []string
		var obss []string
		var texts []string
		multi := map[c20pi]bool{}
		dyn := map[c20pi]bool{}
		before := c20Listing(p)
		nfile := 0
		favMulti := map[c20pi]bool{}
		for _, q := range c20Preds {
			if rr.coin(0.25) {
				favMulti[q] = true
			}
		}
		doLoad := func(items []c20item, label string) bool {
			text := c20Render(items)
			texts = append(texts, "%% "+label+"\n"+text)
			buf.Reset()
			var err error
			if rr.intn(4) == 0 {
				nfile++
				name := fmt.Sprintf("f%d.pl", nfile)
				fsys[name] = &fstest.MapFile{Data: []byte(text)}
				out := runQuery(p, 1, nil, fmt.Sprintf("consult('%s') .", name))
				if out.Err != nil {
					err = fmt.Errorf("%s", out.Err.String())
				} else if out.GoErr != "" {
					err = fmt.Errorf("%s", out.GoErr)
				} else if len(out.Answers) != 1 {
					err = fmt.Errorf("consult failed")
				}
				sum.count("load:consult")
			} else {
				err = p.Exec(text)
				sum.count("load:exec")
			}
			o := c20obs{err: c20ErrCode(err), out: c20Tokens(buf.String()), list: c20Listing(p)}
			sum.Evaluations++
			desc := map[string]interface{}{"history": append([]string{}, texts...), "text": strings.Join(texts, "\n")}
			mustFail, initFails, want, newMulti := c20Expect(items, before, multi)
			errs := fmt.Sprint(err)
			if c20DirectDiff != "" {
				// what a predicate answers when it is the query goal itself is what it answers inside findall/3
				sum.Failures = append(sum.Failures, failure{ID: id, Class: "load:direct-call-differs-from-listing", Input: desc, Observed: c20DirectDiff, Expected: "the same clauses either way"})
				c20DirectDiff = ""
			}
			switch {
			case mustFail:
				sum.count("text:faulty:" + label)
				if o.err == 0 || o.err == 6 {
					sum.Failures = append(sum.Failures, failure{ID: id, Class: "load:faulty-text-accepted", Input: desc, Observed: errs, Expected: "an error"})
				}
				if !sameLists(before, o.list) {
					sum.Failures = append(sum.Failures, failure{ID: id, Class: "load:failed-load-changed-the-database", Input: desc,
						Observed: fmt.Sprint(o.list), Expected: fmt.Sprint(before)})
				}
			default:
				sum.count("text:valid")
				if (o.err != 0) != initFails || (initFails && o.err != 6) {
					sum.Failures = append(sum.Failures, failure{ID: id, Class: "load:valid-text-rejected", Input: desc, Observed: errs, Expected: "success"})
				} else if !sameLists(want, o.list) {
					sum.Failures = append(sum.Failures, failure{ID: id, Class: "load:clauses-not-the-text's-in-source-order", Input: desc,
						Observed: fmt.Sprint(o.list), Expected: fmt.Sprint(want)})
				}
				if o.err == 0 {
					var wantOut []int
					for _, it := range items {
						if it.kind == "directive" && it.ok {
							wantOut = append(wantOut, it.id)
						}
					}
					for _, it := range items {
						if it.kind == "init" {
							wantOut = append(wantOut, it.id)
						}
					}
					if fmt.Sprint(wantOut) != fmt.Sprint(o.out) {
						sum.Failures = append(sum.Failures, failure{ID: id, Class: "load:directives-out-of-order", Input: desc, Observed: fmt.Sprint(o.out), Expected: fmt.Sprint(wantOut)})
					}
				}
				if o.err == 0 || o.err == 6 {
					multi = newMulti
					for _, it := range items {
						if it.kind == "dynamic" {
							dyn[it.p] = true
						}
					}
				}
			}
			var cs []string
			for _, it := range items {
				cs = append(cs, it.coq())
			}
			ops = append(ops, "OLoad "+coqList(cs))
			obss = append(obss, o.coq())
			before = o.list
			return o.err == 0
		}
		doAssert := func() {
			pi := c20Preds[rr.intn(len(c20Preds))]
			for _, q := range c20Preds {
				if dyn[q] && rr.coin(0.4) {
					pi = q
				}
			}
			nextID++
			goal := fmt.Sprintf("%s(%d)", pi.name, nextID)
			if pi.arity == 2 {
				goal = fmt.Sprintf("%s(%d, z)", pi.name, nextID)
			}
			q := fmt.Sprintf("assertz(%s) .", goal)
			texts = append(texts, "?- "+q)
			out := runQuery(p, 1, nil, q)
			var err error
			if out.Err != nil {
				err = fmt.Errorf("%s", out.Err.String())
			} else if out.GoErr != "" || len(out.Answers) != 1 {
				err = fmt.Errorf("unexpected %s", out.GoErr)
			}
			o := c20obs{err: c20ErrCode(err), list: c20Listing(p)}
			sum.Evaluations++
			sum.count("assertz")
			ops = append(ops, fmt.Sprintf("OAssert %s %d", pi.coq(), nextID))
			obss = append(obss, o.coq())
			before = o.list
		}
		for k, m := 0, 2+rr.intn(3); k < m; k++ {
			items := c20Text(rr, &nextID, &tok, favMulti)
			// one fault kind swept over every position of the text, on top of what is loaded
			if rr.coin(0.6) {
				kind := kinds[rr.intn(len(kinds))]
				positions := []int{}
				for pos := 0; pos <= len(items); pos++ {
					positions = append(positions, pos)
				}
				if tier != "thorough" && len(positions) > 6 {
					rr2 := rr.split()
					for len(positions) > 6 {
						i := rr2.intn(len(positions))
						positions = append(positions[:i], positions[i+1:]...)
					}
				}
				for _, pos := range positions {
					var f c20item
					if kind == "interleave" {
						// a clause of a predicate that already has a closed run and no declaration: find one
						var cand *c20pi
						decl := map[c20pi]bool{}
						for _, it := range items {
							if it.kind == "discontiguous" {
								decl[it.p] = true
							}
						}
						for i, it := range items {
							if it.kind == "clause" && !decl[it.p] && (i+1 < pos && (items[i+1].kind != "clause" || items[i+1].p != it.p)) {
								pp := it.p
								cand = &pp
							}
						}
						if cand == nil || (pos < len(items) && items[pos].kind == "clause" && items[pos].p == *cand) || (pos > 0 && items[pos-1].kind == "clause" && items[pos-1].p == *cand) {
							continue
						}
						nextID++
						f = c20Clause(rr, *cand, nextID)
					} else {
						f = c20Fault(rr, kind)
					}
					faulty := append(append(append([]c20item{}, items[:pos]...), f), items[pos:]...)
					doLoad(faulty, kind)
				}
			}
			doLoad(items, "text")
			for rr.coin(0.35) {
				doAssert()
			}
		}
		key := strings.Join(texts, "\n")
		if !seen[key] {
			seen[key] = true
			sum.Distinct++
		}
		sum.Cases[fmt.Sprint(id)] = map[string]interface{}{"history": texts, "text": key}
		var ws []string
		for _, pi := range c20Preds {
			ws = append(ws, pi.coq())
		}
		cases = append(cases, fmt.Sprintf("(%d, %s, %s, %s)", id, coqList(ws), coqList(ops), coqList(obss)))
		if len(sum.Samples) < 4 && id%37 == 0 {
			sum.Samples = append(sum.Samples, texts)
		}
	}
	sum.Rule = "histories of 2-4 texts over five predicates (two sharing a name), loaded by Exec or consult/1 on one interpreter: runs of 1-7 clauses (facts and rules), contiguous or interleaved, dynamic/multifile/discontiguous declarations in three syntaxes, output-writing directives and initialization goals (some failing); before 60% of the texts one fault kind (syntax error, non-callable clause, malformed declaration, failing directive, undeclared interleaving) is injected at every position (quick: 6 sampled positions) and each faulty variant is loaded on top of the earlier loads; assertz/1 calls between loads; after every operation the error kind, the output and the clause list of all five predicates are compared with the model and with the property read as a specification"
	header := "From Coq Require Import ZArith List String.\nFrom PV Require Import Model.Loader Model.LoaderCheck.\nImport ListNotations.\nOpen Scope Z_scope.\nOpen Scope string_scope.\n"
	shard := 100
	nf := 0
	for i := 0; i < len(cases); i += shard {
		j := i + shard
		if j > len(cases) {
			j = len(cases)
		}
		name := fmt.Sprintf("cases_load_%d.v", nf)
		writeCases(filepath.Join(outDir, name), header, "hcase", "check_hist", cases[i:j])
		sum.CaseFiles = append(sum.CaseFiles, name)
		nf++
	}
	sum.write(outDir, start)
}
