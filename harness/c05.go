package main

// C05: no input crashes or wedges the host; every failure is a Prolog error term.
//
// Every task (a goal p(t1..tn), a query text, a program text) runs in an isolated
// worker process under a memory limit and a watchdog, so that a fatal stack
// overflow or a wedge is observed rather than suffered.

import (
	"testing/fstest"
	"bufio"
	"context"
	"fmt"
	"os"
	"os/exec"
	"path/filepath"
	"regexp"
	"runtime/debug"
	"sort"
	"strings"
	"sync"
	"time"

	"github.com/ichiban/prolog"
	"github.com/ichiban/prolog/engine"
)

var c05From, c05To = -1, -1

type c05task struct {
	kind  string // goal | query | exec
	text  string
	pred  string
	names []string // variables read back after each answer (walks the terms they are bound to)
}

type c05pred struct {
	name  string
	arity int
}

// the predicates registered in interpreter.go and defined by bootstrap.pl, from the sources of this run
func c05Registry(repo string) []c05pred {
	var ps []c05pred
	seen := map[string]bool{}
	add := func(n string, a int) {
		k := fmt.Sprintf("%s/%d", n, a)
		if !seen[k] {
			seen[k] = true
			ps = append(ps, c05pred{n, a})
		}
	}
	src, err := os.ReadFile(filepath.Join(repo, "interpreter.go"))
	if err != nil {
		fatal("%v", err)
	}
	re := regexp.MustCompile("Register(\\d)\\(engine\\.NewAtom\\((\"(?:[^\"\\\\]|\\\\.)*\"|`[^`]*`)\\)")
	for _, m := range re.FindAllStringSubmatch(string(src), -1) {
		var a int
		fmt.Sscan(m[1], &a)
		name := m[2]
		if strings.HasPrefix(name, "`") {
			name = strings.Trim(name, "`")
		} else {
			fmt.Sscanf(name, "%q", &name)
		}
		add(name, a)
	}
	// the predicates bootstrap.pl defines, through the implementation's own reader
	bsrc, err := os.ReadFile(filepath.Join(repo, "bootstrap.pl"))
	if err != nil {
		fatal("%v", err)
	}
	p := prolog.New(nil, nil)
	parser := engine.NewParser(&p.VM, strings.NewReader(string(bsrc)))
	for {
		t, err := parser.Term()
		if err != nil {
			break
		}
		tt := fromTerm(t, nil, varNames{}, 0)
		if tt.K == 'c' && tt.S == ":-" && len(tt.Args) == 1 {
			continue
		}
		if tt.K == 'c' && tt.S == ":-" && len(tt.Args) == 2 {
			tt = tt.Args[0]
		}
		if tt.K == 'a' {
			add(tt.S, 0)
		} else if tt.K == 'c' {
			add(tt.S, len(tt.Args))
		}
	}
	sort.Slice(ps, func(i, j int) bool {
		if ps[i].name != ps[j].name {
			return ps[i].name < ps[j].name
		}
		return ps[i].arity < ps[j].arity
	})
	return ps
}

// argument shapes; %d is replaced by the argument position so that variables are distinct
var c05Shapes = []string{
	"_", "foo", "[]", "'hello world'", "0", "1", "-1", "9223372036854775807", "-9223372036854775808", "1.5", "-0.0",
	"f(a)", "f(V%d)", "a-b", "foo/1", "[a,b]", "[a|T%d]", "[a|b]", "\"str\"", "user_input", "S", "(foo, bar)", "call(foo)", "[1,2,3]", "'$VAR'(1)", "{a}",
	"[65299]", "['３']", "'٣'", // a digit that is not ASCII, as code, as character and as atom text
	"''", "a = ''", "f('', '')", "- ''", "'' / 0", // the empty atom, alone, beside operators and as an argument
	"[a|B%d]", "W%d", // B<i> is bound to [b] and W<i> to f(x) before the goal runs: the same terms as [a,b] and f(x), built another way
}

var c05Excluded = map[string]bool{"halt/0": true, "halt/1": true}

// throw/1 delivers the caller's ball: that ball is not an error the predicate raises about its arguments
var c05AnyBall = map[string]bool{"throw/1": true}

func c05Tasks(repo string, seed int64, tier string) []c05task {
	r := &rng{s: uint64(seed) ^ hashString("C05")}
	var ts []c05task
	preds := c05Registry(repo)
	shape := func(i, pos int) string {
		s := c05Shapes[i]
		if strings.Contains(s, "%d") {
			return fmt.Sprintf(s, pos)
		}
		return s
	}
	for _, p := range preds {
		key := fmt.Sprintf("%s/%d", p.name, p.arity)
		if c05Excluded[key] {
			continue
		}
		n := len(c05Shapes)
		var combos [][]int
		switch {
		case p.arity == 0:
			combos = [][]int{{}}
		case p.arity == 1:
			for i := 0; i < n; i++ {
				combos = append(combos, []int{i})
			}
		case p.arity == 2:
			for i := 0; i < n; i++ {
				for j := 0; j < n; j++ {
					combos = append(combos, []int{i, j})
				}
			}
		default:
			k := 250
			if tier == "thorough" {
				k = 6000
			}
			for c := 0; c < k; c++ {
				var cb []int
				for a := 0; a < p.arity; a++ {
					cb = append(cb, r.intn(n))
				}
				combos = append(combos, cb)
			}
		}
		if tier != "thorough" && len(combos) > 330 { // quick: a sample of the pairs
			r.shuffle(len(combos), func(i, j int) { combos[i], combos[j] = combos[j], combos[i] })
			combos = combos[:330]
		}
		for _, cb := range combos {
			var as, names, setup []string
			for pos, i := range cb {
				s := shape(i, pos)
				switch {
				case s == "S":
					setup = append(setup, "current_output(S)")
				case strings.HasPrefix(s, "[a|B"):
					setup = append(setup, fmt.Sprintf("B%d = [b]", pos))
				case strings.HasPrefix(s, "W"):
					setup = append(setup, fmt.Sprintf("W%d = f(x)", pos))
				}
				for _, pre := range []string{"V", "T", "B", "W"} {
					if strings.Contains(s, fmt.Sprintf("%s%d", pre, pos)) {
						names = append(names, fmt.Sprintf("%s%d", pre, pos))
					}
				}
				if s == "_" { // a named variable instead, so that what it gets bound to is read back
					s = fmt.Sprintf("V%d", pos)
					names = append(names, s)
				}
				as = append(as, s)
			}
			goal := quoteAtom(p.name)
			if len(as) > 0 {
				goal += "(" + strings.Join(as, ", ") + ")"
			}
			if len(setup) > 0 {
				goal = strings.Join(setup, ", ") + ", " + goal
			}
			ts = append(ts, c05task{"goal", goal + " .", key, names})
		}
	}
	// predicates of arity 3 and more once again over a small alphabet of extremes, exhaustively where feasible:
	// two huge integers in one call are what index and length arithmetic has to survive
	ext := []string{"abc", "9223372036854775807", "-9223372036854775808", "_", "1", "[a,b]", "f(x)"}
	for _, p := range preds {
		key := fmt.Sprintf("%s/%d", p.name, p.arity)
		if p.arity < 3 || c05Excluded[key] {
			continue
		}
		ext := ext
		if p.arity > 3 { // above arity 3 a smaller alphabet, so that the product stays exhaustive up to arity 5
			ext = []string{"abc", "9223372036854775807", "_", "1"}
		}
		total := 1
		for a := 0; a < p.arity; a++ {
			total *= len(ext)
		}
		limit := 1024
		if tier == "thorough" {
			limit = 4096
		}
		for c := 0; c < total && c < limit; c++ {
			code := c
			if total > limit {
				code = r.intn(total)
			}
			var as []string
			for a := 0; a < p.arity; a++ {
				as = append(as, ext[code%len(ext)])
				code /= len(ext)
			}
			ts = append(ts, c05task{"goal", quoteAtom(p.name) + "(" + strings.Join(as, ", ") + ") .", key, nil})
		}
	}
	// sizes: every argument position of every predicate of arity 1-3 once with each of a few integers whose
	// product with a small element size wraps around 64 bits (k*2^60+j) or 32 bits, the other arguments
	// unbound, an atom or a partial list: what allocation-size arithmetic has to survive
	sizes := []string{"1152921504606846976", "1152921504606846979", "2305843009213693952", "3458764513820540936", "4611686018427387904", "4294967296", "8070450532247928839"}
	others := []string{"_", "foo", "[a,b|T]"}
	for _, p := range preds {
		key := fmt.Sprintf("%s/%d", p.name, p.arity)
		if p.arity < 1 || p.arity > 3 || c05Excluded[key] {
			continue
		}
		for pos := 0; pos < p.arity; pos++ {
			for _, sz := range sizes {
				total := 1
				for a := 1; a < p.arity; a++ {
					total *= len(others)
				}
				for c := 0; c < total; c++ {
					code := c
					var as []string
					for a := 0; a < p.arity; a++ {
						if a == pos {
							as = append(as, sz)
							continue
						}
						as = append(as, others[code%len(others)])
						code /= len(others)
					}
					ts = append(ts, c05task{"goal", quoteAtom(p.name) + "(" + strings.Join(as, ", ") + ") .", key, nil})
				}
			}
		}
	}
	// arithmetic: every evaluable functor on operand shapes, under is/2 and the comparison predicates
	operands := []string{"0", "1", "-1", "2", "7", "9223372036854775807", "-9223372036854775808", "1.5", "-0.0", "1.0e308", "foo", "_", "(1+1)", "63", "64", "-64"}
	unary := []string{"+", "-", "\\", "abs", "acos", "asin", "atan", "ceiling", "cos", "exp", "float", "float_fractional_part", "float_integer_part", "floor", "log", "round", "sign", "sin", "sqrt", "tan", "truncate", "nosuch"}
	binary := []string{"*", "**", "+", "-", "/", "//", "/\\", "<<", ">>", "\\/", "^", "atan2", "div", "max", "min", "mod", "rem", "xor", "nosuch"}
	for _, f := range unary {
		for _, a := range operands {
			ts = append(ts, c05task{"goal", fmt.Sprintf("X is %s(%s) .", quoteAtom(f), a), "is/2", []string{"X"}})
		}
	}
	for _, f := range binary {
		for _, a := range operands {
			for _, b := range operands {
				ts = append(ts, c05task{"goal", fmt.Sprintf("X is %s(%s, %s) .", quoteAtom(f), a, b), "is/2", []string{"X"}})
				if f == "+" {
					for _, c := range []string{"=:=", "=\\=", "<", ">", "=<", ">="} {
						ts = append(ts, c05task{"goal", fmt.Sprintf("%s(%s, %s) .", quoteAtom(c), a, b), c + "/2", nil})
					}
				}
			}
		}
	}
	// texts: every string over the alphabet up to length 2, length 3 sampled (thorough: all), truncations and mutations of valid texts
	alpha := []string{"a", "X", "1", "_", "(", ")", "[", "]", "{", "}", ",", "|", ".", "-", "+", ":", "'", "\"", "\\", "%", "/", "*", " ", "\n", "0'", "`", "\xff", "é", ":-", "0x", "e",
		// characters of other Unicode classes: digits that are not ASCII (Nd), other numbers, upper and title case letters,
		// no-break and zero-width spaces
		"３", "٣", "²", "Ⅷ", "É", "ǅ", "\u00a0", "\u200b"}
	var strs []string
	for _, a := range alpha {
		strs = append(strs, a)
		for _, b := range alpha {
			strs = append(strs, a+b)
		}
	}
	n3 := 2500
	if tier == "thorough" {
		for _, a := range alpha {
			for _, b := range alpha {
				for _, c := range alpha {
					strs = append(strs, a+b+c)
				}
			}
		}
		n3 = 20000
	}
	for i := 0; i < n3; i++ {
		l := 3 + r.intn(4)
		var b strings.Builder
		for j := 0; j < l; j++ {
			b.WriteString(alpha[r.intn(len(alpha))])
		}
		strs = append(strs, b.String())
	}
	valid := []string{"foo(X, [a,b|T], \"s\", 'q a', 0'c, 1.5e3, {x}, -(1), a:-b).", "a :- b, c ; d -> e. f(X) --> [a], {X = 1}.", "X = [1,2,3], Y is 1 + 2 * 3 - 0x1F mod 7, \\+ a = b.",
		":- op(700, xfx, ===>). a ===> b. /* c */ % d\n x."}
	for _, v := range valid {
		for i := 0; i <= len(v); i++ {
			strs = append(strs, v[:i])
		}
		for i := 0; i < 60; i++ {
			b := []byte(v)
			b[r.intn(len(b))] = []byte(alpha[r.intn(len(alpha))])[0]
			strs = append(strs, string(b))
		}
	}
	for _, s := range strs {
		ts = append(ts, c05task{"query", s, "", nil}, c05task{"exec", s, "", nil})
	}
	// loads that lead back to the text being loaded (the interpreter is given the file system c05CycleFS)
	for _, q := range []string{"consult(a).", "ensure_loaded(a).", "[a, b].", "consult(self).", "ensure_loaded(self).", "consult(selfc).",
		"consult(init).", "ensure_loaded(tri1).", "consult(missing).", "ensure_loaded(a), ensure_loaded(b), fa, fb."} {
		ts = append(ts, c05task{"cycle", q, "", nil})
	}
	return ts
}

var c05CycleFS = fstest.MapFS{
	"a.pl":     &fstest.MapFile{Data: []byte(":- ensure_loaded(b).\nfa.\n")},
	"b.pl":     &fstest.MapFile{Data: []byte(":- ensure_loaded(a).\nfb.\n")},
	"self.pl":  &fstest.MapFile{Data: []byte(":- ensure_loaded(self).\nfs.\n")},
	"selfc.pl": &fstest.MapFile{Data: []byte("fc.\n:- initialization(ensure_loaded(selfc)).\n")},
	"init.pl":  &fstest.MapFile{Data: []byte(":- initialization(ensure_loaded(a)).\nfi.\n")},
	"tri1.pl":  &fstest.MapFile{Data: []byte(":- ensure_loaded(tri2).\nt1.\n")},
	"tri2.pl":  &fstest.MapFile{Data: []byte(":- ensure_loaded(tri3).\nt2.\n")},
	"tri3.pl":  &fstest.MapFile{Data: []byte(":- ensure_loaded(tri1).\nt3.\n")},
}

func (r *rng) shuffle(n int, swap func(i, j int)) {
	for i := n - 1; i > 0; i-- {
		swap(i, r.intn(i+1))
	}
}

var c05ISO = map[string]int{"instantiation_error": 0, "uninstantiation_error": 1, "type_error": 2, "domain_error": 2, "existence_error": 2, "permission_error": 3,
	"representation_error": 1, "evaluation_error": 1, "resource_error": 1, "syntax_error": 1, "system_error": 0}

// classify the outcome of one task
func c05Classify(out outcome) (class string, bad bool, detail string) {
	switch {
	case out.Err != nil:
		t := out.Err
		s := t.String()
		if strings.Contains(s, "panic:") {
			return "panic-residue", true, s
		}
		if t.K == 'c' && t.S == "error" && len(t.Args) == 2 {
			f := t.Args[0]
			name, ar := f.S, len(f.Args)
			if f.K == 'a' {
				ar = 0
			}
			if want, ok := c05ISO[name]; ok && want == ar && (f.K == 'a' || f.K == 'c') {
				return "iso-error:" + name, false, ""
			}
			return "error-term-with-non-iso-formal", true, s
		}
		return "ball-that-is-not-an-error-term", true, s
	case out.GoErr != "":
		switch {
		case strings.Contains(out.GoErr, "panic:"):
			return "panic-residue", true, out.GoErr
		case strings.Contains(out.GoErr, "context canceled") || strings.Contains(out.GoErr, "deadline exceeded"):
			return "budget", false, ""
		}
		return "go-error", false, out.GoErr
	case len(out.Answers) > 0:
		return "succeeds", false, ""
	}
	return "fails", false, ""
}

// the host renders the error it was given: err.Error() must not panic either
func c05Render(err error) (msg string) {
	if err == nil {
		return ""
	}
	defer func() {
		if r := recover(); r != nil {
			msg = fmt.Sprint("err.Error() panics in the host: ", r)
		}
	}()
	_ = err.Error()
	return ""
}

func c05RunTask(t c05task) (string, bool, string) {
	wall, cancel := context.WithTimeout(context.Background(), 4*time.Second)
	defer cancel()
	ctx := newStepCtx(wall, 20000)
	switch t.kind {
	case "goal", "query", "cycle":
		p := prolog.New(nil, nil)
		if t.kind == "cycle" {
			p.FS = c05CycleFS
		}
		out := runQueryCtx(ctx, p, 3, t.names, t.text)
		if m := c05Render(out.Raw); m != "" {
			return "error-value-panics-when-rendered", true, m
		}
		c, bad, d := c05Classify(out)
		if t.kind == "query" && c == "go-error" {
			c = "text-rejected"
		}
		if c05AnyBall[t.pred] && c == "ball-that-is-not-an-error-term" {
			c, bad = "throws-the-given-ball", false
		}
		return c, bad, d
	default:
		p := prolog.New(nil, nil)
		err := p.ExecContext(ctx, t.text)
		if m := c05Render(err); m != "" {
			return "error-value-panics-when-rendered", true, m
		}
		var out outcome
		out.Err, out.GoErr = errTerm(err)
		if err == nil {
			return "text-accepted", false, ""
		}
		c, bad, d := c05Classify(out)
		if c == "go-error" || strings.HasPrefix(c, "iso-error") {
			return "text-rejected", false, ""
		}
		return c, bad, d
	}
}

// c05Alone runs one task in a worker of its own with a long watchdog; ok = it reported a result
func c05Alone(outDir string, seed int64, tier, repo, dir string, i int) (class string, bad bool, detail string, ok bool) {
	cmd := exec.Command(os.Args[0], "-out", outDir, "-seed", fmt.Sprint(seed), "-tier", tier, "-repo", repo, "-c05from", fmt.Sprint(i), "-c05to", fmt.Sprint(i+1), "C05")
	cmd.Dir = dir
	var out strings.Builder
	cmd.Stdout = &out
	if err := cmd.Start(); err != nil {
		return "", false, "", false
	}
	done := make(chan error, 1)
	go func() { done <- cmd.Wait() }()
	select {
	case <-done:
	case <-time.After(75 * time.Second):
		cmd.Process.Kill()
		<-done
		return "", false, "", false
	}
	for _, line := range strings.Split(out.String(), "\n") {
		if !strings.HasPrefix(line, "R ") {
			continue
		}
		parts := strings.SplitN(line[2:], " ", 3)
		if len(parts) == 3 {
			fmt.Sscan(parts[1], &bad)
			cd := strings.SplitN(parts[2], "\t", 2)
			if len(cd) == 2 {
				detail = cd[1]
			}
			return cd[0], bad, detail, true
		}
	}
	return "", false, "", false
}

func c05Worker(repo string, seed int64, tier string) {
	debug.SetMaxStack(64 << 20)
	limitMemory(4 << 30)
	ts := c05Tasks(repo, seed, tier)
	w := bufio.NewWriter(os.Stdout)
	fmt.Fprintln(w, "READY")
	w.Flush()
	for i := c05From; i < c05To && i < len(ts); i++ {
		fmt.Fprintf(w, "S %d\n", i)
		w.Flush()
		c, bad, d := c05RunTask(ts[i])
		d = strings.ReplaceAll(d, "\n", " ")
		if len(d) > 400 {
			d = d[:400]
		}
		fmt.Fprintf(w, "R %d %v %s\t%s\n", i, bad, c, d)
		w.Flush()
	}
}

func runC05(outDir string, seed int64, tier string, repo string) {
	if c05From >= 0 {
		c05Worker(repo, seed, tier)
		return
	}
	start := time.Now()
	sum := newSummary("C05", seed, tier)
	ts := c05Tasks(repo, seed, tier)
	sandbox := filepath.Join(outDir, "sandbox")
	os.RemoveAll(sandbox)
	os.MkdirAll(sandbox, 0o755)
	defer os.RemoveAll(sandbox)
	type res struct {
		class, detail string
		bad           bool
	}
	results := make([]*res, len(ts))
	var mu sync.Mutex
	workers := 14
	chunk := (len(ts) + workers - 1) / workers
	var wg sync.WaitGroup
	for w := 0; w < workers; w++ {
		lo, hi := w*chunk, (w+1)*chunk
		if hi > len(ts) {
			hi = len(ts)
		}
		if lo >= hi {
			continue
		}
		wg.Add(1)
		go func(w, lo, hi int) {
			defer wg.Done()
			dir := filepath.Join(sandbox, fmt.Sprint(w))
			os.MkdirAll(dir, 0o755)
			from := lo
			retries := 0
			for from < hi {
				cmd := exec.Command(os.Args[0], "-out", outDir, "-seed", fmt.Sprint(seed), "-tier", tier, "-repo", repo, "-c05from", fmt.Sprint(from), "-c05to", fmt.Sprint(hi), "C05")
				cmd.Dir = dir
				var stderr strings.Builder
				cmd.Stderr = &tailWriter{b: &stderr, max: 6000}
				stdout, _ := cmd.StdoutPipe()
				if err := cmd.Start(); err != nil {
					fatal("%v", err)
				}
				beat := make(chan struct{}, 4096)
				stop := make(chan struct{})
				killed := false
				go func() {
					// until the worker has built its task list and said so, only a generous limit applies:
					// start-up time depends on the load of the machine, not on the implementation
					limit := 180 * time.Second
					for {
						select {
						case <-beat:
							limit = 15 * time.Second
						case <-stop:
							return
						case <-time.After(limit):
							killed = true
							cmd.Process.Kill()
							return
						}
					}
				}()
				sc := bufio.NewScanner(stdout)
				sc.Buffer(make([]byte, 1<<20), 16<<20)
				current, last := -1, from-1
				for sc.Scan() {
					line := sc.Text()
					select {
					case beat <- struct{}{}:
					default:
					}
					var i int
					switch {
					case strings.HasPrefix(line, "S "):
						fmt.Sscan(line[2:], &i)
						current = i
					case strings.HasPrefix(line, "R "):
						var bad bool
						rest := line[2:]
						parts := strings.SplitN(rest, " ", 3)
						if len(parts) == 3 {
							fmt.Sscan(parts[0], &i)
							fmt.Sscan(parts[1], &bad)
							cd := strings.SplitN(parts[2], "\t", 2)
							r := &res{class: cd[0], bad: bad}
							if len(cd) == 2 {
								r.detail = cd[1]
							}
							mu.Lock()
							results[i] = r
							mu.Unlock()
							last, current = i, -1
						}
					}
				}
				err := cmd.Wait()
				close(stop)
				if current >= 0 { // the worker died or was killed while running this task
					cls := "process-aborted"
					if killed {
						cls = "wedged-without-polling-the-context"
						// a watchdog kill may be the machine's load, not the task: the task is run once more, alone
						if c, bad, d, ok := c05Alone(outDir, seed, tier, repo, dir, current); ok {
							mu.Lock()
							results[current] = &res{class: c, bad: bad, detail: d}
							mu.Unlock()
							from = current + 1
							continue
						}
					}
					mu.Lock()
					results[current] = &res{class: cls, bad: true, detail: fmt.Sprintf("%v; stderr: %s", err, firstLines(stderr.String(), 6))}
					mu.Unlock()
					from = current + 1
				} else if last+1 < hi {
					// the worker ended between two tasks (while starting up, or out of memory before its first line):
					// no task was running, so no task is blamed; go on after the last result
					retries++
					if retries > 5 {
						fatal("C05 worker for tasks %d.. ends before running anything: %v; stderr: %s", last+1, err, firstLines(stderr.String(), 6))
					}
					from = last + 1
				} else {
					from = hi
				}
			}
		}(w, lo, hi)
	}
	wg.Wait()
	perPred := map[string]bool{}
	for i, t := range ts {
		r := results[i]
		if r == nil {
			r = &res{class: "not-run", bad: true}
		}
		sum.Evaluations++
		sum.count(t.kind + ":" + r.class)
		if t.kind == "goal" {
			perPred[t.pred] = true
		}
		if r.class != "fails" && r.class != "text-rejected" {
			sum.Distinct++
		}
		if r.bad {
			desc := map[string]interface{}{"kind": t.kind, "text": t.text}
			sum.Cases[fmt.Sprint(i)] = desc
			cls := t.kind + ":" + r.class
			sum.Failures = append(sum.Failures, failure{ID: i, Class: cls, Input: desc, Observed: r.detail, Expected: "answers, failure, or error(Formal, Context) with an ISO formal; the process survives"})
		}
	}
	sum.count(fmt.Sprintf("predicates-swept:%d", len(perPred)))
	for i := 0; i < len(ts) && len(sum.Samples) < 10; i += len(ts)/10 + 1 {
		sum.Samples = append(sum.Samples, ts[i].kind+": "+ts[i].text)
	}
	sum.Rule = "every predicate registered in interpreter.go or defined by bootstrap.pl (read from the sources of this run; halt/0,1 excluded) x argument shapes (unbound, atoms, [] , integers incl. both 64-bit extremes, floats, compounds, pairs, indicators, proper/partial/improper lists, string, stream alias and stream term, nested callables, {}): all shapes for arity 1, all pairs for arity 2 (quick: 330 sampled pairs per predicate), sampled tuples above; every argument position of every predicate of arity 1-3 with seven integers whose product with a small element size wraps around (k*2^60+j, 2^32), the others unbound, an atom or a partial list; every string over a 39-symbol alphabet of significant bytes and characters of every Unicode class the lexer distinguishes (non-ASCII digits, other numbers, upper/title case, special spaces) up to length 2, sampled longer ones (thorough: all of length 3), every truncation and random one-byte mutations of four valid texts, each as query text and as program text; loads through a file system whose files load each other in cycles of length 1-3 (ensure_loaded, consult, initialization); every task in a fresh interpreter inside an isolated worker process with a memory limit, a step budget and a 15 s watchdog; non-trivial = the task does something other than fail or be rejected"
	sum.write(outDir, start)
}

type tailWriter struct {
	b   *strings.Builder
	max int
}

func (t *tailWriter) Write(p []byte) (int, error) {
	if t.b.Len() < t.max {
		t.b.Write(p)
	}
	return len(p), nil
}

func firstLines(s string, n int) string {
	ls := strings.Split(s, "\n")
	if len(ls) > n {
		ls = ls[:n]
	}
	return strings.Join(ls, " | ")
}
