package main

import (
	"runtime/debug"
	"syscall"
)

// limitMemory caps the address space of a worker process and tells the Go runtime about
// the cap (debug.SetMemoryLimit is the limit the interpreter's allocator consults: a host
// that confines the process is expected to set it, e.g. through GOMEMLIMIT).
func limitMemory(bytes uint64) {
	_ = syscall.Setrlimit(syscall.RLIMIT_AS, &syscall.Rlimit{Cur: bytes, Max: bytes})
	debug.SetMemoryLimit(int64(bytes / 2))
}
