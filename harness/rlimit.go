package main

import "syscall"

// limitMemory caps the address space of a worker process.
func limitMemory(bytes uint64) {
	_ = syscall.Setrlimit(syscall.RLIMIT_AS, &syscall.Rlimit{Cur: bytes, Max: bytes})
}
