package main

// C14: separate interpreters are isolated and run concurrently without data races.
// This file is meant to run in a binary built with -race (bin/harness-race).

import (
	"bytes"
	"context"
	"fmt"
	"os"
	"path/filepath"
	"strings"
	"sync"
	"time"

	"github.com/ichiban/prolog"
	"github.com/ichiban/prolog/engine"
)

// render an outcome as text, with variables named by first occurrence (fromTerm does that)
func outcomeText(out outcome, names []string) string {
	var b strings.Builder
	for _, a := range out.Answers {
		for _, n := range names {
			if t, ok := a[n]; ok {
				fmt.Fprintf(&b, "%s=%s ", n, t.String())
			}
		}
		b.WriteString("; ")
	}
	if out.Err != nil {
		b.WriteString("error " + out.Err.String())
	}
	b.WriteString(out.GoErr)
	if out.More {
		b.WriteString(" more")
	}
	return b.String()
}

// c14Program: a terminating program from a family of templates, with random parameters.
// Each creates atoms and variables, asserts or enumerates, and writes.
func c14Program(r *rng) (text, query string, names []string) {
	n := 3 + r.intn(6)
	tag := fmt.Sprintf("t%d", r.intn(1000000))
	switch r.intn(9) {
	case 8: // floats through every writer and both number conversions
		return "sq(X, Y) :- Y is X * 1.5e10 + 0.25.\n",
			fmt.Sprintf("findall(F, (between(1, %d, I), sq(I, F)), L), write(L), nl, writeq(L), print(L), write_canonical(L), number_codes(X, \"1.0e20\"), writeq(X), L = [F1|_], number_codes(F1, Cs), atom_codes(A, Cs), number_chars(F1, Ch) .", n*6), []string{"L", "X", "A", "Ch"}
	case 0:
		return "nrev([], []).\nnrev([H|T], R) :- nrev(T, RT), append(RT, [H], R).\nrange(N, N, [N]) :- !.\nrange(I, N, [I|T]) :- I < N, J is I + 1, range(J, N, T).\n",
			fmt.Sprintf("range(1, %d, L), nrev(L, R), write(R) .", n*4), []string{"R"}
	case 1:
		return "hanoi(0, _, _, _) :- !.\nhanoi(N, A, B, C) :- M is N - 1, hanoi(M, A, C, B), write(A-B), write(' '), hanoi(M, C, B, A).\n",
			fmt.Sprintf("hanoi(%d, %s_l, %s_r, %s_c) .", n, tag, tag, tag), nil
	case 2:
		return "", fmt.Sprintf("findall(X-Y, (between(1, %d, X), between(1, %d, Y), X < Y), L), length(L, N), write(N) .", n, n), []string{"L", "N"}
	case 3:
		return "", fmt.Sprintf("findall(A, (between(1, %d, I), atom_codes(P, \"%s_\"), atom_number(S, I), atom_concat(P, S, A)), L), writeq(L) .", n*3, tag), []string{"L"}
	case 4:
		return fmt.Sprintf(":- dynamic(cnt/1).\ncnt(0).\nbump :- retract(cnt(N)), M is N + 1, assertz(cnt(M)).\nloop(0) :- !.\nloop(K) :- bump, J is K - 1, loop(J).\nmark(%s).\n", tag),
			fmt.Sprintf("loop(%d), cnt(N), mark(M), write(N-M) .", n*5), []string{"N", "M"}
	case 5:
		return "", fmt.Sprintf("length(L, %d), copy_term(L, L2), L = [a|_], setof(X-Y, member(X-Y, [b-1, a-2, c-3, a-1]), S), write(S), functor(T, %s, %d), T =.. U .", n, tag, n), []string{"L", "L2", "S", "T", "U"}
	case 6:
		return fmt.Sprintf("q(X) :- member(X, [%s_a, %s_b, %s_c]).\nq(%s_d).\n", tag, tag, tag, tag),
			"q(X), writeq(X), nl, write_canonical(f(X, 'A b', [])), print(- (1)) .", []string{"X"}
	default:
		return "p(X, Y) :- catch(Y is X * X, _, Y = err).\n",
			fmt.Sprintf("findall(Y, (member(X, [1, 2, foo, %d, 4.5]), p(X, Y)), L), msort(L, S), write(S), atom_length(%s_abcdef, K) .", n, tag), []string{"L", "S", "K"}
	}
}

type c14prog struct {
	text, query string
	names       []string
}

func c14RunProgram(pr c14prog, sink *bytes.Buffer) string {
	p := prolog.New(nil, sink)
	if err := p.Exec(pr.text); err != nil {
		return "load error: " + err.Error()
	}
	wall, cancel := context.WithTimeout(context.Background(), 20*time.Second)
	defer cancel()
	out := runQueryCtx(wall, p, 4, pr.names, pr.query)
	// every interpreter also formats numbers of each kind through each writer
	out2 := runQueryCtx(wall, p, 1, []string{"F", "A"}, "F is 7.0 / 2, write([F, 1.0e20, -0.5, 12345678901234567890.0]), writeq(F), print(- F), number_codes(F, Cs), atom_codes(A, Cs), write_canonical([A, 33, \"s\"]) .")
	return outcomeText(out, pr.names) + " | " + outcomeText(out2, []string{"F", "A"}) + " | " + sink.String()
}

type c14pair struct{ name, change, observe string }

var c14Pairs = []c14pair{
	{"clauses", "assertz(foo(1)) .", "catch(foo(X), error(E, _), true) ."},
	{"clauses-consult", "", "catch(bar(X), error(E, _), true) ."},
	{"operators", "op(700, xfx, ===>) .", "findall(P-T, current_op(P, T, ===>), L) ."},
	{"operators-reader", "op(200, xfy, ^^^) .", "T = (a ^^^ b) ."},
	{"flags", "set_prolog_flag(double_quotes, atom) .", "current_prolog_flag(double_quotes, F) ."},
	{"flags-unknown", "set_prolog_flag(unknown, fail) .", "current_prolog_flag(unknown, F) ."},
	{"char-conversion", "char_conversion(a, b) .", "findall(X, current_char_conversion(a, X), L) ."},
	{"char-conversion-enumerated", "char_conversion(a, b), char_conversion(c, d), findall(X-Y, current_char_conversion(X, Y), _) .", "findall(X-Y, (current_char_conversion(X, Y), X \\== Y), L) ."},
	{"char-conversion-reverse", "char_conversion(q, r), findall(X, current_char_conversion(X, r), _) .", "findall(X, current_char_conversion(X, r), L) ."},
	{"streams", "open('%TMP%', write, _, [alias(myout)]) .", "findall(S, stream_property(S, alias(myout)), L), length(L, N) ."},
	{"current-output", "open('%TMP%', write, S, []), set_output(S) .", "current_output(S), findall(A, stream_property(S, alias(A)), L) ."},
	{"current-input", "open('%TMP%', write, S0, []), close(S0), open('%TMP%', read, S, []), set_input(S) .", "current_input(S), findall(A, stream_property(S, alias(A)), L) ."},
	{"dynamic", "assertz(counter(0)), retract(counter(0)), assertz(counter(5)) .", "catch(counter(X), error(E, _), true) ."},
	{"standard-input", "get_char(_) .", "stream_property(S, alias(user_input)), stream_property(S, end_of_stream(X)) ."},
	{"standard-output", "write(hello), nl .", "stream_property(S, alias(user_output)), stream_property(S, position(X)) ."},
}

func c14Observe(p *prolog.Interpreter, q string) string {
	names := []string{"X", "E", "L", "F", "N", "T"}
	out := runQuery(p, 3, names, q)
	// stream terms print with an address: keep only the structure
	s := outcomeText(out, names)
	for strings.Contains(s, "<stream>(0x") {
		i := strings.Index(s, "<stream>(0x")
		j := strings.Index(s[i:], ")")
		s = s[:i] + "<stream>" + s[i+j+1:]
	}
	return s
}

func runC14(outDir string, seed int64, tier string) {
	start := time.Now()
	sum := newSummary("C14", seed, tier)
	r := &rng{s: uint64(seed) ^ hashString("C14")}
	rounds, internRounds := 60, 3000
	if tier == "thorough" {
		rounds, internRounds = 600, 60000
	}
	// (a) 2..8 interpreters at once, each with its own program: answers and output as when run alone
	id := 0
	for round := 0; round < rounds; round++ {
		k := 2 + r.intn(7)
		progs := make([]c14prog, k)
		alone := make([]string, k)
		for i := range progs {
			t, q, ns := c14Program(r.split())
			progs[i] = c14prog{t, q, ns}
		}
		// the concurrent run comes first, so that whatever is created or cached on first use
		// (atoms, variables ...) is created while the interpreters run side by side
		together := make([]string, k)
		sinks := make([]bytes.Buffer, k)
		var wg sync.WaitGroup
		startCh := make(chan struct{})
		for i := 0; i < k; i++ {
			wg.Add(1)
			go func(i int) {
				defer wg.Done()
				<-startCh
				together[i] = c14RunProgram(progs[i], &sinks[i])
			}(i)
		}
		close(startCh)
		wg.Wait()
		for i := range progs {
			var sink bytes.Buffer
			alone[i] = c14RunProgram(progs[i], &sink)
		}
		for i := 0; i < k; i++ {
			sum.Evaluations++
			sum.count(fmt.Sprintf("concurrent:%d-interpreters", k))
			desc := map[string]interface{}{"text": progs[i].text + "?- " + progs[i].query, "interpreters": k}
			sum.Cases[fmt.Sprint(id)] = desc
			if together[i] != alone[i] {
				sum.Failures = append(sum.Failures, failure{ID: id, Class: "concurrent:answers-differ-from-the-run-alone", Input: desc, Observed: together[i], Expected: alone[i]})
			}
			if strings.Contains(alone[i], "error") || strings.HasPrefix(alone[i], " | ") {
				sum.count("concurrent:program-without-answer")
			} else {
				sum.Distinct++
			}
			id++
		}
	}

	// (b) the same previously unseen atoms interned by 8 goroutines at once, each through its own interpreter
	const g = 8
	ps := make([]*prolog.Interpreter, g)
	for i := range ps {
		ps[i] = prolog.New(nil, nil)
	}
	for round := 0; round < internRounds; round++ {
		name := fmt.Sprintf("zq_%d_%d_%d", seed, os.Getpid(), round)
		res := make([]engine.Atom, g)
		okq := make([]bool, g)
		var wg sync.WaitGroup
		startCh := make(chan struct{})
		for i := 0; i < g; i++ {
			wg.Add(1)
			go func(i int) {
				defer wg.Done()
				<-startCh
				if round%16 == 0 { // through the reader and the database of an interpreter
					if err := ps[i].Exec(fmt.Sprintf("fact_%s(%s).", name, name)); err == nil {
						out := runQuery(ps[i], 1, []string{"X"}, fmt.Sprintf("fact_%s(X), X == %s .", name, name))
						okq[i] = len(out.Answers) == 1
					}
				} else {
					okq[i] = true
				}
				res[i] = engine.NewAtom(name)
			}(i)
		}
		close(startCh)
		wg.Wait()
		sum.Evaluations++
		sum.count("intern:rounds")
		desc := map[string]interface{}{"text": fmt.Sprintf("8 goroutines: NewAtom(%q)", name)}
		for i := 1; i < g; i++ {
			if res[i] != res[0] {
				sum.Cases[fmt.Sprint(id)] = desc
				sum.Failures = append(sum.Failures, failure{ID: id, Class: "intern:same-name-two-atoms", Input: desc, Observed: fmt.Sprint(uint64(res[i]), " vs ", uint64(res[0])), Expected: "one atom"})
				id++
				break
			}
		}
		for i := 0; i < g; i++ {
			if !okq[i] {
				sum.Cases[fmt.Sprint(id)] = desc
				sum.Failures = append(sum.Failures, failure{ID: id, Class: "intern:fact-just-consulted-not-found", Input: desc, Observed: "no answer", Expected: "X = " + name})
				id++
				break
			}
		}
	}

	// (c) NewAtom sequentially, against the model
	var cases []string
	for c := 0; c < 40; c++ {
		var names []string
		var fresh []string
		for i, n := 0, 2+r.intn(8); i < n; i++ {
			if len(fresh) > 0 && r.coin(0.4) {
				names = append(names, fresh[r.intn(len(fresh))])
			} else {
				nm := fmt.Sprintf("sq_%d_%d_%d_%d", seed, os.Getpid(), c, i)
				fresh = append(fresh, nm)
				names = append(names, nm)
			}
		}
		var base uint64
		var offs, cn []string
		for i, nm := range names {
			a := uint64(engine.NewAtom(nm))
			if i == 0 {
				base = a
			}
			offs = append(offs, fmt.Sprint(a-base))
			cn = append(cn, coqStr(fmt.Sprintf("n%d", indexOf(fresh, nm))))
		}
		sum.Evaluations++
		sum.count("intern:sequential")
		sum.Cases[fmt.Sprint(id)] = map[string]interface{}{"text": "NewAtom on " + strings.Join(names, ", ")}
		cases = append(cases, fmt.Sprintf("(%d, %s, %s)", id, coqList(cn), "["+strings.Join(offs, "; ")+"]%nat"))
		id++
	}

	// (d) what one interpreter changes, another does not see: sequentially and while the other is busy
	tmp := filepath.Join(outDir, "c14.tmp")
	for _, pr := range c14Pairs {
		for mode := 0; mode < 2; mode++ {
			a, b, fresh := prolog.New(nil, nil), prolog.New(nil, nil), prolog.New(nil, nil)
			want := c14Observe(fresh, pr.observe)
			before := c14Observe(b, pr.observe)
			change := strings.ReplaceAll(pr.change, "%TMP%", tmp)
			var got, changed string
			if mode == 0 {
				if change == "" {
					_ = a.Exec("bar(1). bar(2).")
				} else {
					changed = c14Observe(a, change)
				}
				got = c14Observe(b, pr.observe)
			} else {
				var wg sync.WaitGroup
				wg.Add(2)
				go func() {
					defer wg.Done()
					for i := 0; i < 30; i++ {
						if change == "" {
							_ = a.Exec("bar(1). bar(2).")
						} else {
							changed = c14Observe(a, change)
						}
					}
				}()
				go func() {
					defer wg.Done()
					for i := 0; i < 30; i++ {
						got = c14Observe(b, pr.observe)
					}
				}()
				wg.Wait()
			}
			sum.Evaluations++
			sum.count("isolation:" + pr.name)
			desc := map[string]interface{}{"text": fmt.Sprintf("interpreter A: %s  interpreter B: %s", change, pr.observe), "concurrent": mode == 1}
			sum.Cases[fmt.Sprint(id)] = desc
			if got != want || before != want {
				sum.Failures = append(sum.Failures, failure{ID: id, Class: "isolation:change-visible-in-another-interpreter", Input: desc, Observed: got, Expected: want})
			}
			// the change did happen in A (otherwise the check says nothing)
			seenInA := c14Observe(a, pr.observe)
			if seenInA == want && pr.name != "current-input" && pr.name != "current-output" && pr.name != "standard-output" {
				sum.Failures = append(sum.Failures, failure{ID: id, Class: "isolation:harness-change-had-no-effect", Input: desc, Observed: seenInA + " / " + changed, Expected: "a visible change in A"})
			}
			id++
		}
	}
	os.Remove(tmp)

	sum.Rule = "rounds of 2-8 interpreters, one goroutine each, created, loaded with a program from eight parameterised families (recursion on lists, hanoi with output, findall/setof, atom construction, assert/retract loops, copy_term/functor/univ, facts over fresh atoms, catch and arithmetic), queried and writing to their own output at the same time: answers and output compared with the same program run alone; 8 goroutines interning the same previously unseen atom at the same moment, directly and through Exec+query of their own interpreter; sequential NewAtom histories compared with the model; fifteen state changers (assertz, consult, op/3 twice, two flags, char_conversion set and then enumerated in both directions, open with alias, set_output, set_input, retract) against observers in a second interpreter, sequentially and concurrently; the whole run is in a binary built with -race: any report of the race detector is a violation"
	header := "From Coq Require Import ZArith List String.\nFrom PV Require Import Model.Shared Model.SharedCheck.\nImport ListNotations.\nOpen Scope Z_scope.\nOpen Scope string_scope.\n"
	writeCases(filepath.Join(outDir, "cases_atoms.v"), header, "acase", "check_atoms", cases)
	sum.CaseFiles = append(sum.CaseFiles, "cases_atoms.v")
	sum.write(outDir, start)
}

func indexOf(xs []string, x string) int {
	for i, y := range xs {
		if x == y {
			return i
		}
	}
	return -1
}
