package main

// C15: Go values cross the API as data: placeholders = literals, Scan exact or error.
// The Scan half is tied to the model regenerated from solutions.go (Gen/Scan_gen.v);
// the placeholder half is evaluated on the implementation against the literal.

import (
	"fmt"
	"math"
	"path/filepath"
	"strings"
	"time"

	"github.com/ichiban/prolog"
)

func plEscape(s string) string { // a double-quoted Prolog literal denoting s
	var b strings.Builder
	b.WriteByte('"')
	for _, r := range s {
		switch r {
		case '"':
			b.WriteString(`\"`)
		case '\\':
			b.WriteString(`\\`)
		case '\n':
			b.WriteString(`\n`)
		case '\t':
			b.WriteString(`\t`)
		case 0:
			b.WriteString(`\0\`)
		default:
			b.WriteRune(r)
		}
	}
	b.WriteByte('"')
	return b.String()
}

func runC15(outDir string, seed int64, tier string) {
	start := time.Now()
	sum := newSummary("C15", seed, tier)
	r := &rng{s: uint64(seed) ^ hashString("C15")}
	id := 0
	fail := func(class string, desc map[string]interface{}, obs, exp string) {
		sum.Failures = append(sum.Failures, failure{ID: id, Class: class, Input: desc, Observed: obs, Expected: exp})
	}
	// ---- placeholders ---------------------------------------------------------------
	pieces := []string{"a", "b", "Z", "_", " ", ".", ". ", ":-", "'", `"`, `\`, "\n", "\t", "%", "/*", "*/", "(", ")", "[", "]", "|", ",", "?", "0'", "é", "日本", "😀", "\x00", "foo(", "X = 1", "halt."}
	nStr := 400
	if tier == "thorough" {
		nStr = 6000
	}
	var strs []string
	strs = append(strs, "", "hello", "a.b", ". ", "foo :- bar.", "?", "??", "'", `"`, `\`)
	for i := 0; i < nStr; i++ {
		var s string
		for j, k := 0, 1+r.intn(4); j < k; j++ {
			s += pieces[r.intn(len(pieces))]
		}
		strs = append(strs, s)
	}
	for _, flag := range []string{"codes", "chars", "atom"} {
		p := prolog.New(nil, nil)
		if err := p.Exec(fmt.Sprintf(":- set_prolog_flag(double_quotes, %s).", flag)); err != nil {
			fatal("%v", err)
		}
		for _, s := range strs {
			desc := map[string]interface{}{"text": fmt.Sprintf("double_quotes=%s, placeholder string %q", flag, s), "go_string": s, "flag": flag}
			sum.Cases[fmt.Sprint(id)] = desc
			sum.Evaluations++
			sum.Distinct++
			sum.count("placeholder:string:" + flag)
			got := runQuery(p, 2, []string{"X"}, "X = ? .", s)
			if len(got.Answers) != 1 {
				fail("placeholder:string-not-accepted-as-data", desc, fmt.Sprint(got.Err, got.GoErr, len(got.Answers)), "exactly one answer binding X")
				id++
				continue
			}
			x := got.Answers[0]["X"]
			// expected structure from the Go side: the runes of s
			var want *T
			rs := []rune(s)
			switch flag {
			case "atom":
				want = &T{K: 'a', S: s}
			default:
				want = &T{K: 'a', S: "[]"}
				for i := len(rs) - 1; i >= 0; i-- {
					var h *T
					if flag == "codes" {
						h = &T{K: 'i', I: int64(rs[i])}
					} else {
						h = &T{K: 'a', S: string(rs[i])}
					}
					want = &T{K: 'c', S: ".", Args: []*T{h, want}}
				}
			}
			if x.String() != want.String() {
				fail("placeholder:string-altered", desc, x.String(), want.String())
			}
			// ... and the same as the literal denoting it (when the reader accepts the literal)
			if !strings.ContainsRune(s, 0) {
				lit := runQuery(p, 2, []string{"X"}, "X = "+plEscape(s)+" .")
				if len(lit.Answers) == 1 && lit.Answers[0]["X"].String() != x.String() {
					fail("placeholder:differs-from-literal", desc, x.String(), lit.Answers[0]["X"].String())
				}
			}
			id++
		}
		// numbers and nested slices
		for _, v := range []interface{}{0, -1, 42, int8(-128), int16(32767), int32(-2147483648), int64(math.MaxInt64), int64(math.MinInt64), 1.5, -0.25, 1e300, math.SmallestNonzeroFloat64,
			[]int{1, 2, 3}, []string{"a.b", "", "c"}, [][]int{{1}, {}, {2, 3}}, []float64{0.5, 2}} {
			desc := map[string]interface{}{"text": fmt.Sprintf("double_quotes=%s, placeholder %#v", flag, v)}
			sum.Cases[fmt.Sprint(id)] = desc
			sum.Evaluations++
			got := runQuery(p, 2, []string{"X"}, "X = ? .", v)
			if len(got.Answers) != 1 {
				fail("placeholder:value-not-accepted-as-data", desc, fmt.Sprint(got.Err, got.GoErr), "one answer")
			} else if lit, ok := c15Literal(v, flag); ok {
				l := runQuery(p, 2, []string{"X"}, "X = "+lit+" .")
				if len(l.Answers) != 1 || l.Answers[0]["X"].String() != got.Answers[0]["X"].String() {
					fail("placeholder:differs-from-literal", desc, got.Answers[0]["X"].String(), fmt.Sprint(l.Answers))
				}
			}
			id++
		}
		// count mismatches are errors
		for _, c := range []struct {
			q    string
			args []interface{}
		}{{"X = ? .", nil}, {"X = ? .", []interface{}{1, 2}}, {"X = ?, Y = ? .", []interface{}{1}}, {"X = 1 .", []interface{}{1}}} {
			desc := map[string]interface{}{"text": fmt.Sprintf("%s with %d argument(s)", c.q, len(c.args))}
			sum.Cases[fmt.Sprint(id)] = desc
			sum.Evaluations++
			_, err := p.Query(c.q, c.args...)
			if err == nil {
				fail("placeholder:count-mismatch-not-an-error", desc, "no error", "an error")
			}
			id++
		}
	}
	// ---- Scan ------------------------------------------------------------------------------
	p := prolog.New(nil, nil)
	ints := []int64{0, 1, -1, 127, 128, -128, -129, 255, 256, 300, 32767, 32768, -32768, -32769, 65536, 2147483647, 2147483648, -2147483648, -2147483649,
		4294967296, 1 << 53, 1<<53 + 1, math.MaxInt64, math.MinInt64}
	for i := 0; i < 40; i++ {
		ints = append(ints, int64(r.next())>>uint(r.intn(64)))
	}
	var cases []string
	for _, v := range ints {
		sol := p.QuerySolution("X = ? .", v)
		type dst struct {
			name string
			run  func() (string, error)
		}
		dsts := []dst{
			{"int", func() (string, error) { var d struct{ X int }; e := sol.Scan(&d); return fmt.Sprint(d.X), e }},
			{"int8", func() (string, error) { var d struct{ X int8 }; e := sol.Scan(&d); return fmt.Sprint(d.X), e }},
			{"int16", func() (string, error) { var d struct{ X int16 }; e := sol.Scan(&d); return fmt.Sprint(d.X), e }},
			{"int32", func() (string, error) { var d struct{ X int32 }; e := sol.Scan(&d); return fmt.Sprint(d.X), e }},
			{"int64", func() (string, error) { var d struct{ X int64 }; e := sol.Scan(&d); return fmt.Sprint(d.X), e }},
			{"float64", func() (string, error) {
				var d struct{ X float64 }
				e := sol.Scan(&d)
				return fmt.Sprint(math.Float64bits(d.X)), e
			}},
		}
		for _, d := range dsts {
			val, err := d.run()
			desc := map[string]interface{}{"text": fmt.Sprintf("X = %d scanned into %s", v, d.name)}
			sum.Cases[fmt.Sprint(id)] = desc
			sum.Evaluations++
			sum.Distinct++
			sum.count("scan:" + d.name)
			obs := "None"
			if err == nil {
				obs = "Some " + coqZ(mustInt(val))
				// the property itself: the stored value is the value of the answer
				if d.name != "float64" && val != fmt.Sprint(v) {
					fail("scan:"+d.name+":stores-altered-value", desc, val, fmt.Sprint(v)+" or an error")
				}
				if d.name == "float64" {
					fail("scan:float64:integer-answer-stored-without-error", desc, val, "an error (or an exact value)")
				}
			}
			cases = append(cases, fmt.Sprintf("(%d, %s, SInt %s, %s)", id, coqStr(d.name), coqZ(v), obs))
			id++
		}
		// slices and interface{}
		sl := p.QuerySolution("X = [?, 1] .", v)
		var d8 struct{ X []int8 }
		if err := sl.Scan(&d8); err == nil && (len(d8.X) != 2 || int64(d8.X[0]) != v) {
			fail("scan:[]int8:stores-altered-value", map[string]interface{}{"text": fmt.Sprintf("X = [%d,1] scanned into []int8", v)}, fmt.Sprint(d8.X), "the values or an error")
		}
		var da struct{ X interface{} }
		if err := sl.Scan(&da); err != nil || fmt.Sprint(da.X) != fmt.Sprintf("[%d 1]", v) {
			fail("scan:interface:stores-altered-value", map[string]interface{}{"text": fmt.Sprintf("X = [%d,1] scanned into interface{}", v)}, fmt.Sprint(da.X, err), fmt.Sprintf("[%d 1]", v))
		}
	}
	for _, f := range []float64{0, 1.5, -2.25, 1e300, math.MaxFloat64, math.SmallestNonzeroFloat64, 0.1} {
		sol := p.QuerySolution("X = ? .", f)
		var d struct{ X float64 }
		err := sol.Scan(&d)
		desc := map[string]interface{}{"text": fmt.Sprintf("X = %v scanned into float64", f)}
		sum.Cases[fmt.Sprint(id)] = desc
		sum.Evaluations++
		obs := "None"
		if err == nil {
			obs = "Some " + fmt.Sprint(math.Float64bits(d.X))
			if math.Float64bits(d.X) != math.Float64bits(f) {
				fail("scan:float64:stores-altered-value", desc, fmt.Sprint(d.X), fmt.Sprint(f))
			}
		}
		cases = append(cases, fmt.Sprintf("(%d, \"float64\", SFlt %d, %s)", id, math.Float64bits(f), obs))
		id++
		var di struct{ X int }
		if err := sol.Scan(&di); err == nil {
			fail("scan:int:float-answer-stored-without-error", desc, fmt.Sprint(di.X), "an error")
		}
	}
	// strings
	for _, s := range []string{"foo", "hello world", "é日", ""} {
		sol := p.QuerySolution("X = ? .", s)
		var d struct{ X []string }
		_ = d
		sol2 := p.QuerySolution("atom_chars(X, ?) .", s)
		var ds struct{ X string }
		if err := sol2.Scan(&ds); err != nil || ds.X != s {
			fail("scan:string:stores-altered-value", map[string]interface{}{"text": fmt.Sprintf("atom %q scanned into string", s)}, fmt.Sprint(ds.X, err), s)
		}
		_ = sol
	}
	// text as a list (of characters, of codes) into typed slices: exactly the characters of the text, whatever
	// the list was built from (a double-quoted literal, a placeholder string, atom_chars/atom_codes, brackets)
	for _, flag := range []string{"chars", "codes"} {
		pt := prolog.New(nil, nil)
		_ = pt.Exec(fmt.Sprintf(":- set_prolog_flag(double_quotes, %s).", flag))
		for _, s := range []string{"foo", "café", "é日", "日本語", "a😀b", "", "ab\u00e9cd\u00fc", "\u00ff"} {
			var rs []string
			var cs []int
			for _, r := range s {
				rs = append(rs, string(r))
				cs = append(cs, int(r))
			}
			builder := "atom_chars"
			if flag == "codes" {
				builder = "atom_codes"
			}
			var brs []string
			for i := range rs {
				if flag == "chars" {
					brs = append(brs, quoteAtom(rs[i]))
				} else {
					brs = append(brs, fmt.Sprint(cs[i]))
				}
			}
			sources := []struct {
				q    string
				args []interface{}
			}{
				{"X = ? .", []interface{}{s}},
				{"X = " + plEscape(s) + " .", nil},
				{builder + "(A, ?), " + builder + "(A, X) .", []interface{}{s}}, // through an atom and back
			}
			if !strings.Contains(s, "😀") { // the reader rejects that character in a quoted atom
				sources = append(sources, struct {
					q    string
					args []interface{}
				}{"X = [" + strings.Join(brs, ",") + "] .", nil})
			}
			for _, src := range sources {
				if s == "" && src.args == nil && strings.HasPrefix(src.q, "X = \"") {
					continue // "" is [] (or '' under atom): not a text list
				}
				desc := map[string]interface{}{"text": fmt.Sprintf("double_quotes=%s: %s with %q scanned into typed slices", flag, src.q, s)}
				sum.Evaluations++
				sum.count("scan:text-list")
				check := func(dest string, got interface{}, err error, want interface{}) {
					if err != nil || fmt.Sprint(got) != fmt.Sprint(want) {
						fail("scan:text-list:stores-altered-value", map[string]interface{}{"text": desc["text"].(string) + " (" + dest + ")"}, fmt.Sprint(got, " ", err), fmt.Sprint(want))
					}
				}
				if flag == "chars" {
					var d struct{ X []string }
					err := pt.QuerySolution(src.q, src.args...).Scan(&d)
					if len(rs) == 0 {
						check("[]string", len(d.X), err, 0)
					} else {
						check("[]string", d.X, err, rs)
					}
					if !strings.Contains(src.q, "(A, ") { // a map destination receives every variable: only X here
						m := map[string][]string{}
						err = pt.QuerySolution(src.q, src.args...).Scan(m)
						check("map[string][]string", len(m["X"]), err, len(rs))
					}
				} else {
					var d struct{ X []int }
					err := pt.QuerySolution(src.q, src.args...).Scan(&d)
					if len(cs) == 0 {
						check("[]int", len(d.X), err, 0)
					} else {
						check("[]int", d.X, err, cs)
					}
					var d32 struct{ X []int32 }
					err = pt.QuerySolution(src.q, src.args...).Scan(&d32)
					check("[]int32", len(d32.X), err, len(cs))
				}
				var di struct{ X []interface{} }
				err := pt.QuerySolution(src.q, src.args...).Scan(&di)
				check("[]interface{}", len(di.X), err, len(rs))
			}
		}
	}
	// several list-valued variables of one answer into maps, structs and interface{} destinations: every value
	// must arrive unaltered whatever the destination shares internally
	rr := &rng{s: uint64(seed) ^ hashString("C15lists")}
	for i := 0; i < 300; i++ {
		nv := 2 + rr.intn(3)
		var lists [][]int
		var goals []string
		names := []string{"X", "Y", "Z", "W"}
		for k := 0; k < nv; k++ {
			var l []int
			for j, m := 0, rr.intn(6); j < m; j++ {
				l = append(l, rr.intn(100)-20)
			}
			lists = append(lists, l)
			var es []string
			for _, e := range l {
				es = append(es, fmt.Sprint(e))
			}
			goals = append(goals, fmt.Sprintf("%s = [%s]", names[k], strings.Join(es, ",")))
		}
		q := strings.Join(goals, ", ") + " ."
		desc := map[string]interface{}{"text": q + " scanned into maps and a struct"}
		sum.Evaluations++
		sum.count("scan:multi-list")
		want := fmt.Sprint(lists)
		get := func(m map[string][]int) string {
			var ls [][]int
			for k := 0; k < nv; k++ {
				l := m[names[k]]
				if l == nil {
					l = []int{}
				}
				ls = append(ls, l)
			}
			return fmt.Sprint(ls)
		}
		norm := func(ls [][]int) string {
			for i := range ls {
				if ls[i] == nil {
					ls[i] = []int{}
				}
			}
			return fmt.Sprint(ls)
		}
		want = norm(lists)
		mi := map[string][]int{}
		if err := p.QuerySolution(q).Scan(mi); err != nil || get(mi) != want {
			fail("scan:map-of-slices:stores-altered-value", desc, fmt.Sprint(get(mi), err), want)
		}
		m64 := map[string][]int64{}
		if err := p.QuerySolution(q).Scan(m64); err == nil {
			conv := map[string][]int{}
			for k, l := range m64 {
				for _, e := range l {
					conv[k] = append(conv[k], int(e))
				}
			}
			if get(conv) != want {
				fail("scan:map-of-slices:stores-altered-value", desc, get(conv), want)
			}
		}
		ma := map[string]interface{}{}
		if err := p.QuerySolution(q).Scan(ma); err == nil {
			conv := map[string][]int{}
			for k, v := range ma {
				if l, ok := v.([]interface{}); ok {
					for _, e := range l {
						if n, ok := e.(int); ok {
							conv[k] = append(conv[k], n)
						}
					}
				}
			}
			if get(conv) != want {
				fail("scan:map-of-interface:stores-altered-value", desc, get(conv), want)
			}
		}
		var st struct{ X, Y, Z, W []int }
		if err := p.QuerySolution(q).Scan(&st); err != nil || norm([][]int{st.X, st.Y, st.Z, st.W}[:nv]) != want {
			fail("scan:struct-of-slices:stores-altered-value", desc, fmt.Sprint(st, err), want)
		}
		// strings too
		qs := "X = [foo, bar], Y = [baz], Z = [] ."
		ms := map[string][]string{}
		if err := p.QuerySolution(qs).Scan(ms); err != nil || fmt.Sprint(ms["X"], ms["Y"], len(ms["Z"])) != "[foo bar] [baz] 0" {
			fail("scan:map-of-slices:stores-altered-value", map[string]interface{}{"text": qs + " scanned into map[string][]string"}, fmt.Sprint(ms, err), "[foo bar] [baz] []")
		}
	}
	sum.Samples = append(sum.Samples, "X = 300 scanned into int8", `placeholder string "foo :- bar."`, "X = ? with 2 arguments")
	sum.Rule = "placeholders: strings assembled from syntactically significant pieces (quotes, backslash, '.', ':-', newline, NUL, comment markers, brackets, non-BMP characters) under each double_quotes setting, integers of all widths, floats, nested slices, count mismatches; Scan: integers at the width boundaries and random ones into int/int8/int16/int32/int64/float64, []int8, interface{}, floats into float64/int, atoms into string; answers with 2-4 list-valued variables into map[string][]int, map[string][]int64, map[string]interface{}, map[string][]string and a struct of slices; distinct by value and destination; every case is non-trivial"
	header := "From Coq Require Import ZArith List String.\nFrom PV Require Import Model.Scan Gen.Scan_gen Model.ScanCheck.\nImport ListNotations.\nOpen Scope string_scope.\nOpen Scope Z_scope.\n"
	writeCases(filepath.Join(outDir, "cases_scan_0.v"), header, "sccase", "check_scan", cases)
	sum.CaseFiles = append(sum.CaseFiles, "cases_scan_0.v")
	sum.write(outDir, start)
}

func mustInt(s string) int64 {
	var v int64
	var u uint64
	if _, err := fmt.Sscan(s, &v); err == nil {
		return v
	}
	fmt.Sscan(s, &u)
	return int64(u)
}

func c15Literal(v interface{}, flag string) (string, bool) {
	switch x := v.(type) {
	case int:
		return fmt.Sprint(x), true
	case int8, int16, int32, int64:
		return fmt.Sprint(x), true
	case []int:
		var es []string
		for _, e := range x {
			es = append(es, fmt.Sprint(e))
		}
		return "[" + strings.Join(es, ",") + "]", true
	case []string:
		var es []string
		for _, e := range x {
			es = append(es, plEscape(e))
		}
		return "[" + strings.Join(es, ",") + "]", true
	}
	return "", false
}
