package main

// C12: the Solutions iterator never blocks, counts answers exactly and stops on Close.
//
// Every script of up to 6 calls over {Next, Scan, Err, Close} is run on the real
// Solutions for each producer (0..3 answers then end or error; answers for ever),
// each call under a watchdog (a blocked call is an observation, not a hang of the
// check); the results are compared with the handshake model (Model/Solutions.v)
// evaluated inside Coq; goroutines are counted before and after; a side-effecting
// goal shows that nothing runs after Close; two iterations are interleaved.

import (
	"errors"
	"fmt"
	"path/filepath"
	"runtime"
	"strings"
	"sync/atomic"
	"time"

	"github.com/ichiban/prolog"
	"github.com/ichiban/prolog/engine"
)

type c12Producer struct {
	query string
	coq   string
	k     int // answers, -1 = infinite
}

func c12Producers() []c12Producer {
	var ps []c12Producer
	for k := 0; k <= 3; k++ {
		ps = append(ps, c12Producer{fmt.Sprintf("between(1, %d, X), tick .", k), fmt.Sprintf("Finite %d%%nat None", k), k})
		ps = append(ps, c12Producer{fmt.Sprintf("(between(1, %d, X), tick ; tick0, throw(oops)) .", k), fmt.Sprintf(`Finite %d%%nat (Some "oops")`, k), k})
	}
	// a pending search under catch/3: Close must not look like an error to the program
	ps = append(ps, c12Producer{"catch((between(1, 3, X), tick), _, tick) .", "Finite 3%nat None", 3})
	ps = append(ps, c12Producer{"catch((between(1, 2, X), tick), error(_, _), tick) .", "Finite 2%nat None", 2})
	ps = append(ps, c12Producer{"findall(Y, catch((between(1, 2, Y), tick0), _, true), L), between(1, 2, X), catch(tick, _, tick) .", "Finite 2%nat None", 2})
	ps = append(ps, c12Producer{"repeat, tick, X = 1 .", "Infinite", -1})
	return ps
}

var c12Calls = []string{"CNext", "CScan", "CErr", "CClose"}

func runC12(outDir string, seed int64, tier string) {
	start := time.Now()
	sum := newSummary("C12", seed, tier)
	maxLen := 4
	if tier == "thorough" {
		maxLen = 6
	}
	var scripts [][]int
	var gen func(cur []int)
	gen = func(cur []int) {
		if len(cur) > 0 {
			scripts = append(scripts, append([]int{}, cur...))
		}
		if len(cur) == maxLen {
			return
		}
		for c := 0; c < 4; c++ {
			gen(append(cur, c))
		}
	}
	gen(nil)
	// plus longer Next-heavy scripts (the blocking case needs several Next after the end)
	scripts = append(scripts, []int{0, 0, 0, 0, 0, 0, 0}, []int{0, 0, 0, 0, 3, 0, 0, 3}, []int{0, 3, 0, 0, 1, 2, 3}, []int{0, 0, 2, 0, 0, 2, 0, 1})
	var ticks int64
	var cases []string
	id := 0
	stuck := 0
	base := runtime.NumGoroutine()
	for _, pr := range c12Producers() {
		for _, sc := range scripts {
			if stuck > 5 {
				break
			}
			p := prolog.New(nil, nil)
			p.Register0(engine.NewAtom("tick"), func(_ *engine.VM, k engine.Cont, env *engine.Env) *engine.Promise {
				atomic.AddInt64(&ticks, 1)
				return k(env)
			})
			p.Register0(engine.NewAtom("tick0"), func(_ *engine.VM, k engine.Cont, env *engine.Env) *engine.Promise { return k(env) })
			sols, err := p.Query(pr.query)
			if err != nil {
				fatal("query: %v", err)
			}
			var names []string
			var results []string
			blocked := false
			closedAt := int64(-1)
			for _, c := range sc {
				names = append(names, c12Calls[c])
				if c == 3 && closedAt < 0 {
					// the producer is parked on <-more between calls: no goal can be running now
					closedAt = atomic.LoadInt64(&ticks)
				}
				done := make(chan string, 1)
				go func(c int) {
					switch c {
					case 0:
						done <- fmt.Sprintf("RBool %v", sols.Next())
					case 1:
						var s struct{ X int }
						if err := sols.Scan(&s); err != nil {
							done <- "RScan None (* " + err.Error() + " *)"
						} else if s.X == 0 {
							done <- "RScan None"
						} else {
							done <- fmt.Sprintf("RScan (Some %d%%nat)", s.X)
						}
					case 2:
						if e := sols.Err(); e != nil {
							msg := e.Error()
							if strings.Contains(msg, "oops") {
								msg = "oops"
							}
							done <- "RErr (Some " + coqStr(msg) + ")"
						} else {
							done <- "RErr None"
						}
					case 3:
						if e := sols.Close(); e != nil {
							if !errors.Is(e, prolog.ErrClosed) {
								done <- "RClosed other-error (* " + e.Error() + " *)"
								return
							}
							done <- "RClosed true"
						} else {
							done <- "RClosed false"
						}
					}
				}(c)
				select {
				case r := <-done:
					results = append(results, r)
				case <-time.After(300 * time.Millisecond):
					results = append(results, "RBlocked")
					blocked = true
				}
				if blocked {
					break
				}
			}
			desc := map[string]interface{}{"query": pr.query, "script": names, "text": pr.query + "  " + strings.Join(names, " ")}
			sum.Cases[fmt.Sprint(id)] = desc
			sum.Evaluations++
			sum.Distinct++
			if blocked {
				stuck++
				sum.Failures = append(sum.Failures, failure{ID: id, Class: "solutions:call-blocks", Input: desc, Observed: strings.Join(results, " "), Expected: "every call returns promptly"})
			}
			// the property, directly: the first Close reports nothing, every later one reports ErrClosed
			closes := 0
			for i, c := range sc {
				if i >= len(results) || c != 3 {
					continue
				}
				closes++
				if want := map[bool]string{true: "RClosed false", false: "RClosed true"}[closes == 1]; results[i] != want {
					sum.Failures = append(sum.Failures, failure{ID: id, Class: "solutions:repeated-close", Input: desc, Observed: strings.Join(results, " "), Expected: "nil from the first Close, ErrClosed from every later one"})
					break
				}
			}
			// the infinite producer's Scan value is always 1: normalise to the answer count for the model
			if pr.k < 0 {
				n := 0
				for i, c := range sc {
					if i >= len(results) {
						break
					}
					if c == 0 && results[i] == "RBool true" {
						n++
					}
					if c == 1 && strings.HasPrefix(results[i], "RScan (Some") {
						results[i] = fmt.Sprintf("RScan (Some %d%%nat)", n)
					}
				}
			}
			if closedAt >= 0 {
				time.Sleep(3 * time.Millisecond)
				if now := atomic.LoadInt64(&ticks); now != closedAt {
					sum.Failures = append(sum.Failures, failure{ID: id, Class: "solutions:goals-run-after-close", Input: desc,
						Observed: fmt.Sprintf("%d goal(s) ran after Close returned", now-closedAt), Expected: "none"})
				}
			}
			if !blocked {
				var cs []string
				for _, c := range sc {
					cs = append(cs, c12Calls[c])
				}
				cases = append(cases, fmt.Sprintf("(%d, %s, %s, %s)", id, pr.coq, coqList(cs), coqList(results)))
				// let the goroutine go (it must terminate once closed)
				sols.Close()
			}
			id++
		}
	}
	// goroutines: everything closed must have terminated
	time.Sleep(100 * time.Millisecond)
	if left := runtime.NumGoroutine() - base; left > 2+stuck {
		sum.Failures = append(sum.Failures, failure{ID: id, Class: "solutions:goroutines-left-behind", Input: map[string]interface{}{"text": "after closing every iteration"},
			Observed: fmt.Sprintf("%d goroutines more than at the start", left), Expected: "all query goroutines terminated"})
	}
	// two interleaved iterations of one interpreter see what they see alone
	{
		p := prolog.New(nil, nil)
		a, _ := p.Query("member(X, [1,2,3]).")
		b, _ := p.Query("member(X, [10,20]).")
		var got []int
		for i := 0; i < 3; i++ {
			for _, s := range []*prolog.Solutions{a, b} {
				if s.Next() {
					var v struct{ X int }
					_ = s.Scan(&v)
					got = append(got, v.X)
				}
			}
		}
		a.Close()
		b.Close()
		want := "[1 10 2 20 3]"
		if fmt.Sprint(got) != want {
			sum.Failures = append(sum.Failures, failure{ID: id, Class: "solutions:interleaved-iterations-interfere", Input: map[string]interface{}{"text": "member(X,[1,2,3]) and member(X,[10,20]) iterated alternately"}, Observed: fmt.Sprint(got), Expected: want})
		}
		sum.Evaluations++
	}
	// queries without named variables: Next is true once per answer all the same, and Err reports a late error
	for _, vf := range []struct {
		q    string
		n    int
		oops bool
	}{
		{"member(a, [a,a,a]).", 3, false}, {"member(_, [1,2]).", 2, false}, {"true ; true ; true ; true.", 4, false}, {"fail.", 0, false},
		{"true ; throw(oops).", 1, true}, {"member(a, [a,b,a]), (true ; true).", 4, false}, {"between(1, 5, _).", 5, false},
	} {
		p := prolog.New(nil, nil)
		desc := map[string]interface{}{"text": vf.q + "  Next until false, then Err", "query": vf.q}
		sum.Cases[fmt.Sprint(id)] = desc
		sum.Evaluations++
		res := make(chan string, 1)
		go func() {
			sols, err := p.Query(vf.q)
			if err != nil {
				res <- "query error " + err.Error()
				return
			}
			n := 0
			for n < 20 && sols.Next() {
				n++
			}
			e := sols.Err()
			sols.Close()
			res <- fmt.Sprintf("%d answers, oops=%v", n, e != nil && strings.Contains(e.Error(), "oops"))
		}()
		want := fmt.Sprintf("%d answers, oops=%v", vf.n, vf.oops)
		select {
		case got := <-res:
			if got != want {
				sum.Failures = append(sum.Failures, failure{ID: id, Class: "solutions:variable-free-query-miscounted", Input: desc, Observed: got, Expected: want})
			}
		case <-time.After(3 * time.Second):
			sum.Failures = append(sum.Failures, failure{ID: id, Class: "solutions:call-blocks", Input: desc, Observed: "no return within 3 s", Expected: want})
		}
		id++
	}
	sum.Samples = append(sum.Samples, map[string]interface{}{"query": "between(1, 2, X), tick .", "script": []string{"CNext", "CNext", "CNext", "CNext", "CNext"}})
	sum.Rule = fmt.Sprintf("exhaustive: every script of 1..%d calls over {Next, Scan, Err, Close} (plus a few longer ones) x producers {0..3 answers then end, 0..3 answers then error, answers for ever}; each call under a 300 ms watchdog; goals counted after Close; goroutines counted; two interleaved iterations; queries without named variables counted; every script is distinct and non-trivial", maxLen)
	header := "From Coq Require Import ZArith List String.\nFrom PV Require Import Model.Solutions Model.SolutionsCheck.\nImport ListNotations.\nOpen Scope string_scope.\nOpen Scope Z_scope.\n"
	shard := 1500
	nf := 0
	for i := 0; i < len(cases); i += shard {
		j := i + shard
		if j > len(cases) {
			j = len(cases)
		}
		name := fmt.Sprintf("cases_sol_%d.v", nf)
		writeCases(filepath.Join(outDir, name), header, "solcase", "check_solutions", cases[i:j])
		sum.CaseFiles = append(sum.CaseFiles, name)
		nf++
	}
	sum.write(outDir, start)
}
