package main

// Shared machinery of the correspondence harness: deterministic PRNG, a
// canonical term tree read back from the implementation through the public
// prolog.Scanner interface, query helpers, Coq emission, run summaries.

import (
	"context"
	"encoding/json"
	"errors"
	"fmt"
	"math"
	"os"
	"path/filepath"
	"sort"
	"strings"
	"time"

	"github.com/ichiban/prolog"
	"github.com/ichiban/prolog/engine"
)

// ---- PRNG (splitmix64): every random choice derives from VERIF_SEED ---------

type rng struct{ s uint64 }

func (r *rng) next() uint64 {
	r.s += 0x9e3779b97f4a7c15
	z := r.s
	z = (z ^ (z >> 30)) * 0xbf58476d1ce4e5b9
	z = (z ^ (z >> 27)) * 0x94d049bb133111eb
	return z ^ (z >> 31)
}
func (r *rng) intn(n int) int { return int(r.next() % uint64(n)) }
func (r *rng) coin(p float64) bool {
	return float64(r.next()>>11)/float64(1<<53) < p
}
func (r *rng) split() *rng { return &rng{s: r.next()} }

// ---- canonical terms ---------------------------------------------------------

// T is a term as observed from the implementation, fully resolved.
type T struct {
	K    byte   // 'v' variable, 'a' atom, 'i' integer, 'f' float, 'c' compound, 'o' other (stream ...)
	S    string // atom text / functor
	I    int64
	F    uint64 // float bits
	V    int    // variable: index by first occurrence within one observation
	Args []*T
}

type varNames map[engine.Variable]int

// nodeBudget bounds the size of a term read back (cyclic terms created by
// unification without occurs check would otherwise unfold for ever).
const maxNodes = 4000

func fromTerm(t engine.Term, env *engine.Env, names varNames, depth int) *T {
	budget := maxNodes
	return fromTermB(t, env, names, depth, &budget)
}

func fromTermB(t engine.Term, env *engine.Env, names varNames, depth int, nodeBudget *int) *T {
	*nodeBudget--
	if depth > 500 || *nodeBudget < 0 {
		return &T{K: 'o', S: "<huge>"}
	}
	switch x := env.Resolve(t).(type) {
	case engine.Variable:
		n, ok := names[x]
		if !ok {
			n = len(names)
			names[x] = n
		}
		return &T{K: 'v', V: n}
	case engine.Atom:
		return &T{K: 'a', S: x.String()}
	case engine.Integer:
		return &T{K: 'i', I: int64(x)}
	case engine.Float:
		return &T{K: 'f', F: math.Float64bits(float64(x))}
	case engine.Compound:
		r := &T{K: 'c', S: x.Functor().String()}
		for i := 0; i < x.Arity(); i++ {
			r.Args = append(r.Args, fromTermB(x.Arg(i), env, names, depth+1, nodeBudget))
		}
		return r
	default:
		return &T{K: 'o', S: fmt.Sprintf("%T", x)}
	}
}

// huge reports whether the term was cut off by the node budget.
func (t *T) huge() bool {
	if t.K == 'o' && t.S == "<huge>" {
		return true
	}
	for _, a := range t.Args {
		if a.huge() {
			return true
		}
	}
	return false
}

func (t *T) String() string {
	switch t.K {
	case 'v':
		return fmt.Sprintf("_G%d", t.V)
	case 'a':
		return quoteAtom(t.S)
	case 'i':
		return fmt.Sprintf("%d", t.I)
	case 'f':
		return fmt.Sprintf("%v<%#x>", math.Float64frombits(t.F), t.F)
	case 'c':
		var as []string
		for _, a := range t.Args {
			as = append(as, a.String())
		}
		return quoteAtom(t.S) + "(" + strings.Join(as, ",") + ")"
	}
	return "<" + t.S + ">"
}

func quoteAtom(s string) string {
	plain := s != ""
	for i, c := range s {
		if !(c >= 'a' && c <= 'z' || i > 0 && (c >= 'A' && c <= 'Z' || c >= '0' && c <= '9' || c == '_')) {
			plain = false
		}
	}
	if plain || s == "[]" {
		return s
	}
	return "'" + strings.ReplaceAll(strings.ReplaceAll(s, `\`, `\\`), "'", `\'`) + "'"
}

// capture implements prolog.Scanner: it records the answer term and its env.
type capture struct {
	t   engine.Term
	env *engine.Env
}

func (c *capture) Scan(_ *engine.VM, t engine.Term, env *engine.Env) error {
	c.t, c.env = t, env
	return nil
}

// answer is one solution: the observed terms of the scanned variables, with
// variables numbered by first occurrence across the listed names in order.
type answer map[string]*T

// outcome of running a query to completion (or to a bound).
type outcome struct {
	Answers []answer
	Err     *T     // error term if the run ended with a Prolog exception
	GoErr   string // a non-Prolog Go error (parse errors, context errors, "panic: ...")
	More    bool   // stopped at the answer bound with more answers possible
	Raw     error  `json:"-"` // the error value as returned (C05 renders it)
}

func errTerm(err error) (*T, string) {
	if err == nil {
		return nil, ""
	}
	var ex engine.Exception
	if errors.As(err, &ex) {
		return fromTerm(ex.Term(), nil, varNames{}, 0), ""
	}
	return nil, err.Error()
}

// runQuery runs query and collects up to max answers for the named variables.
func runQuery(p *prolog.Interpreter, max int, names []string, query string, args ...interface{}) outcome {
	return runQueryCtx(context.Background(), p, max, names, query, args...)
}

func runQueryCtx(ctx context.Context, p *prolog.Interpreter, max int, names []string, query string, args ...interface{}) (out outcome) {
	markCurrent(query)
	sols, err := p.QueryContext(ctx, query, args...)
	if err != nil {
		out.Err, out.GoErr = errTerm(err)
		out.Raw = err
		return
	}
	defer sols.Close()
	for len(out.Answers) < max {
		if !sols.Next() {
			out.Err, out.GoErr = errTerm(sols.Err())
			out.Raw = sols.Err()
			return
		}
		holder := scanAll{}
		if err := sols.Scan(holder); err != nil {
			out.GoErr = "scan: " + err.Error()
			return
		}
		ans := answer{}
		vn := varNames{}
		for _, n := range names {
			if c, ok := holder[n]; ok {
				ans[n] = fromTerm(c.t, c.env, vn, 0)
			}
		}
		out.Answers = append(out.Answers, ans)
	}
	out.More = true
	return
}

// scanAll is a map destination: Solutions.Scan allocates one *capture per
// variable, and *capture implements prolog.Scanner.
type scanAll map[string]capture

// ---- Coq emission --------------------------------------------------------------

func coqZ(v int64) string {
	if v < 0 {
		return fmt.Sprintf("(%d)", v)
	}
	return fmt.Sprintf("%d", v)
}

func coqStr(s string) string { return "\"" + strings.ReplaceAll(s, "\"", "\"\"") + "\"" }

func coqList(xs []string) string { return "[" + strings.Join(xs, "; ") + "]" }

// ---- run summary -----------------------------------------------------------------

type failure struct {
	ID       int         `json:"id"`
	Class    string      `json:"class"`
	Input    interface{} `json:"input"`
	Observed string      `json:"observed"`
	Expected string      `json:"expected"`
	Detail   string      `json:"detail,omitempty"`
}

type runSummary struct {
	Property     string                 `json:"property"`
	Seed         int64                  `json:"seed"`
	Tier         string                 `json:"tier"`
	Evaluations  int                    `json:"evaluations"`
	Distinct     int                    `json:"distinct_nontrivial"`
	Rule         string                 `json:"rule"`
	Samples      []interface{}          `json:"samples"`
	Distribution map[string]int         `json:"distribution"`
	Failures     []failure              `json:"oracle_failures"`
	CaseFiles    []string               `json:"case_files"`
	Cases        map[string]interface{} `json:"cases"` // id -> input description (for reporting mismatches)
	Notes        []string               `json:"notes,omitempty"`
	WallS        float64                `json:"wall_s"`
}

func newSummary(prop string, seed int64, tier string) *runSummary {
	return &runSummary{Property: prop, Seed: seed, Tier: tier, Distribution: map[string]int{}, Cases: map[string]interface{}{}}
}

func (s *runSummary) count(k string) { s.Distribution[k]++ }

func (s *runSummary) write(dir string, start time.Time) {
	s.WallS = time.Since(start).Seconds()
	b, _ := json.MarshalIndent(s, "", " ")
	if err := os.WriteFile(filepath.Join(dir, "run.json"), b, 0o644); err != nil {
		fatal("%v", err)
	}
}

func fatal(f string, a ...interface{}) {
	fmt.Fprintf(os.Stderr, "harness: "+f+"\n", a...)
	os.Exit(2)
}

func sortedKeys(m map[string]int) []string {
	var ks []string
	for k := range m {
		ks = append(ks, k)
	}
	sort.Strings(ks)
	return ks
}

// writeCases writes a Coq case file: header, the cases as a list definition,
// and the evaluation of the mismatch list, printed as "MISMATCH = [ids]".
func writeCases(path, header, caseType, mismatchFn string, cases []string) {
	var b strings.Builder
	b.WriteString(header)
	fmt.Fprintf(&b, "\nDefinition cases : list (%s) := [\n", caseType)
	b.WriteString(strings.Join(cases, ";\n"))
	b.WriteString("\n].\n")
	fmt.Fprintf(&b, "Definition mism := Eval vm_compute in %s cases.\nPrint mism.\n", mismatchFn)
	if err := os.WriteFile(path, []byte(b.String()), 0o644); err != nil {
		fatal("%v", err)
	}
}

// ---- replay of a recorded failing input ------------------------------------------------

func encodeArgs(args []interface{}) []map[string]interface{} {
	var out []map[string]interface{}
	for _, a := range args {
		switch v := a.(type) {
		case int64:
			out = append(out, map[string]interface{}{"i": fmt.Sprint(v)})
		case int:
			out = append(out, map[string]interface{}{"i": fmt.Sprint(v)})
		case float64:
			out = append(out, map[string]interface{}{"fbits": fmt.Sprint(math.Float64bits(v))})
		case string:
			out = append(out, map[string]interface{}{"s": v})
		default:
			out = append(out, map[string]interface{}{"go": fmt.Sprintf("%#v", v)})
		}
	}
	return out
}

func decodeArgs(raw []interface{}) []interface{} {
	var out []interface{}
	for _, r := range raw {
		m, _ := r.(map[string]interface{})
		if s, ok := m["i"].(string); ok {
			var v int64
			fmt.Sscan(s, &v)
			out = append(out, v)
		} else if s, ok := m["fbits"].(string); ok {
			var v uint64
			fmt.Sscan(s, &v)
			out = append(out, math.Float64frombits(v))
		} else if s, ok := m["s"].(string); ok {
			out = append(out, s)
		}
	}
	return out
}

// replayFile re-runs the recorded input of a replay file on the implementation
// built from the current /repo and prints what is observed now.
func replayFile(path string) int {
	b, err := os.ReadFile(path)
	if err != nil {
		fatal("%v", err)
	}
	var r struct {
		Case struct {
			Class    string                 `json:"class"`
			Input    map[string]interface{} `json:"input"`
			Observed string                 `json:"observed"`
			Expected string                 `json:"expected"`
		} `json:"case"`
	}
	if err := json.Unmarshal(b, &r); err != nil {
		fatal("%v", err)
	}
	in := r.Case.Input
	q, _ := in["query"].(string)
	if q == "" {
		// C05 goals and query texts, C16 calls: the recorded text is the query itself
		if k, _ := in["kind"].(string); k == "goal" || k == "query" || strings.HasPrefix(r.Case.Class, "C16:") {
			q, _ = in["text"].(string)
		}
	}
	if q == "" {
		fmt.Println("replay: this file records no directly replayable query; see its fields")
		return 0
	}
	p := prolog.New(nil, nil)
	if prog, _ := in["program"].(string); prog != "" {
		if err := p.Exec(prog); err != nil {
			fmt.Println("program load error:", err)
		}
	}
	var names []string
	if vs, ok := in["vars"].([]interface{}); ok {
		for _, v := range vs {
			names = append(names, fmt.Sprint(v))
		}
	}
	raw, _ := in["args"].([]interface{})
	out := runQuery(p, 50, names, q, decodeArgs(raw)...)
	fmt.Printf("replay %s\n  query:    %s\n  recorded: observed=%s expected=%s\n", r.Case.Class, in["text"], r.Case.Observed, r.Case.Expected)
	for i, a := range out.Answers {
		var parts []string
		for _, n := range names {
			if t, ok := a[n]; ok {
				parts = append(parts, n+"="+t.String())
			}
		}
		fmt.Printf("  now answer %d: %s\n", i+1, strings.Join(parts, ", "))
	}
	if out.Err != nil {
		fmt.Printf("  now error: %s\n", out.Err)
	}
	if out.GoErr != "" {
		fmt.Printf("  now Go error: %s\n", out.GoErr)
	}
	if len(out.Answers) == 0 && out.Err == nil && out.GoErr == "" {
		fmt.Println("  now: no answers")
	}
	return 0
}

// ---- deterministic step budget ---------------------------------------------------------------

// stepCtx is a context whose Done channel is closed from the n-th poll on. The
// engine polls ctx.Done() once per trampoline iteration, so this bounds the
// work of a run independently of wall-clock time and machine load.
type stepCtx struct {
	context.Context
	polls, limit int
	closed       chan struct{}
	closedAt     time.Time // when Done() first returned the closed channel
}

func newStepCtx(parent context.Context, limit int) *stepCtx {
	c := &stepCtx{Context: parent, limit: limit, closed: make(chan struct{})}
	close(c.closed)
	return c
}

func (c *stepCtx) Done() <-chan struct{} {
	c.polls++
	if c.polls > c.limit {
		if c.closedAt.IsZero() {
			c.closedAt = time.Now()
		}
		return c.closed
	}
	return c.Context.Done()
}

func (c *stepCtx) Err() error {
	if c.polls > c.limit {
		return context.Canceled
	}
	return c.Context.Err()
}
