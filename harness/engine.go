package main

// Program-based properties (C01 C03 C04 ...): generate programs and queries,
// run them on the implementation, and write the observed answer sequences as
// Coq case files to be evaluated against the machine model M and the reference
// semantics S (Model/MachineCheck.v check_both).

import (
	"bufio"
	"context"
	"encoding/json"
	"fmt"
	"os"
	"os/exec"
	"path/filepath"
	"runtime/debug"
	"strings"
	"time"

	"github.com/ichiban/prolog"
)

type progCase struct {
	prog    *program
	dynamic bool
	note    string
	steps   int // trampoline polls allowed (0: stepLimit)
	spec    *G  // if set: the query M and S run in place of prog.query (a library predicate replaced by its textbook definition)
}

const answerLimit = 12

// trampoline iterations allowed per query (deterministic budget; the wall-clock limit is only a safety net)
const stepLimit = 4000

func coqAnswers(as []answer, names []string) string {
	var rows []string
	for _, a := range as {
		var ts []string
		for _, n := range names {
			t, ok := a[n]
			if !ok {
				t = &T{K: 'a', S: "$missing"}
			}
			ts = append(ts, "("+t.coq()+")")
		}
		rows = append(rows, coqList(ts))
	}
	return coqList(rows)
}

// observeProgram loads the program text into a fresh interpreter and runs the query.
func observeProgram(pc *progCase, timeout time.Duration) (out outcome, timedOut bool, loadErr string) {
	p := prolog.New(nil, nil)
	text := pc.prog.text()
	if pc.dynamic {
		text = dynamicDecls(pc.prog) + text
	}
	if err := p.Exec(text); err != nil {
		return outcome{}, false, err.Error()
	}
	wall, cancel := context.WithTimeout(context.Background(), timeout)
	defer cancel()
	limit := stepLimit
	if pc.steps > 0 {
		limit = pc.steps
	}
	ctx := newStepCtx(wall, limit)
	out = runQueryCtx(ctx, p, answerLimit, pc.prog.queryVars(), pc.prog.query.text()+" .")
	if strings.Contains(out.GoErr, "deadline exceeded") || strings.Contains(out.GoErr, "context canceled") {
		return out, true, ""
	}
	return out, false, ""
}

func hugeOutcome(out outcome) bool {
	if out.Err != nil && out.Err.huge() {
		return true
	}
	for _, a := range out.Answers {
		for _, t := range a {
			if t.huge() {
				return true
			}
		}
	}
	return false
}

func dynamicDecls(p *program) string {
	seen := map[string]bool{}
	var b strings.Builder
	for _, c := range p.clauses {
		h := c
		if c.K == 'c' && c.S == ":-" && len(c.Args) == 2 {
			h = c.Args[0]
		}
		pi := fmt.Sprintf("%s/%d", quoteAtom(h.S), len(h.Args))
		if !seen[pi] {
			seen[pi] = true
			fmt.Fprintf(&b, ":- dynamic(%s).\n", pi)
		}
	}
	return b.String()
}

func coqEnding(out outcome) string {
	switch {
	case out.Err != nil:
		return "OEndErr (" + out.Err.coq() + ")"
	case out.GoErr != "":
		return "OEndGo " + coqStr(out.GoErr)
	case out.More:
		return "OEndMore"
	}
	return "OEndNo"
}

func qvarIdx(p *program) string {
	var is []string
	for _, i := range p.queryVarIdx() {
		is = append(is, fmt.Sprint(i))
	}
	return coqList(is)
}

const progHeader = "From Coq Require Import ZArith List String.\nFrom PV Require Import Model.Term Model.Machine Model.Boot Model.MachineCheck.\nImport ListNotations.\nOpen Scope Z_scope.\nOpen Scope string_scope.\n"

// One observed case, as passed from an isolated worker process to the parent.
type caseLine struct {
	ID      int                    `json:"id"`
	Status  string                 `json:"status"` // ok | load-error | timeout | huge
	Coq     string                 `json:"coq,omitempty"`
	Desc    map[string]interface{} `json:"desc"`
	Answers int                    `json:"answers"`
	Ending  string                 `json:"ending"`
	Key     string                 `json:"key"`
	Note    string                 `json:"note,omitempty"`
}

// runProgProperty: the common driver. The implementation is exercised in worker
// subprocesses (a cyclic term makes the engine die with a fatal stack overflow,
// which must not take the run down); the parent aggregates.
func runProgProperty(pid, outDir string, seed int64, tier string, gen func(r *rng, i int) *progCase, nQuick, nThorough int, rule string) {
	n := nQuick
	if tier == "thorough" {
		n = nThorough
	}
	if shrinkID >= 0 {
		shrinkCase(pid, seed, tier, shrinkID, gen, n, shrinkM, outDir)
		return
	}
	if workerFrom >= 0 {
		debug.SetMaxStack(48 << 20)
		limitMemory(3 << 30)
		r := &rng{s: uint64(seed) ^ hashString(pid)}
		w := bufio.NewWriter(os.Stdout)
		for id := 0; id < n; id++ {
			pc := gen(r.split(), id)
			if id < workerFrom {
				continue
			}
			fmt.Fprintf(w, "@@BEGIN %d\n", id)
			w.Flush()
			out, timedOut, loadErr := observeProgram(pc, 2*time.Second)
			cl := caseLine{ID: id, Status: "ok", Key: pc.prog.text() + "?-" + pc.prog.query.text(),
				Desc: map[string]interface{}{"program": pc.prog.text(), "query": pc.prog.query.text() + " .", "vars": pc.prog.queryVars(), "text": pc.prog.query.text(), "note": pc.note}}
			switch {
			case loadErr != "":
				cl.Status, cl.Note = "load-error", loadErr
			case timedOut:
				cl.Status = "timeout"
			case hugeOutcome(out):
				cl.Status = "huge"
			default:
				cl.Answers, cl.Ending = len(out.Answers), coqEnding(out)
				cl.Coq = fmt.Sprintf("(%d, %s, %s, %s, %d%%nat, %s, %s)", id, pc.prog.coqClauses(), specOr(pc).coq(), qvarIdx(pc.prog),
					answerLimit, coqAnswers(out.Answers, pc.prog.queryVars()), coqEnding(out))
			}
			b, _ := json.Marshal(cl)
			fmt.Fprintf(w, "@@CASE %s\n", b)
			w.Flush()
		}
		return
	}
	start := time.Now()
	sum := newSummary(pid, seed, tier)
	var cases []string
	seen := map[string]bool{}
	dynamic := gen(&rng{s: 1}, 0).dynamic
	from := 0
	for from < n {
		cmd := exec.Command(os.Args[0], "-out", outDir, "-seed", fmt.Sprint(seed), "-tier", tier, "-worker-from", fmt.Sprint(from), pid)
		cmd.Stderr = nil
		stdout, _ := cmd.StdoutPipe()
		if err := cmd.Start(); err != nil {
			fatal("%v", err)
		}
		sc := bufio.NewScanner(stdout)
		sc.Buffer(make([]byte, 1<<20), 64<<20)
		current := -1
		last := from - 1
		// watchdog: a case that does not finish within 10 s of wall-clock time (a Go-level loop that
		// never polls the context, memory exhaustion ...) gets its worker killed and is dropped
		beat := make(chan struct{}, 1024)
		stop := make(chan struct{})
		go func() {
			for {
				select {
				case <-beat:
				case <-stop:
					return
				case <-time.After(10 * time.Second):
					cmd.Process.Kill()
					return
				}
			}
		}()
		for sc.Scan() {
			line := sc.Text()
			select {
			case beat <- struct{}{}:
			default:
			}
			if strings.HasPrefix(line, "@@BEGIN ") {
				fmt.Sscan(line[8:], &current)
				continue
			}
			if !strings.HasPrefix(line, "@@CASE ") {
				continue
			}
			var cl caseLine
			if err := json.Unmarshal([]byte(line[7:]), &cl); err != nil {
				continue
			}
			last = cl.ID
			sum.Cases[fmt.Sprint(cl.ID)] = cl.Desc
			if cl.Status != "ok" {
				sum.count("dropped:" + cl.Status)
				if cl.Note != "" {
					sum.Notes = appendOnce(sum.Notes, cl.Status+": "+cl.Note)
				}
				continue
			}
			sum.Evaluations++
			sum.count(fmt.Sprintf("answers:%d", cl.Answers))
			sum.count("end:" + strings.SplitN(cl.Ending, " ", 2)[0])
			if !seen[cl.Key] {
				seen[cl.Key] = true
				if cl.Answers > 0 || strings.HasPrefix(cl.Ending, "OEndErr") {
					sum.Distinct++
				}
			}
			if len(sum.Samples) < 6 && cl.ID%7 == 0 {
				sum.Samples = append(sum.Samples, map[string]interface{}{"program": cl.Desc["program"], "query": cl.Desc["query"], "answers": cl.Answers, "ending": cl.Ending})
			}
			cases = append(cases, cl.Coq)
		}
		close(stop)
		err := cmd.Wait()
		if err == nil && last >= n-1 {
			break
		}
		// the worker died while running case `current` (fatal stack overflow on a cyclic term, or similar)
		crashedAt := last + 1
		if current > last {
			crashedAt = current
		}
		sum.count("dropped:worker-died")
		sum.Notes = appendOnce(sum.Notes, fmt.Sprintf("worker process died on case %d (cyclic term / stack exhaustion: outside the property's quantifier); case dropped", crashedAt))
		from = crashedAt + 1
	}
	sum.Rule = rule
	shard := 150
	nf := 0
	for i := 0; i < len(cases); i += shard {
		j := i + shard
		if j > len(cases) {
			j = len(cases)
		}
		name := fmt.Sprintf("cases_prog_%d.v", nf)
		fn := "check_both false"
		if dynamic {
			fn = "check_both true"
		}
		writeCases(filepath.Join(outDir, name), progHeader, "pcase", fn, cases[i:j])
		sum.CaseFiles = append(sum.CaseFiles, name)
		nf++
	}
	sum.write(outDir, start)
}

func specOr(pc *progCase) *G {
	if pc.spec != nil {
		return pc.spec
	}
	return pc.prog.query
}

func appendOnce(l []string, s string) []string {
	for _, x := range l {
		if x == s {
			return l
		}
	}
	if len(l) > 5 {
		return l
	}
	return append(l, s)
}

func hashString(s string) uint64 {
	var h uint64 = 1469598103934665603
	for i := 0; i < len(s); i++ {
		h ^= uint64(s[i])
		h *= 1099511628211
	}
	return h
}

func runC01(outDir string, seed int64, tier string) {
	f := feat{nestedOr: true, topOr: true, callN: true, arith: true}
	sel := selectionPrograms()
	wide := widePrograms()
	deep := append(append(deepPrograms(0, tier), metaCallPrograms()...), libraryAgainstTextbook()...)
	runProgProperty("C01", outDir, seed, tier, func(r *rng, i int) *progCase {
		if i < len(deep) {
			return deep[i]
		}
		i -= len(deep)
		if i < len(sel) {
			return &progCase{prog: sel[i], note: "selection"}
		}
		if i < len(sel)+len(wide) {
			return &progCase{prog: wide[i-len(sel)], note: "wide"}
		}
		return &progCase{prog: genProgram(r, f)}
	}, 1000+len(deep), 8000+len(deep),
		"library predicates against their textbook definitions (the implementation runs member/2, select/3, append/3 on proper, partial and unbound lists; M and S run the two-clause textbook predicates on the same arguments; first 12 answers); deep goals (a recursion of depth 600, thorough also 40 and 1100, after an older choice point, bare, under call/1 and in a disjunction); one goal term reaching call/1, call/N, \\+, findall/3, once/1, a disjunction or a variable goal through a clause variable and executed again after backtracking has rebound its inner variable; wide goals (two-alternative disjunctions and call/N goals with 7-11 distinct free variables, one after the other); clause selection exhaustively over small shapes (18 head shapes x 30 argument shapes x 3 positions: closed lists of length 0-3, list patterns, string-backed lists, partial lists of every prefix length, atoms, integers, compounds, repeated variables); then random programs: 1-5 predicates of arity 0-3 with 1-4 clauses, nested terms/lists/partial lists in heads, bodies with conjunction, nested and top-level disjunction (no cut), call/N, arithmetic, between/3, member/2 and a library with direct and mutual recursion; queries of 1-3 goals; up to 12 answers compared as sequences up to variable renaming; distinct by program+query text; non-trivial = at least one answer or an error")
}

func runC03(outDir string, seed int64, tier string) {
	f := feat{cut: true, ite: true, neg: true, once: true, callN: true, findall: true, nestedOr: true, topOr: true, arith: true, catch: false}
	// every body of 1-4 goals (thorough: 1-5) over {nondeterministic goal, !, fail, local cut}, in three shapes and two query orders
	maxLen := 4
	if tier == "thorough" {
		maxLen = 5
	}
	skel := skeletonBodies([]string{"m", "!", "f", "c"}, maxLen)
	deep := append(deepPrograms(1, tier), indexedCutPrograms()...)
	runProgProperty("C03", outDir, seed, tier, func(r *rng, i int) *progCase {
		if i < len(deep) {
			return deep[i]
		}
		i -= len(deep)
		if i < len(skel) {
			return &progCase{prog: skeletonProgram(skel[i], i%3+3*0), note: "skeleton"}
		}
		if i < 2*len(skel) && tier == "thorough" {
			return &progCase{prog: skeletonProgram(skel[i-len(skel)], (i+1)%3), note: "skeleton"}
		}
		return &progCase{prog: genProgram(r, f)}
	}, 1000+len(deep), 8000+len(deep),
		"a cut in the one clause that a bound atomic first argument selects among several, with an older choice point pending; deep goals: a recursion of depth 600 (thorough also 40 and 1100) that leaves its frames on the promise stack, after an older choice point, pruned by a cut in the only and in the last clause, once/1, if-then-else, \\+, call((G,!)), inside findall/3; exhaustive control skeletons; random programs as for C01 plus: '!' as a direct conjunct of clause bodies and of top-level disjuncts, cuts inside call/1, \\+, once/1, findall/3 goals, if-then(-else) and once with cut-free branches, nondeterministic goals before and after the cut; up to 12 answers compared as sequences; distinct by program+query text; non-trivial = at least one answer or an error")
}

func runC04(outDir string, seed int64, tier string) {
	f := feat{cut: true, neg: true, callN: true, findall: true, nestedOr: true, topOr: true, arith: true, catch: true, builtinErr: true}
	// every body of 1-3 goals (thorough: 1-4) over {nondeterministic goal, throw, exiting catch, nested exiting catches, catch around an error, !}
	maxLen := 3
	if tier == "thorough" {
		maxLen = 4
	}
	skel := skeletonBodies([]string{"m", "x", "k", "K", "e", "!"}, maxLen)
	directed := append(append(deepPrograms(2, tier), rethrowPrograms()...), exitedThenCutPrograms()...)
	runProgProperty("C04", outDir, seed, tier, func(r *rng, i int) *progCase {
		if i < len(directed) {
			return directed[i]
		}
		i -= len(directed)
		if i < len(skel) {
			return &progCase{prog: skeletonProgram(skel[i], i%2+3*(i/2%2)), note: "skeleton"}
		}
		return &progCase{prog: genProgram(r, f)}
	}, 1000+len(directed), 8000+len(directed),
		"an exited catch/3 (deterministic, with a choice point, nested) followed by a goal that cuts (a user predicate with a cut, once/1, if-then-else, call((G,!)), \\+) and then an error, under an outer catch/3, in the query and in a clause body; deep goals under catch/3 (an error raised 600 levels down, caught, not caught, caught outside an older choice point); caught balls that Recovery or the continuation instantiates and throws again (one to three levels, after backtracking into Recovery, not caught again); exhaustive control skeletons; random programs as for C03 plus catch/3 and throw/1 at any nesting with balls that do or do not unify with the catchers and share variables with the goal, built-in errors (type, instantiation, evaluation), throws after a catch/3 goal has exited and after backtracking into it; answers and the final error term compared; distinct by program+query text; non-trivial = at least one answer or an error")
}

// c11BoundCaret: V^Goal where, at the time of the call, V is bound -- aliased to a fresh variable
// that is written in its place, or wrapped in a term bound to the variable written on the left of ^
func c11BoundCaret(r *rng, which string, tmpl, goal, inst *G) *G {
	v, g := goal.Args[0], goal.Args[1]
	a := gv(11)
	switch r.intn(3) {
	case 0: // Y = Z, bagof(T, Y^G(Z), L)
		return gc(",", gc("=", a, v), gc(which, tmpl, gc("^", a, g), inst))
	case 1: // Q = f(V), bagof(T, Q^G(V), L)
		return gc(",", gc("=", a, gc("f", v)), gc(which, tmpl, gc("^", a, g), inst))
	default: // Q = f(V, W), bagof(T, Q^G, L): two variables quantified through one bound term
		return gc(",", gc("=", a, gc("f", v, gv(2))), gc(which, tmpl, gc("^", a, g), inst))
	}
}

func runC11(outDir string, seed int64, tier string) {
	f := feat{findall: true, bag: true, neg: true, callN: true, nestedOr: true, topOr: true, arith: true}
	runProgProperty("C11", outDir, seed, tier, func(r *rng, i int) *progCase {
		pc := &progCase{prog: genProgram(r, f)}
		// half of the queries are an all-solutions call over a generated goal, so that the
		// collected lists and the witness bindings are the observed answers
		if r.coin(0.6) {
			p := &pgen{r: r, f: f, nvars: 3}
			for i := 0; i < 5; i++ {
				p.preds = append(p.preds, predSig{fmt.Sprintf("p%d", i), 0})
			}
			p.preds = nil
			for _, c := range pc.prog.clauses {
				h := c
				if c.K == 'c' && c.S == ":-" {
					h = c.Args[0]
				}
				seen := false
				for _, s := range p.preds {
					if s.name == h.S && s.arity == len(h.Args) {
						seen = true
					}
				}
				if !seen {
					p.preds = append(p.preds, predSig{h.S, len(h.Args)})
				}
			}
			if r.coin(0.25) {
				// facts whose free-variable witnesses are variants of each other in only one direction
				var facts []*G
				n := 3 + r.intn(4)
				for i := 0; i < n; i++ {
					var a, b *G
					switch r.intn(5) {
					case 0:
						a, b = gv(0), gv(0)
					case 1:
						a, b = gv(0), gv(1)
					case 2:
						a, b = gc("f", gv(0), gv(0)), gv(1)
					case 3:
						a, b = gc("f", gv(0), gv(1)), gv(0)
					default:
						a, b = ga(genAtoms[r.intn(3)]), ga(genAtoms[r.intn(3)])
					}
					facts = append(facts, renumber(gc("w", gi(int64(i+1)), a, b)))
				}
				pc.prog.clauses = append(pc.prog.clauses, facts...)
				tmpl := []*G{gv(0), gc("-", gv(0), gv(1)), gc("-", gv(0), gv(2))}[r.intn(3)]
				goal := gc("w", gv(0), gv(1), gv(2))
				if r.coin(0.3) {
					goal = gc("^", gv(1+r.intn(2)), goal)
				}
				which := []string{"bagof", "setof"}[r.intn(2)]
				if which == "setof" {
					tmpl = gv(0)
				}
				pc.prog.query = gc(which, tmpl, goal, gv(3))
				if goal.S == "^" && r.coin(0.5) {
					pc.prog.query = c11BoundCaret(r, which, tmpl, goal, gv(3))
				} else if r.coin(0.3) {
					pc.prog.query = gc(",", gc("=", gv(9), goal), gc(which, tmpl, gv(9), gv(3)))
				}
				return pc
			}
			which := []string{"findall", "bagof", "setof"}[r.intn(3)]
			goal := p.conj(1, 0, false)
			if r.coin(0.5) {
				goal = gc(",", gc("member", gv(1), p.smallList()), gc("member", gv(0), glist([]*G{gv(1), gc("f", gv(1)), gv(2), ga("a")}, nil)))
				if r.coin(0.5) {
					// witnesses that are variants of each other, with repeated variables
					goal = gc("member", gc("-", gv(0), gv(1)), glist([]*G{gc("-", gi(1), gc("f", gv(3), gv(3))), gc("-", gi(2), gc("f", gv(4), gv(5))), gc("-", gi(3), gc("f", gv(6), gv(6))), gc("-", gi(4), gc("f", gv(7), gv(8)))}, nil))
				}
			}
			if which != "findall" && r.coin(0.4) {
				goal = gc("^", gv(r.intn(3)), goal)
			}
			inst := gv(2)
			if r.coin(0.15) {
				inst = glist([]*G{gv(2)}, gv(3))
			}
			closedInst := 0
			if which != "findall" && r.coin(0.3) {
				closedInst = 1 + r.intn(3) // the Instances argument is a closed list of 1-3 variables or values
			}
			tmpl := p.term(1)
			if which == "setof" {
				// ground template instances (see the generator of setof goals)
				tmpl = gv(0)
				goal2 := goal
				for goal2.K == 'c' && goal2.S == "^" {
					goal2 = goal2.Args[1]
				}
				wrapped := gc(",", gc("member", gv(0), p.smallList()), goal2)
				if goal.K == 'c' && goal.S == "^" {
					wrapped = gc("^", goal.Args[0], wrapped)
				}
				goal = wrapped
			}
			if closedInst > 0 && which == "setof" {
				// solutions with duplicates, the Instances argument already a closed list of the duplicate-free length
				dup := p.smallList()
				var es []*G
				for t := dup; t.K == 'c' && t.S == "." && len(t.Args) == 2; t = t.Args[1] {
					es = append(es, t.Args[0])
				}
				es = append(es, es...)
				goal = gc("member", gv(0), glist(es, nil))
				var vs []*G
				for i := 0; i < closedInst; i++ {
					vs = append(vs, gv(5+i))
				}
				pc.prog.query = gc(which, gv(0), goal, glist(vs, nil))
				return pc
			}
			if closedInst > 0 {
				var vs []*G
				for i := 0; i < closedInst; i++ {
					vs = append(vs, gv(5+i))
				}
				inst = glist(vs, nil)
			}
			pc.prog.query = gc(which, tmpl, goal, inst)
			if which != "findall" && goal.K == 'c' && goal.S == "^" && r.coin(0.45) {
				// the ^-quantified variable is already bound when bagof/setof is called: to another variable
				// of the goal, or it occurs inside a term that stands on the left of ^
				pc.prog.query = c11BoundCaret(r, which, tmpl, goal, inst)
				return pc
			}
			if which != "findall" && r.coin(0.3) {
				// the goal reaches bagof/setof through a variable bound at call time
				mv := gv(9)
				if goal.K == 'c' && goal.S == "^" && r.coin(0.5) {
					pc.prog.query = gc(",", gc("=", mv, goal.Args[1]), gc(which, tmpl, gc("^", goal.Args[0], mv), inst))
				} else {
					pc.prog.query = gc(",", gc("=", mv, goal), gc(which, tmpl, mv, inst))
				}
			}
		}
		return pc
	}, 1000, 8000,
		"random programs as for C01 with findall/3, bagof/3, setof/3 in bodies and as queries: templates sharing any subset of variables with the goal, ^-quantified variables, witnesses that are ground, partial or variants of each other (with repeated variables), nested all-solutions calls, instance arguments unbound or partial lists; compared as answer sequences (group order as produced); distinct by program+query text; non-trivial = at least one answer or an error")
}
