package main

// C17: the DCG translation preserves the language and the threading of the remainder.

import (
	"context"
	"fmt"
	"path/filepath"
	"strings"
	"time"

	"github.com/ichiban/prolog"
)

type dcgGen struct {
	r     *rng
	arity []int // per non-terminal
	nvar  int
}

func (g *dcgGen) ntName(i int) string { return fmt.Sprintf("n%d", i) }

func (g *dcgGen) v() *G {
	if g.nvar > 0 && g.r.coin(0.5) {
		return gv(g.r.intn(g.nvar))
	}
	g.nvar++
	return gv(g.nvar - 1)
}

func (g *dcgGen) argTerm() *G {
	switch g.r.intn(5) {
	case 0, 1:
		return g.v()
	case 2:
		return ga([]string{"a", "b", "k"}[g.r.intn(3)])
	case 3:
		return gc("f", g.v())
	default:
		return gi(int64(g.r.intn(3)))
	}
}

func (g *dcgGen) nt(i int) *G {
	if g.arity[i] == 0 {
		return ga(g.ntName(i))
	}
	return gc(g.ntName(i), g.argTerm())
}

func (g *dcgGen) terminals(nonEmpty bool) *G {
	alpha := []*G{ga("a"), ga("b"), ga("c")}
	switch c := g.r.intn(12); {
	case c == 0 && !nonEmpty:
		return ga("[]")
	case c == 1:
		return glist([]*G{alpha[g.r.intn(3)], alpha[g.r.intn(3)]}, nil)
	case c == 2:
		return glist([]*G{g.v()}, nil) // a variable terminal
	default:
		return glist([]*G{alpha[g.r.intn(3)]}, nil)
	}
}

func (g *dcgGen) braces() *G {
	v := g.v()
	gs := []*G{ga("true"), ga("true"), gc("=", v, ga("b")), gc("=", v, ga("a")), gc("==", v, ga("a")), gc(";", gc("=", v, ga("a")), gc("=", v, ga("b"))), gc("\\==", v, ga("b"))}
	return gc("{}", gs[g.r.intn(len(gs))])
}

// body for non-terminal self; consumed: a terminal has certainly been consumed before this point
// cutOK: a '!' here is in a placement for which the engine provides clause-level cut (a direct conjunct of the
// rule body or of one of its top-level disjuncts) or is local by ISO (inside \\+, call//N, a condition);
// top: this position is the rule body or one of its top-level disjuncts
func (g *dcgGen) body(depth, self int, consumed, cutOK, top bool) *G {
	n := len(g.arity)
	callable := func() *G {
		lo := self + 1
		if consumed {
			lo = self
		}
		if lo >= n {
			return g.terminals(false)
		}
		return g.nt(lo + g.r.intn(n-lo))
	}
	if depth <= 0 {
		if g.r.coin(0.5) {
			return g.terminals(false)
		}
		return callable()
	}
	sub := func(c bool) *G { return g.body(depth-1, self, c, cutOK, false) }
	switch g.r.intn(16) {
	case 0, 1:
		return g.terminals(false)
	case 2, 3:
		return callable()
	case 4, 5, 6:
		first := sub(consumed)
		c := consumed || (first.K == 'c' && first.S == "." && first.Args[0].K == 'a')
		return gc(",", first, sub(c))
	case 7:
		return gc(",", g.terminals(true), sub(true))
	case 8:
		return gc(";", g.body(depth-1, self, consumed, cutOK && top, top), g.body(depth-1, self, consumed, cutOK && top, top))
	case 9:
		return gc("|", g.body(depth-1, self, consumed, cutOK && top, top), g.body(depth-1, self, consumed, cutOK && top, top))
	case 10:
		return g.braces()
	case 11:
		if g.r.coin(0.5) && cutOK { // commit after a prefix
			return gc(",", sub(consumed), ga("!"))
		}
		return gc("\\+", g.body(depth-1, self, consumed, true, false))
	case 12:
		if !cutOK {
			return g.terminals(false)
		}
		return ga("!")
	case 13:
		lo := self + 1
		if lo >= n {
			return g.terminals(false)
		}
		j := lo + g.r.intn(n-lo)
		if g.arity[j] == 0 {
			return gc("call", ga(g.ntName(j)))
		}
		return gc("call", ga(g.ntName(j)), g.argTerm())
	case 14:
		// the branches of an if-then-else are called: a cut there would be local in this engine (C03 names the placements)
		return gc(";", gc("->", g.body(depth-1, self, consumed, true, false), g.body(depth-1, self, consumed, false, false)), g.body(depth-1, self, consumed, false, false))
	default:
		return gc("->", g.body(depth-1, self, consumed, true, false), g.body(depth-1, self, consumed, false, false))
	}
}

func renumberFrom(t *G, m map[int]int) *G {
	switch t.K {
	case 'v':
		if t.V < 0 {
			return t
		}
		if _, ok := m[t.V]; !ok {
			m[t.V] = len(m)
		}
		return gv(m[t.V])
	case 'c':
		var as []*G
		for _, a := range t.Args {
			as = append(as, renumberFrom(a, m))
		}
		return gc(t.S, as...)
	}
	return t
}

func (g *dcgGen) grammar() []*G {
	var rules []*G
	for i := range g.arity {
		for k, m := 0, 1+g.r.intn(3); k < m; k++ {
			g.nvar = 0
			head := g.nt(i)
			pushback := g.r.coin(0.08)
			b := g.body(2, i, false, true, !pushback) // with push-back the body is a conjunct, its disjunctions are not top-level
			if pushback {
				head = gc(",", head, glist([]*G{ga([]string{"a", "b", "c"}[g.r.intn(3)])}, nil))
			}
			rules = append(rules, renumberFrom(gc("-->", head, b), map[int]int{}))
		}
	}
	return rules
}

func allLists(alpha []string, maxLen int) [][]string {
	out := [][]string{{}}
	prev := [][]string{{}}
	for l := 1; l <= maxLen; l++ {
		var cur [][]string
		for _, p := range prev {
			for _, a := range alpha {
				cur = append(cur, append(append([]string{}, p...), a))
			}
		}
		out = append(out, cur...)
		prev = cur
	}
	return out
}

func atomsList(xs []string) *G {
	var es []*G
	for _, x := range xs {
		es = append(es, ga(x))
	}
	return glist(es, nil)
}

func gVarIdx(t *G) []int {
	var is []int
	for i := 0; i <= t.maxVar(); i++ {
		if t.hasVar(i) {
			is = append(is, i)
		}
	}
	return is
}

func runC17(outDir string, seed int64, tier string) {
	start := time.Now()
	sum := newSummary("C17", seed, tier)
	r := &rng{s: uint64(seed) ^ hashString("C17")}
	ngr := 9
	if tier == "thorough" {
		ngr = 150
	}
	infixOps["|"] = true
	infixOps["-->"] = true
	var cases, ecases []string
	seen := map[string]bool{}
	id := 0
	inputs := allLists([]string{"a", "b", "c"}, 3)
	for gi := 0; gi < ngr; gi++ {
		rr := r.split()
		g := &dcgGen{r: rr}
		for i, n := 0, 2+rr.intn(3); i < n; i++ {
			g.arity = append(g.arity, rr.intn(2))
		}
		rules := g.grammar()
		var text strings.Builder
		var coqRules []string
		for _, ru := range rules {
			text.WriteString(ru.text() + ".\n")
			coqRules = append(coqRules, "("+ru.coq()+")")
		}
		p := prolog.New(nil, nil)
		if err := p.Exec(text.String()); err != nil {
			sum.count("grammar:load-error")
			// the model must refuse it too: an expand_term case per rule decides
			continue
		}
		sum.count("grammar:loaded")
		// expand_term/2 on every rule
		for _, ru := range rules {
			out := runQuery(p, 1, []string{"X"}, fmt.Sprintf("expand_term(%s, X) .", ru.text()))
			sum.Evaluations++
			sum.count("expand_term")
			if len(out.Answers) == 1 {
				ecases = append(ecases, fmt.Sprintf("(%d, %s, %s)", id, ru.coq(), out.Answers[0]["X"].coq()))
				sum.Cases[fmt.Sprint(id)] = map[string]interface{}{"text": fmt.Sprintf("expand_term(%s, X).", ru.text())}
				id++
			}
		}
		start0 := ga(g.ntName(0))
		if g.arity[0] == 1 {
			start0 = gc(g.ntName(0), gv(0))
		}
		type q struct {
			body, l, r *G
			two       bool
			mode      string
		}
		var qs []q
		for _, in := range inputs {
			qs = append(qs, q{start0, atomsList(in), ga("[]"), true, "recognise"})
			qs = append(qs, q{start0, atomsList(in), gv(5), false, "remainder"})
		}
		for k := 0; k < 36; k++ {
			in := inputs[rr.intn(len(inputs))]
			rem := [][]string{{}, {"c"}, {"b"}, {"a", "b"}}[rr.intn(4)]
			qs = append(qs, q{start0, atomsList(append(append([]string{}, in...), rem...)), atomsList(rem), false, "bound-remainder"})
		}
		for _, in := range inputs { // every suffix of the input as a bound remainder
			if len(in) == 2 {
				for k := 0; k <= len(in); k++ {
					qs = append(qs, q{start0, atomsList(in), atomsList(in[k:]), false, "bound-remainder"})
				}
			}
		}
		qs = append(qs, q{start0, gv(6), ga("[]"), true, "generate"})
		qs = append(qs, q{start0, glist([]*G{gv(6), gv(7)}, nil), ga("[]"), true, "generate"})
		qs = append(qs, q{start0, glist([]*G{gv(6)}, gv(7)), gv(5), false, "generate"})
		// a body that is not a single non-terminal
		qs = append(qs, q{gc(",", start0, glist([]*G{ga("c")}, nil)), atomsList(inputs[rr.intn(len(inputs))]), gv(5), false, "remainder"})
		for _, qq := range qs {
			goal := gc("phrase", qq.body, qq.l, qq.r)
			qt := goal.text()
			if qq.two {
				qt = gc("phrase", qq.body, qq.l).text()
			}
			key := text.String() + "?- " + qt
			if seen[key] {
				continue
			}
			seen[key] = true
			sum.Distinct++
			idx := gVarIdx(goal)
			var names, is []string
			for _, i := range idx {
				names = append(names, fmt.Sprintf("V%d", i))
				is = append(is, fmt.Sprint(i))
			}
			ctx := newStepCtx(context.Background(), stepLimit)
			out := runQueryCtx(ctx, p, answerLimit, names, qt+" .")
			sum.Evaluations++
			sum.count("mode:" + qq.mode)
			sum.count("answers:" + bucket(len(out.Answers)))
			if strings.Contains(out.GoErr, "context canceled") {
				sum.count("step-budget")
				continue
			}
			if hugeOutcome(out) {
				continue
			}
			cases = append(cases, fmt.Sprintf("(%d, %s, %s, %s, %s, %s, %d%%nat, %s, %s)", id, coqList(coqRules), qq.body.coq(), qq.l.coq(), qq.r.coq(), coqList(is),
				answerLimit, coqAnswers(out.Answers, names), coqEnding(out)))
			sum.Cases[fmt.Sprint(id)] = map[string]interface{}{"text": text.String() + "?- " + qt + "."}
			if len(sum.Samples) < 5 && id%211 == 0 {
				sum.Samples = append(sum.Samples, sum.Cases[fmt.Sprint(id)])
			}
			id++
		}
	}
	sum.Rule = "grammars of 2-4 non-terminals (arity 0 or 1, 1-3 rules each, no left recursion) whose bodies nest terminals (also variable terminals and []), non-terminals with arguments, sequence, ;//2 and |//2, {}//1, \\+//1, !//0, call//1,2, if-then-else and if-then, and push-back heads; each grammar is loaded and every rule also expanded with expand_term/2 (compared with the mirrored translation); phrase/2 on every list over {a,b,c} up to length 3 (recognition), phrase/3 with an unbound remainder on every such list, with bound remainders, and in generation mode (unbound and partial lists, answers up to the limit); answers compared, in order, with the translated program run on M and on S; distinct by grammar text and query"
	header := "From Coq Require Import ZArith List String.\nFrom PV Require Import Model.Term Model.MachineCheck Model.DcgCheck.\nImport ListNotations.\nOpen Scope Z_scope.\nOpen Scope string_scope.\n"
	shard := 60
	nf := 0
	for i := 0; i < len(cases); i += shard {
		j := i + shard
		if j > len(cases) {
			j = len(cases)
		}
		name := fmt.Sprintf("cases_dcg_%d.v", nf)
		writeCases(filepath.Join(outDir, name), header, "dcase", "check_dcg", cases[i:j])
		sum.CaseFiles = append(sum.CaseFiles, name)
		nf++
	}
	writeCases(filepath.Join(outDir, "cases_expand.v"), header, "ecase", "check_expand", ecases)
	sum.CaseFiles = append(sum.CaseFiles, "cases_expand.v")
	id = c17StringTerminals(sum, id)
	sum.write(outDir, start)
}

// c17StringTerminals: a terminal written as a double-quoted string denotes the same list as the one
// written in brackets (under each double_quotes flag): same translation up to variable names, phrase/2
// recognises exactly that list, generation yields it, a remainder is what is left.
func c17StringTerminals(sum *runSummary, id int) int {
	texts := []string{"a", "ab", "abc", "é", "aé", "éa", "aéb", "abé", "日本", "a日b", "ab日本c", "üñx"}
	for _, flag := range []string{"codes", "chars"} {
		for _, t := range texts {
			var es []string
			for _, c := range t {
				if flag == "codes" {
					es = append(es, fmt.Sprint(int(c)))
				} else {
					es = append(es, quoteAtom(string(c)))
				}
			}
			br := "[" + strings.Join(es, ",") + "]"
			str := plEscape(t)
			p := prolog.New(nil, nil)
			_ = p.Exec(fmt.Sprintf(":- set_prolog_flag(double_quotes, %s).", flag)) // read before the grammar is
			prog := fmt.Sprintf("s --> %s.\nb --> %s.\ns2 --> %s, tail.\nb2 --> %s, tail.\ntail --> [].\ntail --> [z], tail.\npb, %s --> [z].\npbb, %s --> [z].\n", str, br, str, br, str, br)
			desc := map[string]interface{}{"text": fmt.Sprintf("double_quotes=%s: string terminal %s against %s", flag, str, br), "program": prog}
			sum.Cases[fmt.Sprint(id)] = desc
			sum.Evaluations++
			sum.count("dcg:string-terminal")
			bad := func(what, got string) {
				sum.Failures = append(sum.Failures, failure{ID: id, Class: "dcg:string-terminal-differs-from-bracket-list", Input: desc, Observed: what + ": " + got, Expected: "as for the list written in brackets"})
			}
			if err := p.Exec(prog); err != nil {
				bad("load", err.Error())
				id++
				continue
			}
			ask := func(q string) string {
				out := runQuery(p, 4, []string{"L", "R"}, q)
				var rows []string
				for _, a := range out.Answers {
					rows = append(rows, fmt.Sprint(a["L"], "/", a["R"]))
				}
				if out.Err != nil || out.GoErr != "" {
					rows = append(rows, fmt.Sprint("error ", out.Err, out.GoErr))
				}
				return strings.Join(rows, " ; ")
			}
			pairs := [][2]string{
				{"phrase(s, L) .", "phrase(b, L) ."},
				{"phrase(s, " + br + ") .", "phrase(b, " + br + ") ."},
				{"phrase(s, " + str + ", R) .", "phrase(b, " + br + ", R) ."},
				{"phrase(s2, L, R) .", "phrase(b2, L, R) ."},
				{"phrase(s2, L) .", "phrase(b2, L) ."},
				{"phrase(" + str + ", L) .", "phrase(" + br + ", L) ."},
				{"phrase((" + str + ", tail), L, []) .", "phrase((" + br + ", tail), L, []) ."},
				{"phrase(pb, [z|L], R) .", "phrase(pbb, [z|L], R) ."},
				{"expand_term((x --> " + str + ", y), T), T = (H :- B), copy_term(H-B, L), numbervars(L, 0, _) .", "expand_term((x --> " + br + ", y), T), T = (H :- B), copy_term(H-B, L), numbervars(L, 0, _) ."},
				{"expand_term((x, " + str + " --> y), T), T = (H :- B), copy_term(H-B, L), numbervars(L, 0, _) .", "expand_term((x, " + br + " --> y), T), T = (H :- B), copy_term(H-B, L), numbervars(L, 0, _) ."},
			}
			for _, pr := range pairs {
				if a, b := ask(pr[0]), ask(pr[1]); a != b {
					bad(pr[0], a+"   but "+pr[1]+" gives "+b)
					break
				}
			}
			id++
		}
	}
	return id
}
