"""Per-property parameters of the generic check (lib/vcheck.py)."""

COMMON_TRUSTED = [
    "Coq 8.16.1 kernel and vm_compute (no native_compute); full .vo build",
    "tools/go2coq (Go source -> Gen/*.v) and the semantics it gives Go operators",
    "the Go harness: generators, renderers, canonicaliser of observed answers, emitter of Coq case files",
]

SPECS = {
    "C07": dict(
        level="proof",
        props_deps=["Proofs/ArithInt.v", "Gen/Arith_gen.v"],
        model_deps=["Model/EvalCheck.v"],
        trusted=COMMON_TRUSTED + [
            "Flocq 4 IEEE754.Binary/Bits as the meaning of float64 + - * / comparisons, float64(int64), math.Floor/Ceil/Trunc/Round",
            "hand-written Model/Eval.v for eval/is/comparison dispatch (tied by the correspondence run only)",
        ],
        assumptions=[
            "number leaves reach the evaluator through placeholders (no literal parsing involved)",
            "transcendental functions (sin cos atan exp log sqrt ** ...) are outside the statement and unmodelled",
        ],
        explanation="theorems over the model regenerated from engine/number.go on this run; correspondence: every generated "
                    "expression evaluated by the implementation and by the model (vm_compute); oracle: exact arithmetic (math/big) "
                    "and IEEE doubles evaluated by the harness on every case",
    ),
}
